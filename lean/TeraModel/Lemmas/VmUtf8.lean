/-
T2: the text the value-level VM writes, as bytes.

The VM model keeps text as `List Char` (the Rust code formats into byte buffers and then calls
`from_utf8_unchecked` / `String::from_utf8`).  Two facts tie the two views:
* `escape_bytes_agree`: escaping the UTF-8 bytes of a text with the byte table the translator
  extracts from `tera::utils::escape_html` (Model/Escape.lean over `Generated.escapeTable`) gives the
  UTF-8 bytes of the text the VM model's character-level `escapeHtml` produces — so the model's
  escaper IS the real table, on every text;
* `utf8Decode_encode` (Lemmas/ContribUtf8.lean): the UTF-8 bytes of any `List Char` are accepted by
  the strict decoder (`String::from_utf8`), which gives the text back.
-/
import TeraModel.Lemmas.Escape
import TeraModel.Lemmas.ContribUtf8
import TeraModel.Model.Vm
namespace Tera.Vm
open Tera

/-- what `Tera.escapeHtml` (Model/EvalPrims.lean) writes for one character -/
def escChar (c : Char) : List Char :=
  if c == '&' then "&amp;".toList
  else if c == '<' then "&lt;".toList
  else if c == '>' then "&gt;".toList
  else if c == '"' then "&quot;".toList
  else if c == '\'' then "&#39;".toList
  else [c]

theorem escapeHtml_flatMap (s : List Char) : Tera.escapeHtml s = s.flatMap escChar := rfl

/-- every ASCII row of the generated table is the UTF-8 of what the character-level escaper
writes for that character (checked over the whole table as it is in the source now) -/
theorem ascii_rows_agree :
    (List.range 128).all (fun b => Escape.row Generated.escapeTable b
      == Wire.utf8Encode (escChar (Char.ofNat b))) = true := by decide +kernel

theorem utf8EncodeChar_high (c : Char) (h : 128 ≤ c.toNat) : ∀ b ∈ Wire.utf8EncodeChar c, 128 ≤ b := by
  intro b hb
  unfold Wire.utf8EncodeChar at hb
  simp only at hb
  split at hb
  · omega
  · split at hb
    · simp only [List.mem_cons, List.not_mem_nil, or_false] at hb
      rcases hb with rfl | rfl <;> omega
    · split at hb
      · simp only [List.mem_cons, List.not_mem_nil, or_false] at hb
        rcases hb with rfl | rfl | rfl <;> omega
      · simp only [List.mem_cons, List.not_mem_nil, or_false] at hb
        rcases hb with rfl | rfl | rfl | rfl <;> omega

theorem flatMap_id_of_high (bs : List Nat) (h : ∀ b ∈ bs, 128 ≤ b) :
    bs.flatMap (Escape.row Generated.escapeTable) = bs := by
  induction bs with
  | nil => rfl
  | cons b rest ih =>
    rw [List.flatMap_cons, Escape.row_high Escape.goodTable_generated (h b (by simp)),
      ih (fun x hx => h x (by simp [hx]))]
    rfl

theorem escChar_high (c : Char) (h : 128 ≤ c.toNat) : escChar c = [c] := by
  have hne : ∀ d : Char, d.toNat < 128 → (c == d) = false := by
    intro d hd
    simp only [beq_eq_false_iff_ne, ne_eq]
    intro heq; subst heq; omega
  unfold escChar
  rw [hne '&' (by decide), hne '<' (by decide), hne '>' (by decide), hne '"' (by decide),
    hne '\'' (by decide)]
  simp

theorem escape_char_agree (c : Char) :
    (Wire.utf8EncodeChar c).flatMap (Escape.row Generated.escapeTable) = Wire.utf8Encode (escChar c) := by
  by_cases h : c.toNat < 128
  · have henc : Wire.utf8EncodeChar c = [c.toNat] := by
      unfold Wire.utf8EncodeChar; simp [h]
    have hrow := ascii_rows_agree
    simp only [List.all_eq_true, List.mem_range, beq_iff_eq] at hrow
    have := hrow c.toNat h
    rw [henc, List.flatMap_cons, List.flatMap_nil, List.append_nil, this, Char.ofNat_toNat]
  · have h' : 128 ≤ c.toNat := by omega
    rw [flatMap_id_of_high _ (utf8EncodeChar_high c h'), escChar_high c h']
    simp [Wire.utf8Encode]

/-- The byte-level escaper of the source (the generated table) on the UTF-8 bytes of a text gives
the UTF-8 bytes of the character-level escaper's text. -/
theorem escape_bytes_agree (s : List Char) :
    Escape.escapeHtml (Wire.utf8Encode s) = Wire.utf8Encode (Tera.escapeHtml s) := by
  rw [escapeHtml_flatMap]
  unfold Escape.escapeHtml Escape.escapeWith Wire.utf8Encode
  induction s with
  | nil => rfl
  | cons c cs ih =>
    simp only [List.flatMap_cons, List.flatMap_append, ih]
    rw [escape_char_agree c]
    simp [Wire.utf8Encode]

/-! ### the UTF-8 bytes of a text are valid UTF-8 -/

section valid
open Tera.Escape
theorem seqInfo_2 (b : Nat) (h : 0xC2 ≤ b ∧ b ≤ 0xDF) : seqInfo b = some (1, 0x80, 0xBF) := by
  have : inR 0xC2 0xDF b = true := by simp [inR]; omega
  simp [seqInfo, this]

theorem seqInfo_3 (b : Nat) (h : 0xE1 ≤ b ∧ b ≤ 0xEF) (hne : b ≠ 0xED) : seqInfo b = some (2, 0x80, 0xBF) := by
  have h1 : inR 0xC2 0xDF b = false := by simp [inR]; omega
  have h2 : (b == 0xE0) = false := by simp; omega
  have h4 : (b == 0xED) = false := by simp; omega
  by_cases hc : b ≤ 0xEC
  · have h3 : inR 0xE1 0xEC b = true := by simp [inR]; omega
    simp [seqInfo, h1, h2, h3]
  · have h3 : inR 0xE1 0xEC b = false := by simp [inR]; omega
    have h5 : inR 0xEE 0xEF b = true := by simp [inR]; omega
    simp [seqInfo, h1, h2, h3, h4, h5]

theorem seqInfo_4 (b : Nat) (h : 0xF1 ≤ b ∧ b ≤ 0xF3) : seqInfo b = some (3, 0x80, 0xBF) := by
  have h1 : inR 0xC2 0xDF b = false := by simp [inR]; omega
  have h2 : (b == 0xE0) = false := by simp; omega
  have h3 : inR 0xE1 0xEC b = false := by simp [inR]; omega
  have h4 : (b == 0xED) = false := by simp; omega
  have h5 : inR 0xEE 0xEF b = false := by simp [inR]; omega
  have h6 : (b == 0xF0) = false := by simp; omega
  have h7 : inR 0xF1 0xF3 b = true := by simp [inR]; omega
  simp [seqInfo, h1, h2, h3, h4, h5, h6, h7]

theorem inR_cont (x : Nat) : inR 0x80 0xBF (0x80 + x % 64) = true := by simp [inR]; omega

theorem utf8Valid_1 (b : Nat) (rest : List Nat) (h : b < 0x80) :
    utf8Valid (b :: rest) = utf8Valid rest := by
  conv => lhs; unfold utf8Valid
  simp [h]

theorem utf8Valid_2 (b0 b1 lo hi : Nat) (rest : List Nat) (h0 : ¬ b0 < 0x80)
    (hs : seqInfo b0 = some (1, lo, hi)) :
    utf8Valid (b0 :: b1 :: rest) = (inR lo hi b1 && utf8Valid rest) := by
  conv => lhs; unfold utf8Valid
  simp [h0, hs]

theorem utf8Valid_3 (b0 b1 b2 lo hi : Nat) (rest : List Nat) (h0 : ¬ b0 < 0x80)
    (hs : seqInfo b0 = some (2, lo, hi)) :
    utf8Valid (b0 :: b1 :: b2 :: rest) = (inR lo hi b1 && inR 0x80 0xBF b2 && utf8Valid rest) := by
  conv => lhs; unfold utf8Valid
  simp [h0, hs]

theorem utf8Valid_4 (b0 b1 b2 b3 lo hi : Nat) (rest : List Nat) (h0 : ¬ b0 < 0x80)
    (hs : seqInfo b0 = some (3, lo, hi)) :
    utf8Valid (b0 :: b1 :: b2 :: b3 :: rest)
      = (inR lo hi b1 && inR 0x80 0xBF b2 && inR 0x80 0xBF b3 && utf8Valid rest) := by
  conv => lhs; unfold utf8Valid
  simp [h0, hs]

theorem utf8Valid_encodeChar_append (c : Char) (rest : List Nat) :
    utf8Valid (Wire.utf8EncodeChar c ++ rest) = utf8Valid rest := by
  have hv : c.toNat < 0xD800 ∨ (0xDFFF < c.toNat ∧ c.toNat < 0x110000) := c.valid
  unfold Wire.utf8EncodeChar
  generalize c.toNat = n at hv ⊢
  by_cases h1 : n < 0x80
  · simp only [h1, if_true, List.cons_append, List.nil_append]
    exact utf8Valid_1 n rest h1
  · by_cases h2 : n < 0x800
    · simp only [h1, h2, if_false, if_true, List.cons_append, List.nil_append]
      rw [utf8Valid_2 _ _ _ _ _ (by omega) (seqInfo_2 _ (by omega))]
      simp [inR_cont]
    · by_cases h3 : n < 0x10000
      · simp only [h1, h2, h3, if_false, if_true, List.cons_append, List.nil_append]
        by_cases hq0 : n / 4096 = 0
        · have h0 : 0xE0 + n / 4096 = 0xE0 := by omega
          rw [h0, utf8Valid_3 _ _ _ _ _ _ (by omega) (show seqInfo 0xE0 = some (2, 0xA0, 0xBF) by decide)]
          have hb1 : inR 0xA0 0xBF (0x80 + n / 64 % 64) = true := by simp [inR]; omega
          simp [hb1, inR_cont]
        · by_cases hq13 : n / 4096 = 13
          · have h0 : 0xE0 + n / 4096 = 0xED := by omega
            rw [h0, utf8Valid_3 _ _ _ _ _ _ (by omega) (show seqInfo 0xED = some (2, 0x80, 0x9F) by decide)]
            have hb1 : inR 0x80 0x9F (0x80 + n / 64 % 64) = true := by simp [inR]; omega
            simp [hb1, inR_cont]
          · rw [utf8Valid_3 _ _ _ _ _ _ (by omega) (seqInfo_3 _ (by omega) (by omega))]
            simp [inR_cont]
      · simp only [h1, h2, h3, if_false, List.cons_append, List.nil_append]
        by_cases hq0 : n / 262144 = 0
        · have h0 : 0xF0 + n / 262144 = 0xF0 := by omega
          rw [h0, utf8Valid_4 _ _ _ _ _ _ _ (by omega) (show seqInfo 0xF0 = some (3, 0x90, 0xBF) by decide)]
          have hb1 : inR 0x90 0xBF (0x80 + n / 4096 % 64) = true := by simp [inR]; omega
          simp [hb1, inR_cont]
        · by_cases hq4 : n / 262144 = 4
          · have h0 : 0xF0 + n / 262144 = 0xF4 := by omega
            rw [h0, utf8Valid_4 _ _ _ _ _ _ _ (by omega) (show seqInfo 0xF4 = some (3, 0x80, 0x8F) by decide)]
            have hb1 : inR 0x80 0x8F (0x80 + n / 4096 % 64) = true := by simp [inR]; omega
            simp [hb1, inR_cont]
          · rw [utf8Valid_4 _ _ _ _ _ _ _ (by omega) (seqInfo_4 _ (by omega))]
            simp [inR_cont]

/-- the UTF-8 bytes of any text are valid UTF-8 (`std::str::from_utf8(..).is_ok()`) -/
theorem utf8Valid_encode (s : List Char) : utf8Valid (Wire.utf8Encode s) = true := by
  unfold Wire.utf8Encode
  induction s with
  | nil => rfl
  | cons c cs ih => rw [List.flatMap_cons, utf8Valid_encodeChar_append]; exact ih
end valid

end Tera.Vm
