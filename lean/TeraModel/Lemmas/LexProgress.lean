/-
Progress of the tokenizer loop (C06): on valid UTF-8 with an accepted delimiter set every pass
consumes at least one byte, and the raw-block search terminates, so fuel |src| + 1 is never
exhausted.
-/
import TeraModel.Lemmas.LexLoop
namespace Tera.Lexer
open Tera Utf8

theorem findStartMarkerGo_ge (d : Delims) : ∀ (s : Bytes) (i r : Nat),
    findStartMarkerGo d s i = some r → i ≤ r := by
  intro s
  induction s with
  | nil => intro i r h; simp [findStartMarkerGo] at h
  | cons a t ih =>
    intro i r h
    cases t with
    | nil => simp [findStartMarkerGo] at h
    | cons b t' =>
      unfold findStartMarkerGo at h
      split at h
      · simp at h; omega
      · have := ih (i + 1) r h; omega

/-- a window equal to a (well-formed, two-byte) delimiter at the head of a valid string ends on a
char boundary, so `rest.get(..2)` sees it -/
theorem getRange_two_of_head {a b : Nat} {t x : Bytes} (hv : valid (a :: b :: t) = true)
    (hx : valid x = true) (he : [a, b] = x) : getRange (a :: b :: t) 0 2 = some x := by
  subst he
  have hvt : valid t = true := valid_append_cancel hx t (by simpa using hv)
  have hb : isBoundary (a :: b :: t) 2 = true := by
    have := isBoundary_after_prefix hx t (by simpa using hv)
    simpa using this
  unfold getRange
  simp [hb, isBoundary_zero]

/-- `find_start_marker` cannot answer `Some(0)` when the three `rest.get(..2)` tests failed -/
theorem contentLen_pos {d : Delims} {rest : Bytes} (hv : valid rest = true) (hd : d.wellFormed = true)
    (hne : rest ≠ [])
    (h1 : getRange rest 0 2 ≠ some d.variableStart) (h2 : getRange rest 0 2 ≠ some d.blockStart)
    (h3 : getRange rest 0 2 ≠ some d.commentStart) : 0 < contentLen d rest := by
  unfold contentLen findStartMarker
  simp only [Delims.wellFormed, Bool.and_eq_true] at hd
  obtain ⟨⟨⟨⟨⟨hbs, _⟩, hvs⟩, _⟩, hcs⟩, _⟩ := hd
  split
  · rename_i start hs
    match rest, hne with
    | [a], _ => simp [findStartMarkerGo] at hs
    | a :: b :: t, _ =>
      unfold findStartMarkerGo at hs
      split at hs
      · rename_i hm
        exfalso
        rcases hm with hm | hm | hm
        · exact h1 (getRange_two_of_head hv hvs hm)
        · exact h2 (getRange_two_of_head hv hbs hm)
        · exact h3 (getRange_two_of_head hv hcs hm)
      · have := findStartMarkerGo_ge d _ _ _ hs; omega
  · exact List.length_pos_iff.mpr hne

/-- under the property's hypotheses the `Template` state never emits an empty `Content` -/
theorem stepTemplate_no_empty_content {d : Delims} {p0 : Pos} (hv : valid p0.rest = true)
    (hd : d.wellFormed = true) (hne : p0.rest ≠ []) (st : List State) {sp : Span} {p : Pos}
    {st' : List State} : stepTemplate d p0 st ≠ .emit (.content []) sp p st' := by
  unfold stepTemplate
  simp only
  split
  · split <;> simp
  · split
    · split
      · simp
      · split
        · split
          · split <;> simp
          · simp
          · simp
          · simp
        · simp
    · split
      · split
        · simp
        · split
          · simp
          · split <;> simp
          · simp
      · rename_i h1 h2 h3
        have hpos := contentLen_pos hv hd hne h1 h2 h3
        split
        · simp
        · rename_i text p' ha
          have ht := (advance_ok ha).2
          intro hc
          simp only [Step.emit.injEq, Token.content.injEq] at hc
          rw [hc.1] at ht
          rcases List.take_eq_nil_iff.mp ht.symm with h | h
          · omega
          · exact hne h

theorem findSub_bound (needle : Bytes) : ∀ (hay : Bytes) (i r : Nat), findSub needle hay i = some r →
    i ≤ r ∧ (r - i) + needle.length ≤ hay.length := by
  intro hay
  induction hay with
  | nil => intro i r h; simp [findSub] at h
  | cons b t ih =>
    intro i r h
    unfold findSub at h
    split at h
    · rename_i hp
      simp only [Option.some.injEq] at h
      subst h
      have := List.IsPrefix.length_le (List.isPrefixOf_iff_prefix.mp hp)
      simp at this ⊢; omega
    · have := ih (i + 1) r h
      simp; omega

theorem rawLoop_no_fuel (d : Delims) (rest : Bytes) (bs : Nat) (ews : Bool) (hlen : d.blockStart.length = 2) :
    ∀ (fuel offset : Nat), offset ≤ rest.length → rest.length + 1 ≤ fuel + offset →
    rawLoop d rest bs ews fuel offset ≠ .fuel := by
  intro fuel
  induction fuel with
  | zero => intro offset h1 h2; omega
  | succ f ih =>
    intro offset h1 h2
    unfold rawLoop
    split
    · simp
    · have hmem : memstr (rest.drop offset) d.blockStart = .ok (findSub d.blockStart (rest.drop offset) 0) := by
        simp [memstr, hlen]
      rw [hmem]
      split
      · rename_i hh; cases hh
      · simp
      · rename_i block hm
        simp only [Res.ok.injEq] at hm
        have hb := findSub_bound _ _ _ _ hm
        simp only [List.length_drop, hlen] at hb
        simp only
        split
        · simp
        · split
          · split <;> simp
          · apply ih <;> omega

theorem skipTag_le {blockStr name blockEnd : Bytes} {off : Nat} {w : Bool}
    (h : skipTag blockStr name blockEnd = some (off, w)) : off ≤ blockStr.length := by
  unfold skipTag at h
  simp only at h
  split at h
  · cases h
  · split at h
    · cases h
    · simp only [Option.some.injEq, Prod.mk.injEq] at h
      omega

theorem checkWsStart_rest {p p' : Pos} {ws : Bool} (h : checkWsStart p = .ok (ws, p')) :
    p'.rest.length ≤ p.rest.length := by
  obtain ⟨n, hn, _⟩ := checkWsStart_adv h
  rw [hn.2.1]; simp

theorem stepTemplate_no_fuel {d : Delims} (hlen : d.blockStart.length = 2) (p0 : Pos) (st : List State) :
    stepTemplate d p0 st ≠ .fuel := by
  unfold stepTemplate
  simp only
  split
  · split <;> simp
  · split
    · split
      · simp
      · split
        · rename_i offset ews hsk
          split
          · split <;> simp
          · simp
          · simp
          · rename_i hf
            exact absurd hf (rawLoop_no_fuel d _ _ _ hlen _ _ (skipTag_le hsk) (by omega))
        · simp
    · split
      · split
        · simp
        · split
          · simp
          · split <;> simp
          · simp
      · split <;> simp

theorem emitAfter_no_fuel (p0 : Pos) (n : Nat) (tok : Token) (st : List State) :
    emitAfter p0 n tok st ≠ .fuel := by
  unfold emitAfter; split <;> simp

theorem lexExprToken_no_fuel (p0 : Pos) (st : List State) : lexExprToken p0 st ≠ .fuel := by
  unfold lexExprToken lexNumber lexString
  simp only
  repeat' split
  all_goals first
    | exact emitAfter_no_fuel _ _ _ _
    | simp

theorem endCheck_no_fuel (p0 : Pos) (below : List State) (e : Bytes) (mk : Bool → Token) {s : Step}
    (h : endCheck p0 below e mk = some s) : s ≠ .fuel := by
  unfold endCheck at h
  split at h
  · cases h; exact emitAfter_no_fuel _ _ _ _
  · split at h
    · cases h; exact emitAfter_no_fuel _ _ _ _
    · cases h

theorem stepInTag_no_fuel (d : Delims) (p0 : Pos) (top : State) (below : List State) :
    stepInTag d p0 top below ≠ .fuel := by
  unfold stepInTag
  simp only
  split
  · split <;> simp
  · split
    · split
      · rename_i s hs; exact endCheck_no_fuel _ _ _ _ hs
      · exact lexExprToken_no_fuel _ _
    · split
      · rename_i s hs; exact endCheck_no_fuel _ _ _ _ hs
      · exact lexExprToken_no_fuel _ _
    · simp

theorem step_no_fuel {d : Delims} (hlen : d.blockStart.length = 2) (p0 : Pos) (stack : List State) :
    step d p0 stack ≠ .fuel := by
  unfold step
  split
  · simp
  · exact stepTemplate_no_fuel hlen _ _
  · exact stepInTag_no_fuel _ _ _ _

theorem accepted_facts {d : Delims} (h : d.accepted = true) :
    d.wellFormed = true ∧ d.blockStart.length = 2 ∧ d.blockEnd.length = 2 ∧ d.variableStart.length = 2 ∧
    d.variableEnd.length = 2 ∧ d.commentStart.length = 2 ∧ d.commentEnd.length = 2 := by
  unfold Delims.accepted at h
  simp only [Bool.and_eq_true] at h
  obtain ⟨hw, hv⟩ := h
  unfold Delims.validate at hv
  refine ⟨hw, ?_⟩
  repeat' split at hv
  all_goals first
    | (refine ⟨?_, ?_, ?_, ?_, ?_, ?_⟩ <;> omega)
    | cases hv

/-- every pass strictly shortens `rest`, hence a fuel larger than `|rest|` is never exhausted -/
theorem lexLoop_no_outOfFuel {d : Delims} (hd : d.accepted = true) : ∀ (fuel : Nat) (p : Pos) (stack : List State),
    StackOk stack → valid p.rest = true → p.rest.length < fuel →
    (lexLoop d fuel p stack).ending ≠ .outOfFuel := by
  obtain ⟨hw, hbs, _⟩ := accepted_facts hd
  intro fuel
  induction fuel with
  | zero => intro p stack _ _ h; omega
  | succ f ih =>
    intro p stack hst hv hf
    unfold lexLoop
    split
    · simp
    · rename_i hne
      have hs := step_adv d p stack
      split
      · rename_i tok span p' stack' heq
        rw [heq] at hs
        obtain ⟨n, hadv, _, _, hn⟩ := hs
        have hpos : 0 < n := by
          rcases hn with hn | hn
          · exact hn
          · exfalso
            subst hn
            have hk := step_kind d p stack hst.ne_nil
            rw [heq] at hk
            simp only [StepKind, templateLevel] at hk
            rcases hst with rfl | rfl | rfl
            · simp only [step] at heq
              exact stepTemplate_no_empty_content hv hw hne _ heq
            · simp [inTemplate] at hk
            · simp [inTemplate] at hk
        simp only
        apply ih p' stack' (step_stack d p stack hst heq) (hadv.valid hv)
        rw [hadv.2.1]; simp; have := hadv.le; omega
      · rename_i p' heq
        rw [heq] at hs
        obtain ⟨n, hadv, hn, _⟩ := hs
        apply ih p' stack hst (hadv.valid hv)
        rw [hadv.2.1]; simp; have := hadv.le; omega
      · simp
      · simp
      · rename_i heq
        exact absurd heq (step_no_fuel hbs _ _)

end Tera.Lexer
