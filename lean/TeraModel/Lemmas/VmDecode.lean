/-
Decoding a listing entry into a typed VM instruction (Model/VmState.lean `decodeWith`) agrees with
the classification of the bytecode checker (Model/WellFormed.lean `opOf`): whatever the parser of
`LoadConst` payloads is, an instruction that decodes is one the checker knows, and `opV` of the
decoded instruction is the checker's `Op`.
-/
import TeraModel.Model.Vm
namespace Tera.Vm
open Tera Tera.WellFormed

theorem spreadPops_go (cs : List Char) (n : Nat) :
    cs.foldl (fun n ch => n + (if ch = 't' then 1 else 2)) n
      = (cs.map (· == 't')).foldl (fun n b => n + (if b then 1 else 2)) n := by
  induction cs generalizing n with
  | nil => rfl
  | cons c cs ih =>
    simp only [List.foldl_cons, List.map_cons]
    rw [ih]
    congr 1
    by_cases h : c = 't' <;> simp [h]

theorem spreadPops_flagsOf (arg : String) : WellFormed.spreadPops arg = Vm.spreadPops (flagsOf arg) := by
  unfold WellFormed.spreadPops Vm.spreadPops flagsOf
  exact spreadPops_go arg.toList 0

theorem flagsOf_length (arg : String) : (flagsOf arg).length = arg.length := by
  simp [flagsOf, String.length_toList]

theorem nullary_some {arg : String} {i vi : VInstr} (h : nullary arg i = some vi) : vi = i := by
  unfold nullary at h
  split at h <;> simp_all

theorem decode_opOf (parseConst : String → Option Value) (i : Instr) (vi : VInstr)
    (h : decodeWith parseConst i = some vi) : opOf i = some (opV vi) := by
  cases i with
  | other kind arg =>
    simp only [decodeWith] at h
    split at h
    all_goals first
      | (cases h; done)
      | (have := nullary_some h; subst this; simp [opOf, opV]; done)
      | (simp only [Option.some.injEq] at h; subst h
         simp [opOf, opV, spreadPops_flagsOf, flagsOf_length]; done)
      | (simp only [Option.map_eq_some_iff] at h; obtain ⟨x, hx, rfl⟩ := h
         simp [opOf, opV, hx]; done)
  | _ => simp only [decodeWith, Option.some.injEq] at h; subst h; simp [opOf, opV]

end Tera.Vm
