/-
A batch in which no template has `{% extends %}` is filed without parents: through `summaryOf`,
`Reg.derive` (`find_parents` of a template without parent is the empty list), `commitAll` and the
adapter `buildEnv`, every entry of the VM's template table — the aliases of include targets too —
has `parents = []`.  Used by Props/RefineE2EParents.lean to discharge
`RefineE2E.single_source_no_parents`.
-/
import TeraModel.Lemmas.PipelineNames
import TeraModel.Lemmas.RegCongr
namespace Tera.Pipeline
open Tera Tera.Reg

theorem findParents_no_parent (ps : List String) (S : List Tpl) (t : Tpl) (h : t.parent = none) :
    findParents ps S t = .ok [] := by
  simp [findParents, findParentsAux, h]

theorem infoOf_parents (named : List (String × TemplateData)) (e : Reg.Entry)
    (p : String × Vm.TemplateInfo) (h : infoOf named e = some p) : p.2.parents = e.parents := by
  unfold infoOf at h
  cases h1 : lookupLast e.tpl.name named with
  | none => simp [h1] at h
  | some td =>
    simp only [h1] at h
    cases h2 : lineagesOf named e.lineage with
    | none => simp [h2] at h
    | some lin =>
      simp only [h2, Option.some.injEq] at h
      subst h
      rfl

/-- every registered entry of a batch without `extends` has no parents -/
theorem register_parents_nil (cfg : Config) (tds : List TemplateData) (st : Reg.State)
    (hok : ∀ td ∈ tds, TDOK cfg.reg td) (hr : register cfg tds = .ok st)
    (hp : ∀ td ∈ tds, td.summary.base.parent = none) :
    ∀ e ∈ st.templates, e.parents = [] := by
  obtain ⟨d, ts0, hd, hc, _, hS⟩ := (register_facts cfg tds st hok hr).ex
  obtain ⟨l1, _, _, h1, _, _, hdp, _, _, _⟩ := derive_parts hd
  intro e' he'
  obtain ⟨e, _, hce⟩ := commitAll_mem ts0 st.templates hc e' he'
  unfold commitEntry at hce
  cases hsz : lookupNat d.sizes e.tpl.name with
  | none => simp [hsz] at hce
  | some sz =>
    cases hps : lookupParents d.parents e.tpl.name with
    | none => simp [hsz, hps] at hce
    | some pars =>
      cases hl : tbLookup d.lineage e.tpl.name with
      | none => simp [hsz, hps, hl] at hce
      | some lin =>
        simp only [hsz, hps, hl, Except.ok.injEq] at hce
        subst hce
        show pars = []
        rw [hdp, loop1_lookup h1] at hps
        split at hps
        · unfold parentsOf at hps
          cases hg : get (ts0.map (·.tpl)) e.tpl.name with
          | none => simp [hg] at hps
          | some t =>
            simp only [hg] at hps
            obtain ⟨td, _, ht, hmem, _⟩ := hS _ t hg
            have hpar : t.parent = none := by
              rw [ht]
              exact hp td hmem
            rw [findParents_no_parent _ _ t hpar] at hps
            simp only [Option.some.injEq] at hps
            exact hps.symm
        · cases hps

/-- **no `extends` in the batch ⇒ `parents = []` for every template the VM can look up** -/
theorem buildEnv_parents_nil (cfg : Config) (tds : List TemplateData) (st : Reg.State) (env : Env)
    (hok : ∀ td ∈ tds, TDOK cfg.reg td) (hr : register cfg tds = .ok st)
    (hb : buildEnv cfg tds st = some env) (hp : ∀ td ∈ tds, td.summary.base.parent = none) :
    ∀ n tpl, env.template n = some tpl → tpl.parents = [] := by
  have hreg := register_parents_nil cfg tds st hok hr hp
  unfold buildEnv at hb
  cases hi : infosOf (namedOf tds) st.templates with
  | none => simp [hi] at hb
  | some tpls =>
    cases hg : globalComponents (namedOf tds) st.comps with
    | none => simp [hi, hg] at hb
    | some comps =>
      simp only [hi, hg, Option.some.injEq] at hb
      subst hb
      have htpls : ∀ p ∈ tpls, p.2.parents = [] := by
        intro p hpm
        obtain ⟨e, he, hinfo⟩ := (infosOf_spec (namedOf tds) st.templates tpls hi).2 p hpm
        rw [infoOf_parents _ e p hinfo]
        exact hreg e he
      intro n tpl hl
      unfold Vm.Env.template at hl
      obtain ⟨k, hm⟩ := assoc_mem hl
      simp only [mkEnv, List.mem_append] at hm
      rcases hm with hm | hm
      · exact htpls (k, tpl) hm
      · obtain ⟨r, hr'⟩ := includeAliases_mem _ _ tpls _ (k, tpl) hm
        obtain ⟨k', hm'⟩ := assoc_mem hr'
        exact htpls (k', tpl) hm'

/-- the summary of a freshly built template carries the parsed `extends` target -/
theorem newTemplate_parent (d : Delims) (name : String) (src : Bytes) (td : TemplateData)
    (h : newTemplate d name src = .ok td) :
    ∃ t, front d src = .ok t ∧ td.summary.base.parent = t.parent := by
  unfold newTemplate at h
  cases hf : front d src with
  | ok t =>
    rw [hf] at h
    simp only at h
    cases hc : Compiler.compileTemplate t with
    | error s => simp [hc] at h
    | ok c =>
      simp only [hc] at h
      split at h <;> try cases h
      exact ⟨t, rfl, rfl⟩
  | «syntax» => simp [hf] at h
  | panic s => simp [hf] at h
  | outOfFuel => simp [hf] at h

theorem newAll_sources (d : Delims) : ∀ (sources : List (String × Bytes)) (tds : List TemplateData),
    newAll d sources = .ok tds → ∀ td ∈ tds, ∃ p ∈ sources, newTemplate d p.1 p.2 = .ok td := by
  intro sources
  induction sources with
  | nil => intro tds h; simp only [newAll] at h; cases h; intro td htd; cases htd
  | cons p rest ih =>
    intro tds h
    obtain ⟨name, src⟩ := p
    unfold newAll at h
    cases hn : newTemplate d name src with
    | ok t =>
      simp only [hn] at h
      cases hr : newAll d rest with
      | error e => simp [hr] at h
      | ok ts =>
        simp only [hr, Except.ok.injEq] at h
        subst h
        intro td htd
        simp only [List.mem_cons] at htd
        rcases htd with rfl | htd
        · exact ⟨(name, src), List.mem_cons_self, hn⟩
        · obtain ⟨q, hq, hqt⟩ := ih ts hr td htd
          exact ⟨q, List.mem_cons_of_mem _ hq, hqt⟩
    | «syntax» => simp [hn] at h
    | panic s => simp [hn] at h
    | outOfFuel => simp [hn] at h
    | internal w => simp [hn] at h

/-- **a batch of sources none of which has `{% extends %}`: every template is filed without
parents** -/
theorem batch_parents_nil (cfg : Config) (sources : List (String × Bytes)) (env : Env)
    (h : addTemplatesT cfg sources = .ok env)
    (hp : ∀ p ∈ sources, ∀ t, front cfg.delims p.2 = .ok t → t.parent = none) :
    ∀ n tpl, env.template n = some tpl → tpl.parents = [] := by
  unfold addTemplatesT at h
  cases hn : newAll cfg.delims sources with
  | error e => simp [hn] at h
  | ok tds =>
    simp only [hn] at h
    cases hr : register cfg tds with
    | error e => simp [hr] at h
    | ok st =>
      simp only [hr] at h
      cases hb : buildEnv cfg tds st with
      | none => simp [hb] at h
      | some env' =>
        simp only [hb, Except.ok.injEq] at h
        subst h
        have hok := newAll_tdok cfg.reg cfg.delims _ tds hn
        refine buildEnv_parents_nil cfg tds st env' hok hr hb ?_
        intro td htd
        obtain ⟨q, hq, hqt⟩ := newAll_sources cfg.delims sources tds hn td htd
        obtain ⟨t, hf, hpar⟩ := newTemplate_parent cfg.delims q.1 q.2 td hqt
        rw [hpar]
        exact hp q hq t hf

/-- one source without `extends`: the template is filed without parents -/
theorem single_source_parents_nil (cfg : Config) (name : String) (src : Bytes) (t : Template)
    (env : Env) (hf : front cfg.delims src = .ok t) (hpar : t.parent = none)
    (h : addTemplatesT cfg [(name, src)] = .ok env) :
    ∀ n tpl, env.template n = some tpl → tpl.parents = [] := by
  refine batch_parents_nil cfg _ env h ?_
  intro p hp t' ht'
  simp only [List.mem_singleton] at hp
  subst hp
  rw [hf] at ht'
  cases ht'
  exact hpar

end Tera.Pipeline
