/-
Results of `SoftFloat.roundDyadic` are in the canonical form of `F64.ofBits`: encoding them with
`F64.toBits` (what the driver prints) and decoding again gives the same value.
-/
import TeraModel.Lemmas.SoftFloatRound
namespace Tera.SoftFloat
open F64

theorem bitLen_le_of_lt (n j : Nat) (h : n < 2 ^ j) : bitLen n ≤ j := by
  unfold bitLen
  split
  · omega
  · rename_i hn
    have := (Nat.log2_lt hn).mpr h
    omega

theorem lt_bitLen_of_le (n j : Nat) (h : 2 ^ j ≤ n) : j < bitLen n := by
  by_contra hc
  have h1 : 2 ^ bitLen n ≤ 2 ^ j := Nat.pow_le_pow_right (by omega) (by omega)
  have := lt_two_pow_bitLen n
  omega

/-- A canonical pair: normal (`2^52 ≤ m < 2^53`, `k ≤ 2045`) or subnormal / zero (`k = 0`). -/
theorem ofBits_toBits_canonical (neg : Bool) (m k : Nat) (hm : m < 2 ^ 53)
    (hc : 2 ^ 52 ≤ m ∨ k = 0) (hk : k ≤ 2045) :
    F64.ofBits (F64.toBits (.fin neg m ((k : Int) - 1074))) = .fin neg m ((k : Int) - 1074) := by
  by_cases hn : 2 ^ 52 ≤ m
  · -- normal
    have hbl : bitLen m = 53 := by
      have := bitLen_le_of_lt m 53 hm
      have := lt_bitLen_of_le m 52 hn
      omega
    have hm0 : m ≠ 0 := by omega
    have hbits : F64.toBits (.fin neg m ((k : Int) - 1074))
        = (if neg then 2 ^ 63 else 0) + (k + 1) * 2 ^ 52 + (m - 2 ^ 52) := by
      unfold F64.toBits
      simp only [hm0, if_false, hbl, Nat.le_refl, if_true, Nat.sub_self, Nat.pow_zero, Nat.mul_one]
      have e1 : (k : Int) - 1074 - ((0 : Nat) : Int) + 1075 = ((k + 1 : Nat) : Int) := by omega
      rw [e1]
      have e2 : ¬ (((k + 1 : Nat) : Int) ≥ 2047) := by omega
      have e3 : (((k + 1 : Nat) : Int) ≥ 1) := by omega
      simp only [e2, e3, if_false, if_true, Int.toNat_natCast]
    rw [hbits]
    unfold F64.ofBits
    have hs : ((if neg then 2 ^ 63 else 0) + (k + 1) * 2 ^ 52 + (m - 2 ^ 52)) / 2 ^ 63 % 2
        = if neg then 1 else 0 := by
      cases neg <;> simp only [if_true, if_false, Bool.false_eq_true] <;> omega
    have hex : ((if neg then 2 ^ 63 else 0) + (k + 1) * 2 ^ 52 + (m - 2 ^ 52)) / 2 ^ 52 % 2048
        = k + 1 := by
      cases neg <;> simp only [if_true, if_false, Bool.false_eq_true] <;> omega
    have hma : ((if neg then 2 ^ 63 else 0) + (k + 1) * 2 ^ 52 + (m - 2 ^ 52)) % 2 ^ 52
        = m - 2 ^ 52 := by
      cases neg <;> simp only [if_true, if_false, Bool.false_eq_true] <;> omega
    simp only [hs, hex, hma]
    have e1 : (k + 1 == 2047) = false := by simp; omega
    have e2 : (k + 1 == 0) = false := by simp
    simp only [e1, e2, Bool.false_eq_true, if_false]
    have e3 : 2 ^ 52 + (m - 2 ^ 52) = m := by omega
    have e4 : ((k + 1 : Nat) : Int) - 1075 = (k : Int) - 1074 := by omega
    rw [e3, e4]
    cases neg <;> simp
  · -- subnormal or zero
    have hk0 : k = 0 := by rcases hc with h | h <;> [exact absurd h hn; exact h]
    subst hk0
    have hm52 : m < 2 ^ 52 := by omega
    have hbits : F64.toBits (.fin neg m (((0 : Nat) : Int) - 1074)) = (if neg then 2 ^ 63 else 0) + m := by
      unfold F64.toBits
      by_cases hm0 : m = 0
      · simp [hm0]
      · have hbl : bitLen m ≤ 52 := bitLen_le_of_lt m 52 hm52
        have hbl1 : 1 ≤ bitLen m := by
          have := lt_bitLen_of_le m 0 (by rw [Nat.pow_zero]; exact Nat.pos_of_ne_zero hm0)
          omega
        have hle : bitLen m ≤ 53 := by omega
        simp only [hm0, if_false, hle, if_true]
        have e2 : ¬ (((0 : Nat) : Int) - 1074 - ((53 - bitLen m : Nat) : Int) + 1075 ≥ 2047) := by omega
        have e3 : ¬ (((0 : Nat) : Int) - 1074 - ((53 - bitLen m : Nat) : Int) + 1075 ≥ 1) := by omega
        simp only [e2, e3, if_false]
        have e4 : (1 - (((0 : Nat) : Int) - 1074 - ((53 - bitLen m : Nat) : Int) + 1075)).toNat
            = 53 - bitLen m := by omega
        rw [e4, Nat.mul_div_cancel _ (Nat.two_pow_pos _)]
    rw [hbits]
    unfold F64.ofBits
    have hs : ((if neg then 2 ^ 63 else 0) + m) / 2 ^ 63 % 2 = if neg then 1 else 0 := by
      cases neg <;> simp only [if_true, if_false, Bool.false_eq_true] <;> omega
    have hex : ((if neg then 2 ^ 63 else 0) + m) / 2 ^ 52 % 2048 = 0 := by
      cases neg <;> simp only [if_true, if_false, Bool.false_eq_true] <;> omega
    have hma : ((if neg then 2 ^ 63 else 0) + m) % 2 ^ 52 = m := by
      cases neg <;> simp only [if_true, if_false, Bool.false_eq_true] <;> omega
    simp only [hs, hex, hma]
    cases neg <;> simp

theorem ofBits_toBits_inf (neg : Bool) : F64.ofBits (F64.toBits (.inf neg)) = .inf neg := by
  cases neg <;> decide +kernel

/-- What `roundDyadic` returns survives the bit encoding: it is exactly what the wire decodes. -/
theorem ofBits_toBits_roundDyadic (neg : Bool) (num den : Nat) (hd : 0 < den) :
    F64.ofBits (F64.toBits (roundDyadic neg num den)) = roundDyadic neg num den := by
  obtain ⟨m, k, hR, heq⟩ := roundDyadic_spec neg num den hd
  rw [heq]
  by_cases hk : k ≤ 2045
  · simp only [hk, if_true]
    exact ofBits_toBits_canonical neg m k hR.lt hR.normal_or_sub hk
  · simp only [hk, if_false]
    exact ofBits_toBits_inf neg

/-- Canonical values: those that the bit encoding reproduces. -/
def Canonical (x : F64) : Prop := F64.ofBits (F64.toBits x) = x

theorem canonical_nan : Canonical .nan := by unfold Canonical; decide +kernel
theorem canonical_inf (s : Bool) : Canonical (.inf s) := ofBits_toBits_inf s
theorem canonical_zero (s : Bool) : Canonical (zero s) := by
  have := ofBits_toBits_canonical s 0 0 (by omega) (Or.inr rfl) (by omega)
  simpa [Canonical, zero] using this
theorem canonical_roundDyadic (neg : Bool) (num den : Nat) (hd : 0 < den) :
    Canonical (roundDyadic neg num den) := ofBits_toBits_roundDyadic neg num den hd
theorem canonical_roundScaled (neg : Bool) (n : Nat) (e : Int) : Canonical (roundScaled neg n e) :=
  canonical_roundDyadic neg _ _ (Nat.two_pow_pos _)

theorem canonical_add (a b : F64) : Canonical (add a b) := by
  cases a <;> cases b <;> simp only [add] <;>
    first
    | exact canonical_nan
    | exact canonical_inf _
    | skip
  · split
    · exact canonical_inf _
    · exact canonical_nan
  · split
    · exact canonical_zero _
    · exact canonical_roundScaled _ _ _

theorem canonical_sub (a b : F64) : Canonical (sub a b) := canonical_add a (neg b)

theorem canonical_mul (a b : F64) : Canonical (mul a b) := by
  cases a <;> cases b <;> simp only [mul] <;>
    first
    | exact canonical_nan
    | exact canonical_inf _
    | exact canonical_roundScaled _ _ _
    | skip
  all_goals
    split
    · exact canonical_nan
    · exact canonical_inf _

theorem canonical_div (a b : F64) : Canonical (div a b) := by
  cases a <;> cases b <;> simp only [div] <;>
    first
    | exact canonical_nan
    | exact canonical_inf _
    | exact canonical_zero _
    | skip
  rename_i sa ma ea sb mb eb
  by_cases hmb : mb = 0
  · simp only [hmb, if_true]
    split
    · exact canonical_nan
    · exact canonical_inf _
  · simp only [hmb, if_false]
    exact canonical_roundDyadic _ _ _ (Nat.mul_pos (Nat.pos_of_ne_zero hmb) (Nat.two_pow_pos _))

end Tera.SoftFloat
