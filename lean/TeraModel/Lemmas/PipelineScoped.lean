/-
The third conjunct of `Compiler.templateScoped` for every AST the parser model returns (P2 of
Props/Pipeline.lean at full strength): the compiler of a component definition records no block.
Tree lemma on top of bG1_parser's `parse_sc` (every component call INSIDE an expression is
self-closing, Lemmas/TemplateParserSC.lean) and `parse_post` (a component definition body contains
no `{% block %}`, Lemmas/TemplateParserLegal.lean): the events `Compiler.nodesEvents` records for
such a body contain no `blockDef`.
-/
import TeraModel.Lemmas.TemplateParserSC
import TeraModel.Lemmas.TemplateParserScoped
import TeraModel.Lemmas.CompilerEvents
namespace Tera.Pipeline
open Tera Tera.Compiler Tera.TParser

/-- not a `blockDef` event -/
def NB (ev : Event) : Prop := ev.isBlock = false

/-- an expression as it occurs in a node: deep self-closing, or the whole expression of a
`{% <name ..> %} … {% </name> %}` node whose body has no block -/
def ExprOK (e : Expr) : Prop :=
  exprSC e = true ∨
  ∃ n kw body, e = .componentCall n kw body false ∧ mapItemsSC kw = true ∧ nodesSC body = true ∧
    Node.blockNamesList body = []

theorem exprOK_of_node (e : Expr) (h1 : nodeSC (.expression e) = true)
    (h2 : Node.blockNames (.expression e) = []) : ExprOK e := by
  cases e with
  | componentCall n kw body sc =>
    cases sc with
    | false =>
      right
      simp only [nodeSC, Bool.and_eq_true] at h1
      simp only [Node.blockNames] at h2
      exact ⟨n, kw, body, rfl, h1.1, h1.2, h2⟩
    | true =>
      left
      simpa [nodeSC] using h1
  | _ => left; simpa [nodeSC] using h1

theorem blockNamesList_append_nil {a b : List String} (h : a ++ b = []) : a = [] ∧ b = [] := by
  cases a <;> simp_all

theorem exprOK_sc {e : Expr} (h : ExprOK e) (hne : ∀ n kw b, e ≠ .componentCall n kw b false) :
    exprSC e = true := by
  rcases h with h | ⟨n, kw, b, heq, _⟩
  · exact h
  · exact absurd heq (hne n kw b)

theorem exprOK_true {e : Expr} (h : exprSC e = true) : ExprOK e = True := by
  simp [ExprOK, h]

theorem NB_simp (ev : Event) : NB ev ↔ ev.isBlock = false := Iff.rfl

/-- expression case: the constructor is not a component call with a body -/
macro "excase" : tactic => `(tactic|
  (rename_i a
   have hsc := exprOK_sc a (by intro _ _ _ h; cases h)
   simp only [exprSC, Bool.and_eq_true] at hsc
   simp_all [allE_append, allE_cons, allE_nil, NB_simp, Event.isBlock, exprOK_true]))

/-- node / list case: unfold the Bool predicate and the block names -/
macro "ndcase" : tactic => `(tactic|
  (simp only [nodeSC, nodesSC, exprListSC, kwargsSC, arrayItemsSC, mapItemsSC, optExprSC, exprSC,
     Node.blockNames, Node.blockNamesList, Bool.and_eq_true, List.append_eq_nil_iff] at *
   simp_all [allE_append, allE_cons, allE_nil, NB_simp, Event.isBlock, exprOK_true]))

theorem sc_no_block_aux :
    (∀ il d e, ExprOK e → AllE NB (exprEvents il d e)) ∧
    (∀ il d ns, nodesSC ns = true → Node.blockNamesList ns = [] → AllE NB (nodesEvents il d ns)) ∧
    (∀ il d n, nodeSC n = true → Node.blockNames n = [] → AllE NB (nodeEvents il d n)) ∧
    (∀ il d k, kwargsSC k = true → AllE NB (kwargsEvents il d k)) ∧
    (∀ il d f, exprListSC f = true → AllE NB (filtersEvents il d f)) ∧
    (∀ il d o, optExprSC o = true → AllE NB (optExprEvents il d o)) ∧
    (∀ il d a, arrayItemsSC a = true → AllE NB (arrayItemsEvents il d a)) ∧
    (∀ il d m, mapItemsSC m = true → AllE NB (mapItemsEvents il d m)) := by
  apply exprEvents.mutual_induct
    (motive_1 := fun il d e => ExprOK e → AllE NB (exprEvents il d e))
    (motive_2 := fun il d ns => nodesSC ns = true → Node.blockNamesList ns = [] → AllE NB (nodesEvents il d ns))
    (motive_3 := fun il d n => nodeSC n = true → Node.blockNames n = [] → AllE NB (nodeEvents il d n))
    (motive_4 := fun il d k => kwargsSC k = true → AllE NB (kwargsEvents il d k))
    (motive_5 := fun il d f => exprListSC f = true → AllE NB (filtersEvents il d f))
    (motive_6 := fun il d o => optExprSC o = true → AllE NB (optExprEvents il d o))
    (motive_7 := fun il d a => arrayItemsSC a = true → AllE NB (arrayItemsEvents il d a))
    (motive_8 := fun il d m => mapItemsSC m = true → AllE NB (mapItemsEvents il d m))
  all_goals intros
  all_goals simp only [exprEvents, nodesEvents, nodeEvents, kwargsEvents, filtersEvents,
    optExprEvents, arrayItemsEvents, mapItemsEvents] at *
  case case12 =>
    -- component call: self-closing inside an expression; with a body only as a whole node
    rename_i name kwargs body sc ih2 ih1 a
    rcases a with a | ⟨n, kw, b, heq, hkw, hb, hnames⟩
    · simp only [exprSC, Bool.and_eq_true] at a
      simp [a.1, allE_cons, NB_simp, Event.isBlock, ih1 a.2]
    · cases heq
      simp [allE_append, allE_cons, NB_simp, Event.isBlock, ih1 hkw, ih2 hb hnames]
  case case19 =>
    rename_i e ih1 a1 a
    exact ih1 (exprOK_of_node e a1 a)
  case case44 =>
    rename_i head rest hx ih1 a
    simp only [exprListSC, Bool.and_eq_true] at a
    exact ih1 a.2
  all_goals first
    | excase
    | ndcase

/-- the compiler of a component definition of an accepted template records no block -/
theorem parse_components_no_block_event (maxDepth : Nat) (toks : List Tok) (t : Template)
    (s : TState) (h : parse maxDepth toks = .ok t s) :
    ∀ d ∈ t.componentDefinitions, (componentEvents d).any Event.isBlock = false := by
  intro d hd
  have hsc := (parse_sc maxDepth toks t s h).2 d hd
  obtain ⟨_, _, _, hdefs⟩ := parse_post maxDepth toks t s h
  have hnames := (hdefs d hd).2
  have hall := sc_no_block_aux.2.1 false 0 d.body hsc hnames
  unfold componentEvents
  rw [Bool.eq_false_iff]
  intro hany
  obtain ⟨ev, hev, hb⟩ := List.any_eq_true.mp hany
  have := hall ev hev
  rw [NB_simp] at this
  rw [this] at hb
  cases hb

/-- **every AST the parser model returns is `templateScoped`** (all three conjuncts) -/
theorem parse_templateScoped (maxDepth : Nat) (toks : List Tok) (t : Template) (s : TState)
    (h : parse maxDepth toks = .ok t s) : templateScoped t = true := by
  obtain ⟨h1, h2⟩ := parse_scoped maxDepth toks t s h
  have h3 := parse_components_no_block_event maxDepth toks t s h
  unfold templateScoped
  simp only [Bool.and_eq_true, List.all_eq_true, Bool.not_eq_true']
  exact ⟨h1, fun d hd => ⟨h2 d hd, h3 d hd⟩⟩

end Tera.Pipeline
