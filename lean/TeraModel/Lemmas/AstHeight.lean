/-
Height of the AST (`Model/Ast.lean`): the quantity that bounds every recursion over the tree
(compiler, optimiser, `Drop`).
-/
import TeraModel.Model.Ast
namespace Tera

mutual
def Expr.height : Expr → Nat
  | .const _ => 1
  | .var _ => 1
  | .array items => 1 + ArrayEntry.heightList items
  | .map entries => 1 + MapEntry.heightList entries
  | .getAttr e _ _ => 1 + Expr.height e
  | .getItem e s _ => 1 + max (Expr.height e) (Expr.height s)
  | .slice e a b c _ =>
    1 + max (Expr.height e) (max (Expr.heightOpt a) (max (Expr.heightOpt b) (Expr.heightOpt c)))
  | .filter e _ kw => 1 + max (Expr.height e) (Expr.heightKw kw)
  | .test e _ kw => 1 + max (Expr.height e) (Expr.heightKw kw)
  | .ternary c t f => 1 + max (Expr.height c) (max (Expr.height t) (Expr.height f))
  | .listComprehension e _ _ t c =>
    1 + max (Expr.height e) (max (Expr.height t) (Expr.heightOpt c))
  | .componentCall _ kw body _ => 1 + max (MapEntry.heightList kw) (Node.heightList body)
  | .functionCall _ kw => 1 + Expr.heightKw kw
  | .unary _ e => 1 + Expr.height e
  | .binary _ l r => 1 + max (Expr.height l) (Expr.height r)
def Expr.heightOpt : Option Expr → Nat
  | none => 0
  | some e => Expr.height e
def Expr.heightList : List Expr → Nat
  | [] => 0
  | e :: es => max (Expr.height e) (Expr.heightList es)
def Expr.heightKw : List (String × Expr) → Nat
  | [] => 0
  | (_, e) :: es => max (Expr.height e) (Expr.heightKw es)
def ArrayEntry.heightList : List ArrayEntry → Nat
  | [] => 0
  | .item e :: es => max (Expr.height e) (ArrayEntry.heightList es)
  | .spread e :: es => max (Expr.height e) (ArrayEntry.heightList es)
def MapEntry.heightList : List MapEntry → Nat
  | [] => 0
  | .keyValue _ e :: es => max (Expr.height e) (MapEntry.heightList es)
  | .spread e :: es => max (Expr.height e) (MapEntry.heightList es)
def Node.height : Node → Nat
  | .content _ => 1
  | .expression e => 1 + Expr.height e
  | .set _ v _ => 1 + Expr.height v
  | .blockSet _ fs body _ => 1 + max (Expr.heightList fs) (Node.heightList body)
  | .include _ => 1
  | .block _ body => 1 + Node.heightList body
  | .forLoop _ _ t body els => 1 + max (Expr.height t) (max (Node.heightList body) (Node.heightList els))
  | .break => 1
  | .continue => 1
  | .if c body els => 1 + max (Expr.height c) (max (Node.heightList body) (Node.heightList els))
  | .filterSection _ kw body => 1 + max (Expr.heightKw kw) (Node.heightList body)
def Node.heightList : List Node → Nat
  | [] => 0
  | n :: ns => max (Node.height n) (Node.heightList ns)
end

end Tera
