/-
The statement-level parser at level `r` (= MAX_RECURSION_DEPTH − recursion_depth at the call of
`parse_until`) returns nodes of counted depth ≤ `r` (Lemmas/AstCounted.lean); component
definition bodies stay one below the limit.
-/
import TeraModel.Lemmas.ExprCounted
import TeraModel.Lemmas.TemplateParserLegal
namespace Tera.TParser
open Tera Tera.Parser

/-- every recorded component body fits under the limit `M` -/
def DefsCd (M : Nat) (ds : List ComponentDefinition) : Prop :=
  ∀ d ∈ ds, Node.cdList d.body + 1 ≤ M

theorem DefsCd.snoc {M : Nat} {ds : List ComponentDefinition} {d : ComponentDefinition}
    (h : DefsCd M ds) (hd : Node.cdList d.body + 1 ≤ M) : DefsCd M (ds ++ [d]) := by
  intro x hx
  rcases List.mem_append.1 hx with hx | hx
  · exact h x hx
  · simp at hx; subst hx; exact hd

theorem TW.liftV_swap {x : P α} {V : α → Prop} {s : TState} {Q : α → TState → Prop}
    (h : ∀ a p', V a → Q a { s with p := p' }) (hx : PW x V) : TW (TParser.lift x) s Q :=
  TW.liftV hx h

/-- two-part postconditions in curried continuation-passing form -/
theorem TW.cps2 {x : T α} {s : TState} {A : α → Prop} {B : TState → Prop}
    (h : TW x s (fun a s' => A a ∧ B s'))
    (Q : α → TState → Prop) (hq : ∀ a s', A a → B s' → Q a s') : TW x s Q :=
  TW.mono h (fun a s' hab => hq a s' hab.1 hab.2)

macro "cdttac" : tactic => `(tactic|
  repeat' (first
    | (show TW _ _ _; dsimp only)
    | with_reducible exact TW.err
    | with_reducible exact TW.fuel
    | with_reducible exact TW.panic
    | (with_reducible apply_assumption -exfalso; intro _ _ _ _)
    | with_reducible refine TW.bind ?_
    | with_reducible refine TW.pure ?_
    | with_reducible refine TW.pushCtx _ ?_
    | with_reducible refine TW.popCtx ?_
    | with_reducible refine TW.getState ?_
    | with_reducible refine TW.modify _ ?_
    | (with_reducible apply TW.exprV_swap; (intro _ _ _); rotate_left; focus (with_reducible assumption))
    | (with_reducible apply TW.liftV_swap; (intro _ _ _); rotate_left; focus (with_reducible apply_assumption -exfalso))
    | with_reducible refine TW.lift _ (fun _ _ => ?_)
    | with_reducible refine TW.ite (fun _ => ?_) (fun _ => ?_)
    | (show TW _ _ _; split)))

/-- closes a leaf `counted-depth bound ∧ (definitions stay bounded)` -/
macro "cdtleaf" : tactic => `(tactic|
  (refine ⟨?_, ?_⟩
   · (try simp only [Node.cd, Node.cdList, Node.cdElse, Expr.cd, Expr.cdOpt, Expr.cdKw, Expr.cdList,
        Option.toList, Node.cdList_append, Expr.cdList_append, MapEntry.cdList] at *)
     omega
   · intro _; solve_by_elim))

section level
variable {C : Bool → Cfg} {recU : EndCheck → T (List Node)} {ex : Bool → Nat → P Expr}
variable {r M : Nat} (hM : r + 1 ≤ M)
variable (Hex : ∀ il m, PW (ex il m) (fun e => e.cd ≤ r))
variable (HU : ∀ ec s, TW (recU ec) s (fun nodes s' => Node.cdList nodes ≤ r
  ∧ (DefsCd M s.componentDefinitions → DefsCd M s'.componentDefinitions)))
include Hex HU

theorem CDT.parseIf : ∀ n s, TW (parseIf recU ex n) s
    (fun x s' => Node.cd (.if x.1 x.2.1 x.2.2) ≤ r + 1
      ∧ (DefsCd M s.componentDefinitions → DefsCd M s'.componentDefinitions)) := by
  intro n
  induction n with
  | zero => intro s; exact TW.fuel
  | succ n ih =>
    intro s
    have hrec := fun ec s => TW.cps2 (HU ec s)
    have ih' := fun s => TW.cps2 (ih s)
    unfold TParser.parseIf
    cdttac
    all_goals
      dsimp only at *
      refine ⟨?_, by intro _; solve_by_elim⟩
    · rename_i x _ hx _
      obtain ⟨c, b, f⟩ := x
      simp only [Node.cd, Node.cdElse] at *
      omega
    · rename_i els _ _ _
      have := Node.cdElse_le els
      simp only [Node.cd] at *
      omega
    · simp only [Node.cd, Node.cdElse, Node.cdList] at *
      omega

theorem CDT.parseForLoop (s : TState) : TW (parseForLoop recU ex) s
    (fun nd s' => Node.cd nd ≤ r + 1
      ∧ (DefsCd M s.componentDefinitions → DefsCd M s'.componentDefinitions)) := by
  have hrec := fun ec s => TW.cps2 (HU ec s)
  unfold TParser.parseForLoop
  cdttac
  all_goals
    dsimp only at *
    cdtleaf

omit HU in
theorem CDT.setFilters (il : Bool) : ∀ n acc, Expr.cdList acc ≤ r + 1 →
    PW (TParser.setFilters (ex il) n acc) (fun fs => Expr.cdList fs ≤ r + 1) := by
  have hf : ∀ e, e.cd ≤ r + 1 → PW (parseFilter (ex il) e) (fun x => x.cd ≤ r + 1) :=
    fun e he => CD.parseFilter (Hex il) e he
  intro n
  induction n with
  | zero => intro _ _; exact PW.fuel
  | succ n ih =>
    intro acc hacc
    unfold TParser.setFilters
    cdtac
    all_goals cdleaf

theorem CDT.parseSet (g : Bool) (s : TState) : TW (parseSet recU ex g) s
    (fun nd s' => Node.cd nd ≤ r + 1
      ∧ (DefsCd M s.componentDefinitions → DefsCd M s'.componentDefinitions)) := by
  have hrec := fun ec s => TW.cps2 (HU ec s)
  have hsf : ∀ il n, PW (TParser.setFilters (ex il) n []) (fun fs => Expr.cdList fs ≤ r + 1) :=
    fun il n => CDT.setFilters Hex il n [] (by simp [Expr.cdList])
  unfold TParser.parseSet
  cdttac
  all_goals
    dsimp only at *
    cdtleaf

theorem CDT.parseComponentWithBody (s : TState) : TW (parseComponentWithBody recU ex) s
    (fun e s' => e.cd ≤ r + 1
      ∧ (DefsCd M s.componentDefinitions → DefsCd M s'.componentDefinitions)) := by
  have hrec := fun ec s => TW.cps2 (HU ec s)
  have hca : ∀ il n, PW (componentAttributes (ex il) n []) (fun kw => MapEntry.cdList kw ≤ r + 1) :=
    fun il n => CD.componentAttributes (Hex il) n [] (by simp [MapEntry.cdList])
  unfold TParser.parseComponentWithBody
  cdttac
  all_goals
    dsimp only at *
    cdtleaf

omit Hex in
theorem CDT.parseComponentDefinition (s : TState) : TW (parseComponentDefinition C recU ex) s
    (fun df s' => Node.cdList df.body ≤ r
      ∧ (DefsCd M s.componentDefinitions → DefsCd M s'.componentDefinitions)) := by
  have hrec := fun ec s => TW.cps2 (HU ec s)
  unfold TParser.parseComponentDefinition
  cdttac
  all_goals
    dsimp only at *
    cdtleaf

include hM in
theorem CDT.parseTag (isFirst : Bool) (s : TState) :
    TW (parseTag C recU ex isFirst) s (fun on s' => Node.cdList on.toList ≤ r + 1
      ∧ (DefsCd M s.componentDefinitions → DefsCd M s'.componentDefinitions)) := by
  have hrec := fun ec s => TW.cps2 (HU ec s)
  have h1 := fun g s => TW.cps2 (CDT.parseSet Hex HU g s)
  have h2 := fun s => TW.cps2 (CDT.parseForLoop Hex HU s)
  have h3 := fun n s => TW.cps2 (CDT.parseIf Hex HU n s)
  have h4 := fun s => TW.cps2 (CDT.parseComponentDefinition (C := C) (ex := ex) HU s)
  have h5 := fun s => TW.cps2 (CDT.parseComponentWithBody Hex HU s)
  have hk : ∀ il, PW (parseKwargs (ex il)) (fun kw => Expr.cdKw kw ≤ r) :=
    fun il => CD.parseKwargs (Hex il)
  unfold TParser.parseTag
  cdttac
  all_goals
    dsimp only at *
  all_goals first
    | cdtleaf
    | (rename_i x _ _ _ _ _
       obtain ⟨c, b, f⟩ := x
       cdtleaf)
    | exact ⟨by simp [Node.cdList], fun h => DefsCd.snoc (by solve_by_elim) (by omega)⟩

include hM in
theorem CDT.untilLoop (ec : EndCheck) : ∀ n nodes s, Node.cdList nodes ≤ r + 1 →
    TW (untilLoop C recU ex ec n nodes) s (fun res s' => Node.cdList res ≤ r + 1
      ∧ (DefsCd M s.componentDefinitions → DefsCd M s'.componentDefinitions)) := by
  have htag := fun f s => TW.cps2 (CDT.parseTag (C := C) hM Hex HU f s)
  intro n
  induction n with
  | zero => intro nodes s _; exact TW.fuel
  | succ n ih =>
    intro nodes s hn
    obtain ⟨⟨ts, a, b⟩, c1, c2, c3, c4, c5⟩ := s
    rw [TW_def]
    unfold TParser.untilLoop
    cases ts with
    | nil => exact ⟨hn, id⟩
    | cons tok rest =>
      cases tok
      case error => trivial
      case content c =>
        dsimp only
        rw [← TW_def]
        refine TW.mono (ih _ _ ?_) (fun r s' h => h)
        split
        · exact hn
        · simp only [Node.cdList_append, Node.cdList, Node.cd]; omega
      case variableStart w =>
        dsimp only
        rw [← TW_def]
        refine TW.bind (TW.exprV_swap (fun e p' he => ?_) Hex)
        refine TW.bind (TW.lift _ (fun _ p2 => ?_))
        refine TW.mono (ih _ _ ?_) (fun r s' h => h)
        simp only [Node.cdList_append, Node.cdList, Node.cd]; omega
      case tagStart w =>
        dsimp only
        split
        · rename_i res s' heq
          split at heq
          · cases heq
          · cases heq
          · split at heq
            · cases heq; exact ⟨hn, id⟩
            · rename_i t tail _ hne
              refine TW.of_eq (Q := fun res s' => Node.cdList res ≤ r + 1
                ∧ (DefsCd M c5 → DefsCd M s'.componentDefinitions)) heq ?_
              refine TW.bind (htag _ _ _ (fun node s1 h1 h2 => ?_))
              refine TW.bind (TW.lift _ (fun _ p2 => ?_))
              refine TW.mono (ih _ _ ?_) (fun res s' h => ⟨h.1, fun hd => h.2 (h2 hd)⟩)
              cases node with
              | none => exact hn
              | some nd =>
                simp only [Option.toList, Node.cdList] at h1
                simp only [Node.cdList_append, Node.cdList]; omega
        all_goals trivial
      all_goals trivial

end level

/-- `parse_until` at level `r`: counted depth ≤ `r` -/
theorem CDT.parseUntil (M : Nat) : ∀ r, r ≤ M → ∀ ec s, TW (parseUntil r ec) s
    (fun nodes s' => Node.cdList nodes ≤ r
      ∧ (DefsCd M s.componentDefinitions → DefsCd M s'.componentDefinitions)) := by
  intro r
  induction r with
  | zero => intro _ ec s; exact TW.err
  | succ r ih =>
    intro hr ec s
    unfold TParser.parseUntil
    refine TW.bind (TW.lift _ (fun n p' => ?_))
    exact CDT.untilLoop (by omega) (fun il m => CD.innerParseExpression _ _ _)
      (ih (by omega)) ec n [] _ (by simp [Node.cdList])

/-- **counted depth of an accepted template ≤ the depth limit** -/
theorem parse_counted (maxDepth : Nat) (toks : List Tok) (t : Template) (s : TState)
    (h : parse maxDepth toks = .ok t s) :
    Node.cdList t.nodes ≤ maxDepth
    ∧ ∀ d ∈ t.componentDefinitions, Node.cdList d.body + 1 ≤ maxDepth := by
  unfold parse at h
  simp only [] at h
  split at h <;> try cases h
  rename_i _ nodes heq
  have := TW.of_eq heq (CDT.parseUntil maxDepth maxDepth (Nat.le_refl _) .never _)
  exact ⟨this.1, this.2 (by intro d hd; cases hd)⟩

end Tera.TParser
