/-
The reference printer `S.canon` (Spec/Precedence.lean) produces the documented parenthesisation
(`S.DocWP`) for every valid surface expression and does not change the AST.
-/
import TeraModel.Spec.Precedence
namespace Tera.Spec
open Tera
set_option linter.unusedSimpArgs false

namespace S

/-- the postfix row is above every operator row -/
structure LevelsOK (L : DocLevels) : Prop where
  bin : ∀ a, L.bin a < L.post
  unary : ∀ u, L.unary u < L.post
  notIn : L.notIn < L.post
  pos : 0 < L.post

theorem LevelsOK.of_tableOK {L : DocLevels} {T : Parser.BpTable} (h : TableOK L T) : LevelsOK L where
  bin := h.binBelowPost
  unary := h.unaryBelowPost
  notIn := by rw [h.notInRow]; exact h.binBelowPost _
  pos := by have := h.binBelowPost .Or; omega

theorem erase_atLeast (L : DocLevels) (k : Nat) (s : S) : (atLeast L k s).erase = s.erase := by
  unfold atLeast; split <;> simp [erase]

theorem canon_isEnd (L : DocLevels) (s : S) : (canon L s).isEnd = s.isEnd := by
  cases s <;> simp [canon, isEnd]
  all_goals (split <;> rfl)

theorem canon_isAbsent (L : DocLevels) (s : S) : (canon L s).isAbsent = s.isAbsent := by
  cases s <;> simp [canon, isAbsent]

theorem isAbsent_absent : S.absent.isAbsent = true := rfl
theorem isAbsent_paren (e : S) : (S.paren e).isAbsent = false := rfl

theorem atLeast_isAbsent (L : DocLevels) (k : Nat) (s : S) (h : s.isAbsent = false) :
    (atLeast L k s).isAbsent = false := by
  unfold atLeast; split
  · exact isAbsent_paren s
  · exact h

theorem canon_erase_both (L : DocLevels) (s : S) :
    (canon L s).erase = s.erase ∧ (canon L s).eraseArgs = s.eraseArgs
      ∧ (canon L s).eraseItems = s.eraseItems ∧ (canon L s).eraseEntries = s.eraseEntries := by
  induction s with
  | unary u e ih =>
    simp only [canon]
    split <;> simp [erase, eraseArgs, eraseItems, eraseEntries, erase_atLeast, ih.1]
  | index e i ihe ihi =>
    simp only [canon]
    split <;> simp [erase, eraseArgs, eraseItems, eraseEntries, ihe.1, ihi.1]
  | comp e key value target cond ihe iht ihc =>
    refine ⟨?_, by simp [canon, eraseArgs], by simp [canon, eraseItems], by simp [canon, eraseEntries]⟩
    cases hca : cond.isAbsent
    · have := atLeast_isAbsent L 1 (canon L cond) (by rw [canon_isAbsent]; exact hca)
      simp [canon, erase, hca, this, erase_atLeast, ihe.1, iht.1, ihc.1]
    · simp [canon, erase, hca, isAbsent_absent, erase_atLeast, ihe.1, iht.1]
  | slice e a b c ihe iha ihb ihc =>
    refine ⟨?_, by simp [canon, eraseArgs], by simp [canon, eraseItems], by simp [canon, eraseEntries]⟩
    simp only [canon]
    split <;> simp [erase, canon_isAbsent, ihe.1, iha.1, ihb.1, ihc.1]
  | subSlice e a b c o ihe iha ihb ihc =>
    refine ⟨?_, by simp [canon, eraseArgs], by simp [canon, eraseItems], by simp [canon, eraseEntries]⟩
    simp [canon, erase, canon_isAbsent, ihe.1, iha.1, ihb.1, ihc.1]
  | _ => simp_all [canon, erase, eraseArgs, eraseItems, eraseEntries, erase_atLeast]

theorem canon_erase (L : DocLevels) (s : S) : (canon L s).erase = s.erase :=
  (canon_erase_both L s).1

theorem canon_argNames (L : DocLevels) (s : S) : (canon L s).argNames = s.argNames := by
  induction s with
  | unary u e ih => simp only [canon]; split <;> simp [argNames]
  | index e i ihe ihi => simp only [canon]; split <;> simp [argNames]
  | _ => simp_all [canon, argNames]

/-- an optional part stays well parenthesised -/
theorem canon_part (L : DocLevels) (p : S) (ih : p.Valid → (canon L p).DocWP L)
    (h : if p.isAbsent then True else p.Valid) :
    if (canon L p).isAbsent then True else (canon L p).DocWP L := by
  rw [canon_isAbsent]
  cases hx : p.isAbsent
  · simp only [hx, Bool.false_eq_true, if_false] at h ⊢
    exact ih h
  · simp

theorem canon_isChain (L : DocLevels) (s : S) (h : s.isChain = true) :
    (canon L s).isChain = true ∧ (canon L s).chainRoot = s.chainRoot := by
  induction s <;> simp_all [canon, isChain, chainRoot]

theorem lvl_atLeast (L : DocLevels) (k : Nat) (s : S) (hk : k ≤ L.post) : k ≤ (atLeast L k s).lvl L := by
  unfold atLeast; split
  · simpa [lvl] using hk
  · omega

theorem docwp_atLeast (L : DocLevels) (k : Nat) (s : S) (h : s.DocWP L) : (atLeast L k s).DocWP L := by
  unfold atLeast; split
  · simpa [DocWP] using h
  · exact h

theorem canon_docwp_both (L : DocLevels) (hL : LevelsOK L) (s : S) :
    (s.Valid → (canon L s).DocWP L) ∧ (s.ValidArgs → (canon L s).DocWPArgs L)
      ∧ (s.ValidItems → (canon L s).DocWPItems L)
      ∧ (s.ValidEntries → (canon L s).DocWPEntries L) := by
  induction s with
  | int v => exact ⟨fun _ => trivial, fun h => by simp [ValidArgs] at h, fun h => by simp [ValidItems] at h, fun h => by simp [ValidEntries] at h⟩
  | float v => exact ⟨fun _ => trivial, fun h => by simp [ValidArgs] at h, fun h => by simp [ValidItems] at h, fun h => by simp [ValidEntries] at h⟩
  | str v => exact ⟨fun _ => trivial, fun h => by simp [ValidArgs] at h, fun h => by simp [ValidItems] at h, fun h => by simp [ValidEntries] at h⟩
  | bool v => exact ⟨fun _ => trivial, fun h => by simp [ValidArgs] at h, fun h => by simp [ValidItems] at h, fun h => by simp [ValidEntries] at h⟩
  | noneLit kw => exact ⟨id, fun h => by simp [ValidArgs] at h, fun h => by simp [ValidItems] at h, fun h => by simp [ValidEntries] at h⟩
  | var n => exact ⟨id, fun h => by simp [ValidArgs] at h, fun h => by simp [ValidItems] at h, fun h => by simp [ValidEntries] at h⟩
  | paren e ih => exact ⟨ih.1, fun h => by simp [ValidArgs] at h, fun h => by simp [ValidItems] at h, fun h => by simp [ValidEntries] at h⟩
  | unary u e ih =>
    refine ⟨?_, fun h => by simp [ValidArgs] at h, fun h => by simp [ValidItems] at h, fun h => by simp [ValidEntries] at h⟩
    have ih := ih.1
    intro hv
    have hu := hL.unary u
    have h1 := docwp_atLeast L (L.unary u + 1) _ (ih hv)
    have h2 := lvl_atLeast L (L.unary u + 1) (canon L e) (by omega)
    simp only [canon]
    split
    · refine ⟨h1, ?_, ?_, ?_⟩
      · simp only [lvl]; omega
      · simp [toks]
      · simp [toks]
    · rename_i hs
      simp only [startsUnary, Bool.or_eq_true, beq_iff_eq, not_or] at hs
      exact ⟨h1, h2, hs.1, hs.2⟩
  | binary op l r ihl ihr =>
    refine ⟨?_, fun h => by simp [ValidArgs] at h, fun h => by simp [ValidItems] at h, fun h => by simp [ValidEntries] at h⟩
    have ihl := ihl.1
    have ihr := ihr.1
    intro hv
    obtain ⟨hIs, hPipe, hvl, hvr, hcc⟩ := hv
    have hb := hL.bin op
    simp only [canon]
    refine ⟨hIs, hPipe, docwp_atLeast L _ _ (ihl hvl), docwp_atLeast L _ _ (ihr hvr), ?_, ?_⟩
    · split
      · exact ⟨lvl_atLeast L _ _ (by omega), lvl_atLeast L _ _ (by omega)⟩
      · exact ⟨lvl_atLeast L _ _ (by omega), lvl_atLeast L _ _ (by omega)⟩
    · simpa [erase_atLeast, canon_erase] using hcc
  | notIn l r ihl ihr =>
    refine ⟨?_, fun h => by simp [ValidArgs] at h, fun h => by simp [ValidItems] at h, fun h => by simp [ValidEntries] at h⟩
    have ihl := ihl.1
    have ihr := ihr.1
    intro hv
    have hn := hL.notIn
    simp only [canon]
    exact ⟨docwp_atLeast L _ _ (ihl hv.1), docwp_atLeast L _ _ (ihr hv.2),
      lvl_atLeast L _ _ (by omega), lvl_atLeast L _ _ (by omega)⟩
  | ternary c t f ihc iht ihf =>
    refine ⟨?_, fun h => by simp [ValidArgs] at h, fun h => by simp [ValidItems] at h, fun h => by simp [ValidEntries] at h⟩
    have ihc := ihc.1
    have iht := iht.1
    have ihf := ihf.1
    intro hv
    have hp := hL.pos
    simp only [canon]
    exact ⟨ihc hv.1, docwp_atLeast L _ _ (iht hv.2.1), ihf hv.2.2, lvl_atLeast L _ _ (by omega)⟩
  | filter e n ih =>
    refine ⟨?_, fun h => by simp [ValidArgs] at h, fun h => by simp [ValidItems] at h, fun h => by simp [ValidEntries] at h⟩
    have ih := ih.1
    intro hv
    have hb := hL.bin .Pipe
    simp only [canon]
    exact ⟨docwp_atLeast L _ _ (ih hv), lvl_atLeast L _ _ (by omega)⟩
  | test e n g ih =>
    refine ⟨?_, fun h => by simp [ValidArgs] at h, fun h => by simp [ValidItems] at h, fun h => by simp [ValidEntries] at h⟩
    have ih := ih.1
    intro hv
    have hb := hL.bin .Is
    simp only [canon]
    exact ⟨docwp_atLeast L _ _ (ih hv.1), lvl_atLeast L _ _ (by omega), hv.2⟩
  | index e i ihe ihi =>
    refine ⟨?_, fun h => by simp [ValidArgs] at h, fun h => by simp [ValidItems] at h, fun h => by simp [ValidEntries] at h⟩
    have ihe := ihe.1
    have ihi := ihi.1
    intro hv
    simp only [canon]
    split
    · rename_i hp
      exact ⟨ihe hv.1, ihi hv.2, hp⟩
    · exact ⟨ihe hv.1, ihi hv.2, rfl⟩
  | attr e n o ih =>
    refine ⟨?_, fun h => by simp [ValidArgs] at h, fun h => by simp [ValidItems] at h, fun h => by simp [ValidEntries] at h⟩
    have ih := ih.1
    intro hv
    obtain ⟨hc, hve, hr⟩ := hv
    have := canon_isChain L e hc
    simp only [canon]
    exact ⟨this.1, ih hve, by rw [this.2]; exact hr⟩
  | sub e i o ihe ihi =>
    refine ⟨?_, fun h => by simp [ValidArgs] at h, fun h => by simp [ValidItems] at h, fun h => by simp [ValidEntries] at h⟩
    have ihe := ihe.1
    have ihi := ihi.1
    intro hv
    obtain ⟨hc, hve, hvi⟩ := hv
    have := canon_isChain L e hc
    simp only [canon]
    exact ⟨this.1, ihe hve, ihi hvi⟩
  | argNil => exact ⟨fun h => by simp [Valid] at h, fun _ => trivial,
      fun h => by simp [ValidItems] at h, fun h => by simp [ValidEntries] at h⟩
  | argCons k v r ihv ihr =>
    refine ⟨fun h => by simp [Valid] at h, ?_, fun h => by simp [ValidItems] at h, fun h => by simp [ValidEntries] at h⟩
    intro hv
    simp only [canon]
    exact ⟨ihv.1 hv.1, by rw [canon_argNames]; exact hv.2.1, ihr.2.1 hv.2.2⟩
  | itemNil => exact ⟨fun h => by simp [Valid] at h, fun h => by simp [ValidArgs] at h,
      fun _ => trivial, fun h => by simp [ValidEntries] at h⟩
  | itemCons sp x r ihx ihr =>
    refine ⟨fun h => by simp [Valid] at h, fun h => by simp [ValidArgs] at h, ?_,
      fun h => by simp [ValidEntries] at h⟩
    intro hv
    simp only [canon]
    exact ⟨ihx.1 hv.1, ihr.2.2.1 hv.2⟩
  | entryNil => exact ⟨fun h => by simp [Valid] at h, fun h => by simp [ValidArgs] at h,
      fun h => by simp [ValidItems] at h, fun _ => trivial⟩
  | entryKV k v r ihv ihr =>
    refine ⟨fun h => by simp [Valid] at h, fun h => by simp [ValidArgs] at h,
      fun h => by simp [ValidItems] at h, ?_⟩
    intro hv
    simp only [canon]
    exact ⟨ihv.1 hv.1, ihr.2.2.2 hv.2⟩
  | entrySpread x r ihx ihr =>
    refine ⟨fun h => by simp [Valid] at h, fun h => by simp [ValidArgs] at h,
      fun h => by simp [ValidItems] at h, ?_⟩
    intro hv
    simp only [canon]
    exact ⟨ihx.1 hv.1, ihr.2.2.2 hv.2⟩
  | mapLit es ih =>
    refine ⟨?_, fun h => by simp [ValidArgs] at h, fun h => by simp [ValidItems] at h,
      fun h => by simp [ValidEntries] at h⟩
    intro hv
    simp only [canon]
    exact ⟨ih.2.2.2 hv.1, by rw [canon_isEnd]; exact hv.2⟩
  | slice e a b c ihe iha ihb ihc =>
    refine ⟨?_, fun h => by simp [ValidArgs] at h, fun h => by simp [ValidItems] at h,
      fun h => by simp [ValidEntries] at h⟩
    intro hv
    obtain ⟨hve, ha, hb, hc⟩ := hv
    simp only [canon]
    split
    · rename_i hp
      exact ⟨ihe.1 hve, hp, canon_part L a iha.1 ha, canon_part L b ihb.1 hb, canon_part L c ihc.1 hc⟩
    · exact ⟨ihe.1 hve, rfl, canon_part L a iha.1 ha, canon_part L b ihb.1 hb, canon_part L c ihc.1 hc⟩
  | subSlice e a b c o ihe iha ihb ihc =>
    refine ⟨?_, fun h => by simp [ValidArgs] at h, fun h => by simp [ValidItems] at h,
      fun h => by simp [ValidEntries] at h⟩
    intro hv
    obtain ⟨hce, hve, ha, hb, hc⟩ := hv
    have := canon_isChain L e hce
    simp only [canon]
    exact ⟨this.1, ihe.1 hve, canon_part L a iha.1 ha, canon_part L b ihb.1 hb, canon_part L c ihc.1 hc⟩
  | absent => exact ⟨fun h => by simp [Valid] at h, fun h => by simp [ValidArgs] at h,
      fun h => by simp [ValidItems] at h, fun h => by simp [ValidEntries] at h⟩
  | argEnd => exact ⟨fun h => by simp [Valid] at h, fun _ => trivial,
      fun h => by simp [ValidItems] at h, fun h => by simp [ValidEntries] at h⟩
  | itemEnd => exact ⟨fun h => by simp [Valid] at h, fun h => by simp [ValidArgs] at h,
      fun _ => trivial, fun h => by simp [ValidEntries] at h⟩
  | entryEnd => exact ⟨fun h => by simp [Valid] at h, fun h => by simp [ValidArgs] at h,
      fun h => by simp [ValidItems] at h, fun _ => trivial⟩
  | comp e key value target cond ihe iht ihc =>
    refine ⟨?_, fun h => by simp [ValidArgs] at h, fun h => by simp [ValidItems] at h,
      fun h => by simp [ValidEntries] at h⟩
    intro hv
    obtain ⟨hve, hval, hkey, hvt, hvc⟩ := hv
    have hp := hL.pos
    simp only [canon]
    refine ⟨ihe.1 hve, hval, hkey, docwp_atLeast L _ _ (iht.1 hvt), lvl_atLeast L _ _ (by omega), ?_⟩
    cases hca : cond.isAbsent
    · have := atLeast_isAbsent L 1 (canon L cond) (by rw [canon_isAbsent]; exact hca)
      simp only [hca, Bool.false_eq_true, if_false, this] at hvc ⊢
      exact ⟨docwp_atLeast L _ _ (ihc.1 hvc), lvl_atLeast L _ _ (by omega)⟩
    · simp [isAbsent_absent]
  | arr items ih =>
    refine ⟨?_, fun h => by simp [ValidArgs] at h, fun h => by simp [ValidItems] at h, fun h => by simp [ValidEntries] at h⟩
    intro hv
    simp only [canon]
    exact ⟨ih.2.2.1 hv.1, by rw [canon_isEnd]; exact hv.2⟩
  | call n args ih =>
    refine ⟨?_, fun h => by simp [ValidArgs] at h, fun h => by simp [ValidItems] at h, fun h => by simp [ValidEntries] at h⟩
    intro hv
    simp only [canon]
    exact ⟨hv.1, ih.2.1 hv.2.1, by rw [canon_isEnd]; exact hv.2.2⟩
  | filterA e n args ihe iha =>
    refine ⟨?_, fun h => by simp [ValidArgs] at h, fun h => by simp [ValidItems] at h, fun h => by simp [ValidEntries] at h⟩
    intro hv
    have hb := hL.bin .Pipe
    simp only [canon]
    exact ⟨docwp_atLeast L _ _ (ihe.1 hv.1), lvl_atLeast L _ _ (by omega), iha.2.1 hv.2.1,
      by rw [canon_isEnd]; exact hv.2.2⟩
  | testA e n g args ihe iha =>
    refine ⟨?_, fun h => by simp [ValidArgs] at h, fun h => by simp [ValidItems] at h, fun h => by simp [ValidEntries] at h⟩
    intro hv
    have hb := hL.bin .Is
    simp only [canon]
    exact ⟨docwp_atLeast L _ _ (ihe.1 hv.1), lvl_atLeast L _ _ (by omega), hv.2.1,
      iha.2.1 hv.2.2.1, by rw [canon_isEnd]; exact hv.2.2.2⟩

theorem canon_docwp (L : DocLevels) (hL : LevelsOK L) (s : S) : s.Valid → (canon L s).DocWP L :=
  (canon_docwp_both L hL s).1


end S
end Tera.Spec
