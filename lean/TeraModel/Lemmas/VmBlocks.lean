/-
C04 on the value-level VM (Model/Vm.lean): the block stack (`State.blocks`, `currentBlockName`,
`captureBlock`) along runs of the REAL `step`.

* `step_blocks` (one lemma per arm): every turn that continues leaves the block stack, the current
  block and the capture-block request exactly as they were — `RenderBlock` pushes its entry for the
  nested `interpret` and pops it, `super()` raises the level of the current block's entry for the
  nested `interpret` and puts it back — provided the nested calls do likewise (`BlocksKept rec`).
* `interp_blocks`: hence every successful `interpret`, whatever the listing, does (induction on
  both fuels).
-/
import TeraModel.Lemmas.VmWriterOut
namespace Tera.Vm
open Tera

variable {rec : VmCtx → Chunk → State → RunRes} {env : Env} {vm : VmCtx} {c : Chunk}
  {pc pc' : Nat} {st st' : State}

/-- the turn left the block stack, the current block and the capture-block request as they were -/
def BlocksSame (st st' : State) : Prop :=
  st'.blocks = st.blocks ∧ st'.currentBlockName = st.currentBlockName ∧ st'.captureBlock = st.captureBlock

/-- nested `interpret` calls leave them as they were -/
def BlocksKept (rec : VmCtx → Chunk → State → RunRes) : Prop :=
  ∀ vm c st st', rec vm c st = .done st' → BlocksSame st st'

theorem write_blocksSame (st : State) (t : List Char) : BlocksSame st (st.write t) := by
  unfold State.write; split <;> exact ⟨rfl, rfl, rfl⟩

theorem emitValue_blocks (v : Value) (st : State) : BlocksSame st (emitValue env vm v st) :=
  write_blocksSame _ _

/-- closes the goals of an arm that leaves the block stack alone -/
macro "blocks_same" h:ident : tactic => `(tactic| (
  repeat' split at $h:ident
  all_goals first
    | (exfalso; simp at $h:ident; done)
    | (simp only [StepRes.next.injEq] at $h:ident; rcases $h:ident with ⟨_, h2⟩; subst h2
       exact ⟨rfl, rfl, rfl⟩)))

/-! ### `state.blocks[pos].2 = level` there and back -/

theorem modify_roundtrip {α : Type} (f g : α → α) : ∀ (l : List α) (i : Nat) (x : α),
    l[i]? = some x → g (f x) = x → (l.modify i f).modify i g = l := by
  intro l
  induction l with
  | nil => intro i x h; simp at h
  | cons a l ih =>
    intro i x h hg
    cases i with
    | zero =>
      simp only [List.getElem?_cons_zero, Option.some.injEq] at h; subst h
      rw [List.modify_zero_cons, List.modify_zero_cons, hg]
    | succ i =>
      simp only [List.getElem?_cons_succ] at h
      rw [List.modify_succ_cons, List.modify_succ_cons, ih i x h hg]

theorem setLevel_roundtrip {b b1 : List (String × List Chunk × Nat)} {pos level l1 : Nat}
    {nm : String} {lin : List Chunk}
    (hent : b[b.length - 1 - pos]? = some (nm, lin, level))
    (h1 : setLevel b pos l1 = some b1) : setLevel b1 pos level = some b := by
  unfold setLevel at h1 ⊢
  split at h1
  · rename_i hlt
    simp only [Option.some.injEq] at h1; subst h1
    simp only [List.length_modify, hlt, ↓reduceIte, Option.some.injEq]
    exact modify_roundtrip _ _ b _ _ hent rfl
  · cases h1

/-! ### the arms -/

theorem blk_include (n : String) (h : stepInclude rec env vm n pc st = .next pc' st') :
    BlocksSame st st' := by
  unfold stepInclude at h
  repeat' split at h
  all_goals first
    | (exfalso; simp at h; done)
    | skip
  simp only [StepRes.next.injEq] at h; rcases h with ⟨_, h2⟩; subst h2
  exact write_blocksSame _ _

theorem blk_renderBlock (hrec : BlocksKept rec) (n : String)
    (h : stepRenderBlock rec vm n pc st = .next pc' st') : BlocksSame st st' := by
  unfold stepRenderBlock at h
  repeat' split at h
  all_goals first
    | (exfalso; simp at h; done)
    | skip
  rename_i _ first more hl _ st2 hr
  simp only [StepRes.next.injEq] at h; rcases h with ⟨_, h2⟩; subst h2
  obtain ⟨hb, _, hcb⟩ := hrec _ _ _ _ hr
  have hb' : st2.blocks = (n, first :: more, 0) :: st.blocks := by
    rw [hb]; unfold enterBlock; simp only; split <;> rfl
  have hcb' : st2.captureBlock = st.captureBlock := by
    rw [hcb]; unfold enterBlock; simp only; split <;> rfl
  unfold leaveBlock
  simp only
  split <;> exact ⟨by simp [hb'], rfl, hcb'⟩

theorem blk_super (hrec : BlocksKept rec) (h : stepSuper rec env vm c pc st = .next pc' st') :
    BlocksSame st st' := by
  unfold stepSuper at h
  repeat' split at h
  all_goals first
    | (exfalso; simp at h; done)
    | skip
  rename_i _ cur hcur _ pos hpos _ nm lineage level hent _ blockChunk hbc _ blocks1 hb1 _ st2 hr _ blocks3 hb3
  simp only [StepRes.next.injEq] at h; rcases h with ⟨_, h2⟩; subst h2
  obtain ⟨hb, hc, hcb⟩ := hrec _ _ _ _ hr
  have hb' : st2.blocks = blocks1 := hb
  rw [hb'] at hb3
  have := setLevel_roundtrip hent hb1
  rw [this] at hb3
  simp only [Option.some.injEq] at hb3
  exact ⟨hb3.symm, hc, hcb⟩

theorem blk_callFunction (hrec : BlocksKept rec) (n : String)
    (h : stepCallFunction rec env vm c n pc st = .next pc' st') : BlocksSame st st' := by
  unfold stepCallFunction at h
  split at h
  · simp at h
  · split at h
    · have := blk_super hrec h; exact this
    · blocks_same h

/-- **Every turn that continues leaves the block stack as it found it.** -/
theorem step_blocks (hrec : BlocksKept rec) (e : VEntry)
    (h : step rec env vm c e pc st = .next pc' st') : BlocksSame st st' := by
  obtain ⟨i, spans⟩ := e
  unfold step at h
  cases i <;> simp only at h
  case loadConst v => simp only [StepRes.next.injEq] at h; rcases h with ⟨_, h2⟩; subst h2; exact ⟨rfl, rfl, rfl⟩
  case loadName n => simp only [StepRes.next.injEq] at h; rcases h with ⟨_, h2⟩; subst h2; exact ⟨rfl, rfl, rfl⟩
  case loadAttr a o => unfold stepLoadAttr at h; blocks_same h
  case binarySubscript o => unfold stepSubscript at h; blocks_same h
  case slice o => unfold stepSlice at h; blocks_same h
  case writeText t =>
    simp only [StepRes.next.injEq] at h; rcases h with ⟨_, h2⟩; subst h2; exact write_blocksSame _ _
  case writeTop =>
    unfold stepWriteTop at h
    repeat' split at h
    all_goals first
      | (exfalso; simp at h; done)
      | skip
    simp only [StepRes.next.injEq] at h; rcases h with ⟨_, h2⟩; subst h2
    have := emitValue_blocks (env := env) (vm := vm) ‹Value› { st with stack := ‹List Slot› }
    exact this
  case set n g => unfold stepSet at h; blocks_same h
  case include_ n => exact blk_include n h
  case buildMap n => unfold stepBuildMap State.push at h; blocks_same h
  case buildList n => unfold stepBuildList at h; blocks_same h
  case buildMapWithSpreads f =>
    unfold stepBuildMapWithSpreads at h
    split at h
    · rename_i r hr
      have := popSpreadMap_inl _ _ _ _ hr
      rw [h] at this; simp [StepRes.isNext] at this
    · blocks_same h
  case buildListWithSpreads f =>
    unfold stepBuildListWithSpreads at h
    split at h
    · rename_i r hr
      have := popSpreadList_inl _ _ _ _ hr
      rw [h] at this; simp [StepRes.isNext] at this
    · blocks_same h
  case callFunction n => exact blk_callFunction hrec n h
  case renderComponent n b => unfold stepComponent at h; blocks_same h
  case applyFilter n => unfold stepFilterOrTest at h; dsimp only at h; blocks_same h
  case runTest n => unfold stepFilterOrTest at h; dsimp only at h; blocks_same h
  case renderBlock n => exact blk_renderBlock hrec n h
  case jump t => simp only [StepRes.next.injEq] at h; rcases h with ⟨_, h2⟩; subst h2; exact ⟨rfl, rfl, rfl⟩
  case popJumpIfFalse t => unfold stepPopJumpIfFalse at h; blocks_same h
  case jumpIfFalseOrPop t => unfold stepJumpOrPop at h; blocks_same h
  case jumpIfTrueOrPop t => unfold stepJumpOrPop at h; blocks_same h
  case capture => simp only [StepRes.next.injEq] at h; rcases h with ⟨_, h2⟩; subst h2; exact ⟨rfl, rfl, rfl⟩
  case endCapture => unfold stepEndCapture at h; blocks_same h
  case startIterate kv co => unfold stepStartIterate at h; blocks_same h
  case iterate t => unfold stepIterate at h; blocks_same h
  case storeLocal n => unfold stepStoreLocal at h; blocks_same h
  case storeDidNotIterate => unfold stepStoreDidNotIterate State.push at h; blocks_same h
  case break_ => unfold stepBreak at h; blocks_same h
  case popLoop => simp only [StepRes.next.injEq] at h; rcases h with ⟨_, h2⟩; subst h2; exact ⟨rfl, rfl, rfl⟩
  case appendToList => unfold stepAppendToList at h; blocks_same h
  case math op => unfold stepMath at h; blocks_same h
  case plus => unfold stepPlus at h; blocks_same h
  case cmp op => unfold stepCmp at h; blocks_same h
  case equal ng => unfold stepEqual at h; blocks_same h
  case strConcat =>
    unfold stepStrConcat at h
    split at h
    · simp at h
    · simp at h
    · simp only [StepRes.next.injEq] at h; rcases h with ⟨_, h2⟩; subst h2; exact ⟨rfl, rfl, rfl⟩
  case in_ => unfold stepIn at h; blocks_same h
  case not_ => unfold stepNot at h; blocks_same h
  case negative => unfold stepNegative at h; blocks_same h
  case loadPath p =>
    cases p with
    | nil => simp [stepLoadPath] at h
    | cons n attrs =>
      rw [stepLoadPath_cons] at h
      obtain ⟨v, rfl, _⟩ := loadTail_next _ _ h
      exact ⟨rfl, rfl, rfl⟩
  case writePath p =>
    cases p with
    | nil => simp [stepWritePath] at h
    | cons n attrs =>
      rw [stepWritePath_cons] at h
      obtain ⟨v, _, rfl, _⟩ := writeTail_next _ _ h
      exact emitValue_blocks v st

theorem BlocksSame.trans {a b d : State} (h1 : BlocksSame a b) (h2 : BlocksSame b d) : BlocksSame a d :=
  ⟨h2.1.trans h1.1, h2.2.1.trans h1.2.1, h2.2.2.trans h1.2.2⟩

theorem runLoop_blocks (hrec : BlocksKept rec) :
    ∀ (fuel pc : Nat) (st st' : State), runLoop rec env vm c fuel pc st = .done st' → BlocksSame st st' := by
  intro fuel
  induction fuel with
  | zero =>
    intro pc st st' h
    unfold runLoop at h
    split at h
    · cases h; exact ⟨rfl, rfl, rfl⟩
    · cases h
  | succ fuel ih =>
    intro pc st st' h
    unfold runLoop at h
    split at h
    · cases h; exact ⟨rfl, rfl, rfl⟩
    · rename_i e he
      split at h
      · rename_i pc1 st1 hs
        exact (step_blocks hrec e hs).trans (ih _ _ _ h)
      all_goals cases h

/-- **Every successful `interpret` leaves the block stack, the current block and the capture-block
request exactly as it found them**: every listing, state and fuel. -/
theorem interp_blocks (env : Env) (steps : Nat) : ∀ depth, BlocksKept (interp env steps depth) := by
  intro depth
  induction depth with
  | zero => intro vm c st st' h; simp [interp] at h
  | succ d ih =>
    intro vm c st st' h
    unfold interp at h
    exact runLoop_blocks ih _ _ _ _ h

end Tera.Vm
