/-
Helper lemmas for C14: the `slice_items` loop of the model against the positions CPython selects.
-/
import TeraModel.Model.Index
import TeraModel.Spec.PySlice
import Mathlib.Tactic.Ring
import Mathlib.Tactic.SplitIfs
namespace Tera.Index
open Tera Tera.PySlice

/-- The elements at positions `i, i+step, …` (`n` of them): what `PySlice.select` picks. -/
def pick {α : Type} (items : List α) (i step : Int) (n : Nat) : List α :=
  (List.range n).filterMap fun (k : Nat) =>
    if 0 ≤ i + (k : Int) * step then items[(i + (k : Int) * step).toNat]? else none

theorem pick_zero {α : Type} (items : List α) (i step : Int) : pick items i step 0 = [] := by
  simp [pick]

theorem pick_succ {α : Type} (items : List α) (i step : Int) (n : Nat) :
    pick items i step (n + 1) =
      (if 0 ≤ i then items[i.toNat]? else none).toList ++ pick items (i + step) step n := by
  unfold pick
  rw [List.range_succ_eq_map, List.filterMap_cons, List.filterMap_map]
  have hf : ((fun k : Nat => if 0 ≤ i + (k : Int) * step then items[(i + (k : Int) * step).toNat]? else none) ∘ Nat.succ)
      = (fun k : Nat => if 0 ≤ i + step + (k : Int) * step then items[(i + step + (k : Int) * step).toNat]? else none) := by
    funext k
    have e : i + ((k.succ : Nat) : Int) * step = i + step + (k : Int) * step := by
      push_cast; ring
    simp only [Function.comp, e]
  rw [hf]
  by_cases h0 : 0 ≤ i
  · cases hx : items[i.toNat]? <;> simp [h0, hx]
  · simp [h0]

theorem asUsize_of_range {i : Int} (h0 : 0 ≤ i) (h1 : i ≤ (USIZE_MAX : Int)) :
    asUsize i = i.toNat := by
  unfold asUsize
  have : i < (2:Int)^64 := by
    simp only [USIZE_MAX] at h1; omega
  rw [Int.emod_eq_of_lt h0 this]

theorem satAdd_eq {a b : Int} (h1 : I128_MIN ≤ a + b) (h2 : a + b ≤ I128_MAX) :
    satAdd a b = a + b := by
  have a1 : ¬ (a + b > I128_MAX) := by omega
  have a2 : ¬ (a + b < I128_MIN) := by omega
  simp only [satAdd, a1, a2, if_false]

theorem satAdd_hi {a b : Int} (h : I128_MAX < a + b) : satAdd a b = I128_MAX := by
  have a1 : a + b > I128_MAX := by omega
  simp only [satAdd, a1, if_true]

/-! ### how `sliceLength` changes when the walk advances one step -/

theorem sliceLength_pos_step {i e step : Int} (hs : 0 < step) (h : i < e) (h2 : i + step < e) :
    sliceLength i e step = sliceLength (i + step) e step + 1 := by
  unfold sliceLength
  have hn : ¬ step < 0 := by omega
  simp only [hn, if_false, h, h2, if_true]
  have e1 : e - i - 1 = (e - (i + step) - 1) + 1 * step := by ring
  rw [e1, Int.add_mul_ediv_right _ _ (by omega : step ≠ 0)]
  have : 0 ≤ (e - (i + step) - 1) / step := Int.ediv_nonneg (by omega) (by omega)
  omega

theorem sliceLength_pos_last {i e step : Int} (hs : 0 < step) (h : i < e) (h2 : ¬ i + step < e) :
    sliceLength i e step = 1 := by
  unfold sliceLength
  have hn : ¬ step < 0 := by omega
  simp only [hn, if_false, h, if_true]
  rw [Int.ediv_eq_zero_of_lt (by omega) (by omega)]
  rfl

theorem sliceLength_pos_done {i e step : Int} (hs : 0 < step) (h : ¬ i < e) :
    sliceLength i e step = 0 := by
  unfold sliceLength
  have hn : ¬ step < 0 := by omega
  simp only [hn, if_false, h]

theorem sliceLength_neg_step {i e step : Int} (hs : step < 0) (h : e < i) (h2 : e < i + step) :
    sliceLength i e step = sliceLength (i + step) e step + 1 := by
  unfold sliceLength
  simp only [hs, if_true, h, h2]
  have e1 : i - e - 1 = (i + step - e - 1) + 1 * (-step) := by ring
  rw [e1, Int.add_mul_ediv_right _ _ (by omega : -step ≠ 0)]
  have : 0 ≤ (i + step - e - 1) / (-step) := Int.ediv_nonneg (by omega) (by omega)
  omega

theorem sliceLength_neg_last {i e step : Int} (hs : step < 0) (h : e < i) (h2 : ¬ e < i + step) :
    sliceLength i e step = 1 := by
  unfold sliceLength
  simp only [hs, if_true, h]
  rw [Int.ediv_eq_zero_of_lt (by omega) (by omega)]
  rfl

theorem sliceLength_neg_done {i e step : Int} (hs : step < 0) (h : ¬ e < i) :
    sliceLength i e step = 0 := by
  unfold sliceLength
  simp only [hs, if_true, h, if_false]

/-- A walk never selects more elements than lie between its bounds. -/
theorem sliceLength_le_pos {i e step : Int} (hs : 0 < step) :
    (sliceLength i e step : Int) ≤ max (e - i) 0 := by
  unfold sliceLength
  have hn : ¬ step < 0 := by omega
  simp only [hn, if_false]
  split
  · have h1 : (e - i - 1) / step ≤ e - i - 1 := Int.ediv_le_self _ (by omega)
    have h2 : 0 ≤ (e - i - 1) / step := Int.ediv_nonneg (by omega) (by omega)
    omega
  · simp

theorem sliceLength_le_neg {i e step : Int} (hs : step < 0) :
    (sliceLength i e step : Int) ≤ max (i - e) 0 := by
  unfold sliceLength
  simp only [hs, if_true]
  split
  · have h1 : (i - e - 1) / (-step) ≤ i - e - 1 := Int.ediv_le_self _ (by omega)
    have h2 : 0 ≤ (i - e - 1) / (-step) := Int.ediv_nonneg (by omega) (by omega)
    omega
  · simp

/-! ### the loop -/

/-- Positive step: from any `0 ≤ i` with `e ≤ len`, the loop appends exactly the elements at
`i, i+step, …`, `sliceLength i e step` of them, never indexes out of range, and needs no more
fuel than that count. -/
theorem sliceLoop_pos {α : Type} (items : List α) (step e : Int)
    (hstep : 0 < step) (he : e ≤ (items.length : Int)) (hlen : items.length ≤ USIZE_MAX) :
    ∀ (fuel : Nat) (i : Int) (out : List α), 0 ≤ i → sliceLength i e step ≤ fuel →
      sliceLoop items step e fuel i out = .ok (out ++ pick items i step (sliceLength i e step)) := by
  have hU : ((USIZE_MAX : Nat) : Int) < I128_MAX := by
    simp only [USIZE_MAX, I128_MAX]; omega
  have hlenI : (items.length : Int) ≤ (USIZE_MAX : Int) := by exact_mod_cast hlen
  intro fuel
  induction fuel with
  | zero =>
    intro i out hi hf
    unfold sliceLoop
    by_cases hc : i < e
    · by_cases h2 : i + step < e
      · rw [sliceLength_pos_step hstep hc h2] at hf; omega
      · rw [sliceLength_pos_last hstep hc h2] at hf; omega
    · simp only [hstep, if_true, hc, if_false]
      rw [sliceLength_pos_done hstep hc, pick_zero, List.append_nil]
  | succ f ih =>
    intro i out hi hf
    unfold sliceLoop
    by_cases hc : i < e
    · simp only [hstep, if_true, hc]
      have hu : asUsize i = i.toNat := asUsize_of_range hi (by omega)
      have hlt : i.toNat < items.length := by omega
      rw [hu, List.getElem?_eq_getElem hlt]
      simp only
      by_cases h2 : i + step < e
      · have hsat : satAdd i step = i + step :=
          satAdd_eq (by simp only [I128_MIN]; omega) (by omega)
        rw [hsat, sliceLength_pos_step hstep hc h2, pick_succ]
        rw [sliceLength_pos_step hstep hc h2] at hf
        rw [ih (i + step) _ (by omega) (by omega)]
        simp [hi, List.getElem?_eq_getElem hlt]
      · have hsat : satAdd i step = i + step ∨ satAdd i step = I128_MAX := by
          by_cases hb : i + step ≤ I128_MAX
          · exact Or.inl (satAdd_eq (by simp only [I128_MIN]; omega) hb)
          · exact Or.inr (satAdd_hi (by omega))
        have hge : ¬ satAdd i step < e := by
          rcases hsat with h | h <;> rw [h] <;> omega
        have h0 : 0 ≤ satAdd i step := by
          rcases hsat with h | h <;> rw [h] <;> omega
        rw [sliceLength_pos_last hstep hc h2, pick_succ, pick_zero]
        rw [ih (satAdd i step) _ h0 (by rw [sliceLength_pos_done hstep hge]; omega)]
        rw [sliceLength_pos_done hstep hge, pick_zero]
        simp [hi, List.getElem?_eq_getElem hlt]
    · simp only [hstep, if_true, hc, if_false]
      rw [sliceLength_pos_done hstep hc, pick_zero, List.append_nil]

/-- Negative step: from any `i ≤ len - 1` with `-1 ≤ e`. -/
theorem sliceLoop_neg {α : Type} (items : List α) (step e : Int)
    (hstep : step < 0) (hmin : I128_MIN ≤ step) (he : -1 ≤ e) (hlen : items.length ≤ USIZE_MAX) :
    ∀ (fuel : Nat) (i : Int) (out : List α), i ≤ (items.length : Int) - 1 →
      sliceLength i e step ≤ fuel →
      sliceLoop items step e fuel i out = .ok (out ++ pick items i step (sliceLength i e step)) := by
  have hU : ((USIZE_MAX : Nat) : Int) < I128_MAX := by
    simp only [USIZE_MAX, I128_MAX]; omega
  have hlenI : (items.length : Int) ≤ (USIZE_MAX : Int) := by exact_mod_cast hlen
  have hns : ¬ step > 0 := by omega
  intro fuel
  induction fuel with
  | zero =>
    intro i out hi hf
    unfold sliceLoop
    by_cases hc : e < i
    · by_cases h2 : e < i + step
      · rw [sliceLength_neg_step hstep hc h2] at hf; omega
      · rw [sliceLength_neg_last hstep hc h2] at hf; omega
    · have hc' : ¬ i > e := by omega
      simp only [hns, if_false, hc']
      rw [sliceLength_neg_done hstep hc, pick_zero, List.append_nil]
  | succ f ih =>
    intro i out hi hf
    unfold sliceLoop
    by_cases hc : e < i
    · have hc' : i > e := by omega
      simp only [hns, if_false, hc', if_true]
      have hi0 : 0 ≤ i := by omega
      have hu : asUsize i = i.toNat := asUsize_of_range hi0 (by omega)
      have hlt : i.toNat < items.length := by omega
      rw [hu, List.getElem?_eq_getElem hlt]
      simp only
      have hsat : satAdd i step = i + step :=
        satAdd_eq (by omega) (by omega)
      rw [hsat]
      by_cases h2 : e < i + step
      · rw [sliceLength_neg_step hstep hc h2, pick_succ]
        rw [sliceLength_neg_step hstep hc h2] at hf
        rw [ih (i + step) _ (by omega) (by omega)]
        simp [hi0, List.getElem?_eq_getElem hlt]
      · rw [sliceLength_neg_last hstep hc h2, pick_succ, pick_zero]
        rw [ih (i + step) _ (by omega) (by rw [sliceLength_neg_done hstep h2]; omega)]
        rw [sliceLength_neg_done hstep h2, pick_zero]
        simp [hi0, List.getElem?_eq_getElem hlt]
    · have hc' : ¬ i > e := by omega
      simp only [hns, if_false, hc']
      rw [sliceLength_neg_done hstep hc, pick_zero, List.append_nil]

/-! ### bounds resolution against `PySlice_AdjustIndices` -/

theorem adjustBound_pos_range {len step p : Int} (hs : 0 < step) (hl : 0 ≤ len) :
    0 ≤ adjustBound len step p ∧ adjustBound len step p ≤ len := by
  unfold adjustBound
  have hn : ¬ step < 0 := by omega
  simp only [hn, if_false]
  split_ifs <;> omega

theorem adjustBound_neg_range {len step p : Int} (hs : step < 0) (hl : 0 ≤ len) :
    -1 ≤ adjustBound len step p ∧ adjustBound len step p ≤ len - 1 := by
  unfold adjustBound
  simp only [hs, if_true]
  split_ifs <;> omega

theorem resolveParam_pos {len step p d : Int} (hs : 0 < step) (hl : 0 ≤ len)
    (hlm : len ≤ I128_MAX) (hp : inI128 p) :
    resolveParam (some p) d len 0 len = .ok (adjustBound len step p) := by
  have hn : ¬ step < 0 := by omega
  obtain ⟨hp1, hp2⟩ := hp
  unfold resolveParam clampI adjustBound
  simp only [hn, if_false, hl, if_true]
  by_cases hp0 : p < 0
  · rw [if_pos hp0, satAdd_eq (by omega) (by omega)]
    simp only [hp0, if_true]
    congr 1
    split_ifs <;> omega
  · simp only [hp0, if_false]
    congr 1
    split_ifs <;> omega

theorem resolveParam_neg {len step p d : Int} (hs : step < 0) (hl : 0 ≤ len)
    (hlm : len ≤ I128_MAX) (hp : inI128 p) :
    resolveParam (some p) d len (-1) (len - 1) = .ok (adjustBound len step p) := by
  obtain ⟨hp1, hp2⟩ := hp
  unfold resolveParam clampI adjustBound
  have hle : (-1 : Int) ≤ len - 1 := by omega
  simp only [hs, if_true, hle]
  by_cases hp0 : p < 0
  · rw [if_pos hp0, satAdd_eq (by omega) (by omega)]
    simp only [hp0, if_true]
    congr 1
    split_ifs <;> omega
  · simp only [hp0, if_false]
    congr 1
    split_ifs <;> omega

/-- `slice_items` computes exactly the walk CPython prescribes, for every fuel of at least `len`. -/
theorem sliceItems_eq {α : Type} (items : List α) (start stop : Option Int) (step : Int)
    (hstart : ∀ v, start = some v → inI128 v) (hstop : ∀ v, stop = some v → inI128 v)
    (hstep : inI128 step) (hnz : step ≠ 0) (hlen : items.length ≤ USIZE_MAX)
    (fuel : Nat) (hfuel : items.length ≤ fuel) :
    sliceItems fuel items start stop step =
      .ok (pick items (adjStart items.length step start) step
        (sliceLength (adjStart items.length step start) (adjStop items.length step stop) step)) := by
  have hU : ((USIZE_MAX : Nat) : Int) < I128_MAX := by
    simp only [USIZE_MAX, I128_MAX]; omega
  have hlenI : (items.length : Int) ≤ (USIZE_MAX : Int) := by exact_mod_cast hlen
  have hl0 : (0 : Int) ≤ (items.length : Int) := by omega
  obtain ⟨hst1, hst2⟩ := hstep
  by_cases hpos : 0 < step
  · have hn : ¬ step < 0 := by omega
    have hS : resolveParam start 0 (items.length : Int) 0 (items.length : Int)
        = .ok (adjStart items.length step start) := by
      cases start with
      | none => simp [resolveParam, adjStart, hn]
      | some p => exact resolveParam_pos hpos hl0 (by omega) (hstart p rfl)
    have hE : resolveParam stop (items.length : Int) (items.length : Int) 0 (items.length : Int)
        = .ok (adjStop items.length step stop) := by
      cases stop with
      | none => simp [resolveParam, adjStop, hn]
      | some p => exact resolveParam_pos hpos hl0 (by omega) (hstop p rfl)
    have hSr : 0 ≤ adjStart items.length step start := by
      cases start with
      | none => simp [adjStart, hn]
      | some p => exact (adjustBound_pos_range hpos hl0).1
    have hEr : adjStop items.length step stop ≤ (items.length : Int) := by
      cases stop with
      | none => simp [adjStop, hn]
      | some p => exact (adjustBound_pos_range hpos hl0).2
    have hpos' : step > 0 := hpos
    unfold sliceItems
    simp only [hpos', if_true, Res.bind, hS, hE]
    have hfl := sliceLength_le_pos (i := adjStart items.length step start)
      (e := adjStop items.length step stop) hpos
    have := sliceLoop_pos items step (adjStop items.length step stop) hpos hEr hlen fuel
      (adjStart items.length step start) [] hSr (by omega)
    simpa using this
  · have hneg : step < 0 := by omega
    have hns : ¬ step > 0 := by omega
    have hS : resolveParam start ((items.length : Int) - 1) (items.length : Int) (-1) ((items.length : Int) - 1)
        = .ok (adjStart items.length step start) := by
      cases start with
      | none => simp [resolveParam, adjStart, hneg]
      | some p => exact resolveParam_neg hneg hl0 (by omega) (hstart p rfl)
    have hE : resolveParam stop (-1) (items.length : Int) (-1) ((items.length : Int) - 1)
        = .ok (adjStop items.length step stop) := by
      cases stop with
      | none => simp [resolveParam, adjStop, hneg]
      | some p => exact resolveParam_neg hneg hl0 (by omega) (hstop p rfl)
    have hSr : adjStart items.length step start ≤ (items.length : Int) - 1 := by
      cases start with
      | none => simp [adjStart, hneg]
      | some p => exact (adjustBound_neg_range hneg hl0).2
    have hEr : -1 ≤ adjStop items.length step stop := by
      cases stop with
      | none => simp [adjStop, hneg]
      | some p => exact (adjustBound_neg_range hneg hl0).1
    have hchk : chkI128 "value/mod.rs:994 len - 1" ((items.length : Int) - 1) = .ok ((items.length : Int) - 1) := by
      unfold chkI128
      rw [if_pos]
      constructor
      · simp only [I128_MIN]; omega
      · omega
    unfold sliceItems
    simp only [hns, if_false, Res.bind, hchk, hS, hE]
    have hfl := sliceLength_le_neg (i := adjStart items.length step start)
      (e := adjStop items.length step stop) hneg
    have := sliceLoop_neg items step (adjStop items.length step stop) hneg hst1 hEr hlen fuel
      (adjStart items.length step start) [] hSr (by omega)
    simpa using this

/-- `pick` at the adjusted bounds is `PySlice.select`. -/
theorem select_eq_pick {α : Type} (items : List α) (start stop step : Option Int)
    (hnz : step.getD 1 ≠ 0) :
    select items start stop step =
      some (pick items (adjStart items.length (step.getD 1) start) (step.getD 1)
        (sliceLength (adjStart items.length (step.getD 1) start)
          (adjStop items.length (step.getD 1) stop) (step.getD 1))) := by
  unfold select indices pick
  simp only [hnz, if_false, List.filterMap_map]
  rfl

/-! ### fuel: less fuel can only turn a result into `.fuel`, never into anything else -/

theorem sliceLoop_fuel_mono {α : Type} (items : List α) (step e : Int) :
    ∀ (f : Nat) (i : Int) (out : List α),
      sliceLoop items step e f i out = .fuel ∨
      sliceLoop items step e f i out = sliceLoop items step e (f + 1) i out := by
  intro f
  induction f with
  | zero =>
    intro i out
    by_cases hc : (if step > 0 then i < e else i > e)
    · left; unfold sliceLoop; simp only [hc, if_true]
    · right; unfold sliceLoop; simp only [hc, if_false]
  | succ f ih =>
    intro i out
    by_cases hc : (if step > 0 then i < e else i > e)
    · conv => lhs; unfold sliceLoop
      conv => rhs; lhs; unfold sliceLoop
      conv => rhs; rhs; unfold sliceLoop
      simp only [hc, if_true]
      cases items[asUsize i]? with
      | none => right; rfl
      | some x => exact ih (satAdd i step) (out ++ [x])
    · right; unfold sliceLoop; simp only [hc, if_false]

theorem sliceLoop_fuel_le {α : Type} (items : List α) (step e : Int) (f g : Nat) (h : f ≤ g)
    (i : Int) (out : List α) :
    sliceLoop items step e f i out = .fuel ∨
    sliceLoop items step e f i out = sliceLoop items step e g i out := by
  induction g with
  | zero =>
    have : f = 0 := by omega
    subst this; right; rfl
  | succ g ih =>
    by_cases hfg : f ≤ g
    · rcases ih hfg with h1 | h1
      · left; exact h1
      · rcases sliceLoop_fuel_mono items step e g i out with h2 | h2
        · -- more fuel ran out, so did less
          rw [h1]; left; exact h2
        · right; rw [h1, h2]
    · have : f = g + 1 := by omega
      subst this; right; rfl

/-! ### the positions Python selects all lie inside the sequence -/

theorem pick_index_in_range_pos {i e step : Int} {len : Int} (hs : 0 < step) (hi : 0 ≤ i)
    (he : e ≤ len) (k : Nat) (hk : k < sliceLength i e step) :
    0 ≤ i + (k : Int) * step ∧ i + (k : Int) * step < len := by
  unfold sliceLength at hk
  have hn : ¬ step < 0 := by omega
  simp only [hn, if_false] at hk
  split_ifs at hk with hlt
  · have hq : (k : Int) ≤ (e - i - 1) / step := by omega
    have hm : (k : Int) * step ≤ e - i - 1 := (Int.le_ediv_iff_mul_le hs).mp hq
    have h0 : 0 ≤ (k : Int) * step := Int.mul_nonneg (by omega) (by omega)
    omega
  · omega

theorem pick_index_in_range_neg {i e step : Int} {len : Int} (hs : step < 0) (hi : i ≤ len - 1)
    (he : -1 ≤ e) (k : Nat) (hk : k < sliceLength i e step) :
    0 ≤ i + (k : Int) * step ∧ i + (k : Int) * step < len := by
  unfold sliceLength at hk
  simp only [hs, if_true] at hk
  split_ifs at hk with hlt
  · have hq : (k : Int) ≤ (i - e - 1) / (-step) := by omega
    have hm : (k : Int) * (-step) ≤ i - e - 1 := (Int.le_ediv_iff_mul_le (by omega)).mp hq
    have h0 : 0 ≤ (k : Int) * (-step) := Int.mul_nonneg (by omega) (by omega)
    have e1 : (k : Int) * (-step) = -((k : Int) * step) := by ring
    omega
  · omega

theorem Res.bind_fuel_or {α β : Type} (r : Res α) (F G : α → Res β)
    (h : ∀ a, F a = .fuel ∨ F a = G a) : r.bind F = .fuel ∨ r.bind F = r.bind G := by
  cases r with
  | ok a => exact h a
  | err e => right; rfl
  | panic m => right; rfl
  | fuel => right; rfl

/-- With less fuel `slice_items` gives the same answer or reports `.fuel`; never anything else. -/
theorem sliceItems_fuel_le {α : Type} (items : List α) (start stop : Option Int) (step : Int)
    (f g : Nat) (h : f ≤ g) :
    sliceItems f items start stop step = .fuel ∨
    sliceItems f items start stop step = sliceItems g items start stop step := by
  unfold sliceItems
  apply Res.bind_fuel_or
  intro p
  obtain ⟨lo, hi⟩ := p
  apply Res.bind_fuel_or
  intro s
  apply Res.bind_fuel_or
  intro e
  exact sliceLoop_fuel_le items step e f g h s []

theorem adj_range_pos {len step : Int} (start stop : Option Int) (hs : 0 < step) (hl : 0 ≤ len) :
    0 ≤ adjStart len step start ∧ adjStop len step stop ≤ len := by
  have hn : ¬ step < 0 := by omega
  constructor
  · cases start with
    | none => simp [adjStart, hn]
    | some p => exact (adjustBound_pos_range hs hl).1
  · cases stop with
    | none => simp [adjStop, hn]
    | some p => exact (adjustBound_pos_range hs hl).2

theorem adj_range_neg {len step : Int} (start stop : Option Int) (hs : step < 0) (hl : 0 ≤ len) :
    adjStart len step start ≤ len - 1 ∧ -1 ≤ adjStop len step stop := by
  constructor
  · cases start with
    | none => simp [adjStart, hs]
    | some p => exact (adjustBound_neg_range hs hl).2
  · cases stop with
    | none => simp [adjStop, hs]
    | some p => exact (adjustBound_neg_range hs hl).1

/-- Every position in `PySlice.indices` lies inside the sequence. -/
theorem indices_in_range (len : Nat) (start stop : Option Int) (step : Int) (hnz : step ≠ 0) :
    ∀ i ∈ indices len start stop step, 0 ≤ i ∧ i < (len : Int) := by
  intro i hi
  unfold indices at hi
  simp only [List.mem_map, List.mem_range] at hi
  obtain ⟨k, hk, rfl⟩ := hi
  have hl : (0 : Int) ≤ (len : Int) := by omega
  by_cases hpos : 0 < step
  · obtain ⟨a, b⟩ := adj_range_pos (len := len) start stop hpos hl
    exact pick_index_in_range_pos hpos a b k hk
  · have hneg : step < 0 := by omega
    obtain ⟨a, b⟩ := adj_range_neg (len := len) start stop hneg hl
    exact pick_index_in_range_neg hneg a b k hk

/-- Walking forward one by one from position `i` is `drop` then `take`. -/
theorem pick_step_one {α : Type} (items : List α) :
    ∀ (n : Nat) (i : Nat), pick items (i : Int) 1 n = (items.drop i).take n := by
  intro n
  induction n with
  | zero => intro i; simp [pick_zero]
  | succ n ih =>
    intro i
    rw [pick_succ]
    have e : ((i : Int) + 1) = ((i + 1 : Nat) : Int) := by push_cast; rfl
    rw [e, ih (i + 1)]
    have h0 : (0 : Int) ≤ (i : Int) := by omega
    simp only [h0, if_true, Int.toNat_natCast]
    by_cases hi : i < items.length
    · rw [List.getElem?_eq_getElem hi, List.drop_eq_getElem_cons hi, List.take_succ_cons]
      rfl
    · have h1 : items.length ≤ i := by omega
      rw [List.getElem?_eq_none h1, List.drop_eq_nil_of_le h1, List.drop_eq_nil_of_le (by omega)]
      simp

/-- `x[:]` selects everything, in order. -/
theorem select_all {α : Type} (items : List α) : select items none none none = some items := by
  rw [select_eq_pick items none none none (by simp)]
  simp only [Option.getD_none, adjStart, adjStop]
  have hn : ¬ ((1 : Int) < 0) := by omega
  simp only [hn, if_false]
  have hsl : sliceLength 0 (items.length : Int) 1 = items.length := by
    unfold sliceLength
    simp only [hn, if_false]
    split_ifs with h
    · simp only [Int.ediv_one]; omega
    · omega
  rw [hsl]
  have := pick_step_one items items.length 0
  simp only [Int.natCast_zero, List.drop_zero, List.take_length] at this
  rw [this]

/-- Python's selection commutes with mapping the elements. -/
theorem select_map {α β : Type} (f : α → β) (items : List α) (start stop step : Option Int) :
    select (items.map f) start stop step = (select items start stop step).map (List.map f) := by
  unfold select
  simp only [List.length_map]
  split_ifs
  · rfl
  · simp only [Option.map_some, List.map_filterMap]
    congr 2
    funext i
    split_ifs
    · simp [List.getElem?_map]
    · rfl

end Tera.Index
