/-
Soundness of the bytecode checker of Model/VmCheck.lean with respect to the value-level VM of
Model/Vm.lean: the table the checker verified DESCRIBES every state a run reaches (`Rel`), by a
one-step simulation lemma per arm (`sim_*`), so that the preconditions of the no-panic lemmas of
Lemmas/VmTotal.lean hold at every turn; and a chunk runs on top of its caller's stacks without
touching them (`Frame`).
-/
import TeraModel.Lemmas.VmTotal
import TeraModel.Model.VmCheck
namespace Tera.Vm
open Tera

/-! ### scope accessors -/

@[simp] theorem forLoops_pushLoop (sc : Scope) (l : ForLoop) : (sc.pushLoop l).forLoops = l :: sc.forLoops := by
  cases sc; rfl
@[simp] theorem forLoops_popLoop (sc : Scope) : sc.popLoop.forLoops = sc.forLoops.tail := by
  cases sc; rfl
@[simp] theorem forLoops_storeGlobal (sc : Scope) (n : String) (v : Value) :
    (sc.storeGlobal n v).forLoops = sc.forLoops := by
  cases sc; rfl
theorem forLoops_setTopLoop (sc : Scope) (l : ForLoop) :
    (sc.setTopLoop l).forLoops = match sc.forLoops with | _ :: rest => l :: rest | [] => [] := by
  rcases sc with ⟨_ | ⟨x, xs⟩, _, _, _, _⟩ <;> rfl
theorem forLoops_storeLocal (sc : Scope) (n : String) (v : Value) :
    (sc.storeLocal n v).forLoops = match sc.forLoops with | l :: rest => l.store n v :: rest | [] => [] := by
  rcases sc with ⟨_ | ⟨x, xs⟩, _, _, _, _⟩ <;> rfl

/-- the `end_ip`s of the active loops -/
def ends (loops : List ForLoop) : List Nat := loops.map (·.endIp)

/-! ### what a table entry says about a concrete state -/

def Forall2 {α β : Type} (ok : α → β → Prop) : List α → List β → Prop
  | [], [] => True
  | a :: as, b :: bs => ok a b ∧ Forall2 ok as bs
  | _, _ => False

theorem Forall2.length {α β : Type} {ok : α → β → Prop} : ∀ {as : List α} {bs : List β},
    Forall2 ok as bs → as.length = bs.length
  | [], [], _ => rfl
  | _ :: as, _ :: bs, h => by simp [Forall2.length h.2]
  | [], _ :: _, h => h.elim
  | _ :: _, [], h => h.elim

/-- the top `as.length` elements of `bs` are described by `as`, below them is `base` -/
def RelList {α β : Type} (ok : α → β → Prop) (base : List β) (as : List α) (bs : List β) : Prop :=
  ∃ own, bs = own ++ base ∧ Forall2 ok as own

theorem relList_nil {α β : Type} {ok : α → β → Prop} {base bs : List β} :
    RelList ok base [] bs ↔ bs = base := by
  constructor
  · rintro ⟨own, rfl, h⟩
    cases own with
    | nil => rfl
    | cons _ _ => exact h.elim
  · rintro rfl; exact ⟨[], rfl, trivial⟩

theorem relList_cons {α β : Type} {ok : α → β → Prop} {base : List β} {a : α} {as : List α} {bs : List β} :
    RelList ok base (a :: as) bs ↔ ∃ b rest, bs = b :: rest ∧ ok a b ∧ RelList ok base as rest := by
  constructor
  · rintro ⟨own, rfl, h⟩
    cases own with
    | nil => exact h.elim
    | cons b own' => exact ⟨b, own' ++ base, rfl, h.1, own', rfl, h.2⟩
  · rintro ⟨b, rest, rfl, hb, own, rfl, h⟩
    exact ⟨b :: own, rfl, hb, h⟩

theorem relList_length {α β : Type} {ok : α → β → Prop} {base : List β} {as : List α} {bs : List β}
    (h : RelList ok base as bs) : bs.length = as.length + base.length := by
  obtain ⟨own, rfl, h⟩ := h
  simp [h.length]

theorem relList_drop {α β : Type} {ok : α → β → Prop} {base : List β} :
    ∀ (n : Nat) {as : List α} {bs : List β}, RelList ok base as bs → n ≤ as.length →
    RelList ok base (as.drop n) (bs.drop n)
  | 0, _, _, h, _ => by simpa using h
  | n + 1, [], _, _, hn => by simp at hn
  | n + 1, a :: as, bs, h, hn => by
    obtain ⟨b, rest, rfl, _, hr⟩ := relList_cons.mp h
    simp only [List.drop_succ_cons]
    exact relList_drop n hr (by simp at hn; omega)

/-- what a tag claims about a slot -/
def tagOk (c : Chunk) (t : Tag) (s : Slot) : Prop :=
  (t.arr = true → isArrV s.1 = true) ∧ (t.map = true → s.1.isMap = true) ∧
  (t.sp = true → c.expandSpan s.2 = true) ∧ (t.okb = true → okBoundV s.1 = true)

/-- what a loop entry claims about an `end_ip` -/
def loopOk (o : Option Nat) (e : Nat) : Prop := ∀ t, o = some t → e = t

/-- names and lineages of the block stack (the levels move during `super()`) -/
def blocksSig (st : State) : List (String × List Chunk) := st.blocks.map fun e => (e.1, e.2.1)

/-- The abstract state `a` describes the concrete state `st` of a chunk entered in state `base`:
the caller's part of the three stacks is underneath, untouched as far as the value stack goes. -/
structure Rel (c : Chunk) (base : State) (a : ASt) (st : State) : Prop where
  stack : RelList (tagOk c) base.stack a.stack st.stack
  loops : RelList loopOk (ends base.scope.forLoops) a.loops (ends st.scope.forLoops)
  caps : st.captures.length = a.caps + base.captures.length
  cur : st.currentBlockName = base.currentBlockName
  blocks : blocksSig st = blocksSig base

/-- What a nested `interpret` that returned normally left of the state it was given. -/
structure Frame (st st2 : State) : Prop where
  stack : st2.stack = st.stack
  loops : ends st2.scope.forLoops = ends st.scope.forLoops
  caps : st2.captures.length = st.captures.length
  cur : st2.currentBlockName = st.currentBlockName
  blocks : blocksSig st2 = blocksSig st

theorem tagOk_le {c : Chunk} {t t' : Tag} {s : Slot} (hle : t.le t' = true) (h : tagOk c t s) :
    tagOk c t' s := by
  simp only [Tag.le, Bool.and_eq_true, Bool.or_eq_true, Bool.not_eq_true'] at hle
  obtain ⟨⟨⟨h1, h2⟩, h3⟩, h4⟩ := hle
  obtain ⟨g1, g2, g3, g4⟩ := h
  refine ⟨fun h => g1 ?_, fun h => g2 ?_, fun h => g3 ?_, fun h => g4 ?_⟩
  · rcases h1 with h1 | h1 <;> simp_all
  · rcases h2 with h2 | h2 <;> simp_all
  · rcases h3 with h3 | h3 <;> simp_all
  · rcases h4 with h4 | h4 <;> simp_all

theorem forall2_tags_le {c : Chunk} : ∀ {ts ts' : List Tag} {own : List Slot},
    leTags ts ts' = true → Forall2 (tagOk c) ts own → Forall2 (tagOk c) ts' own
  | [], [], _, _, h => h
  | t :: ts, t' :: ts', [], _, h => h.elim
  | t :: ts, t' :: ts', s :: own, hle, h => by
    simp only [leTags, Bool.and_eq_true] at hle
    exact ⟨tagOk_le hle.1 h.1, forall2_tags_le hle.2 h.2⟩
  | [], _ :: _, _, hle, _ => by simp [leTags] at hle
  | _ :: _, [], _, hle, _ => by simp [leTags] at hle

theorem forall2_loops_le : ∀ {ls ls' : List (Option Nat)} {own : List Nat},
    leLoops ls ls' = true → Forall2 loopOk ls own → Forall2 loopOk ls' own
  | [], [], _, _, h => h
  | l :: ls, l' :: ls', [], _, h => h.elim
  | l :: ls, l' :: ls', e :: own, hle, h => by
    simp only [leLoops, Bool.and_eq_true, Bool.or_eq_true, beq_iff_eq] at hle
    refine ⟨?_, forall2_loops_le hle.2 h.2⟩
    intro t ht
    rcases hle.1 with h1 | h1
    · rw [ht] at h1; cases h1
    · exact h.1 t (by rw [h1, ht])
  | [], _ :: _, _, hle, _ => by simp [leLoops] at hle
  | _ :: _, [], _, hle, _ => by simp [leLoops] at hle

/-- a less precise description still describes -/
theorem Rel.mono {c : Chunk} {base st : State} {a b : ASt} (hle : a.le b = true) (h : Rel c base a st) :
    Rel c base b st := by
  simp only [ASt.le, Bool.and_eq_true, beq_iff_eq] at hle
  obtain ⟨⟨h1, h2⟩, h3⟩ := hle
  obtain ⟨⟨own, hs, hown⟩, ⟨lown, hl, hlown⟩, hc, hcur, hb⟩ := h
  exact ⟨⟨own, hs, forall2_tags_le h1 hown⟩, ⟨lown, hl, forall2_loops_le h3 hlown⟩, by rw [← h2]; exact hc, hcur, hb⟩

/-! ### writes do not touch what `Rel` looks at -/

@[simp] theorem write_stack (st : State) (t : List Char) : (st.write t).stack = st.stack := by
  unfold State.write; split <;> rfl
@[simp] theorem write_scope (st : State) (t : List Char) : (st.write t).scope = st.scope := by
  unfold State.write; split <;> rfl
@[simp] theorem write_caps_length (st : State) (t : List Char) :
    (st.write t).captures.length = st.captures.length := by
  unfold State.write; split <;> simp_all
@[simp] theorem write_cur (st : State) (t : List Char) :
    (st.write t).currentBlockName = st.currentBlockName := by
  unfold State.write; split <;> rfl
@[simp] theorem write_blocks (st : State) (t : List Char) : (st.write t).blocks = st.blocks := by
  unfold State.write; split <;> rfl

theorem Rel.congr {c : Chunk} {base st st' : State} {a : ASt} (h : Rel c base a st)
    (hs : st'.stack = st.stack) (hl : ends st'.scope.forLoops = ends st.scope.forLoops)
    (hc : st'.captures.length = st.captures.length) (hcur : st'.currentBlockName = st.currentBlockName)
    (hb : st'.blocks = st.blocks) : Rel c base a st' :=
  ⟨hs ▸ h.stack, hl ▸ h.loops, hc ▸ h.caps, hcur ▸ h.cur, by simp only [blocksSig, hb]; exact h.blocks⟩

theorem Rel.write {c : Chunk} {base st : State} {a : ASt} (h : Rel c base a st) (t : List Char) :
    Rel c base a (st.write t) :=
  h.congr (by simp) (by simp) (by simp) (by simp) (by simp)

/-! ### one-step simulation -/

/-- The arm does not panic, and when it goes on, one of the successors the abstract step computed
describes the new state. -/
def SimOK (c : Chunk) (base : State) (succs : List (Nat × ASt)) : StepRes → Prop
  | .next pc' st' => ∃ a', (pc', a') ∈ succs ∧ Rel c base a' st'
  | .panic _ => False
  | _ => True

section sim
variable {env : Env} {vm : VmCtx} {c : Chunk} {base st : State} {a : ASt} {pc : Nat}
  {succs : List (Nat × ASt)}

theorem simOK_raise (ht : reportTargetOk env vm c = true) (e : RErr) :
    SimOK c base succs (raise env vm c e) := by
  simp [raise, ht, SimOK]

theorem simOK_renderingError (ht : reportTargetOk env vm c = true) {r : SpanRange}
    (hr : c.expandSpan r = true) (e : RErr) : SimOK c base succs (renderingError env vm c r e) := by
  simp [renderingError, hr, simOK_raise ht]

theorem simOK_errorAt (ht : reportTargetOk env vm c = true) {k : Nat}
    (hk : c.hasSpanAt pc k = true) (site : String) (e : RErr) :
    SimOK c base succs (errorAt env vm c pc k site e) := by
  simp [errorAt, hk, simOK_raise ht]

/-- a successor that only changes the value stack -/
theorem simOK_next_stack (hrel : Rel c base a st) {ts : List Tag} {stk : List Slot} {pc' : Nat}
    (hmem : (pc', { a with stack := ts }) ∈ succs)
    (hs : RelList (tagOk c) base.stack ts stk) :
    SimOK c base succs (.next pc' { st with stack := stk }) :=
  ⟨_, hmem, ⟨hs, hrel.loops, hrel.caps, hrel.cur, hrel.blocks⟩⟩

theorem tagOk_fresh {own : Bool} {v : Value} (hown : own = true → c.hasSpan pc = true) :
    tagOk c (Tag.fresh own) (v, (pc, pc)) := by
  refine ⟨by simp [Tag.fresh], by simp [Tag.fresh], ?_, by simp [Tag.fresh]⟩
  intro h; exact expandSpan_self (hown h)

theorem relList_push {ts : List Tag} {stk : List Slot} {t : Tag} {s : Slot}
    (h : RelList (tagOk c) base.stack ts stk) (ht : tagOk c t s) :
    RelList (tagOk c) base.stack (t :: ts) (s :: stk) :=
  relList_cons.mpr ⟨s, stk, rfl, ht, h⟩

theorem sim_push (hrel : Rel c base a st) {t : Tag} {s : Slot} (ht : tagOk c t s)
    (hmem : (pc + 1, { a with stack := t :: a.stack }) ∈ succs) :
    SimOK c base succs (.next (pc + 1) (st.push s.1 s.2)) :=
  simOK_next_stack hrel hmem (relList_push hrel.stack ht)

variable {own : Bool} {nspans : Nat}

/-- the single successor of a straight-line arm that only changes the value stack -/
theorem simOK_next1 (hrel : Rel c base a st) {ts : List Tag} {stk : List Slot} {pc' : Nat}
    (hs : RelList (tagOk c) base.stack ts stk) :
    SimOK c base [(pc', { a with stack := ts })] (.next pc' { st with stack := stk }) :=
  simOK_next_stack hrel (by simp) hs

theorem isMap_of_tag {t : Tag} {s : Slot} (h : tagOk c t s) (hm : t.map = true) : ∃ es, s.1 = .map es :=
  isMap_cases (h.2.1 hm)

theorem sim_loadConst (v : Value) (hrel : Rel c base a st) (hown : own = true → c.hasSpan pc = true)
    (ha : astep (.loadConst v) own nspans pc a = some succs) :
    SimOK c base succs (.next (pc + 1) (st.push v (pc, pc))) := by
  simp only [astep, Option.some.injEq] at ha
  subst ha
  refine simOK_next1 hrel (relList_push hrel.stack ⟨by simp, fun h => h, ?_, fun h => h⟩)
  intro h; exact expandSpan_self (hown h)

theorem sim_loadName (n : String) (hrel : Rel c base a st) (hown : own = true → c.hasSpan pc = true)
    (ha : astep (.loadName n) own nspans pc a = some succs) :
    SimOK c base succs (.next (pc + 1) (st.push (lookupName st.scope n) (pc, pc))) := by
  simp only [astep, Option.some.injEq] at ha
  subst ha
  exact simOK_next1 hrel (relList_push hrel.stack (tagOk_fresh hown))

theorem sim_loadAttr (attr : String) (opt : Bool) (hrel : Rel c base a st)
    (ht : reportTargetOk env vm c = true) (hown : own = true → c.hasSpan pc = true)
    (ha : astep (.loadAttr attr opt) own nspans pc a = some succs) :
    SimOK c base succs (stepLoadAttr env vm c attr opt pc st) := by
  simp only [astep] at ha
  split at ha
  · rename_i ta rest hstk
    split at ha
    · rename_i hcond
      simp only [Option.some.injEq] at ha; subst ha
      obtain ⟨⟨v, r⟩, stk, hs, hok, hr⟩ := relList_cons.mp (hstk ▸ hrel.stack)
      unfold stepLoadAttr; rw [hs]; simp only
      split
      · exact simOK_next1 hrel (relList_push hr (tagOk_fresh hown))
      · rename_i hno
        split
        · rename_i hu
          have hsp : ta.sp = true := by
            cases opt
            · simpa using hcond
            · simp [hu] at hno
          exact simOK_renderingError ht (hok.2.2.1 hsp) _
        · exact simOK_next1 hrel (relList_push hr (tagOk_fresh hown))
    · cases ha
  · cases ha

theorem sim_subscript (opt : Bool) (hrel : Rel c base a st)
    (ht : reportTargetOk env vm c = true) (hown : own = true → c.hasSpan pc = true)
    (ha : astep (.binarySubscript opt) own nspans pc a = some succs) :
    SimOK c base succs (stepSubscript env vm c opt pc st) := by
  simp only [astep] at ha
  split at ha
  · rename_i tsub tval rest hstk
    split at ha
    · rename_i hcond
      simp only [Option.some.injEq] at ha; subst ha
      obtain ⟨⟨sub, rs⟩, stk1, hs1, hok1, hr1⟩ := relList_cons.mp (hstk ▸ hrel.stack)
      obtain ⟨⟨val, rv⟩, stk2, rfl, hok2, hr2⟩ := relList_cons.mp hr1
      simp only [Bool.and_eq_true, Bool.or_eq_true] at hcond
      have hsub : c.expandSpan rs = true := hok1.2.2.1 hcond.1
      unfold stepSubscript; rw [hs1]; simp only
      split
      · rename_i hopt
        refine simOK_next1 hrel (relList_push hr2 ⟨by simp, by simp, ?_, by simp⟩)
        intro h
        simp only [Bool.and_eq_true, Bool.or_eq_true, Bool.not_eq_true'] at h hopt
        rcases h.2 with h2 | h2
        · rw [h2] at hopt; simp at hopt
        · exact expandSpan_self (hown h2)
      · rename_i hno
        split
        · rename_i hu
          have hsp : tval.sp = true := by
            rcases hcond.2 with h | h
            · subst h; simp [hu] at hno
            · exact h
          exact simOK_renderingError ht (hok2.2.2.1 hsp) _
        · split
          · exact simOK_renderingError ht hsub _
          · split
            · refine simOK_next1 hrel (relList_push hr2 ⟨by simp, by simp, ?_, by simp⟩)
              intro h
              simp only [Bool.and_eq_true] at h
              exact expandSpan_combine (hok2.2.2.1 h.1.2) hsub
            · exact simOK_renderingError ht hsub _
    · cases ha
  · cases ha

theorem okBound_not_bad {t : Tag} {v : Value} {r : SpanRange} (hok : tagOk c t (v, r))
    (h : (t.sp || t.okb) = true) (hbad : sliceBound v = .bad) : c.expandSpan r = true := by
  simp only [Bool.or_eq_true] at h
  rcases h with h | h
  · exact hok.2.2.1 h
  · have := hok.2.2.2 h
    simp [okBoundV, hbad] at this

theorem sim_slice (opt : Bool) (hrel : Rel c base a st)
    (ht : reportTargetOk env vm c = true) (hown : own = true → c.hasSpan pc = true)
    (ha : astep (.slice opt) own nspans pc a = some succs) :
    SimOK c base succs (stepSlice env vm c opt pc st) := by
  simp only [astep] at ha
  split at ha
  · rename_i t1 t2 t3 t4 rest hstk
    split at ha
    · rename_i hcond
      simp only [Option.some.injEq] at ha; subst ha
      obtain ⟨⟨v1, r1⟩, stk1, hs1, hok1, hr1⟩ := relList_cons.mp (hstk ▸ hrel.stack)
      obtain ⟨⟨v2, r2⟩, stk2, rfl, hok2, hr2⟩ := relList_cons.mp hr1
      obtain ⟨⟨v3, r3⟩, stk3, rfl, hok3, hr3⟩ := relList_cons.mp hr2
      obtain ⟨⟨v4, r4⟩, stk4, rfl, hok4, hr4⟩ := relList_cons.mp hr3
      simp only [Bool.and_eq_true] at hcond
      obtain ⟨⟨⟨hv, h1⟩, h2⟩, h3⟩ := hcond
      have hval : c.expandSpan r4 = true := hok4.2.2.1 hv
      unfold stepSlice; rw [hs1]; simp only
      split
      · rename_i hopt
        refine simOK_next1 hrel (relList_push hr4 ⟨by simp, by simp, ?_, by simp⟩)
        intro h
        simp only [Bool.and_eq_true, Bool.or_eq_true, Bool.not_eq_true'] at h hopt
        rcases h.2 with h2 | h2
        · rw [h2] at hopt; simp at hopt
        · exact expandSpan_self (hown h2)
      · split
        · exact simOK_renderingError ht hval _
        · split
          · rename_i hb; exact simOK_renderingError ht (okBound_not_bad hok3 h3 hb) _
          · split
            · rename_i hb; exact simOK_renderingError ht (okBound_not_bad hok2 h2 hb) _
            · split
              · rename_i hb; exact simOK_renderingError ht (okBound_not_bad hok1 h1 hb) _
              · split
                · refine simOK_next1 hrel (relList_push hr4 ⟨by simp, by simp, ?_, by simp⟩)
                  intro _; exact hval
                · exact simOK_renderingError ht hval _
    · cases ha
  · cases ha

theorem sim_writeTop (hrel : Rel c base a st) (ht : reportTargetOk env vm c = true)
    (ha : astep .writeTop own nspans pc a = some succs) :
    SimOK c base succs (stepWriteTop env vm c pc st) := by
  simp only [astep] at ha
  split at ha
  · rename_i ta rest hstk
    split at ha
    · rename_i hcond
      simp only [Option.some.injEq] at ha; subst ha
      obtain ⟨⟨v, r⟩, stk, hs, hok, hr⟩ := relList_cons.mp (hstk ▸ hrel.stack)
      unfold stepWriteTop; rw [hs]; simp only
      split
      · exact simOK_renderingError ht (hok.2.2.1 hcond) _
      · have h1 : Rel c base { a with stack := rest } { st with stack := stk } :=
          ⟨hr, hrel.loops, hrel.caps, hrel.cur, hrel.blocks⟩
        exact ⟨_, by simp, h1.write _⟩
    · cases ha
  · cases ha

theorem sim_writeText (t : List Char) (hrel : Rel c base a st)
    (ha : astep (.writeText t) own nspans pc a = some succs) :
    SimOK c base succs (.next (pc + 1) (st.write t)) := by
  simp only [astep, Option.some.injEq] at ha
  subst ha
  exact ⟨_, by simp, (show Rel c base { a with stack := a.stack } st from hrel).write t⟩

theorem ends_storeLocal (sc : Scope) (n : String) (v : Value) :
    ends (sc.storeLocal n v).forLoops = ends sc.forLoops := by
  rw [forLoops_storeLocal]
  cases sc.forLoops <;> simp [ends, ForLoop.store]

theorem sim_set (n : String) (g : Bool) (hrel : Rel c base a st)
    (ha : astep (.set n g) own nspans pc a = some succs) :
    SimOK c base succs (stepSet n g pc st) := by
  simp only [astep] at ha
  split at ha
  · rename_i ta rest hstk
    simp only [Option.some.injEq] at ha; subst ha
    obtain ⟨⟨v, r⟩, stk, hs, hok, hr⟩ := relList_cons.mp (hstk ▸ hrel.stack)
    unfold stepSet; rw [hs]; simp only
    refine ⟨{ a with stack := rest }, by simp, ⟨hr, ?_, hrel.caps, hrel.cur, hrel.blocks⟩⟩
    simp only
    cases g
    · simp only [Bool.false_eq_true, ↓reduceIte, ends_storeLocal]; exact hrel.loops
    · simp only [↓reduceIte, forLoops_storeGlobal]; exact hrel.loops
  · cases ha

/-! building maps and lists -/

theorem popN_rest : ∀ (n : Nat) (stk : List Slot) (acc elems : List Value) (rest : List Slot),
    popN n stk acc = .ok elems rest → rest = stk.drop n
  | 0, _, _, _, _, h => by simp [popN] at h; simp [h.2]
  | n + 1, [], _, _, _, h => by simp [popN] at h
  | n + 1, (v, _) :: tl, acc, elems, rest, h => by
    unfold popN at h
    simpa using popN_rest n tl _ elems rest h

theorem tagOk_mapTag {es : Entries} (hown : own = true → c.hasSpan pc = true) :
    tagOk c ⟨false, true, own, false⟩ (.map es, (pc, pc)) :=
  ⟨by simp, by simp [Value.isMap], fun h => expandSpan_self (hown h), by simp⟩

theorem tagOk_arrTag {xs : List Value} (hown : own = true → c.hasSpan pc = true) :
    tagOk c ⟨true, false, own, false⟩ (.arr xs, (pc, pc)) :=
  ⟨by simp [isArrV], by simp, fun h => expandSpan_self (hown h), by simp⟩

theorem sim_buildMap (n : Nat) (hrel : Rel c base a st) (hown : own = true → c.hasSpan pc = true)
    (ha : astep (.buildMap n) own nspans pc a = some succs) :
    SimOK c base succs (stepBuildMap n pc st) := by
  simp only [astep] at ha
  unfold stepBuildMap
  split at ha
  · rename_i hn
    simp only [Option.some.injEq] at ha; subst ha
    simp only [hn, ↓reduceIte, State.push]
    exact simOK_next1 hrel (relList_push hrel.stack (tagOk_mapTag hown))
  · rename_i hn
    split at ha
    · rename_i hlen
      simp only [Option.some.injEq] at ha; subst ha
      simp only [hn, ↓reduceIte]
      have hlen' : 2 * n ≤ st.stack.length := by rw [relList_length hrel.stack]; omega
      have hnp := popPairs_noPanic n st.stack [] hlen'
      split
      · rename_i heq; rw [heq] at hnp; simp [PopRes.isPanic] at hnp
      · trivial
      · rename_i elems rest heq
        have := popPairs_rest n st.stack [] elems rest heq
        subst this
        exact simOK_next1 hrel (relList_push (relList_drop (2 * n) hrel.stack hlen) (tagOk_mapTag hown))
    · cases ha

theorem sim_buildList (n : Nat) (hrel : Rel c base a st) (hown : own = true → c.hasSpan pc = true)
    (ha : astep (.buildList n) own nspans pc a = some succs) :
    SimOK c base succs (stepBuildList n pc st) := by
  simp only [astep] at ha
  unfold stepBuildList
  split at ha
  · rename_i hlen
    simp only [Option.some.injEq] at ha; subst ha
    have hlen' : n ≤ st.stack.length := by rw [relList_length hrel.stack]; omega
    have hnp := popN_noPanic n st.stack [] hlen'
    split
    · rename_i heq; rw [heq] at hnp; simp [PopRes.isPanic] at hnp
    · trivial
    · rename_i elems rest heq
      have := popN_rest n st.stack [] elems rest heq
      subst this
      exact simOK_next1 hrel (relList_push (relList_drop n hrel.stack hlen) (tagOk_arrTag hown))
  · cases ha

/-- the popping loops of the spread instructions end in an error or with the rest of the stack
described by what the abstract loop left -/
def SpreadOK {α : Type} (c : Chunk) (base : State) (restT : List Tag) : StepRes ⊕ (α × List Slot) → Prop
  | .inl (.err _) => True
  | .inl _ => False
  | .inr (_, rest) => RelList (tagOk c) base.stack restT rest

theorem spreadOK_renderingError {α : Type} {restT : List Tag} (ht : reportTargetOk env vm c = true)
    {r : SpanRange} (hr : c.expandSpan r = true) (e : RErr) :
    SpreadOK (α := α) c base restT (.inl (renderingError env vm c r e)) := by
  simp [renderingError, hr, raise, ht, SpreadOK]

theorem popSpreadMap_sim (ht : reportTargetOk env vm c = true) :
    ∀ (flags : List Bool) (ts : List Tag) (stk : List Slot) (acc : Entries) (restT : List Tag),
    spreadMapPops flags ts = some restT → RelList (tagOk c) base.stack ts stk →
    SpreadOK c base restT (popSpreadMap env vm c flags stk acc)
  | [], ts, stk, acc, restT, h, hr => by
    simp only [spreadMapPops, Option.some.injEq] at h; subst h
    simpa [popSpreadMap, SpreadOK] using hr
  | true :: fs, [], _, _, _, h, _ => by simp [spreadMapPops] at h
  | true :: fs, t :: ts, stk, acc, restT, h, hr => by
    obtain ⟨⟨v, r⟩, stk', rfl, hok, hr'⟩ := relList_cons.mp hr
    simp only [spreadMapPops] at h
    split at h
    · rename_i hsp
      simp only [popSpreadMap]
      cases v <;> first
        | exact popSpreadMap_sim ht fs ts stk' _ restT h hr'
        | exact spreadOK_renderingError ht (hok.2.2.1 hsp) _
    · cases h
  | false :: fs, [], _, _, _, h, _ => by simp [spreadMapPops] at h
  | false :: fs, [_], _, _, _, h, _ => by simp [spreadMapPops] at h
  | false :: fs, t1 :: t2 :: ts, stk, acc, restT, h, hr => by
    obtain ⟨⟨v, r⟩, stk1, rfl, _, hr1⟩ := relList_cons.mp hr
    obtain ⟨⟨k, rk⟩, stk2, rfl, _, hr2⟩ := relList_cons.mp hr1
    simp only [spreadMapPops] at h
    simp only [popSpreadMap]
    split
    · trivial
    · exact popSpreadMap_sim ht fs ts stk2 _ restT h hr2

theorem sim_buildMapWithSpreads (flags : List Bool) (hrel : Rel c base a st)
    (ht : reportTargetOk env vm c = true) (hown : own = true → c.hasSpan pc = true)
    (ha : astep (.buildMapWithSpreads flags) own nspans pc a = some succs) :
    SimOK c base succs (stepBuildMapWithSpreads env vm c flags pc st) := by
  simp only [astep] at ha
  split at ha
  · rename_i restT hpops
    simp only [Option.some.injEq] at ha; subst ha
    have := popSpreadMap_sim (env := env) (vm := vm) ht flags.reverse a.stack st.stack [] restT hpops hrel.stack
    unfold stepBuildMapWithSpreads
    split
    · rename_i r heq
      rw [heq] at this
      cases r <;> simp_all [SpreadOK, SimOK]
    · rename_i m rest heq
      rw [heq] at this
      exact simOK_next1 hrel (relList_push this (tagOk_mapTag hown))
  · cases ha

theorem popSpreadList_sim (ht : reportTargetOk env vm c = true) :
    ∀ (flags : List Bool) (ts : List Tag) (stk : List Slot) (acc : List Value) (restT : List Tag),
    spreadListPops flags ts = some restT → RelList (tagOk c) base.stack ts stk →
    SpreadOK c base restT (popSpreadList env vm c flags stk acc)
  | [], ts, stk, acc, restT, h, hr => by
    simp only [spreadListPops, Option.some.injEq] at h; subst h
    simpa [popSpreadList, SpreadOK] using hr
  | f :: fs, [], _, _, _, h, _ => by simp [spreadListPops] at h
  | f :: fs, t :: ts, stk, acc, restT, h, hr => by
    obtain ⟨⟨v, r⟩, stk', rfl, hok, hr'⟩ := relList_cons.mp hr
    simp only [spreadListPops] at h
    split at h
    · rename_i hsp
      simp only [popSpreadList]
      split
      · rename_i hf
        have hsp' : t.sp = true := by simpa [hf] using hsp
        cases v <;> first
          | exact popSpreadList_sim ht fs ts stk' _ restT h hr'
          | exact spreadOK_renderingError ht (hok.2.2.1 hsp') _
      · exact popSpreadList_sim ht fs ts stk' _ restT h hr'
    · cases h

theorem sim_buildListWithSpreads (flags : List Bool) (hrel : Rel c base a st)
    (ht : reportTargetOk env vm c = true) (hown : own = true → c.hasSpan pc = true)
    (ha : astep (.buildListWithSpreads flags) own nspans pc a = some succs) :
    SimOK c base succs (stepBuildListWithSpreads env vm c flags pc st) := by
  simp only [astep] at ha
  split at ha
  · rename_i restT hpops
    simp only [Option.some.injEq] at ha; subst ha
    have := popSpreadList_sim (env := env) (vm := vm) ht flags.reverse a.stack st.stack [] restT hpops hrel.stack
    unfold stepBuildListWithSpreads
    split
    · rename_i r heq
      rw [heq] at this
      cases r <;> simp_all [SpreadOK, SimOK]
    · rename_i m rest heq
      rw [heq] at this
      exact simOK_next1 hrel (relList_push this (tagOk_arrTag hown))
  · cases ha

/-! calls of built-ins -/

theorem sim_filterOrTest_aux (isTest : Bool) (name : String) (hrel : Rel c base a st)
    (ht : reportTargetOk env vm c = true) (hown : own = true → c.hasSpan pc = true)
    (hreg : (if isTest then env.hasTest name else env.hasFilter name) = true)
    (hb : BuiltinsTotal env) {tkw tval : Tag} {rest : List Tag} (hstk : a.stack = tkw :: tval :: rest)
    (hcond : (own && tkw.map && tval.sp) = true) :
    SimOK c base [(pc + 1, { a with stack := Tag.fresh own :: rest })]
      (stepFilterOrTest env vm c isTest name pc st) := by
  simp only [Bool.and_eq_true] at hcond
  obtain ⟨⟨ho, hm⟩, hsp⟩ := hcond
  obtain ⟨⟨kw, rk⟩, stk1, hs1, hok1, hr1⟩ := relList_cons.mp (hstk ▸ hrel.stack)
  obtain ⟨⟨val, rv⟩, stk2, rfl, hok2, hr2⟩ := relList_cons.mp hr1
  obtain ⟨es, hes⟩ := isMap_of_tag hok1 hm
  simp only at hes; subst hes
  unfold stepFilterOrTest
  simp only [hreg, Bool.not_true, Bool.false_eq_true, ↓reduceIte, hs1]
  have hf := hb.1 name val (kwargsOf es)
  have htst := hb.2.1 name val (kwargsOf es)
  have hpush : ∀ v : Value, SimOK c base [(pc + 1, { a with stack := Tag.fresh own :: rest })]
      (.next (pc + 1) { st with stack := (v, (pc, pc)) :: stk2 }) :=
    fun v => simOK_next1 hrel (relList_push hr2 (tagOk_fresh hown))
  cases isTest
  · simp only [Bool.false_eq_true, ↓reduceIte] at *
    split
    · exact hpush _
    · exact simOK_renderingError ht (hok2.2.2.1 hsp) _
    · exact simOK_renderingError ht (expandSpan_self (hown ho)) _
    · rename_i heq; rw [heq] at hf; simp [CallRes.isPanic] at hf
    · trivial
  · simp only [↓reduceIte] at *
    split
    · exact hpush _
    · exact simOK_renderingError ht (hok2.2.2.1 hsp) _
    · exact simOK_renderingError ht (expandSpan_self (hown ho)) _
    · rename_i heq; rw [heq] at htst; simp [CallRes.isPanic] at htst
    · trivial

theorem sim_applyFilter (name : String) (hrel : Rel c base a st)
    (ht : reportTargetOk env vm c = true) (hown : own = true → c.hasSpan pc = true)
    (hreg : env.hasFilter name = true) (hb : BuiltinsTotal env)
    (ha : astep (.applyFilter name) own nspans pc a = some succs) :
    SimOK c base succs (stepFilterOrTest env vm c false name pc st) := by
  simp only [astep] at ha
  split at ha
  · rename_i tkw tval rest hstk
    split at ha
    · rename_i hcond
      simp only [Option.some.injEq] at ha; subst ha
      exact sim_filterOrTest_aux false name hrel ht hown (by simpa using hreg) hb hstk hcond
    · cases ha
  · cases ha

theorem sim_runTest (name : String) (hrel : Rel c base a st)
    (ht : reportTargetOk env vm c = true) (hown : own = true → c.hasSpan pc = true)
    (hreg : env.hasTest name = true) (hb : BuiltinsTotal env)
    (ha : astep (.runTest name) own nspans pc a = some succs) :
    SimOK c base succs (stepFilterOrTest env vm c true name pc st) := by
  simp only [astep] at ha
  split at ha
  · rename_i tkw tval rest hstk
    split at ha
    · rename_i hcond
      simp only [Option.some.injEq] at ha; subst ha
      exact sim_filterOrTest_aux true name hrel ht hown (by simpa using hreg) hb hstk hcond
    · cases ha
  · cases ha

/-! captures and loops -/

theorem sim_capture (hrel : Rel c base a st) (ha : astep .capture own nspans pc a = some succs) :
    SimOK c base succs (.next (pc + 1) { st with captures := [] :: st.captures }) := by
  simp only [astep, Option.some.injEq] at ha; subst ha
  refine ⟨{ a with caps := a.caps + 1 }, by simp, ⟨hrel.stack, hrel.loops, ?_, hrel.cur, hrel.blocks⟩⟩
  simp only [List.length_cons, hrel.caps]; omega

theorem sim_endCapture (hrel : Rel c base a st) (hown : own = true → c.hasSpan pc = true)
    (ha : astep .endCapture own nspans pc a = some succs) :
    SimOK c base succs (stepEndCapture pc st) := by
  simp only [astep] at ha
  split at ha
  · rename_i hpos
    simp only [Option.some.injEq] at ha; subst ha
    unfold stepEndCapture
    have hc := hrel.caps
    rcases hcs : st.captures with _ | ⟨buf, restCaps⟩
    · rw [hcs] at hc; simp at hc; omega
    · simp only
      refine ⟨{ a with caps := a.caps - 1, stack := Tag.fresh own :: a.stack }, by simp,
        ⟨relList_push hrel.stack (tagOk_fresh hown), hrel.loops, ?_, hrel.cur, hrel.blocks⟩⟩
      rw [hcs] at hc; simp only [List.length_cons] at hc ⊢; omega
  · cases ha

theorem ends_cons_inv {loops : List ForLoop} {e : Nat} {es : List Nat} (h : ends loops = e :: es) :
    ∃ l ls, loops = l :: ls ∧ l.endIp = e ∧ ends ls = es := by
  cases loops with
  | nil => simp [ends] at h
  | cons l ls => simp only [ends, List.map_cons, List.cons.injEq] at h; exact ⟨l, ls, rfl, h.1, h.2⟩

/-- an own loop of the abstract state is the innermost concrete loop -/
theorem own_loop {o : Option Nat} {outer : List (Option Nat)} (hrel : Rel c base a st)
    (hl : a.loops = o :: outer) :
    ∃ l ls, st.scope.forLoops = l :: ls ∧ loopOk o l.endIp ∧
      RelList loopOk (ends base.scope.forLoops) outer (ends ls) := by
  obtain ⟨e, es, he, hok, hr⟩ := relList_cons.mp (hl ▸ hrel.loops)
  obtain ⟨l, ls, hls, rfl, rfl⟩ := ends_cons_inv he
  exact ⟨l, ls, hls, hok, hr⟩

theorem sim_startIterate (kv compr : Bool) (hrel : Rel c base a st)
    (ht : reportTargetOk env vm c = true)
    (ha : astep (.startIterate kv compr) own nspans pc a = some succs) :
    SimOK c base succs (stepStartIterate env vm c kv compr pc st) := by
  simp only [astep] at ha
  split at ha
  · rename_i ta rest hstk
    split at ha
    · rename_i hsp
      simp only [Option.some.injEq] at ha; subst ha
      obtain ⟨⟨v, r⟩, stk, hs, hok, hr⟩ := relList_cons.mp (hstk ▸ hrel.stack)
      unfold stepStartIterate; rw [hs]; simp only
      split
      · exact simOK_renderingError ht (hok.2.2.1 hsp) _
      · rename_i hit
        split
        · exact simOK_renderingError ht (hok.2.2.1 hsp) _
        · obtain ⟨items, hi⟩ := iterItems_of_canBeIteratedOn (v := v) (by simpa using hit)
          rw [hi]; simp only
          refine ⟨{ a with stack := rest, loops := none :: a.loops }, by simp,
            ⟨hr, ?_, hrel.caps, hrel.cur, hrel.blocks⟩⟩
          simp only [forLoops_pushLoop, ends, List.map_cons]
          exact relList_cons.mpr ⟨_, _, rfl, (fun t h => by cases h), hrel.loops⟩
    · cases ha
  · cases ha

theorem storeLocalName_endIp (l : ForLoop) (n : String) : (l.storeLocalName n).endIp = l.endIp := by
  unfold ForLoop.storeLocalName; split <;> rfl

theorem sim_storeLocal (n : String) (hrel : Rel c base a st)
    (ha : astep (.storeLocal n) own nspans pc a = some succs) :
    SimOK c base succs (stepStoreLocal n pc st) := by
  simp only [astep] at ha
  split at ha
  · rename_i o outer hl
    simp only [Option.some.injEq] at ha; subst ha
    obtain ⟨l, ls, hls, _, _⟩ := own_loop hrel hl
    unfold stepStoreLocal; rw [hls]; simp only
    refine ⟨a, by simp, hrel.congr rfl ?_ rfl rfl rfl⟩
    simp only [forLoops_setTopLoop, hls, ends, List.map_cons, storeLocalName_endIp]
  · cases ha

theorem sim_iterate (t : Nat) (hrel : Rel c base a st)
    (ha : astep (.iterate t) own nspans pc a = some succs) :
    SimOK c base succs (stepIterate t pc st) := by
  simp only [astep] at ha
  split at ha
  · rename_i o outer hl
    simp only [Option.some.injEq] at ha; subst ha
    obtain ⟨l, ls, hls, _, hr⟩ := own_loop hrel hl
    unfold stepIterate; rw [hls]; simp only
    split
    · exact ⟨a, by simp, hrel⟩
    · rename_i l' hit
      refine ⟨{ a with loops := some t :: outer }, by simp, ⟨hrel.stack, ?_, hrel.caps, hrel.cur, hrel.blocks⟩⟩
      have hend : l'.endIp = t := by
        unfold ForLoop.iterate at hit
        split at hit
        · cases hit
        · simp only [Option.some.injEq] at hit; subst hit; rfl
      simp only [forLoops_setTopLoop, hls, ends, List.map_cons, hend]
      exact relList_cons.mpr ⟨_, _, rfl, by intro t' h; cases h; rfl, hr⟩
  · cases ha

theorem sim_storeDidNotIterate (hrel : Rel c base a st) (hown : own = true → c.hasSpan pc = true)
    (ha : astep .storeDidNotIterate own nspans pc a = some succs) :
    SimOK c base succs (stepStoreDidNotIterate pc st) := by
  simp only [astep] at ha
  split at ha
  · rename_i o outer hl
    simp only [Option.some.injEq] at ha; subst ha
    obtain ⟨l, ls, hls, _, _⟩ := own_loop hrel hl
    unfold stepStoreDidNotIterate; rw [hls]; simp only [State.push]
    exact simOK_next1 hrel (relList_push hrel.stack (tagOk_fresh hown))
  · cases ha

theorem sim_break (hrel : Rel c base a st) (ha : astep .break_ own nspans pc a = some succs) :
    SimOK c base succs (stepBreak pc st) := by
  simp only [astep] at ha
  split at ha
  · rename_i t outer hl
    simp only [Option.some.injEq] at ha; subst ha
    obtain ⟨l, ls, hls, hok, _⟩ := own_loop hrel hl
    unfold stepBreak; rw [hls]; simp only
    rw [hok t rfl]
    exact ⟨a, by simp, hrel⟩
  · cases ha

theorem sim_popLoop (hrel : Rel c base a st) (ha : astep .popLoop own nspans pc a = some succs) :
    SimOK c base succs (.next (pc + 1) { st with scope := st.scope.popLoop }) := by
  simp only [astep] at ha
  split at ha
  · rename_i o outer hl
    simp only [Option.some.injEq] at ha; subst ha
    obtain ⟨l, ls, hls, _, hr⟩ := own_loop hrel hl
    refine ⟨{ a with loops := outer }, by simp, ⟨hrel.stack, ?_, hrel.caps, hrel.cur, hrel.blocks⟩⟩
    simpa [forLoops_popLoop, hls] using hr
  · cases ha

theorem sim_appendToList (hrel : Rel c base a st)
    (ha : astep .appendToList own nspans pc a = some succs) :
    SimOK c base succs (stepAppendToList pc st) := by
  simp only [astep] at ha
  split at ha
  · rename_i tv tl rest hstk
    split at ha
    · rename_i harr
      simp only [Option.some.injEq] at ha; subst ha
      obtain ⟨⟨v, rv⟩, stk1, hs1, _, hr1⟩ := relList_cons.mp (hstk ▸ hrel.stack)
      obtain ⟨⟨l, rl⟩, stk2, rfl, hok2, hr2⟩ := relList_cons.mp hr1
      have := hok2.1 harr
      unfold stepAppendToList; rw [hs1]; simp only
      cases l <;> simp [isArrV] at this
      simp only
      refine simOK_next1 hrel (relList_push hr2 ⟨by simp [isArrV], by simp, ?_, by simp⟩)
      exact hok2.2.2.1
    · cases ha
  · cases ha

/-! operators -/

/-- the shape shared by `math_binop!`, `Plus` and `ordering_binop!`: both operands spanned, the
result carries their combined range -/
theorem binop_shape (hrel : Rel c base a st) (ha : abinop pc a = some succs) :
    ∃ tb tx rest vb rb vx rx stk, a.stack = tb :: tx :: rest ∧ st.stack = (vb, rb) :: (vx, rx) :: stk ∧
      c.expandSpan rb = true ∧ c.expandSpan rx = true ∧
      succs = [(pc + 1, { a with stack := ⟨false, false, true, false⟩ :: rest })] ∧
      RelList (tagOk c) base.stack rest stk := by
  unfold abinop at ha
  split at ha
  · rename_i tb tx rest hstk
    split at ha
    · rename_i hcond
      simp only [Option.some.injEq] at ha
      simp only [Bool.and_eq_true] at hcond
      obtain ⟨⟨vb, rb⟩, stk1, hs1, hok1, hr1⟩ := relList_cons.mp (hstk ▸ hrel.stack)
      obtain ⟨⟨vx, rx⟩, stk2, rfl, hok2, hr2⟩ := relList_cons.mp hr1
      exact ⟨tb, tx, rest, vb, rb, vx, rx, stk2, hstk, hs1, hok1.2.2.1 hcond.2, hok2.2.2.1 hcond.1, ha.symm, hr2⟩
    · cases ha
  · cases ha

theorem tagOk_spanned {v : Value} {r : SpanRange} (hr : c.expandSpan r = true) :
    tagOk c ⟨false, false, true, false⟩ (v, r) :=
  ⟨by simp, by simp, fun _ => hr, by simp⟩

theorem sim_math (op : MathOp) (hrel : Rel c base a st) (ht : reportTargetOk env vm c = true)
    (ha : astep (.math op) own nspans pc a = some succs) :
    SimOK c base succs (stepMath env vm c op pc st) := by
  obtain ⟨tb, tx, rest, vb, rb, vx, rx, stk, _, hs, hb, hx, rfl, hr⟩ := binop_shape hrel (by simpa [astep] using ha)
  unfold stepMath; rw [hs]; simp only
  split
  · exact simOK_renderingError ht hx _
  · split
    · exact simOK_renderingError ht hb _
    · split
      · exact simOK_next1 hrel (relList_push hr (tagOk_spanned (expandSpan_combine hx hb)))
      · exact simOK_renderingError ht hb _
      · exact simOK_renderingError ht (expandSpan_combine hx hb) _

theorem sim_plus (hrel : Rel c base a st) (ht : reportTargetOk env vm c = true)
    (ha : astep .plus own nspans pc a = some succs) :
    SimOK c base succs (stepPlus env vm c pc st) := by
  obtain ⟨tb, tx, rest, vb, rb, vx, rx, stk, _, hs, hb, hx, rfl, hr⟩ := binop_shape hrel (by simpa [astep] using ha)
  unfold stepPlus; rw [hs]; simp only
  split
  · split
    · exact simOK_next1 hrel (relList_push hr (tagOk_spanned (expandSpan_combine hx hb)))
    · exact simOK_renderingError ht (expandSpan_combine hx hb) _
  · exact simOK_renderingError ht (expandSpan_combine hx hb) _

theorem sim_cmp (op : CmpOp) (hrel : Rel c base a st) (ht : reportTargetOk env vm c = true)
    (ha : astep (.cmp op) own nspans pc a = some succs) :
    SimOK c base succs (stepCmp env vm c op pc st) := by
  obtain ⟨tb, tx, rest, vb, rb, vx, rx, stk, _, hs, hb, hx, rfl, hr⟩ := binop_shape hrel (by simpa [astep] using ha)
  unfold stepCmp; rw [hs]; simp only
  split
  · exact simOK_next1 hrel (relList_push hr (tagOk_spanned (expandSpan_combine hx hb)))
  · exact simOK_renderingError ht (expandSpan_combine hx hb) _

theorem tagOk_combined {tb tx : Tag} {vb vx v : Value} {rb rx : SpanRange}
    (hb : tagOk c tb (vb, rb)) (hx : tagOk c tx (vx, rx)) :
    tagOk c ⟨false, false, tx.sp && tb.sp, false⟩ (v, combineSpans rx rb) := by
  refine ⟨by simp, by simp, ?_, by simp⟩
  intro h; simp only [Bool.and_eq_true] at h
  exact expandSpan_combine (hx.2.2.1 h.1) (hb.2.2.1 h.2)

theorem sim_equal (neg : Bool) (hrel : Rel c base a st)
    (ha : astep (.equal neg) own nspans pc a = some succs) :
    SimOK c base succs (stepEqual neg pc st) := by
  simp only [astep] at ha
  split at ha
  · rename_i tb tx rest hstk
    simp only [Option.some.injEq] at ha; subst ha
    obtain ⟨⟨vb, rb⟩, stk1, hs1, hok1, hr1⟩ := relList_cons.mp (hstk ▸ hrel.stack)
    obtain ⟨⟨vx, rx⟩, stk2, rfl, hok2, hr2⟩ := relList_cons.mp hr1
    unfold stepEqual; rw [hs1]; simp only
    exact simOK_next1 hrel (relList_push hr2 (tagOk_combined hok1 hok2))
  · cases ha

theorem sim_strConcat (hrel : Rel c base a st)
    (ha : astep .strConcat own nspans pc a = some succs) :
    SimOK c base succs (stepStrConcat env pc st) := by
  simp only [astep] at ha
  split at ha
  · rename_i tb tx rest hstk
    simp only [Option.some.injEq] at ha; subst ha
    obtain ⟨⟨vb, rb⟩, stk1, hs1, hok1, hr1⟩ := relList_cons.mp (hstk ▸ hrel.stack)
    obtain ⟨⟨vx, rx⟩, stk2, rfl, hok2, hr2⟩ := relList_cons.mp hr1
    unfold stepStrConcat; rw [hs1]; simp only
    exact simOK_next1 hrel (relList_push hr2 (tagOk_combined hok1 hok2))
  · cases ha

theorem sim_in (hrel : Rel c base a st) (ht : reportTargetOk env vm c = true)
    (hown : own = true → c.hasSpan pc = true)
    (ha : astep .in_ own nspans pc a = some succs) :
    SimOK c base succs (stepIn env vm c pc st) := by
  simp only [astep] at ha
  split at ha
  · rename_i tc tn rest hstk
    split at ha
    · rename_i hsp
      simp only [Option.some.injEq] at ha; subst ha
      obtain ⟨⟨vc, rc⟩, stk1, hs1, hok1, hr1⟩ := relList_cons.mp (hstk ▸ hrel.stack)
      obtain ⟨⟨vn, rn⟩, stk2, rfl, _, hr2⟩ := relList_cons.mp hr1
      unfold stepIn; rw [hs1]; simp only
      split
      · exact simOK_next1 hrel (relList_push hr2 (tagOk_fresh hown))
      · exact simOK_renderingError ht (hok1.2.2.1 hsp) _
    · cases ha
  · cases ha

theorem sim_not (hrel : Rel c base a st) (ha : astep .not_ own nspans pc a = some succs) :
    SimOK c base succs (stepNot pc st) := by
  simp only [astep] at ha
  split at ha
  · rename_i ta rest hstk
    simp only [Option.some.injEq] at ha; subst ha
    obtain ⟨⟨v, r⟩, stk, hs, hok, hr⟩ := relList_cons.mp (hstk ▸ hrel.stack)
    unfold stepNot; rw [hs]; simp only
    exact simOK_next1 hrel (relList_push hr ⟨by simp, by simp, hok.2.2.1, by simp⟩)
  · cases ha

theorem sim_negative (hrel : Rel c base a st) (ht : reportTargetOk env vm c = true)
    (ha : astep .negative own nspans pc a = some succs) :
    SimOK c base succs (stepNegative env vm c pc st) := by
  simp only [astep] at ha
  split at ha
  · rename_i ta rest hstk
    split at ha
    · rename_i hsp
      simp only [Option.some.injEq] at ha; subst ha
      obtain ⟨⟨v, r⟩, stk, hs, hok, hr⟩ := relList_cons.mp (hstk ▸ hrel.stack)
      unfold stepNegative; rw [hs]; simp only
      split
      · exact simOK_next1 hrel (relList_push hr (tagOk_spanned (hok.2.2.1 hsp)))
      · exact simOK_renderingError ht (hok.2.2.1 hsp) _
    · cases ha
  · cases ha

/-! fused paths -/

def WalkOK (c : Chunk) (base : State) (succs : List (Nat × ASt)) : Walk → Prop
  | .val _ => True
  | .stop r => SimOK c base succs r

theorem walkLoad_sim (ht : reportTargetOk env vm c = true) :
    ∀ (attrs : List String) (cur : Value) (k : Nat),
    (∀ j, j < k + 1 + attrs.length → c.hasSpanAt pc j = true) →
    WalkOK c base succs (walkLoad env vm c pc cur k attrs)
  | [], _, _, _ => trivial
  | attr :: rest, cur, k, h => by
    unfold walkLoad
    have hk : c.hasSpanAt pc (k + 1) = true := h (k + 1) (by simp)
    split
    · exact simOK_errorAt ht hk _ _
    · split
      · exact walkLoad_sim ht rest _ (k + 1) (fun j hj => h j (by simp at hj ⊢; omega))
      · split
        · exact simOK_errorAt ht hk _ _
        · trivial

theorem sim_loadPath (path : List String) (hrel : Rel c base a st)
    (ht : reportTargetOk env vm c = true) (hown : own = true → c.hasSpan pc = true)
    (hsp : ∀ k, k < nspans → c.hasSpanAt pc k = true)
    (ha : astep (.loadPath path) own nspans pc a = some succs) :
    SimOK c base succs (stepLoadPath env vm c path pc st) := by
  simp only [astep] at ha
  split at ha
  · rename_i hcond
    simp only [Option.some.injEq] at ha; subst ha
    obtain ⟨hne, hlen⟩ := hcond
    unfold stepLoadPath
    cases path with
    | nil => exact absurd rfl hne
    | cons n attrs =>
      have hpush : ∀ v : Value, SimOK c base [(pc + 1, { a with stack := Tag.fresh own :: a.stack })]
          (.next (pc + 1) (st.push v (pc, pc))) :=
        fun v => simOK_next1 hrel (relList_push hrel.stack (tagOk_fresh hown))
      simp only
      split
      · split
        · exact simOK_errorAt ht (hsp 0 (by simp at hlen; omega)) _ _
        · have := walkLoad_sim (base := base) (succs := [(pc + 1, { a with stack := Tag.fresh own :: a.stack })])
            (pc := pc) ht attrs (st.scope.getValue n) 0 (fun j hj => hsp j (by simp at hj hlen; omega))
          split
          · exact hpush _
          · rename_i r heq; rw [heq] at this; exact this
      · exact hpush _
  · cases ha

theorem walkWrite_sim (ht : reportTargetOk env vm c = true) :
    ∀ (attrs : List String) (cur : Value) (k : Nat),
    (∀ j, j < k + 1 + attrs.length → c.hasSpanAt pc j = true) →
    WalkOK c base succs (walkWrite env vm c pc cur k attrs)
  | [], _, _, _ => trivial
  | attr :: rest, cur, k, h => by
    unfold walkWrite
    have hk : c.hasSpanAt pc (k + 1) = true := h (k + 1) (by simp)
    split
    · exact walkWrite_sim ht rest _ (k + 1) (fun j hj => h j (by simp at hj ⊢; omega))
    · exact simOK_errorAt ht hk _ _

theorem sim_writePath (path : List String) (hrel : Rel c base a st)
    (ht : reportTargetOk env vm c = true)
    (hsp : ∀ k, k < nspans → c.hasSpanAt pc k = true)
    (ha : astep (.writePath path) own nspans pc a = some succs) :
    SimOK c base succs (stepWritePath env vm c path pc st) := by
  simp only [astep] at ha
  split at ha
  · rename_i hcond
    simp only [Option.some.injEq] at ha; subst ha
    obtain ⟨hne, hlen⟩ := hcond
    unfold stepWritePath
    cases path with
    | nil => exact absurd rfl hne
    | cons n attrs =>
      simp only
      generalize (if attrs = [] then lookupName st.scope n else st.scope.getValue n) = root
      split
      · exact simOK_errorAt ht (hsp 0 (by simp at hlen; omega)) _ _
      · have := walkWrite_sim (base := base) (succs := [(pc + 1, { a with stack := a.stack })])
          (pc := pc) ht attrs root 0 (fun j hj => hsp j (by simp at hj hlen; omega))
        split
        · rename_i r heq; rw [heq] at this; exact this
        · split
          · exact simOK_errorAt ht (hsp attrs.length (by simp at hlen; omega)) _ _
          · exact ⟨_, by simp, (show Rel c base { a with stack := a.stack } st from hrel).write _⟩
  · cases ha

/-! jumps -/

theorem sim_popJumpIfFalse (t : Nat) (hrel : Rel c base a st)
    (ha : astep (.popJumpIfFalse t) own nspans pc a = some succs) :
    SimOK c base succs (stepPopJumpIfFalse t pc st) := by
  unfold stepPopJumpIfFalse
  simp only [astep] at ha
  split at ha
  · rename_i ta rest hstk
    simp only [Option.some.injEq] at ha; subst ha
    obtain ⟨⟨v, r⟩, stk, hs, _, hr⟩ := relList_cons.mp (hstk ▸ hrel.stack)
    rw [hs]; simp only
    split
    · exact simOK_next_stack hrel (by simp) hr
    · exact simOK_next_stack hrel (by simp) hr
  · cases ha

theorem sim_jumpOrPop (t : Nat) (wantTrue : Bool) (hrel : Rel c base a st)
    (ha : ajumpOrPop t pc a = some succs) :
    SimOK c base succs (stepJumpOrPop wantTrue t pc st) := by
  unfold stepJumpOrPop
  unfold ajumpOrPop at ha
  split at ha
  · rename_i ta rest hstk
    simp only [Option.some.injEq] at ha; subst ha
    obtain ⟨⟨v, r⟩, stk, hs, _, hr⟩ := relList_cons.mp (hstk ▸ hrel.stack)
    rw [hs]; simp only
    by_cases hc : (if wantTrue then v.isTruthy else !v.isTruthy) = true
    · rw [if_pos hc]; exact ⟨a, by simp, hrel⟩
    · rw [if_neg hc]; exact simOK_next_stack hrel (by simp) hr
  · cases ha

/-! ### arms that call `interpret` again -/

/-- every chunk the VM can reach from a template passed the checker -/
def TplOK (env : Env) (tpl : TemplateInfo) : Prop :=
  checkChunk env tpl.chunk = true ∧
  ∀ b lin, assoc b tpl.blockLineage = some lin → ∀ ch ∈ lin, checkChunk env ch = true

/-- The environment passed the checker: every main chunk, every chunk of every block lineage and
every component chunk of the instance-wide table; and the registered built-ins do not panic. -/
def EnvOK (env : Env) : Prop :=
  (∀ n tpl, env.template n = some tpl → TplOK env tpl) ∧
  (∀ n d ch, assoc n env.components = some (d, ch) → checkChunk env ch = true) ∧
  BuiltinsTotal env

/-- the lineages on the block stack passed the checker -/
def BlocksChecked (env : Env) (st : State) : Prop :=
  ∀ e ∈ blocksSig st, ∀ ch ∈ e.2, checkChunk env ch = true

/-- what `interpret` is entitled to assume of its arguments -/
structure Good (env : Env) (vm : VmCtx) (c : Chunk) (st : State) : Prop where
  chunk : checkChunk env c = true
  tpl : TplOK env vm.template
  blocksOk : BlocksOK st
  blocksChecked : BlocksChecked env st

/-- what the caller may assume of a nested `interpret` -/
def RecSpec (r : RunRes) (st : State) : Prop :=
  r.isPanic = false ∧ ∀ st2, r = .done st2 → Frame st st2

theorem blocksOK_iff (st : State) :
    BlocksOK st ↔ ∀ cur, st.currentBlockName = some cur → ∃ p ∈ blocksSig st, p.1 = cur := by
  unfold BlocksOK blocksSig
  constructor
  · intro h cur hc
    obtain ⟨e, he, hn⟩ := h cur hc
    exact ⟨(e.1, e.2.1), List.mem_map.mpr ⟨e, he, rfl⟩, hn⟩
  · intro h cur hc
    obtain ⟨p, hp, hn⟩ := h cur hc
    obtain ⟨e, he, rfl⟩ := List.mem_map.mp hp
    exact ⟨e, he, hn⟩

theorem blocksOK_congr {st st' : State} (hs : blocksSig st' = blocksSig st)
    (hc : st'.currentBlockName = st.currentBlockName) (h : BlocksOK st) : BlocksOK st' := by
  rw [blocksOK_iff] at h ⊢
  rw [hs, hc]; exact h

theorem Rel.congr' {base st st' : State} (h : Rel c base a st)
    (hs : st'.stack = st.stack) (hl : ends st'.scope.forLoops = ends st.scope.forLoops)
    (hc : st'.captures.length = st.captures.length) (hcur : st'.currentBlockName = st.currentBlockName)
    (hb : blocksSig st' = blocksSig st) : Rel c base a st' :=
  ⟨hs ▸ h.stack, hl ▸ h.loops, hc ▸ h.caps, hcur ▸ h.cur, hb ▸ h.blocks⟩

variable {rec : VmCtx → Chunk → State → RunRes}

theorem sim_include (name : String) (hrel : Rel c base a st) (hE : EnvOK env)
    (hrec : ∀ vm' c' st', Good env vm' c' st' → RecSpec (rec vm' c' st') st')
    (ha : astep (.include_ name) own nspans pc a = some succs) :
    SimOK c base succs (stepInclude rec env vm name pc st) := by
  simp only [astep, Option.some.injEq] at ha; subst ha
  unfold stepInclude
  split
  · trivial
  · rename_i tpl htpl
    have hT := hE.1 name tpl htpl
    have hg : Good env { vm with template := tpl } tpl.chunk (includeState st) :=
      ⟨hT.1, hT, by intro cur h; simp [includeState, State.fresh] at h,
       by intro e he; simp [includeState, State.fresh, blocksSig] at he⟩
    obtain ⟨hnp, _⟩ := hrec _ _ _ hg
    split
    · exact ⟨_, by simp, (show Rel c base { a with stack := a.stack } st from hrel).write _⟩
    · trivial
    · rename_i heq; rw [heq] at hnp; simp [RunRes.isPanic] at hnp
    · trivial
    · trivial

theorem sim_renderBlock (name : String) (hrel : Rel c base a st) (hT : TplOK env vm.template)
    (hbc : BlocksChecked env st)
    (hrec : ∀ vm' c' st', Good env vm' c' st' → RecSpec (rec vm' c' st') st')
    (ha : astep (.renderBlock name) own nspans pc a = some succs) :
    SimOK c base succs (stepRenderBlock rec vm name pc st) := by
  simp only [astep, Option.some.injEq] at ha; subst ha
  unfold stepRenderBlock
  split
  · trivial
  · trivial
  · rename_i first more hl
    have hsig : blocksSig (enterBlock st name (first :: more)) = (name, first :: more) :: blocksSig st := by
      unfold enterBlock blocksSig; split <;> rfl
    have hcur : (enterBlock st name (first :: more)).currentBlockName = some name := by
      unfold enterBlock; split <;> rfl
    have hg : Good env vm first (enterBlock st name (first :: more)) := by
      refine ⟨hT.2 name _ hl first (by simp), hT, ?_, ?_⟩
      · rw [blocksOK_iff]; intro cur h
        rw [hcur] at h; cases h
        exact ⟨_, by rw [hsig]; exact List.mem_cons_self, rfl⟩
      · intro e he ch hch
        rw [hsig] at he
        rcases List.mem_cons.mp he with rfl | he
        · exact hT.2 name _ hl ch hch
        · exact hbc e he ch hch
    obtain ⟨hnp, hfr⟩ := hrec _ _ _ hg
    split
    · rename_i st2 heq
      have hf := hfr st2 heq
      refine ⟨_, by simp, (show Rel c base { a with stack := a.stack } st from hrel).congr' ?_ ?_ ?_ ?_ ?_⟩
      · have := hf.stack
        unfold leaveBlock enterBlock at *; split <;> simp_all
      · have := hf.loops
        unfold leaveBlock enterBlock at *; split <;> simp_all
      · have := hf.caps
        unfold leaveBlock enterBlock at *; split <;> simp_all
      · unfold leaveBlock; split <;> rfl
      · have h1 : blocksSig st2 = (name, first :: more) :: blocksSig st := hf.blocks.trans hsig
        have h2 : blocksSig (leaveBlock st st2 name) = (blocksSig st2).tail := by
          unfold leaveBlock blocksSig; split <;> simp [List.map_tail]
        rw [h2, h1]; rfl
    · trivial
    · rename_i heq; rw [heq] at hnp; simp [RunRes.isPanic] at hnp
    · trivial
    · trivial

theorem setLevel_sig {blocks b : List (String × List Chunk × Nat)} {pos level : Nat}
    (h : setLevel blocks pos level = some b) :
    (b.map fun e => (e.1, e.2.1)) = blocks.map fun e => (e.1, e.2.1) := by
  unfold setLevel at h
  split at h
  · simp only [Option.some.injEq] at h; subst h
    apply List.ext_getElem?
    intro i
    simp only [List.getElem?_map, List.getElem?_modify]
    cases hget : blocks[i]? with
    | none => rfl
    | some e => by_cases hi : blocks.length - 1 - pos = i <;> simp [hi]
  · cases h

theorem sim_super (hrel : Rel c base a st) (ht : reportTargetOk env vm c = true)
    (hown : c.hasSpan pc = true) (hT : TplOK env vm.template)
    (hbo : BlocksOK st) (hbc : BlocksChecked env st)
    (hrec : ∀ vm' c' st', Good env vm' c' st' → RecSpec (rec vm' c' st') st')
    {t : Tag} (htag : ∀ v : Value, tagOk c t (v, (pc, pc))) :
    SimOK c base [(pc + 1, { a with stack := t :: a.stack })] (stepSuper rec env vm c pc st) := by
  unfold stepSuper
  split
  · exact simOK_renderingError ht (expandSpan_self hown) _
  · rename_i cur hcur
    obtain ⟨pos, hpos, hlt⟩ := blockPos_some (hbo cur hcur)
    rw [hpos]
    simp only
    have hidx : st.blocks.length - 1 - pos < st.blocks.length := by omega
    split
    · rename_i hnone
      rw [List.getElem?_eq_getElem hidx] at hnone; cases hnone
    · rename_i nm lineage level hget
      split
      · exact simOK_renderingError ht (expandSpan_self hown) _
      · rename_i blockChunk hch
        obtain ⟨b1, hb1, hlen1⟩ := setLevel_isSome (level + 1) hlt
        rw [hb1]
        simp only
        have hsig1 : blocksSig (enterSuper st b1) = blocksSig st := by
          simp only [blocksSig, enterSuper]; exact setLevel_sig hb1
        have hmem : (nm, lineage) ∈ blocksSig st := by
          have := List.mem_of_getElem? hget
          exact List.mem_map.mpr ⟨_, this, rfl⟩
        have hg : Good env vm blockChunk (enterSuper st b1) := by
          refine ⟨hbc _ hmem blockChunk (List.mem_of_getElem? hch), hT, ?_, ?_⟩
          · exact blocksOK_congr hsig1 rfl hbo
          · intro e he; rw [hsig1] at he; exact hbc e he
        obtain ⟨hnp, hfr⟩ := hrec _ _ _ hg
        split
        · rename_i st2 heq
          have hf := hfr st2 heq
          have hlen2 : st2.blocks.length = st.blocks.length := by
            have := congrArg List.length (hf.blocks.trans hsig1)
            simpa [blocksSig] using this
          obtain ⟨b3, hb3, _⟩ := setLevel_isSome (blocks := st2.blocks) (pos := pos) level (by omega)
          rw [hb3]
          simp only
          refine ⟨{ a with stack := t :: a.stack }, by simp, ⟨?_, ?_, ?_, ?_, ?_⟩⟩
          · simp only [leaveSuper]
            have : st2.stack = st.stack := hf.stack
            rw [this]
            exact relList_push hrel.stack (htag _)
          · simp only [leaveSuper]
            have : ends st2.scope.forLoops = ends st.scope.forLoops := hf.loops
            rw [this]; exact hrel.loops
          · simp only [leaveSuper]; exact hrel.caps
          · simp only [leaveSuper]
            have : st2.currentBlockName = st.currentBlockName := hf.cur
            rw [this]; exact hrel.cur
          · have h3 : blocksSig (leaveSuper st st2 b3 pc) = blocksSig st2 := by
              simp only [blocksSig, leaveSuper]; exact setLevel_sig hb3
            rw [h3, hf.blocks, hsig1]; exact hrel.blocks
        · trivial
        · rename_i heq; rw [heq] at hnp; simp [RunRes.isPanic] at hnp
        · trivial
        · trivial

theorem sim_callFunction (name : String) (hrel : Rel c base a st)
    (ht : reportTargetOk env vm c = true) (hown : own = true → c.hasSpan pc = true)
    (hreg : name = "super" ∨ env.hasFunction name = true) (hb : BuiltinsTotal env)
    (hT : TplOK env vm.template) (hbo : BlocksOK st) (hbc : BlocksChecked env st)
    (hrec : ∀ vm' c' st', Good env vm' c' st' → RecSpec (rec vm' c' st') st')
    (ha : astep (.callFunction name) own nspans pc a = some succs) :
    SimOK c base succs (stepCallFunction rec env vm c name pc st) := by
  simp only [astep] at ha
  split at ha
  · rename_i tkw rest hstk
    split at ha
    · rename_i hcond
      simp only [Option.some.injEq] at ha; subst ha
      simp only [Bool.and_eq_true, Bool.or_eq_true, beq_iff_eq] at hcond
      obtain ⟨ho, hcond⟩ := hcond
      obtain ⟨⟨kw, rk⟩, stk, hs, hok, hr⟩ := relList_cons.mp (hstk ▸ hrel.stack)
      unfold stepCallFunction; rw [hs]; simp only
      split
      · have hrel0 : Rel c base { a with stack := rest } { st with stack := stk } :=
          ⟨hr, hrel.loops, hrel.caps, hrel.cur, hrel.blocks⟩
        exact sim_super (a := { a with stack := rest }) hrel0 ht (hown ho) hT hbo hbc hrec
          (fun v => tagOk_fresh hown)
      · rename_i hns
        have hf : env.hasFunction name = true := by
          rcases hreg with h | h
          · exact absurd h hns
          · exact h
        have hm : tkw.map = true := by
          rcases hcond with h | h
          · exact absurd h hns
          · exact h
        obtain ⟨es, hes⟩ := isMap_of_tag hok hm
        simp only at hes; subst hes
        simp only [hf, Bool.not_true, Bool.false_eq_true, ↓reduceIte]
        have hfn := hb.2.2 name (kwargsOf es)
        split
        · exact simOK_next1 hrel (relList_push hr (tagOk_fresh hown))
        · exact simOK_renderingError ht (expandSpan_self (hown ho)) _
        · exact simOK_renderingError ht (expandSpan_self (hown ho)) _
        · rename_i heq; rw [heq] at hfn; simp [CallRes.isPanic] at hfn
        · trivial
    · cases ha
  · cases ha

theorem sim_component (name : String) (hasBody : Bool) (hrel : Rel c base a st)
    (ht : reportTargetOk env vm c = true) (hown : own = true → c.hasSpan pc = true)
    (hreg : (assoc name env.components).isSome = true) (hE : EnvOK env) (hT : TplOK env vm.template)
    (hrec : ∀ vm' c' st', Good env vm' c' st' → RecSpec (rec vm' c' st') st')
    (ha : astep (.renderComponent name hasBody) own nspans pc a = some succs) :
    SimOK c base succs (stepComponent rec env vm c name hasBody pc st) := by
  simp only [astep] at ha
  split at ha
  · rename_i tkw rest hstk
    split at ha
    · rename_i hcond
      simp only [Bool.and_eq_true] at hcond
      obtain ⟨ho, hm⟩ := hcond
      obtain ⟨⟨kw, rk⟩, stk, hs, hok, hr⟩ := relList_cons.mp (hstk ▸ hrel.stack)
      obtain ⟨es, hes⟩ := isMap_of_tag hok hm
      simp only at hes; subst hes
      obtain ⟨⟨cdef, cchunk⟩, hd⟩ := Option.isSome_iff_exists.mp hreg
      have hfind : findComponent env vm name = some (cdef, cchunk) := by simp [findComponent, hd]
      -- the rest of the stack after the optional body, on both sides
      have hbody : ∃ restT, succs = [(pc + 1, { a with stack := Tag.fresh own :: restT })] ∧
          ∃ body stk', popBody hasBody stk = some (body, stk') ∧ RelList (tagOk c) base.stack restT stk' := by
        cases hasBody
        · simp only [Bool.false_eq_true, ↓reduceIte, Option.some.injEq] at ha
          exact ⟨rest, ha.symm, none, stk, rfl, hr⟩
        · simp only [↓reduceIte] at ha
          cases rest with
          | nil => simp at ha
          | cons tb rest' =>
            simp only [Option.some.injEq] at ha
            obtain ⟨⟨b, rb⟩, stk', rfl, _, hr'⟩ := relList_cons.mp hr
            exact ⟨rest', ha.symm, some b.markSafe, stk', rfl, hr'⟩
      obtain ⟨restT, rfl, body, stk', hpb, hr'⟩ := hbody
      unfold stepComponent; rw [hs]; simp only [hfind, hpb]
      split
      · exact simOK_renderingError ht (expandSpan_self (hown ho)) _
      · rename_i bound _
        split
        · trivial
        · have hg : Good env { vm with depth := vm.depth + 1 } cchunk (componentState bound) :=
            ⟨hE.2.1 name cdef cchunk hd, hT, by intro cur h; simp [componentState, State.fresh] at h,
             by intro e he; simp [componentState, State.fresh, blocksSig] at he⟩
          obtain ⟨hnp, _⟩ := hrec _ _ _ hg
          split
          · exact simOK_next1 hrel (relList_push hr' (tagOk_fresh hown))
          · trivial
          · rename_i heq; rw [heq] at hnp; simp [RunRes.isPanic] at hnp
          · trivial
          · trivial
    · cases ha
  · cases ha

/-! ### all arms together -/

theorem hasSpan_of_code {e : VEntry} (h : c.code[pc]? = some e) : c.hasSpan pc = !e.2.isEmpty := by
  simp [Chunk.hasSpan, h]

theorem hasSpanAt_of_code {e : VEntry} (h : c.code[pc]? = some e) (k : Nat) :
    c.hasSpanAt pc k = decide (k < e.2.length) := by
  simp [Chunk.hasSpanAt, h]

/-- One turn of the interpreter loop from a state the abstract state `a` describes: no panic, and
the new state is described by one of the abstract successors. -/
theorem sim {e : VEntry} (hrel : Rel c base a st) (hcode : c.code[pc]? = some e)
    (ht : reportTargetOk env vm c = true) (hnames : namesOk env e.1 = true) (hE : EnvOK env)
    (hT : TplOK env vm.template) (hbo : BlocksOK st) (hbc : BlocksChecked env st)
    (hrec : ∀ vm' c' st', Good env vm' c' st' → RecSpec (rec vm' c' st') st')
    (ha : astep e.1 (!e.2.isEmpty) e.2.length pc a = some succs) :
    SimOK c base succs (step rec env vm c e pc st) := by
  have hown : (!e.2.isEmpty) = true → c.hasSpan pc = true := fun h => by rw [hasSpan_of_code hcode]; exact h
  have hsp : ∀ k, k < e.2.length → c.hasSpanAt pc k = true := fun k hk => by
    rw [hasSpanAt_of_code hcode]; simpa using hk
  obtain ⟨i, spans⟩ := e
  simp only at ha hnames hown hsp
  unfold step
  cases i <;> simp only [namesOk] at hnames <;> simp only
  case loadConst v => exact sim_loadConst v hrel hown ha
  case loadName n => exact sim_loadName n hrel hown ha
  case loadAttr attr opt => exact sim_loadAttr attr opt hrel ht hown ha
  case binarySubscript opt => exact sim_subscript opt hrel ht hown ha
  case slice opt => exact sim_slice opt hrel ht hown ha
  case writeText t => exact sim_writeText t hrel ha
  case writeTop => exact sim_writeTop hrel ht ha
  case set n g => exact sim_set n g hrel ha
  case include_ n => exact sim_include n hrel hE hrec ha
  case buildMap n => exact sim_buildMap n hrel hown ha
  case buildList n => exact sim_buildList n hrel hown ha
  case buildMapWithSpreads flags => exact sim_buildMapWithSpreads flags hrel ht hown ha
  case buildListWithSpreads flags => exact sim_buildListWithSpreads flags hrel ht hown ha
  case callFunction n =>
    exact sim_callFunction n hrel ht hown (by simpa using hnames) hE.2.2 hT hbo hbc hrec ha
  case renderComponent n hasBody => exact sim_component n hasBody hrel ht hown hnames hE hT hrec ha
  case applyFilter n => exact sim_applyFilter n hrel ht hown hnames hE.2.2 ha
  case runTest n => exact sim_runTest n hrel ht hown hnames hE.2.2 ha
  case renderBlock n => exact sim_renderBlock n hrel hT hbc hrec ha
  case jump t =>
    simp only [astep, Option.some.injEq] at ha; subst ha
    exact ⟨a, by simp, hrel⟩
  case popJumpIfFalse t => exact sim_popJumpIfFalse t hrel ha
  case jumpIfFalseOrPop t => exact sim_jumpOrPop t false hrel (by simpa [astep] using ha)
  case jumpIfTrueOrPop t => exact sim_jumpOrPop t true hrel (by simpa [astep] using ha)
  case capture => exact sim_capture hrel ha
  case endCapture => exact sim_endCapture hrel hown ha
  case startIterate kv compr => exact sim_startIterate kv compr hrel ht ha
  case iterate t => exact sim_iterate t hrel ha
  case storeLocal n => exact sim_storeLocal n hrel ha
  case storeDidNotIterate => exact sim_storeDidNotIterate hrel hown ha
  case break_ => exact sim_break hrel ha
  case popLoop => exact sim_popLoop hrel ha
  case appendToList => exact sim_appendToList hrel ha
  case math op => exact sim_math op hrel ht ha
  case plus => exact sim_plus hrel ht ha
  case cmp op => exact sim_cmp op hrel ht ha
  case equal neg => exact sim_equal neg hrel ha
  case strConcat => exact sim_strConcat hrel ha
  case in_ => exact sim_in hrel ht hown ha
  case not_ => exact sim_not hrel ha
  case negative => exact sim_negative hrel ht ha
  case loadPath p => exact sim_loadPath p hrel ht hown hsp ha
  case writePath p => exact sim_writePath p hrel ht hsp ha

end sim

/-! ### runs -/

section runs
variable {env : Env} {vm : VmCtx} {c : Chunk} {base : State} {table : List (Option ASt)}
  {rec : VmCtx → Chunk → State → RunRes}

/-- the table accounts for the concrete configuration `(pc, st)` -/
def Cov (c : Chunk) (base : State) (table : List (Option ASt)) (pc : Nat) (st : State) : Prop :=
  ∃ a, covered table c.code.length (pc, a) = true ∧ Rel c base a st

theorem frame_of_rel_empty {st : State} (h : Rel c base ASt.empty st) : Frame base st :=
  ⟨relList_nil.mp h.stack, relList_nil.mp h.loops, by simpa [ASt.empty] using h.caps, h.cur, h.blocks⟩

theorem rel_empty_self (st : State) : Rel c st ASt.empty st :=
  ⟨relList_nil.mpr rfl, relList_nil.mpr rfl, by simp [ASt.empty], rfl, rfl⟩

theorem cov_end {pc : Nat} {st : State} (h : Cov c base table pc st) (hpc : c.code[pc]? = none) :
    Frame base st := by
  obtain ⟨a, hcov, hrel⟩ := h
  have hge : ¬ pc < c.code.length := by
    intro hlt; rw [List.getElem?_eq_getElem hlt] at hpc; cases hpc
  simp only [covered, hge, ↓reduceIte, Bool.and_eq_true, beq_iff_eq] at hcov
  have : a = ASt.empty := hcov.2
  subst this
  exact frame_of_rel_empty hrel

theorem runLoop_sound (hver : verify c.code table = true)
    (hnames : c.code.all (fun e => namesOk env e.1) = true)
    (ht : reportTargetOk env vm c = true) (hE : EnvOK env) (hT : TplOK env vm.template)
    (hbo : BlocksOK base) (hbc : BlocksChecked env base)
    (hrec : ∀ vm' c' st', Good env vm' c' st' → RecSpec (rec vm' c' st') st') :
    ∀ (fuel pc : Nat) (st : State), Cov c base table pc st →
      RecSpec (runLoop rec env vm c fuel pc st) base := by
  intro fuel
  induction fuel with
  | zero =>
    intro pc st hcov
    unfold runLoop
    cases hpc : c.code[pc]? with
    | none => exact ⟨rfl, fun st2 h => by cases h; exact cov_end hcov hpc⟩
    | some e => exact ⟨rfl, fun st2 h => by cases h⟩
  | succ fuel ih =>
    intro pc st hcov
    unfold runLoop
    cases hpc : c.code[pc]? with
    | none => exact ⟨rfl, fun st2 h => by cases h; exact cov_end hcov hpc⟩
    | some e =>
      simp only
      obtain ⟨a, hc, hrel⟩ := hcov
      have hlt : pc < c.code.length := (List.getElem?_eq_some_iff.mp hpc).1
      simp only [covered, hlt, ↓reduceIte] at hc
      cases htab : table[pc]? with
      | none => rw [htab] at hc; cases hc
      | some entry =>
        cases entry with
        | none => rw [htab] at hc; cases hc
        | some b =>
          rw [htab] at hc
          simp only at hc
          have hrelb : Rel c base b st := hrel.mono hc
          simp only [verify, Bool.and_eq_true, List.all_eq_true, List.mem_range] at hver
          have hv := hver.2 pc hlt
          simp only [verifyAt, htab, hpc] at hv
          cases hstep : astep e.1 (!e.2.isEmpty) e.2.length pc b with
          | none => rw [hstep] at hv; cases hv
          | some succs =>
            rw [hstep] at hv
            simp only [List.all_eq_true] at hv
            have hn : namesOk env e.1 = true := by
              simp only [List.all_eq_true] at hnames
              exact hnames e (List.mem_of_getElem? hpc)
            have hbo' : BlocksOK st := blocksOK_congr hrelb.blocks hrelb.cur hbo
            have hbc' : BlocksChecked env st := by
              intro x hx; rw [hrelb.blocks] at hx; exact hbc x hx
            have hsim := sim hrelb hpc ht hn hE hT hbo' hbc' hrec hstep
            cases hres : step rec env vm c e pc st with
            | next pc' st' =>
              rw [hres] at hsim
              obtain ⟨a', hmem, hrel'⟩ := hsim
              exact ih pc' st' ⟨a', hv _ hmem, hrel'⟩
            | err e' => exact ⟨rfl, fun st2 h => by cases h⟩
            | panic s => rw [hres] at hsim; exact hsim.elim
            | unmodelled w => exact ⟨rfl, fun st2 h => by cases h⟩
            | outOfFuel => exact ⟨rfl, fun st2 h => by cases h⟩

/-- A checked environment: every nested `interpret` on a checked chunk, whatever the nesting
fuel, does not panic and leaves the caller's stacks as it found them. -/
theorem interp_sound (hE : EnvOK env) (steps : Nat) :
    ∀ (depth : Nat) (vm : VmCtx) (c : Chunk) (st : State), Good env vm c st →
      RecSpec (interp env steps depth vm c st) st := by
  intro depth
  induction depth with
  | zero => intro vm c st _; exact ⟨rfl, fun st2 h => by cases h⟩
  | succ d ih =>
    intro vm c st hg
    unfold interp
    have hck := hg.chunk
    simp only [checkChunk, Bool.and_eq_true] at hck
    obtain ⟨⟨htpl, hnames⟩, hinf⟩ := hck
    cases hi : infer c.code with
    | none => rw [hi] at hinf; cases hinf
    | some table =>
      rw [hi] at hinf
      have ht : reportTargetOk env vm c = true := by simp [reportTargetOk, htpl]
      have hcov : Cov c st table 0 st := by
        simp only [verify, Bool.and_eq_true] at hinf
        exact ⟨ASt.empty, hinf.1, rel_empty_self st⟩
      exact runLoop_sound hinf hnames ht hE hg.tpl hg.blocksOk hg.blocksChecked ih steps 0 st hcov

end runs

end Tera.Vm
