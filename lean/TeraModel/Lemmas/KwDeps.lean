/-
Helper lemmas for C17: every modelled built-in depends on its keyword arguments only through the
names its Rust signature uses (Generated/Builtins.lean).
-/
import TeraModel.Lemmas.Builtins
import TeraModel.Generated.Builtins
namespace Tera.Builtins
open Tera Tera.Args

/-- two keyword maps agree on the given names -/
def KwAgree (names : List String) (kw kw' : Kwargs) : Prop := ∀ k ∈ names, kw.find k = kw'.find k

/-- the outcome depends on the keyword arguments only through the given names -/
def DependsOnly (b : Builtin) (names : List String) : Prop :=
  ∀ v kw kw', KwAgree names kw kw' → b.apply v kw = b.apply v kw'

theorem kwGet_congr {α : Type} (conv : Value → Except BErr α) (kw kw' : Kwargs) (n : String)
    (h : kw.find n = kw'.find n) : kwGet conv kw n = kwGet conv kw' n := by
  simp only [kwGet, h]

theorem kwMust_congr {α : Type} (conv : Value → Except BErr α) (kw kw' : Kwargs) (n : String)
    (h : kw.find n = kw'.find n) : kwMust conv kw n = kwMust conv kw' n := by
  simp only [kwMust, kwGet_congr conv kw kw' n h]

theorem dependsOnly_of_body (b : Builtin) (names : List String)
    (h : ∀ v kw kw', KwAgree names kw kw' → b.body v kw = b.body v kw') : DependsOnly b names := by
  intro v kw kw' ha
  simp only [Builtin.apply]
  split
  · rfl
  · exact h v kw kw' ha

def sigNames (g : String × String × List (String × String × Bool)) : List String := g.2.2.map (·.1)

/-- congruence closer: rewrite every `kwGet/kwMust … kw "name"` with the agreeing map -/
macro "kwc" h:ident : tactic =>
  `(tactic| (
    simp only [KwAgree, sigNames, List.map, List.mem_cons, List.not_mem_nil, or_false, forall_eq_or_imp, forall_eq] at $h:ident
    simp only [fDefault, fPluralize, fTrimWith, fReplace, fTruncate, fIndent, fGet, fRound, fInt, afterKw, mustStr, getStr,
      onStr, strFilter, tDivisibleBy, tContaining, tStartingWith, tEndingWith, fnRange, fnThrow, onNumber, boolTest,
      List.findSome?, kwGet, kwMust, $h:ident]))

/-- pointwise relation of two lists of the same length -/
def AllPairs {α β : Type} (R : α → β → Prop) : List α → List β → Prop
  | [], [] => True
  | a :: as, b :: bs => R a b ∧ AllPairs R as bs
  | _, _ => False

def SigOk (e : String × Builtin) (g : String × String × List (String × String × Bool)) : Prop :=
  e.1 = g.1 ∧ DependsOnly e.2 (sigNames g)

theorem filters_depend_only (P : Params) : AllPairs SigOk (filterTable P) Generated.Builtins.filterSigs := by
  simp only [filterTable, Generated.Builtins.filterSigs, AllPairs, SigOk, and_true, true_and]
  refine ⟨?_, ?_, ?_, ?_, ?_, ?_, ?_, ?_, ?_, ?_, ?_, ?_, ?_, ?_, ?_, ?_, ?_, ?_, ?_, ?_, ?_, ?_, ?_, ?_,
    ?_, ?_, ?_, ?_, ?_, ?_, ?_, ?_, ?_, ?_, ?_, ?_⟩
  all_goals (apply dependsOnly_of_body; intro v kw kw' h; first | rfl | (kwc h; try (cases v <;> first | rfl | simp only [h])))

theorem tests_depend_only : AllPairs SigOk testTable Generated.Builtins.testSigs := by
  simp only [testTable, Generated.Builtins.testSigs, AllPairs, SigOk, and_true, true_and]
  refine ⟨?_, ?_, ?_, ?_, ?_, ?_, ?_, ?_, ?_, ?_, ?_, ?_, ?_, ?_, ?_, ?_, ?_⟩
  all_goals (apply dependsOnly_of_body; intro v kw kw' h; first | rfl | (kwc h; try (cases v <;> first | rfl | simp only [h])))

theorem functions_depend_only (n : Nat) : AllPairs SigOk (functionTable n) Generated.Builtins.functionSigs := by
  simp only [functionTable, Generated.Builtins.functionSigs, AllPairs, SigOk, and_true, true_and]
  refine ⟨?_, ?_⟩
  all_goals (apply dependsOnly_of_body; intro v kw kw' h; first | rfl | (kwc h; try (cases v <;> first | rfl | simp only [h])))

end Tera.Builtins
