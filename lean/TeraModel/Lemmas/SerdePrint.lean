/-
Printing of maps (`Value::format` / `format_map`): `impl Ord for Key` (`keyLe`) is a total preorder
whose symmetric part is `impl PartialEq for Key` (`keyEq`); `sortEntries` is a sort; and the text
printed for a map does not depend on the order in which the (key-distinct) entries are stored.
-/
import TeraModel.Model.Serde
namespace Tera.Serde

/-! ### `strLe`: lexicographic order by code point -/

theorem strLe_refl (a : List Char) : strLe a a = true := by
  induction a with
  | nil => simp [strLe]
  | cons x xs ih => simp [strLe, ih]

theorem strLe_total (a b : List Char) : strLe a b = true ∨ strLe b a = true := by
  induction a generalizing b with
  | nil => left; simp [strLe]
  | cons x xs ih =>
    cases b with
    | nil => right; simp [strLe]
    | cons y ys =>
      rcases Nat.lt_trichotomy x.toNat y.toNat with h | h | h
      · left; simp [strLe, h]
      · rcases ih ys with h' | h'
        · left; simp [strLe, h, h']
        · right; simp [strLe, h, h']
      · right; simp [strLe, h]

theorem strLe_trans {a b c : List Char} : strLe a b = true → strLe b c = true → strLe a c = true := by
  induction a generalizing b c with
  | nil => intros; simp [strLe]
  | cons x xs ih =>
    cases b with
    | nil => simp [strLe]
    | cons y ys =>
      cases c with
      | nil => simp [strLe]
      | cons z zs =>
        simp only [strLe]
        intro h1 h2
        split at h1
        · -- x < y
          split at h2
          · have : x.toNat < z.toNat := by omega
            simp [this]
          · split at h2
            · have : x.toNat < z.toNat := by omega
              simp [this]
            · simp at h2
        · split at h1
          · -- x = y
            split at h2
            · have : x.toNat < z.toNat := by omega
              simp [this]
            · split at h2
              · have e : x.toNat = z.toNat := by omega
                simp [e]
                exact ih h1 h2
              · simp at h2
          · simp at h1

theorem strLe_antisymm {a b : List Char} : strLe a b = true → strLe b a = true → a = b := by
  induction a generalizing b with
  | nil =>
    cases b with
    | nil => intros; rfl
    | cons y ys => simp [strLe]
  | cons x xs ih =>
    cases b with
    | nil => simp [strLe]
    | cons y ys =>
      simp only [strLe]
      intro h1 h2
      split at h1
      · split at h2
        · omega
        · split at h2
          · omega
          · simp at h2
      · split at h1
        · split at h2
          · omega
          · split at h2
            · have e : x = y := Char.toNat_inj.mp (by assumption)
              rw [e, ih h1 h2]
            · simp at h2
        · simp at h1

/-! ### `keyLe`: characterisation by rank and payload -/

/-- bool payload of a key (default `false`) -/
def keyB : Key → Bool
  | .bool b => b
  | _ => false

/-- numeric payload of a key (default `0`) -/
def keyN : Key → Int
  | .u64 n => (n : Int) | .i64 n => n | .u128 n => (n : Int) | .i128 n => n
  | _ => 0

/-- string payload of a key (default empty) -/
def keyS : Key → List Char
  | .str s => s
  | _ => []

theorem keyLe_iff (a b : Key) :
    keyLe a b = true ↔
      keyRank a < keyRank b ∨
        (keyRank a = keyRank b ∧ (keyB a = true → keyB b = true) ∧ keyN a ≤ keyN b ∧
          strLe (keyS a) (keyS b) = true) := by
  cases a <;> cases b <;> simp [keyLe, keyNum, keyRank, keyB, keyN, keyS, strLe]
  rename_i x y; cases x <;> cases y <;> simp

theorem keyEq_iff (a b : Key) :
    keyEq a b = true ↔
      keyRank a = keyRank b ∧ keyB a = keyB b ∧ keyN a = keyN b ∧ keyS a = keyS b := by
  cases a <;> cases b <;> simp [keyEq, keyNum, keyRank, keyB, keyN, keyS]

theorem keyLe_refl (a : Key) : keyLe a a = true := by
  rw [keyLe_iff]; right; exact ⟨rfl, id, Int.le_refl _, strLe_refl _⟩

theorem keyLe_total (a b : Key) : keyLe a b = true ∨ keyLe b a = true := by
  rw [keyLe_iff, keyLe_iff]
  rcases Nat.lt_trichotomy (keyRank a) (keyRank b) with h | h | h
  · exact Or.inl (Or.inl h)
  · cases a <;> cases b <;> simp [keyRank] at h
    all_goals simp [keyRank, keyB, keyN, keyS, strLe]
    all_goals first | omega | skip
    · rename_i x y; cases x <;> cases y <;> simp
    · exact strLe_total _ _
  · exact Or.inr (Or.inl h)

theorem keyLe_trans {a b c : Key} : keyLe a b = true → keyLe b c = true → keyLe a c = true := by
  rw [keyLe_iff, keyLe_iff, keyLe_iff]
  rintro (h1 | ⟨r1, b1, n1, s1⟩) (h2 | ⟨r2, b2, n2, s2⟩)
  · left; omega
  · left; omega
  · left; omega
  · right; exact ⟨r1.trans r2, fun h => b2 (b1 h), Int.le_trans n1 n2, strLe_trans s1 s2⟩

theorem keyLe_antisymm {a b : Key} : keyLe a b = true → keyLe b a = true → keyEq a b = true := by
  rw [keyLe_iff, keyLe_iff, keyEq_iff]
  rintro (h1 | ⟨r1, b1, n1, s1⟩) (h2 | ⟨r2, b2, n2, s2⟩)
  · omega
  · omega
  · omega
  · refine ⟨r1, ?_, Int.le_antisymm n1 n2, strLe_antisymm s1 s2⟩
    cases hA : keyB a <;> cases hB : keyB b <;> simp_all

theorem keyEq_symm {a b : Key} : keyEq a b = true → keyEq b a = true := by
  rw [keyEq_iff, keyEq_iff]
  rintro ⟨h1, h2, h3, h4⟩
  exact ⟨h1.symm, h2.symm, h3.symm, h4.symm⟩

theorem keyEq_refl (a : Key) : keyEq a a = true := by
  rw [keyEq_iff]; exact ⟨rfl, rfl, rfl, rfl⟩

theorem keyEq_false_symm {a b : Key} : keyEq a b = false → keyEq b a = false := by
  intro h
  cases h' : keyEq b a
  · rfl
  · rw [keyEq_symm h'] at h; cases h

/-- equal keys are `≤` both ways (the converse of `keyLe_antisymm`) -/
theorem keyLe_of_keyEq {a b : Key} : keyEq a b = true → keyLe a b = true := by
  rw [keyLe_iff, keyEq_iff]
  rintro ⟨h1, h2, h3, h4⟩
  right
  exact ⟨h1, fun h => h2 ▸ h, Int.le_of_eq h3, h4 ▸ strLe_refl _⟩

/-! ### `sortEntries` is a sort -/

/-- the order the entries are sorted by -/
abbrev EntryLe {α : Type} (a b : Key × α) : Prop := keyLe a.1 b.1 = true

theorem insertEntry_perm {α : Type} (e : Key × α) (l : List (Key × α)) :
    List.Perm (insertEntry e l) (e :: l) := by
  induction l with
  | nil => simp [insertEntry]
  | cons x xs ih =>
    simp only [insertEntry]
    split
    · exact List.Perm.refl _
    · exact (List.Perm.cons x ih).trans (List.Perm.swap e x xs)

theorem sortEntries_perm {α : Type} (l : List (Key × α)) : List.Perm (sortEntries l) l := by
  induction l with
  | nil => simp [sortEntries]
  | cons e es ih =>
    simp only [sortEntries]
    exact (insertEntry_perm e _).trans (List.Perm.cons e ih)

theorem insertEntry_sorted {α : Type} (e : Key × α) (l : List (Key × α))
    (h : List.Pairwise EntryLe l) : List.Pairwise EntryLe (insertEntry e l) := by
  induction l with
  | nil => simp [insertEntry]
  | cons x xs ih =>
    simp only [insertEntry]
    rw [List.pairwise_cons] at h
    split
    · rename_i hle
      rw [List.pairwise_cons]
      refine ⟨?_, List.pairwise_cons.mpr h⟩
      intro y hy
      rcases List.mem_cons.mp hy with rfl | hy
      · exact hle
      · exact keyLe_trans hle (h.1 y hy)
    · rename_i hle
      rw [List.pairwise_cons]
      refine ⟨?_, ih h.2⟩
      intro y hy
      rcases List.mem_cons.mp ((insertEntry_perm e xs).mem_iff.mp hy) with rfl | hy
      · rcases keyLe_total y.1 x.1 with h' | h'
        · exact absurd h' hle
        · exact h'
      · exact h.1 y hy

theorem sortEntries_sorted {α : Type} (l : List (Key × α)) :
    List.Pairwise (fun a b => keyLe a.1 b.1 = true) (sortEntries l) := by
  induction l with
  | nil => simp [sortEntries]
  | cons e es ih =>
    simp only [sortEntries]
    exact insertEntry_sorted e _ ih

/-! ### a key-distinct list has exactly one sorted arrangement -/

/-- no two entries have equal keys (what a HashMap guarantees) -/
def DistinctKeys {α : Type} (l : List (Key × α)) : Prop := l.Pairwise (fun a b => keyEq a.1 b.1 = false)

theorem DistinctKeys.perm {α : Type} {l l' : List (Key × α)} (hp : l.Perm l') (hd : DistinctKeys l) :
    DistinctKeys l' :=
  (hp.pairwise_iff (fun h => keyEq_false_symm h)).mp hd

/-- two sorted permutations of a key-distinct list are the same list -/
theorem sorted_perm_unique {α : Type} (l l' : List (Key × α)) (hp : l.Perm l')
    (hs : List.Pairwise EntryLe l) (hs' : List.Pairwise EntryLe l') (hd : DistinctKeys l) :
    l = l' := by
  induction l generalizing l' with
  | nil => exact hp.nil_eq
  | cons a t ih =>
    cases l' with
    | nil => exact absurd hp.symm.nil_eq (by simp)
    | cons b t' =>
      rw [List.pairwise_cons] at hs hs'
      have hd' := hd
      unfold DistinctKeys at hd'
      rw [List.pairwise_cons] at hd'
      have hab : a = b := by
        by_cases hab : a = b
        · exact hab
        · exfalso
          -- `a` occurs in `t'`, `b` occurs in `t`
          have ha : a ∈ t' := by
            have : a ∈ b :: t' := hp.mem_iff.mp (List.mem_cons_self ..)
            rcases List.mem_cons.mp this with h | h
            · exact absurd h hab
            · exact h
          have hb : b ∈ t := by
            have : b ∈ a :: t := hp.mem_iff.mpr (List.mem_cons_self ..)
            rcases List.mem_cons.mp this with h | h
            · exact absurd h.symm hab
            · exact h
          have h1 : keyLe a.1 b.1 = true := hs.1 b hb
          have h2 : keyLe b.1 a.1 = true := hs'.1 a ha
          have := keyLe_antisymm h1 h2
          rw [hd'.1 b hb] at this
          cases this
      subst hab
      rw [ih t' hp.cons_inv hs.2 hs'.2 hd'.2]

theorem sortEntries_perm_eq {α : Type} (l l' : List (Key × α)) (hp : l.Perm l') (hd : DistinctKeys l) :
    sortEntries l = sortEntries l' :=
  sorted_perm_unique _ _
    ((sortEntries_perm l).trans (hp.trans (sortEntries_perm l').symm))
    (sortEntries_sorted l) (sortEntries_sorted l')
    (DistinctKeys.perm (sortEntries_perm l).symm hd)

/-! ### printing a map -/

/-- the text of one rendered entry `key: value` -/
def entryText (P : FmtParams) (e : Key × Value) : List Char :=
  (match e.1 with | .str s => P.strDebug s | _ => fmtKey e.1) ++ [':', ' ']
    ++ (match e.2 with | .str _ s => P.strDebug s | _ => fmtValue P e.2)

theorem fmtEntries_eq_map (P : FmtParams) (es : List (Key × Value)) :
    fmtEntries P es = es.map (fun e => (e.1, entryText P e)) := by
  induction es with
  | nil => simp [fmtEntries]
  | cons e es ih =>
    obtain ⟨k, v⟩ := e
    rw [fmtEntries.eq_def]
    simp only [List.map_cons, entryText, ih]
    rfl

theorem fmtEntries_perm (P : FmtParams) {es es' : List (Key × Value)} (hp : es.Perm es') :
    (fmtEntries P es).Perm (fmtEntries P es') := by
  rw [fmtEntries_eq_map, fmtEntries_eq_map]; exact hp.map _

theorem fmtEntries_distinct (P : FmtParams) {es : List (Key × Value)} (hd : DistinctKeys es) :
    DistinctKeys (fmtEntries P es) := by
  rw [fmtEntries_eq_map]
  exact List.Pairwise.map _ (fun _ _ h => h) hd

/-- MAIN: the text printed for a map does not depend on the order of its entries -/
theorem maps_print_sorted_main (P : FmtParams) (es es' : List (Key × Value)) (hp : es.Perm es')
    (hd : DistinctKeys es) : fmtValue P (.map es) = fmtValue P (.map es') := by
  rw [fmtValue.eq_12, fmtValue.eq_12,
    sortEntries_perm_eq _ _ (fmtEntries_perm P hp) (fmtEntries_distinct P hd)]

/-- the entries are printed in key order -/
theorem fmt_map_sorted (P : FmtParams) (es : List (Key × Value)) :
    List.Pairwise (fun a b => keyLe a.1 b.1 = true) (sortEntries (fmtEntries P es)) :=
  sortEntries_sorted _

end Tera.Serde
