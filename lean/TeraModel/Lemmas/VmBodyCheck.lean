/-
C01 on the value-level VM, part 8: discharging `bodyGuard` statically.

`RenderBodyComponent` marks whatever is in its body slot Safe.  `bodyCheck` is a small bytecode
checker — an abstract interpretation of a chunk that keeps, per value-stack slot counted from the
top, one flag "this slot does not hold a Normal string" (set for the results of `EndCapture`,
`super()`, component calls and `AppendToList`; unknown below what the chunk itself pushed) — which
accepts a chunk only if at every `RenderBodyComponent` the body slot carries the flag.  The
compiler's `Capture … EndCapture; <kwargs>; BuildMap; RenderBodyComponent` passes.

`verify` checks a table of per-instruction flags (`infer` builds one by a forward pass and is not
trusted).  Soundness (`step_flags`, `guard_of_flags`): along any run of the REAL `step` on a chunk
whose table verifies, the flags describe the stack, so `bodyGuard` never fires — whatever the
values, the environment and the nested calls do (a nested `interpret` on the caller's stack —
`RenderBlock`, `super()` — resets the flags: nothing is assumed of it).

Where a `Break` continues (the loop's `end_ip`, a run-time value) is known from the own-loop
component of the abstract state (`LoopsOk`, `step_loops`, `break_target`).  Conservative where it
does not matter for compiler output: `StoreDidNotIterate`, `RenderBlock`, `super()` reset what is
known, so `super()` as an argument of a call with a body is refused.
-/
import TeraModel.Lemmas.VmEscapeRun
import TeraModel.Model.VmBodyCheck
namespace Tera.Vm
open Tera

def FlagsOk (f : Flags) (stk : List Slot) : Prop :=
  ∀ i : Nat, f[i]? = some true → ∃ s : Slot, stk[i]? = some s ∧ isNormalStr s.1 = false

theorem flagsOk_nil (stk : List Slot) : FlagsOk [] stk := fun i h => by simp at h

theorem flagsOk_cons {b : Bool} {f : Flags} {v : Value} {r : SpanRange} {stk : List Slot}
    (hb : b = true → isNormalStr v = false) (hf : FlagsOk f stk) : FlagsOk (b :: f) ((v, r) :: stk) := by
  intro i hi
  cases i with
  | zero =>
    simp only [List.getElem?_cons_zero, Option.some.injEq] at hi
    exact ⟨(v, r), rfl, hb hi⟩
  | succ i =>
    simp only [List.getElem?_cons_succ] at hi ⊢
    exact hf i hi

theorem FlagsOk.drop {f : Flags} {stk : List Slot} (hf : FlagsOk f stk) (k : Nat) :
    FlagsOk (f.drop k) (stk.drop k) := by
  intro i hi
  simp only [List.getElem?_drop] at hi ⊢
  exact hf (k + i) hi

/-- the standard turn: `k` slots popped, one pushed -/
theorem FlagsOk.step {f : Flags} {stk rest : List Slot} (hf : FlagsOk f stk) (k : Nat)
    (hk : stk.drop k = rest) (b : Bool) {v : Value} (r : SpanRange)
    (hb : b = true → isNormalStr v = false) : FlagsOk (b :: f.drop k) ((v, r) :: rest) :=
  flagsOk_cons hb (hk ▸ hf.drop k)

theorem FlagsOk.pop {f : Flags} {stk rest : List Slot} (hf : FlagsOk f stk) (k : Nat)
    (hk : stk.drop k = rest) : FlagsOk (f.drop k) rest := hk ▸ hf.drop k

theorem fle_sound : ∀ {a b : Flags} {stk : List Slot}, fle a b = true → FlagsOk b stk → FlagsOk a stk
  | [], _, _, _, _ => flagsOk_nil _
  | x :: xs, [], stk, h, _ => by
    simp only [fle, Bool.and_eq_true, Bool.not_eq_eq_eq_not, Bool.not_true] at h
    intro i hi
    cases i with
    | zero => simp only [List.getElem?_cons_zero, Option.some.injEq] at hi; rw [h.1] at hi; cases hi
    | succ i =>
      simp only [List.getElem?_cons_succ] at hi
      obtain ⟨s, hs, _⟩ := fle_sound (stk := []) h.2 (flagsOk_nil _) i hi
      simp at hs
  | x :: xs, y :: ys, stk, h, hb => by
    simp only [fle, Bool.and_eq_true, Bool.or_eq_true, Bool.not_eq_eq_eq_not, Bool.not_true] at h
    intro i hi
    cases i with
    | zero =>
      simp only [List.getElem?_cons_zero, Option.some.injEq] at hi
      have hy : y = true := by
        rcases h.1 with h1 | h1
        · rw [h1] at hi; cases hi
        · exact h1
      exact hb 0 (by simp [hy])
    | succ i =>
      simp only [List.getElem?_cons_succ] at hi
      have htl : FlagsOk ys (stk.drop 1) := by
        have := hb.drop 1
        simpa using this
      obtain ⟨s, hs, hn⟩ := fle_sound h.2 htl i hi
      refine ⟨s, ?_, hn⟩
      simpa [List.getElem?_drop, Nat.add_comm] using hs

/-! ### the abstract turn -/

variable {rec : VmCtx → Chunk → State → RunRes} {env : Env} {vm : VmCtx} {c : Chunk}
  {pc pc' : Nat} {st st' : State} {f : Flags}

/-- what one turn establishes: the flags describe the new stack, and the next instruction is one
of the syntactic successors (or past the end) -/
def TurnOk (i : VInstr) (pc : Nat) (len : Nat) (f : Flags) (pc' : Nat) (st' : State) : Prop :=
  FlagsOk (bflags i pc pc' f) st'.stack ∧ (pc' ∈ bsuccs i pc len none ∨ len ≤ pc')

/-- closes the arms of shape "pop `k`, push one value flagged `b`" -/
macro "flags_arm" h:ident hf:ident k:num b:term : tactic => `(tactic| (
  repeat' split at $h:ident
  all_goals first
    | (exfalso; simp at $h:ident; done)
    | skip
  all_goals (
    simp only [StepRes.next.injEq] at $h:ident
    rcases $h:ident with ⟨h1, h2⟩
    subst h2
    subst h1
    simp only [‹State.stack _ = _›] at $hf:ident
    exact ⟨FlagsOk.step $hf:ident $k rfl $b _ (by simp [isNormalStr]), Or.inl (by simp [bsuccs])⟩)))

theorem fl_loadAttr (attr : String) (opt : Bool) (len : Nat) (hf : FlagsOk f st.stack)
    (h : stepLoadAttr env vm c attr opt pc st = .next pc' st') :
    TurnOk (.loadAttr attr opt) pc len f pc' st' := by
  unfold stepLoadAttr at h
  flags_arm h hf 1 false

theorem fl_subscript (opt : Bool) (len : Nat) (hf : FlagsOk f st.stack)
    (h : stepSubscript env vm c opt pc st = .next pc' st') :
    TurnOk (.binarySubscript opt) pc len f pc' st' := by
  unfold stepSubscript at h
  flags_arm h hf 2 false

theorem fl_slice (opt : Bool) (len : Nat) (hf : FlagsOk f st.stack)
    (h : stepSlice env vm c opt pc st = .next pc' st') :
    TurnOk (.slice opt) pc len f pc' st' := by
  unfold stepSlice at h
  flags_arm h hf 4 false

theorem fl_writeTop (len : Nat) (hf : FlagsOk f st.stack)
    (h : stepWriteTop env vm c pc st = .next pc' st') : TurnOk .writeTop pc len f pc' st' := by
  unfold stepWriteTop at h
  split at h
  · simp at h
  · rename_i top topSpan rest hs0
    split at h
    · simp at h
    · simp only [StepRes.next.injEq] at h; rcases h with ⟨h1, h2⟩; subst h2; subst h1
      rw [hs0] at hf
      refine ⟨?_, Or.inl (by simp [bsuccs])⟩
      have : (emitValue env vm top { st with stack := rest }).stack = rest := by
        unfold emitValue State.write; split <;> rfl
      rw [this]
      exact hf.pop 1 rfl

theorem fl_set (n : String) (g : Bool) (len : Nat) (hf : FlagsOk f st.stack)
    (h : stepSet n g pc st = .next pc' st') : TurnOk (.set n g) pc len f pc' st' := by
  unfold stepSet at h
  split at h
  · simp at h
  · rename_i v vs rest hs0
    simp only [StepRes.next.injEq] at h; rcases h with ⟨h1, h2⟩; subst h2; subst h1
    rw [hs0] at hf
    exact ⟨hf.pop 1 rfl, Or.inl (by simp [bsuccs])⟩

theorem popPairs_drop : ∀ (n : Nat) (stk : List Slot) (acc elems : List (Key × Value)) (rest : List Slot),
    popPairs n stk acc = .ok elems rest → rest = stk.drop (2 * n)
  | 0, _, _, _, _, h => by simp [popPairs] at h; simp [h.2]
  | n + 1, [], _, _, _, h => by simp [popPairs] at h
  | n + 1, [_], _, _, _, h => by simp [popPairs] at h
  | n + 1, (v, _) :: (k, _) :: tl, acc, elems, rest, h => by
    unfold popPairs at h
    split at h
    · cases h
    · have := popPairs_drop n tl _ elems rest h
      rw [this, Nat.mul_succ]
      rfl

theorem fl_buildMap (n : Nat) (len : Nat) (hf : FlagsOk f st.stack)
    (h : stepBuildMap n pc st = .next pc' st') : TurnOk (.buildMap n) pc len f pc' st' := by
  unfold stepBuildMap at h
  split at h
  · rename_i hn
    subst hn
    simp only [StepRes.next.injEq] at h; rcases h with ⟨h1, h2⟩; subst h2; subst h1
    exact ⟨FlagsOk.step hf 0 rfl false _ (by simp), Or.inl (by simp [bsuccs])⟩
  · split at h
    · simp at h
    · simp at h
    · rename_i elems rest hp
      simp only [StepRes.next.injEq] at h; rcases h with ⟨h1, h2⟩; subst h2; subst h1
      exact ⟨FlagsOk.step hf (2 * n) (popPairs_drop _ _ _ _ _ hp).symm false _ (by simp),
        Or.inl (by simp [bsuccs])⟩

theorem popN_rest' : ∀ (n : Nat) (stk : List Slot) (acc elems : List Value) (rest : List Slot),
    popN n stk acc = .ok elems rest → rest = stk.drop n
  | 0, _, _, _, _, h => by simp [popN] at h; simp [h.2]
  | n + 1, [], _, _, _, h => by simp [popN] at h
  | n + 1, (v, _) :: tl, acc, elems, rest, h => by
    unfold popN at h
    simpa using popN_rest' n tl _ elems rest h

theorem fl_buildList (n : Nat) (len : Nat) (hf : FlagsOk f st.stack)
    (h : stepBuildList n pc st = .next pc' st') : TurnOk (.buildList n) pc len f pc' st' := by
  unfold stepBuildList at h
  split at h
  · simp at h
  · simp at h
  · rename_i elems rest hp
    simp only [StepRes.next.injEq] at h; rcases h with ⟨h1, h2⟩; subst h2; subst h1
    exact ⟨FlagsOk.step hf n (popN_rest' _ _ _ _ _ hp).symm false _ (by simp), Or.inl (by simp [bsuccs])⟩

theorem popSpreadMap_rest (flags : List Bool) (stk : List Slot) (acc m : Entries) (rest : List Slot)
    (h : popSpreadMap env vm c flags stk acc = .inr (m, rest)) : rest = stk.drop (spreadCount flags) := by
  fun_induction popSpreadMap env vm c flags stk acc with
  | case1 stk acc => simp only [Sum.inr.injEq, Prod.mk.injEq] at h; simp [spreadCount, h.2]
  | case2 => cases h
  | case3 fs acc aSpan rest' es ih =>
    rw [ih h]
    simp only [spreadCount, List.map_cons, ↓reduceIte, List.sum_cons]
    rw [Nat.add_comm]
    rfl
  | case4 => cases h
  | case5 => cases h
  | case6 => cases h
  | case7 => cases h
  | case8 fs acc v vs k ks rest' key hk ih =>
    rw [ih h]
    simp only [spreadCount, List.map_cons, Bool.false_eq_true, ↓reduceIte, List.sum_cons]
    rw [Nat.add_comm]
    rfl

theorem spreadCount_reverse (flags : List Bool) : spreadCount flags.reverse = spreadCount flags := by
  simp [spreadCount, List.sum_reverse]

theorem fl_buildMapWithSpreads (flags : List Bool) (len : Nat) (hf : FlagsOk f st.stack)
    (h : stepBuildMapWithSpreads env vm c flags pc st = .next pc' st') :
    TurnOk (.buildMapWithSpreads flags) pc len f pc' st' := by
  unfold stepBuildMapWithSpreads at h
  split at h
  · rename_i r hr
    have := popSpreadMap_inl _ _ _ _ hr
    rw [h] at this; simp [StepRes.isNext] at this
  · rename_i m rest hp
    simp only [StepRes.next.injEq] at h; rcases h with ⟨h1, h2⟩; subst h2; subst h1
    have hr := popSpreadMap_rest _ _ _ _ _ hp
    rw [spreadCount_reverse] at hr
    exact ⟨FlagsOk.step hf _ hr.symm false _ (by simp), Or.inl (by simp [bsuccs])⟩

theorem popSpreadList_rest (flags : List Bool) (stk : List Slot) (acc xs : List Value) (rest : List Slot)
    (h : popSpreadList env vm c flags stk acc = .inr (xs, rest)) : rest = stk.drop flags.length := by
  fun_induction popSpreadList env vm c flags stk acc with
  | case1 stk acc => simp only [Sum.inr.injEq, Prod.mk.injEq] at h; simp [h.2]
  | case2 => cases h
  | case3 fs acc span rest' ys ih => rw [ih h]; simp
  | case4 => cases h
  | case5 f fs acc v span rest' hf ih => rw [ih h]; simp

theorem fl_buildListWithSpreads (flags : List Bool) (len : Nat) (hf : FlagsOk f st.stack)
    (h : stepBuildListWithSpreads env vm c flags pc st = .next pc' st') :
    TurnOk (.buildListWithSpreads flags) pc len f pc' st' := by
  unfold stepBuildListWithSpreads at h
  split at h
  · rename_i r hr
    have := popSpreadList_inl _ _ _ _ hr
    rw [h] at this; simp [StepRes.isNext] at this
  · rename_i xs rest hp
    simp only [StepRes.next.injEq] at h; rcases h with ⟨h1, h2⟩; subst h2; subst h1
    have hr := popSpreadList_rest _ _ _ _ _ hp
    rw [List.length_reverse] at hr
    exact ⟨FlagsOk.step hf _ hr.symm false _ (by simp), Or.inl (by simp [bsuccs])⟩

theorem fl_filterOrTest (isTest : Bool) (name : String) (len : Nat) (hf : FlagsOk f st.stack)
    (h : stepFilterOrTest env vm c isTest name pc st = .next pc' st') :
    TurnOk (if isTest then .runTest name else .applyFilter name) pc len f pc' st' := by
  unfold stepFilterOrTest at h
  dsimp only at h
  cases isTest <;> simp only [Bool.false_eq_true, ↓reduceIte] at h ⊢
  all_goals (
    repeat' split at h
    all_goals first
      | (exfalso; simp at h; done)
      | skip
    all_goals (
      simp only [StepRes.next.injEq] at h
      rcases h with ⟨h1, h2⟩
      subst h2
      subst h1
      simp only [‹State.stack _ = _›] at hf
      exact ⟨FlagsOk.step hf 2 rfl false _ (by simp), Or.inl (by simp [bsuccs])⟩))

theorem fl_endCapture (len : Nat) (hf : FlagsOk f st.stack) (h : stepEndCapture pc st = .next pc' st') :
    TurnOk .endCapture pc len f pc' st' := by
  unfold stepEndCapture at h
  split at h
  · simp at h
  · simp only [StepRes.next.injEq] at h; rcases h with ⟨h1, h2⟩; subst h2; subst h1
    exact ⟨FlagsOk.step hf 0 rfl true _ (by simp [isNormalStr]), Or.inl (by simp [bsuccs])⟩

theorem fl_startIterate (kv compr : Bool) (len : Nat) (hf : FlagsOk f st.stack)
    (h : stepStartIterate env vm c kv compr pc st = .next pc' st') :
    TurnOk (.startIterate kv compr) pc len f pc' st' := by
  unfold stepStartIterate at h
  repeat' split at h
  all_goals first
    | (exfalso; simp at h; done)
    | skip
  simp only [StepRes.next.injEq] at h; rcases h with ⟨h1, h2⟩; subst h2; subst h1
  simp only [‹State.stack _ = _›] at hf
  exact ⟨hf.pop 1 rfl, Or.inl (by simp [bsuccs])⟩

theorem fl_storeLocal (n : String) (len : Nat) (hf : FlagsOk f st.stack)
    (h : stepStoreLocal n pc st = .next pc' st') : TurnOk (.storeLocal n) pc len f pc' st' := by
  unfold stepStoreLocal at h
  split at h <;>
    (simp only [StepRes.next.injEq] at h; rcases h with ⟨h1, h2⟩; subst h2; subst h1
     exact ⟨hf, Or.inl (by simp [bsuccs])⟩)

theorem fl_iterate (t : Nat) (len : Nat) (hf : FlagsOk f st.stack)
    (h : stepIterate t pc st = .next pc' st') : TurnOk (.iterate t) pc len f pc' st' := by
  unfold stepIterate at h
  repeat' split at h
  all_goals (
    simp only [StepRes.next.injEq] at h; rcases h with ⟨h1, h2⟩; subst h2; subst h1
    exact ⟨hf, Or.inl (by simp [bsuccs])⟩)

theorem fl_storeDidNotIterate (len : Nat) (h : stepStoreDidNotIterate pc st = .next pc' st') :
    TurnOk .storeDidNotIterate pc len f pc' st' := by
  unfold stepStoreDidNotIterate at h
  split at h <;>
    (simp only [StepRes.next.injEq] at h; rcases h with ⟨h1, h2⟩; subst h1
     exact ⟨flagsOk_nil _, Or.inl (by simp [bsuccs])⟩)

theorem fl_break (len : Nat) (hf : FlagsOk f st.stack) (h : stepBreak pc st = .next pc' st') :
    TurnOk .break_ pc len f pc' st' := by
  unfold stepBreak at h
  split at h
  · simp only [StepRes.next.injEq] at h; rcases h with ⟨h1, h2⟩; subst h2; subst h1
    exact ⟨hf, Or.inl (by simp [bsuccs])⟩
  · simp only [StepRes.next.injEq] at h; rcases h with ⟨h1, h2⟩; subst h2
    refine ⟨hf, ?_⟩
    by_cases hl : pc' < len
    · exact Or.inl (by simp [bsuccs, hl])
    · exact Or.inr (by omega)

theorem fl_appendToList (len : Nat) (hf : FlagsOk f st.stack)
    (h : stepAppendToList pc st = .next pc' st') : TurnOk .appendToList pc len f pc' st' := by
  unfold stepAppendToList at h
  flags_arm h hf 2 true

theorem fl_math (op : MathOp) (len : Nat) (hf : FlagsOk f st.stack)
    (h : stepMath env vm c op pc st = .next pc' st') : TurnOk (.math op) pc len f pc' st' := by
  unfold stepMath at h
  flags_arm h hf 2 false

theorem fl_plus (len : Nat) (hf : FlagsOk f st.stack)
    (h : stepPlus env vm c pc st = .next pc' st') : TurnOk .plus pc len f pc' st' := by
  unfold stepPlus at h
  flags_arm h hf 2 false

theorem fl_cmp (op : CmpOp) (len : Nat) (hf : FlagsOk f st.stack)
    (h : stepCmp env vm c op pc st = .next pc' st') : TurnOk (.cmp op) pc len f pc' st' := by
  unfold stepCmp at h
  flags_arm h hf 2 false

theorem fl_equal (neg : Bool) (len : Nat) (hf : FlagsOk f st.stack)
    (h : stepEqual neg pc st = .next pc' st') : TurnOk (.equal neg) pc len f pc' st' := by
  unfold stepEqual at h
  flags_arm h hf 2 false

theorem fl_strConcat (len : Nat) (hf : FlagsOk f st.stack)
    (h : stepStrConcat env pc st = .next pc' st') : TurnOk .strConcat pc len f pc' st' := by
  unfold stepStrConcat at h
  split at h
  · simp at h
  · simp at h
  · rename_i b bs a as rest hs0
    simp only [StepRes.next.injEq] at h; rcases h with ⟨h1, h2⟩; subst h2; subst h1
    rw [hs0] at hf
    exact ⟨FlagsOk.step hf 2 rfl false _ (by simp), Or.inl (by simp [bsuccs])⟩

theorem fl_in (len : Nat) (hf : FlagsOk f st.stack)
    (h : stepIn env vm c pc st = .next pc' st') : TurnOk .in_ pc len f pc' st' := by
  unfold stepIn at h
  flags_arm h hf 2 false

theorem fl_not (len : Nat) (hf : FlagsOk f st.stack)
    (h : stepNot pc st = .next pc' st') : TurnOk .not_ pc len f pc' st' := by
  unfold stepNot at h
  flags_arm h hf 1 false

theorem fl_negative (len : Nat) (hf : FlagsOk f st.stack)
    (h : stepNegative env vm c pc st = .next pc' st') : TurnOk .negative pc len f pc' st' := by
  unfold stepNegative at h
  flags_arm h hf 1 false

theorem fl_popJumpIfFalse (t : Nat) (len : Nat) (hf : FlagsOk f st.stack)
    (h : stepPopJumpIfFalse t pc st = .next pc' st') : TurnOk (.popJumpIfFalse t) pc len f pc' st' := by
  unfold stepPopJumpIfFalse at h
  split at h
  · simp at h
  · rename_i v vs rest hs0
    rw [hs0] at hf
    split at h <;>
      (simp only [StepRes.next.injEq] at h; rcases h with ⟨h1, h2⟩; subst h2; subst h1
       exact ⟨hf.pop 1 rfl, Or.inl (by simp [bsuccs])⟩)

theorem fl_jumpOrPop (w : Bool) (t : Nat) (len : Nat) (hf : FlagsOk f st.stack)
    (h : stepJumpOrPop w t pc st = .next pc' st') :
    TurnOk (if w then .jumpIfTrueOrPop t else .jumpIfFalseOrPop t) pc len f pc' st' := by
  unfold stepJumpOrPop at h
  split at h
  · simp at h
  · rename_i v vs rest hs0
    have key : ∀ i : VInstr, (i = .jumpIfTrueOrPop t ∨ i = .jumpIfFalseOrPop t) → TurnOk i pc len f pc' st' := by
      intro i hi
      have hb : bflags i pc pc' f = if t = pc + 1 then [] else if pc' = t then f else f.drop 1 := by
        rcases hi with rfl | rfl <;> rfl
      have hsucc : bsuccs i pc len none = [t, pc + 1] := by rcases hi with rfl | rfl <;> rfl
      by_cases hc : (if w = true then v.isTruthy else !v.isTruthy) = true
      · rw [if_pos hc] at h
        simp only [StepRes.next.injEq] at h; rcases h with ⟨h1, h2⟩; subst h2; subst h1
        refine ⟨?_, Or.inl (by simp [hsucc])⟩
        rw [hb]
        split
        · exact flagsOk_nil _
        · simp only [↓reduceIte]; exact hf
      · rw [if_neg hc] at h
        simp only [StepRes.next.injEq] at h; rcases h with ⟨h1, h2⟩; subst h2; subst h1
        refine ⟨?_, Or.inl (by simp [hsucc])⟩
        rw [hb]
        split
        · exact flagsOk_nil _
        · rename_i hne
          have : ¬ (pc + 1 = t) := fun h => hne h.symm
          simp only [this, ↓reduceIte]
          exact hf.pop 1 (by rw [hs0]; rfl)
    cases w
    · exact key _ (Or.inr rfl)
    · exact key _ (Or.inl rfl)

theorem fl_loadPath (p : List String) (len : Nat) (hf : FlagsOk f st.stack)
    (h : stepLoadPath env vm c p pc st = .next pc' st') : TurnOk (.loadPath p) pc len f pc' st' := by
  cases p with
  | nil => simp [stepLoadPath] at h
  | cons n attrs =>
    rw [stepLoadPath_cons] at h
    obtain ⟨v, rfl, rfl⟩ := loadTail_next _ _ h
    exact ⟨FlagsOk.step hf 0 rfl false _ (by simp), Or.inl (by simp [bsuccs])⟩

theorem fl_writePath (p : List String) (len : Nat) (hf : FlagsOk f st.stack)
    (h : stepWritePath env vm c p pc st = .next pc' st') : TurnOk (.writePath p) pc len f pc' st' := by
  cases p with
  | nil => simp [stepWritePath] at h
  | cons n attrs =>
    rw [stepWritePath_cons] at h
    obtain ⟨v, _, rfl, rfl⟩ := writeTail_next _ _ h
    refine ⟨?_, Or.inl (by simp [bsuccs])⟩
    have : (emitValue env vm v st).stack = st.stack := by
      unfold emitValue State.write; split <;> rfl
    rw [this]; exact hf

/-! ### arms that call `interpret` again: nothing is assumed of the nested call -/

theorem write_stack_eq (st : State) (t : List Char) : (st.write t).stack = st.stack := by
  unfold State.write; split <;> rfl

theorem fl_include (n : String) (len : Nat) (hf : FlagsOk f st.stack)
    (h : stepInclude rec env vm n pc st = .next pc' st') : TurnOk (.include_ n) pc len f pc' st' := by
  unfold stepInclude at h
  repeat' split at h
  all_goals first
    | (exfalso; simp at h; done)
    | skip
  simp only [StepRes.next.injEq] at h; rcases h with ⟨h1, h2⟩; subst h2; subst h1
  refine ⟨?_, Or.inl (by simp [bsuccs])⟩
  rw [write_stack_eq]; exact hf

theorem fl_renderBlock (n : String) (len : Nat)
    (h : stepRenderBlock rec vm n pc st = .next pc' st') : TurnOk (.renderBlock n) pc len f pc' st' := by
  unfold stepRenderBlock at h
  repeat' split at h
  all_goals first
    | (exfalso; simp at h; done)
    | skip
  simp only [StepRes.next.injEq] at h; rcases h with ⟨h1, h2⟩; subst h1
  exact ⟨flagsOk_nil _, Or.inl (by simp [bsuccs])⟩

theorem fl_callFunction (n : String) (len : Nat) (hf : FlagsOk f st.stack)
    (h : stepCallFunction rec env vm c n pc st = .next pc' st') :
    TurnOk (.callFunction n) pc len f pc' st' := by
  unfold stepCallFunction at h
  split at h
  · simp at h
  · rename_i kwargs ks rest hs0
    split at h
    · rename_i hn
      unfold stepSuper at h
      repeat' split at h
      all_goals first
        | (exfalso; simp at h; done)
        | skip
      simp only [StepRes.next.injEq] at h; rcases h with ⟨h1, h2⟩; subst h2; subst h1
      refine ⟨?_, Or.inl (by simp [bsuccs])⟩
      simp only [bflags, hn, ↓reduceIte, leaveSuper]
      exact flagsOk_cons (by simp [isNormalStr]) (flagsOk_nil _)
    · rename_i hn
      repeat' split at h
      all_goals first
        | (exfalso; simp at h; done)
        | skip
      all_goals (
        simp only [StepRes.next.injEq] at h; rcases h with ⟨h1, h2⟩; subst h2; subst h1
        rw [hs0] at hf
        refine ⟨?_, Or.inl (by simp [bsuccs])⟩
        simp only [bflags, hn, ↓reduceIte]
        exact FlagsOk.step hf 1 rfl false _ (by simp))

theorem fl_component (n : String) (hasBody : Bool) (len : Nat) (hf : FlagsOk f st.stack)
    (h : stepComponent rec env vm c n hasBody pc st = .next pc' st') :
    TurnOk (.renderComponent n hasBody) pc len f pc' st' := by
  unfold stepComponent at h
  repeat' split at h
  all_goals first
    | (exfalso; simp at h; done)
    | skip
  rename_i _ aSpan rest v es hs0 _ cdef cchunk hfc _ body rest' hpb _ bound hbc hdepth _ stn hr
  simp only [StepRes.next.injEq] at h; rcases h with ⟨h1, h2⟩; subst h2; subst h1
  rw [hs0] at hf
  refine ⟨?_, Or.inl (by simp [bsuccs])⟩
  unfold popBody at hpb
  cases hasBody with
  | false =>
    simp only [Bool.false_eq_true, ↓reduceIte, Option.some.injEq, Prod.mk.injEq] at hpb
    obtain ⟨_, rfl⟩ := hpb
    exact FlagsOk.step hf 1 rfl true _ (by simp [isNormalStr])
  | true =>
    simp only [↓reduceIte] at hpb
    split at hpb
    · cases hpb
    · rename_i b bs rest2
      simp only [Option.some.injEq, Prod.mk.injEq] at hpb
      obtain ⟨_, rfl⟩ := hpb
      exact FlagsOk.step hf 2 rfl true _ (by simp [isNormalStr])

/-- **One turn of the REAL `step` against the abstract turn.** -/
theorem step_flags (e : VEntry) (len : Nat) (hf : FlagsOk f st.stack)
    (h : step rec env vm c e pc st = .next pc' st') : TurnOk e.1 pc len f pc' st' := by
  obtain ⟨i, spans⟩ := e
  unfold step at h
  cases i <;> simp only at h ⊢
  case loadConst v =>
    simp only [StepRes.next.injEq] at h; rcases h with ⟨h1, h2⟩; subst h2; subst h1
    exact ⟨FlagsOk.step hf 0 rfl false _ (by simp), Or.inl (by simp [bsuccs])⟩
  case loadName n =>
    simp only [StepRes.next.injEq] at h; rcases h with ⟨h1, h2⟩; subst h2; subst h1
    exact ⟨FlagsOk.step hf 0 rfl false _ (by simp), Or.inl (by simp [bsuccs])⟩
  case loadAttr a o => exact fl_loadAttr a o len hf h
  case binarySubscript o => exact fl_subscript o len hf h
  case slice o => exact fl_slice o len hf h
  case writeText t =>
    simp only [StepRes.next.injEq] at h; rcases h with ⟨h1, h2⟩; subst h2; subst h1
    exact ⟨by rw [write_stack_eq]; exact hf, Or.inl (by simp [bsuccs])⟩
  case writeTop => exact fl_writeTop len hf h
  case set n g => exact fl_set n g len hf h
  case include_ n => exact fl_include n len hf h
  case buildMap n => exact fl_buildMap n len hf h
  case buildList n => exact fl_buildList n len hf h
  case buildMapWithSpreads fl => exact fl_buildMapWithSpreads fl len hf h
  case buildListWithSpreads fl => exact fl_buildListWithSpreads fl len hf h
  case callFunction n => exact fl_callFunction n len hf h
  case renderComponent n b => exact fl_component n b len hf h
  case applyFilter n => exact fl_filterOrTest false n len hf h
  case runTest n => exact fl_filterOrTest true n len hf h
  case renderBlock n => exact fl_renderBlock n len h
  case jump t =>
    simp only [StepRes.next.injEq] at h; rcases h with ⟨h1, h2⟩; subst h2; subst h1
    exact ⟨hf, Or.inl (by simp [bsuccs])⟩
  case popJumpIfFalse t => exact fl_popJumpIfFalse t len hf h
  case jumpIfFalseOrPop t => exact fl_jumpOrPop false t len hf h
  case jumpIfTrueOrPop t => exact fl_jumpOrPop true t len hf h
  case capture =>
    simp only [StepRes.next.injEq] at h; rcases h with ⟨h1, h2⟩; subst h2; subst h1
    exact ⟨hf, Or.inl (by simp [bsuccs])⟩
  case endCapture => exact fl_endCapture len hf h
  case startIterate kv co => exact fl_startIterate kv co len hf h
  case iterate t => exact fl_iterate t len hf h
  case storeLocal n => exact fl_storeLocal n len hf h
  case storeDidNotIterate => exact fl_storeDidNotIterate len h
  case break_ => exact fl_break len hf h
  case popLoop =>
    simp only [StepRes.next.injEq] at h; rcases h with ⟨h1, h2⟩; subst h2; subst h1
    exact ⟨hf, Or.inl (by simp [bsuccs])⟩
  case appendToList => exact fl_appendToList len hf h
  case math op => exact fl_math op len hf h
  case plus => exact fl_plus len hf h
  case cmp op => exact fl_cmp op len hf h
  case equal ng => exact fl_equal ng len hf h
  case strConcat => exact fl_strConcat len hf h
  case in_ => exact fl_in len hf h
  case not_ => exact fl_not len hf h
  case negative => exact fl_negative len hf h
  case loadPath p => exact fl_loadPath p len hf h
  case writePath p => exact fl_writePath p len hf h

/-- flags that pass `bguardOk` keep `bodyGuard` silent -/
theorem guard_of_flags (i : VInstr) (hf : FlagsOk f st.stack) (hg : bguardOk i f = true) :
    bodyGuard i st = false := by
  unfold bodyGuard
  split
  · simp only [bguardOk, beq_iff_eq] at hg
    obtain ⟨s, hs, hn⟩ := hf 1 hg
    split
    · rename_i x b bs rest hst
      rw [hst] at hs
      simp only [List.getElem?_cons_succ, List.getElem?_cons_zero, Option.some.injEq] at hs
      subst hs; exact hn
    · rfl
  · rfl

/-! ### tables -/

/-! ### own loops -/

/-- the `end_ip`s of the active loops, innermost first -/
def endsOf (st : State) : List Nat := st.scope.forLoops.map (·.endIp)

/-- what is known of the own loops against their actual `end_ip`s -/
def MatchL : List (Option Nat) → List Nat → Prop
  | [], [] => True
  | o :: os, e :: es => (∀ x, o = some x → e = x) ∧ MatchL os es
  | _, _ => False

def LoopsOk (l : ALoops) (st : State) : Prop :=
  match l with
  | none => True
  | some own => ∃ ownE rest, endsOf st = ownE ++ rest ∧ MatchL own ownE

theorem loopsOk_of_ends {l : ALoops} (h : endsOf st' = endsOf st) (hl : LoopsOk l st) : LoopsOk l st' := by
  cases l with
  | none => trivial
  | some own => obtain ⟨ownE, rest, hr, hm⟩ := hl; exact ⟨ownE, rest, by rw [h, hr], hm⟩

theorem lle_sound : ∀ {t a : List (Option Nat)} {E : List Nat}, lle t a = true → MatchL a E → MatchL t E
  | [], [], _, _, h => h
  | [], _ :: _, _, ht, _ => by simp [lle] at ht
  | _ :: _, [], _, ht, _ => by simp [lle] at ht
  | x :: xs, y :: ys, [], _, h => by simp [MatchL] at h
  | x :: xs, y :: ys, e :: es, ht, h => by
    simp only [lle, Bool.and_eq_true, Bool.or_eq_true, beq_iff_eq] at ht
    simp only [MatchL] at h ⊢
    refine ⟨?_, lle_sound ht.2 h.2⟩
    intro v hv
    rcases ht.1 with hn | he
    · rw [hv] at hn; simp at hn
    · exact h.1 v (he ▸ hv)

theorem forLoops_setTopLoop' (sc : Scope) (l : ForLoop) :
    (sc.setTopLoop l).forLoops = match sc.forLoops with | _ :: rest => l :: rest | [] => [] := by
  rcases sc with ⟨_ | ⟨x, xs⟩, _, _, _, _⟩ <;> rfl

theorem forLoops_storeLocal' (sc : Scope) (n : String) (v : Value) :
    (sc.storeLocal n v).forLoops = match sc.forLoops with | l :: rest => l.store n v :: rest | [] => [] := by
  rcases sc with ⟨_ | ⟨x, xs⟩, _, _, _, _⟩ <;> rfl

theorem forLoops_storeGlobal' (sc : Scope) (n : String) (v : Value) :
    (sc.storeGlobal n v).forLoops = sc.forLoops := by
  rcases sc with ⟨_, _, _, _, _⟩; rfl

theorem forLoops_pushLoop' (sc : Scope) (l : ForLoop) : (sc.pushLoop l).forLoops = l :: sc.forLoops := by
  rcases sc with ⟨_, _, _, _, _⟩; rfl

theorem forLoops_popLoop' (sc : Scope) : sc.popLoop.forLoops = sc.forLoops.tail := by
  rcases sc with ⟨_, _, _, _, _⟩; rfl

/-- the turn left the `end_ip`s of the loops as they were -/
macro "ends_same" h:ident : tactic => `(tactic| (
  repeat' split at $h:ident
  all_goals first
    | (exfalso; simp at $h:ident; done)
    | (simp only [StepRes.next.injEq] at $h:ident; rcases $h:ident with ⟨_, h2⟩; subst h2; rfl)))

theorem emitValue_scope (v : Value) (st : State) : (emitValue env vm v st).scope = st.scope := by
  unfold emitValue State.write; split <;> rfl

/-- every instruction other than the loop instructions, `RenderBlock` and `super()` leaves the
`end_ip`s of the loops as they were -/
theorem step_ends (e : VEntry)
    (hne : match e.1 with
      | .startIterate .. | .iterate _ | .popLoop | .renderBlock _ => False
      | .callFunction n => n ≠ "super"
      | _ => True)
    (h : step rec env vm c e pc st = .next pc' st') : endsOf st' = endsOf st := by
  obtain ⟨i, spans⟩ := e
  unfold step at h
  cases i <;> simp only at h hne
  case loadConst v => simp only [StepRes.next.injEq] at h; rcases h with ⟨_, h2⟩; subst h2; rfl
  case loadName n => simp only [StepRes.next.injEq] at h; rcases h with ⟨_, h2⟩; subst h2; rfl
  case loadAttr a o => unfold stepLoadAttr at h; ends_same h
  case binarySubscript o => unfold stepSubscript at h; ends_same h
  case slice o => unfold stepSlice at h; ends_same h
  case writeText t =>
    simp only [StepRes.next.injEq] at h; rcases h with ⟨_, h2⟩; subst h2
    unfold endsOf State.write; split <;> rfl
  case writeTop =>
    unfold stepWriteTop at h
    repeat' split at h
    all_goals first
      | (exfalso; simp at h; done)
      | skip
    simp only [StepRes.next.injEq] at h; rcases h with ⟨_, h2⟩; subst h2
    unfold endsOf; rw [emitValue_scope]
  case set n g =>
    unfold stepSet at h
    split at h
    · simp at h
    · simp only [StepRes.next.injEq] at h; rcases h with ⟨_, h2⟩; subst h2
      unfold endsOf
      simp only
      split
      · rw [forLoops_storeGlobal']
      · rw [forLoops_storeLocal']
        cases st.scope.forLoops <;> simp [ForLoop.store]
  case include_ n =>
    unfold stepInclude at h
    repeat' split at h
    all_goals first
      | (exfalso; simp at h; done)
      | skip
    simp only [StepRes.next.injEq] at h; rcases h with ⟨_, h2⟩; subst h2
    unfold endsOf State.write; split <;> rfl
  case buildMap n => unfold stepBuildMap State.push at h; ends_same h
  case buildList n => unfold stepBuildList at h; ends_same h
  case buildMapWithSpreads f =>
    unfold stepBuildMapWithSpreads at h
    split at h
    · rename_i r hr
      have := popSpreadMap_inl _ _ _ _ hr
      rw [h] at this; simp [StepRes.isNext] at this
    · ends_same h
  case buildListWithSpreads f =>
    unfold stepBuildListWithSpreads at h
    split at h
    · rename_i r hr
      have := popSpreadList_inl _ _ _ _ hr
      rw [h] at this; simp [StepRes.isNext] at this
    · ends_same h
  case callFunction n =>
    unfold stepCallFunction at h
    split at h
    · simp at h
    · split at h
      · rename_i hn; exact absurd hn hne
      · ends_same h
  case renderComponent n b => unfold stepComponent at h; ends_same h
  case applyFilter n => unfold stepFilterOrTest at h; dsimp only at h; ends_same h
  case runTest n => unfold stepFilterOrTest at h; dsimp only at h; ends_same h
  case jump t => simp only [StepRes.next.injEq] at h; rcases h with ⟨_, h2⟩; subst h2; rfl
  case popJumpIfFalse t => unfold stepPopJumpIfFalse at h; ends_same h
  case jumpIfFalseOrPop t => unfold stepJumpOrPop at h; ends_same h
  case jumpIfTrueOrPop t => unfold stepJumpOrPop at h; ends_same h
  case capture => simp only [StepRes.next.injEq] at h; rcases h with ⟨_, h2⟩; subst h2; rfl
  case endCapture => unfold stepEndCapture at h; ends_same h
  case storeLocal n =>
    unfold stepStoreLocal at h
    split at h
    · simp only [StepRes.next.injEq] at h; rcases h with ⟨_, h2⟩; subst h2; rfl
    · rename_i l rest hl
      simp only [StepRes.next.injEq] at h; rcases h with ⟨_, h2⟩; subst h2
      unfold endsOf
      simp only
      rw [forLoops_setTopLoop', hl]
      simp only [List.map_cons, List.cons.injEq, and_true]
      unfold ForLoop.storeLocalName; split <;> rfl
  case storeDidNotIterate => unfold stepStoreDidNotIterate State.push at h; ends_same h
  case break_ => unfold stepBreak at h; ends_same h
  case appendToList => unfold stepAppendToList at h; ends_same h
  case math op => unfold stepMath at h; ends_same h
  case plus => unfold stepPlus at h; ends_same h
  case cmp op => unfold stepCmp at h; ends_same h
  case equal ng => unfold stepEqual at h; ends_same h
  case strConcat =>
    unfold stepStrConcat at h
    split at h
    · simp at h
    · simp at h
    · simp only [StepRes.next.injEq] at h; rcases h with ⟨_, h2⟩; subst h2; rfl
  case in_ => unfold stepIn at h; ends_same h
  case not_ => unfold stepNot at h; ends_same h
  case negative => unfold stepNegative at h; ends_same h
  case loadPath p =>
    cases p with
    | nil => simp [stepLoadPath] at h
    | cons n attrs =>
      rw [stepLoadPath_cons] at h
      obtain ⟨v, rfl, _⟩ := loadTail_next _ _ h
      rfl
  case writePath p =>
    cases p with
    | nil => simp [stepWritePath] at h
    | cons n attrs =>
      rw [stepWritePath_cons] at h
      obtain ⟨v, _, rfl, _⟩ := writeTail_next _ _ h
      unfold endsOf; rw [emitValue_scope]

/-- **The own loops against the REAL `step`.** -/
theorem step_loops (e : VEntry) {l : ALoops} (hl : LoopsOk l st)
    (h : step rec env vm c e pc st = .next pc' st') : LoopsOk (bloops e.1 pc pc' l) st' := by
  by_cases hne : (match e.1 with
      | .startIterate .. | .iterate _ | .popLoop | .renderBlock _ => False
      | .callFunction n => n ≠ "super"
      | _ => True)
  · have hb : bloops e.1 pc pc' l = l := by
      obtain ⟨i, spans⟩ := e
      cases i <;> simp only at hne <;> simp only [bloops] <;> try rfl
      all_goals first
        | exact hne.elim
        | simp [hne]
    rw [hb]
    exact loopsOk_of_ends (step_ends e hne h) hl
  · obtain ⟨i, spans⟩ := e
    cases i <;> simp only [not_true_eq_false, not_false_eq_true] at hne <;> simp only [bloops]
    case startIterate kv co =>
      cases l with
      | none => trivial
      | some own =>
        obtain ⟨ownE, rest, hr, hm⟩ := hl
        unfold step stepStartIterate at h
        simp only at h
        repeat' split at h
        all_goals first
          | (exfalso; simp at h; done)
          | skip
        simp only [StepRes.next.injEq] at h; rcases h with ⟨_, h2⟩; subst h2
        refine ⟨0 :: ownE, rest, ?_, ?_⟩
        · unfold endsOf at hr ⊢
          simp only
          rw [forLoops_pushLoop']
          simp only [List.map_cons, List.cons_append, hr]
          rfl
        · exact ⟨fun x hx => by simp at hx; exact hx, hm⟩
    case iterate t =>
      unfold step stepIterate at h
      simp only at h
      cases l with
      | none => trivial
      | some own =>
        cases own with
        | nil =>
          obtain ⟨ownE, rest, hr, hm⟩ := hl
          cases ownE with
          | nil => exact ⟨[], endsOf st', rfl, trivial⟩
          | cons e es => simp [MatchL] at hm
        | cons x xs =>
          obtain ⟨ownE, rest, hr, hm⟩ := hl
          cases ownE with
          | nil => simp [MatchL] at hm
          | cons e es =>
            simp only [MatchL] at hm
            simp only
            split at h
            · -- no loop at all: contradicts the own loop
              rename_i hnil
              unfold endsOf at hr; rw [hnil] at hr; simp at hr
            · rename_i lp lrest hlp
              split at h
              · -- the loop is over: continue at `t`, nothing changes
                simp only [StepRes.next.injEq] at h; rcases h with ⟨h1, h2⟩; subst h2; subst h1
                split
                · exact ⟨e :: es, rest, hr, ⟨fun _ hx => (nomatch hx), hm.2⟩⟩
                · simp only [↓reduceIte]
                  exact ⟨e :: es, rest, hr, hm⟩
              · rename_i lp' hit
                simp only [StepRes.next.injEq] at h; rcases h with ⟨h1, h2⟩; subst h2; subst h1
                have hends : endsOf { st with scope := st.scope.setTopLoop lp' } = t :: es ++ rest := by
                  unfold endsOf at hr ⊢
                  simp only
                  rw [forLoops_setTopLoop', hlp]
                  rw [hlp] at hr
                  simp only [List.map_cons, List.cons_append, List.cons.injEq] at hr ⊢
                  refine ⟨?_, hr.2⟩
                  unfold ForLoop.iterate at hit
                  split at hit
                  · cases hit
                  · simp only [Option.some.injEq] at hit; subst hit; rfl
                split
                · exact ⟨t :: es, rest, hends, ⟨fun _ hx => (nomatch hx), hm.2⟩⟩
                · rename_i hne1
                  have : ¬ (pc + 1 = t) := fun h => hne1 h.symm
                  simp only [this, ↓reduceIte]
                  exact ⟨t :: es, rest, hends, ⟨fun x hx => by simp at hx; exact hx, hm.2⟩⟩
    case popLoop =>
      unfold step at h
      simp only [StepRes.next.injEq] at h; rcases h with ⟨_, h2⟩; subst h2
      cases l with
      | none => trivial
      | some own =>
        obtain ⟨ownE, rest, hr, hm⟩ := hl
        have he : endsOf { st with scope := st.scope.popLoop } = (endsOf st).tail := by
          unfold endsOf
          simp only
          rw [forLoops_popLoop', List.map_tail]
        show ∃ oE r, endsOf { st with scope := st.scope.popLoop } = oE ++ r ∧ MatchL own.tail oE
        rw [he, hr]
        cases own with
        | nil =>
          cases ownE with
          | nil => exact ⟨[], rest.tail, rfl, trivial⟩
          | cons e es => simp [MatchL] at hm
        | cons x xs =>
          cases ownE with
          | nil => simp [MatchL] at hm
          | cons e es => exact ⟨es, rest, rfl, hm.2⟩
    case renderBlock n => trivial
    case callFunction n =>
      have : n = "super" := by simpa using hne
      simp only [this, ↓reduceIte]
      trivial
    all_goals exact absurd trivial hne

/-- where a `Break` continues when the chunk has a loop of its own whose `end_ip` is known -/
theorem break_target {x : Nat} {xs : List (Option Nat)} (spans : List Span)
    (hl : LoopsOk (some (some x :: xs)) st)
    (h : step rec env vm c (.break_, spans) pc st = .next pc' st') : pc' = x := by
  obtain ⟨ownE, rest, hr, hm⟩ := hl
  cases ownE with
  | nil => simp [MatchL] at hm
  | cons e es =>
    simp only [MatchL] at hm
    unfold step stepBreak at h
    simp only at h
    split at h
    · rename_i hnil
      unfold endsOf at hr; rw [hnil] at hr; simp at hr
    · rename_i lp lrest hlp
      simp only [StepRes.next.injEq] at h
      unfold endsOf at hr; rw [hlp] at hr
      simp only [List.map_cons, List.cons_append, List.cons.injEq] at hr
      rw [← h.1, hr.1, hm.1 x rfl]

theorem bsuccs_not_break {i : VInstr} (h : i ≠ .break_) (pc len : Nat) (l : ALoops) :
    bsuccs i pc len l = bsuccs i pc len none := by
  cases i <;> first | rfl | exact absurd rfl h

/-! ### tables -/

/-- the table accounts for the configuration `(pc, st)` -/
def CovF (c : Chunk) (table : FTable) (pc : Nat) (st : State) : Prop :=
  c.code.length ≤ pc ∨ ∃ t, table[pc]? = some (some t) ∧ FlagsOk t.flags st.stack ∧ LoopsOk t.loops st

theorem covF_of_covered {table : FTable} {p : Nat} {g : AState} (h : coveredF table c.code.length p g = true)
    (hg : FlagsOk g.flags st.stack) (hl : LoopsOk g.loops st) : CovF c table p st := by
  simp only [coveredF, Bool.or_eq_true, decide_eq_true_eq] at h
  rcases h with h | h
  · exact Or.inl h
  · right
    split at h
    · rename_i t ht
      simp only [AState.le, Bool.and_eq_true] at h
      refine ⟨t, ht, fle_sound h.1 hg, ?_⟩
      have h2 := h.2
      cases htl : t.loops with
      | none => trivial
      | some tl =>
        rw [htl] at h2
        cases hgl : g.loops with
        | none => rw [hgl] at h2; simp at h2
        | some al =>
          rw [hgl] at h2 hl
          simp only at h2
          obtain ⟨ownE, rest, hr, hm⟩ := hl
          exact ⟨ownE, rest, hr, lle_sound h2 hm⟩
    · cases h

theorem covF_entry {table : FTable} (hv : verifyF c.code table = true) (st : State) :
    CovF c table 0 st := by
  simp only [verifyF, Bool.and_eq_true] at hv
  exact covF_of_covered hv.1 (flagsOk_nil _) ⟨[], endsOf st, rfl, trivial⟩

/-- the invariant keeps `bodyGuard` silent -/
theorem covF_guard {table : FTable} (hv : verifyF c.code table = true) {e : VEntry}
    (hcode : c.code[pc]? = some e) (hcov : CovF c table pc st) : bodyGuard e.1 st = false := by
  have hlt : pc < c.code.length := (List.getElem?_eq_some_iff.mp hcode).1
  rcases hcov with hge | ⟨t, ht, hf, _⟩
  · omega
  · simp only [verifyF, Bool.and_eq_true, List.all_eq_true, List.mem_range] at hv
    have hat := hv.2 pc hlt
    simp only [verifyAtF, ht, hcode, Bool.and_eq_true, List.all_eq_true] at hat
    exact guard_of_flags e.1 hf hat.1

/-- the invariant is kept by every turn of the REAL `step` -/
theorem covF_step {table : FTable} (hv : verifyF c.code table = true) {e : VEntry}
    (hcode : c.code[pc]? = some e) (hcov : CovF c table pc st)
    (hs : step rec env vm c e pc st = .next pc' st') : CovF c table pc' st' := by
  have hlt : pc < c.code.length := (List.getElem?_eq_some_iff.mp hcode).1
  rcases hcov with hge | ⟨t, ht, hf, hl⟩
  · omega
  · simp only [verifyF, Bool.and_eq_true, List.all_eq_true, List.mem_range] at hv
    have hat := hv.2 pc hlt
    simp only [verifyAtF, ht, hcode, Bool.and_eq_true, List.all_eq_true] at hat
    obtain ⟨hfl, hsucc⟩ := step_flags e c.code.length hf hs
    have hlo := step_loops e hl hs
    have hmem : pc' ∈ bsuccs e.1 pc c.code.length t.loops ∨ c.code.length ≤ pc' := by
      by_cases hb : e.1 = .break_
      · obtain ⟨i, spans⟩ := e
        simp only at hb; subst hb
        cases htl : t.loops with
        | none => rw [htl] at hl; exact hsucc
        | some own =>
          cases own with
          | nil => exact hsucc
          | cons x xs =>
            cases x with
            | none => exact hsucc
            | some x =>
              rw [htl] at hl
              have := break_target spans hl hs
              left; simp [bsuccs, this]
      · rw [bsuccs_not_break hb]; exact hsucc
    rcases hmem with hm | hge
    · exact covF_of_covered (hat.2 pc' hm) hfl hlo
    · exact Or.inl hge

/-- what `bodyCheck` establishes of a chunk -/
theorem bodyCheck_cases (h : bodyCheck c = true) :
    (∀ e ∈ c.code, isBodyComp e.1 = false) ∨ verifyF c.code (inferF c.code) = true := by
  simp only [bodyCheck, Bool.or_eq_true, Bool.not_eq_eq_eq_not, Bool.not_true] at h
  rcases h with h | h
  · left
    intro e he
    cases hb : isBodyComp e.1 with
    | false => rfl
    | true =>
      have : c.code.any (fun e => isBodyComp e.1) = true := List.any_eq_true.2 ⟨e, he, hb⟩
      rw [this] at h; cases h
  · exact Or.inr h

theorem bodyGuard_of_not_bodyComp {i : VInstr} (h : isBodyComp i = false) (st : State) :
    bodyGuard i st = false := by
  cases i <;> try rfl
  rename_i n b
  cases b
  · rfl
  · simp [isBodyComp] at h

/-- the loop invariant of a checked chunk -/
def CheckedInv (c : Chunk) (pc : Nat) (st : State) : Prop :=
  (∀ e ∈ c.code, isBodyComp e.1 = false) ∨
    (verifyF c.code (inferF c.code) = true ∧ CovF c (inferF c.code) pc st)

theorem checkedInv_entry (h : bodyCheck c = true) (st : State) : CheckedInv c 0 st := by
  rcases bodyCheck_cases h with h | h
  · exact Or.inl h
  · exact Or.inr ⟨h, covF_entry h st⟩

theorem checkedInv_step {e : VEntry} (hcode : c.code[pc]? = some e) (hJ : CheckedInv c pc st)
    (hs : step rec env vm c e pc st = .next pc' st') : CheckedInv c pc' st' := by
  rcases hJ with h | ⟨hv, hc⟩
  · exact Or.inl h
  · exact Or.inr ⟨hv, covF_step hv hcode hc hs⟩

theorem checkedInv_guard {e : VEntry} (hcode : c.code[pc]? = some e) (hJ : CheckedInv c pc st) :
    bodyGuard e.1 st = false := by
  rcases hJ with h | ⟨hv, hc⟩
  · exact bodyGuard_of_not_bodyComp (h e (List.mem_of_getElem? hcode)) st
  · exact covF_guard hv hcode hc

/-- **Checked chunks need no guard**: when every chunk that runs passed `bodyCheck`, the flags
table is a loop invariant under which `bodyGuard` never fires. -/
def LoopInv.checked {K : Policy} (env : Env) (hK : ∀ c, K.chunk c → bodyCheck c = true) :
    LoopInv K noGuard env :=
  { J := CheckedInv,
    entry := fun c st hc => checkedInv_entry (hK c hc) st,
    step := fun _ _ _ _ _ _ _ _ _ hJ hcode hs => checkedInv_step hcode hJ hs,
    guard := fun _ _ _ _ _ hJ hcode _ => Or.inl (checkedInv_guard hcode hJ) }

end Tera.Vm
