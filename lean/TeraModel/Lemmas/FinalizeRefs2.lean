/-
Template summaries with explicit call tables (`TplR`, Model/FinalizeRefs.lean): lookups through the
translation to the summaries `finalize_templates` works on.
-/
import TeraModel.Lemmas.FinalizeRefs
namespace Tera.Reg

/-- the set `finalize_templates` sees -/
def setOf (reg : Registered) (S : List TplR) : List Tpl := S.map (TplR.toTpl reg)

/-- lookup by name in a list of summaries with call tables -/
def getR (S : List TplR) (k : String) : Option TplR := S.find? (fun t => t.base.name == k)

theorem toTpl_name (reg : Registered) (t : TplR) : (t.toTpl reg).name = t.base.name := rfl

theorem get_setOf (reg : Registered) (S : List TplR) (k : String) :
    get (setOf reg S) k = (getR S k).map (TplR.toTpl reg) := by
  unfold setOf get getR
  induction S with
  | nil => rfl
  | cons t S ih =>
    by_cases h : t.base.name = k
    · have : (t.base.name == k) = true := by simpa using h
      simp [List.find?, toTpl_name, this]
    · have : (t.base.name == k) = false := by simpa using h
      simp only [List.map, List.find?, toTpl_name, this]
      exact ih

theorem getR_name {S : List TplR} {k : String} {t : TplR} (h : getR S k = some t) : t.base.name = k := by
  unfold getR at h
  have := List.find?_some h
  simpa using this

/-- no unknown filter / test / function: every name of the three tables is registered
(`super` is the one function name that needs no registration) -/
theorem unknownBuiltin_false_iff (reg : Registered) (t : TplR) :
    unknownBuiltin reg t = false ↔
      (∀ n ∈ t.filterCalls, n ∈ reg.filters) ∧ (∀ n ∈ t.testCalls, n ∈ reg.tests) ∧
        ∀ n ∈ t.functionCalls, n = "super" ∨ n ∈ reg.functions := by
  unfold unknownBuiltin
  simp only [Bool.or_eq_false_iff, List.any_eq_false]
  constructor
  · rintro ⟨⟨h1, h2⟩, h3⟩
    refine ⟨fun n hn => ?_, fun n hn => ?_, fun n hn => ?_⟩
    · have := h1 n hn; simpa using this
    · have := h2 n hn; simpa using this
    · have := h3 n hn
      by_cases hs : n = "super"
      · exact .inl hs
      · right
        simp only [Bool.and_eq_true, bne_iff_ne, ne_eq, hs, not_false_eq_true, true_and,
          Bool.not_eq_true', List.contains_eq_mem, decide_eq_false_iff_not, not_not] at this
        exact this
  · rintro ⟨h1, h2, h3⟩
    refine ⟨⟨fun n hn => ?_, fun n hn => ?_⟩, fun n hn => ?_⟩
    · simp [h1 n hn]
    · simp [h2 n hn]
    · rcases h3 n hn with h | h
      · simp [h]
      · simp [h]

end Tera.Reg
