/-
T1, last step: the abstract machine on typed instructions (`Reach`, `Panics`: the definitions of
Props/C07.lean with `Compiler.cop` for `WellFormed.opOf`), soundness of a table that passes the local
check everywhere (`table_sound`, the analogue of `C07.verify_sound` for a start on arbitrary
stacks), and: every chunk of a compiled template is `nodesCode 0 none ns` for a scoped `ns`.
-/
import TeraModel.Lemmas.CompilerWFMain
import TeraModel.Lemmas.CompilerEvents
namespace Tera.C07Compile
open Tera Tera.Compiler Tera.WellFormed

/-! ## The abstract machine on typed instructions -/

/-- Configurations the abstract machine reaches when chunk `c` is started on the stacks `base`
(`St.empty` for a main / component chunk; a block chunk runs on its caller's stacks); every choice
at a conditional jump or loop test is possible.  `cop` is `WellFormed.opOf` on the typed
instruction. -/
inductive Reach (c : Code) (base : St) : Nat → St → Prop where
  | start : Reach c base 0 base
  | next {pc : Nat} {s : St} {e : CEntry} {succs : List (Nat × St)} {pc' : Nat} {s' : St} :
      Reach c base pc s → c[pc]? = some e → step (cop e.1) pc s = some succs →
      (pc', s') ∈ succs → Reach c base pc' s'

/-- the instruction at `pc` would hit one of the VM's panic sites in state `s` -/
def Panics (c : Code) (pc : Nat) (s : St) : Prop :=
  ∃ e, c[pc]? = some e ∧ step (cop e.1) pc s = none

theorem seg_self {α : Type} (l : List α) : Seg l 0 l := by
  intro i _; simp

theorem seg_prefix {α : Type} (l m : List α) : Seg (l ++ m) 0 l := by
  intro i hi; simp [List.getElem?_append_left hi]

/-- A chunk with a table that passes the local check everywhere: the conclusion of
`C07.verify_sound`, for a start on arbitrary stacks `a`. -/
theorem table_sound (c : Code) (tab : List St) (a : St) (hlen : tab.length = c.length)
    (h0 : (tab ++ [a])[0]? = some a) (hok : OKr c (tab ++ [a]) 0 c.length) :
    (∀ pc s, Reach c a pc s → ¬ Panics c pc s) ∧
    (∀ pc s, Reach c a pc s → pc ≤ c.length) ∧
    (∀ pc s, Reach c a pc s → c.length ≤ pc → s.le a = true) := by
  have hcov : ∀ pc s, Reach c a pc s → Cov (tab ++ [a]) (pc, s) := by
    intro pc s hr
    induction hr with
    | start => exact ⟨a, h0, St.le_refl a⟩
    | @next pc s e succs pc' s' _ he hstep hmem ih =>
      obtain ⟨b, hb, hle⟩ := ih
      have hlt : pc < c.length := (List.getElem?_eq_some_iff.mp he).1
      have hl := hok pc hlt
      rw [Nat.zero_add] at hl
      obtain ⟨succsB, hsb, hall⟩ := hl e b he hb
      obtain ⟨succsS, hs1, hs2⟩ := step_mono _ pc s b hle succsB hsb
      rw [hstep] at hs1; cases hs1
      obtain ⟨y, hy, hy1, hy2⟩ := hs2.mem (pc', s') hmem
      obtain ⟨b', hb', hle'⟩ := hall y hy
      simp only at hy1 hy2
      exact ⟨b', by rw [hy1]; exact hb', St.le_trans _ _ _ hy2 hle'⟩
  refine ⟨?_, ?_, ?_⟩
  · intro pc s hr ⟨e, he, hnone⟩
    obtain ⟨b, hb, hle⟩ := hcov pc s hr
    have hlt : pc < c.length := (List.getElem?_eq_some_iff.mp he).1
    have hl := hok pc hlt
    rw [Nat.zero_add] at hl
    obtain ⟨succsB, hsb, _⟩ := hl e b he hb
    obtain ⟨succsS, hs1, _⟩ := step_mono _ pc s b hle succsB hsb
    rw [hnone] at hs1; cases hs1
  · intro pc s hr
    obtain ⟨b, hb, _⟩ := hcov pc s hr
    have := (List.getElem?_eq_some_iff.mp hb).1
    simp at this; omega
  · intro pc s hr hge
    obtain ⟨b, hb, hle⟩ := hcov pc s hr
    have hlt := (List.getElem?_eq_some_iff.mp hb).1
    simp at hlt
    have hpc : pc = tab.length := by omega
    subst hpc
    simp at hb
    subst hb; exact hle

/-- every chunk the template compiles to, as a compiled node list -/
theorem chunks_are_scoped_nodes (t : Template) (hs : templateScoped t = true) (c : Compiled)
    (hc : compileTemplate t = .ok c) :
    ∀ ch ∈ c.chunks, ∃ ns, ch = nodesCode 0 none ns ∧ nodesScoped false ns = true := by
  unfold compileTemplate at hc
  split at hc
  · cases hc
  · cases hc
    simp only [templateScoped, Bool.and_eq_true, List.all_eq_true] at hs
    obtain ⟨hmain, hcomps⟩ := hs
    intro ch hch
    simp only [Compiled.chunks, List.mem_cons, List.mem_append, List.mem_map] at hch
    rcases hch with rfl | ⟨⟨n, code⟩, hmem, rfl⟩ | ⟨_, ⟨cd, hmem, rfl⟩, rfl⟩
    · exact ⟨t.nodes, rfl, hmain⟩
    · have hgood := scoped_good_aux.2.1 false 0 t.nodes false hmain (fun h => h)
      simp only [blockDefs, bodyEvents, List.mem_filterMap] at hmem
      obtain ⟨ev, hev, hsome⟩ := hmem
      have := hgood ev hev
      cases ev <;> simp at hsome
      obtain ⟨rfl, rfl⟩ := hsome
      exact this
    · exact ⟨cd.body, rfl, (hcomps cd hmem).1⟩

end Tera.C07Compile
