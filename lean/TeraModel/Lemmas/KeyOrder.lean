/-
Laws of `Key`'s hand-written `Eq` / `Ord` / `Hash` (Model/KeyModel.lean) over all seven
representations, and of the string and byte comparisons.
-/
import TeraModel.Lemmas.OrdLaws
set_option linter.unusedVariables false
namespace Tera

/-! ### the two generated rank tables have the shape the proofs need -/

/-- What the proofs use about key.rs `type_order`: the four integer variants share a rank, the two
string variants share a rank, and bool / integer / string ranks are pairwise different. -/
def KeyRankOK : Prop :=
  Gen.keyRankU64 = Gen.keyRankI64 ∧ Gen.keyRankU64 = Gen.keyRankU128 ∧ Gen.keyRankU64 = Gen.keyRankI128 ∧
  Gen.keyRankString = Gen.keyRankStr ∧
  Gen.keyRankBool ≠ Gen.keyRankU64 ∧ Gen.keyRankBool ≠ Gen.keyRankString ∧ Gen.keyRankU64 ≠ Gen.keyRankString

/-- Checked against the table extracted from the source on every run. -/
theorem keyRankOK : KeyRankOK := by unfold KeyRankOK; decide

/-- The constants the model uses are the entries of the extracted table. -/
theorem keyRank_table :
    Gen.keyTypeOrder = [("Bool", Gen.keyRankBool), ("U64", Gen.keyRankU64), ("I64", Gen.keyRankI64),
      ("U128", Gen.keyRankU128), ("I128", Gen.keyRankI128), ("String", Gen.keyRankString),
      ("Str", Gen.keyRankStr)] := by decide

/-! ### strings and bytes -/

theorem cmpStr_laws : OrdLaws (fun _ : List Char => True) cmpStr := by
  have h := lexCmp_laws (cmpNat_laws.comap Char.toNat)
  exact h.mono (fun _ _ _ _ => trivial)

theorem cmpBytes_laws : OrdLaws (fun _ : List Nat => True) (lexCmp cmpNat) :=
  (lexCmp_laws cmpNat_laws).mono (fun _ _ _ _ => trivial)

theorem forall₂_eq_iff {α : Type} (a b : List α) : List.Forall₂ (fun x y => x = y) a b ↔ a = b := by
  induction a generalizing b with
  | nil =>
    cases b with
    | nil => simp
    | cons y ys => simp only [reduceCtorEq, iff_false]; intro h; cases h
  | cons x xs ih =>
    cases b with
    | nil => simp only [reduceCtorEq, iff_false]; intro h; cases h
    | cons y ys => simp [ih]

theorem cmpStr_eq {a b : List Char} : cmpStr a b = .eq ↔ a = b := by
  unfold cmpStr
  rw [lexCmp_eq_iff]
  have : (fun x y : Char => cmpNat x.toNat y.toNat = .eq) = (fun x y => x = y) := by
    funext x y; simp only [cmpNat_eq, eq_iff_iff]
    constructor
    · intro h; exact Char.toNat_inj.1 h
    · intro h; rw [h]
  rw [this, forall₂_eq_iff]

theorem cmpBytes_eq {a b : List Nat} : lexCmp cmpNat a b = .eq ↔ a = b := by
  rw [lexCmp_eq_iff]
  have : (fun x y : Nat => cmpNat x y = .eq) = (fun x y => x = y) := by
    funext x y; simp [cmpNat_eq]
  rw [this, forall₂_eq_iff]

/-! ### KeyNumber: everything is a function of the integer denoted -/

theorem KeyNumber.cmp_val (l r : KeyNumber) : KeyNumber.cmp l r = cmpInt l.val r.val := by
  cases l with
  | signed a =>
    cases r with
    | signed b => rfl
    | unsigned b =>
      simp only [KeyNumber.cmp, KeyNumber.val]
      split
      · symm; apply cmpInt_lt'.2; omega
      · rename_i h
        rcases Nat.lt_trichotomy a.toNat b with c | c | c
        · rw [cmpNat_lt.2 c]; symm; apply cmpInt_lt'.2; omega
        · rw [cmpNat_eq.2 c]; symm; apply cmpInt_eq'.2; omega
        · rw [cmpNat_gt.2 c]; symm; apply cmpInt_gt'.2; omega
  | unsigned a =>
    cases r with
    | signed b =>
      simp only [KeyNumber.cmp, KeyNumber.val]
      split
      · symm; apply cmpInt_gt'.2; omega
      · rename_i h
        rcases Nat.lt_trichotomy a b.toNat with c | c | c
        · rw [cmpNat_lt.2 c]; symm; apply cmpInt_lt'.2; omega
        · rw [cmpNat_eq.2 c]; symm; apply cmpInt_eq'.2; omega
        · rw [cmpNat_gt.2 c]; symm; apply cmpInt_gt'.2; omega
    | unsigned b =>
      simp only [KeyNumber.cmp, KeyNumber.val]
      rcases Nat.lt_trichotomy a b with c | c | c
      · rw [cmpNat_lt.2 c]; symm; apply cmpInt_lt'.2; omega
      · rw [cmpNat_eq.2 c]; symm; apply cmpInt_eq'.2; omega
      · rw [cmpNat_gt.2 c]; symm; apply cmpInt_gt'.2; omega

theorem KeyNumber.eq_val (l r : KeyNumber) : KeyNumber.eq l r = true ↔ l.val = r.val := by
  cases l <;> cases r <;> simp only [KeyNumber.eq, KeyNumber.val]
  · simp
  · split <;> simp <;> omega
  · split <;> simp <;> omega
  · simp

theorem KeyNumber.hash_val (l r : KeyNumber) (h : l.val = r.val) : l.hashInput = r.hashInput := by
  cases l <;> cases r <;> simp only [KeyNumber.val] at h
  · subst h; rfl
  · rename_i a b
    subst h
    simp [KeyNumber.hashInput]
  · rename_i a b
    subst h
    simp [KeyNumber.hashInput]
  · have : _ := Int.ofNat.inj h
    subst this; rfl

/-! ### Key -/

/-- The kind of a key representation: 0 bool, 1 integer, 2 string. -/
def KeyRepr.cls : KeyRepr → Nat
  | .bool _ => 0
  | .u64 _ | .i64 _ | .u128 _ | .i128 _ => 1
  | .string _ | .str _ => 2

/-- `cmp` is `Equal` exactly when `==` holds: all 49 pairs of representations. -/
theorem KeyRepr.cmp_eq_iff (a b : KeyRepr) : KeyRepr.cmp a b = .eq ↔ KeyRepr.eq a b = true := by
  obtain ⟨r1, r2, r3, r4, r5, r6, r7⟩ := keyRankOK
  cases a <;> cases b <;>
    simp only [KeyRepr.cmp, KeyRepr.eq, KeyRepr.asStr, KeyRepr.asNumber, KeyRepr.typeOrder,
      KeyNumber.cmp_val, cmpInt_eq', cmpStr_eq, cmpBool_eq, cmpNat_eq, beq_iff_eq,
      KeyNumber.eq_val, KeyNumber.val] <;>
    first
      | rfl
      | (simp; done)
      | (constructor <;> intro h <;> first | exact absurd h (by omega) | exact absurd h (by simp))

/-- `k1 == k2 → hash(k1) == hash(k2)`: equal keys feed the hasher the same bytes. -/
theorem KeyRepr.hash_of_eq (a b : KeyRepr) (h : KeyRepr.eq a b = true) :
    a.hashInput = b.hashInput := by
  cases a <;> cases b <;>
    simp only [KeyRepr.eq, KeyRepr.asStr, KeyRepr.asNumber, beq_iff_eq, KeyNumber.eq_val,
      Bool.false_eq_true] at h <;>
    first
      | (subst h; rfl)
      | exact KeyNumber.hash_val _ _ h

theorem KeyRepr.cmp_laws : OrdLaws (fun _ : KeyRepr => True) KeyRepr.cmp := by
  obtain ⟨r1, r2, r3, r4, r5, r6, r7⟩ := keyRankOK
  -- the three kinds, ordered by the generated rank
  apply rank_laws (D := fun _ => True) KeyRepr.typeOrder
  · intro a b _ _ hr
    cases a <;> cases b <;>
      simp only [KeyRepr.typeOrder, ne_eq, not_true_eq_false] at hr <;>
      first
        | rfl
        | (exfalso; omega)
  · intro r
    -- within one rank both operands are of the same kind
    have boolL : OrdLaws (fun _ : KeyRepr => True)
        (fun a b => cmpBool (match a with | .bool x => x | _ => false) (match b with | .bool x => x | _ => false)) :=
      cmpBool_laws.comap _
    have numL : OrdLaws (fun _ : KeyRepr => True)
        (fun a b => cmpInt (match a.asNumber with | some n => n.val | none => 0)
          (match b.asNumber with | some n => n.val | none => 0)) := cmpInt_laws.comap _
    have strL : OrdLaws (fun _ : KeyRepr => True)
        (fun a b => cmpStr (a.asStr.getD []) (b.asStr.getD [])) := cmpStr_laws.comap _
    by_cases h0 : r = Gen.keyRankBool
    · refine (boolL.mono (D' := fun a => True ∧ a.typeOrder = r) (fun _ _ => trivial)).of_eq ?_
      intro a b ⟨_, ha⟩ ⟨_, hb⟩
      cases a <;> cases b <;> simp only [KeyRepr.typeOrder] at ha hb <;>
        first
          | rfl
          | (exfalso; omega)
    · by_cases h1 : r = Gen.keyRankU64
      · refine (numL.mono (D' := fun a => True ∧ a.typeOrder = r) (fun _ _ => trivial)).of_eq ?_
        intro a b ⟨_, ha⟩ ⟨_, hb⟩
        cases a <;> cases b <;> simp only [KeyRepr.typeOrder] at ha hb <;>
          first
            | (simp only [KeyRepr.cmp, KeyRepr.asStr, KeyRepr.asNumber, KeyNumber.cmp_val]; done)
            | (exfalso; omega)
      · refine (strL.mono (D' := fun a => True ∧ a.typeOrder = r) (fun _ _ => trivial)).of_eq ?_
        intro a b ⟨_, ha⟩ ⟨_, hb⟩
        cases a <;> cases b <;> simp only [KeyRepr.typeOrder] at ha hb <;>
          first
            | (simp only [KeyRepr.cmp, KeyRepr.asStr, Option.getD]; done)
            | (exfalso; omega)

/-- `==` on keys is an equivalence relation (derived from the order laws and `cmp_eq_iff`). -/
theorem KeyRepr.eq_refl (a : KeyRepr) : KeyRepr.eq a a = true :=
  (KeyRepr.cmp_eq_iff a a).1 (KeyRepr.cmp_laws.refl trivial)

theorem KeyRepr.eq_symm {a b : KeyRepr} (h : KeyRepr.eq a b = true) : KeyRepr.eq b a = true :=
  (KeyRepr.cmp_eq_iff b a).1 (KeyRepr.cmp_laws.eq_symm trivial trivial ((KeyRepr.cmp_eq_iff a b).2 h))

theorem KeyRepr.eq_trans {a b c : KeyRepr} (h1 : KeyRepr.eq a b = true) (h2 : KeyRepr.eq b c = true) :
    KeyRepr.eq a c = true :=
  (KeyRepr.cmp_eq_iff a c).1 (KeyRepr.cmp_laws.eq_trans trivial trivial trivial
    ((KeyRepr.cmp_eq_iff a b).2 h1) ((KeyRepr.cmp_eq_iff b c).2 h2))

theorem Key.cmp_laws : OrdLaws (fun _ : Key => True) Key.cmpK := KeyRepr.cmp_laws.comap Key.toRepr

theorem Key.cmp_eq_iff (a b : Key) : Key.cmpK a b = .eq ↔ Key.eq a b = true :=
  KeyRepr.cmp_eq_iff _ _

end Tera
