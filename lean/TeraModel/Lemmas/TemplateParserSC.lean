/-
The expression parser only builds SELF-CLOSING component calls, at any depth inside an expression
(`exprSC`), and every accepted template is `nodesSC`: each embedded expression is `exprSC`, and a
component call with a body occurs only as the whole expression of a `{% <name ..> %}` node.
Requested by the pipeline proofs (Props/Pipeline.lean): together with
`Node.blockNamesList d.body = []` (`parse_post`) it gives "no block event in a component body".
-/
import TeraModel.Lemmas.ExprCounted
import TeraModel.Lemmas.TemplateParserCounted
namespace Tera.TParser
open Tera

mutual
def exprSC : Expr → Bool
  | .const _ => true
  | .map entries => mapItemsSC entries
  | .array items => arrayItemsSC items
  | .var _ => true
  | .getAttr e _ _ => exprSC e
  | .getItem e s _ => exprSC e && exprSC s
  | .slice e start stop step _ => exprSC e && optExprSC start && optExprSC stop && optExprSC step
  | .filter e _ kwargs => exprSC e && kwargsSC kwargs
  | .test e _ kwargs => exprSC e && kwargsSC kwargs
  | .ternary c t f => exprSC c && exprSC t && exprSC f
  | .listComprehension e _ _ target cond => exprSC target && optExprSC cond && exprSC e
  | .componentCall _ kwargs _ selfClosing => selfClosing && mapItemsSC kwargs
  | .functionCall _ kwargs => kwargsSC kwargs
  | .unary _ e => exprSC e
  | .binary _ l r => exprSC l && exprSC r
def optExprSC : Option Expr → Bool
  | some e => exprSC e
  | none => true
def kwargsSC : List (String × Expr) → Bool
  | [] => true
  | (_, v) :: rest => exprSC v && kwargsSC rest
def arrayItemsSC : List ArrayEntry → Bool
  | [] => true
  | .item e :: rest => exprSC e && arrayItemsSC rest
  | .spread e :: rest => exprSC e && arrayItemsSC rest
def mapItemsSC : List MapEntry → Bool
  | [] => true
  | .keyValue _ v :: rest => exprSC v && mapItemsSC rest
  | .spread e :: rest => exprSC e && mapItemsSC rest
end

def exprListSC : List Expr → Bool
  | [] => true
  | e :: rest => exprSC e && exprListSC rest

mutual
def nodeSC : Node → Bool
  | .content _ => true
  | .expression (.componentCall _ kw body false) => mapItemsSC kw && nodesSC body
  | .expression e => exprSC e
  | .set _ v _ => exprSC v
  | .blockSet _ fs body _ => exprListSC fs && nodesSC body
  | .include _ => true
  | .block _ body => nodesSC body
  | .forLoop _ _ t body els => exprSC t && nodesSC body && nodesSC els
  | .break => true
  | .continue => true
  | .if c b e => exprSC c && nodesSC b && nodesSC e
  | .filterSection _ kw body => kwargsSC kw && nodesSC body
def nodesSC : List Node → Bool
  | [] => true
  | n :: rest => nodeSC n && nodesSC rest
end

end Tera.TParser

namespace Tera.Parser
open Tera Tera.TParser

theorem kwargsSC_insert (name : String) (e : Expr) (kw : List (String × Expr))
    (he : exprSC e = true) (hk : kwargsSC kw = true) :
    kwargsSC (Expr.insertKwarg name e kw) = true := by
  induction kw with
  | nil => simp [Expr.insertKwarg, kwargsSC, he]
  | cons p rest ih =>
    obtain ⟨n, x⟩ := p
    simp only [kwargsSC, Bool.and_eq_true] at hk
    unfold Expr.insertKwarg
    split
    · simp [kwargsSC, he, hk.1, hk.2]
    · split
      · simp [kwargsSC, he, hk.2]
      · simp [kwargsSC, hk.1, ih hk.2]

theorem arrayItemsSC_append (a b : List ArrayEntry) :
    arrayItemsSC (a ++ b) = (arrayItemsSC a && arrayItemsSC b) := by
  induction a with
  | nil => simp [arrayItemsSC]
  | cons x xs ih => cases x <;> simp [arrayItemsSC, ih, Bool.and_assoc]

theorem mapItemsSC_append (a b : List MapEntry) :
    mapItemsSC (a ++ b) = (mapItemsSC a && mapItemsSC b) := by
  induction a with
  | nil => simp [mapItemsSC]
  | cons x xs ih => cases x <;> simp [mapItemsSC, ih, Bool.and_assoc]

/-- closes the leaves -/
macro "scxleaf" : tactic => `(tactic|
  (simp_all [exprSC, optExprSC, kwargsSC, arrayItemsSC, mapItemsSC,
     arrayItemsSC_append, mapItemsSC_append]))

section
variable {rec : Nat → P Expr} (C : Cfg)
variable (hrec : ∀ m, PW (rec m) (fun e => exprSC e = true))
include hrec

theorem SCX.kwargsLoop : ∀ n acc, kwargsSC acc = true →
    PW (kwargsLoop rec n acc) (fun kw => kwargsSC kw = true) := by
  intro n
  induction n with
  | zero => intro _ _; exact PW.fuel
  | succ n ih =>
    intro acc hacc
    unfold Parser.kwargsLoop
    cdtac
    all_goals
      rename_i nm _ v hv
      exact kwargsSC_insert nm v acc hv hacc

theorem SCX.parseKwargs : PW (parseKwargs rec) (fun kw => kwargsSC kw = true) := by
  have h := SCX.kwargsLoop hrec
  unfold Parser.parseKwargs
  cdtac
  all_goals scxleaf

theorem SCX.parseNameArgs : PW (parseNameArgs rec) (fun r => kwargsSC r.2 = true) := by
  have h := SCX.parseKwargs hrec
  unfold Parser.parseNameArgs
  cdtac
  all_goals scxleaf

theorem SCX.parseFilter (e : Expr) (he : exprSC e = true) :
    PW (parseFilter rec e) (fun r => exprSC r = true) := by
  have h := SCX.parseNameArgs hrec
  unfold Parser.parseFilter
  cdtac
  all_goals scxleaf

theorem SCX.parseTest (e : Expr) (he : exprSC e = true) :
    PW (parseTest rec e) (fun r => exprSC r = true) := by
  have h := SCX.parseNameArgs hrec
  unfold Parser.parseTest
  cdtac
  all_goals scxleaf

theorem SCX.subscriptStart : PW (subscriptStart rec) (fun r => optExprSC r = true) := by
  unfold Parser.subscriptStart
  cdtac
  all_goals scxleaf

theorem SCX.subscriptSlice :
    PW (subscriptSlice rec) (fun r => match r with
      | (_, stop, step) => optExprSC stop = true ∧ optExprSC step = true) := by
  have hstop : PW (do
      if !(← headIs .colon) && !(← headIs .rightBracket) then do
        let x ← rec 0
        pure (some x)
      else pure none : P (Option Expr)) (fun r => optExprSC r = true) := by
    cdtac
    all_goals scxleaf
  have hstep : PW (do
      if (← headIs .colon) then do
        expect .colon
        let x ← rec 0
        pure (some x)
      else pure none : P (Option Expr)) (fun r => optExprSC r = true) := by
    cdtac
    all_goals scxleaf
  unfold Parser.subscriptSlice
  cdtac
  all_goals scxleaf

theorem SCX.parseSubscript (e : Expr) (he : exprSC e = true) :
    PW (parseSubscript C rec e) (fun r => exprSC r = true) := by
  have h1 := SCX.subscriptStart hrec
  have h2 := SCX.subscriptSlice hrec
  have hout : ∀ (slice : Bool) start stop step o, optExprSC start = true →
      optExprSC stop = true → optExprSC step = true →
      PW (if slice then Pure.pure (.slice e start stop step o)
      else match start with
        | some s => Pure.pure (.getItem e s o)
        | none => P.panic "parser.rs:277 expect(to have an expr)" : P Expr)
        (fun r => exprSC r = true) := by
    intros
    cdtac
    all_goals scxleaf
  unfold Parser.parseSubscript
  cdtac
  all_goals scxleaf

theorem SCX.identChain (ident : String) : ∀ n e, exprSC e = true →
    PW (identChain C rec ident n e) (fun r => exprSC r = true) := by
  have hs := SCX.parseSubscript C hrec
  intro n
  induction n with
  | zero => intro e _; exact PW.fuel
  | succ n ih =>
    intro e he
    unfold Parser.identChain
    cdtac
    all_goals scxleaf

theorem SCX.parseIdent (ident : String) : PW (parseIdent C rec ident) (fun r => exprSC r = true) := by
  have hc := SCX.identChain C hrec ident
  have hk := SCX.parseKwargs hrec
  unfold Parser.parseIdent
  cdtac
  all_goals scxleaf

theorem SCX.mapLoop : ∀ n acc lit, mapItemsSC acc = true →
    PW (mapLoop rec n acc lit) (fun r => mapItemsSC r.1 = true) := by
  intro n
  induction n with
  | zero => intro _ _ _; exact PW.fuel
  | succ n ih =>
    intro acc lit hacc
    unfold Parser.mapLoop
    cdtac
    all_goals scxleaf

theorem SCX.parseMap : PW (parseMap rec) (fun r => exprSC r = true) := by
  have h := SCX.mapLoop hrec
  unfold Parser.parseMap
  cdtac
  all_goals scxleaf

theorem SCX.parseListComprehension (e : Expr) (he : exprSC e = true) :
    PW (parseListComprehension C rec e) (fun r => exprSC r = true) := by
  have hcond : PW (do
      if (← headIs (.ident "if")) then do
        let _ ← nextOrError
        let c ← rec (C.bp.ternary + 1)
        pure (some c)
      else pure none : P (Option Expr)) (fun r => optExprSC r = true) := by
    cdtac
    all_goals scxleaf
  unfold Parser.parseListComprehension
  cdtac
  all_goals scxleaf

/-- what the array loop hands back -/
def ArrSCX : ArrayLoopOut → Prop
  | .comprehension lc => exprSC lc = true
  | .items xs _ => arrayItemsSC xs = true

theorem SCX.arrayLoop : ∀ n acc lit, arrayItemsSC acc = true →
    PW (arrayLoop C rec n acc lit) ArrSCX := by
  have hl := SCX.parseListComprehension C hrec
  intro n
  induction n with
  | zero => intro _ _ _; exact PW.fuel
  | succ n ih =>
    intro acc lit hacc
    unfold Parser.arrayLoop
    cdtac
    all_goals first | scxleaf | (simp only [ArrSCX]; scxleaf)

theorem SCX.parseArray : PW (parseArray C rec) (fun r => exprSC r = true) := by
  unfold Parser.parseArray
  refine PW.bind' (fun _ => ?_)
  apply PW.ite
  · exact PW.err
  · refine PW.bind' (fun _ => ?_)
    refine PW.bind (SCX.arrayLoop C hrec _ _ _ (by simp [arrayItemsSC])) (fun out h => ?_)
    cases out with
    | comprehension lc => exact PW.pure h
    | items xs lit =>
      simp only [ArrSCX] at h
      dsimp only
      cdtac
      all_goals scxleaf

theorem SCX.componentAttributes : ∀ n acc, mapItemsSC acc = true →
    PW (componentAttributes rec n acc) (fun r => mapItemsSC r = true) := by
  intro n
  induction n with
  | zero => intro _ _; exact PW.fuel
  | succ n ih =>
    intro acc hacc
    have hval : ∀ name : String, PW (do
        if (← headIs .assign) then do
          let _ ← nextOrError
          match (← peekOk) with
          | some (.str s) => do
            let _ ← nextOrError
            pure (.const (.str false s.toList))
          | some .leftBrace => do
            let _ ← nextOrError
            let x ← rec 0
            expect .rightBrace
            pure x
          | _ => P.err
        else pure (.var name) : P Expr) (fun r => exprSC r = true) := by
      intro name
      cdtac
      all_goals scxleaf
    unfold Parser.componentAttributes
    cdtac
    all_goals scxleaf

theorem SCX.parseInlineComponentCall :
    PW (parseInlineComponentCall rec) (fun r => exprSC r = true) := by
  have h := SCX.componentAttributes hrec
  unfold Parser.parseInlineComponentCall
  cdtac
  all_goals scxleaf

theorem SCX.parseOperand (op : BinaryOperator) (r : Nat) (lhs : Expr) (hl : exprSC lhs = true) :
    PW (parseOperand rec op r lhs) (fun r => exprSC r = true) := by
  have h1 := SCX.parseTest hrec
  have h2 := SCX.parseFilter hrec
  unfold Parser.parseOperand
  cdtac
  all_goals (cases op <;> scxleaf)

theorem SCX.prattLoop (minBp : Nat) : ∀ n lhs neg, exprSC lhs = true →
    PW (prattLoop C rec minBp n lhs neg) (fun r => exprSC r = true) := by
  have hs := SCX.parseSubscript C hrec
  have ho := SCX.parseOperand hrec
  intro n
  induction n with
  | zero => intro _ _ _; exact PW.fuel
  | succ n ih =>
    intro lhs neg hl
    unfold Parser.prattLoop
    cdtac
    all_goals scxleaf

theorem SCX.parsePrefix : PW (parsePrefix C rec) (fun r => exprSC r = true) := by
  have h1 := SCX.parseIdent C hrec
  have h2 := SCX.parseInlineComponentCall hrec
  have h3 := SCX.parseMap hrec
  have h4 := SCX.parseArray C hrec
  unfold Parser.parsePrefix
  cdtac
  all_goals scxleaf

theorem SCX.parseExprBp (minBp : Nat) : PW (parseExprBp C rec minBp) (fun r => exprSC r = true) := by
  have hp := SCX.parsePrefix C hrec
  have hl := SCX.prattLoop C hrec minBp
  unfold Parser.parseExprBp
  cdtac
  all_goals scxleaf

end

/-- **every parsed expression is scoped** -/
theorem SCX.innerParseExpression (C : Cfg) :
    ∀ b m, PW (innerParseExpression C b m) (fun e => exprSC e = true) := by
  intro b
  induction b with
  | zero => intro _; exact PW.err
  | succ b ih => intro m; exact SCX.parseExprBp C ih m



end Tera.Parser

namespace Tera.TParser
open Tera Tera.Parser

theorem nodesSC_append (a b : List Node) : nodesSC (a ++ b) = (nodesSC a && nodesSC b) := by
  induction a with
  | nil => simp [nodesSC]
  | cons x xs ih => simp [nodesSC, ih, Bool.and_assoc]

theorem exprListSC_snoc (acc : List Expr) (f : Expr) (ha : exprListSC acc = true)
    (hf : exprSC f = true) : exprListSC (acc ++ [f]) = true := by
  induction acc with
  | nil => simp [exprListSC, hf]
  | cons x xs ih => simp_all [exprListSC]

/-- a `{{ e }}` node whose expression came from the expression parser -/
theorem nodeSC_expression (e : Expr) (h : exprSC e = true) : nodeSC (.expression e) = true := by
  cases e with
  | componentCall n kw body sc =>
    cases sc
    · simp [exprSC] at h
    · simpa [nodeSC] using h
  | _ => simpa [nodeSC] using h

def DefsX (ds : List ComponentDefinition) : Prop := ∀ d ∈ ds, nodesSC d.body = true

theorem DefsX.snoc {ds : List ComponentDefinition} {d : ComponentDefinition}
    (h : DefsX ds) (hd : nodesSC d.body = true) : DefsX (ds ++ [d]) := by
  intro x hx
  rcases List.mem_append.1 hx with hx | hx
  · exact h x hx
  · simp at hx; subst hx; exact hd

/-- closes a leaf `nodes are SC ∧ (definitions stay SC)` -/
macro "scxtleaf" : tactic => `(tactic|
  (refine ⟨?_, ?_⟩
   · simp_all [nodeSC, nodesSC, exprSC, kwargsSC, mapItemsSC, exprListSC, Option.toList, nodesSC_append]
   · intro _; solve_by_elim))

section level
variable {C : Bool → Cfg} {recU : EndCheck → T (List Node)} {ex : Bool → Nat → P Expr}
variable (Hex : ∀ il m, PW (ex il m) (fun e => exprSC e = true))
variable (HU : ∀ ec s, TW (recU ec) s (fun nodes s' => nodesSC nodes = true
  ∧ (DefsX s.componentDefinitions → DefsX s'.componentDefinitions)))
include Hex HU

theorem SCXT.parseIf : ∀ n s, TW (parseIf recU ex n) s
    (fun x s' => nodeSC (.if x.1 x.2.1 x.2.2) = true
      ∧ (DefsX s.componentDefinitions → DefsX s'.componentDefinitions)) := by
  intro n
  induction n with
  | zero => intro s; exact TW.fuel
  | succ n ih =>
    intro s
    have hrec := fun ec s => TW.cps2 (HU ec s)
    have ih' := fun s => TW.cps2 (ih s)
    unfold TParser.parseIf
    cdttac
    all_goals
      dsimp only at *
      scxtleaf

theorem SCXT.parseForLoop (s : TState) : TW (parseForLoop recU ex) s
    (fun nd s' => nodeSC nd = true
      ∧ (DefsX s.componentDefinitions → DefsX s'.componentDefinitions)) := by
  have hrec := fun ec s => TW.cps2 (HU ec s)
  unfold TParser.parseForLoop
  cdttac
  all_goals
    dsimp only at *
    scxtleaf

omit HU in
theorem SCXT.setFilters (il : Bool) : ∀ n acc, exprListSC acc = true →
    PW (TParser.setFilters (ex il) n acc) (fun fs => exprListSC fs = true) := by
  have hf : ∀ e, exprSC e = true → PW (parseFilter (ex il) e) (fun x => exprSC x = true) :=
    fun e he => SCX.parseFilter (Hex il) e he
  intro n
  induction n with
  | zero => intro _ _; exact PW.fuel
  | succ n ih =>
    intro acc hacc
    unfold TParser.setFilters
    cdtac
    exact exprListSC_snoc _ _ hacc (by assumption)

theorem SCXT.parseSet (g : Bool) (s : TState) : TW (parseSet recU ex g) s
    (fun nd s' => nodeSC nd = true
      ∧ (DefsX s.componentDefinitions → DefsX s'.componentDefinitions)) := by
  have hrec := fun ec s => TW.cps2 (HU ec s)
  have hsf : ∀ il n, PW (TParser.setFilters (ex il) n []) (fun fs => exprListSC fs = true) :=
    fun il n => SCXT.setFilters Hex il n [] rfl
  unfold TParser.parseSet
  cdttac
  all_goals
    dsimp only at *
    scxtleaf

theorem SCXT.parseComponentWithBody (s : TState) : TW (parseComponentWithBody recU ex) s
    (fun e s' => nodeSC (.expression e) = true
      ∧ (DefsX s.componentDefinitions → DefsX s'.componentDefinitions)) := by
  have hrec := fun ec s => TW.cps2 (HU ec s)
  have hca : ∀ il n, PW (componentAttributes (ex il) n []) (fun kw => mapItemsSC kw = true) :=
    fun il n => SCX.componentAttributes (Hex il) n [] rfl
  unfold TParser.parseComponentWithBody
  cdttac
  all_goals
    dsimp only at *
    scxtleaf

omit Hex in
theorem SCXT.parseComponentDefinition (s : TState) : TW (parseComponentDefinition C recU ex) s
    (fun df s' => nodesSC df.body = true
      ∧ (DefsX s.componentDefinitions → DefsX s'.componentDefinitions)) := by
  have hrec := fun ec s => TW.cps2 (HU ec s)
  unfold TParser.parseComponentDefinition
  cdttac
  all_goals
    dsimp only at *
    scxtleaf

theorem SCXT.parseTag (isFirst : Bool) (s : TState) :
    TW (parseTag C recU ex isFirst) s (fun on s' => nodesSC on.toList = true
      ∧ (DefsX s.componentDefinitions → DefsX s'.componentDefinitions)) := by
  have hrec := fun ec s => TW.cps2 (HU ec s)
  have h1 := fun g s => TW.cps2 (SCXT.parseSet Hex HU g s)
  have h2 := fun s => TW.cps2 (SCXT.parseForLoop Hex HU s)
  have h3 := fun n s => TW.cps2 (SCXT.parseIf Hex HU n s)
  have h4 := fun s => TW.cps2 (SCXT.parseComponentDefinition (C := C) (ex := ex) HU s)
  have h5 := fun s => TW.cps2 (SCXT.parseComponentWithBody Hex HU s)
  have hk : ∀ il, PW (parseKwargs (ex il)) (fun kw => kwargsSC kw = true) :=
    fun il => SCX.parseKwargs (Hex il)
  unfold TParser.parseTag
  cdttac
  all_goals
    dsimp only at *
  all_goals first
    | (refine ⟨?_, by intro _; solve_by_elim⟩
       simp only [Option.toList, nodesSC, Bool.and_true]
       assumption)
    | scxtleaf
    | (rename_i x _ _ _ _ _
       obtain ⟨c, b, f⟩ := x
       scxtleaf)
    | exact ⟨by simp [nodesSC], fun h => DefsX.snoc (by solve_by_elim) (by assumption)⟩

theorem SCXT.untilLoop (ec : EndCheck) : ∀ n nodes s, nodesSC nodes = true →
    TW (untilLoop C recU ex ec n nodes) s (fun res s' => nodesSC res = true
      ∧ (DefsX s.componentDefinitions → DefsX s'.componentDefinitions)) := by
  have htag := fun f s => TW.cps2 (SCXT.parseTag (C := C) Hex HU f s)
  intro n
  induction n with
  | zero => intro nodes s _; exact TW.fuel
  | succ n ih =>
    intro nodes s hn
    obtain ⟨⟨ts, a, b⟩, c1, c2, c3, c4, c5⟩ := s
    rw [TW_def]
    unfold TParser.untilLoop
    cases ts with
    | nil => exact ⟨hn, id⟩
    | cons tok rest =>
      cases tok
      case error => trivial
      case content c =>
        dsimp only
        rw [← TW_def]
        refine TW.mono (ih _ _ ?_) (fun r s' h => h)
        split
        · exact hn
        · simp [nodesSC_append, nodesSC, nodeSC, hn]
      case variableStart w =>
        dsimp only
        rw [← TW_def]
        refine TW.bind (TW.exprV_swap (fun e p' he => ?_) Hex)
        refine TW.bind (TW.lift _ (fun _ p2 => ?_))
        refine TW.mono (ih _ _ ?_) (fun r s' h => h)
        simp [nodesSC_append, nodesSC, nodeSC_expression e he, hn]
      case tagStart w =>
        dsimp only
        split
        · rename_i res s' heq
          split at heq
          · cases heq
          · cases heq
          · split at heq
            · cases heq; exact ⟨hn, id⟩
            · rename_i t tail _ hne
              refine TW.of_eq (Q := fun res s' => nodesSC res = true
                ∧ (DefsX c5 → DefsX s'.componentDefinitions)) heq ?_
              refine TW.bind (htag _ _ _ (fun node s1 h1 h2 => ?_))
              refine TW.bind (TW.lift _ (fun _ p2 => ?_))
              refine TW.mono (ih _ _ ?_) (fun res s' h => ⟨h.1, fun hd => h.2 (h2 hd)⟩)
              cases node with
              | none => exact hn
              | some nd =>
                simp only [Option.toList] at h1
                simp_all [nodesSC_append, nodesSC]
        all_goals trivial
      all_goals trivial

end level

theorem SCXT.parseUntil : ∀ r ec s, TW (parseUntil r ec) s
    (fun nodes s' => nodesSC nodes = true
      ∧ (DefsX s.componentDefinitions → DefsX s'.componentDefinitions)) := by
  intro r
  induction r with
  | zero => intro ec s; exact TW.err
  | succ r ih =>
    intro ec s
    unfold TParser.parseUntil
    refine TW.bind (TW.lift _ (fun n p' => ?_))
    exact SCXT.untilLoop (fun il m => SCX.innerParseExpression _ _ _) ih ec n [] _ rfl

/-- **every accepted template is `nodesSC`**: component calls with a body occur only as the whole
expression of a `{% <name ..> %}` node, never inside an expression -/
theorem parse_sc (maxDepth : Nat) (toks : List Tok) (t : Template) (s : TState)
    (h : parse maxDepth toks = .ok t s) :
    nodesSC t.nodes = true ∧ ∀ d ∈ t.componentDefinitions, nodesSC d.body = true := by
  unfold parse at h
  simp only [] at h
  split at h <;> try cases h
  rename_i _ nodes heq
  have := TW.of_eq heq (SCXT.parseUntil maxDepth .never _)
  exact ⟨this.1, this.2 (by intro d hd; cases hd)⟩

end Tera.TParser
