/-
Helper lemmas for C17 dispatch totality: no entry of the model's tables can end in `.panic`.
-/
import TeraModel.Lemmas.Range
import TeraModel.Lemmas.Builtins
import TeraModel.Generated.Builtins
namespace Tera.Builtins
open Tera Tera.Args

def Outcome.isPanic : Outcome → Bool
  | .panic _ => true
  | _ => false

theorem ofExcept_np {α : Type} (r : Except BErr α) (k : α → Outcome) (h : ∀ a, (k a).isPanic = false) :
    (ofExcept r k).isPanic = false := by
  cases r with
  | ok a => exact h a
  | error e => rfl

/-- discharge "this body cannot panic" goals made of `ofExcept` chains, `if`s and `match`es -/
macro "np" : tactic =>
  `(tactic| repeat (first
      | rfl
      | (apply ofExcept_np; intro _)
      | split
      | dsimp only))

theorem np_fDefault (v kw) : (fDefault v kw).isPanic = false := by unfold fDefault; np
theorem np_fPluralize (v kw) : (fPluralize v kw).isPanic = false := by unfold fPluralize; np
theorem np_fTrimWith (a b s kw) : (fTrimWith a b s kw).isPanic = false := by unfold fTrimWith; np
theorem np_fReplace (s kw) : (fReplace s kw).isPanic = false := by unfold fReplace; np
theorem np_fTruncate (s kw) : (fTruncate s kw).isPanic = false := by unfold fTruncate; np
theorem np_fIndent (s kw) : (fIndent s kw).isPanic = false := by unfold fIndent; np
theorem np_fGet (es kw) : (fGet es kw).isPanic = false := by unfold fGet; np
theorem np_fRound (x kw) : (fRound x kw).isPanic = false := by unfold fRound; np
theorem np_fFloat (P v) : (fFloat P v).isPanic = false := by unfold fFloat; np
theorem np_afterKw (cs v kw) : (afterKw cs v kw).isPanic = false := by unfold afterKw; np
theorem np_tDivisibleBy (n kw) : (tDivisibleBy n kw).isPanic = false := by unfold tDivisibleBy; np
theorem np_tContaining (v kw) : (tContaining v kw).isPanic = false := by unfold tContaining; np
theorem np_tStartingWith (s kw) : (tStartingWith s kw).isPanic = false := by unfold tStartingWith; np
theorem np_tEndingWith (s kw) : (tEndingWith s kw).isPanic = false := by unfold tEndingWith; np
theorem np_fnThrow (kw) : (fnThrow kw).isPanic = false := by unfold fnThrow; np

theorem wf_asI128 (v : Value) (hw : v.scalarWF) (hi : v.isInteger = true) (hu : ∀ n, v ≠ .u128 n) :
    ∃ n, v.asI128 = some n := by
  cases v with
  | u64 m =>
    have hw' : m ≤ U64_MAX := hw
    refine ⟨m, ?_⟩
    have : inI128 (m : Int) := by simp only [inI128, I128_MIN, I128_MAX, U64_MAX] at *; omega
    simp [Value.asI128, Value.intVal, this]
  | i64 m =>
    have hw' : I64_MIN ≤ m ∧ m ≤ I64_MAX := hw
    refine ⟨m, ?_⟩
    have : inI128 m := by simp only [inI128, I128_MIN, I128_MAX, I64_MIN, I64_MAX] at *; omega
    simp [Value.asI128, Value.intVal, this]
  | i128 m =>
    have : inI128 m := hw
    exact ⟨m, by simp [Value.asI128, Value.intVal, this]⟩
  | u128 m => exact absurd rfl (hu m)
  | _ => simp [Value.isInteger] at hi

theorem np_fAbs (v : Value) (hw : v.scalarWF) : (fAbs v).isPanic = false := by
  cases v with
  | i64 m =>
    obtain ⟨n, hn⟩ := wf_asI128 (.i64 m) hw rfl (by intro n h; cases h)
    simp only [fAbs, hn]; np
  | i128 m =>
    obtain ⟨n, hn⟩ := wf_asI128 (.i128 m) hw rfl (by intro n h; cases h)
    simp only [fAbs, hn]; np
  | _ => rfl

theorem np_fInt (P : Params) (v : Value) (kw : Kwargs) (hw : v.scalarWF) : (fInt P v kw).isPanic = false := by
  unfold fInt
  apply ofExcept_np; intro b
  dsimp only
  split
  · rfl
  · cases v with
    | u64 m =>
      obtain ⟨n, hn⟩ := wf_asI128 (.u64 m) hw rfl (by intro n h; cases h)
      simp only [hn]; rfl
    | i64 m =>
      obtain ⟨n, hn⟩ := wf_asI128 (.i64 m) hw rfl (by intro n h; cases h)
      simp only [hn]; rfl
    | i128 m =>
      obtain ⟨n, hn⟩ := wf_asI128 (.i128 m) hw rfl (by intro n h; cases h)
      simp only [hn]; rfl
    | str sf s => simp only []; np
    | f64 x => simp only []; np
    | _ => rfl

/-- A built-in cannot panic on a receiver whose scalar payload is in the range of its kind. -/
def NoPanic (b : Builtin) : Prop := ∀ (v : Value) (kw : Kwargs), v.scalarWF → (b.apply v kw).isPanic = false

theorem noPanic_of_body (b : Builtin) (h : ∀ v kw, v.scalarWF → b.recv.check v = .ok () → (b.body v kw).isPanic = false) :
    NoPanic b := by
  intro v kw hw
  unfold Builtin.apply
  cases hc : b.recv.check v with
  | error e => rfl
  | ok u => cases u; exact h v kw hw hc

theorem noPanic_str (f : List Char → Kwargs → Outcome) (h : ∀ s kw, (f s kw).isPanic = false) :
    NoPanic { recv := .str, body := onStr f } := by
  apply noPanic_of_body
  intro v kw _ hc
  cases v <;> simp_all [ArgTy.check, strFromValue, onStr, Except.map]

theorem noPanic_any (t : ArgTy) (f : Value → Kwargs → Outcome) (h : ∀ v kw, (f v kw).isPanic = false) :
    NoPanic { recv := t, body := f } := noPanic_of_body _ fun v kw _ _ => h v kw

theorem noPanic_number (f : Number → Kwargs → Outcome) (h : ∀ n kw, (f n kw).isPanic = false) :
    NoPanic { recv := .number, body := onNumber f } := by
  apply noPanic_of_body
  intro v kw _ hc
  simp only [ArgTy.check] at hc
  show (onNumber f v kw).isPanic = false
  unfold onNumber
  cases hn : numberFromValue v with
  | ok n => exact h n kw
  | error e => simp [hn, Except.map] at hc

theorem filters_noPanic (P : Params) : ∀ p ∈ filterTable P, NoPanic p.2 := by
  simp only [filterTable, List.forall_mem_cons, List.not_mem_nil, false_imp_iff, implies_true, and_true]
  refine ⟨?_, ?_, ?_, ?_, ?_, ?_, ?_, ?_, ?_, ?_, ?_, ?_, ?_, ?_, ?_, ?_, ?_, ?_, ?_, ?_, ?_, ?_, ?_, ?_,
    ?_, ?_, ?_, ?_, ?_, ?_, ?_, ?_, ?_, ?_, ?_, ?_⟩
  · exact noPanic_any _ _ fun v kw => by np
  · exact noPanic_any _ _ np_fDefault
  · exact noPanic_str _ fun s kw => rfl
  · exact noPanic_str _ fun s kw => rfl
  · exact noPanic_str _ fun s kw => rfl
  · exact noPanic_str _ fun s kw => rfl
  · exact noPanic_str _ fun s kw => rfl
  · exact noPanic_str _ fun s kw => rfl
  · exact noPanic_any _ _ np_fPluralize
  · exact noPanic_str _ (np_fTrimWith _ _)
  · exact noPanic_str _ (np_fTrimWith _ _)
  · exact noPanic_str _ (np_fTrimWith _ _)
  · exact noPanic_str _ np_fReplace
  · exact noPanic_str _ fun s kw => rfl
  · exact noPanic_str _ fun s kw => rfl
  · exact noPanic_str _ np_fTruncate
  · exact noPanic_str _ np_fIndent
  · exact noPanic_any _ _ fun v kw => by np
  · exact noPanic_of_body _ fun v kw hw _ => np_fInt P v kw hw
  · exact noPanic_any _ _ fun v kw => np_fFloat P v
  · exact noPanic_any _ _ (np_afterKw _)
  · exact noPanic_any _ _ (np_afterKw _)
  · exact noPanic_any _ _ (np_afterKw _)
  · exact noPanic_of_body _ fun v kw hw _ => np_fAbs v hw
  · apply noPanic_of_body
    intro v kw _ hc
    simp only [ArgTy.check] at hc
    simp only
    cases hf : f64FromValue v with
    | ok x => exact np_fRound x kw
    | error e => simp [hf, Except.map] at hc
  · exact noPanic_any _ _ (np_afterKw _)
  · exact noPanic_any _ _ (np_afterKw _)
  · exact noPanic_any _ _ (np_afterKw _)
  · exact noPanic_any _ _ (np_afterKw _)
  · exact noPanic_any _ _ fun v kw => by split <;> first | rfl | exact np_afterKw _ _ _
  · exact noPanic_any _ _ (np_afterKw _)
  · apply noPanic_of_body
    intro v kw _ hc
    cases v <;> simp_all [ArgTy.check, mapFromValue, Except.map, np_fGet]
  · exact noPanic_any _ _ (np_afterKw _)
  · exact noPanic_any _ _ (np_afterKw _)
  · exact noPanic_any _ _ (np_afterKw _)
  · exact noPanic_any _ _ fun v kw => by split <;> first | rfl | exact np_afterKw _ _ _

theorem tests_noPanic : ∀ p ∈ testTable, NoPanic p.2 := by
  simp only [testTable, List.forall_mem_cons, List.not_mem_nil, false_imp_iff, implies_true, and_true]
  refine ⟨?_, ?_, ?_, ?_, ?_, ?_, ?_, ?_, ?_, ?_, ?_, ?_, ?_, ?_, ?_, ?_, ?_⟩
  · exact noPanic_any _ _ fun v kw => rfl
  · exact noPanic_any _ _ fun v kw => rfl
  · exact noPanic_any _ _ fun v kw => rfl
  · exact noPanic_any _ _ fun v kw => rfl
  · exact noPanic_any _ _ fun v kw => rfl
  · exact noPanic_any _ _ fun v kw => rfl
  · exact noPanic_any _ _ fun v kw => rfl
  · exact noPanic_any _ _ fun v kw => rfl
  · exact noPanic_any _ _ fun v kw => rfl
  · exact noPanic_any _ _ fun v kw => rfl
  · exact noPanic_any _ _ fun v kw => rfl
  · exact noPanic_number _ fun n kw => by np
  · exact noPanic_number _ fun n kw => by np
  · exact noPanic_number _ np_tDivisibleBy
  · exact noPanic_str _ np_tStartingWith
  · exact noPanic_str _ np_tEndingWith
  · exact noPanic_any _ _ np_tContaining

theorem lookup_mem (t : List (String × Builtin)) (name : String) (b : Builtin)
    (h : lookup t name = some b) : (name, b) ∈ t := by
  induction t with
  | nil => simp [lookup] at h
  | cons p rest ih =>
    obtain ⟨n, b'⟩ := p
    simp only [lookup] at h
    split at h
    · rename_i hn
      cases h
      subst hn
      exact List.mem_cons_self ..
    · exact List.mem_cons_of_mem _ (ih h)

end Tera.Builtins
