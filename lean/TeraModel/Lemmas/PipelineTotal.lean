/-
`add_raw_templates` in the composed model (P4 of Props/Pipeline.lean): the stages put together.
-/
import TeraModel.Lemmas.PipelineAdd
import TeraModel.Lemmas.PipelineReg
import TeraModel.Lemmas.TemplateParserScoped
namespace Tera.Pipeline
open Tera Utf8

/-- parser → compiler bridge, for every token list (`TParser.parse_scoped`, bG1_parser) -/
theorem scopedOn_all (toks : List Tok) : ScopedOn toks :=
  fun t s h => TParser.parse_scoped _ toks t s h

/-- the registry stage answers a state or an error VALUE of the engine -/
theorem register_total (cfg : Config) (tds : List TemplateData) :
    (∃ st, register cfg tds = .ok st) ∨
    ∃ e, register cfg tds = .error (.registry e) ∧ e.isValue := by
  have hval : ∀ e, (Reg.addBatchR cfg.reg (initState cfg)
      (tds.map fun td => Reg.ItemR.good td.summary) id id).2 = some e → e.isValue := by
    intro e he
    apply Reg.addBatch_value (initState cfg) _ _ he
    intro it hit
    simp only [List.mem_map] at hit
    obtain ⟨_, ⟨td, _, rfl⟩, rfl⟩ := hit
    exact ⟨_, rfl⟩
  unfold register
  rcases hr : Reg.addBatchR cfg.reg (initState cfg)
      (tds.map fun td => Reg.ItemR.good td.summary) id id with ⟨st, oe⟩
  rw [hr] at hval
  simp only at hval
  cases oe with
  | none => exact Or.inl ⟨st, by rw [hr]⟩
  | some e =>
    have hv := hval e rfl
    right
    cases e with
    | panic => exact absurd rfl hv.1
    | outOfFuel => exact absurd rfl hv.2
    | missingParent a b => exact ⟨_, by rw [hr], hv⟩
    | circularExtend a b => exact ⟨_, by rw [hr], hv⟩
    | circularInclude a b => exact ⟨_, by rw [hr], hv⟩
    | msg => exact ⟨_, by rw [hr], hv⟩
    | templateNotFound => exact ⟨_, by rw [hr], hv⟩
    | «syntax» => exact ⟨_, by rw [hr], hv⟩

/-- the outcomes of `addTemplates` that are values of the engine or the model's checker verdict:
an environment, `Err(SyntaxError)`, an error of `finalize_templates`, or `unchecked` -/
def AddErr.benign : AddErr → Prop
  | .syntax _ => True
  | .registry e => e.isValue
  | .unchecked _ => True
  | .panic _ => False
  | .outOfFuel => False
  | .internal _ => False

/-- **add never panics, given that the adapter `buildEnv` finds every chunk the derived data
names** (`hbuild`; discharged in Lemmas/PipelineBuild.lean). -/
theorem addTemplates_benign_of_build (cfg : Config) (hd : cfg.delims.accepted = true)
    (sources : List (String × Bytes)) (hv : ∀ p ∈ sources, valid p.2 = true)
    (hbuild : ∀ tds st, newAll cfg.delims sources = .ok tds → register cfg tds = .ok st →
      ∃ env, buildEnv cfg tds st = some env) :
    (∃ env, addTemplates cfg sources = .ok env) ∨
    ∃ e, addTemplates cfg sources = .error e ∧ e.benign := by
  unfold addTemplates
  rcases newAll_total cfg.delims hd sources (fun p hp => ⟨hv p hp, scopedOn_all _⟩)
    with ⟨tds, ht⟩ | ⟨n, hn⟩
  · rw [ht]
    simp only
    rcases register_total cfg tds with ⟨st, hst⟩ | ⟨e, he, hval⟩
    · rw [hst]
      simp only
      obtain ⟨env, henv⟩ := hbuild tds st ht hst
      rw [henv]
      simp only [validate]
      cases hu : firstUnchecked env with
      | none => exact Or.inl ⟨env, rfl⟩
      | some w => exact Or.inr ⟨_, rfl, trivial⟩
    · rw [he]; exact Or.inr ⟨_, rfl, hval⟩
  · rw [hn]; exact Or.inr ⟨_, rfl, trivial⟩

end Tera.Pipeline
