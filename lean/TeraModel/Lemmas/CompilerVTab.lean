/-
Value-level T1, infrastructure: the certificate of compiled code for the value-level checker of
Model/VmCheck.lean (`Vm.astep`, per-slot flags `arr / map / sp / okb`).  Same recursion, order and
lengths as `exprCode` / `nodeCode` (and as the tables of Lemmas/CompilerTab.lean for the abstract
stack machine); what changes is the description of the slots:
* `tagR`  "has a span": every value an expression leaves (its last instruction is added with a
          span, or it combines spanned operands), every kwarg key, every `EndCapture` with a span;
* `tagB`  the two constants `compile_expr` loads for an omitted slice bound (no span, fine as bound);
* `tagM`  the kwargs map built by a span-less `BuildMap` / `BuildMapWithSpreads`;
* `tagL`  the list of a comprehension (`BuildList(0)` with a span);
* `tagZ`  nothing known (`StoreDidNotIterate`, `EndCapture` of a set block without filters).
-/
import TeraModel.Lemmas.CompilerTab
import TeraModel.Model.Pipeline
namespace Tera.Compiler.V
open Tera Tera.Compiler Tera.Vm

def tagR : Tag := ⟨false, false, true, false⟩
def tagB : Tag := ⟨false, false, false, true⟩
def tagM : Tag := ⟨false, true, false, false⟩
def tagL : Tag := ⟨true, false, true, false⟩
def tagZ : Tag := ⟨false, false, false, false⟩

/-- the slot of a slice bound: the value of the bound expression, or the default constant -/
def optTag : Option Expr → Tag
  | some _ => tagR
  | none => tagB

/-- what `EndCapture` of a set block leaves: it has a span iff there is a filter chain -/
def capTag (filters : List Expr) : Tag := if filters.isEmpty then tagZ else tagR

/-- the typed instruction of the VM model (`Pipeline.vinstr`, total: the four operators that never
become an instruction are mapped to `plus`) -/
def vi : CInstr → VInstr
  | .loadConst v => .loadConst v
  | .loadName n => .loadName n
  | .loadAttr n => .loadAttr n false
  | .loadAttrOpt n => .loadAttr n true
  | .binarySubscript => .binarySubscript false
  | .binarySubscriptOpt => .binarySubscript true
  | .slice => .slice false
  | .sliceOpt => .slice true
  | .writeText s => .writeText s.toList
  | .writeTop => .writeTop
  | .set n => .set n false
  | .setGlobal n => .set n true
  | .include n => .include_ n
  | .buildMap n => .buildMap n
  | .buildList n => .buildList n
  | .buildMapWithSpreads l => .buildMapWithSpreads l
  | .buildListWithSpreads l => .buildListWithSpreads l
  | .callFunction n => .callFunction n
  | .renderInlineComponent n => .renderComponent n false
  | .renderBodyComponent n => .renderComponent n true
  | .applyFilter n => .applyFilter n
  | .runTest n => .runTest n
  | .renderBlock n => .renderBlock n
  | .jump t => .jump t
  | .popJumpIfFalse t => .popJumpIfFalse t
  | .jumpIfFalseOrPop t => .jumpIfFalseOrPop t
  | .jumpIfTrueOrPop t => .jumpIfTrueOrPop t
  | .capture => .capture
  | .endCapture => .endCapture
  | .startIterate kv => .startIterate kv false
  | .startIterateComprehension kv => .startIterate kv true
  | .iterate t => .iterate t
  | .storeLocal n => .storeLocal n
  | .storeDidNotIterate => .storeDidNotIterate
  | .break_ => .break_
  | .popLoop => .popLoop
  | .appendToList => .appendToList
  | .binop op =>
    match op with
    | .Mul => .math .mul | .Div => .math .div | .Mod => .math .mod
    | .Minus => .math .minus | .FloorDiv => .math .floorDiv
    | .Power => .math .power | .Plus => .plus
    | .LessThan => .cmp .lt | .GreaterThan => .cmp .gt
    | .LessThanOrEqual => .cmp .le | .GreaterThanOrEqual => .cmp .ge
    | .Equal => .equal false | .NotEqual => .equal true
    | .StrConcat => .strConcat | .In => .in_
    | .And | .Or | .Is | .Pipe => .plus
  | .not => .not_
  | .negative => .negative

/-- one instruction of a compiled chunk on the checker's machine (`own`: added with a span) -/
def astepC (y : CEntry) (pc : Nat) (a : ASt) : Option (List (Nat × ASt)) :=
  astep (vi y.1) y.2 (if y.2 then 1 else 0) pc a

/-- `n` more spanned values on the value stack -/
def pushN (a : ASt) (n : Nat) : ASt := ⟨List.replicate n tagR ++ a.stack, a.loops, a.caps⟩
/-- the slots `ts` (top first) on the value stack -/
def pushT (a : ASt) (ts : List Tag) : ASt := ⟨ts ++ a.stack, a.loops, a.caps⟩
def capUp (a : ASt) : ASt := ⟨a.stack, a.loops, a.caps + 1⟩
/-- the comprehension's list on the value stack -/
def pushList (a : ASt) : ASt := ⟨tagL :: a.stack, a.loops, a.caps⟩
def loopUp (a : ASt) (e : Option Nat) : ASt := ⟨a.stack, e :: a.loops, a.caps⟩

def keyTab (a : ASt) : Option String → List ASt
  | some _ => [a]
  | none => []

mutual
def exprTab (base : Nat) (loop : Option Nat) (a : ASt) : Expr → List ASt
  | .const _ => [a]
  | .map entries => mapItemsTab base loop a entries ++ [pushN a (mapSlots entries)]
  | .array items => arrayItemsTab base loop a items ++ [pushN a items.length]
  | .var _ => [a]
  | .getAttr e _ _ => exprTab base loop a e ++ [pushN a 1]
  | .getItem e s _ =>
    let c1 := exprCode base loop e
    exprTab base loop a e ++ exprTab (base + c1.length) loop (pushN a 1) s ++ [pushN a 2]
  | .slice e start stop step _ =>
    let c1 := exprCode base loop e
    let c2 := optExprCode (base + c1.length) loop (.loadConst .none) start
    let c3 := optExprCode (base + c1.length + c2.length) loop (.loadConst .none) stop
    exprTab base loop a e ++ optExprTab (base + c1.length) loop (pushN a 1) start
      ++ optExprTab (base + c1.length + c2.length) loop (pushT (pushN a 1) [optTag start]) stop
      ++ optExprTab (base + c1.length + c2.length + c3.length) loop
          (pushT (pushN a 1) [optTag stop, optTag start]) step
      ++ [pushT (pushN a 1) [optTag step, optTag stop, optTag start]]
  | .filter e _ kwargs =>
    let c1 := exprCode base loop e
    exprTab base loop a e ++ kwargsTab (base + c1.length) loop (pushN a 1) kwargs
      ++ [pushN (pushN a 1) (2 * kwargs.length), pushT (pushN a 1) [tagM]]
  | .test e _ kwargs =>
    let c1 := exprCode base loop e
    exprTab base loop a e ++ kwargsTab (base + c1.length) loop (pushN a 1) kwargs
      ++ [pushN (pushN a 1) (2 * kwargs.length), pushT (pushN a 1) [tagM]]
  | .ternary c t f =>
    let cc := exprCode base loop c
    let idx := base + cc.length
    let ct := exprCode (idx + 1) loop t
    let idx2 := idx + 1 + ct.length
    exprTab base loop a c ++ [pushN a 1] ++ exprTab (idx + 1) loop a t ++ [pushN a 1]
      ++ exprTab (idx2 + 1) loop a f
  | .listComprehension e key value target cond =>
    let ct := exprCode (base + 1) loop target
    let pre := [sp (.buildList 0)] ++ ct
      ++ [ns (.startIterateComprehension key.isSome), ns (.storeLocal value)] ++ keyStore key
    let startIdx := base + pre.length
    let cc := condCode (startIdx + 1) loop cond
    let exprIdx := startIdx + 1 + cc.length + (if cond.isSome then 1 else 0)
    let ce := exprCode exprIdx loop e
    let skip := if cond.isSome then [ns (.popJumpIfFalse (exprIdx + ce.length + 1))] else []
    let body := cc ++ skip ++ ce ++ [ns .appendToList]
    let loopEnd := startIdx + 1 + body.length + 1
    -- header state (loop end not set / any) and body state
    let h := loopUp (pushList a) none
    let b := loopUp (pushList a) (some loopEnd)
    [a] ++ exprTab (base + 1) loop (pushList a) target ++ [pushN (pushList a) 1, h] ++ keyTab h key
      ++ [h] ++ condTab (startIdx + 1) loop b cond ++ (if cond.isSome then [pushN b 1] else [])
      ++ exprTab exprIdx loop b e ++ [pushN b 1] ++ [b, h]
  | .componentCall _ kwargs body selfClosing =>
    let cap := if selfClosing then [] else
      [ns .capture] ++ nodesCode (base + 1) loop body ++ [sp .endCapture]
    let a1 := if selfClosing then a else pushN a 1
    (if selfClosing then [] else [a] ++ nodesTab (base + 1) loop (capUp a) body ++ [capUp a])
      ++ mapItemsTab (base + cap.length) loop a1 kwargs
      ++ [pushN a1 (mapSlots kwargs), pushT a1 [tagM]]
  | .functionCall _ kwargs =>
    kwargsTab base loop a kwargs ++ [pushN a (2 * kwargs.length), pushT a [tagM]]
  | .unary _ e => exprTab base loop a e ++ [pushN a 1]
  | .binary op l r =>
    match op with
    | .And | .Or =>
      let cl := exprCode base loop l
      let idx := base + cl.length
      exprTab base loop a l ++ [pushN a 1] ++ exprTab (idx + 1) loop a r
    | .Is | .Pipe => []
    | _ =>
      let cl := exprCode base loop l
      exprTab base loop a l ++ exprTab (base + cl.length) loop (pushN a 1) r ++ [pushN a 2]

def condTab (base : Nat) (loop : Option Nat) (a : ASt) : Option Expr → List ASt
  | some c => exprTab base loop a c
  | none => []

def optExprTab (base : Nat) (loop : Option Nat) (a : ASt) : Option Expr → List ASt
  | some e => exprTab base loop a e
  | none => [a]

def kwargsTab (base : Nat) (loop : Option Nat) (a : ASt) : List (String × Expr) → List ASt
  | [] => []
  | (k, v) :: rest =>
    let c := [sp (.loadConst (nameValue k))] ++ exprCode (base + 1) loop v
    [a] ++ exprTab (base + 1) loop (pushN a 1) v ++ kwargsTab (base + c.length) loop (pushN a 2) rest

def arrayItemsTab (base : Nat) (loop : Option Nat) (a : ASt) : List ArrayEntry → List ASt
  | [] => []
  | .item e :: rest =>
    let c := exprCode base loop e
    exprTab base loop a e ++ arrayItemsTab (base + c.length) loop (pushN a 1) rest
  | .spread e :: rest =>
    let c := exprCode base loop e
    exprTab base loop a e ++ arrayItemsTab (base + c.length) loop (pushN a 1) rest

def mapItemsTab (base : Nat) (loop : Option Nat) (a : ASt) : List MapEntry → List ASt
  | [] => []
  | .keyValue k v :: rest =>
    let c := [sp (.loadConst (keyValue k))] ++ exprCode (base + 1) loop v
    [a] ++ exprTab (base + 1) loop (pushN a 1) v ++ mapItemsTab (base + c.length) loop (pushN a 2) rest
  | .spread e :: rest =>
    let c := exprCode base loop e
    exprTab base loop a e ++ mapItemsTab (base + c.length) loop (pushN a 1) rest

/-- `a`: the state below the captured value (the chain runs on `pushN a 1`) -/
def filtersTab (base : Nat) (loop : Option Nat) (a : ASt) : List Expr → List ASt
  | [] => []
  | .filter _ name kwargs :: rest =>
    let c := kwargsCode base loop kwargs ++ [ns (.buildMap kwargs.length), sp (.applyFilter name)]
    kwargsTab base loop (pushN a 1) kwargs
      ++ [pushN (pushN a 1) (2 * kwargs.length), pushT (pushN a 1) [tagM]]
      ++ filtersTab (base + c.length) loop a rest
  | _ :: rest => filtersTab base loop a rest

def nodeTab (base : Nat) (loop : Option Nat) (a : ASt) : Node → List ASt
  | .content _ => [a]
  | .expression e => exprTab base loop a e ++ [pushN a 1]
  | .set _ value _ => exprTab base loop a value ++ [pushN a 1]
  | .blockSet _ filters body _ =>
    let cb := nodesCode (base + 1) loop body
    [a] ++ nodesTab (base + 1) loop (capUp a) body ++ [capUp a]
      ++ filtersTab (base + 1 + cb.length + 1) loop a filters ++ [pushT a [capTag filters]]
  | .include _ => [a]
  | .block _ _ => [a]
  | .forLoop key value target body elseBody =>
    let ct := exprCode base loop target
    let pre := ct ++ [ns (.startIterate key.isSome), ns (.storeLocal value)] ++ keyStore key
    let startIdx := base + pre.length
    let cb := nodesCode (startIdx + 1) (some startIdx) body
    let loopEnd := startIdx + 1 + cb.length + 1
    let hasElse := !elseBody.isEmpty
    let main := pre ++ [ns (.iterate loopEnd)] ++ cb ++ [ns (.jump startIdx)]
      ++ (if hasElse then [ns .storeDidNotIterate] else []) ++ [ns .popLoop]
    let h := loopUp a none
    let b := loopUp a (some loopEnd)
    let tmain := exprTab base loop a target ++ [pushN a 1, h] ++ keyTab h key ++ [h]
      ++ nodesTab (startIdx + 1) (some startIdx) b body ++ [b]
      ++ (if hasElse then [h, pushT h [tagZ]] else [h])
    if hasElse then
      let idx := base + main.length
      tmain ++ [pushT a [tagZ]] ++ nodesTab (idx + 1) loop a elseBody
    else tmain
  | .break => [a]
  | .continue =>
    match loop with
    | some _ => [a]
    | none => []
  | .if c body falseBody =>
    let cc := exprCode base loop c
    let idx := base + cc.length
    let cb := nodesCode (idx + 1) loop body
    if falseBody.isEmpty then
      exprTab base loop a c ++ [pushN a 1] ++ nodesTab (idx + 1) loop a body
    else
      let idx2 := idx + 1 + cb.length
      exprTab base loop a c ++ [pushN a 1] ++ nodesTab (idx + 1) loop a body ++ [a]
        ++ nodesTab (idx2 + 1) loop a falseBody
  | .filterSection _ kwargs body =>
    let cb := nodesCode (base + 1) loop body
    [a] ++ nodesTab (base + 1) loop (capUp a) body ++ [capUp a]
      ++ kwargsTab (base + 1 + cb.length + 1) loop (pushN a 1) kwargs
      ++ [pushN (pushN a 1) (2 * kwargs.length), pushT (pushN a 1) [tagM], pushN a 1]

def nodesTab (base : Nat) (loop : Option Nat) (a : ASt) : List Node → List ASt
  | [] => []
  | n :: rest =>
    let c := nodeCode base loop n
    nodeTab base loop a n ++ nodesTab (base + c.length) loop a rest
end

/-! ### The table has one entry per instruction -/

@[simp] theorem keyTab_length (a : ASt) (k : Option String) : (keyTab a k).length = (keyStore k).length := by
  cases k <;> rfl

def LenM1 (e : Expr) : Prop :=
  ∀ base loop s, (exprTab base loop s e).length = (exprCode base loop e).length
def LenM2 (ns : List Node) : Prop :=
  ∀ base loop s, (nodesTab base loop s ns).length = (nodesCode base loop ns).length
def LenM3 (n : Node) : Prop :=
  ∀ base loop s, (nodeTab base loop s n).length = (nodeCode base loop n).length
def LenM4 (k : List (String × Expr)) : Prop :=
  ∀ base loop s, (kwargsTab base loop s k).length = (kwargsCode base loop k).length
def LenM5 (f : List Expr) : Prop :=
  ∀ base loop s, (filtersTab base loop s f).length = (filtersCode base loop f).length
def LenM6 (o : Option Expr) : Prop :=
  ∀ base loop s, (condTab base loop s o).length = (condCode base loop o).length
def LenM7 (o : Option Expr) : Prop :=
  ∀ base loop dflt s, (optExprTab base loop s o).length = (optExprCode base loop dflt o).length
def LenM8 (a : List ArrayEntry) : Prop :=
  ∀ base loop s, (arrayItemsTab base loop s a).length = (arrayItemsCode base loop a).length
def LenM9 (m : List MapEntry) : Prop :=
  ∀ base loop s, (mapItemsTab base loop s m).length = (mapItemsCode base loop m).length

theorem tab_length_aux :
    (∀ (_ : Nat) (_ : Option Nat) e, LenM1 e) ∧
    (∀ (_ : Nat) (_ : Option Nat) ns, LenM2 ns) ∧
    (∀ (_ : Nat) (_ : Option Nat) n, LenM3 n) ∧
    (∀ (_ : Nat) (_ : Option Nat) k, LenM4 k) ∧
    (∀ (_ : Nat) (_ : Option Nat) f, LenM5 f) ∧
    (∀ (_ : Nat) (_ : Option Nat) o, LenM6 o) ∧
    (∀ (_ : Nat) (_ : Option Nat) (_ : CInstr) o, LenM7 o) ∧
    (∀ (_ : Nat) (_ : Option Nat) a, LenM8 a) ∧
    (∀ (_ : Nat) (_ : Option Nat) m, LenM9 m) := by
  apply exprCode.mutual_induct
    (motive_1 := fun _ _ e => LenM1 e)
    (motive_2 := fun _ _ ns => LenM2 ns)
    (motive_3 := fun _ _ n => LenM3 n)
    (motive_4 := fun _ _ k => LenM4 k)
    (motive_5 := fun _ _ f => LenM5 f)
    (motive_6 := fun _ _ o => LenM6 o)
    (motive_7 := fun _ _ _ o => LenM7 o)
    (motive_8 := fun _ _ a => LenM8 a)
    (motive_9 := fun _ _ m => LenM9 m)
  all_goals intros
  all_goals simp only [LenM1, LenM2, LenM3, LenM4, LenM5, LenM6, LenM7, LenM8, LenM9] at *
  all_goals intros
  all_goals simp only [exprCode, nodesCode, nodeCode, kwargsCode, filtersCode, condCode, optExprCode,
    arrayItemsCode, mapItemsCode, exprTab, nodesTab, nodeTab, kwargsTab, filtersTab, condTab, optExprTab,
    arrayItemsTab, mapItemsTab] at *
  all_goals (try split)
  all_goals (try (simp (config := { zetaDelta := true }) only [List.length_append, List.length_cons,
    List.length_nil, keyTab_length, *]; done))
  all_goals (try grind [keyTab_length])
  all_goals (simp (config := { zetaDelta := true }) [keyTab_length, *])

end Tera.Compiler.V
