/-
Helper lemmas for C13: the `floor`-then-compare algorithm of `cmp_f64_to_i128/u128` computes the
exact order between a float and an integer.
-/
import TeraModel.Model.Number
import Mathlib.Tactic.Linarith
import Mathlib.Tactic.Ring
namespace Tera

theorem F64.den_pos (x : F64) : 0 < ((x.den : Int)) := by
  cases x <;> simp [F64.den]

theorem cmpInt_lt {a b : Int} : cmpInt a b = .lt ↔ a < b := by
  unfold cmpInt; split
  · simp_all
  · split <;> simp_all

theorem cmpInt_eq {a b : Int} : cmpInt a b = .eq ↔ a = b := by
  unfold cmpInt; split
  · simp; omega
  · split <;> simp_all

theorem cmpInt_gt {a b : Int} : cmpInt a b = .gt ↔ b < a := by
  unfold cmpInt; split
  · simp; omega
  · split
    · simp; omega
    · simp; omega

theorem cmpInt_of_lt {a b : Int} (h : a < b) : cmpInt a b = .lt := cmpInt_lt.2 h
theorem cmpInt_of_eq {a b : Int} (h : a = b) : cmpInt a b = .eq := cmpInt_eq.2 h
theorem cmpInt_of_gt {a b : Int} (h : b < a) : cmpInt a b = .gt := cmpInt_gt.2 h

/-- `floor` written as quotient/remainder. -/
theorem floor_spec (num : Int) (den : Int) (hd : 0 < den) :
    den * (num / den) ≤ num ∧ num < den * (num / den) + den := by
  have h1 := Int.emod_add_mul_ediv num den
  have h2 := Int.emod_nonneg num (ne_of_gt hd)
  have h3 := Int.emod_lt_of_pos num hd
  constructor <;> linarith

/-- The exact integer a float produced by `ofIntExact` denotes. -/
theorem ofIntExact_num (q : Int) : (F64.ofIntExact q).num = q := by
  unfold F64.ofIntExact F64.num
  by_cases h : q < 0
  · simp [h]; rw [abs_of_neg h]; ring
  · simp [h]; omega

theorem ofIntExact_den (q : Int) : (F64.ofIntExact q).den = 1 := by
  simp [F64.ofIntExact, F64.den]

theorem ofIntExact_truncInt (q : Int) : (F64.ofIntExact q).truncInt = q := by
  unfold F64.truncInt
  rw [ofIntExact_num, ofIntExact_den]
  simp

/-- Core lemma: for a finite float `x = num/den` inside `[lo, hi+1)`, comparing `floor x` with `n`
and breaking the tie by `x > floor x` is the exact comparison of `x` with `n`. -/
theorem floor_cmp_exact (num den n : Int) (hd : 0 < den) :
    (match cmpInt (num / den) n with
      | .eq => if (num / den) * den < num then Ordering.gt else Ordering.eq
      | o => o) = cmpInt num (n * den) := by
  obtain ⟨h1, h2⟩ := floor_spec num den hd
  rcases lt_trichotomy (num / den) n with h | h | h
  · rw [cmpInt_of_lt h]
    symm; apply cmpInt_of_lt
    have : den * (num / den) + den ≤ den * n := by nlinarith
    nlinarith
  · rw [cmpInt_of_eq h]
    subst h
    by_cases hr : (num / den) * den < num
    · simp [hr]; symm; exact cmpInt_of_gt hr
    · simp [hr]; symm; apply cmpInt_of_eq; nlinarith
  · rw [cmpInt_of_gt h]
    symm; apply cmpInt_of_gt
    have : den * n + den ≤ den * (num / den) := by nlinarith
    nlinarith

/-- Shared proof of `cmp_f64_to_i128` / `cmp_f64_to_u128`: bounds `lo ≤ n ≤ hi`, the two guards
compare against `lo` and `hi + 1` (both exactly representable), then floor-and-compare. -/
theorem cmpF64_generic (x : F64) (n lo hi : Int) (hlo : lo ≤ n) (hhi : n ≤ hi) :
    (if x.isNan then Ordering.gt
     else if F64.lt x (F64.ofIntExact lo) then .lt
     else if F64.ge x (F64.ofIntExact (hi + 1)) then .gt
     else
      let fl := x.floor
      match cmpInt (F64.satCast lo hi fl) n with
      | .eq => if F64.gt x fl then .gt else .eq
      | o => o) = F64.cmpIntSpec x n := by
  cases x with
  | nan => simp [F64.isNan, F64.cmpIntSpec]
  | inf neg =>
    cases neg <;>
      simp [F64.isNan, F64.cmpIntSpec, F64.lt, F64.ge, F64.partialCmp, F64.ofIntExact]
  | fin neg m e =>
    simp only [F64.isNan, Bool.false_eq_true, if_false]
    generalize hx : F64.fin neg m e = x
    have hd := F64.den_pos x
    have hfin : F64.cmpIntSpec x n = cmpInt x.num (n * (x.den : Int)) := by
      subst hx; rfl
    have hpc : ∀ q : Int, F64.partialCmp x (F64.ofIntExact q)
        = some (cmpInt x.num (q * (x.den : Int))) := by
      intro q; subst hx
      simp only [F64.partialCmp, F64.ofIntExact]
      have h1 := ofIntExact_num q
      have h2 := ofIntExact_den q
      simp only [F64.ofIntExact] at h1 h2
      rw [h1, h2]; simp
    rw [hfin]
    simp only [F64.lt, F64.ge, F64.gt, hpc]
    by_cases c1 : x.num < lo * (x.den : Int)
    · simp [cmpInt_of_lt c1]
      symm; apply cmpInt_of_lt; nlinarith
    · have c1' : cmpInt x.num (lo * (x.den : Int)) ≠ .lt := fun h => c1 (cmpInt_lt.1 h)
      simp [c1']
      by_cases c2 : (hi + 1) * (x.den : Int) ≤ x.num
      · have : cmpInt x.num ((hi + 1) * (x.den : Int)) = .gt ∨
               cmpInt x.num ((hi + 1) * (x.den : Int)) = .eq := by
          rcases lt_or_eq_of_le c2 with h | h
          · left; exact cmpInt_of_gt h
          · right; exact cmpInt_of_eq h.symm
        rcases this with h | h <;> simp [h] <;>
          (symm; apply cmpInt_of_gt; nlinarith)
      · have c2a : cmpInt x.num ((hi + 1) * (x.den : Int)) ≠ .gt := fun h => c2 (le_of_lt (cmpInt_gt.1 h))
        have c2b : cmpInt x.num ((hi + 1) * (x.den : Int)) ≠ .eq := fun h => c2 (le_of_eq (cmpInt_eq.1 h).symm)
        simp [c2a, c2b]
        -- floor is within [lo, hi]
        have hfl : x.floor = F64.ofIntExact x.floorInt := by subst hx; rfl
        obtain ⟨f1, f2⟩ := floor_spec x.num ((x.den : Int)) hd
        have q_lo : lo ≤ x.floorInt := by
          unfold F64.floorInt
          by_contra hc
          have : x.num / (x.den : Int) + 1 ≤ lo := by omega
          nlinarith
        have q_hi : x.floorInt ≤ hi := by
          unfold F64.floorInt
          by_contra hc
          have : hi + 1 ≤ x.num / (x.den : Int) := by omega
          nlinarith
        have hsat : F64.satCast lo hi x.floor = x.floorInt := by
          rw [hfl]
          have := ofIntExact_truncInt x.floorInt
          simp only [F64.ofIntExact] at this ⊢
          simp only [F64.satCast, this]
          have a1 : ¬ x.floorInt < lo := by omega
          have a2 : ¬ x.floorInt > hi := by omega
          simp [a1, a2]
        rw [hsat, hfl, hpc]
        have key := floor_cmp_exact x.num ((x.den : Int)) n hd
        unfold F64.floorInt
        rw [← key]
        rcases hc : cmpInt (x.num / (x.den : Int)) n with _ | _ | _ <;> simp
        by_cases hr : x.num / (x.den : Int) * (x.den : Int) < x.num
        · simp [hr, cmpInt_of_gt hr]
        · simp [hr]
          intro h
          exact hr (cmpInt_gt.1 h)

end Tera
