/-
Helper lemmas for C07: the order `⊑` on abstract states and monotonicity of `step`.
-/
import TeraModel.Model.WellFormed
namespace Tera
namespace WellFormed

theorem leLoops_refl : ∀ l, leLoops l l = true := by
  intro l; induction l with
  | nil => rfl
  | cons x xs ih => simp [leLoops, ih]

theorem leLoops_trans : ∀ a b c, leLoops a b = true → leLoops b c = true → leLoops a c = true := by
  intro a
  induction a with
  | nil => intro b c h1 h2; cases b <;> cases c <;> simp_all [leLoops]
  | cons x xs ih =>
    intro b c h1 h2
    cases b with
    | nil => simp [leLoops] at h1
    | cons y ys =>
      cases c with
      | nil => simp [leLoops] at h2
      | cons z zs =>
        simp only [leLoops, Bool.and_eq_true, Bool.or_eq_true, beq_iff_eq] at h1 h2 ⊢
        refine ⟨?_, ih ys zs h1.2 h2.2⟩
        rcases h2.1 with hz | hyz
        · exact Or.inl hz
        · rcases h1.1 with hy | hxy
          · left; rw [← hyz]; exact hy
          · right; rw [hxy]; exact hyz

theorem leStack_refl : ∀ l, leStack l l = true := by
  intro l; induction l with
  | nil => rfl
  | cons x xs ih => cases x <;> simp [leStack, ih]

theorem leStack_trans : ∀ a b c, leStack a b = true → leStack b c = true → leStack a c = true := by
  intro a
  induction a with
  | nil => intro b c h1 h2; cases b <;> cases c <;> simp_all [leStack]
  | cons x xs ih =>
    intro b c h1 h2
    cases b with
    | nil => simp [leStack] at h1
    | cons y ys =>
      cases c with
      | nil => simp [leStack] at h2
      | cons z zs =>
        simp only [leStack, Bool.and_eq_true] at h1 h2 ⊢
        refine ⟨?_, ih ys zs h1.2 h2.2⟩
        cases x <;> cases y <;> cases z <;> simp_all

theorem leStack_length : ∀ a b, leStack a b = true → a.length = b.length := by
  intro a
  induction a with
  | nil => intro b h; cases b <;> simp_all [leStack]
  | cons x xs ih =>
    intro b h
    cases b with
    | nil => simp [leStack] at h
    | cons y ys =>
      simp only [leStack, Bool.and_eq_true] at h
      simp [ih ys h.2]

theorem leStack_drop : ∀ (n : Nat) a b, leStack a b = true → leStack (a.drop n) (b.drop n) = true := by
  intro n
  induction n with
  | zero => intro a b h; simpa using h
  | succ n ih =>
    intro a b h
    cases a with
    | nil => cases b <;> simp_all [leStack]
    | cons x xs =>
      cases b with
      | nil => simp [leStack] at h
      | cons y ys =>
        simp only [leStack, Bool.and_eq_true] at h
        simpa using ih xs ys h.2

theorem St.le_refl (a : St) : a.le a = true := by simp [St.le, leLoops_refl, leStack_refl]

theorem St.le_trans (a b c : St) (h1 : a.le b = true) (h2 : b.le c = true) : a.le c = true := by
  simp only [St.le, Bool.and_eq_true, beq_iff_eq] at h1 h2 ⊢
  exact ⟨⟨leStack_trans _ _ _ h1.1.1 h2.1.1, h1.1.2.trans h2.1.2⟩, leLoops_trans _ _ _ h1.2 h2.2⟩

theorem St.le_empty (a : St) (h : a.le St.empty = true) : a = St.empty := by
  obtain ⟨st, ls, k⟩ := a
  simp only [St.le, St.empty, Bool.and_eq_true, beq_iff_eq] at h
  obtain ⟨⟨h1, h2⟩, h3⟩ := h
  cases ls with
  | nil =>
    cases st with
    | nil => simp_all [St.empty]
    | cons x xs => simp [leStack] at h1
  | cons x xs => simp [leLoops] at h3

/-- successor lists related pointwise: same target, described state -/
def SuccLe : List (Nat × St) → List (Nat × St) → Prop
  | [], [] => True
  | x :: xs, y :: ys => x.1 = y.1 ∧ x.2.le y.2 = true ∧ SuccLe xs ys
  | _, _ => False

theorem SuccLe.mem : ∀ {xs ys : List (Nat × St)}, SuccLe xs ys → ∀ x ∈ xs,
    ∃ y ∈ ys, x.1 = y.1 ∧ x.2.le y.2 = true := by
  intro xs
  induction xs with
  | nil => intro ys _ x hx; cases hx
  | cons a as ih =>
    intro ys h x hx
    cases ys with
    | nil => exact absurd h (by simp [SuccLe])
    | cons b bs =>
      obtain ⟨h1, h2, h3⟩ := h
      rcases List.mem_cons.mp hx with rfl | hx'
      · exact ⟨b, by simp, h1, h2⟩
      · obtain ⟨y, hy, hh⟩ := ih h3 x hx'
        exact ⟨y, List.mem_cons_of_mem _ hy, hh⟩

/-- If the description `b` lets an instruction through, every state it describes gets through
too, and its successors are described by the successors of `b`. -/
theorem step_mono (op : Op) (pc : Nat) (s b : St) (hle : s.le b = true)
    (succsB : List (Nat × St)) (hb : step op pc b = some succsB) :
    ∃ succsS, step op pc s = some succsS ∧ SuccLe succsS succsB := by
  obtain ⟨st, ls, k⟩ := s
  obtain ⟨stb, lb, kb⟩ := b
  simp only [St.le, Bool.and_eq_true, beq_iff_eq] at hle
  obtain ⟨⟨h1, h2⟩, h3⟩ := hle
  subst h2
  have hlen := leStack_length _ _ h1
  cases op with
  | push bb =>
    simp only [step, Option.some.injEq] at hb ⊢; subst hb
    exact ⟨_, rfl, by cases bb <;> simp [SuccLe, St.le, leStack, h1, h3]⟩
  | popPush n bb =>
    simp only [step] at hb ⊢
    by_cases hn : n ≤ stb.length
    · have hn' : n ≤ st.length := by omega
      simp only [hn, hn', ↓reduceIte, Option.some.injEq] at hb ⊢; subst hb
      exact ⟨_, rfl, by cases bb <;> simp [SuccLe, St.le, leStack, leStack_drop n _ _ h1, h3]⟩
    · simp [hn] at hb
  | pop n =>
    simp only [step] at hb ⊢
    by_cases hn : n ≤ stb.length
    · have hn' : n ≤ st.length := by omega
      simp only [hn, hn', ↓reduceIte, Option.some.injEq] at hb ⊢; subst hb
      exact ⟨_, rfl, by simp [SuccLe, St.le, leStack_drop n _ _ h1, h3]⟩
    · simp [hn] at hb
  | nop =>
    simp only [step, Option.some.injEq] at hb ⊢; subst hb
    exact ⟨_, rfl, by simp [SuccLe, St.le, h1, h3]⟩
  | jump t =>
    simp only [step, Option.some.injEq] at hb ⊢; subst hb
    exact ⟨_, rfl, by simp [SuccLe, St.le, h1, h3]⟩
  | popJumpIfFalse t =>
    cases stb with
    | nil => simp [step] at hb
    | cons y restb =>
      cases st with
      | nil => simp at hlen
      | cons x rest =>
        have hr : leStack rest restb = true := by
          simp only [leStack, Bool.and_eq_true] at h1; exact h1.2
        simp only [step, Option.some.injEq] at hb ⊢; subst hb
        exact ⟨_, rfl, by simp [SuccLe, St.le, hr, h3]⟩
  | jumpOrPop t =>
    cases stb with
    | nil => simp [step] at hb
    | cons y restb =>
      cases st with
      | nil => simp at hlen
      | cons x rest =>
        have hr : leStack rest restb = true := by
          simp only [leStack, Bool.and_eq_true] at h1; exact h1.2
        simp only [step, Option.some.injEq] at hb ⊢; subst hb
        exact ⟨_, rfl, by simp [SuccLe, St.le, hr, h1, h3]⟩
  | capture =>
    simp only [step, Option.some.injEq] at hb ⊢; subst hb
    exact ⟨_, rfl, by simp [SuccLe, St.le, h1, h3]⟩
  | endCapture =>
    simp only [step] at hb ⊢
    by_cases hk : 0 < k
    · simp only [hk, ↓reduceIte, Option.some.injEq] at hb ⊢; subst hb
      exact ⟨_, rfl, by simp [SuccLe, St.le, leStack, h1, h3]⟩
    · simp [hk] at hb
  | startIterate =>
    cases stb with
    | nil => simp [step] at hb
    | cons y restb =>
      cases st with
      | nil => simp at hlen
      | cons x rest =>
        have hr : leStack rest restb = true := by
          simp only [leStack, Bool.and_eq_true] at h1; exact h1.2
        simp only [step, Option.some.injEq] at hb ⊢; subst hb
        exact ⟨_, rfl, by simp [SuccLe, St.le, leLoops, hr, h3]⟩
  | storeLocal =>
    cases lb with
    | nil => simp [step] at hb
    | cons y ys =>
      cases ls with
      | nil => simp [leLoops] at h3
      | cons x xs =>
        simp only [step, Option.some.injEq] at hb ⊢; subst hb
        exact ⟨_, rfl, by simp [SuccLe, St.le, h1, h3]⟩
  | iterate t =>
    cases lb with
    | nil => simp [step] at hb
    | cons y ys =>
      cases ls with
      | nil => simp [leLoops] at h3
      | cons x xs =>
        simp only [step, Option.some.injEq] at hb ⊢; subst hb
        have h4 : leLoops xs ys = true := by
          simp only [leLoops, Bool.and_eq_true] at h3; exact h3.2
        have h5 : y = none ∨ x = y := by
          simpa [leLoops] using (by simp only [leLoops, Bool.and_eq_true] at h3; exact h3.1 :
            (y == none || x == y) = true)
        exact ⟨_, rfl, by simp [SuccLe, St.le, leLoops, h1, h4, h5]⟩
  | storeDidNotIterate =>
    cases lb with
    | nil => simp [step] at hb
    | cons y ys =>
      cases ls with
      | nil => simp [leLoops] at h3
      | cons x xs =>
        simp only [step, Option.some.injEq] at hb ⊢; subst hb
        exact ⟨_, rfl, by simp [SuccLe, St.le, leStack, h1, h3]⟩
  | break_ =>
    cases lb with
    | nil => simp [step] at hb
    | cons y ys =>
      cases y with
      | none => simp [step] at hb
      | some t =>
        cases ls with
        | nil => simp [leLoops] at h3
        | cons x xs =>
          have hx : x = some t := by
            simp only [leLoops, Bool.and_eq_true, Bool.or_eq_true, beq_iff_eq] at h3
            rcases h3.1 with h | h
            · cases h
            · exact h
          subst hx
          simp only [step, Option.some.injEq] at hb ⊢; subst hb
          exact ⟨_, rfl, by simp [SuccLe, St.le, h1, h3]⟩
  | popLoop =>
    cases lb with
    | nil => simp [step] at hb
    | cons y ys =>
      cases ls with
      | nil => simp [leLoops] at h3
      | cons x xs =>
        simp only [step, Option.some.injEq] at hb ⊢; subst hb
        have h4 : leLoops xs ys = true := by
          simp only [leLoops, Bool.and_eq_true] at h3; exact h3.2
        exact ⟨_, rfl, by simp [SuccLe, St.le, h1, h4]⟩
  | appendToList =>
    match stb, hb with
    | yv :: true :: restb, hb =>
      match st, h1 with
      | xv :: true :: rest, h1 =>
        have hr : leStack rest restb = true := by
          simp only [leStack, Bool.and_eq_true] at h1; exact h1.2.2
        simp only [step, Option.some.injEq] at hb ⊢; subst hb
        exact ⟨_, rfl, by simp [SuccLe, St.le, leStack, hr, h3]⟩
      | _ :: false :: _, h1 => simp [leStack] at h1
      | [_], h1 => simp [leStack] at h1
      | [], h1 => simp [leStack] at h1
    | [], hb => simp [step] at hb
    | [_], hb => simp [step] at hb
    | _ :: false :: _, hb => simp [step] at hb

/-! ## Frames: a chunk that runs on top of its caller's stacks -/

/-- `s` on top of `base` -/
def St.frame (s base : St) : St :=
  ⟨s.stack ++ base.stack, s.loops ++ base.loops, s.caps + base.caps⟩

theorem St.empty_frame (base : St) : St.empty.frame base = base := by
  simp [St.frame, St.empty]

/-- An instruction that gets through on `s` does exactly the same on `s` on top of any `base`:
it only looks at the part of the stacks `s` accounts for. -/
theorem step_frame (op : Op) (pc : Nat) (s base : St) (succs : List (Nat × St))
    (h : step op pc s = some succs) :
    step op pc (s.frame base) = some (succs.map fun x => (x.1, x.2.frame base)) := by
  obtain ⟨st, ls, k⟩ := s
  obtain ⟨bst, bls, bk⟩ := base
  cases op with
  | push bb =>
    simp only [step, Option.some.injEq] at h; subst h; simp [step, St.frame]
  | popPush n bb =>
    simp only [step] at h
    by_cases hn : n ≤ st.length
    · simp only [hn, ↓reduceIte, Option.some.injEq] at h; subst h
      have : n ≤ st.length + bst.length := by omega
      simp [step, St.frame, this, List.drop_append_of_le_length hn]
    · simp [hn] at h
  | pop n =>
    simp only [step] at h
    by_cases hn : n ≤ st.length
    · simp only [hn, ↓reduceIte, Option.some.injEq] at h; subst h
      have : n ≤ st.length + bst.length := by omega
      simp [step, St.frame, this, List.drop_append_of_le_length hn]
    · simp [hn] at h
  | nop => simp only [step, Option.some.injEq] at h; subst h; simp [step, St.frame]
  | jump t => simp only [step, Option.some.injEq] at h; subst h; simp [step, St.frame]
  | popJumpIfFalse t =>
    cases st with
    | nil => simp [step] at h
    | cons x rest => simp only [step, Option.some.injEq] at h; subst h; simp [step, St.frame]
  | jumpOrPop t =>
    cases st with
    | nil => simp [step] at h
    | cons x rest => simp only [step, Option.some.injEq] at h; subst h; simp [step, St.frame]
  | capture =>
    simp only [step, Option.some.injEq] at h; subst h; simp [step, St.frame]; omega
  | endCapture =>
    simp only [step] at h
    by_cases hk : 0 < k
    · simp only [hk, ↓reduceIte, Option.some.injEq] at h; subst h
      have : 0 < k + bk := by omega
      simp [step, St.frame, this]; omega
    · simp [hk] at h
  | startIterate =>
    cases st with
    | nil => simp [step] at h
    | cons x rest => simp only [step, Option.some.injEq] at h; subst h; simp [step, St.frame]
  | storeLocal =>
    cases ls with
    | nil => simp [step] at h
    | cons x xs => simp only [step, Option.some.injEq] at h; subst h; simp [step, St.frame]
  | iterate t =>
    cases ls with
    | nil => simp [step] at h
    | cons x xs => simp only [step, Option.some.injEq] at h; subst h; simp [step, St.frame]
  | storeDidNotIterate =>
    cases ls with
    | nil => simp [step] at h
    | cons x xs => simp only [step, Option.some.injEq] at h; subst h; simp [step, St.frame]
  | break_ =>
    cases ls with
    | nil => simp [step] at h
    | cons x xs =>
      cases x with
      | none => simp [step] at h
      | some t => simp only [step, Option.some.injEq] at h; subst h; simp [step, St.frame]
  | popLoop =>
    cases ls with
    | nil => simp [step] at h
    | cons x xs => simp only [step, Option.some.injEq] at h; subst h; simp [step, St.frame]
  | appendToList =>
    match st, h with
    | _ :: true :: rest, h =>
      simp only [step, Option.some.injEq] at h; subst h; simp [step, St.frame]
    | [], h => simp [step] at h
    | [_], h => simp [step] at h
    | _ :: false :: _, h => simp [step] at h

end WellFormed
end Tera
