/-
Compiler correctness (Props/Refine.lean), part 4: statements.

`node_sim` / `nodes_sim`: for every statement of the core `InCoreNode lf Inc inLoop` — template text,
`{{ e }}`, `{% set %}` / `{% set_global %}`, `{% if %}` / `{% elif %}` / `{% else %}` (an `elif`
is an `if` in the else branch), `{% filter %}` sections, `{% set %}` blocks with filter chains,
and, outside the loop-free core (`lf = false`), `{% for %}` loops (key / value, `{% else %}`,
nested) with `{% break %}` / `{% continue %}` inside loop bodies (`inLoop = true`) and
`{% include %}` of the templates `Inc` (related by `TemplatesRel`), all over expressions of
`InCore lf` — compiled at any index, from any VM state `st` whose scope, output
and capture stack correspond to the evaluator's statement state `est` (`StSim`):

* `execNode fuel eenv vm.autoescape est n = .ok (est', sig)` ⟹ the interpreter loop runs from
  `base` and ends in `withSc st est' sc'`: the SAME value stack and block bookkeeping, the
  evaluator's output and capture stack (so the text written, escaped or not, is the evaluator's),
  and a scope `sc'` corresponding to the evaluator's (`ScopeSim`: the variables assigned are the
  evaluator's) whose loops have the same `end_ip`s as before; it stops
    - at `base + |code|` when `sig` is `normal`,
    - at the `end_ip` of the innermost loop when `sig` is `brk` (what `Break` jumps to),
    - at the compiler's current loop index when `sig` is `cont` (what `continue` compiles to);
* an error ⟹ a rendering error of the same class; never a panic;

whatever the nested interpreter `rec` is — except at an `Include`, the only instruction of the
fragment that calls it: there the run (`RunI` / `FailsI`, Lemmas/RefineRunI.lean) records what the
nested call does for every large enough fuel (`InclDone` / `InclErr`), which `node_step` takes from
an ORACLE (`IncOracle`: the nested call writes what the evaluator writes for the included body).
With `TemplatesRel` (included templates hold their compiled, unoptimised bodies) the oracle is the
induction hypothesis at the included template's VM and chunk (`NodeSimAll`: the statement for
every VM and chunk; `incOracle_of_templatesRel`); Props/RefineE2E.lean supplies it for stored,
optimised chunks instead (`nodeSimAt_of_oracle`).  Induction on
the evaluator's fuel (`NodeSimAt`: statements, statement lists, the loop of a `for`), on top of
`expr_sim` / `kwargs_sim`.  Not covered: `block`, component calls (the evaluator does not model
them: `Err.unsupported`).
-/
import TeraModel.Lemmas.RefineExpr
import TeraModel.Lemmas.RefineRunI
set_option linter.unusedSimpArgs false
namespace Tera.Refine
open Tera Tera.Vm Tera.Compiler

/-- the evaluator's statement state `est` against the VM state `st` -/
def StSim (est : Tera.St) (st : State) : Prop :=
  ScopeSim est.scope st.scope ∧ est.out = st.out ∧ est.captures = st.captures

/-- the VM state with the evaluator's output and capture stack, and the scope `sc'` -/
def withSc (st : State) (est : Tera.St) (sc' : Scope) : State :=
  { st with scope := sc', out := est.out, captures := est.captures }

theorem StSim.withSc {est' : Tera.St} {sc' : Scope} (st : State) (h : ScopeSim est'.scope sc') :
    StSim est' (withSc st est' sc') := ⟨h, rfl, rfl⟩

theorem withSc_self {est : Tera.St} {st : State} (h : StSim est st) : withSc st est st.scope = st := by
  obtain ⟨_, h2, h3⟩ := h
  simp only [withSc, h2, h3]

theorem withSc_withSc (st : State) (e1 e2 : Tera.St) (s1 s2 : Scope) :
    withSc (withSc st e1 s1) e2 s2 = withSc st e2 s2 := rfl

theorem withSc_write {est : Tera.St} {st : State} (h : StSim est st) (t : List Char) :
    withSc st (est.write t) st.scope = st.write t := by
  obtain ⟨_, h2, h3⟩ := h
  simp only [St.write, State.write, withSc, h2, h3]
  cases st.captures <;> rfl

theorem St.write_scope (est : Tera.St) (t : List Char) : (est.write t).scope = est.scope := by
  unfold St.write; split <;> rfl

/-! ### the code of a `for` loop, in pieces -/

/-- the iterable, `StartIterate`, the `StoreLocal`s -/
def forPre (base : Nat) (loop : Option Nat) (key : Option String) (value : String) (target : Expr) : Code :=
  exprCode base loop target ++ [ns (.startIterate key.isSome), ns (.storeLocal value)] ++ keyStore key

/-- `Iterate(loop_end)`, the body (compiled with the loop as the current one), `Jump(start_idx)` -/
def forLoopCode (startIdx : Nat) (body : List Node) : Code :=
  [ns (.iterate (startIdx + 1 + (nodesCode (startIdx + 1) (some startIdx) body).length + 1))]
    ++ nodesCode (startIdx + 1) (some startIdx) body ++ [ns (.jump startIdx)]

theorem nodeCode_for_noelse (base : Nat) (loop : Option Nat) (key : Option String) (value : String)
    (target : Expr) (body : List Node) :
    nodeCode base loop (.forLoop key value target body [])
      = forPre base loop key value target
        ++ forLoopCode (base + (forPre base loop key value target).length) body ++ [ns .popLoop] := by
  simp [nodeCode, forPre, forLoopCode, List.append_assoc]

theorem nodeCode_for_else (base : Nat) (loop : Option Nat) (key : Option String) (value : String)
    (target : Expr) (body elseBody : List Node) (he : elseBody.isEmpty = false) :
    ∃ idx, idx = base + (forPre base loop key value target).length
          + (forLoopCode (base + (forPre base loop key value target).length) body).length + 2
      ∧ nodeCode base loop (.forLoop key value target body elseBody)
      = forPre base loop key value target
        ++ forLoopCode (base + (forPre base loop key value target).length) body
        ++ [ns .storeDidNotIterate, ns .popLoop]
        ++ [ns (.popJumpIfFalse (idx + 1 + (nodesCode (idx + 1) loop elseBody).length))]
        ++ nodesCode (idx + 1) loop elseBody := by
  refine ⟨base + (forPre base loop key value target
        ++ forLoopCode (base + (forPre base loop key value target).length) body
        ++ [ns .storeDidNotIterate, ns .popLoop]).length, ?_, ?_⟩
  · simp only [List.length_append, List.length_cons, List.length_nil]; omega
  · simp only [nodeCode, he, Bool.not_false, if_true, forPre, forLoopCode, List.append_assoc,
      List.cons_append, List.nil_append, List.length_append, List.length_cons, List.length_nil]

theorem forLoops_setTopLoop_cons {sc : Scope} {lv : ForLoop} {lvs : List ForLoop} (l : ForLoop)
    (h : sc.forLoops = lv :: lvs) : (sc.setTopLoop l).forLoops = l :: lvs := by
  rw [forLoops_setTopLoop, h]

theorem iterate_endIp {l b : ForLoop} {t : Nat} (h : l.iterate t = some b) : b.endIp = t := by
  unfold ForLoop.iterate at h
  split at h
  · cases h
  · simp only [Option.some.injEq] at h; subst h; rfl

/-- the loop a `for` statement enters with: `ForLoop::new`, then the `StoreLocal`s -/
def forLoopOf (items : List LoopItem) (key : Option String) (value : String) : ForLoop :=
  match key with
  | none => (ForLoop.new items).storeLocalName value
  | some k => ((ForLoop.new items).storeLocalName value).storeLocalName k

/-- the evaluator's `for` arm up to the end of the loop: the statement state `execFor` leaves -/
def forHead (fuel : Nat) (eenv : Tera.Env) (ae : Bool) (est : Tera.St) (key : Option String)
    (value : String) (target : Expr) (body : List Node) : Except Err Tera.St :=
  match evalExpr fuel eenv est.scope target with
  | .error e => .error e
  | .ok tv =>
    match iterItems tv with
    | none => .error .iteration
    | some items =>
      if key.isSome && !tv.isMap then .error .iteration
      else execFor fuel eenv ae { est with scope := est.scope.pushLoop (forLoopOf items key value) } body

/-- … and after it: `StoreDidNotIterate`, `PopLoop`, the else branch -/
def forTail (fuel : Nat) (eenv : Tera.Env) (ae : Bool) (est1 : Tera.St) (elseBody : List Node) :
    Except Err (Tera.St × Sig) :=
  let didNotIterate := match est1.scope.forLoops with
    | l :: _ => !l.iterated
    | [] => false
  let st2 : Tera.St := { est1 with scope := est1.scope.popLoop }
  if !elseBody.isEmpty && didNotIterate then execNodes fuel eenv ae st2 elseBody
  else .ok (st2, .normal)

theorem execNode_for (fuel : Nat) (eenv : Tera.Env) (ae : Bool) (est : Tera.St) (key : Option String)
    (value : String) (target : Expr) (body elseBody : List Node) :
    execNode (fuel + 1) eenv ae est (.forLoop key value target body elseBody)
      = match forHead fuel eenv ae est key value target body with
        | .error e => .error e
        | .ok est1 => forTail fuel eenv ae est1 elseBody := by
  simp only [execNode, forHead, forTail]
  cases evalExpr fuel eenv est.scope target with
  | error e => rfl
  | ok tv =>
    simp only
    cases iterItems tv with
    | none => rfl
    | some items =>
      simp only
      split
      · rfl
      · cases key <;> simp only [forLoopOf] <;> (rename_i h; cases hx : execFor fuel eenv ae _ body <;> rfl)
/-- The statements `node_sim` covers; `inLoop`: a `for` body is around the statement with nothing
but `if`s in between (parser.rs `body_contexts`, `Compiler.nodeScoped`). -/
inductive InCoreNode (lf : Bool) (Inc : String → Prop) : Bool → Node → Prop
  | content {inLoop : Bool} (t : String) : InCoreNode lf Inc inLoop (.content t)
  | expression {inLoop : Bool} {e : Expr} : InCore lf e → InCoreNode lf Inc inLoop (.expression e)
  | set {inLoop : Bool} {e : Expr} (name : String) (global : Bool) : InCore lf e →
      InCoreNode lf Inc inLoop (.set name e global)
  | «if» {inLoop : Bool} {cnd : Expr} {body falseBody : List Node} : InCore lf cnd →
      (∀ n ∈ body, InCoreNode lf Inc inLoop n) → (∀ n ∈ falseBody, InCoreNode lf Inc inLoop n) →
      InCoreNode lf Inc inLoop (.if cnd body falseBody)
  /-- `{% include "name" %}` of a template that may be included (`Inc`; `TemplatesRel` says what
  that takes), only outside the loop-free core -/
  | «include» {inLoop : Bool} (name : String) : lf = false → Inc name →
      InCoreNode lf Inc inLoop (.include name)
  | «break» : InCoreNode lf Inc true .break
  | «continue» : InCoreNode lf Inc true .continue
  /-- `{% filter name(k = v, …) %} body {% endfilter %}`: the body is rendered into a capture
  buffer (no `break` / `continue` across it) -/
  | filterSection {inLoop : Bool} (name : String) {kwargs : List (String × Expr)} {body : List Node} :
      (∀ p ∈ kwargs, InCore lf p.2) → (kwargs.map (·.1)).Nodup → (∀ n ∈ body, InCoreNode lf Inc false n) →
      InCoreNode lf Inc inLoop (.filterSection name kwargs body)
  /-- `{% set name | f | g %} body {% endset %}` / `set_global`: every filter is a filter node -/
  | blockSet {inLoop : Bool} (name : String) (global : Bool) {filters : List Expr} {body : List Node} :
      (∀ f ∈ filters, ∃ src fname kwargs, f = .filter src fname kwargs
        ∧ (∀ p ∈ kwargs, InCore lf p.2) ∧ (kwargs.map (·.1)).Nodup) →
      (∀ n ∈ body, InCoreNode lf Inc false n) →
      InCoreNode lf Inc inLoop (.blockSet name filters body global)
  /-- `{% for key, value in target %} body {% else %} elseBody {% endfor %}` (only outside the
  loop-free core); the body is a loop body, the else branch is where the loop is -/
  | forLoop {inLoop : Bool} (key : Option String) (value : String) {target : Expr}
      {body elseBody : List Node} : lf = false → InCore lf target →
      (∀ n ∈ body, InCoreNode lf Inc true n) → (∀ n ∈ elseBody, InCoreNode lf Inc inLoop n) →
      InCoreNode lf Inc inLoop (.forLoop key value target body elseBody)

section
variable (venv : Vm.Env) (vm : VmCtx) (c : Chunk) (lf : Bool) (Inc : String → Prop)

/-- where the run of a statement with signal `sig` stops -/
def SigRun (loop : Option Nat) (sig : Sig) (base len : Nat) (st : State) (tr : List Nat)
    (st' : State) : Prop :=
  match sig with
  | .normal => RunI venv vm c base st tr (base + len) st'
  | .brk => ∃ l rest, st'.scope.forLoops = l :: rest ∧ RunI venv vm c base st tr l.endIp st'
  | .cont => ∃ idx, loop = some idx ∧ RunI venv vm c base st tr idx st'

/-- What the VM does on the code (at `base`, `len` instructions) of a statement (list) whose
evaluator result is `r`, started in state `st`. -/
def NodeOutcome (loop : Option Nat) (r : Except Err (Tera.St × Sig)) (base len : Nat) (st : State) :
    Prop :=
  match r with
  | .ok (est', sig) => ∃ tr sc', ScopeSim est'.scope sc' ∧ ends sc'.forLoops = ends st.scope.forLoops
      ∧ SigRun venv vm c loop sig base len st tr (withSc st est' sc')
      ∧ Within base (base + len) tr ∧ (lf = true → tr.length ≤ len)
  | .error err => reportable err = true →
      ∃ tr re, FailsI venv vm c base st tr re ∧ errMatch err re = true
        ∧ Within base (base + len) tr ∧ (lf = true → tr.length ≤ len)

/-- The loop of a `for` statement (`forLoopCode`, `len` instructions at `startIdx`), entered with
the loop on top of the loop stack: it ends at `startIdx + len` (after the closing `Jump`) in a
scope that differs from the initial one in the innermost loop only. -/
def ForOutcome (r : Except Err Tera.St) (startIdx len : Nat) (st : State) : Prop :=
  match r with
  | .ok est' => ∃ tr sc', RunI venv vm c startIdx st tr (startIdx + len) (withSc st est' sc')
      ∧ ScopeSim est'.scope sc' ∧ ends sc'.forLoops.tail = ends st.scope.forLoops.tail
      ∧ sc'.forLoops ≠ [] ∧ Within startIdx (startIdx + len) tr
  | .error err => reportable err = true →
      ∃ tr re, FailsI venv vm c startIdx st tr re ∧ errMatch err re = true
        ∧ Within startIdx (startIdx + len) tr

/-- From the start of a `for` statement to the end of its loop (`len` = the iterable, the loop
set-up and the loop): the loop is still on the loop stack. -/
def ForHeadOutcome (r : Except Err Tera.St) (base len : Nat) (st : State) : Prop :=
  match r with
  | .ok est1 => ∃ tr sc1, RunI venv vm c base st tr (base + len) (withSc st est1 sc1)
      ∧ ScopeSim est1.scope sc1 ∧ ends sc1.forLoops.tail = ends st.scope.forLoops
      ∧ sc1.forLoops ≠ [] ∧ Within base (base + len) tr
  | .error err => reportable err = true →
      ∃ tr re, FailsI venv vm c base st tr re ∧ errMatch err re = true
        ∧ Within base (base + len) tr

variable (eenv : Tera.Env)

/-- what a loop body may assume: the compiler has a current loop and the VM an active one -/
def LoopCtx (inLoop : Bool) (loop : Option Nat) (st : State) : Prop :=
  inLoop = true → loop.isSome = true ∧ st.scope.forLoops ≠ []

structure NodeSimAt (fuel : Nat) : Prop where
  node : ∀ (inLoop : Bool) (n : Node), InCoreNode lf Inc inLoop n →
    ∀ (base : Nat) (loop : Option Nat) (st : State) (est : Tera.St), StSim est st →
    LoopCtx inLoop loop st → CodeAt c base (nodeCode base loop n) →
    NodeOutcome venv vm c lf loop (execNode fuel eenv vm.autoescape est n) base
      (nodeCode base loop n).length st
  nodes : ∀ (inLoop : Bool) (ns : List Node), (∀ n ∈ ns, InCoreNode lf Inc inLoop n) →
    ∀ (base : Nat) (loop : Option Nat) (st : State) (est : Tera.St), StSim est st →
    LoopCtx inLoop loop st → CodeAt c base (nodesCode base loop ns) →
    NodeOutcome venv vm c lf loop (execNodes fuel eenv vm.autoescape est ns) base
      (nodesCode base loop ns).length st
  for_ : ∀ (body : List Node), (∀ n ∈ body, InCoreNode lf Inc true n) →
    ∀ (startIdx : Nat) (st : State) (est : Tera.St), StSim est st →
    CodeAt c startIdx (forLoopCode startIdx body) →
    ForOutcome venv vm c (execFor fuel eenv vm.autoescape est body) startIdx
      (forLoopCode startIdx body).length st
end

/-- What `{% include %}` needs of the two template tables, for the names `Inc` that may be
included: the evaluator has the template exactly when the VM has it; the VM's template holds the
compiled body of the evaluator's AST (`nodesCode 0 none`, embedded) under its own name, with the
same autoescape flag; and the body is in the core again (with the same `Inc`). -/
structure TemplatesRel (venv : Vm.Env) (eenv : Tera.Env) (lf : Bool) (Inc : String → Prop) : Prop where
  rel : ∀ name, Inc name →
    match eenv.template name with
    | none => venv.template name = none
    | some t => ∃ tpl vcode, venv.template name = some tpl ∧ tpl.chunk = ⟨tpl.name, vcode⟩
        ∧ embed (nodesCode 0 none t.nodes) = some vcode ∧ tpl.autoescape = t.autoescape
        ∧ (∀ n ∈ t.nodes, InCoreNode lf Inc false n)

/-- the simulation statements at one level of evaluator fuel, for every chunk and every VM that
renders with the templates' own autoescape flags (as `Tera::render` does) -/
def NodeSimAll (venv : Vm.Env) (lf : Bool) (Inc : String → Prop) (eenv : Tera.Env) (fuel : Nat) : Prop :=
  ∀ (vm : VmCtx) (c : Chunk), reportTargetOk venv vm c = true → vm.autoescapeOverride = none →
    NodeSimAt venv vm c lf Inc eenv fuel

/-- What the simulation of `{% include "name" %}` uses, at one level of evaluator fuel: the evaluator
has the template exactly when the VM has it, and the NESTED CALL of the interpreter on the VM's
chunk for it (whatever that chunk is: compiled, or compiled and optimised) does what the evaluator
does on the template's body: ends normally having written the same text (`InclDone`), or fails
with an error of the evaluator's class (`InclErr`).  `TemplatesRel` gives this for unoptimised
chunks (`incOracle_of_templatesRel`); Props/RefineE2E.lean gives it for the stored, optimised
chunks, through C09's optimiser theorem. -/
def IncOracle (venv : Vm.Env) (eenv : Tera.Env) (Inc : String → Prop) (fuel : Nat) : Prop :=
  ∀ (vm : VmCtx), vm.autoescapeOverride = none → ∀ name, Inc name →
    ∀ (st : State) (est : Tera.St), StSim est st →
    match eenv.template name with
    | none => venv.template name = none
    | some t => ∃ tpl, venv.template name = some tpl ∧
      match execNodes fuel eenv t.autoescape
          { scope := Scope.included est.scope, out := [], captures := [] } t.nodes with
      | .error err => reportable err = true → ∃ re, errMatch err re = true ∧ InclErr venv vm tpl st re
      | .ok p => p.2 = .normal → ∃ stN, InclDone venv vm tpl st stN ∧ stN.out = p.1.out

section
variable {venv : Vm.Env} {vm : VmCtx} {c : Chunk}
  {eenv : Tera.Env} {lf : Bool} {Inc : String → Prop}

/-! ### instructions -/

theorem run_writeText {pc : Nat} {t : String} (h : EntryAt c pc (ns (.writeText t))) (st : State) :
    RunI venv vm c pc st [pc] (pc + 1) (st.write t.toList) := by
  obtain ⟨vi, sps, hv, hc, _⟩ := h
  simp only [ns, Pipeline.vinstr, Option.some.injEq] at hv
  subst hv
  exact RunI.one hc (by intro rec; simp only [step])

theorem writeTop_sim {pc : Nat} (h : EntryAt c pc (ns .writeTop)) (hE : EnvRel venv eenv)
    (ht : reportTargetOk venv vm c = true) (st : State) (est : Tera.St) (hst : StSim est st)
    (v : Value) (rg : SpanRange) (hsp : SpanOk c rg) :
    match writeValue eenv vm.autoescape est v with
    | .ok est' => RunI venv vm c pc (st.push v rg) [pc] (pc + 1) (withSc st est' st.scope)
        ∧ est'.scope = est.scope
    | .error err => ∃ re, FailsI venv vm c pc (st.push v rg) [pc] re ∧ errMatch err re = true := by
  obtain ⟨vi, sps, hv, hc, _⟩ := h
  simp only [ns, Pipeline.vinstr, Option.some.injEq] at hv
  subst hv
  unfold writeValue
  by_cases hu : v.isUndef = true
  · rw [if_pos hu]
    refine ⟨.undefinedRender, FailsI.here hc ?_, rfl⟩
    intro rec
    simp only [step, stepWriteTop, State.push]
    rw [if_pos hu]
    exact renderingError_eq ht hsp _
  · rw [if_neg hu]
    simp only [withSc_write hst]
    refine ⟨RunI.one hc ?_, ?_⟩
    · intro rec
      simp only [step, stepWriteTop, State.push]
      rw [if_neg hu]
      simp only [emitValue, Tera.Env.display, hE.fmt]
    · exact St.write_scope _ _

theorem run_set {pc : Nat} {name : String} {global : Bool}
    (h : EntryAt c pc (ns (setInstr name global))) (st : State) (v : Value) (rg : SpanRange) :
    RunI venv vm c pc (st.push v rg) [pc] (pc + 1)
      { st with scope := if global then st.scope.storeGlobal name v else st.scope.storeLocal name v } := by
  obtain ⟨vi, sps, hv, hc, _⟩ := h
  have hv' : vi = .set name global := by
    cases global <;> simp only [ns, setInstr, Pipeline.vinstr, Option.some.injEq, Bool.false_eq_true, if_false, if_true] at hv <;>
      exact hv.symm
  subst hv'
  refine RunI.one hc ?_
  intro rec
  simp only [step, stepSet, State.push]

theorem ends_storeGlobal (sc : Scope) (n : String) (v : Value) :
    ends (sc.storeGlobal n v).forLoops = ends sc.forLoops := by
  rw [forLoops_storeGlobal]

theorem run_break {pc : Nat} (h : EntryAt c pc (ns .break_)) (st : State) (l : ForLoop)
    (rest : List ForLoop) (hl : st.scope.forLoops = l :: rest) :
    RunI venv vm c pc st [pc] l.endIp st := by
  obtain ⟨vi, sps, hv, hc, _⟩ := h
  simp only [ns, Pipeline.vinstr, Option.some.injEq] at hv
  subst hv
  exact RunI.one hc (by intro rec; simp only [step, stepBreak, hl])

theorem run_capture {pc : Nat} (h : EntryAt c pc (ns .capture)) (st : State) :
    RunI venv vm c pc st [pc] (pc + 1) { st with captures := [] :: st.captures } := by
  obtain ⟨vi, sps, hv, hc, _⟩ := h
  simp only [ns, Pipeline.vinstr, Option.some.injEq] at hv
  subst hv
  exact RunI.one hc (by intro rec; simp only [step])

theorem run_endCapture {pc : Nat} {hasSpan : Bool} (h : EntryAt c pc (.endCapture, hasSpan))
    (st : State) (buf : List Char) (restCaps : List (List Char)) (hcap : st.captures = buf :: restCaps) :
    RunI venv vm c pc st [pc] (pc + 1)
      (({ st with captures := restCaps } : State).push (.str true buf) (pc, pc)) := by
  obtain ⟨vi, sps, hv, hc, _⟩ := h
  simp only [Pipeline.vinstr, Option.some.injEq] at hv
  subst hv
  exact RunI.one hc (by intro rec; simp only [step, stepEndCapture, hcap]; rfl)

theorem spanOk_of_hasSpan {pc : Nat} {i : CInstr} (h : EntryAt c pc (i, true)) : SpanOk c (pc, pc) := by
  obtain ⟨vi, sps, _, hc, hs⟩ := h
  exact SpanOk.own hc (by simpa using hs)

/-- the filter chain of a set block (`filtersCode`) against `applyFilters`: the captured text (or
the previous filter's result) is on top of the stack -/
theorem filters_sim (hE : EnvRel venv eenv) (hB : BuiltinsRel venv eenv)
    (ht : reportTargetOk venv vm c = true) :
    ∀ (filters : List Expr),
      (∀ f ∈ filters, ∃ src fname kwargs, f = .filter src fname kwargs
        ∧ (∀ p ∈ kwargs, InCore lf p.2) ∧ (kwargs.map (·.1)).Nodup) →
    ∀ (fuel base : Nat) (loop : Option Nat) (st : State) (sc : Scope) (v : Value) (rv : SpanRange),
      ScopeSim sc st.scope → (filters ≠ [] → SpanOk c rv) →
      CodeAt c base (filtersCode base loop filters) →
      match applyFilters fuel eenv sc filters v with
      | .ok v' => ∃ tr rv', RunI venv vm c base (st.push v rv) tr
            (base + (filtersCode base loop filters).length) (st.push v' rv')
          ∧ Within base (base + (filtersCode base loop filters).length) tr
          ∧ (lf = true → tr.length ≤ (filtersCode base loop filters).length)
      | .error err => reportable err = true → ∃ tr re, FailsI venv vm c base (st.push v rv) tr re
          ∧ errMatch err re = true ∧ Within base (base + (filtersCode base loop filters).length) tr
          ∧ (lf = true → tr.length ≤ (filtersCode base loop filters).length) := by
  intro filters
  induction filters with
  | nil =>
    intro _ fuel base loop st sc v rv _ _ _
    cases fuel with
    | zero => simp only [applyFilters]; intro h; simp [reportable] at h
    | succ f =>
      simp only [applyFilters, filtersCode, List.length_nil]
      exact ⟨[], rv, RunI.nil _ _ _ _, Within.nil, by bnd⟩
  | cons f rest ih =>
    intro hall fuel base loop st sc v rv hsc hrv hcode
    obtain ⟨src, fname, kwargs, rfl, hkw, hnd⟩ := hall f (by simp)
    have hrest := fun g hg => hall g (List.mem_cons_of_mem _ hg)
    cases fuel with
    | zero => simp only [applyFilters]; intro h; simp [reportable] at h
    | succ fuel =>
      simp only [applyFilters, filtersCode] at hcode ⊢
      rw [CodeAt.append, CodeAt.append] at hcode
      obtain ⟨⟨hcK, hcBF⟩, hcR⟩ := hcode
      simp only [CodeAt, ← Nat.add_assoc] at hcBF
      obtain ⟨hentB, hentF, _⟩ := hcBF
      simp only [List.length_append, List.length_cons, List.length_nil, ← Nat.add_assoc, Nat.zero_add]
        at hcR ⊢
      have hsv : SpanOk c rv := hrv (by simp)
      have IHk : KwOutcome venv vm c lf (evalKwargs fuel eenv sc kwargs) _ _ (st.push v rv) :=
        kwargs_sim hE hB ht fuel kwargs hkw base loop (st.push v rv) sc hsc hcK
      cases hr1 : evalKwargs fuel eenv sc kwargs with
      | error err =>
        rw [hr1] at IHk
        simp only
        intro hrep
        obtain ⟨tr, re, hf, hm, hw, hl⟩ := IHk hrep
        exact ⟨tr, re, hf, hm, hw.mono (Nat.le_refl _) (by omega), by bnd⟩
      | ok kw =>
        rw [hr1] at IHk
        obtain ⟨trK, stk, hrunK, hstk, hwK, hl0⟩ := IHk
        have hrunK := hrunK.toI
        have hnames := evalKwargs_names eenv sc kwargs fuel kw hr1
        have hd : (kw.map (·.1)).Nodup := by rw [hnames]; exact hnd
        have hlen : kwargs.length = kw.length := by
          have := congrArg List.length hnames; simpa using this.symm
        have hrunB := run_buildKwargs (venv := venv) (vm := vm) hentB (st.push v rv) kw stk hlen hstk
        have hrunB := hrunB.toI
        have hF := filter_sim hentF hB ht st v rv kw
          (base + (kwargsCode base loop kwargs).length, base + (kwargsCode base loop kwargs).length) hd hsv
        simp only
        cases hb : applyFilter eenv fname v kw with
        | error err =>
          rw [hb] at hF
          simp only
          intro hrep
          obtain ⟨re, hf, hm⟩ := hF hrep
          exact ⟨trK ++ [_] ++ [_], re, (hrunK.trans hrunB).fails hf.toI, hm,
            ((hwK.mono (Nat.le_refl _) (by omega)).append (Within.single (by omega) (by omega))).append
              (Within.single (by omega) (by omega)), by bnd⟩
        | ok v1 =>
          rw [hb] at hF
          simp only
          have IHr := ih hrest fuel _ loop st sc v1
            (base + (kwargsCode base loop kwargs).length + 1, base + (kwargsCode base loop kwargs).length + 1)
            hsc (fun _ => spanOk_own hentF) hcR
          have hpre : RunI venv vm c base (st.push v rv)
              (trK ++ [base + (kwargsCode base loop kwargs).length]
                ++ [base + (kwargsCode base loop kwargs).length + 1])
              (base + (kwargsCode base loop kwargs).length + 1 + 1) (st.push v1 _) :=
            (hrunK.trans hrunB).trans hF.toI
          have hwpre : Within base (base + (kwargsCode base loop kwargs).length + 1 + 1
              + (filtersCode (base + (kwargsCode base loop kwargs).length + 1 + 1) loop rest).length)
              (trK ++ [base + (kwargsCode base loop kwargs).length]
                ++ [base + (kwargsCode base loop kwargs).length + 1]) :=
            ((hwK.mono (Nat.le_refl _) (by omega)).append (Within.single (by omega) (by omega))).append
              (Within.single (by omega) (by omega))
          cases hr2 : applyFilters fuel eenv sc rest v1 with
          | error err =>
            rw [hr2] at IHr
            intro hrep
            obtain ⟨tr, re, hf, hm, hw, hl1⟩ := IHr hrep
            exact ⟨_, re, hpre.fails hf, hm, hwpre.append (hw.mono (by omega) (by omega)), by bnd⟩
          | ok v' =>
            rw [hr2] at IHr
            obtain ⟨tr, rv', hrun, hw, hl1⟩ := IHr
            exact ⟨_, rv', (hpre.trans hrun).cast (by omega), hwpre.append (hw.mono (by omega) (by omega)),
              by bnd⟩

/-! ### outcome combinators -/

theorem NodeOutcome.error_of_expr {loop : Option Nat} {err : Err} {base len base1 len1 : Nat}
    {st st1 : State} {tr0 : List Nat}
    (hsub : ExprOutcome venv vm c lf (.error err) base1 len1 st1)
    (hrun : RunI venv vm c base st tr0 base1 st1) (hw0 : Within base (base + len) tr0)
    (hb : base ≤ base1) (hl : base1 + len1 ≤ base + len) (hlen : lf = true → tr0.length + len1 ≤ len) :
    NodeOutcome venv vm c lf loop (.error err) base len st := by
  intro hrep
  obtain ⟨tr, re, hf, hm, hw, hl1⟩ := hsub hrep
  refine ⟨tr0 ++ tr, re, hrun.fails hf.toI, hm, hw0.append (hw.mono hb hl), ?_⟩
  bnd

theorem SigRun.prefix {loop : Option Nat} {sig : Sig} {base len base1 len1 : Nat} {st st1 st' : State}
    {tr0 tr1 tr2 : List Nat} (hpre : RunI venv vm c base st tr0 base1 st1)
    (hsub : SigRun venv vm c loop sig base1 len1 st1 tr1 st')
    (hpost : RunI venv vm c (base1 + len1) st' tr2 (base + len) st') :
    SigRun venv vm c loop sig base len st (tr0 ++ tr1 ++ (if sig = .normal then tr2 else [])) st' := by
  cases sig with
  | normal => simpa [SigRun] using (hpre.trans hsub).trans hpost
  | brk =>
    obtain ⟨l, rest, hl, hrun⟩ := hsub
    exact ⟨l, rest, hl, by simpa using hpre.trans hrun⟩
  | cont =>
    obtain ⟨idx, hl, hrun⟩ := hsub
    exact ⟨idx, hl, by simpa using hpre.trans hrun⟩

/-- a statement list in tail position: reached by the run `tr0` that changes nothing the
evaluator sees, followed (when the signal is `normal`) by the state-preserving run `tr2` to the end
of the code -/
theorem NodeOutcome.tail {loop : Option Nat} {r : Except Err (Tera.St × Sig)}
    {base len base1 len1 : Nat} {st : State}
    {tr0 tr2 : List Nat} (hsub : NodeOutcome venv vm c lf loop r base1 len1 st)
    (hpre : RunI venv vm c base st tr0 base1 st) (hw0 : Within base (base + len) tr0)
    (hpost : ∀ st', RunI venv vm c (base1 + len1) st' tr2 (base + len) st')
    (hw2 : Within base (base + len) tr2)
    (hb : base ≤ base1) (hl : base1 + len1 ≤ base + len)
    (hlen : lf = true → tr0.length + len1 + tr2.length ≤ len) :
    NodeOutcome venv vm c lf loop r base len st := by
  cases r with
  | error err =>
    intro hrep
    obtain ⟨tr, re, hf, hm, hw, hl1⟩ := hsub hrep
    refine ⟨tr0 ++ tr, re, hpre.fails hf, hm, hw0.append (hw.mono hb hl), ?_⟩
    bnd
  | ok p =>
    obtain ⟨est', sig⟩ := p
    obtain ⟨tr1, sc', hsc', hends, hrun, hw1, hl1⟩ := hsub
    refine ⟨tr0 ++ tr1 ++ (if sig = .normal then tr2 else []), sc', hsc', hends,
      SigRun.prefix hpre hrun (hpost _), ?_, ?_⟩
    · refine (hw0.append (hw1.mono hb hl)).append ?_
      split
      · exact hw2
      · exact Within.nil
    · intro hlf
      have h1 := hl1 hlf
      have h2 := hlen hlf
      simp only [List.length_append]
      split <;> (try simp only [List.length_nil]) <;> omega

/-- a statement list after a run that changed the evaluator-visible state: outside the loop-free
core -/
theorem NodeOutcome.seq {loop : Option Nat} {r : Except Err (Tera.St × Sig)}
    {base len base1 len1 : Nat} {st : State} {est1 : Tera.St} {sc1 : Scope} {tr0 : List Nat}
    (hlf : lf = false)
    (hsub : NodeOutcome venv vm c lf loop r base1 len1 (withSc st est1 sc1))
    (hpre : RunI venv vm c base st tr0 base1 (withSc st est1 sc1))
    (hends1 : ends sc1.forLoops = ends st.scope.forLoops)
    (hw0 : Within base (base + len) tr0) (hb : base ≤ base1) (hl : base1 + len1 = base + len) :
    NodeOutcome venv vm c lf loop r base len st := by
  have hnb : ∀ {n m : Nat}, lf = true → n ≤ m := fun h => by rw [hlf] at h; cases h
  cases r with
  | error err =>
    intro hrep
    obtain ⟨tr, re, hf, hm, hw, _⟩ := hsub hrep
    exact ⟨tr0 ++ tr, re, hpre.fails hf, hm, hw0.append (hw.mono hb (by omega)), hnb⟩
  | ok p =>
    obtain ⟨est', sig⟩ := p
    obtain ⟨tr1, sc', hsc', hends, hrun, hw1, _⟩ := hsub
    rw [withSc_withSc] at hrun
    refine ⟨tr0 ++ tr1, sc', hsc', hends.trans hends1, ?_, hw0.append (hw1.mono hb (by omega)), hnb⟩
    cases sig with
    | normal => exact (hpre.trans hrun).cast hl
    | brk =>
      obtain ⟨l, rs, hlr, hr⟩ := hrun
      exact ⟨l, rs, hlr, hpre.trans hr⟩
    | cont =>
      obtain ⟨idx, hlr, hr⟩ := hrun
      exact ⟨idx, hlr, hpre.trans hr⟩

/-- entering a `for` loop: the iterable, `StartIterate`, the `StoreLocal`s -/
theorem for_enter (hE : EnvRel venv eenv) (hB : BuiltinsRel venv eenv)
    (ht : reportTargetOk venv vm c = true) (fuel : Nat) {target : Expr} (htarget : InCore lf target)
    (key : Option String) (value : String) (base : Nat) (loop : Option Nat) (st : State)
    (est : Tera.St) (hst : StSim est st)
    (hcP : CodeAt c base (forPre base loop key value target)) :
    match evalExpr fuel eenv est.scope target with
    | .error err => reportable err = true → ∃ tr re, FailsI venv vm c base st tr re
        ∧ errMatch err re = true ∧ Within base (base + (forPre base loop key value target).length) tr
    | .ok tv =>
      match iterItems tv with
      | none => ∃ tr, FailsI venv vm c base st tr .iteration
          ∧ Within base (base + (forPre base loop key value target).length) tr
      | some items =>
        if key.isSome && !tv.isMap then ∃ tr, FailsI venv vm c base st tr .iteration
          ∧ Within base (base + (forPre base loop key value target).length) tr
        else ∃ tr, RunI venv vm c base st tr (base + (forPre base loop key value target).length)
            { st with scope := st.scope.pushLoop (forLoopOf items key value) }
          ∧ Within base (base + (forPre base loop key value target).length) tr := by
  have hlenP : (forPre base loop key value target).length
      = (exprCode base loop target).length + 2 + (keyStore key).length := by
    simp only [forPre, List.length_append, List.length_cons, List.length_nil]
  simp only [forPre] at hcP
  rw [CodeAt.append, CodeAt.append] at hcP
  obtain ⟨⟨hcT, hcS⟩, hcK⟩ := hcP
  simp only [CodeAt, ← Nat.add_assoc] at hcS
  simp only [List.length_append, List.length_cons, List.length_nil, ← Nat.add_assoc, Nat.add_zero] at hcK
  obtain ⟨hentS, hentV, _⟩ := hcS
  have IHt := expr_sim hE hB ht fuel target htarget base loop st est.scope hst.1 hcT
  cases hrt : evalExpr fuel eenv est.scope target with
  | error err =>
    rw [hrt] at IHt
    intro hrep
    obtain ⟨tr, re, hf, hm, hw, _⟩ := IHt hrep
    exact ⟨tr, re, hf, hm, hw.mono (Nat.le_refl _) (by omega)⟩
  | ok tv =>
    rw [hrt] at IHt
    obtain ⟨trT, rgT, hrunT, hspT, hwT, _⟩ := IHt
    have hrunT := hrunT.toI
    have hwT' : Within base (base + (forPre base loop key value target).length) trT :=
      hwT.mono (Nat.le_refl _) (by omega)
    have hS := startIterate_sim (compr := false) hentS ht st tv rgT hspT
    simp only
    cases hit : iterItems tv with
    | none =>
      rw [hit] at hS
      exact ⟨trT ++ [_], hrunT.fails hS.toI, hwT'.append (Within.single (by omega) (by omega))⟩
    | some items =>
      rw [hit] at hS
      simp only at hS ⊢
      by_cases hk : (key.isSome && !tv.isMap) = true
      · rw [if_pos hk] at hS ⊢
        exact ⟨trT ++ [_], hrunT.fails hS.toI, hwT'.append (Within.single (by omega) (by omega))⟩
      · rw [if_neg hk] at hS ⊢
        have hV := run_storeLocal (venv := venv) (vm := vm) hentV
          { st with scope := st.scope.pushLoop (ForLoop.new items false) }
          (ForLoop.new items false) st.scope.forLoops (by simp)
        have hV := hV.toI
        simp only [setTopLoop_pushLoop] at hV
        cases key with
        | none =>
          refine ⟨trT ++ [_] ++ [_], ((hrunT.trans hS.toI).trans hV).cast ?_,
            (hwT'.append (Within.single (by omega) (by omega))).append
              (Within.single (by omega) (by omega))⟩
          rw [hlenP]; simp only [keyStore, List.length_nil]; omega
        | some k =>
          simp only [keyStore, CodeAt] at hcK
          have hK := run_storeLocal (venv := venv) (vm := vm) hcK.1
            { st with scope := st.scope.pushLoop ((ForLoop.new items false).storeLocalName value) }
            ((ForLoop.new items false).storeLocalName value) st.scope.forLoops (by simp)
          have hK := hK.toI
          simp only [setTopLoop_pushLoop] at hK
          have hks : (keyStore (some k)).length = 1 := rfl
          refine ⟨trT ++ [_] ++ [_] ++ [_], (((hrunT.trans hS.toI).trans hV).trans hK).cast ?_,
            ((hwT'.append (Within.single (by omega) (by omega))).append
              (Within.single (by omega) (by omega))).append (Within.single (by omega) (by omega))⟩
          rw [hlenP]; omega

theorem LoopCtx.withSc {inLoop : Bool} {loop : Option Nat} {st : State} {est' : Tera.St}
    {sc' : Scope} (h : LoopCtx inLoop loop st) (hends : ends sc'.forLoops = ends st.scope.forLoops) :
    LoopCtx inLoop loop (withSc st est' sc') := by
  intro hin
  obtain ⟨h1, h2⟩ := h hin
  refine ⟨h1, ?_⟩
  show sc'.forLoops ≠ []
  intro hnil
  rw [hnil] at hends
  cases hl : st.scope.forLoops with
  | nil => exact h2 hl
  | cons a b => rw [hl] at hends; simp [ends] at hends

/-! ### the simulation -/

/-- the iterable, the loop set-up and the loop -/
theorem for_head_sim (hE : EnvRel venv eenv) (hB : BuiltinsRel venv eenv)
    (ht : reportTargetOk venv vm c = true) (fuel : Nat) (H : NodeSimAt venv vm c lf Inc eenv fuel)
    {target : Expr} (htarget : InCore lf target) {body : List Node}
    (hbody : ∀ n ∈ body, InCoreNode lf Inc true n)
    (key : Option String) (value : String) (base : Nat) (loop : Option Nat) (st : State)
    (est : Tera.St) (hst : StSim est st)
    (hcP : CodeAt c base (forPre base loop key value target))
    (hcL : CodeAt c (base + (forPre base loop key value target).length)
      (forLoopCode (base + (forPre base loop key value target).length) body)) :
    ForHeadOutcome venv vm c (forHead fuel eenv vm.autoescape est key value target body) base
      ((forPre base loop key value target).length
        + (forLoopCode (base + (forPre base loop key value target).length) body).length) st := by
  have hEnter := for_enter hE hB ht fuel htarget key value base loop st est hst hcP
  unfold forHead
  cases hrt : evalExpr fuel eenv est.scope target with
  | error err =>
    rw [hrt] at hEnter
    intro hrep
    obtain ⟨tr, re, hf, hm, hw⟩ := hEnter hrep
    exact ⟨tr, re, hf, hm, hw.mono (Nat.le_refl _) (by omega)⟩
  | ok tv =>
    rw [hrt] at hEnter
    simp only at hEnter ⊢
    cases hit : iterItems tv with
    | none =>
      rw [hit] at hEnter
      obtain ⟨tr, hf, hw⟩ := hEnter
      exact fun _ => ⟨tr, .iteration, hf, rfl, hw.mono (Nat.le_refl _) (by omega)⟩
    | some items =>
      rw [hit] at hEnter
      simp only at hEnter ⊢
      by_cases hk : (key.isSome && !tv.isMap) = true
      · rw [if_pos hk] at hEnter ⊢
        obtain ⟨tr, hf, hw⟩ := hEnter
        exact fun _ => ⟨tr, .iteration, hf, rfl, hw.mono (Nat.le_refl _) (by omega)⟩
      · rw [if_neg hk] at hEnter ⊢
        obtain ⟨trP, hrunP, hwP⟩ := hEnter
        generalize forLoopOf items key value = l at hrunP ⊢
        have hstL : StSim { est with scope := est.scope.pushLoop l }
            { st with scope := st.scope.pushLoop l } :=
          ⟨hst.1.pushLoop (LoopSim.refl l), hst.2.1, hst.2.2⟩
        have IHL := H.for_ body hbody _ { st with scope := st.scope.pushLoop l }
          { est with scope := est.scope.pushLoop l } hstL hcL
        cases hrf : execFor fuel eenv vm.autoescape { est with scope := est.scope.pushLoop l } body with
        | error err =>
          rw [hrf] at IHL
          intro hrep
          obtain ⟨trL, re, hf, hm, hwL⟩ := IHL hrep
          exact ⟨trP ++ trL, re, hrunP.fails hf, hm,
            (hwP.mono (Nat.le_refl _) (by omega)).append (hwL.mono (by omega) (by omega))⟩
        | ok est1 =>
          rw [hrf] at IHL
          obtain ⟨trL, sc1, hrunL, hsc1, hends1, hne1, hwL⟩ := IHL
          refine ⟨trP ++ trL, sc1, (hrunP.trans hrunL).cast (by omega), hsc1, ?_, hne1,
            (hwP.mono (Nat.le_refl _) (by omega)).append (hwL.mono (by omega) (by omega))⟩
          rw [hends1]
          show ends (st.scope.pushLoop l).forLoops.tail = _
          simp

theorem node_step (hE : EnvRel venv eenv) (hB : BuiltinsRel venv eenv)
    (ht : reportTargetOk venv vm c = true) (hov : vm.autoescapeOverride = none) (fuel : Nat)
    (H : NodeSimAt venv vm c lf Inc eenv fuel) (hO : IncOracle venv eenv Inc fuel) :
    ∀ (inLoop : Bool) (n : Node), InCoreNode lf Inc inLoop n →
    ∀ (base : Nat) (loop : Option Nat) (st : State) (est : Tera.St), StSim est st →
    LoopCtx inLoop loop st → CodeAt c base (nodeCode base loop n) →
    NodeOutcome venv vm c lf loop (execNode (fuel + 1) eenv vm.autoescape est n) base
      (nodeCode base loop n).length st := by
  intro inLoop n hcore
  cases hcore with
  | content t =>
    intro base loop st est hst hctx hcode
    simp only [nodeCode, CodeAt] at hcode
    simp only [execNode, nodeCode, List.length_singleton]
    refine ⟨[base], st.scope, ?_, rfl, ?_, Within.single (Nat.le_refl _) (by omega), by bnd⟩
    · show ScopeSim (est.write t.toList).scope st.scope
      rw [St.write_scope]; exact hst.1
    · show RunI venv vm c base st [base] (base + 1) _
      rw [withSc_write hst]
      exact run_writeText hcode.1 st
  | @expression _ e he =>
    intro base loop st est hst hctx hcode
    simp only [nodeCode] at hcode ⊢
    rw [CodeAt.append] at hcode
    obtain ⟨hc1, hc2⟩ := hcode
    have hent := CodeAt.single.mp hc2
    simp only [List.length_append, List.length_singleton]
    have IH := expr_sim hE hB ht fuel e he base loop st est.scope hst.1 hc1
    simp only [execNode]
    cases hr : evalExpr fuel eenv est.scope e with
    | error err =>
      rw [hr] at IH
      exact NodeOutcome.error_of_expr IH (RunI.nil _ _ _ _) Within.nil (Nat.le_refl _) (by omega) (by bnd)
    | ok v =>
      rw [hr] at IH
      obtain ⟨tr1, rg1, hrun1, hsp1, hw1, hl1⟩ := IH
      have hrun1 := hrun1.toI
      have hW := writeTop_sim hent hE ht st est hst v rg1 hsp1
      simp only
      cases hw : writeValue eenv vm.autoescape est v with
      | ok est' =>
        rw [hw] at hW
        simp only [Except.map]
        refine ⟨tr1 ++ [base + (exprCode base loop e).length], st.scope, ?_, rfl, ?_,
          (hw1.mono (Nat.le_refl _) (by omega)).append (Within.single (by omega) (by omega)), by bnd⟩
        · rw [hW.2]; exact hst.1
        · exact (hrun1.trans hW.1).cast (by omega)
      | error err =>
        rw [hw] at hW
        obtain ⟨re, hf, hm⟩ := hW
        simp only [Except.map]
        exact fun _ => ⟨tr1 ++ [base + (exprCode base loop e).length], re, hrun1.fails hf, hm,
          (hw1.mono (Nat.le_refl _) (by omega)).append (Within.single (by omega) (by omega)), by bnd⟩
  | @set _ e name global he =>
    intro base loop st est hst hctx hcode
    simp only [nodeCode] at hcode ⊢
    rw [CodeAt.append] at hcode
    obtain ⟨hc1, hc2⟩ := hcode
    have hent := CodeAt.single.mp hc2
    simp only [List.length_append, List.length_singleton]
    have IH := expr_sim hE hB ht fuel e he base loop st est.scope hst.1 hc1
    simp only [execNode]
    cases hr : evalExpr fuel eenv est.scope e with
    | error err =>
      rw [hr] at IH
      exact NodeOutcome.error_of_expr IH (RunI.nil _ _ _ _) Within.nil (Nat.le_refl _) (by omega) (by bnd)
    | ok v =>
      rw [hr] at IH
      obtain ⟨tr1, rg1, hrun1, hsp1, hw1, hl1⟩ := IH
      have hrun1 := hrun1.toI
      have hS := run_set (venv := venv) (vm := vm) hent st v rg1
      simp only
      refine ⟨tr1 ++ [base + (exprCode base loop e).length],
        (if global then st.scope.storeGlobal name v else st.scope.storeLocal name v),
        ?_, ?_, ?_,
        (hw1.mono (Nat.le_refl _) (by omega)).append (Within.single (by omega) (by omega)), by bnd⟩
      · simp only [St.store]
        cases global
        · exact hst.1.storeLocal name v
        · exact hst.1.storeGlobal name v
      · cases global
        · simp only [Bool.false_eq_true, if_false]; exact ends_storeLocal _ _ _
        · simp only [if_true]; exact ends_storeGlobal _ _ _
      · show RunI venv vm c base st _ _ _
        have hfin : withSc st (est.store name v global)
            (if global then st.scope.storeGlobal name v else st.scope.storeLocal name v)
            = { st with scope := if global then st.scope.storeGlobal name v else st.scope.storeLocal name v } := by
          obtain ⟨_, h2, h3⟩ := hst
          simp only [withSc, St.store, h2, h3]
        rw [hfin]
        exact (hrun1.trans hS).cast (by omega)
  | @«if» _ cnd body falseBody hc hbody hfalse =>
    intro base loop st est hst hctx hcode
    have IHc : ∀ (hc1 : CodeAt c base (exprCode base loop cnd)),
        ExprOutcome venv vm c lf (evalExpr fuel eenv est.scope cnd) _ _ st :=
      fun hc1 => expr_sim hE hB ht fuel cnd hc base loop st est.scope hst.1 hc1
    simp only [execNode]
    cases hfe : falseBody.isEmpty with
    | true =>
      have hfb : falseBody = [] := List.isEmpty_iff.mp hfe
      subst hfb
      simp only [nodeCode, List.isEmpty_nil, if_true] at hcode ⊢
      rw [CodeAt.append, CodeAt.append] at hcode
      obtain ⟨⟨hc1, hc2⟩, hc3⟩ := hcode
      have hent := CodeAt.single.mp hc2
      simp only [List.length_append, List.length_singleton, ← Nat.add_assoc] at hc3 ⊢
      have IH1 := IHc hc1
      cases hr1 : evalExpr fuel eenv est.scope cnd with
      | error err =>
        rw [hr1] at IH1
        exact NodeOutcome.error_of_expr IH1 (RunI.nil _ _ _ _) Within.nil (Nat.le_refl _) (by omega) (by bnd)
      | ok a =>
        rw [hr1] at IH1
        obtain ⟨tr1, rg1, hrun1, hsp1, hw1, hl1⟩ := IH1
        have hrun1 := hrun1.toI
        have hP := run_popJumpIfFalse (venv := venv) (vm := vm) hent st a rg1
        have hP := hP.toI
        simp only
        cases hta : a.isTruthy with
        | true =>
          simp only [hta, if_true] at hP ⊢
          have IH2 := H.nodes _ body hbody _ loop st est hst hctx hc3
          exact IH2.tail (tr2 := []) (hrun1.trans hP)
            ((hw1.mono (Nat.le_refl _) (by omega)).append (Within.single (by omega) (by omega)))
            (fun st' => (RunI.nil _ _ _ st').cast (by omega)) Within.nil (by omega) (by omega) (by bnd)
        | false =>
          simp only [hta, Bool.false_eq_true, if_false] at hP ⊢
          cases fuel with
          | zero =>
            simp only [execNodes]
            intro h; simp [reportable] at h
          | succ f =>
            simp only [execNodes]
            refine ⟨tr1 ++ [base + (exprCode base loop cnd).length], st.scope, hst.1, rfl, ?_,
              (hw1.mono (Nat.le_refl _) (by omega)).append (Within.single (by omega) (by omega)), by bnd⟩
            show RunI venv vm c base st _ _ _
            rw [withSc_self hst]
            exact (hrun1.trans hP).cast (by omega)
    | false =>
      simp only [nodeCode, hfe, Bool.false_eq_true, if_false] at hcode ⊢
      rw [CodeAt.append, CodeAt.append, CodeAt.append, CodeAt.append] at hcode
      obtain ⟨⟨⟨⟨hc1, hc2⟩, hc3⟩, hc4⟩, hc5⟩ := hcode
      have hent2 := CodeAt.single.mp hc2
      have hent4 := CodeAt.single.mp hc4
      simp only [List.length_append, List.length_singleton, ← Nat.add_assoc] at hc3 hent4 hc5 ⊢
      have IH1 := IHc hc1
      cases hr1 : evalExpr fuel eenv est.scope cnd with
      | error err =>
        rw [hr1] at IH1
        exact NodeOutcome.error_of_expr IH1 (RunI.nil _ _ _ _) Within.nil (Nat.le_refl _) (by omega) (by bnd)
      | ok a =>
        rw [hr1] at IH1
        obtain ⟨tr1, rg1, hrun1, hsp1, hw1, hl1⟩ := IH1
        have hrun1 := hrun1.toI
        have hP := run_popJumpIfFalse (venv := venv) (vm := vm) hent2 st a rg1
        have hP := hP.toI
        simp only
        cases hta : a.isTruthy with
        | true =>
          simp only [hta, if_true] at hP ⊢
          have IH2 := H.nodes _ body hbody _ loop st est hst hctx hc3
          exact IH2.tail (hrun1.trans hP)
            ((hw1.mono (Nat.le_refl _) (by omega)).append (Within.single (by omega) (by omega)))
            (fun st' => (run_jump hent4 st').toI.cast (by omega))
            (Within.single (by omega) (by omega)) (by omega) (by omega) (by bnd)
        | false =>
          simp only [hta, Bool.false_eq_true, if_false] at hP ⊢
          have IH3 := H.nodes _ falseBody hfalse _ loop st est hst hctx hc5
          exact IH3.tail (tr2 := []) (hrun1.trans hP)
            ((hw1.mono (Nat.le_refl _) (by omega)).append (Within.single (by omega) (by omega)))
            (fun st' => (RunI.nil _ _ _ st').cast (by omega)) Within.nil (by omega) (by omega) (by bnd)
  | @«include» _ name hlf hinc =>
    intro base loop st est hst hctx hcode
    have hnb : ∀ {n m : Nat}, lf = true → n ≤ m := fun h => by rw [hlf] at h; cases h
    simp only [nodeCode, CodeAt] at hcode
    obtain ⟨⟨vi, sps, hv, hc, _⟩, _⟩ := hcode
    simp only [sp, Pipeline.vinstr, Option.some.injEq] at hv
    subst hv
    simp only [execNode, nodeCode, List.length_singleton]
    have hrel := hO vm hov name hinc st est hst
    cases het : eenv.template name with
    | none =>
      rw [het] at hrel
      simp only
      exact fun _ => ⟨[base], .templateNotFound,
        FailsI.here hc (by intro rec; simp only [step, stepInclude, hrel]), rfl,
        Within.single (Nat.le_refl _) (by omega), hnb⟩
    | some t =>
      rw [het] at hrel
      obtain ⟨tpl, hvt, IH⟩ := hrel
      simp only
      cases hr : execNodes fuel eenv t.autoescape
          { scope := Scope.included est.scope, out := [], captures := [] } t.nodes with
      | error err =>
        rw [hr] at IH
        intro hrep
        obtain ⟨re, hm, hf⟩ := IH hrep
        exact ⟨[base], re, FailsI.inclFails hc hvt hf, hm, Within.single (Nat.le_refl _) (by omega), hnb⟩
      | ok p =>
        obtain ⟨est', sig⟩ := p
        rw [hr] at IH
        cases sig with
        | brk => simp only; intro h; simp [reportable] at h
        | cont => simp only; intro h; simp [reportable] at h
        | normal =>
          obtain ⟨stN, hdone, hout⟩ := IH rfl
          simp only at hout ⊢
          refine ⟨[base], st.scope, ?_, rfl, ?_, Within.single (Nat.le_refl _) (by omega), hnb⟩
          · show ScopeSim (est.write est'.out).scope st.scope
            rw [St.write_scope]; exact hst.1
          · show RunI venv vm c base st [base] (base + 1) _
            rw [withSc_write hst, ← hout]
            exact RunI.incl hc hvt hdone (RunI.nil _ _ _ _)
  | «break» =>
    intro base loop st est hst hctx hcode
    simp only [nodeCode, CodeAt] at hcode
    simp only [execNode, nodeCode, List.length_singleton]
    obtain ⟨_, hne⟩ := hctx rfl
    cases hl : st.scope.forLoops with
    | nil => exact absurd hl hne
    | cons l rest =>
      refine ⟨[base], st.scope, hst.1, rfl, ⟨l, rest, hl, ?_⟩,
        Within.single (Nat.le_refl _) (by omega), by bnd⟩
      rw [withSc_self hst]
      exact run_break hcode.1 st l rest hl
  | «continue» =>
    intro base loop st est hst hctx hcode
    obtain ⟨hsome, _⟩ := hctx rfl
    cases loop with
    | none => simp at hsome
    | some idx =>
      simp only [nodeCode, CodeAt] at hcode
      simp only [execNode, nodeCode, List.length_singleton]
      refine ⟨[base], st.scope, hst.1, rfl, ⟨idx, rfl, ?_⟩,
        Within.single (Nat.le_refl _) (by omega), by bnd⟩
      rw [withSc_self hst]
      exact (run_jump hcode.1 st).toI

  | @filterSection _ name kwargs body hkw hnd hbody =>
    intro base loop st est hst hctx hcode
    simp only [nodeCode] at hcode ⊢
    rw [CodeAt.append, CodeAt.append, CodeAt.append, CodeAt.append] at hcode
    obtain ⟨⟨⟨⟨hcC, hcB⟩, hcE⟩, hcK⟩, hcT⟩ := hcode
    have hentC := CodeAt.single.mp hcC
    have hentE := CodeAt.single.mp hcE
    simp only [CodeAt, List.length_append, List.length_singleton, ← Nat.add_assoc] at hcT
    obtain ⟨hentB, hentF, hentW, _⟩ := hcT
    simp only [List.length_append, List.length_singleton, List.length_cons, List.length_nil,
      ← Nat.add_assoc, Nat.zero_add] at hcB hentE hcK ⊢
    simp only [execNode]
    have hstC : StSim { est with captures := [] :: est.captures }
        { st with captures := [] :: st.captures } := ⟨hst.1, hst.2.1, by rw [hst.2.2]⟩
    have hrunC := run_capture (venv := venv) (vm := vm) hentC st
    have IHb := H.nodes false body hbody (base + 1) loop { st with captures := [] :: st.captures }
      { est with captures := [] :: est.captures } hstC (fun h => by cases h) hcB
    cases hr : execNodes fuel eenv vm.autoescape { est with captures := [] :: est.captures } body with
    | error err =>
      rw [hr] at IHb
      intro hrep
      obtain ⟨tr, re, hf, hm, hw, hl0⟩ := IHb hrep
      exact ⟨[base] ++ tr, re, hrunC.fails hf, hm,
        (Within.single (Nat.le_refl _) (by omega)).append (hw.mono (by omega) (by omega)), by bnd⟩
    | ok p =>
      obtain ⟨est1, sig⟩ := p
      rw [hr] at IHb
      cases sig with
      | brk => simp only; intro h; simp [reportable] at h
      | cont => simp only; intro h; simp [reportable] at h
      | normal =>
        obtain ⟨trB, sc1, hsc1, hends1, hrunB, hwB, hl0⟩ := IHb
        have hrunB' : RunI venv vm c (base + 1) { st with captures := [] :: st.captures } trB
            (base + 1 + (nodesCode (base + 1) loop body).length) (withSc st est1 sc1) := hrunB
        simp only
        cases hcap : est1.captures with
        | nil => simp only; intro h; simp [reportable] at h
        | cons buf restCaps =>
          simp only
          have hEnd := run_endCapture (venv := venv) (vm := vm) hentE (withSc st est1 sc1) buf restCaps hcap
          have hst2 : StSim { est1 with captures := restCaps }
              (withSc st { est1 with captures := restCaps } sc1) := StSim.withSc st hsc1
          have hEnd' : RunI venv vm c (base + 1 + (nodesCode (base + 1) loop body).length)
              (withSc st est1 sc1) [base + 1 + (nodesCode (base + 1) loop body).length]
              (base + 1 + (nodesCode (base + 1) loop body).length + 1)
              ((withSc st { est1 with captures := restCaps } sc1).push (.str true buf)
                (base + 1 + (nodesCode (base + 1) loop body).length,
                 base + 1 + (nodesCode (base + 1) loop body).length)) := hEnd
          have hspE : SpanOk c (base + 1 + (nodesCode (base + 1) loop body).length,
              base + 1 + (nodesCode (base + 1) loop body).length) := spanOk_own hentE
          have IHk : KwOutcome venv vm c lf (evalKwargs fuel eenv est1.scope kwargs) _ _
              ((withSc st { est1 with captures := restCaps } sc1).push (.str true buf) _) :=
            kwargs_sim hE hB ht fuel kwargs hkw _ loop
              ((withSc st { est1 with captures := restCaps } sc1).push (.str true buf)
                (base + 1 + (nodesCode (base + 1) loop body).length,
                 base + 1 + (nodesCode (base + 1) loop body).length)) est1.scope hsc1 hcK
          have hpre := (hrunC.trans hrunB').trans hEnd'
          have hwpre : Within base (base + (1 + (nodesCode (base + 1) loop body).length + 1
              + (kwargsCode (base + 1 + (nodesCode (base + 1) loop body).length + 1) loop kwargs).length
              + 1 + 1 + 1))
              ([base] ++ trB ++ [base + 1 + (nodesCode (base + 1) loop body).length]) :=
            ((Within.single (Nat.le_refl _) (by omega)).append (hwB.mono (by omega) (by omega))).append
              (Within.single (by omega) (by omega))
          cases hr1 : evalKwargs fuel eenv est1.scope kwargs with
          | error err =>
            rw [hr1] at IHk
            intro hrep
            obtain ⟨tr, re, hf, hm, hw, hl1⟩ := IHk hrep
            exact ⟨_, re, hpre.fails hf, hm, hwpre.append (hw.mono (by omega) (by omega)), by bnd⟩
          | ok kw =>
            rw [hr1] at IHk
            obtain ⟨trK, stk, hrunK, hstk, hwK, hl1⟩ := IHk
            have hrunK := hrunK.toI
            have hnames := evalKwargs_names eenv est1.scope kwargs fuel kw hr1
            have hd : (kw.map (·.1)).Nodup := by rw [hnames]; exact hnd
            have hlen : kwargs.length = kw.length := by
              have := congrArg List.length hnames; simpa using this.symm
            have hrunBM := run_buildKwargs (venv := venv) (vm := vm) hentB
              ((withSc st { est1 with captures := restCaps } sc1).push (.str true buf) _) kw stk hlen hstk
            have hrunBM := hrunBM.toI
            have hF := filter_sim hentF hB ht (withSc st { est1 with captures := restCaps } sc1)
              (.str true buf) _ kw
              (base + 1 + (nodesCode (base + 1) loop body).length + 1
                  + (kwargsCode (base + 1 + (nodesCode (base + 1) loop body).length + 1) loop kwargs).length,
               base + 1 + (nodesCode (base + 1) loop body).length + 1
                  + (kwargsCode (base + 1 + (nodesCode (base + 1) loop body).length + 1) loop kwargs).length)
              hd hspE
            have hwpre2 := (hwpre.append (hwK.mono (by omega) (by omega))).append
              (Within.single (lo := base) (hi := base + (1 + (nodesCode (base + 1) loop body).length + 1
                + (kwargsCode (base + 1 + (nodesCode (base + 1) loop body).length + 1) loop kwargs).length
                + 1 + 1 + 1))
                (p := base + 1 + (nodesCode (base + 1) loop body).length + 1
                  + (kwargsCode (base + 1 + (nodesCode (base + 1) loop body).length + 1) loop kwargs).length)
                (by omega) (by omega))
            simp only
            cases hb : applyFilter eenv name (.str true buf) kw with
            | error err =>
              rw [hb] at hF
              intro hrep
              obtain ⟨re, hf, hm⟩ := hF hrep
              exact ⟨_, re, ((hpre.trans hrunK).trans hrunBM).fails hf.toI, hm,
                hwpre2.append (Within.single (by omega) (by omega)), by bnd⟩
            | ok r =>
              rw [hb] at hF
              simp only
              have hW := writeTop_sim hentW hE ht (withSc st { est1 with captures := restCaps } sc1)
                { est1 with captures := restCaps } hst2 r _ (spanOk_own hentF)
              cases hw : writeValue eenv vm.autoescape { est1 with captures := restCaps } r with
              | error err =>
                rw [hw] at hW
                obtain ⟨re, hf, hm⟩ := hW
                simp only [Except.map]
                exact fun _ => ⟨_, re, (((hpre.trans hrunK).trans hrunBM).trans hF.toI).fails hf, hm,
                  (hwpre2.append (Within.single (by omega) (by omega))).append
                    (Within.single (by omega) (by omega)), by bnd⟩
              | ok est3 =>
                rw [hw] at hW
                simp only [Except.map]
                have hrunAll := (((hpre.trans hrunK).trans hrunBM).trans hF.toI).trans hW.1
                have hsc3 : ScopeSim est3.scope sc1 := by rw [hW.2]; exact hsc1
                exact ⟨_, sc1, hsc3, hends1, hrunAll.cast (by omega),
                  (hwpre2.append (Within.single (by omega) (by omega))).append
                    (Within.single (by omega) (by omega)), by bnd⟩
  | @blockSet _ name global filters body hfilters hbody =>
    intro base loop st est hst hctx hcode
    simp only [nodeCode] at hcode ⊢
    rw [CodeAt.append, CodeAt.append, CodeAt.append, CodeAt.append] at hcode
    obtain ⟨⟨⟨⟨hcC, hcB⟩, hcE⟩, hcF⟩, hcS⟩ := hcode
    have hentC := CodeAt.single.mp hcC
    have hentE := CodeAt.single.mp hcE
    have hentS := CodeAt.single.mp hcS
    simp only [List.length_append, List.length_singleton, List.length_cons, List.length_nil,
      ← Nat.add_assoc, Nat.zero_add] at hcB hentE hcF hentS ⊢
    simp only [execNode]
    have hstC : StSim { est with captures := [] :: est.captures }
        { st with captures := [] :: st.captures } := ⟨hst.1, hst.2.1, by rw [hst.2.2]⟩
    have hrunC := run_capture (venv := venv) (vm := vm) hentC st
    have IHb := H.nodes false body hbody (base + 1) loop { st with captures := [] :: st.captures }
      { est with captures := [] :: est.captures } hstC (fun h => by cases h) hcB
    cases hr : execNodes fuel eenv vm.autoescape { est with captures := [] :: est.captures } body with
    | error err =>
      rw [hr] at IHb
      intro hrep
      obtain ⟨tr, re, hf, hm, hw, hl0⟩ := IHb hrep
      exact ⟨[base] ++ tr, re, hrunC.fails hf, hm,
        (Within.single (Nat.le_refl _) (by omega)).append (hw.mono (by omega) (by omega)), by bnd⟩
    | ok p =>
      obtain ⟨est1, sig⟩ := p
      rw [hr] at IHb
      cases sig with
      | brk => simp only; intro h; simp [reportable] at h
      | cont => simp only; intro h; simp [reportable] at h
      | normal =>
        obtain ⟨trB, sc1, hsc1, hends1, hrunB, hwB, hl0⟩ := IHb
        have hrunB' : RunI venv vm c (base + 1) { st with captures := [] :: st.captures } trB
            (base + 1 + (nodesCode (base + 1) loop body).length) (withSc st est1 sc1) := hrunB
        simp only
        cases hcap : est1.captures with
        | nil => simp only; intro h; simp [reportable] at h
        | cons buf restCaps =>
          simp only
          have hEnd := run_endCapture (venv := venv) (vm := vm) hentE (withSc st est1 sc1) buf restCaps hcap
          have hEnd' : RunI venv vm c (base + 1 + (nodesCode (base + 1) loop body).length)
              (withSc st est1 sc1) [base + 1 + (nodesCode (base + 1) loop body).length]
              (base + 1 + (nodesCode (base + 1) loop body).length + 1)
              ((withSc st { est1 with captures := restCaps } sc1).push (.str true buf)
                (base + 1 + (nodesCode (base + 1) loop body).length,
                 base + 1 + (nodesCode (base + 1) loop body).length)) := hEnd
          have hspE : filters ≠ [] → SpanOk c (base + 1 + (nodesCode (base + 1) loop body).length,
              base + 1 + (nodesCode (base + 1) loop body).length) := by
            intro hne
            have : (!filters.isEmpty) = true := by
              cases filters with
              | nil => exact absurd rfl hne
              | cons _ _ => rfl
            rw [this] at hentE
            exact spanOk_of_hasSpan hentE
          have IHf := filters_sim (lf := lf) hE hB ht filters hfilters fuel _ loop
            (withSc st { est1 with captures := restCaps } sc1) est1.scope (.str true buf)
            (base + 1 + (nodesCode (base + 1) loop body).length,
             base + 1 + (nodesCode (base + 1) loop body).length) hsc1 hspE hcF
          have hpre := (hrunC.trans hrunB').trans hEnd'
          have hwpre : Within base (base + (1 + (nodesCode (base + 1) loop body).length + 1
              + (filtersCode (base + 1 + (nodesCode (base + 1) loop body).length + 1) loop filters).length
              + 1))
              ([base] ++ trB ++ [base + 1 + (nodesCode (base + 1) loop body).length]) :=
            ((Within.single (Nat.le_refl _) (by omega)).append (hwB.mono (by omega) (by omega))).append
              (Within.single (by omega) (by omega))
          cases hrf : applyFilters fuel eenv est1.scope filters (.str true buf) with
          | error err =>
            rw [hrf] at IHf
            intro hrep
            obtain ⟨tr, re, hf, hm, hw, hl1⟩ := IHf hrep
            exact ⟨_, re, hpre.fails hf, hm, hwpre.append (hw.mono (by omega) (by omega)), by bnd⟩
          | ok v =>
            rw [hrf] at IHf
            obtain ⟨trF, rv', hrunF, hwF, hl1⟩ := IHf
            simp only
            have hS := run_set (venv := venv) (vm := vm) hentS
              (withSc st { est1 with captures := restCaps } sc1) v rv'
            refine ⟨_, (if global then sc1.storeGlobal name v else sc1.storeLocal name v), ?_, ?_,
              (((hpre.trans hrunF).trans hS).cast (by omega)),
              (hwpre.append (hwF.mono (by omega) (by omega))).append
                (Within.single (by omega) (by omega)), by bnd⟩
            · simp only [St.store]
              cases global
              · exact hsc1.storeLocal name v
              · exact hsc1.storeGlobal name v
            · cases global
              · simp only [Bool.false_eq_true, if_false]
                rw [ends_storeLocal]; exact hends1
              · simp only [if_true]
                rw [ends_storeGlobal]; exact hends1
  | @forLoop _ key value target body elseBody hlf htarget hbody helse =>
    intro base loop st est hst hctx hcode
    have hnb : ∀ {n m : Nat}, lf = true → n ≤ m := fun h => by rw [hlf] at h; cases h
    rw [execNode_for]
    cases hfe : elseBody.isEmpty with
    | true =>
      have hfb : elseBody = [] := List.isEmpty_iff.mp hfe
      subst hfb
      rw [nodeCode_for_noelse] at hcode ⊢
      rw [CodeAt.append, CodeAt.append] at hcode
      obtain ⟨⟨hcP, hcL⟩, hcE⟩ := hcode
      have hentE := CodeAt.single.mp hcE
      simp only [List.length_append, List.length_singleton, ← Nat.add_assoc] at hentE ⊢
      have hH := for_head_sim hE hB ht fuel H htarget hbody key value base loop st est hst hcP hcL
      cases hrh : forHead fuel eenv vm.autoescape est key value target body with
      | error err =>
        rw [hrh] at hH
        intro hrep
        obtain ⟨tr, re, hf, hm, hw⟩ := hH hrep
        exact ⟨tr, re, hf, hm, hw.mono (Nat.le_refl _) (by omega), hnb⟩
      | ok est1 =>
        rw [hrh] at hH
        obtain ⟨trH, sc1, hrunH0, hsc1, hends1, hne1, hwH⟩ := hH
        have hrunH := hrunH0.cast (Nat.add_assoc _ _ _).symm
        simp only [forTail, List.isEmpty_nil, Bool.not_true, Bool.false_and, Bool.false_eq_true, if_false]
        have hE1 := run_popLoop (venv := venv) (vm := vm) hentE (withSc st est1 sc1)
        have hE1 := hE1.toI
        refine ⟨trH ++ [base + (forPre base loop key value target).length
            + (forLoopCode (base + (forPre base loop key value target).length) body).length],
          sc1.popLoop, hsc1.popLoop, ?_, (hrunH.trans hE1).cast (by omega),
          (hwH.mono (Nat.le_refl _) (by omega)).append (Within.single (by omega) (by omega)), hnb⟩
        rw [forLoops_popLoop]; exact hends1
    | false =>
      obtain ⟨idx, hidx, hshape⟩ := nodeCode_for_else base loop key value target body elseBody hfe
      rw [hshape] at hcode ⊢
      rw [CodeAt.append, CodeAt.append, CodeAt.append, CodeAt.append] at hcode
      obtain ⟨⟨⟨⟨hcP, hcL⟩, hcS⟩, hcJ⟩, hcEl⟩ := hcode
      have hentJ := CodeAt.single.mp hcJ
      simp only [CodeAt, List.length_append, ← Nat.add_assoc] at hcS
      obtain ⟨hentD, hentO, _⟩ := hcS
      simp only [List.length_append, List.length_cons, List.length_nil, ← Nat.add_assoc, Nat.zero_add]
        at hentJ hcEl ⊢
      have hH := for_head_sim hE hB ht fuel H htarget hbody key value base loop st est hst hcP hcL
      cases hrh : forHead fuel eenv vm.autoescape est key value target body with
      | error err =>
        rw [hrh] at hH
        intro hrep
        obtain ⟨tr, re, hf, hm, hw⟩ := hH hrep
        exact ⟨tr, re, hf, hm, hw.mono (Nat.le_refl _) (by omega), hnb⟩
      | ok est1 =>
        rw [hrh] at hH
        obtain ⟨trH, sc1, hrunH0, hsc1, hends1, hne1, hwH⟩ := hH
        have hrunH := hrunH0.cast (Nat.add_assoc _ _ _).symm
        -- the innermost loops of the two scopes
        cases hlV : sc1.forLoops with
        | nil => exact absurd hlV hne1
        | cons lv lvs =>
          have hloops : LoopsSim est1.scope.forLoops sc1.forLoops := hsc1.forLoops
          cases hlE : est1.scope.forLoops with
          | nil => rw [hlE, hlV] at hloops; exact hloops.elim
          | cons le les =>
            rw [hlE, hlV] at hloops
            have hiter : le.iterated = lv.iterated := hloops.1.iterated
            simp only [forTail, hlE, hfe, Bool.not_false, Bool.true_and]
            have hD := run_storeDidNotIterate (venv := venv) (vm := vm) hentD
              (withSc st est1 sc1) lv lvs hlV
            have hD := hD.toI
            have hO := run_popLoop (venv := venv) (vm := vm) hentO
              ((withSc st est1 sc1).push (.bool (!lv.iterated))
                ((base + (forPre base loop key value target).length + (forLoopCode (base + (forPre base loop key value target).length) body).length),
                 (base + (forPre base loop key value target).length + (forLoopCode (base + (forPre base loop key value target).length) body).length)))
            have hO := hO.toI
            have hP := run_popJumpIfFalse (venv := venv) (vm := vm) hentJ
              (withSc st { est1 with scope := est1.scope.popLoop } sc1.popLoop) (.bool (!lv.iterated))
              ((base + (forPre base loop key value target).length + (forLoopCode (base + (forPre base loop key value target).length) body).length),
               (base + (forPre base loop key value target).length + (forLoopCode (base + (forPre base loop key value target).length) body).length))
            have hP := hP.toI
            have hends2 : ends sc1.popLoop.forLoops = ends st.scope.forLoops := by
              rw [forLoops_popLoop]; exact hends1
            have hrun3 : RunI venv vm c base st
                (trH ++ [(base + (forPre base loop key value target).length + (forLoopCode (base + (forPre base loop key value target).length) body).length)] ++ [(base + (forPre base loop key value target).length + (forLoopCode (base + (forPre base loop key value target).length) body).length) + 1] ++ [(base + (forPre base loop key value target).length + (forLoopCode (base + (forPre base loop key value target).length) body).length) + 1 + 1])
                (if (Value.bool (!lv.iterated)).isTruthy then (base + (forPre base loop key value target).length + (forLoopCode (base + (forPre base loop key value target).length) body).length) + 1 + 1 + 1
                  else idx + 1 + (nodesCode (idx + 1) loop elseBody).length)
                (withSc st { est1 with scope := est1.scope.popLoop } sc1.popLoop) :=
              ((hrunH.trans hD).trans hO).trans hP
            have hw3 : Within base (base + ((forPre base loop key value target).length
                + (forLoopCode (base + (forPre base loop key value target).length) body).length + 1 + 1 + 1
                + (nodesCode (idx + 1) loop elseBody).length))
                (trH ++ [(base + (forPre base loop key value target).length + (forLoopCode (base + (forPre base loop key value target).length) body).length)] ++ [(base + (forPre base loop key value target).length + (forLoopCode (base + (forPre base loop key value target).length) body).length) + 1] ++ [(base + (forPre base loop key value target).length + (forLoopCode (base + (forPre base loop key value target).length) body).length) + 1 + 1]) :=
              (((hwH.mono (Nat.le_refl _) (by omega)).append (Within.single (by omega) (by omega))).append
                (Within.single (by omega) (by omega))).append (Within.single (by omega) (by omega))
            cases hdi : le.iterated with
            | true =>
              have hdv : lv.iterated = true := by rw [← hiter, hdi]
              simp only [hdv, Bool.not_true, Value.isTruthy, Bool.false_eq_true, if_false] at hrun3
              simp only [Bool.not_true, Bool.false_eq_true, if_false]
              exact ⟨_, sc1.popLoop, hsc1.popLoop, hends2, hrun3.cast (by omega), hw3, hnb⟩
            | false =>
              have hdv : lv.iterated = false := by rw [← hiter, hdi]
              simp only [hdv, Bool.not_false, Value.isTruthy, if_true] at hrun3
              simp only [Bool.not_false, if_true]
              have hcEl' : CodeAt c (idx + 1) (nodesCode (idx + 1) loop elseBody) := by
                have e : idx + 1 = base + (forPre base loop key value target).length
                    + (forLoopCode (base + (forPre base loop key value target).length) body).length
                    + 1 + 1 + 1 := by omega
                rw [e]; rw [e] at hcEl; exact hcEl
              have IHe := H.nodes _ elseBody helse (idx + 1) loop
                (withSc st { est1 with scope := est1.scope.popLoop } sc1.popLoop)
                { est1 with scope := est1.scope.popLoop } (StSim.withSc st hsc1.popLoop)
                (LoopCtx.withSc hctx hends2) hcEl'
              exact NodeOutcome.seq hlf IHe (hrun3.cast (by omega)) hends2 hw3 (by omega) (by omega)

theorem nodes_step (fuel : Nat) (H : NodeSimAt venv vm c lf Inc eenv fuel) :
    ∀ (inLoop : Bool) (ns : List Node), (∀ n ∈ ns, InCoreNode lf Inc inLoop n) →
    ∀ (base : Nat) (loop : Option Nat) (st : State) (est : Tera.St), StSim est st →
    LoopCtx inLoop loop st → CodeAt c base (nodesCode base loop ns) →
    NodeOutcome venv vm c lf loop (execNodes (fuel + 1) eenv vm.autoescape est ns) base
      (nodesCode base loop ns).length st := by
  intro inLoop ns hns base loop st est hst hctx hcode
  cases ns with
  | nil =>
    simp only [execNodes, nodesCode, List.length_nil]
    refine ⟨[], st.scope, hst.1, rfl, ?_, Within.nil, by bnd⟩
    show RunI venv vm c base st [] (base + 0) _
    rw [withSc_self hst]
    exact RunI.nil _ _ _ _
  | cons n rest =>
    simp only [nodesCode] at hcode ⊢
    rw [CodeAt.append] at hcode
    obtain ⟨hc1, hc2⟩ := hcode
    simp only [List.length_append]
    have IH1 := H.node _ n (hns n (by simp)) base loop st est hst hctx hc1
    simp only [execNodes]
    cases hr : execNode fuel eenv vm.autoescape est n with
    | error err =>
      rw [hr] at IH1
      intro hrep
      obtain ⟨tr, re, hf, hm, hw, hl⟩ := IH1 hrep
      exact ⟨tr, re, hf, hm, hw.mono (Nat.le_refl _) (by omega), by bnd⟩
    | ok p =>
      obtain ⟨est1, sig⟩ := p
      rw [hr] at IH1
      obtain ⟨tr1, sc1, hsc1, hends1, hrun1, hw1, hl1⟩ := IH1
      cases sig with
      | normal =>
        simp only
        have hrun1' : RunI venv vm c base st tr1 (base + (nodeCode base loop n).length)
            (withSc st est1 sc1) := hrun1
        have IH2 := H.nodes _ rest (fun m hm => hns m (by simp [hm])) _ loop (withSc st est1 sc1) est1
          (StSim.withSc st hsc1) (hctx.withSc hends1) hc2
        cases hr2 : execNodes fuel eenv vm.autoescape est1 rest with
        | error err =>
          rw [hr2] at IH2
          intro hrep
          obtain ⟨tr, re, hf, hm, hw, hl⟩ := IH2 hrep
          exact ⟨tr1 ++ tr, re, hrun1'.fails hf, hm,
            (hw1.mono (Nat.le_refl _) (by omega)).append (hw.mono (by omega) (by omega)), by bnd⟩
        | ok p2 =>
          obtain ⟨est2, sig2⟩ := p2
          rw [hr2] at IH2
          obtain ⟨tr2, sc2, hsc2, hends2, hrun2, hw2, hl2⟩ := IH2
          refine ⟨tr1 ++ tr2, sc2, hsc2, hends2.trans hends1, ?_,
            (hw1.mono (Nat.le_refl _) (by omega)).append (hw2.mono (by omega) (by omega)), by bnd⟩
          rw [withSc_withSc] at hrun2
          cases sig2 with
          | normal => exact (hrun1'.trans hrun2).cast (by omega)
          | brk =>
            obtain ⟨l, rs, hl, hr⟩ := hrun2
            exact ⟨l, rs, hl, hrun1'.trans hr⟩
          | cont =>
            obtain ⟨idx, hl, hr⟩ := hrun2
            exact ⟨idx, hl, hrun1'.trans hr⟩
      | brk =>
        simp only
        obtain ⟨l, rs, hl, hr⟩ := hrun1
        exact ⟨tr1, sc1, hsc1, hends1, ⟨l, rs, hl, hr⟩, hw1.mono (Nat.le_refl _) (by omega), by bnd⟩
      | cont =>
        simp only
        obtain ⟨idx, hl, hr⟩ := hrun1
        exact ⟨tr1, sc1, hsc1, hends1, ⟨idx, hl, hr⟩, hw1.mono (Nat.le_refl _) (by omega), by bnd⟩

theorem for_step (fuel : Nat) (H : NodeSimAt venv vm c lf Inc eenv fuel) :
    ∀ (body : List Node), (∀ n ∈ body, InCoreNode lf Inc true n) →
    ∀ (startIdx : Nat) (st : State) (est : Tera.St), StSim est st →
    CodeAt c startIdx (forLoopCode startIdx body) →
    ForOutcome venv vm c (execFor (fuel + 1) eenv vm.autoescape est body) startIdx
      (forLoopCode startIdx body).length st := by
  intro body hbody startIdx st est hst hcode
  have hlen : (forLoopCode startIdx body).length
      = 1 + (nodesCode (startIdx + 1) (some startIdx) body).length + 1 := by
    simp only [forLoopCode, List.length_append, List.length_singleton]
  have hcode' := hcode
  simp only [forLoopCode] at hcode'
  rw [CodeAt.append, CodeAt.append] at hcode'
  obtain ⟨⟨hcI, hcB⟩, hcJ⟩ := hcode'
  have hentI := CodeAt.single.mp hcI
  have hentJ := CodeAt.single.mp hcJ
  simp only [List.length_append, List.length_singleton, ← Nat.add_assoc] at hentJ hcB
  simp only [execFor]
  have hloops : LoopsSim est.scope.forLoops st.scope.forLoops := hst.1.forLoops
  cases hlE : est.scope.forLoops with
  | nil => intro h; simp [reportable] at h
  | cons l ls =>
    cases hlV : st.scope.forLoops with
    | nil => rw [hlE, hlV] at hloops; exact hloops.elim
    | cons lv lvs =>
      rw [hlE, hlV] at hloops
      have hls : LoopSim l lv := hloops.1
      simp only
      rcases hls.iterate (t := startIdx + 1 + (nodesCode (startIdx + 1) (some startIdx) body).length + 1)
        (by omega) with ⟨h1, h2⟩ | ⟨a, b, h1, h2, hab⟩
      · -- the loop is over
        simp only [h1]
        refine ⟨[startIdx], st.scope, ?_, hst.1, rfl, by rw [hlV]; simp,
          Within.single (Nat.le_refl _) (by rw [hlen]; omega)⟩
        rw [withSc_self hst]
        exact (run_iterate_over hentI st lv lvs hlV h2).toI.cast (by rw [hlen]; omega)
      · simp only [h1]
        have hst1 : StSim { est with scope := est.scope.setTopLoop a }
            { st with scope := st.scope.setTopLoop b } :=
          ⟨hst.1.setTopLoop hab, hst.2.1, hst.2.2⟩
        have hl1 : ({ st with scope := st.scope.setTopLoop b } : State).scope.forLoops = b :: lvs :=
          forLoops_setTopLoop_cons b hlV
        have hctx1 : LoopCtx true (some startIdx) { st with scope := st.scope.setTopLoop b } :=
          fun _ => ⟨rfl, by rw [hl1]; simp⟩
        have hrunI : RunI venv vm c startIdx st [startIdx] (startIdx + 1)
            { st with scope := st.scope.setTopLoop b } :=
          (run_iterate_next hentI st lv b lvs hlV h2).toI
        have hwI : Within startIdx (startIdx + (forLoopCode startIdx body).length) [startIdx] :=
          Within.single (Nat.le_refl _) (by rw [hlen]; omega)
        have IHb := H.nodes true body hbody (startIdx + 1) (some startIdx)
          { st with scope := st.scope.setTopLoop b } { est with scope := est.scope.setTopLoop a }
          hst1 hctx1 hcB
        cases hr : execNodes fuel eenv vm.autoescape { est with scope := est.scope.setTopLoop a } body with
        | error err =>
          rw [hr] at IHb
          intro hrep
          obtain ⟨trB, re, hf, hm, hwB, _⟩ := IHb hrep
          exact ⟨[startIdx] ++ trB, re, hrunI.fails hf, hm,
            hwI.append (hwB.mono (by omega) (by rw [hlen]; omega))⟩
        | ok p =>
          obtain ⟨est', sig⟩ := p
          rw [hr] at IHb
          obtain ⟨trB, scB, hscB, hendsB, hrunB, hwB, _⟩ := IHb
          rw [hl1] at hendsB
          have hwB' : Within startIdx (startIdx + (forLoopCode startIdx body).length) trB :=
            hwB.mono (by omega) (by rw [hlen]; omega)
          -- the next round of the loop, from `start_idx`
          have recK : ∀ (tr0 : List Nat),
              RunI venv vm c startIdx st tr0 startIdx (withSc st est' scB) →
              Within startIdx (startIdx + (forLoopCode startIdx body).length) tr0 →
              ForOutcome venv vm c (execFor fuel eenv vm.autoescape est' body) startIdx
                (forLoopCode startIdx body).length st := by
            intro tr0 hrun0 hw0
            have IH := H.for_ body hbody startIdx (withSc st est' scB) est' (StSim.withSc st hscB) hcode
            cases hrf : execFor fuel eenv vm.autoescape est' body with
            | error err =>
              rw [hrf] at IH
              intro hrep
              obtain ⟨trL, re, hf, hm, hwL⟩ := IH hrep
              exact ⟨tr0 ++ trL, re, hrun0.fails hf, hm, hw0.append hwL⟩
            | ok est'' =>
              rw [hrf] at IH
              obtain ⟨trL, sc'', hrunL, hsc'', hends'', hne'', hwL⟩ := IH
              rw [withSc_withSc] at hrunL
              refine ⟨tr0 ++ trL, sc'', hrun0.trans hrunL, hsc'', ?_, hne'', hw0.append hwL⟩
              rw [hends'']
              show ends scB.forLoops.tail = ends st.scope.forLoops.tail
              rw [hlV]
              cases hsB : scB.forLoops with
              | nil => rw [hsB] at hendsB; simp [ends] at hendsB
              | cons x xs =>
                rw [hsB] at hendsB
                simp only [ends, List.map_cons, List.cons.injEq] at hendsB
                simpa [ends] using hendsB.2
          cases sig with
          | normal =>
            simp only
            have hrunB' : RunI venv vm c (startIdx + 1) { st with scope := st.scope.setTopLoop b } trB
                (startIdx + 1 + (nodesCode (startIdx + 1) (some startIdx) body).length)
                (withSc st est' scB) := hrunB
            exact recK ([startIdx] ++ trB ++ [_])
              ((hrunI.trans hrunB').trans (run_jump hentJ _).toI)
              ((hwI.append hwB').append (Within.single (by omega) (by rw [hlen]; omega)))
          | cont =>
            simp only
            obtain ⟨idx, hidx, hrunC⟩ := hrunB
            simp only [Option.some.injEq] at hidx
            subst hidx
            have hrunC' : RunI venv vm c (startIdx + 1) { st with scope := st.scope.setTopLoop b } trB
                startIdx (withSc st est' scB) := hrunC
            exact recK ([startIdx] ++ trB) (hrunI.trans hrunC') (hwI.append hwB')
          | brk =>
            simp only
            obtain ⟨lb, rs, hlb, hrunK⟩ := hrunB
            have hlb' : scB.forLoops = lb :: rs := hlb
            rw [hlb'] at hendsB
            simp only [ends, List.map_cons, List.cons.injEq] at hendsB
            have hend : lb.endIp = startIdx + (forLoopCode startIdx body).length := by
              rw [hendsB.1, iterate_endIp h2, hlen]; omega
            have hrunK' : RunI venv vm c (startIdx + 1) { st with scope := st.scope.setTopLoop b } trB
                lb.endIp (withSc st est' scB) := hrunK
            refine ⟨[startIdx] ++ trB, scB, (hrunI.trans hrunK').cast hend, hscB, ?_, by rw [hlb']; simp,
              hwI.append hwB'⟩
            rw [hlb', hlV]
            simpa [ends] using hendsB.2

theorem nodeSimAt_zero : NodeSimAt venv vm c lf Inc eenv 0 := by
  refine ⟨?_, ?_, ?_⟩
  · intro _ n _ base loop st est _ _ _
    simp only [execNode]
    intro h; simp [reportable] at h
  · intro _ ns _ base loop st est _ _ _
    simp only [execNodes]
    intro h; simp [reportable] at h
  · intro body _ startIdx st est _ _
    simp only [execFor]
    intro h; simp [reportable] at h

/-- the simulation statements at every evaluator fuel, from the include oracle at every smaller
fuel (the form Props/RefineE2E.lean uses: there the oracle comes from the optimiser theorem) -/
theorem nodeSimAt_of_oracle (hE : EnvRel venv eenv) (hB : BuiltinsRel venv eenv)
    (ht : reportTargetOk venv vm c = true) (hov : vm.autoescapeOverride = none) :
    ∀ fuel, (∀ f, f < fuel → IncOracle venv eenv Inc f) → NodeSimAt venv vm c lf Inc eenv fuel := by
  intro fuel
  induction fuel with
  | zero => exact fun _ => nodeSimAt_zero
  | succ fuel ih =>
    intro hO
    have H := ih (fun f hf => hO f (by omega))
    exact ⟨node_step hE hB ht hov fuel H (hO fuel (by omega)), nodes_step fuel H, for_step fuel H⟩

/-- `TemplatesRel` (included templates hold their compiled, unoptimised bodies) and the simulation
at a fuel give the include oracle at that fuel -/
theorem incOracle_of_templatesRel (hT : TemplatesRel venv eenv lf Inc) (fuel : Nat)
    (HA : NodeSimAll venv lf Inc eenv fuel) : IncOracle venv eenv Inc fuel := by
  intro vm hov name hinc st est hst
  have hrel := hT.rel name hinc
  cases het : eenv.template name with
  | none => rw [het] at hrel; exact hrel
  | some t =>
    rw [het] at hrel
    obtain ⟨tpl, vcode, hvt, hchunk, hemb, hae, hcore⟩ := hrel
    refine ⟨tpl, hvt, ?_⟩
    have hcodeI : CodeAt tpl.chunk 0 (nodesCode 0 none t.nodes) := by
      rw [hchunk]
      have := codeAt_of_embed (name := tpl.name) (pre := []) (post := []) hemb
      simpa using this
    have htI : reportTargetOk venv (inclVm vm tpl) tpl.chunk = true := by
      simp [reportTargetOk, inclVm, hchunk]
    have hstI : StSim { scope := Scope.included est.scope, out := [], captures := [] }
        (includeState st) := ⟨hst.1.included, rfl, rfl⟩
    have haeI : (inclVm vm tpl).autoescape = t.autoescape := by
      simp [VmCtx.autoescape, inclVm, hov, hae]
    have IH := (HA (inclVm vm tpl) tpl.chunk htI hov).nodes false t.nodes hcore 0 none
      (includeState st) { scope := Scope.included est.scope, out := [], captures := [] } hstI
      (fun h => by cases h) hcodeI
    rw [haeI] at IH
    have hlenI : (nodesCode 0 none t.nodes).length = vcode.length := (embed_length hemb).symm
    cases hr : execNodes fuel eenv t.autoescape
        { scope := Scope.included est.scope, out := [], captures := [] } t.nodes with
    | error err =>
      rw [hr] at IH
      intro hrep
      obtain ⟨trN, re, hf, hm, _, _⟩ := IH hrep
      exact ⟨re, hm, hf.inclErr⟩
    | ok p =>
      obtain ⟨est', sig⟩ := p
      rw [hr] at IH
      intro hsig
      simp only at hsig
      subst hsig
      obtain ⟨trN, scN, _, _, hrunN, _, _⟩ := IH
      have hrunN' : RunI venv (inclVm vm tpl) tpl.chunk 0 (includeState st) trN
          (0 + (nodesCode 0 none t.nodes).length) (withSc (includeState st) est' scN) := hrunN
      have hend : tpl.chunk.code[0 + (nodesCode 0 none t.nodes).length]? = none := by
        rw [hchunk, hlenI]; simp
      exact ⟨_, hrunN'.inclDone hend, rfl⟩

theorem nodeSimAll (hE : EnvRel venv eenv) (hB : BuiltinsRel venv eenv)
    (hT : TemplatesRel venv eenv lf Inc) :
    ∀ fuel, NodeSimAll venv lf Inc eenv fuel := by
  intro fuel
  induction fuel with
  | zero => exact fun vm c _ _ => nodeSimAt_zero
  | succ fuel ih =>
    intro vm c ht hov
    exact ⟨node_step hE hB ht hov fuel (ih vm c ht hov) (incOracle_of_templatesRel hT fuel ih),
      nodes_step fuel (ih vm c ht hov), for_step fuel (ih vm c ht hov)⟩

theorem nodeSimAt (hE : EnvRel venv eenv) (hB : BuiltinsRel venv eenv)
    (hT : TemplatesRel venv eenv lf Inc)
    (ht : reportTargetOk venv vm c = true) (hov : vm.autoescapeOverride = none) :
    ∀ fuel, NodeSimAt venv vm c lf Inc eenv fuel :=
  fun fuel => nodeSimAll hE hB hT fuel vm c ht hov

/-- the simulation theorem for one statement -/
theorem node_sim (hE : EnvRel venv eenv) (hB : BuiltinsRel venv eenv)
    (hT : TemplatesRel venv eenv lf Inc)
    (ht : reportTargetOk venv vm c = true) (hov : vm.autoescapeOverride = none) (fuel : Nat) (inLoop : Bool)
    (n : Node) (hn : InCoreNode lf Inc inLoop n) (base : Nat) (loop : Option Nat) (st : State)
    (est : Tera.St) (hst : StSim est st) (hctx : LoopCtx inLoop loop st)
    (hcode : CodeAt c base (nodeCode base loop n)) :
    NodeOutcome venv vm c lf loop (execNode fuel eenv vm.autoescape est n) base
      (nodeCode base loop n).length st :=
  (nodeSimAt hE hB hT ht hov fuel).node inLoop n hn base loop st est hst hctx hcode

/-- the simulation theorem for a statement list -/
theorem nodes_sim (hE : EnvRel venv eenv) (hB : BuiltinsRel venv eenv)
    (hT : TemplatesRel venv eenv lf Inc)
    (ht : reportTargetOk venv vm c = true) (hov : vm.autoescapeOverride = none) (fuel : Nat) (inLoop : Bool)
    (ns : List Node) (hns : ∀ n ∈ ns, InCoreNode lf Inc inLoop n) (base : Nat) (loop : Option Nat)
    (st : State) (est : Tera.St) (hst : StSim est st) (hctx : LoopCtx inLoop loop st)
    (hcode : CodeAt c base (nodesCode base loop ns)) :
    NodeOutcome venv vm c lf loop (execNodes fuel eenv vm.autoescape est ns) base
      (nodesCode base loop ns).length st :=
  (nodeSimAt hE hB hT ht hov fuel).nodes inLoop ns hns base loop st est hst hctx hcode

end
end Tera.Refine
