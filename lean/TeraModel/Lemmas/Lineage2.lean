/-
Block lineage, part 2: the inherited-lineage pass (`pass2`, `inheritFrom`, `orInsertAll`) keeps
every entry equal to `lineageSpec` whatever the iteration order, and completes the entry of each
template it visits.
-/
import TeraModel.Lemmas.Lineage
namespace Tera.Reg

/-! ### chains -/

theorem findParents_ok_walk {ps : List String} {S : List Tpl} {t : Tpl} (hT : get S t.name = some t)
    {r : List String} (h : findParents ps S t = .ok r) :
    ∃ cs x, Walk (ExtEdge ps S) t.name cs x ∧ IsRoot S x ∧ (t.name :: cs).Nodup ∧ r = cs.reverse := by
  have := findParents_fpspec ps S t hT
  rw [h] at this
  exact this

theorem findParents_ok_of_walk {ps : List String} {S : List Tpl} {t : Tpl} (hT : get S t.name = some t)
    {cs : List String} {x : String} (hw : Walk (ExtEdge ps S) t.name cs x) (hroot : IsRoot S x)
    (hnd : (t.name :: cs).Nodup) : findParents ps S t = .ok cs.reverse := by
  obtain ⟨h1, h2, h3, h4, h5⟩ := fp_unique hT hw hnd (.inl hroot)
  cases hres : findParents ps S t with
  | ok r' => rw [(h1 r' hres).2]
  | missingParent a p => exact absurd hroot (h2 a p hres).2.not_root
  | circular ch => obtain ⟨r', he, _⟩ := h3 ch hres; exact absurd he hroot.no_edge
  | outOfFuel => exact absurd hres h4
  | panic => exact absurd hres h5

/-- `PO` is the parents table: it records, for every registered template, what `find_parents`
returned for it. -/
def ParentsTable (ps : List String) (S : List Tpl) (PO : String → Option (List String)) : Prop :=
  ∀ k, has S k = true → ∃ t p, get S k = some t ∧ PO k = some p ∧ findParents ps S t = .ok p

/-- A chain (most derived first) all of whose suffixes are the chains of their heads. -/
def GoodChain (S : List Tpl) (PO : String → Option (List String)) : List String → Prop
  | [] => True
  | c :: rest => has S c = true ∧ PO c = some rest.reverse ∧ c ∉ rest ∧ GoodChain S PO rest

theorem GoodChain.suffix {S : List Tpl} {PO : String → Option (List String)} :
    ∀ (pre l : List String), GoodChain S PO (pre ++ l) → GoodChain S PO l := by
  intro pre
  induction pre with
  | nil => intro l h; exact h
  | cons a pre ih => intro l h; exact ih l h.2.2.2

theorem PO_of_walk {ps : List String} {S : List Tpl} {PO : String → Option (List String)}
    (hPO : ParentsTable ps S PO) {k x : String} {cs : List String} (hk : has S k = true)
    (hw : Walk (ExtEdge ps S) k cs x) (hroot : IsRoot S x) (hnd : (k :: cs).Nodup) :
    PO k = some cs.reverse := by
  obtain ⟨t, p, hg, hp, hf⟩ := hPO k hk
  have hn := get_name hg
  subst hn
  have := findParents_ok_of_walk hg hw hroot hnd
  rw [this] at hf
  cases hf
  exact hp

theorem goodChain_of_walk {ps : List String} {S : List Tpl} {PO : String → Option (List String)}
    (hPO : ParentsTable ps S PO) :
    ∀ (cs : List String) (k x : String), has S k = true → Walk (ExtEdge ps S) k cs x → IsRoot S x →
      (k :: cs).Nodup → GoodChain S PO (k :: cs) := by
  intro cs
  induction cs with
  | nil =>
    intro k x hk hw hroot hnd
    exact ⟨hk, PO_of_walk hPO hk hw hroot hnd, by simp, trivial⟩
  | cons c rest ih =>
    intro k x hk hw hroot hnd
    have hpo := PO_of_walk hPO hk hw hroot hnd
    cases hw with
    | cons e w =>
      obtain ⟨_, _, _, _, hr⟩ := e
      have hc := resolve_has hr
      have hnd' : (c :: rest).Nodup := (List.nodup_cons.mp hnd).2
      exact ⟨hk, hpo, (List.nodup_cons.mp hnd).1, ih c x hc w hroot hnd'⟩

/-- the chain of every registered template is good -/
theorem goodChain_of_table {ps : List String} {S : List Tpl} {PO : String → Option (List String)}
    (hPO : ParentsTable ps S PO) {T : String} (hT : has S T = true) :
    ∃ p, PO T = some p ∧ GoodChain S PO (chainOf T p) := by
  obtain ⟨t, p, hg, hp, hf⟩ := hPO T hT
  have hn := get_name hg
  subst hn
  obtain ⟨cs, x, hw, hroot, hnd, rfl⟩ := findParents_ok_walk hg hf
  refine ⟨cs.reverse, hp, ?_⟩
  simp only [chainOf, List.reverse_reverse]
  exact goodChain_of_walk hPO cs t.name x hT hw hroot hnd

/-! ### the invariant of pass 2 -/

/-- lineage recorded for block `b` of template `T` -/
def LB (tb : TplBlocks) (T b : String) : Option (List String) :=
  match tbLookup tb T with
  | some m => blockLookup m b
  | none => none

/-- lineage the property prescribes for block `b` of template `T` -/
def SpecL (S : List Tpl) (PO : String → Option (List String)) (T b : String) : Option (List String) :=
  match PO T with
  | some p => lineageSpec S (chainOf T p) b
  | none => none

structure Inv (S : List Tpl) (PO : String → Option (List String)) (tb : TplBlocks) : Prop where
  sound : ∀ T b l, has S T = true → LB tb T b = some l → SpecL S PO T b = some l
  own : ∀ T b, has S T = true → (definesBlock S T b).isSome = true → (LB tb T b).isSome = true
  keys : ∀ T, has S T = true → (tbLookup tb T).isSome = true

def Mono (tb tb' : TplBlocks) : Prop := ∀ T b l, LB tb T b = some l → LB tb' T b = some l

theorem Mono.refl (tb : TplBlocks) : Mono tb tb := fun _ _ _ h => h

theorem Mono.trans {a b c : TplBlocks} (h1 : Mono a b) (h2 : Mono b c) : Mono a c :=
  fun T bl l h => h2 T bl l (h1 T bl l h)

theorem inherit_inv {S : List Tpl} {PO : String → Option (List String)} (T : String) (hT : has S T = true) :
    ∀ (rest done : List String) (tb tb' : TplBlocks),
      GoodChain S PO (T :: (done ++ rest)) → Inv S PO tb →
      (∀ b, (∃ n ∈ T :: done, (definesBlock S n b).isSome = true) → (LB tb T b).isSome = true) →
      inheritFrom tb T rest = .ok tb' →
      Inv S PO tb' ∧ Mono tb tb' ∧ ∀ b, LB tb' T b = SpecL S PO T b := by
  intro rest
  induction rest with
  | nil =>
    intro done tb tb' hg hinv hJ h
    simp only [inheritFrom] at h
    cases h
    refine ⟨hinv, Mono.refl _, ?_⟩
    intro b
    cases hl : LB tb T b with
    | some l => exact (hinv.sound T b l hT hl).symm
    | none =>
      have hpo : PO T = some (done ++ []).reverse := hg.2.1
      simp only [SpecL, hpo, chainOf, List.reverse_reverse, List.append_nil]
      symm
      apply lineageSpec_none_of_nodef
      intro n hn
      cases hd : definesBlock S n b with
      | none => rfl
      | some s =>
        have := hJ b ⟨n, hn, by simp [hd]⟩
        rw [hl] at this
        cases this
  | cons p rest' ih =>
    intro done tb tb' hg hinv hJ h
    have hsuf : GoodChain S PO (p :: rest') := GoodChain.suffix (T :: done) (p :: rest') (by simpa using hg)
    have hp : has S p = true := hsuf.1
    have hpo_p : PO p = some rest'.reverse := hsuf.2.1
    have hpo_T : PO T = some (done ++ p :: rest').reverse := hg.2.1
    have hTnot : T ∉ done ++ p :: rest' := hg.2.2.1
    have hpT : ¬ p = T := fun e => hTnot (by simp [e])
    obtain ⟨pb, hpb⟩ := Option.isSome_iff_exists.mp (hinv.keys p hp)
    obtain ⟨child, hchild⟩ := Option.isSome_iff_exists.mp (hinv.keys T hT)
    unfold inheritFrom at h
    simp only [hpb, hchild] at h
    -- the table after merging `p` into `T`
    have lbT : ∀ b, LB (tbSet tb T (orInsertAll child pb)) T b =
        match LB tb T b with
        | some x => some x
        | none => LB tb p b := by
      intro b
      simp only [LB, tbLookup_tbSet, if_true, hchild, hpb, Option.map_some]
      exact orInsertAll_lookup pb child b
    have lbO : ∀ T' b, ¬ T' = T → LB (tbSet tb T (orInsertAll child pb)) T' b = LB tb T' b := by
      intro T' b hne
      simp only [LB, tbLookup_tbSet, hne, if_false]
    have hmono1 : Mono tb (tbSet tb T (orInsertAll child pb)) := by
      intro T' b l hl
      by_cases hne : T' = T
      · subst hne; rw [lbT, hl]
      · rw [lbO T' b hne]; exact hl
    have hinv1 : Inv S PO (tbSet tb T (orInsertAll child pb)) := by
      refine ⟨?_, ?_, ?_⟩
      · intro T' b l hT' hl
        by_cases hne : T' = T
        · subst hne
          rw [lbT] at hl
          cases hold : LB tb T' b with
          | some x =>
            rw [hold] at hl
            simp only [Option.some.injEq] at hl
            subst hl
            exact hinv.sound T' b _ hT hold
          | none =>
            rw [hold] at hl
            simp only at hl
            have hsp := hinv.sound p b l hp hl
            -- no template of `T' :: done` defines `b`
            have hnodef : ∀ n ∈ T' :: done, definesBlock S n b = none := by
              intro n hn
              cases hd : definesBlock S n b with
              | none => rfl
              | some s =>
                have := hJ b ⟨n, hn, by simp [hd]⟩
                rw [hold] at this
                cases this
            simp only [SpecL, hpo_p, chainOf, List.reverse_reverse] at hsp
            simp only [SpecL, hpo_T, chainOf, List.reverse_reverse]
            rw [← hsp]
            have := lineageSpec_skip (S := S) (b := b) (T' :: done) (p :: rest') hnodef
            simpa using this
        · rw [lbO T' b hne] at hl
          exact hinv.sound T' b l hT' hl
      · intro T' b hT' hd
        have := hinv.own T' b hT' hd
        obtain ⟨l, hl⟩ := Option.isSome_iff_exists.mp this
        rw [hmono1 T' b l hl]; rfl
      · intro T' hT'
        rw [tbLookup_tbSet]
        have := hinv.keys T' hT'
        by_cases hne : T' = T
        · simp only [hne, if_true]
          rw [hne] at this
          obtain ⟨m, hm⟩ := Option.isSome_iff_exists.mp this
          simp [hm]
        · simp only [hne, if_false]; exact this
    have hJ1 : ∀ b, (∃ n ∈ T :: (done ++ [p]), (definesBlock S n b).isSome = true) →
        (LB (tbSet tb T (orInsertAll child pb)) T b).isSome = true := by
      rintro b ⟨n, hn, hd⟩
      have hn' : n ∈ T :: done ∨ n = p := by
        simp only [List.mem_cons, List.mem_append, List.not_mem_nil, or_false] at hn ⊢
        rcases hn with h | h | h
        · exact .inl (.inl h)
        · exact .inl (.inr h)
        · exact .inr h
      rcases hn' with h1 | h1
      · obtain ⟨l, hl⟩ := Option.isSome_iff_exists.mp (hJ b ⟨n, h1, hd⟩)
        rw [hmono1 T b l hl]; rfl
      · subst h1
        obtain ⟨l, hl⟩ := Option.isSome_iff_exists.mp (hinv.own n b hp hd)
        rw [lbT]
        cases LB tb T b with
        | some x => rfl
        | none => simp [hl]
    have hg1 : GoodChain S PO (T :: ((done ++ [p]) ++ rest')) := by simpa using hg
    obtain ⟨r1, r2, r3⟩ := ih (done ++ [p]) _ tb' hg1 hinv1 hJ1 h
    exact ⟨r1, hmono1.trans r2, r3⟩

end Tera.Reg

namespace Tera.Reg

theorem GoodChain.all_has {S : List Tpl} {PO : String → Option (List String)} :
    ∀ (l : List String), GoodChain S PO l → ∀ c ∈ l, has S c = true := by
  intro l
  induction l with
  | nil => intro _ c hc; cases hc
  | cons a l ih =>
    intro h c hc
    rcases List.mem_cons.mp hc with h1 | h1
    · rw [h1]; exact h.1
    · exact ih h.2.2.2 c h1

theorem complete_preserved {S : List Tpl} {PO : String → Option (List String)} {tb1 tb' : TplBlocks}
    {T : String} (hT : has S T = true) (hinv : Inv S PO tb') (hm : Mono tb1 tb')
    (hc : ∀ b, LB tb1 T b = SpecL S PO T b) : ∀ b, LB tb' T b = SpecL S PO T b := by
  intro b
  cases hs : SpecL S PO T b with
  | some l => exact hm T b l (by rw [hc b, hs])
  | none =>
    cases hl : LB tb' T b with
    | none => rfl
    | some l =>
      have := hinv.sound T b l hT hl
      rw [hs] at this
      cases this

theorem pass2_inv {ps : List String} {S : List Tpl} (parents : List (String × List String))
    (hPO : ParentsTable ps S (lookupParents parents))
    (hun : ∀ k, has S k = false → lookupParents parents k = none) :
    ∀ (names : List String) (tb tb' : TplBlocks), Inv S (lookupParents parents) tb →
      pass2 parents tb names = .ok tb' →
      Inv S (lookupParents parents) tb' ∧ Mono tb tb' ∧
        ∀ T ∈ names, ∀ b, LB tb' T b = SpecL S (lookupParents parents) T b := by
  intro names
  induction names with
  | nil =>
    intro tb tb' hinv h
    simp only [pass2] at h
    cases h
    exact ⟨hinv, Mono.refl _, by simp⟩
  | cons T rest ih =>
    intro tb tb' hinv h
    unfold pass2 at h
    cases hp : lookupParents parents T with
    | none => simp [hp] at h
    | some psT =>
      simp only [hp] at h
      cases hi : inheritFrom tb T psT.reverse with
      | error e => simp [hi] at h
      | ok tb1 =>
        simp only [hi] at h
        have hT : has S T = true := by
          cases hh : has S T with
          | true => rfl
          | false => rw [hun T hh] at hp; cases hp
        obtain ⟨p, hp', hgood⟩ := goodChain_of_table hPO hT
        rw [hp] at hp'
        cases hp'
        have hg0 : GoodChain S (lookupParents parents) (T :: ([] ++ psT.reverse)) := by
          simpa [chainOf] using hgood
        have hJ0 : ∀ b, (∃ n ∈ T :: ([] : List String), (definesBlock S n b).isSome = true) →
            (LB tb T b).isSome = true := by
          rintro b ⟨n, hn, hd⟩
          simp at hn
          subst hn
          exact hinv.own n b hT hd
        obtain ⟨inv1, mono1, comp1⟩ := inherit_inv T hT psT.reverse [] tb tb1 hg0 hinv hJ0 hi
        obtain ⟨inv', mono', comp'⟩ := ih tb1 tb' inv1 h
        refine ⟨inv', mono1.trans mono', ?_⟩
        intro T' hT' b
        rcases List.mem_cons.mp hT' with h1 | h1
        · rw [h1]; exact complete_preserved hT inv' mono' comp1 b
        · exact comp' T' h1 b

/-- **Both lineage passes together**: if `finalize_templates` accepts, then whatever the two
`HashMap` iteration orders were, the lineage stored for every block of every registered template
is the one the specification prescribes. -/
theorem derive_lineage (ps : List String) (S : List Tpl) (o2 o3 : List String) (d : Derived)
    (h : derive ps S o2 o3 = .ok d)
    (ho2 : ∀ k, has S k = true → k ∈ o2) (ho3 : ∀ k, has S k = true → k ∈ o3)
    (T : String) (hT : has S T = true) (b : String) :
    ParentsTable ps S (lookupParents d.parents) ∧
    LB d.lineage T b = SpecL S (lookupParents d.parents) T b := by
  unfold derive at h
  cases h1 : loop1 ps S {} (sortDedup (keys S)) with
  | error e => simp [h1] at h
  | ok l1 =>
    simp only [h1] at h
    cases h2 : loop2 ps S l1 o2 with
    | error e => simp [h2] at h
    | ok r =>
      obtain ⟨tb, bad⟩ := r
      simp only [h2] at h
      cases h3 : pass2 l1.parents tb o3 with
      | error e => simp [h3] at h
      | ok tb' =>
        simp only [h3] at h
        cases hb : bad with
        | true => simp [hb] at h
        | false =>
          simp only [hb] at h
          cases h
          simp only
          obtain ⟨lp, lsome⟩ := loop1_parents ps S (sortDedup (keys S)) {} l1 h1
          have hlook : ∀ k, lookupParents l1.parents k =
              if k ∈ sortDedup (keys S) then parentsOf ps S k else none := by
            intro k
            rw [lp k]
            simp [lookupParents]
          have hPO : ParentsTable ps S (lookupParents l1.parents) := by
            intro k hk
            have hmem : k ∈ sortDedup (keys S) := (mem_sortDedup k _).mpr (has_mem_keys hk)
            have hs := lsome k hmem
            rw [hlook k]
            simp only [hmem, if_true]
            obtain ⟨t, ht⟩ := has_iff_get.mp hk
            unfold parentsOf at hs ⊢
            simp only [ht] at hs ⊢
            cases hf : findParents ps S t with
            | ok p => exact ⟨t, p, rfl, by simp, hf⟩
            | missingParent a c => simp [hf] at hs
            | circular ch => simp [hf] at hs
            | outOfFuel => simp [hf] at hs
            | panic => simp [hf] at hs
          have hun : ∀ k, has S k = false → lookupParents l1.parents k = none := by
            intro k hk
            rw [hlook k]
            have : k ∉ sortDedup (keys S) := by
              intro hm
              have := mem_keys_has ((mem_sortDedup k _).mp hm)
              rw [hk] at this
              cases this
            simp [this]
          obtain ⟨l2a, _⟩ := loop2_ok ps S l1 o2 tb bad h2
          -- the table after pass 1 satisfies the invariant
          have key : ∀ T', has S T' = true → ∃ tpl parents m, get S T' = some tpl ∧
              lookupParents l1.parents T' = some parents ∧ tbLookup tb T' = some m ∧
              ∀ b', blockLookup m b' = (tpl.blocks.find? (fun d => d.name == b')).map
                (fun d => cutAfterNoSuper ((T', d.callsSuper) :: definers S b' parents.reverse)) := by
            intro T' hT'
            obtain ⟨tpl, parents, m, hg, hp, ho, hl⟩ := l2a T' (ho2 T' hT')
            obtain ⟨p, hp', hgood⟩ := goodChain_of_table hPO hT'
            rw [hp] at hp'
            cases hp'
            have hreg : ∀ c ∈ parents, has S c = true := by
              intro c hc
              exact GoodChain.all_has _ hgood c (by simp [chainOf, hc])
            obtain ⟨m', hm', hlk⟩ := ownBlocks_ok ps S parents tpl hreg tpl.blocks
            rw [ho] at hm'
            cases hm'
            have hn := get_name hg
            refine ⟨tpl, parents, m, hg, hp, hl, ?_⟩
            intro b'
            rw [hlk b', hn]
          have hinv0 : Inv S (lookupParents l1.parents) tb := by
            refine ⟨?_, ?_, ?_⟩
            · intro T' b' l hT' hl
              obtain ⟨tpl, parents, m, hg, hp, htb, hlk⟩ := key T' hT'
              simp only [LB, htb, hlk b'] at hl
              cases hf : tpl.blocks.find? (fun d => d.name == b') with
              | none => simp [hf] at hl
              | some dd =>
                simp only [hf, Option.map_some, Option.some.injEq] at hl
                have hd : definesBlock S T' b' = some dd.callsSuper := by
                  simp [definesBlock, hg, Tpl.findBlock, hf]
                simp only [SpecL, hp, chainOf]
                rw [lineageSpec_cons_def _ hd, hl]
            · intro T' b' hT' hd
              obtain ⟨tpl, parents, m, hg, hp, htb, hlk⟩ := key T' hT'
              simp only [LB, htb, hlk b']
              simp only [definesBlock, hg, Tpl.findBlock] at hd
              cases hf : tpl.blocks.find? (fun d => d.name == b') with
              | none => simp [hf] at hd
              | some dd => simp
            · intro T' hT'
              obtain ⟨tpl, parents, m, hg, hp, htb, hlk⟩ := key T' hT'
              simp [htb]
          obtain ⟨_, _, comp⟩ := pass2_inv l1.parents hPO hun o3 tb tb' hinv0 h3
          exact ⟨hPO, comp T (ho3 T hT) b⟩

end Tera.Reg
