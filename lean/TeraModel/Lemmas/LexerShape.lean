/-
Bridge between the lexer model (Model/Lexer.lean, Model/WsFilter.lean; Props/C06.lean) and the
hypothesis `shaped` of the parser totality theorem (Props/C06Parser.lean, T1).

`shaped` only looks at the KIND of a token (content / `{{` / `}}` / `{%` / `%}` / lexer error /
anything else).  This file proves: for EVERY delimiter set and source, the kinds of the filtered
token stream of the lexer model, followed by the error item if the lexer ended with a syntax
error, are `shaped` from template state.  The proof follows `Lexer.lexLoop_node_level`
(Lemmas/NodeLevel.lean) with the skeleton parser replaced by `shapedK`.
-/
import TeraModel.Lemmas.NodeLevel
import TeraModel.Model.TemplateParser
namespace Tera.TParser
open Tera Tera.Lexer Tera.WsFilter

/-- what `shaped` looks at -/
inductive Kind where
  | content | varStart | varEnd | tagStart | tagEnd | error | other
  deriving Repr, DecidableEq

/-- kind of a parser token -/
def kind : Tok → Kind
  | .content _ => .content
  | .variableStart _ => .varStart
  | .variableEnd _ => .varEnd
  | .tagStart _ => .tagStart
  | .tagEnd _ => .tagEnd
  | .error => .error
  | _ => .other

/-- kind of a lexer-model token (raw content and comments become Content in the whitespace
filter; they do not occur behind it: `C06.filter_removes_raw_and_comment`) -/
def kindB : Token → Kind
  | .content _ => .content
  | .rawContent .. => .content
  | .comment .. => .content
  | .variableStart _ => .varStart
  | .variableEnd _ => .varEnd
  | .tagStart _ => .tagStart
  | .tagEnd _ => .tagEnd
  | _ => .other

/-- the kinds of a lexer-model token stream -/
def kinds : List Item → List Kind
  | [] => []
  | (tok, _) :: r => kindB tok :: kinds r

/-- `shaped` on kinds -/
def shapedK : LexSt → List Kind → Bool
  | _, [] => true
  | st, k :: rest =>
    match k with
    | .error => rest.isEmpty
    | .content => st == .tpl && shapedK .tpl rest
    | .varStart => st == .tpl && shapedK .var rest
    | .tagStart => st == .tpl && shapedK .tag rest
    | .varEnd => st == .var && shapedK .tpl rest
    | .tagEnd => st == .tag && shapedK .tpl rest
    | .other => st != .tpl && shapedK st rest

theorem shaped_eq_shapedK : ∀ (st : LexSt) (l : List Tok), shaped st l = shapedK st (l.map kind) := by
  intro st l
  induction l generalizing st with
  | nil => simp [shaped, shapedK]
  | cons t rest ih =>
    cases t <;> simp [shaped, shapedK, kind, ih]

/-- the lexer state a state stack stands for -/
def stOf : List State → LexSt
  | .variable :: _ => .var
  | .tag :: _ => .tag
  | _ => .tpl

/-- the item a lexer ending hands to the parser after the tokens -/
def endKinds : Ending → List Kind
  | .error _ _ => [.error]
  | _ => []

theorem shapedK_end (st : LexSt) (e : Ending) : shapedK st (endKinds e) = true := by
  cases e <;> simp [endKinds, shapedK]

/-- the filtered stream of a lexer run from any reachable state is shaped from that state -/
theorem lexLoop_shaped (d : Delims) : ∀ (fuel : Nat) (p : Pos) (stack : List State) (flag : Bool),
    StackOk stack →
    shapedK (stOf stack)
      (kinds (filterGo flag (lexLoop d fuel p stack).tokens)
        ++ endKinds (lexLoop d fuel p stack).ending) = true := by
  intro fuel
  induction fuel with
  | zero =>
    intro p stack flag hst
    simp [lexLoop, filterGo, kinds, endKinds, shapedK]
  | succ f ih =>
    intro p stack flag hst
    unfold lexLoop
    split
    · simp [filterGo, kinds, endKinds, shapedK]
    · split
      · rename_i tok span p' stack' heq
        have hst' := step_stack d p stack hst heq
        simp only
        rcases hst with rfl | rfl | rfl
        · -- Template state
          have hsh := stepTemplate_shape d p [.template]
          simp only [step] at heq
          rw [heq] at hsh
          simp only [TplShape] at hsh
          rcases hsh with ⟨w, rfl, rfl⟩ | ⟨w, rfl, rfl⟩ | ⟨hk, rfl⟩
          · simp only [filterGo, kinds, List.cons_append, kindB, shapedK, stOf]
            simpa [stOf] using ih p' _ false hst'
          · simp only [filterGo, kinds, List.cons_append, kindB, shapedK, stOf]
            simpa [stOf] using ih p' _ false hst'
          · rcases hk with ⟨c, rfl⟩ | ⟨a, c, b, rfl⟩ | ⟨a, b, rfl⟩
            · simp only [filterGo, handleContent, kinds, List.cons_append, kindB, shapedK, stOf]
              simpa [stOf] using ih p' _ _ hst'
            · simp only [filterGo, handleContent, kinds, List.cons_append, kindB, shapedK, stOf]
              simpa [stOf] using ih p' _ _ hst'
            · simp only [filterGo, kinds, List.cons_append, kindB, shapedK, stOf]
              simpa [stOf] using ih p' _ _ hst'
        · -- Variable state
          have hsh := stepInTag_shape_var d p [.template]
          simp only [step] at heq
          rw [heq] at hsh
          simp only [TagShape] at hsh
          rcases hsh with ⟨w, rfl, rfl⟩ | ⟨hk, rfl⟩
          · cases w <;> simp only [filterGo, kinds, List.cons_append, kindB, shapedK, stOf] <;>
              simpa [stOf] using ih p' _ _ hst'
          · cases tok <;> simp [exprTok] at hk <;>
              simp only [filterGo, kinds, List.cons_append, kindB, shapedK, stOf] <;>
              simpa [stOf] using ih p' _ _ hst'
        · -- Tag state
          have hsh := stepInTag_shape_tag d p [.template]
          simp only [step] at heq
          rw [heq] at hsh
          simp only [TagShape] at hsh
          rcases hsh with ⟨w, rfl, rfl⟩ | ⟨hk, rfl⟩
          · cases w <;> simp only [filterGo, kinds, List.cons_append, kindB, shapedK, stOf] <;>
              simpa [stOf] using ih p' _ _ hst'
          · cases tok <;> simp [exprTok] at hk <;>
              simp only [filterGo, kinds, List.cons_append, kindB, shapedK, stOf] <;>
              simpa [stOf] using ih p' _ _ hst'
      · exact ih _ _ _ hst
      · simp [filterGo, kinds, endKinds, shapedK]
      · simp [filterGo, kinds, endKinds, shapedK]
      · simp [filterGo, kinds, endKinds, shapedK]

/-- **the filtered token stream of the lexer model is shaped** (any delimiters, any source) -/
theorem tokenize_shaped (d : Delims) (src : Bytes) :
    shapedK .tpl (kinds (tokenize d src).tokens ++ endKinds (tokenize d src).ending) = true :=
  lexLoop_shaped d (src.length + 1) (startPos src) [.template] false (Or.inl rfl)

/-- a parser token list that is kind-for-kind the output of the lexer model -/
def LexedAs (d : Delims) (src : Bytes) (toks : List Tok) : Prop :=
  toks.map kind = kinds (tokenize d src).tokens ++ endKinds (tokenize d src).ending

theorem LexedAs.shaped {d : Delims} {src : Bytes} {toks : List Tok} (h : LexedAs d src toks) :
    shaped .tpl toks = true := by
  rw [shaped_eq_shapedK, h]
  exact tokenize_shaped d src

end Tera.TParser
