/-
Helper lemmas for C09Vm: every arm of `Vm.step` that does not call `interpret` again commutes with
the renaming of instruction indices (`mapStateP`): run at index `k = f pc` of the renamed chunk on
the renamed state it does what it does at `pc` on the original state, renamed.
-/
import TeraModel.Lemmas.OptimizeSimVm
set_option linter.unusedSectionVars false
set_option linter.unusedSimpArgs false
namespace Tera
namespace OptimizeSimVm
open Tera.Vm

/-- a loop's `end_ip` is related to its renaming, and it is 0 ("not set yet", for_loop.rs:271)
exactly when its renaming is -/
def GoodLoop (f : Nat → Nat) (P : Nat → Nat → Prop) (l : ForLoop) : Prop :=
  P l.endIp (f l.endIp) ∧ (l.endIp = 0 ↔ f l.endIp = 0)

def GoodState (c c' : Chunk) (f : Nat → Nat) (P : Nat → Nat → Prop) (st : State) : Prop :=
  GoodStack c c' f st.stack ∧ ∀ l ∈ st.scope.forLoops, GoodLoop f P l

/-- results of one turn on the original and on the renamed chunk -/
def StepRel (c c' : Chunk) (f : Nat → Nat) (P : Nat → Nat → Prop) : StepRes → StepRes → Prop
  | .next p st, .next p' st' => P p p' ∧ st' = mapState f st ∧ GoodState c c' f P st
  | .err _, .err _ => True
  | .panic _, .panic _ => True
  | .unmodelled _, .unmodelled _ => True
  | .outOfFuel, .outOfFuel => True
  | _, _ => False

/-- the same with a relation `E` between the errors of the two sides (`StepRel` is
`StepRelG (fun _ _ => True)`) -/
def StepRelG (E : RErr → RErr → Prop) (π : PMap) (c c' : Chunk) (f : Nat → Nat) (P : Nat → Nat → Prop) :
    StepRes → StepRes → Prop
  | .next p st, .next p' st' => P p p' ∧ st' = mapStateP f π st ∧ GoodState c c' f P st
  | .err e, .err e' => E e e'
  | .panic _, .panic _ => True
  | .unmodelled _, .unmodelled _ => True
  | .outOfFuel, .outOfFuel => True
  | _, _ => False

theorem StepRelG.weaken {E : RErr → RErr → Prop} {c c' : Chunk} {f : Nat → Nat} {P : Nat → Nat → Prop}
    {a b : StepRes} (h : StepRelG E idP c c' f P a b) : StepRel c c' f P a b := by
  cases a <;> cases b <;> first | exact h.elim | exact True.intro | skip
  rename_i p st p' st'
  obtain ⟨h1, h2, h3⟩ := h
  exact ⟨h1, by rw [h2, mapStateP_id], h3⟩

section basics
variable {E : RErr → RErr → Prop} {π : PMap} {c c' : Chunk} {f : Nat → Nat} {P : Nat → Nat → Prop}

theorem rel_panic (s s' : String) : StepRelG E π c c' f P (.panic s) (.panic s') := trivial
theorem rel_err (e e' : RErr) (h : E e e') : StepRelG E π c c' f P (.err e) (.err e') := h
theorem rel_unmodelled (w w' : String) : StepRelG E π c c' f P (.unmodelled w) (.unmodelled w') := trivial

theorem rel_raise (hR : Ren c c' f) (env : Env) (vm : VmCtx) (e e' : RErr) (h : E e e') :
    StepRelG E π c c' f P (raise env vm c e) (raise env vm c' e') := by
  simp only [raise, reportTargetOk_ren hR]
  split
  · exact h
  · trivial

theorem rel_renderingError (hE : ∀ e, E e e) (hR : Ren c c' f) (env : Env) (vm : VmCtx) (v : Value) (r : SpanRange)
    (e : RErr) (h : GoodSlot c c' f (v, r)) :
    StepRelG E π c c' f P (renderingError env vm c r e) (renderingError env vm c' (mapSpan f r) e) := by
  simp only [renderingError, expandSpan_map r h]
  split
  · exact rel_raise hR env vm e e (hE e)
  · trivial

theorem goodStack_cons {s : Slot} {rest : List Slot} (h1 : GoodSlot c c' f s) (h2 : GoodStack c c' f rest) :
    GoodStack c c' f (s :: rest) := by
  intro x hx
  rcases List.mem_cons.mp hx with rfl | hx
  · exact h1
  · exact h2 x hx

theorem goodStack_tail {s : Slot} {rest : List Slot} (h : GoodStack c c' f (s :: rest)) :
    GoodStack c c' f rest := fun x hx => h x (List.mem_cons_of_mem _ hx)

theorem goodStack_head {s : Slot} {rest : List Slot} (h : GoodStack c c' f (s :: rest)) :
    GoodSlot c c' f s := h s (by simp)

theorem goodSlot_own {pc : Nat} (hpc : Good c c' f pc) (v : Value) : GoodSlot c c' f (v, (pc, pc)) :=
  ⟨hpc, hpc⟩

theorem goodSlot_val {v : Value} {r : SpanRange} (w : Value) (h : GoodSlot c c' f (v, r)) :
    GoodSlot c c' f (w, r) := h

/-- the successor `pc + 1` with a new value stack -/
theorem rel_next_stack {pc k : Nat} (hnext : P (pc + 1) (k + 1)) {st : State}
    (hst : GoodState c c' f P st) (stk : List Slot) (hstk : GoodStack c c' f stk) :
    StepRelG E π c c' f P (.next (pc + 1) { st with stack := stk })
      (.next (k + 1) { mapStateP f π st with stack := stk.map (mapSlot f) }) :=
  ⟨hnext, rfl, hstk, hst.2⟩

end basics

section pops
variable {c c' : Chunk} {f : Nat → Nat}

theorem popPairs_map : ∀ (n : Nat) (stk : List Slot) (acc : List (Key × Value)),
    popPairs n (stk.map (mapSlot f)) acc =
      match popPairs n stk acc with
      | .ok a rest => .ok a (rest.map (mapSlot f))
      | .err e => .err e
      | .panic s => .panic s
  | 0, stk, acc => rfl
  | _ + 1, [], _ => rfl
  | _ + 1, [_], _ => rfl
  | n + 1, (v, _) :: (k, _) :: rest, acc => by
    simp only [List.map_cons, mapSlot, popPairs]
    split
    · rfl
    · exact popPairs_map n rest _

theorem popPairs_good : ∀ (n : Nat) (stk : List Slot) (acc : List (Key × Value)) (a : List (Key × Value))
    (rest : List Slot), GoodStack c c' f stk → popPairs n stk acc = .ok a rest → GoodStack c c' f rest
  | 0, stk, acc, a, rest, h, he => by simp only [popPairs, PopRes.ok.injEq] at he; rw [← he.2]; exact h
  | _ + 1, [], _, _, _, _, he => by simp [popPairs] at he
  | _ + 1, [_], _, _, _, _, he => by simp [popPairs] at he
  | n + 1, (v, _) :: (k, _) :: r, acc, a, rest, h, he => by
    simp only [popPairs] at he
    split at he
    · cases he
    · exact popPairs_good n r _ a rest (goodStack_tail (goodStack_tail h)) he

theorem popN_map : ∀ (n : Nat) (stk : List Slot) (acc : List Value),
    popN n (stk.map (mapSlot f)) acc =
      match popN n stk acc with
      | .ok a rest => .ok a (rest.map (mapSlot f))
      | .err e => .err e
      | .panic s => .panic s
  | 0, stk, acc => rfl
  | _ + 1, [], _ => rfl
  | n + 1, (v, _) :: rest, acc => by
    simp only [List.map_cons, mapSlot, popN]
    exact popN_map n rest _

theorem popN_good : ∀ (n : Nat) (stk : List Slot) (acc a : List Value) (rest : List Slot),
    GoodStack c c' f stk → popN n stk acc = .ok a rest → GoodStack c c' f rest
  | 0, stk, acc, a, rest, h, he => by simp only [popN, PopRes.ok.injEq] at he; rw [← he.2]; exact h
  | _ + 1, [], _, _, _, _, he => by simp [popN] at he
  | n + 1, (v, _) :: r, acc, a, rest, h, he => by
    simp only [popN] at he
    exact popN_good n r _ a rest (goodStack_tail h) he

end pops

section arms
variable {E : RErr → RErr → Prop} {π : PMap} (hE : ∀ e, E e e)
  {c c' : Chunk} {f : Nat → Nat} {P : Nat → Nat → Prop} (hR : Ren c c' f)
  {pc k : Nat} (hpc : Good c c' f pc) (hk : f pc = k) (hnext : P (pc + 1) (k + 1))
  (env : Env) (vm : VmCtx) {st : State} (hst : GoodState c c' f P st)
include hE hR hpc hk hnext hst

theorem own_slot (v : Value) : mapSlot f (v, (pc, pc)) = (v, (k, k)) := by
  simp [mapSlot, mapSpan, hk]

theorem arm_push (v : Value) :
    StepRelG E π c c' f P (.next (pc + 1) (st.push v (pc, pc))) (.next (k + 1) ((mapStateP f π st).push v (k, k))) := by
  have := rel_next_stack (E := E) (π := π) (c := c) (c' := c') hnext hst ((v, (pc, pc)) :: st.stack)
    (goodStack_cons (goodSlot_own hpc v) hst.1)
  simpa [State.push, mapSlot, mapSpan, hk] using this

theorem arm_loadAttr (attr : String) (opt : Bool) :
    StepRelG E π c c' f P (stepLoadAttr env vm c attr opt pc st) (stepLoadAttr env vm c' attr opt k (mapStateP f π st)) := by
  unfold stepLoadAttr
  simp only [mapState_stack]
  cases hs : st.stack with
  | nil => exact rel_panic _ _
  | cons s rest =>
    obtain ⟨a, r⟩ := s
    have hgs : GoodStack c c' f ((a, r) :: rest) := hs ▸ hst.1
    simp only [List.map_cons, mapSlot]
    split
    · have := rel_next_stack (E := E) (π := π) (c := c) (c' := c') hnext hst ((Value.undef, (pc, pc)) :: rest)
        (goodStack_cons (goodSlot_own hpc _) (goodStack_tail hgs))
      simpa [mapSlot, mapSpan, hk] using this
    · split
      · exact rel_renderingError hE hR env vm a r _ (goodStack_head hgs)
      · have := rel_next_stack (E := E) (π := π) (c := c) (c' := c') hnext hst
          (((a.getAttr attr.toList).getD Value.undef, (pc, pc)) :: rest)
          (goodStack_cons (goodSlot_own hpc _) (goodStack_tail hgs))
        simpa [mapSlot, mapSpan, hk] using this


/-- close a `.next (pc+1)` goal: give the new stack and its goodness -/
local macro "nx " stk:term " , " h:term : tactic =>
  `(tactic| (have hnx := rel_next_stack (E := E) (π := π) (c := c) (c' := c') hnext hst $stk $h
             simpa [mapSlot, mapSpan, hk] using hnx))

theorem arm_subscript (opt : Bool) :
    StepRelG E π c c' f P (stepSubscript env vm c opt pc st) (stepSubscript env vm c' opt k (mapStateP f π st)) := by
  unfold stepSubscript
  simp only [mapState_stack]
  cases hs : st.stack with
  | nil => exact rel_panic _ _
  | cons s1 r1 =>
    cases r1 with
    | nil => exact rel_panic _ _
    | cons s2 rest =>
      obtain ⟨sub, subSpan⟩ := s1
      obtain ⟨val, valSpan⟩ := s2
      have hgs : GoodStack c c' f ((sub, subSpan) :: (val, valSpan) :: rest) := hs ▸ hst.1
      have h1 := goodStack_head hgs
      have h2 := goodStack_head (goodStack_tail hgs)
      have hr := goodStack_tail (goodStack_tail hgs)
      simp only [List.map_cons, mapSlot]
      split
      · nx ((Value.undef, (pc, pc)) :: rest) , (goodStack_cons (goodSlot_own hpc _) hr)
      · split
        · exact rel_renderingError hE hR env vm val valSpan _ h2
        · split
          · exact rel_renderingError hE hR env vm sub subSpan _ h1
          · split
            · rename_i v _
              have hcm := combine_map hR val sub valSpan subSpan h2 h1
              have hnx := rel_next_stack (E := E) (π := π) (c := c) (c' := c') hnext hst ((v, combineSpans valSpan subSpan) :: rest)
                (goodStack_cons (combine_good val sub v valSpan subSpan h2 h1) hr)
              simpa [mapSlot, hcm] using hnx
            · exact rel_renderingError hE hR env vm sub subSpan _ h1

theorem arm_slice (opt : Bool) :
    StepRelG E π c c' f P (stepSlice env vm c opt pc st) (stepSlice env vm c' opt k (mapStateP f π st)) := by
  unfold stepSlice
  simp only [mapState_stack]
  match hs : st.stack with
  | (step, stepSpan) :: (stop, stopSpan) :: (start, startSpan) :: (val, valSpan) :: rest =>
    have hgs : GoodStack c c' f ((step, stepSpan) :: (stop, stopSpan) :: (start, startSpan) :: (val, valSpan) :: rest) :=
      hs ▸ hst.1
    have h1 := goodStack_head hgs
    have h2 := goodStack_head (goodStack_tail hgs)
    have h3 := goodStack_head (goodStack_tail (goodStack_tail hgs))
    have h4 := goodStack_head (goodStack_tail (goodStack_tail (goodStack_tail hgs)))
    have hr := goodStack_tail (goodStack_tail (goodStack_tail (goodStack_tail hgs)))
    simp only [List.map_cons, mapSlot]
    split
    · nx ((Value.undef, (pc, pc)) :: rest) , (goodStack_cons (goodSlot_own hpc _) hr)
    · split
      · exact rel_renderingError hE hR env vm val valSpan _ h4
      · split
        · exact rel_renderingError hE hR env vm start startSpan _ h3
        · split
          · exact rel_renderingError hE hR env vm stop stopSpan _ h2
          · split
            · exact rel_renderingError hE hR env vm step stepSpan _ h1
            · split
              · rename_i v _
                nx ((v, valSpan) :: rest) , (goodStack_cons (goodSlot_val v h4) hr)
              · exact rel_renderingError hE hR env vm val valSpan _ h4
  | [] => exact rel_panic _ _
  | [_] => exact rel_panic _ _
  | [_, _] => exact rel_panic _ _
  | [_, _, _] => exact rel_panic _ _

theorem arm_writeText (t : List Char) :
    StepRelG E π c c' f P (.next (pc + 1) (st.write t)) (.next (k + 1) ((mapStateP f π st).write t)) := by
  refine ⟨hnext, mapState_write f π st t, ?_⟩
  unfold State.write
  cases st.captures <;> exact hst

theorem arm_writeTop :
    StepRelG E π c c' f P (stepWriteTop env vm c pc st) (stepWriteTop env vm c' k (mapStateP f π st)) := by
  unfold stepWriteTop
  simp only [mapState_stack]
  cases hs : st.stack with
  | nil => exact rel_panic _ _
  | cons s rest =>
    obtain ⟨top, topSpan⟩ := s
    have hgs : GoodStack c c' f ((top, topSpan) :: rest) := hs ▸ hst.1
    simp only [List.map_cons, mapSlot]
    split
    · exact rel_renderingError hE hR env vm top topSpan _ (goodStack_head hgs)
    · refine ⟨hnext, ?_, ?_⟩
      · have : ({ mapStateP f π st with stack := rest.map (mapSlot f) } : State) = mapStateP f π { st with stack := rest } := rfl
        rw [this, mapState_emit]
      · simp only [emitValue, State.write]
        cases st.captures <;> exact ⟨goodStack_tail hgs, hst.2⟩


theorem arm_set (n : String) (g : Bool) :
    StepRelG E π c c' f P (stepSet n g pc st) (stepSet n g k (mapStateP f π st)) := by
  unfold stepSet
  simp only [mapState_stack]
  cases hs : st.stack with
  | nil => exact rel_panic _ _
  | cons s rest =>
    obtain ⟨v, r⟩ := s
    have hgs : GoodStack c c' f ((v, r) :: rest) := hs ▸ hst.1
    simp only [List.map_cons, mapSlot]
    refine ⟨hnext, ?_, goodStack_tail hgs, ?_⟩
    · cases g <;> simp [mapStateP]
    · intro l hl
      cases g
      · -- storeLocal: the innermost loop gets an assignment
        simp only [Bool.false_eq_true, ↓reduceIte] at hl
        cases hsc : st.scope with
        | mk loops sv p ctx gc =>
          rw [hsc] at hl
          cases loops with
          | nil => simp [Scope.storeLocal, Scope.storeGlobal, Scope.forLoops] at hl
          | cons l0 lrest =>
            simp only [Scope.storeLocal, Scope.forLoops, List.mem_cons] at hl
            have hl0 : ∀ x ∈ l0 :: lrest, GoodLoop f P x := by
              intro x hx; exact hst.2 x (by rw [hsc]; exact hx)
            rcases hl with rfl | hl
            · exact hl0 l0 (by simp)
            · exact hl0 l (List.mem_cons_of_mem _ hl)
      · simp only [↓reduceIte] at hl
        cases hsc : st.scope with
        | mk loops sv p ctx gc =>
          rw [hsc] at hl
          simp only [Scope.storeGlobal, Scope.forLoops] at hl
          exact hst.2 l (by rw [hsc]; exact hl)

/-! ### popping loops -/

theorem arm_buildMap (n : Nat) :
    StepRelG E π c c' f P (stepBuildMap n pc st) (stepBuildMap n k (mapStateP f π st)) := by
  unfold stepBuildMap
  split
  · exact arm_push hE hR hpc hk hnext hst _
  · simp only [mapState_stack, popPairs_map]
    cases hp : popPairs n st.stack [] with
    | panic s => exact rel_panic _ _
    | err e => exact rel_err _ _ (hE _)
    | ok elems rest =>
      simp only
      nx ((Value.map (elems.foldl (fun m e => mapInsert m e.1 e.2) []), (pc, pc)) :: rest) ,
        (goodStack_cons (goodSlot_own hpc _) (popPairs_good n _ _ _ _ hst.1 hp))

theorem arm_buildList (n : Nat) :
    StepRelG E π c c' f P (stepBuildList n pc st) (stepBuildList n k (mapStateP f π st)) := by
  unfold stepBuildList
  simp only [mapState_stack, popN_map]
  cases hp : popN n st.stack [] with
  | panic s => exact rel_panic _ _
  | err e => exact rel_err _ _ (hE _)
  | ok elems rest =>
    simp only
    nx ((Value.arr elems, (pc, pc)) :: rest) ,
      (goodStack_cons (goodSlot_own hpc _) (popN_good n _ _ _ _ hst.1 hp))


theorem arm_equal (neg : Bool) :
    StepRelG E π c c' f P (stepEqual neg pc st) (stepEqual neg k (mapStateP f π st)) := by
  unfold stepEqual
  simp only [mapState_stack]
  cases hs : st.stack with
  | nil => exact rel_panic _ _
  | cons s1 r1 =>
    cases r1 with
    | nil => exact rel_panic _ _
    | cons s2 rest =>
      obtain ⟨b, bSpan⟩ := s1
      obtain ⟨a, aSpan⟩ := s2
      have hgs : GoodStack c c' f ((b, bSpan) :: (a, aSpan) :: rest) := hs ▸ hst.1
      have hb := goodStack_head hgs
      have ha := goodStack_head (goodStack_tail hgs)
      have hr := goodStack_tail (goodStack_tail hgs)
      simp only [List.map_cons, mapSlot, combine_map hR a b aSpan bSpan ha hb]
      have hnx := rel_next_stack (E := E) (π := π) (c := c) (c' := c') hnext hst
        ((Value.bool (if neg then !valueEq a b else valueEq a b), combineSpans aSpan bSpan) :: rest)
        (goodStack_cons (combine_good a b _ aSpan bSpan ha hb) hr)
      simpa [mapSlot] using hnx


theorem arm_strConcat :
    StepRelG E π c c' f P (stepStrConcat env pc st) (stepStrConcat env k (mapStateP f π st)) := by
  unfold stepStrConcat
  simp only [mapState_stack]
  cases hs : st.stack with
  | nil => exact rel_panic _ _
  | cons s1 r1 =>
    cases r1 with
    | nil => exact rel_panic _ _
    | cons s2 rest =>
      obtain ⟨b, bSpan⟩ := s1
      obtain ⟨a, aSpan⟩ := s2
      have hgs : GoodStack c c' f ((b, bSpan) :: (a, aSpan) :: rest) := hs ▸ hst.1
      have hb := goodStack_head hgs
      have ha := goodStack_head (goodStack_tail hgs)
      have hr := goodStack_tail (goodStack_tail hgs)
      have hab := combine_good (c := c) (c' := c') (f := f) a b
      simp only [List.map_cons, mapSlot, combine_map hR a b aSpan bSpan ha hb]
      refine ⟨hnext, ?_, goodStack_cons (hab Value.undef aSpan bSpan ha hb) hr, hst.2⟩
      simp [mapStateP, mapSlot]

theorem arm_cmp (op : CmpOp) :
    StepRelG E π c c' f P (stepCmp env vm c op pc st) (stepCmp env vm c' op k (mapStateP f π st)) := by
  unfold stepCmp
  simp only [mapState_stack]
  cases hs : st.stack with
  | nil => exact rel_panic _ _
  | cons s1 r1 =>
    cases r1 with
    | nil => exact rel_panic _ _
    | cons s2 rest =>
      obtain ⟨b, bSpan⟩ := s1
      obtain ⟨a, aSpan⟩ := s2
      have hgs : GoodStack c c' f ((b, bSpan) :: (a, aSpan) :: rest) := hs ▸ hst.1
      have hb := goodStack_head hgs
      have ha := goodStack_head (goodStack_tail hgs)
      have hr := goodStack_tail (goodStack_tail hgs)
      have hab := combine_good (c := c) (c' := c') (f := f) a b
      simp only [List.map_cons, mapSlot, combine_map hR a b aSpan bSpan ha hb]
      split
      · rename_i o _
        have hnx := rel_next_stack (E := E) (π := π) (c := c) (c' := c') hnext hst
          ((Value.bool (cmpTest op o), combineSpans aSpan bSpan) :: rest)
          (goodStack_cons (hab (Value.undef) aSpan bSpan ha hb) hr)
        simpa [mapSlot] using hnx
      · exact rel_renderingError hE hR env vm a _ _ (hab a aSpan bSpan ha hb)

theorem arm_plus :
    StepRelG E π c c' f P (stepPlus env vm c pc st) (stepPlus env vm c' k (mapStateP f π st)) := by
  unfold stepPlus
  simp only [mapState_stack]
  cases hs : st.stack with
  | nil => exact rel_panic _ _
  | cons s1 r1 =>
    cases r1 with
    | nil => exact rel_panic _ _
    | cons s2 rest =>
      obtain ⟨b, bSpan⟩ := s1
      obtain ⟨a, aSpan⟩ := s2
      have hgs : GoodStack c c' f ((b, bSpan) :: (a, aSpan) :: rest) := hs ▸ hst.1
      have hb := goodStack_head hgs
      have ha := goodStack_head (goodStack_tail hgs)
      have hr := goodStack_tail (goodStack_tail hgs)
      have hab := combine_good (c := c) (c' := c') (f := f) a b
      simp only [List.map_cons, mapSlot, combine_map hR a b aSpan bSpan ha hb]
      split
      · split
        · rename_i v _
          have hnx := rel_next_stack (E := E) (π := π) (c := c) (c' := c') hnext hst
            ((v, combineSpans aSpan bSpan) :: rest)
            (goodStack_cons (hab v aSpan bSpan ha hb) hr)
          simpa [mapSlot] using hnx
        · exact rel_renderingError hE hR env vm a _ _ (hab a aSpan bSpan ha hb)
      · exact rel_renderingError hE hR env vm a _ _ (hab a aSpan bSpan ha hb)

theorem arm_math (op : MathOp) :
    StepRelG E π c c' f P (stepMath env vm c op pc st) (stepMath env vm c' op k (mapStateP f π st)) := by
  unfold stepMath
  simp only [mapState_stack]
  cases hs : st.stack with
  | nil => exact rel_panic _ _
  | cons s1 r1 =>
    cases r1 with
    | nil => exact rel_panic _ _
    | cons s2 rest =>
      obtain ⟨b, bSpan⟩ := s1
      obtain ⟨a, aSpan⟩ := s2
      have hgs : GoodStack c c' f ((b, bSpan) :: (a, aSpan) :: rest) := hs ▸ hst.1
      have hb := goodStack_head hgs
      have ha := goodStack_head (goodStack_tail hgs)
      have hr := goodStack_tail (goodStack_tail hgs)
      have hab := combine_good (c := c) (c' := c') (f := f) a b
      simp only [List.map_cons, mapSlot, combine_map hR a b aSpan bSpan ha hb]
      split
      · exact rel_renderingError hE hR env vm a _ _ ha
      · split
        · exact rel_renderingError hE hR env vm b _ _ hb
        · split
          · rename_i v _
            have hnx := rel_next_stack (E := E) (π := π) (c := c) (c' := c') hnext hst
              ((v, combineSpans aSpan bSpan) :: rest)
              (goodStack_cons (hab v aSpan bSpan ha hb) hr)
            simpa [mapSlot] using hnx
          · exact rel_renderingError hE hR env vm b _ _ hb
          · exact rel_renderingError hE hR env vm a _ _ (hab a aSpan bSpan ha hb)

theorem arm_in :
    StepRelG E π c c' f P (stepIn env vm c pc st) (stepIn env vm c' k (mapStateP f π st)) := by
  unfold stepIn
  simp only [mapState_stack]
  cases hs : st.stack with
  | nil => exact rel_panic _ _
  | cons s1 r1 =>
    cases r1 with
    | nil => exact rel_panic _ _
    | cons s2 rest =>
      obtain ⟨b, bSpan⟩ := s1
      obtain ⟨a, aSpan⟩ := s2
      have hgs : GoodStack c c' f ((b, bSpan) :: (a, aSpan) :: rest) := hs ▸ hst.1
      have hb := goodStack_head hgs
      have ha := goodStack_head (goodStack_tail hgs)
      have hr := goodStack_tail (goodStack_tail hgs)
      have hab := combine_good (c := c) (c' := c') (f := f) a b
      simp only [List.map_cons, mapSlot, combine_map hR a b aSpan bSpan ha hb]
      split
      · rename_i r _
        nx ((Value.bool r, (pc, pc)) :: rest) , (goodStack_cons (goodSlot_own hpc _) hr)
      · exact rel_renderingError hE hR env vm b _ _ hb

theorem arm_not :
    StepRelG E π c c' f P (stepNot pc st) (stepNot k (mapStateP f π st)) := by
  unfold stepNot
  simp only [mapState_stack]
  cases hs : st.stack with
  | nil => exact rel_panic _ _
  | cons s1 rest =>
    obtain ⟨a, aSpan⟩ := s1
    have hgs : GoodStack c c' f ((a, aSpan) :: rest) := hs ▸ hst.1
    have ha := goodStack_head hgs
    have hr := goodStack_tail hgs
    simp only [List.map_cons, mapSlot]
    have hnx := rel_next_stack (E := E) (π := π) (c := c) (c' := c') hnext hst
      ((Value.bool (!a.isTruthy), aSpan) :: rest) (goodStack_cons (goodSlot_val _ ha) hr)
    simpa [mapSlot] using hnx

theorem arm_negative :
    StepRelG E π c c' f P (stepNegative env vm c pc st) (stepNegative env vm c' k (mapStateP f π st)) := by
  unfold stepNegative
  simp only [mapState_stack]
  cases hs : st.stack with
  | nil => exact rel_panic _ _
  | cons s1 rest =>
    obtain ⟨a, aSpan⟩ := s1
    have hgs : GoodStack c c' f ((a, aSpan) :: rest) := hs ▸ hst.1
    have ha := goodStack_head hgs
    have hr := goodStack_tail hgs
    simp only [List.map_cons, mapSlot]
    split
    · rename_i v _
      have hnx := rel_next_stack (E := E) (π := π) (c := c) (c' := c') hnext hst
        ((v, aSpan) :: rest) (goodStack_cons (goodSlot_val _ ha) hr)
      simpa [mapSlot] using hnx
    · exact rel_renderingError hE hR env vm a _ _ ha

theorem arm_popJumpIfFalse (t : Nat) (ht : P t (f t)) :
    StepRelG E π c c' f P (stepPopJumpIfFalse t pc st) (stepPopJumpIfFalse (f t) k (mapStateP f π st)) := by
  unfold stepPopJumpIfFalse
  simp only [mapState_stack]
  cases hs : st.stack with
  | nil => exact rel_panic _ _
  | cons s1 rest =>
    obtain ⟨a, aSpan⟩ := s1
    have hgs : GoodStack c c' f ((a, aSpan) :: rest) := hs ▸ hst.1
    have ha := goodStack_head hgs
    have hr := goodStack_tail hgs
    simp only [List.map_cons, mapSlot]
    have hg : GoodState c c' f P { st with stack := rest } := ⟨hr, hst.2⟩
    split
    · exact ⟨ht, by simp [mapStateP], hg⟩
    · exact ⟨hnext, by simp [mapStateP], hg⟩

theorem arm_jumpOrPop (w : Bool) (t : Nat) (ht : P t (f t)) :
    StepRelG E π c c' f P (stepJumpOrPop w t pc st) (stepJumpOrPop w (f t) k (mapStateP f π st)) := by
  unfold stepJumpOrPop
  simp only [mapState_stack]
  cases hs : st.stack with
  | nil => exact rel_panic _ _
  | cons s1 rest =>
    obtain ⟨a, aSpan⟩ := s1
    have hgs : GoodStack c c' f ((a, aSpan) :: rest) := hs ▸ hst.1
    have ha := goodStack_head hgs
    have hr := goodStack_tail hgs
    simp only [List.map_cons, mapSlot]
    have hg : GoodState c c' f P { st with stack := rest } := ⟨hr, hst.2⟩
    generalize (if w then a.isTruthy else !a.isTruthy) = cond
    cases cond
    · simp only [Bool.false_eq_true, ↓reduceIte]
      exact ⟨hnext, by simp [mapStateP], hg⟩
    · simp only [↓reduceIte]
      exact ⟨ht, rfl, hst⟩

theorem arm_jump (t : Nat) (ht : P t (f t)) :
    StepRelG E π c c' f P (.next t st) (.next (f t) (mapStateP f π st)) := ⟨ht, rfl, hst⟩

theorem arm_capture :
    StepRelG E π c c' f P (.next (pc + 1) { st with captures := [] :: st.captures })
      (.next (k + 1) { (mapStateP f π st) with captures := [] :: (mapStateP f π st).captures }) :=
  ⟨hnext, rfl, hst⟩

theorem arm_endCapture :
    StepRelG E π c c' f P (stepEndCapture pc st) (stepEndCapture k (mapStateP f π st)) := by
  unfold stepEndCapture
  simp only [mapState_captures]
  cases st.captures with
  | nil => exact rel_panic _ _
  | cons buf restCaps =>
    refine ⟨hnext, ?_, goodStack_cons (goodSlot_own hpc _) hst.1, hst.2⟩
    simp [mapStateP, mapSlot, mapSpan, hk]

theorem arm_appendToList :
    StepRelG E π c c' f P (stepAppendToList pc st) (stepAppendToList k (mapStateP f π st)) := by
  unfold stepAppendToList
  simp only [mapState_stack]
  cases hs : st.stack with
  | nil => exact rel_panic _ _
  | cons s1 r1 =>
    cases r1 with
    | nil => exact rel_panic _ _
    | cons s2 rest =>
      obtain ⟨b, bSpan⟩ := s1
      obtain ⟨a, aSpan⟩ := s2
      have hgs : GoodStack c c' f ((b, bSpan) :: (a, aSpan) :: rest) := hs ▸ hst.1
      have hb := goodStack_head hgs
      have ha := goodStack_head (goodStack_tail hgs)
      have hr := goodStack_tail (goodStack_tail hgs)
      have hab := combine_good (c := c) (c' := c') (f := f) a b
      simp only [List.map_cons, mapSlot, combine_map hR a b aSpan bSpan ha hb]
      split
      · rename_i xs
        have hnx := rel_next_stack (E := E) (π := π) (c := c) (c' := c') hnext hst
          ((Value.arr (xs ++ [b]), aSpan) :: rest) (goodStack_cons (goodSlot_val _ ha) hr)
        simpa [mapSlot] using hnx
      · exact rel_panic _ _

end arms

end OptimizeSimVm
end Tera
