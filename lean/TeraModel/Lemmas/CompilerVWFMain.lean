/-
Value-level T1, main induction (the induction of Lemmas/CompilerWFMain.lean on the checker of
Model/VmCheck.lean): every construct's code, anywhere in a chunk `C`, passes `Vm.astep`'s local check
of every instruction against any table `T` that contains the construct's table segment and its exit
state right after it.
-/
import TeraModel.Lemmas.CompilerVWF
import Mathlib.Tactic.CasesM
namespace Tera.Compiler.V
open Tera Tera.Compiler Tera.Vm

theorem loopCtx_isSome {T : List ASt} {loop : Option Nat} {a : ASt} (h : LoopCtx T loop a) :
    loop.isSome = true := by
  obtain ⟨idx, _, _, _, _, h, _⟩ := h
  simp [h]

/-- side condition "inside a loop body there is a current loop" -/
macro "loopc" : tactic => `(tactic| first
  | (intro h; exact loopCtx_isSome (by apply_assumption; exact h))
  | (intro _; rfl)
  | (intro h; cases h; done))

theorem loopCtx_intro {T : List ASt} {idx t : Nat} {a : ASt}
    (h1 : T[idx]? = some (loopUp a none)) (h2 : T[t]? = some (loopUp a none)) :
    LoopCtx T (some idx) (loopUp a (some t)) :=
  ⟨idx, t, a.loops, _, _, rfl, h1, le_loopUp a _, rfl, h2, le_loopUp a _⟩

theorem rule_break {C : Code} {T : List ASt} {pc : Nat} {a : ASt} {loop : Option Nat}
    (hC : C[pc]? = some (ns .break_)) (hT : T[pc]? = some a) (hl : LoopCtx T loop a) :
    LocalOK C T pc := by
  obtain ⟨idx, t, rest, b1, b2, _, _, _, hlo, h2, hle⟩ := hl
  exact rule1 hC hT (st_break pc t a rest hlo) (cov_le h2 hle)

theorem rule_continue {C : Code} {T : List ASt} {pc idx : Nat} {a : ASt}
    (hC : C[pc]? = some (ns (.jump idx))) (hT : T[pc]? = some a) (hl : LoopCtx T (some idx) a) :
    LocalOK C T pc := by
  obtain ⟨idx', t, rest, b1, b2, he, h1, hle, _, _, _⟩ := hl
  cases he
  exact rule1 hC hT (st_jump idx pc a) (cov_le h1 hle)

theorem head_keyTab {T : List ASt} {idx : Nat} {h : ASt} {k : Option String}
    (hs : Seg T idx (keyTab h k)) (he : T[idx + (keyStore k).length]? = some h) : T[idx]? = some h := by
  cases k with
  | none => simpa [keyStore] using he
  | some x => exact ((seg_cons T idx h []).mp hs).1

theorem okr_keyStore {C : Code} {T : List ASt} {idx : Nat} {a : ASt} {e : Option Nat} {k : Option String}
    (hC : Seg C idx (keyStore k)) (hT : Seg T idx (keyTab (loopUp a e) k))
    (he : T[idx + (keyStore k).length]? = some (loopUp a e)) : OKr C T idx (keyStore k).length := by
  cases k with
  | none => simp [keyStore, okr_zero]
  | some x =>
    simp only [keyStore, List.length_cons, List.length_nil, Nat.zero_add] at he ⊢
    rw [okr_one]
    exact rule1 ((seg_cons C idx _ []).mp hC).1 ((seg_cons T idx _ []).mp hT).1
      (st_storeLocal x idx a e) (cov_eq he)

theorem head_cond_same {T : List ASt} {b : Nat} {loop : Option Nat} {a : ASt} {o : Option Expr}
    (hs : Seg T b (condTab b loop a o)) (he : T[b + (condCode b loop o).length]? = some a)
    (h : optExprScoped o = true) : T[b]? = some a := by
  have := head_cond hs he h
  simpa using this

theorem head_cond_some {T : List ASt} {b : Nat} {loop : Option Nat} {a : ASt} {o : Option Expr}
    (hs : Seg T b (condTab b loop a o)) (hx : ∃ c, o = some c)
    (h : optExprScoped o = true) : T[b]? = some a := by
  obtain ⟨c, rfl⟩ := hx
  simp only [condTab] at hs
  simp only [optExprScoped] at h
  exact head_expr hs h

theorem tfact_congr {T : List ASt} {i : Nat} {a : ASt} {m n : Nat}
    (h : T[i]? = some (pushN a m)) (e : m = n) : T[i]? = some (pushN a n) := e ▸ h

/-- a fact `T[i]? = some s` that is in the context (up to the normal form of `pushN`) -/
macro "tfact1" : tactic => `(tactic| first
    | assumption
    | (simp only [pushN_pushN, pushN_zero, pushT_pushT, pushT_nil, optTag, pushT_R, List.cons_append, List.nil_append, Nat.reduceAdd, Nat.reduceMul, Nat.mul_zero, List.length_nil]; assumption)
    | (simp only [pushN_pushN, pushN_zero, pushT_pushT, pushT_nil, optTag, pushT_R, List.cons_append, List.nil_append, Nat.reduceAdd, Nat.reduceMul, Nat.mul_zero, List.length_nil]
       refine tfact_congr (m := ?m) (by assumption) ?e
       simp only [List.length_cons, mapSlots]; omega)
    | (refine tfact_congr (m := ?m) (n := 0) (by assumption) ?e
       simp only [List.length_nil, mapSlots]))

/-- a fact `T[i]? = some s`: in the context, or the entry state of the sub-fragment at `i` -/
macro "tfact0" : tactic => `(tactic| first
    | tfact1
    | exact head_expr (by assumption) (by assumption)
    | exact head_opt (by assumption) (by assumption)
    | exact head_kwargs (by assumption) (by tfact1)
    | exact head_filters (by assumption) (by tfact1)
    | exact head_array (by assumption) (by tfact1) (by assumption)
    | exact head_map (by assumption) (by tfact1) (by assumption)
    | exact head_nodes (by assumption) (by tfact1) (by assumption) (by loopc)
    | exact head_node (by assumption) (by assumption) (by loopc)
    | exact head_keyTab (by assumption) (by tfact1)
    | exact head_cond_some (by assumption) (by assumption) (by assumption)
    | exact head_cond_same (by assumption)
        (by first | tfact1 | exact head_expr (by assumption) (by assumption)) (by assumption))

macro "tfact" : tactic => `(tactic| first
    | tfact0
    | (simp only [pushN_pushN, pushN_zero, pushT_pushT, pushT_nil, optTag, pushT_R, List.cons_append, List.nil_append, Nat.reduceAdd, Nat.reduceMul, Nat.mul_zero, List.length_nil]; tfact0))

macro "covt" : tactic => `(tactic| first
  | exact cov_eq (by tfact)
  | exact cov_le (by tfact) (le_pushList _)
  | exact cov_le (by tfact) (le_loopUp _ _)
  | exact cov_le (by tfact) (le_const _ _)
  | exact cov_le (by tfact) (le_mapLit _))

macro "stept" : tactic => `(tactic| first
  | exact st_const _ _ _ | exact st_name _ _ _ | exact st_attr _ _ _ _ | exact st_attrOpt _ _ _
  | exact st_attrNo _ _ _ | exact st_subscript _ _ _ | exact st_subOpt _ _ | exact st_subNo _ _
  | exact st_slice _ _ _ _ _ _ | exact st_sliceOpt _ _ _ _ _ | exact st_sliceNo _ _ _ _ _
  | exact st_writeText _ _ _ | exact st_renderBlock _ _ _ | exact st_include _ _ _
  | exact st_writeTop _ _ | exact st_set _ _ _ _ _ | exact st_set1 _ _ _ _
  | exact st_buildMap _ _ _ | exact st_mapBuild_sp _ _ _ | exact st_mapBuild_ns _ _ _
  | exact st_arrayBuild _ _ _ | exact st_callFunction _ _ _ | exact st_render _ _ _ _
  | exact st_renderInline _ _ _ | exact st_renderBody _ _ _
  | exact st_applyFilter _ _ _ | exact st_runTest _ _ _ | exact st_jump _ _ _
  | exact st_popJump _ _ _ _ | exact st_popJump1 _ _ _ | exact st_jumpOrPop _ _ _ _
  | exact st_capture _ _ | exact st_endCapture _ _ | exact st_endCaptureSet _ _ _
  | exact st_startIterate _ _ _ | exact st_startIterateC _ _ _ | exact st_storeLocal _ _ _ _
  | exact st_iterate _ _ _ _ | exact st_storeDidNotIterate _ _ _ | exact st_popLoop _ _ _
  | exact st_popLoopZ _ _ _ | exact st_appendToList _ _ _ | exact st_binop _ _ _
  | exact st_unary _ _ _ | exact st_buildList0 _ _ | exact st_jifop _ _ _ | exact st_jitop _ _ _
  | exact st_endCaptureSetR _ (by assumption) _ _
  | exact (by assumption : ∀ (pc : Nat) (s : ASt), astepC (ns _) pc s = some [(pc + 1, pushT s [tagB])]) _ _)

macro "wf_step" : tactic => `(tactic| first
  | (apply_assumption
     all_goals (try (first | tfact | (intro _; exact loopCtx_intro (by tfact) (by tfact)) | loopc))
     all_goals (first | rfl | tfact | exact st_dflt_none | exact st_dflt_one)
     done)
  | exact okr_keyStore (by assumption) (by assumption) (by tfact)
  | exact rule_break (by assumption) (by assumption) (by apply_assumption; assumption)
  | exact rule_continue (by assumption) (by assumption) (by apply_assumption; assumption)
  | (refine rule1 (x := ?x) (by assumption) (by assumption) ?hs ?hc
     case hs => stept
     case hc => covt)
  | (refine rule2 (x := ?x) (y := ?y) (by assumption) (by assumption) ?hs ?hc1 ?hc2
     case hs => stept
     case hc1 => covt
     case hc2 => covt))

/-- the set block, separately (the filter chain may be empty: then `EndCapture` has no span) -/
theorem st_endCaptureZ (pc : Nat) (a : ASt) :
    astepC (.endCapture, false) pc (capUp a) = some [(pc + 1, pushT a [tagZ])] := by
  simp [astepC, vi, astep, capUp, pushT, tagZ, Tag.fresh]

theorem capTag_cases2 {fs : List Expr} (_ : filtersScoped fs = true) :
    fs = [] ∨ (capTag fs = tagR ∧ fs.isEmpty = false) := by
  cases fs <;> simp [capTag]

theorem st_endCaptureSetNE (filters : List Expr) (h : filters.isEmpty = false) (pc : Nat) (a : ASt) :
    astepC (.endCapture, !filters.isEmpty) pc (capUp a) = some [(pc + 1, pushN a 1)] := by
  cases filters with
  | nil => simp at h
  | cons x xs => exact st_endCaptureSetR _ (by simp [capTag]) pc a

theorem blockSet_ok (name : String) (filters : List Expr) (body : List Node) (global : Bool)
    (ih1 : WfM2 body) (ih2 : WfM5 filters) : WfM3 (.blockSet name filters body global) := by
  simp only [WfM2, WfM3, WfM5] at *
  intro base loop a C T il hC hT hend hsc hl
  simp only [nodeCode, nodeTab, nodeScoped, Bool.and_eq_true] at *
  simp (config := { zetaDelta := true }) only [seg_append, seg_cons, seg_nil, List.length_append,
    List.length_cons, List.length_nil, okr_add, okr_one, okr_zero, tabLen2, tabLen5,
    ← Nat.add_assoc, and_true, true_and, Nat.zero_add, Nat.add_zero] at *
  casesm* _ ∧ _
  rcases capTag_cases2 ‹filtersScoped _ = true› with h | ⟨h, hne⟩
  · subst h
    simp only [filtersCode, filtersTab, capTag, List.isEmpty_nil, ↓reduceIte, List.length_nil,
      Nat.add_zero, okr_zero, seg_nil, Bool.not_true] at *
    repeat' apply And.intro
    all_goals (try wf_step)
    all_goals (try trivial)
    all_goals (try (exact rule1 (by assumption) (by assumption) (st_endCaptureZ _ _) (cov_eq (by assumption))))
  · simp only [h, pushT_R] at *
    repeat' apply And.intro
    all_goals (try wf_step)
    all_goals (try (exact rule1 (by assumption) (by assumption) (st_endCaptureSetNE _ hne _ _) (by covt)))

set_option maxHeartbeats 4000000 in
theorem wf_aux :
    (∀ (_ : Nat) (_ : Option Nat) e, WfM1 e) ∧
    (∀ (_ : Nat) (_ : Option Nat) ns, WfM2 ns) ∧
    (∀ (_ : Nat) (_ : Option Nat) n, WfM3 n) ∧
    (∀ (_ : Nat) (_ : Option Nat) k, WfM4 k) ∧
    (∀ (_ : Nat) (_ : Option Nat) f, WfM5 f) ∧
    (∀ (_ : Nat) (_ : Option Nat) o, WfM6 o) ∧
    (∀ (_ : Nat) (_ : Option Nat) (_ : CInstr) o, WfM7 o) ∧
    (∀ (_ : Nat) (_ : Option Nat) it, WfM8 it) ∧
    (∀ (_ : Nat) (_ : Option Nat) m, WfM9 m) := by
  apply exprCode.mutual_induct
    (motive_1 := fun _ _ e => WfM1 e)
    (motive_2 := fun _ _ ns => WfM2 ns)
    (motive_3 := fun _ _ n => WfM3 n)
    (motive_4 := fun _ _ k => WfM4 k)
    (motive_5 := fun _ _ f => WfM5 f)
    (motive_6 := fun _ _ o => WfM6 o)
    (motive_7 := fun _ _ _ o => WfM7 o)
    (motive_8 := fun _ _ it => WfM8 it)
    (motive_9 := fun _ _ m => WfM9 m)
  case case23 =>
    intro _ _ name filters body global _ ih1 ih2
    exact blockSet_ok name filters body global ih1 ih2
  all_goals intros
  all_goals simp only [WfM1, WfM2, WfM3, WfM4, WfM5, WfM6, WfM7, WfM8, WfM9] at *
  all_goals intros
  all_goals simp only [exprCode, nodesCode, nodeCode, kwargsCode, filtersCode, condCode, optExprCode,
    arrayItemsCode, mapItemsCode, exprTab, nodesTab, nodeTab, kwargsTab, filtersTab, condTab, optExprTab,
    arrayItemsTab, mapItemsTab] at *
  all_goals (try (simp only [exprScoped, nodesScoped, nodeScoped, kwargsScoped,
    filtersScoped, optExprScoped, arrayItemsScoped, mapItemsScoped] at *))
  all_goals (try simp only [Bool.and_eq_true, Bool.or_eq_true] at *)
  all_goals (try simp only [optTag, pushT_R] at *)
  all_goals (try (split <;> rename_i hsplit <;> first
    | exact absurd ‹_› hsplit
    | exact absurd hsplit ‹_›
    | ((try have hk := Option.isSome_iff_exists.mp hsplit)
       try simp only [hsplit, ↓reduceIte, if_false, Bool.false_eq_true,
        Bool.not_eq_true, Bool.not_eq_false, false_or, true_or, or_false, or_true] at *)))
  all_goals (try simp (config := { zetaDelta := true }) only [seg_append, seg_cons, seg_nil, List.length_append,
    List.length_cons, List.length_nil, okr_add, okr_one, okr_zero, tabLen1, tabLen2, tabLen3, tabLen4,
    tabLen5, tabLen6, tabLen7, tabLen8, tabLen9, optLen1, keyTab_length, ← Nat.add_assoc, and_true, true_and, Nat.zero_add, Nat.add_zero] at *)
  all_goals (try casesm* _ ∧ _)
  all_goals (repeat' apply And.intro)
  all_goals (try wf_step)
end Tera.Compiler.V
