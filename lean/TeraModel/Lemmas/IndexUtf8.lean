/-
Helper lemmas for C14 at the byte level: a `str` is the UTF-8 encoding of a list of chars
(`Wire.utf8Encode`), `char_indices().nth(n)` lands on the start of the n-th char, that offset is
a char boundary, and cutting there gives the encoding of the first n chars.
-/
import TeraModel.Model.Index
import TeraModel.Model.Wire
import Mathlib.Tactic.SplitIfs
namespace Tera.Index
open Tera Tera.Wire

/-- a continuation byte `10xxxxxx` -/
def isCont (b : Nat) : Prop := 0x80 ≤ b ∧ b < 0xC0

theorem char_toNat_lt (c : Char) : c.toNat < 0x110000 := by
  have h := c.valid
  simp only [UInt32.isValidChar, Nat.isValidChar] at h
  show c.val.toNat < 0x110000
  omega

/-- Shape of one encoded char: a lead byte that announces the sequence length and is not a
continuation byte, followed by continuation bytes only. -/
theorem enc_shape (c : Char) :
    ∃ b tail, utf8EncodeChar c = b :: tail ∧ utf8Width b = tail.length + 1 ∧ ¬ isCont b ∧
      ∀ t ∈ tail, isCont t := by
  have hlt := char_toNat_lt c
  unfold utf8EncodeChar
  simp only
  split_ifs with h1 h2 h3
  · refine ⟨_, _, rfl, ?_, ?_, ?_⟩
    · simp only [utf8Width, h1, if_true, List.length_nil]
    · unfold isCont; omega
    · intro t ht; cases ht
  · refine ⟨_, _, rfl, ?_, ?_, ?_⟩
    · unfold utf8Width
      have a1 : ¬ (0xC0 + c.toNat / 64 < 0x80) := by omega
      have a2 : 0xC0 + c.toNat / 64 < 0xE0 := by omega
      simp only [a1, a2, if_false, if_true, List.length_cons, List.length_nil]
    · unfold isCont; omega
    · intro t ht
      simp only [List.mem_cons, List.not_mem_nil, or_false] at ht
      subst ht; unfold isCont; omega
  · refine ⟨_, _, rfl, ?_, ?_, ?_⟩
    · unfold utf8Width
      have a1 : ¬ (0xE0 + c.toNat / 4096 < 0x80) := by omega
      have a2 : ¬ (0xE0 + c.toNat / 4096 < 0xE0) := by omega
      have a3 : 0xE0 + c.toNat / 4096 < 0xF0 := by omega
      simp only [a1, a2, a3, if_false, if_true, List.length_cons, List.length_nil]
    · unfold isCont; omega
    · intro t ht
      simp only [List.mem_cons, List.not_mem_nil, or_false] at ht
      rcases ht with rfl | rfl <;> (unfold isCont; omega)
  · refine ⟨_, _, rfl, ?_, ?_, ?_⟩
    · unfold utf8Width
      have a1 : ¬ (0xF0 + c.toNat / 262144 < 0x80) := by omega
      have a2 : ¬ (0xF0 + c.toNat / 262144 < 0xE0) := by omega
      have a3 : ¬ (0xF0 + c.toNat / 262144 < 0xF0) := by omega
      simp only [a1, a2, a3, if_false, List.length_cons, List.length_nil]
    · unfold isCont; omega
    · intro t ht
      simp only [List.mem_cons, List.not_mem_nil, or_false] at ht
      rcases ht with rfl | rfl | rfl <;> (unfold isCont; omega)

theorem utf8Encode_nil : utf8Encode [] = [] := rfl

theorem utf8Encode_cons (c : Char) (cs : List Char) :
    utf8Encode (c :: cs) = utf8EncodeChar c ++ utf8Encode cs := by
  simp [utf8Encode]

theorem utf8Encode_append (a b : List Char) :
    utf8Encode (a ++ b) = utf8Encode a ++ utf8Encode b := by
  simp [utf8Encode]

theorem utf8Encode_single (c : Char) : utf8Encode [c] = utf8EncodeChar c := by
  simp [utf8Encode]

theorem enc_length_pos (c : Char) : 0 < (utf8EncodeChar c).length := by
  obtain ⟨b, tail, h, _⟩ := enc_shape c
  rw [h]; simp

/-- `char_indices().nth(n)` on encoded text: the byte length of the first `n` chars, if there
is an n-th char. -/
theorem charIndexNth_enc (cs : List Char) :
    ∀ (n off : Nat), charIndexNth (utf8Encode cs) n off =
      if n < cs.length then some (off + (utf8Encode (cs.take n)).length) else none := by
  induction cs with
  | nil => intro n off; simp [utf8Encode_nil, charIndexNth]
  | cons c cs ih =>
    intro n off
    obtain ⟨b, tail, hsh, hw, _, _⟩ := enc_shape c
    rw [utf8Encode_cons, hsh]
    cases n with
    | zero => simp [charIndexNth, utf8Encode_nil]
    | succ n =>
      simp only [List.cons_append, charIndexNth]
      have hd : (tail ++ utf8Encode cs).drop (utf8Width b - 1) = utf8Encode cs := by
        rw [hw, Nat.add_sub_cancel]
        exact List.drop_left
      rw [hd, ih]
      simp only [List.length_cons, Nat.add_lt_add_iff_right, List.take_succ_cons, utf8Encode_cons,
        hsh, List.length_append]
      split_ifs
      · congr 1; rw [hw]; omega
      · rfl

/-- The offset where the encoding of a prefix ends is a char boundary of the whole text. -/
theorem boundary_at_prefix (pre post : List Char) :
    isCharBoundary (utf8Encode pre ++ utf8Encode post) (utf8Encode pre).length = true := by
  unfold isCharBoundary
  split_ifs with h0 h1
  · rfl
  · simp only [List.length_append] at h1 ⊢
    simp only [decide_eq_true_eq]
    omega
  · cases post with
    | nil =>
      exfalso; apply h1
      simp [utf8Encode_nil]
    | cons c post =>
      obtain ⟨b, tail, hsh, _, hnc, _⟩ := enc_shape c
      rw [utf8Encode_cons, hsh]
      rw [List.getElem?_append_right (Nat.le_refl _)]
      simp only [Nat.sub_self, List.cons_append, List.getElem?_cons_zero]
      unfold isCont at hnc
      simp only [Bool.or_eq_true, decide_eq_true_eq]
      omega

theorem strTo_prefix (pre post : List Char) :
    strTo (utf8Encode pre ++ utf8Encode post) (utf8Encode pre).length = .ok (utf8Encode pre) := by
  unfold strTo
  rw [boundary_at_prefix, if_pos rfl, List.take_left]

theorem strFrom_prefix (pre post : List Char) :
    strFrom (utf8Encode pre ++ utf8Encode post) (utf8Encode pre).length = .ok (utf8Encode post) := by
  unfold strFrom
  rw [boundary_at_prefix, if_pos rfl, List.drop_left]

/-- `filters::truncate` on the bytes of `s` is the char-level truncation of `s`, re-encoded; in
particular `val[..byte_idx]` never panics. -/
theorem truncateBytes_enc (cs endS : List Char) (n : Nat) :
    truncateBytes (utf8Encode cs) n (utf8Encode endS) = .ok (utf8Encode (truncateChars cs n endS)) := by
  unfold truncateBytes truncateChars
  rw [charIndexNth_enc]
  split_ifs with h
  · simp only [Nat.zero_add]
    have hsplit : utf8Encode cs = utf8Encode (cs.take n) ++ utf8Encode (cs.drop n) := by
      rw [← utf8Encode_append, List.take_append_drop]
    rw [hsplit, strTo_prefix]
    simp only [Res.map, Res.bind, utf8Encode_append]
  · rfl

/-- One `next()` of the string iterator in the middle of encoded text: the item is exactly the
encoding of the next char and the position moves to the end of it. -/
theorem strIterNext_enc (pre : List Char) (c : Char) (post : List Char) :
    strIterNext (utf8Encode (pre ++ c :: post)) (utf8Encode pre).length =
      .ok (some (utf8EncodeChar c, (utf8Encode (pre ++ [c])).length)) := by
  unfold strIterNext
  have hpos := enc_length_pos c
  have hlen : ¬ (utf8Encode pre).length ≥ (utf8Encode (pre ++ c :: post)).length := by
    rw [utf8Encode_append, utf8Encode_cons]
    simp only [List.length_append]
    omega
  rw [if_neg hlen]
  rw [utf8Encode_append pre (c :: post), strFrom_prefix]
  simp only [Res.bind]
  rw [charIndexNth_enc]
  cases post with
  | nil =>
    simp only [List.length_cons, List.length_nil, Nat.lt_irrefl, if_false]
    simp only [utf8Encode_append, List.length_append, utf8Encode_cons,
      utf8Encode_nil, List.append_nil]
  | cons d post =>
    have h1 : 1 < (c :: d :: post).length := by simp
    rw [if_pos h1]
    simp only [Nat.zero_add, List.take_succ_cons, List.take_zero]
    have hs : utf8Encode (c :: d :: post) = utf8Encode [c] ++ utf8Encode (d :: post) := by
      rw [← utf8Encode_append]; rfl
    rw [hs, strTo_prefix]
    simp only [Res.map, Res.bind, utf8Encode_single, utf8Encode_append, List.length_append]

theorem strIterNext_end (cs : List Char) :
    strIterNext (utf8Encode cs) (utf8Encode cs).length = .ok none := by
  unfold strIterNext
  rw [if_pos (Nat.le_refl _)]

/-- The whole `for` loop over a string: one item per char, each the encoding of that char, in
order; never a panic; `chars + 1` calls of `next()` suffice. -/
theorem strIterAll_enc (post : List Char) :
    ∀ (pre : List Char) (acc : List (List Nat)) (fuel : Nat), post.length < fuel →
      strIterAll (utf8Encode (pre ++ post)) fuel (utf8Encode pre).length acc =
        .ok (acc ++ post.map utf8EncodeChar) := by
  induction post with
  | nil =>
    intro pre acc fuel hf
    cases fuel with
    | zero => omega
    | succ f =>
      simp only [strIterAll, List.append_nil, strIterNext_end, Res.bind, List.map_nil]
  | cons c post ih =>
    intro pre acc fuel hf
    cases fuel with
    | zero => omega
    | succ f =>
      simp only [strIterAll, strIterNext_enc, Res.bind]
      have hassoc : pre ++ c :: post = (pre ++ [c]) ++ post := by simp
      rw [hassoc, ih (pre ++ [c]) (acc ++ [utf8EncodeChar c]) f (by simp at hf; omega)]
      simp

/-! ### the `for` loop with its loop data -/

/-- The loop data the body must see at pass `k` (0-based) of a loop over `n` items. -/
def rowData (k n : Nat) : LoopData := ⟨k, k == 0, k + 1 == n, n⟩

theorem loopInit_eq (n : Nat) : loopInit n = rowData 0 n := by
  unfold loopInit rowData
  simp only [LoopData.mk.injEq, true_and]
  refine ⟨by simp, ?_⟩
  cases h : (n == 1) <;> cases h2 : (0 + 1 == n) <;> simp_all

theorem advance_rowData (k n : Nat) : (rowData k n).advance = rowData (k + 1) n := by
  simp [LoopData.advance, rowData]

/-- Expected passes of a string loop from pass `k` on: one per char, item = its encoding. -/
def rowsFrom (k n : Nat) : List Char → List (List Nat × LoopData)
  | [] => []
  | c :: cs => (utf8EncodeChar c, rowData k n) :: rowsFrom (k + 1) n cs

theorem rowsFrom_length (k n : Nat) (cs : List Char) : (rowsFrom k n cs).length = cs.length := by
  induction cs generalizing k with
  | nil => rfl
  | cons c cs ih => simp [rowsFrom, ih]

theorem rowsFrom_get (n : Nat) (cs : List Char) :
    ∀ (k i : Nat) (h : i < cs.length),
      (rowsFrom k n cs)[i]? = some (utf8EncodeChar cs[i], rowData (k + i) n) := by
  induction cs with
  | nil => intro k i h; cases h
  | cons c cs ih =>
    intro k i h
    cases i with
    | zero => simp [rowsFrom]
    | succ i =>
      simp only [rowsFrom, List.getElem?_cons_succ, List.getElem_cons_succ]
      rw [ih (k + 1) i (by simpa using h)]
      congr 3
      omega

/-- Passes of a loop over an exactly-sized iterator, from pass `k` on. -/
theorem forLoopRows_started (n : Nat) :
    ∀ (rem fuel k : Nat) (acc : List LoopData), rem < fuel →
      forLoopRows fuel rem (rowData k n) true acc =
        .ok (acc ++ (List.range rem).map fun j => rowData (k + 1 + j) n) := by
  intro rem
  induction rem with
  | zero =>
    intro fuel k acc hf
    cases fuel with
    | zero => omega
    | succ f => simp [forLoopRows]
  | succ rem ih =>
    intro fuel k acc hf
    cases fuel with
    | zero => omega
    | succ f =>
      simp only [forLoopRows, Nat.succ_ne_zero, if_false, if_true, Nat.add_sub_cancel,
        advance_rowData]
      rw [ih f (k + 1) _ (by omega), List.range_succ_eq_map]
      have hfun : ((fun j => rowData (k + 1 + j) n) ∘ Nat.succ) = fun j => rowData (k + 1 + 1 + j) n := by
        funext j
        simp only [Function.comp, Nat.succ_eq_add_one]
        congr 1
        omega
      simp only [List.map_cons, List.map_map, List.append_assoc, List.singleton_append, hfun]

theorem loopRows_eq (n : Nat) : loopRows n = .ok ((List.range n).map fun j => rowData j n) := by
  unfold loopRows
  cases n with
  | zero => simp [forLoopRows]
  | succ m =>
    rw [forLoopRows]
    simp only [Nat.succ_ne_zero, if_false, Nat.add_sub_cancel, loopInit_eq, Bool.false_eq_true,
      List.nil_append]
    rw [forLoopRows_started (m + 1) m (m + 1) 0 _ (by omega), List.range_succ_eq_map]
    have hfun : ((fun j => rowData j (m + 1)) ∘ Nat.succ) = fun j => rowData (0 + 1 + j) (m + 1) := by
      funext j
      simp only [Function.comp, Nat.succ_eq_add_one]
      congr 1
      omega
    simp only [List.map_cons, List.map_map, List.singleton_append, hfun]

theorem charsCount_enc (cs : List Char) : charsCount (utf8Encode cs) = cs.length := by
  induction cs with
  | nil => rfl
  | cons c cs ih =>
    obtain ⟨b, tail, hsh, _, hnc, htail⟩ := enc_shape c
    rw [utf8Encode_cons, hsh]
    unfold charsCount at ih ⊢
    rw [List.cons_append, List.filter_cons, List.filter_append, List.length_cons]
    have hb : (!(decide (0x80 ≤ b) && decide (b < 0xC0))) = true := by
      unfold isCont at hnc
      simp only [Bool.not_eq_true', Bool.and_eq_false_iff, decide_eq_false_iff_not]
      omega
    have ht : tail.filter (fun b => !(decide (0x80 ≤ b) && decide (b < 0xC0))) = [] := by
      rw [List.filter_eq_nil_iff]
      intro t hmem
      have := htail t hmem
      unfold isCont at this
      simp only [Bool.not_eq_true, Bool.not_eq_false', Bool.and_eq_true, decide_eq_true_eq]
      exact this
    rw [if_pos hb, List.length_cons, List.length_append, ht, ih]
    simp

theorem strIterNextR_enc (pre : List Char) (c : Char) (post : List Char) :
    strIterNextR (utf8Encode (pre ++ c :: post)) (utf8Encode pre).length (c :: post).length =
      .ok (some (utf8EncodeChar c, (utf8Encode (pre ++ [c])).length, post.length)) := by
  unfold strIterNextR
  have hpos := enc_length_pos c
  have hlen : ¬ (utf8Encode pre).length ≥ (utf8Encode (pre ++ c :: post)).length := by
    rw [utf8Encode_append, utf8Encode_cons]
    simp only [List.length_append]
    omega
  rw [if_neg hlen, if_neg (by simp), strIterNext_enc]
  simp [Res.map, Res.bind]

/-- The string loop as the VM runs it, from the middle of the text on. -/
theorem strForLoop_started (n : Nat) (post : List Char) :
    ∀ (pre : List Char) (fuel k : Nat) (acc : List (List Nat × LoopData)), post.length < fuel →
      strForLoop (utf8Encode (pre ++ post)) fuel (utf8Encode pre).length post.length
        (rowData k n) true acc = .ok (acc ++ rowsFrom (k + 1) n post) := by
  induction post with
  | nil =>
    intro pre fuel k acc hf
    cases fuel with
    | zero => omega
    | succ f => simp [strForLoop, rowsFrom]
  | cons c post ih =>
    intro pre fuel k acc hf
    cases fuel with
    | zero => omega
    | succ f =>
      rw [strForLoop]
      rw [if_neg (by simp), strIterNextR_enc]
      simp only [Res.bind, if_true, advance_rowData]
      have hassoc : pre ++ c :: post = (pre ++ [c]) ++ post := by simp
      rw [hassoc, ih (pre ++ [c]) f (k + 1) _ (by simp at hf; omega)]
      simp [rowsFrom]

/-- The whole string loop: one pass per char, the item is that char's encoding, and the loop
data count chars (`loop.length` = number of chars, `loop.last` on the last char only). -/
theorem strFor_enc (cs : List Char) :
    strFor (utf8Encode cs) = .ok (rowsFrom 0 cs.length cs) := by
  unfold strFor
  rw [charsCount_enc, loopInit_eq]
  cases cs with
  | nil => simp [strForLoop, rowsFrom]
  | cons c post =>
    rw [strForLoop]
    rw [if_neg (by simp)]
    have h := strIterNextR_enc [] c post
    simp only [List.nil_append, utf8Encode_nil, List.length_nil] at h
    rw [h]
    simp only [Res.bind, Bool.false_eq_true, if_false]
    have h2 := strForLoop_started (c :: post).length post [c] (c :: post).length 0
      [(utf8EncodeChar c, rowData 0 (c :: post).length)] (by simp)
    simp only [List.singleton_append] at h2
    simp only [List.nil_append]
    rw [h2]
    simp [rowsFrom]

end Tera.Index
