/-
Step lemmas about the parser model (Model/ExprParser.lean): what one prefix parse and one
iteration of the Pratt loop do on a token list whose head is known.  Generic in the recursion
argument `rec`; used by Lemmas/ParsePrint.lean.
-/
import TeraModel.Spec.Precedence
namespace Tera.Parser
open Tera Tera.Spec
set_option linter.unusedSimpArgs false

@[simp] theorem pure_def {α} (a : α) : (pure a : P α) = P.pure a := rfl
@[simp] theorem bind_def {α β} (x : P α) (f : α → P β) : (x >>= f) = P.bind x f := rfl
@[simp] theorem P.pure_apply {α} (a : α) (s : PState) : P.pure a s = .ok a s := rfl
@[simp] theorem P.err_apply {α} (s : PState) : (P.err : P α) s = .err := rfl
theorem P.bind_apply {α β} (x : P α) (f : α → P β) (s : PState) :
    P.bind x f s = match x s with
      | .ok a s' => f a s'
      | .err => .err
      | .panic m => .panic m
      | .fuel => .fuel := rfl
theorem P.bind_ok {α β} (x : P α) (f : α → P β) (s s' : PState) (a : α) (h : x s = .ok a s') :
    P.bind x f s = f a s' := by simp [P.bind_apply, h]

@[simp] theorem nextOrError_cons (t : Tok) (ts : List Tok) (a b : Nat) (h : t ≠ .error) :
    nextOrError ⟨t :: ts, a, b⟩ = .ok t ⟨ts, a, b⟩ := by
  cases t <;> simp_all [nextOrError]

@[simp] theorem peekOk_cons (t : Tok) (ts : List Tok) (a b : Nat) (h : t ≠ .error) :
    peekOk ⟨t :: ts, a, b⟩ = .ok (some t) ⟨t :: ts, a, b⟩ := by
  cases t <;> simp_all [peekOk]

@[simp] theorem peekOk_nil (a b : Nat) : peekOk ⟨[], a, b⟩ = .ok none ⟨[], a, b⟩ := rfl
@[simp] theorem peekOk_error (ts : List Tok) (a b : Nat) :
    peekOk ⟨.error :: ts, a, b⟩ = .ok none ⟨.error :: ts, a, b⟩ := rfl

@[simp] theorem headIs_apply (t : Tok) (ts : List Tok) (a b : Nat) :
    headIs t ⟨ts, a, b⟩ = .ok (ts.head? == some t) ⟨ts, a, b⟩ := rfl

@[simp] theorem loopFuel_apply (ts : List Tok) (a b : Nat) :
    loopFuel ⟨ts, a, b⟩ = .ok (ts.length + 1) ⟨ts, a, b⟩ := rfl

theorem expect_cons (t : Tok) (ts : List Tok) (a b : Nat) (h : t ≠ .error) :
    expect t ⟨t :: ts, a, b⟩ = .ok () ⟨ts, a, b⟩ := by
  simp [expect, h, P.bind_apply]

theorem expectIdent_cons (s : String) (ts : List Tok) (a b : Nat) :
    expectIdent ⟨.ident s :: ts, a, b⟩ = .ok s ⟨ts, a, b⟩ := by
  simp [expectIdent, P.bind_apply]

/-- the loop stops at this token at minimum power `m` (`break` / end of the `while let`) -/
def stopsTok (C : Cfg) (m : Nat) : Option Tok → Prop
  | none => True
  | some t =>
    match classify t with
    | .other => True
    | .notKw => (C.bp.binary .In).1 < m
    | .leftBracket => False
    | .ifKw => C.bp.ternary < m
    | .binop op => (C.bp.binary op).1 < m

theorem prattLoop_stop (C : Cfg) (rec : Nat → P Expr) (m n : Nat) (lhs : Expr) (neg : Bool)
    (ts : List Tok) (a b : Nat) (h : stopsTok C m ts.head?) :
    prattLoop C rec m (n + 1) lhs neg ⟨ts, a, b⟩ = .ok lhs ⟨ts, a, b⟩ := by
  cases ts with
  | nil => simp [prattLoop, P.bind_apply]
  | cons t ts =>
    by_cases he : t = .error
    · subst he; simp [prattLoop, P.bind_apply]
    · simp only [List.head?_cons, stopsTok] at h
      simp only [prattLoop, bind_def, P.bind_apply, peekOk_cons _ _ _ _ he]
      cases hc : classify t <;> simp_all

/-- `parse_expr_bp` = prefix, then the loop -/
theorem parseExprBp_of_prefix (C : Cfg) (rec : Nat → P Expr) (m : Nat) (st : PState) (e : Expr)
    (ts : List Tok) (a b : Nat) (h : parsePrefix C rec st = .ok e ⟨ts, a, b⟩) :
    parseExprBp C rec m st = prattLoop C rec m (ts.length + 1) e false ⟨ts, a, b⟩ := by
  simp [parseExprBp, P.bind_apply, h]

/-! ### prefix forms -/

theorem prefix_int (C : Cfg) (rec : Nat → P Expr) (n : Int) (ts : List Tok) (a b : Nat) :
    parsePrefix C rec ⟨.integer n :: ts, a, b⟩ = .ok (.const (.i64 n)) ⟨ts, a, b⟩ := by
  simp [parsePrefix, P.bind_apply]

theorem prefix_float (C : Cfg) (rec : Nat → P Expr) (x : F64) (ts : List Tok) (a b : Nat) :
    parsePrefix C rec ⟨.float x :: ts, a, b⟩ = .ok (.const (.f64 x)) ⟨ts, a, b⟩ := by
  simp [parsePrefix, P.bind_apply]

theorem prefix_str (C : Cfg) (rec : Nat → P Expr) (s : String) (ts : List Tok) (a b : Nat) :
    parsePrefix C rec ⟨.str s :: ts, a, b⟩ = .ok (.const (.str false s.toList)) ⟨ts, a, b⟩ := by
  simp [parsePrefix, P.bind_apply]

theorem prefix_bool (C : Cfg) (rec : Nat → P Expr) (v : Bool) (ts : List Tok) (a b : Nat) :
    parsePrefix C rec ⟨.bool v :: ts, a, b⟩ = .ok (.const (.bool v)) ⟨ts, a, b⟩ := by
  simp [parsePrefix, P.bind_apply]

theorem prefix_none (C : Cfg) (rec : Nat → P Expr) (kw : String) (ts : List Tok) (a b : Nat)
    (h : kw = "none" ∨ kw = "None" ∨ kw = "null") :
    parsePrefix C rec ⟨.ident kw :: ts, a, b⟩ = .ok (.const .none) ⟨ts, a, b⟩ := by
  rcases h with h | h | h <;> subst h <;> simp [parsePrefix, P.bind_apply]

/-- tokens that continue an identifier chain or turn it into a call -/
def chainTok (t : Option Tok) : Prop :=
  t = some .leftParen ∨ t = some .dot ∨ t = some .questionMarkDot ∨ t = some .leftBracket
    ∨ t = some .questionMarkLeftBracket

theorem prefix_var (C : Cfg) (rec : Nat → P Expr) (name : String) (ts : List Tok) (a b : Nat)
    (hk : name ≠ "none" ∧ name ≠ "None" ∧ name ≠ "null" ∧ name ≠ "not")
    (hf : ¬ chainTok ts.head?) :
    parsePrefix C rec ⟨.ident name :: ts, a, b⟩ = .ok (.var name) ⟨ts, a, b⟩ := by
  obtain ⟨h1, h2, h3, h4⟩ := hk
  simp only [chainTok, not_or] at hf
  obtain ⟨f1, f2, f3, f4, f5⟩ := hf
  simp only [parsePrefix, bind_def, P.bind_apply, nextOrError_cons _ _ _ _ (by simp : Tok.ident name ≠ .error)]
  simp only [h1, h2, h3, h4, decide_false, Bool.or_false, Bool.false_eq_true, if_false, ite_false]
  simp only [parseIdent, bind_def, P.bind_apply, headIs_apply, loopFuel_apply]
  have : (ts.head? == some Tok.leftParen) = false := by simpa using f1
  simp only [this, Bool.false_eq_true, if_false, ite_false, P.bind_apply, loopFuel_apply, identChain]
  cases ts with
  | nil => simp [P.bind_apply]
  | cons t ts =>
    by_cases he : t = .error
    · subst he; simp [P.bind_apply]
    · simp only [List.head?_cons, Option.some.injEq] at f1 f2 f3 f4 f5
      simp only [bind_def, P.bind_apply, peekOk_cons _ _ _ _ he]
      cases t <;> simp_all


theorem prefix_paren (C : Cfg) (rec : Nat → P Expr) (e : Expr) (ts rest : List Tok)
    (a b a' b' : Nat) (h : rec 0 ⟨ts, a, b⟩ = .ok e ⟨.rightParen :: rest, a', b'⟩) :
    parsePrefix C rec ⟨.leftParen :: ts, a, b⟩ = .ok e ⟨rest, a', b'⟩ := by
  simp [parsePrefix, P.bind_apply, h, expect_cons]

theorem prefix_unary (C : Cfg) (rec : Nat → P Expr) (op : UnaryOperator) (e : Expr)
    (ts : List Tok) (a b : Nat) (st' : PState)
    (h1 : ts.head? ≠ some .minus) (h2 : ts.head? ≠ some (.ident "not"))
    (h : rec (C.bp.unary op) ⟨ts, a, b⟩ = .ok e st') :
    parsePrefix C rec ⟨unaryTok op :: ts, a, b⟩ = .ok (.unary op e) st' := by
  have e1 : (ts.head? == some Tok.minus) = false := by simpa using h1
  have e2 : (ts.head? == some (Tok.ident "not")) = false := by simpa using h2
  cases op <;> simp [unaryTok, parsePrefix, P.bind_apply, h, e1, e2]

/-! ### classification of the tokens the printer emits -/

theorem classify_opTok (op : BinaryOperator) : classify (opTok op) = .binop op := by
  cases op <;> decide

theorem opTok_ne_error (op : BinaryOperator) : opTok op ≠ .error := by
  cases op <;> decide

theorem classify_not : classify (.ident "not") = .notKw := by decide
theorem classify_if : classify (.ident "if") = .ifKw := by decide
theorem classify_leftBracket : classify .leftBracket = .leftBracket := by decide
theorem classify_rightParen : classify .rightParen = .other := by decide
theorem classify_rightBracket : classify .rightBracket = .other := by decide
theorem classify_else : classify (.ident "else") = .other := by decide
theorem classify_variableEnd (w : Bool) : classify (.variableEnd w) = .other := by
  cases w <;> decide

/-! ### one iteration of the Pratt loop -/

theorem loop_binop (C : Cfg) (rec : Nat → P Expr) (m n : Nat) (lhs R : Expr) (op : BinaryOperator)
    (ts : List Tok) (a b : Nat) (st' : PState)
    (hIs : op ≠ .Is) (hPipe : op ≠ .Pipe) (hm : ¬ (C.bp.binary op).1 < m)
    (hr : rec (C.bp.binary op).2 ⟨ts, a, b⟩ = .ok R st')
    (hc : ¬ (op = .StrConcat ∧ isUnary R = true)) :
    prattLoop C rec m (n + 1) lhs false ⟨opTok op :: ts, a, b⟩
      = prattLoop C rec m n (.binary op lhs R) false st' := by
  simp only [prattLoop, bind_def, P.bind_apply, peekOk_cons _ _ _ _ (opTok_ne_error op),
    classify_opTok, hm, if_false, nextOrError_cons _ _ _ _ (opTok_ne_error op)]
  have h1 : (decide (op = BinaryOperator.Is)) = false := by simpa using hIs
  simp only [h1, Bool.false_and, Bool.false_eq_true, if_false, P.pure_apply, pure_def]
  have h2 : parseOperand rec op (C.bp.binary op).2 lhs ⟨ts, a, b⟩ = .ok (.binary op lhs R) st' := by
    cases op <;> simp_all [parseOperand, P.bind_apply]
  simp [h2]

theorem loop_notIn (C : Cfg) (rec : Nat → P Expr) (m n : Nat) (lhs R : Expr)
    (ts : List Tok) (a b : Nat) (st' : PState)
    (hm : ¬ (C.bp.binary .In).1 < m)
    (hr : rec (C.bp.binary .In).2 ⟨ts, a, b⟩ = .ok R st') :
    prattLoop C rec m (n + 2) lhs false ⟨.ident "not" :: .ident "in" :: ts, a, b⟩
      = prattLoop C rec m n (.unary .Not (.binary .In lhs R)) false st' := by
  have hin : classify (.ident "in") = .binop .In := classify_opTok .In
  have h2 : parseOperand rec .In (C.bp.binary .In).2 lhs ⟨ts, a, b⟩ = .ok (.binary .In lhs R) st' := by
    simp [parseOperand, P.bind_apply, hr]
  simp [prattLoop, P.bind_apply, classify_not, hm, hin, h2]

theorem loop_ternary (C : Cfg) (rec : Nat → P Expr) (m n : Nat) (lhs c f : Expr) (neg : Bool)
    (ts ts2 : List Tok) (a b a' b' : Nat) (st'' : PState)
    (hm : ¬ C.bp.ternary < m)
    (hc : rec 0 ⟨ts, a, b⟩ = .ok c ⟨.ident "else" :: ts2, a', b'⟩)
    (hf : rec 0 ⟨ts2, a', b'⟩ = .ok f st'') :
    prattLoop C rec m (n + 1) lhs neg ⟨.ident "if" :: ts, a, b⟩ = .ok (.ternary c lhs f) st'' := by
  simp [prattLoop, P.bind_apply, classify_if, hm, hc, hf, expect_cons]

theorem loop_filter (C : Cfg) (rec : Nat → P Expr) (m n : Nat) (lhs : Expr) (name : String)
    (ts : List Tok) (a b : Nat)
    (hm : ¬ (C.bp.binary .Pipe).1 < m) (hp : ts.head? ≠ some .leftParen) :
    prattLoop C rec m (n + 1) lhs false ⟨.pipe :: .ident name :: ts, a, b⟩
      = prattLoop C rec m n (.filter lhs name []) false ⟨ts, a, b⟩ := by
  have hcl : classify .pipe = .binop .Pipe := classify_opTok .Pipe
  have e1 : (ts.head? == some Tok.leftParen) = false := by simpa using hp
  simp [prattLoop, P.bind_apply, hcl, hm, parseOperand, parseFilter, parseNameArgs,
    expectIdent_cons, e1]

theorem loop_test (C : Cfg) (rec : Nat → P Expr) (m n : Nat) (lhs : Expr) (name : String)
    (ts : List Tok) (a b : Nat)
    (hm : ¬ (C.bp.binary .Is).1 < m) (hp : ts.head? ≠ some .leftParen) (hn : name ≠ "not") :
    prattLoop C rec m (n + 1) lhs false ⟨.ident "is" :: .ident name :: ts, a, b⟩
      = prattLoop C rec m n (.test lhs name []) false ⟨ts, a, b⟩ := by
  have hcl : classify (.ident "is") = .binop .Is := classify_opTok .Is
  have e1 : (ts.head? == some Tok.leftParen) = false := by simpa using hp
  simp [prattLoop, P.bind_apply, hcl, hm, parseOperand, parseTest, parseNameArgs,
    expectIdent_cons, e1, hn]

theorem loop_test_not (C : Cfg) (rec : Nat → P Expr) (m n : Nat) (lhs : Expr) (name : String)
    (ts : List Tok) (a b : Nat)
    (hm : ¬ (C.bp.binary .Is).1 < m) (hp : ts.head? ≠ some .leftParen) :
    prattLoop C rec m (n + 1) lhs false ⟨.ident "is" :: .ident "not" :: .ident name :: ts, a, b⟩
      = prattLoop C rec m n (.unary .Not (.test lhs name [])) false ⟨ts, a, b⟩ := by
  have hcl : classify (.ident "is") = .binop .Is := classify_opTok .Is
  have e1 : (ts.head? == some Tok.leftParen) = false := by simpa using hp
  simp [prattLoop, P.bind_apply, hcl, hm, parseOperand, parseTest, parseNameArgs,
    expectIdent_cons, e1]

theorem loop_index (C : Cfg) (rec : Nat → P Expr) (m n : Nat) (lhs i : Expr) (neg : Bool)
    (ts rest : List Tok) (a b a' b' : Nat)
    (hb : ¬ b + 1 > C.maxBrackets) (hcolon : ts.head? ≠ some .colon)
    (hi : rec 0 ⟨ts, a, b + 1⟩ = .ok i ⟨.rightBracket :: rest, a', b'⟩) :
    prattLoop C rec m (n + 1) lhs neg ⟨.leftBracket :: ts, a, b⟩
      = prattLoop C rec m n (.getItem lhs i false) neg ⟨rest, a', b' - 1⟩ := by
  have e1 : (ts.head? == some Tok.colon) = false := by simpa using hcolon
  have e2 : (Tok.leftBracket == Tok.questionMarkLeftBracket) = false := by decide
  simp [prattLoop, P.bind_apply, classify_leftBracket, parseSubscript, subscriptStart, subscriptSlice, expect_cons, hb, e1, hi, e2]


/-! ### identifier chains (`parse_ident`) -/

theorem chain_stop (C : Cfg) (rec : Nat → P Expr) (root : String) (n : Nat) (e : Expr)
    (ts : List Tok) (a b : Nat) (hf : ¬ chainTok ts.head?) :
    identChain C rec root (n + 1) e ⟨ts, a, b⟩ = .ok e ⟨ts, a, b⟩ := by
  simp only [chainTok, not_or] at hf
  obtain ⟨f1, f2, f3, f4, f5⟩ := hf
  cases ts with
  | nil => simp [identChain, P.bind_apply]
  | cons t ts =>
    by_cases he : t = .error
    · subst he; simp [identChain, P.bind_apply]
    · simp only [List.head?_cons, Option.some.injEq] at f1 f2 f3 f4 f5
      simp only [identChain, bind_def, P.bind_apply, peekOk_cons _ _ _ _ he]
      cases t <;> simp_all

theorem prefix_ident_chain (C : Cfg) (rec : Nat → P Expr) (name : String) (ts : List Tok)
    (a b : Nat) (hk : name ≠ "none" ∧ name ≠ "None" ∧ name ≠ "null" ∧ name ≠ "not")
    (hp : ts.head? ≠ some .leftParen) :
    parsePrefix C rec ⟨.ident name :: ts, a, b⟩
      = identChain C rec name (ts.length + 1) (.var name) ⟨ts, a, b⟩ := by
  obtain ⟨h1, h2, h3, h4⟩ := hk
  simp only [parsePrefix, bind_def, P.bind_apply, nextOrError_cons _ _ _ _ (by simp : Tok.ident name ≠ .error)]
  simp only [h1, h2, h3, h4, decide_false, Bool.or_false, Bool.false_eq_true, if_false, ite_false]
  have : (ts.head? == some Tok.leftParen) = false := by simpa using hp
  simp [parseIdent, P.bind_apply, this]

theorem chain_attr (C : Cfg) (rec : Nat → P Expr) (root nm : String) (n : Nat) (e : Expr)
    (o : Bool) (ts : List Tok) (a b : Nat) (hroot : root ≠ "loop") :
    identChain C rec root (n + 1) e
        ⟨(if o then Tok.questionMarkDot else Tok.dot) :: .ident nm :: ts, a, b⟩
      = identChain C rec root n (.getAttr e nm o) ⟨ts, a, b⟩ := by
  have hr : (root == "loop") = false := by simpa using hroot
  have e2 : (Tok.dot == Tok.questionMarkDot) = false := by decide
  cases o <;> simp [identChain, P.bind_apply, expectIdent_cons, hr, e2]

theorem chain_sub (C : Cfg) (rec : Nat → P Expr) (root : String) (n : Nat) (e i : Expr)
    (o : Bool) (ts rest : List Tok) (a b a' b' : Nat)
    (hb : ¬ b + 1 > C.maxBrackets) (hcolon : ts.head? ≠ some .colon)
    (hi : rec 0 ⟨ts, a, b + 1⟩ = .ok i ⟨.rightBracket :: rest, a', b'⟩) :
    identChain C rec root (n + 1) e
        ⟨(if o then Tok.questionMarkLeftBracket else Tok.leftBracket) :: ts, a, b⟩
      = identChain C rec root n (.getItem e i o) ⟨rest, a', b' - 1⟩ := by
  have e1 : (ts.head? == some Tok.colon) = false := by simpa using hcolon
  have e2 : (Tok.leftBracket == Tok.questionMarkLeftBracket) = false := by decide
  cases o <;>
    simp [identChain, P.bind_apply, parseSubscript, subscriptStart, subscriptSlice, expect_cons, hb, e1, hi, e2]


/-! ### argument lists (`parse_kwargs`) -/

theorem kwargs_stop (rec : Nat → P Expr) (n : Nat) (acc : List (String × Expr)) (ts : List Tok)
    (a b : Nat) :
    kwargsLoop rec (n + 1) acc ⟨.rightParen :: ts, a, b⟩ = .ok acc ⟨.rightParen :: ts, a, b⟩ := by
  simp [kwargsLoop, P.bind_apply]

theorem kwargs_step (rec : Nat → P Expr) (n : Nat) (acc : List (String × Expr)) (k : String)
    (v : Expr) (vs : List Tok) (a b : Nat) (st' : PState)
    (hfresh : acc.any (fun p => p.1 == k) = false)
    (h : rec 0 ⟨vs, a, b⟩ = .ok v st') :
    kwargsLoop rec (n + 1) acc
        ⟨(if acc.isEmpty then [] else [Tok.comma]) ++ .ident k :: .assign :: vs, a, b⟩
      = kwargsLoop rec n (Expr.insertKwarg k v acc) st' := by
  have e1 : (Tok.ident k == Tok.rightParen) = false := by simp
  have e2 : (Tok.comma == Tok.rightParen) = false := by decide
  cases hacc : acc.isEmpty
  · simp [kwargsLoop, P.bind_apply, hacc, expect_cons, expectIdent_cons, e1, e2, hfresh, h]
  · simp [kwargsLoop, P.bind_apply, hacc, expect_cons, expectIdent_cons, e1, hfresh, h]

theorem parseKwargs_of_loop (rec : Nat → P Expr) (kw : List (String × Expr)) (ts ts' : List Tok)
    (a b a' b' : Nat)
    (h : kwargsLoop rec (ts.length + 1) [] ⟨ts, a, b⟩ = .ok kw ⟨.rightParen :: ts', a', b'⟩) :
    parseKwargs rec ⟨.leftParen :: ts, a, b⟩ = .ok kw ⟨ts', a', b'⟩ := by
  simp [parseKwargs, P.bind_apply, expect_cons, h]

theorem prefix_call (C : Cfg) (rec : Nat → P Expr) (name : String) (kw : List (String × Expr))
    (ts : List Tok) (a b : Nat) (st' : PState)
    (hk : name ≠ "none" ∧ name ≠ "None" ∧ name ≠ "null" ∧ name ≠ "not")
    (h : parseKwargs rec ⟨.leftParen :: ts, a, b⟩ = .ok kw st') :
    parsePrefix C rec ⟨.ident name :: .leftParen :: ts, a, b⟩ = .ok (.functionCall name kw) st' := by
  obtain ⟨h1, h2, h3, h4⟩ := hk
  simp only [parsePrefix, bind_def, P.bind_apply, nextOrError_cons _ _ _ _ (by simp : Tok.ident name ≠ .error)]
  simp only [h1, h2, h3, h4, decide_false, Bool.or_false, Bool.false_eq_true, if_false, ite_false]
  simp [parseIdent, P.bind_apply, h]

theorem loop_filterA (C : Cfg) (rec : Nat → P Expr) (m n : Nat) (lhs : Expr) (name : String)
    (kw : List (String × Expr)) (ts : List Tok) (a b : Nat) (st' : PState)
    (hm : ¬ (C.bp.binary .Pipe).1 < m)
    (h : parseKwargs rec ⟨.leftParen :: ts, a, b⟩ = .ok kw st') :
    prattLoop C rec m (n + 1) lhs false ⟨.pipe :: .ident name :: .leftParen :: ts, a, b⟩
      = prattLoop C rec m n (.filter lhs name kw) false st' := by
  have hcl : classify .pipe = .binop .Pipe := classify_opTok .Pipe
  simp [prattLoop, P.bind_apply, hcl, hm, parseOperand, parseFilter, parseNameArgs,
    expectIdent_cons, h]

theorem loop_testA (C : Cfg) (rec : Nat → P Expr) (m n : Nat) (lhs : Expr) (name : String)
    (kw : List (String × Expr)) (ts : List Tok) (a b : Nat) (st' : PState)
    (hm : ¬ (C.bp.binary .Is).1 < m) (hn : name ≠ "not")
    (h : parseKwargs rec ⟨.leftParen :: ts, a, b⟩ = .ok kw st') :
    prattLoop C rec m (n + 1) lhs false ⟨.ident "is" :: .ident name :: .leftParen :: ts, a, b⟩
      = prattLoop C rec m n (.test lhs name kw) false st' := by
  have hcl : classify (.ident "is") = .binop .Is := classify_opTok .Is
  simp [prattLoop, P.bind_apply, hcl, hm, parseOperand, parseTest, parseNameArgs,
    expectIdent_cons, h, hn]

theorem loop_testA_not (C : Cfg) (rec : Nat → P Expr) (m n : Nat) (lhs : Expr) (name : String)
    (kw : List (String × Expr)) (ts : List Tok) (a b : Nat) (st' : PState)
    (hm : ¬ (C.bp.binary .Is).1 < m)
    (h : parseKwargs rec ⟨.leftParen :: ts, a, b⟩ = .ok kw st') :
    prattLoop C rec m (n + 1) lhs false
        ⟨.ident "is" :: .ident "not" :: .ident name :: .leftParen :: ts, a, b⟩
      = prattLoop C rec m n (.unary .Not (.test lhs name kw)) false st' := by
  have hcl : classify (.ident "is") = .binop .Is := classify_opTok .Is
  simp [prattLoop, P.bind_apply, hcl, hm, parseOperand, parseTest, parseNameArgs,
    expectIdent_cons, h]


/-! ### array literals (`parse_array`) -/

/-- `literal_only` as the loop of `parse_array` computes it -/
def litOf (xs : List ArrayEntry) : Bool :=
  xs.all (fun x => match x with
    | .item e => e.isLiteral
    | .spread _ => false)

theorem litOf_append (xs ys : List ArrayEntry) : litOf (xs ++ ys) = (litOf xs && litOf ys) := by
  simp [litOf, List.all_append]

theorem litOf_cons (x : ArrayEntry) (rest : List ArrayEntry) :
    litOf (x :: rest) = ((match x with
      | .item e => e.isLiteral
      | .spread _ => false) && litOf rest) := by
  simp [litOf]

theorem arrayAsConst_none_of_not_lit (xs : List ArrayEntry) (h : litOf xs = false) :
    arrayAsConst xs = none := by
  induction xs with
  | nil => simp [litOf] at h
  | cons x rest ih =>
    rw [litOf_cons] at h
    cases x with
    | spread e => simp [arrayAsConst]
    | item e =>
      cases e with
      | const v =>
        simp only [Expr.isLiteral, Bool.true_and] at h
        simp [arrayAsConst, ih h]
      | _ => simp [arrayAsConst]

/-- the end of `parse_array` is the constant folding `foldArray` -/
theorem finish_array (xs : List ArrayEntry) :
    (if litOf xs then
      (match arrayAsConst xs with
        | some vs => Expr.const (.arr vs)
        | none => Expr.array xs)
     else Expr.array xs) = S.foldArray xs := by
  unfold S.foldArray
  cases h : litOf xs
  · simp [arrayAsConst_none_of_not_lit xs h]
  · cases arrayAsConst xs <;> rfl

theorem array_stop (C : Cfg) (rec : Nat → P Expr) (n : Nat) (acc : List ArrayEntry) (lit : Bool)
    (ts : List Tok) (a b : Nat) :
    arrayLoop C rec (n + 1) acc lit ⟨.rightBracket :: ts, a, b⟩
      = .ok (.items acc lit) ⟨.rightBracket :: ts, a, b⟩ := by
  simp [arrayLoop, P.bind_apply]

theorem array_step_item (C : Cfg) (rec : Nat → P Expr) (n : Nat) (acc : List ArrayEntry)
    (lit : Bool) (x : Expr) (vs ts' : List Tok) (a b a' b' : Nat)
    (h1 : vs.head? ≠ some .rightBracket) (h2 : vs.head? ≠ some .spread)
    (h : rec 0 ⟨vs, a, b⟩ = .ok x ⟨ts', a', b'⟩) (hfor : ts'.head? ≠ some (.ident "for")) :
    arrayLoop C rec (n + 1) acc lit ⟨(if acc.isEmpty then [] else [Tok.comma]) ++ vs, a, b⟩
      = arrayLoop C rec n (acc ++ [.item x]) (lit && x.isLiteral) ⟨ts', a', b'⟩ := by
  have e1 : (vs.head? == some Tok.rightBracket) = false := by simpa using h1
  have e2 : (vs.head? == some Tok.spread) = false := by simpa using h2
  have e3 : (ts'.head? == some (Tok.ident "for")) = false := by simpa using hfor
  have e4 : (Tok.comma == Tok.rightBracket) = false := by decide
  cases hacc : acc.isEmpty
  · simp [arrayLoop, P.bind_apply, hacc, expect_cons, e1, e2, e3, e4, h]
  · simp [arrayLoop, P.bind_apply, hacc, expect_cons, e1, e2, e3, h]

theorem array_step_spread (C : Cfg) (rec : Nat → P Expr) (n : Nat) (acc : List ArrayEntry)
    (lit : Bool) (x : Expr) (vs : List Tok) (a b : Nat) (st' : PState)
    (h : rec 0 ⟨vs, a, b⟩ = .ok x st') :
    arrayLoop C rec (n + 1) acc lit
        ⟨(if acc.isEmpty then [] else [Tok.comma]) ++ .spread :: vs, a, b⟩
      = arrayLoop C rec n (acc ++ [.spread x]) false st' := by
  have e1 : (Tok.spread == Tok.rightBracket) = false := by decide
  have e4 : (Tok.comma == Tok.rightBracket) = false := by decide
  cases hacc : acc.isEmpty
  · simp [arrayLoop, P.bind_apply, hacc, expect_cons, e1, e4, h]
  · simp [arrayLoop, P.bind_apply, hacc, expect_cons, e1, h]

theorem prefix_array (C : Cfg) (rec : Nat → P Expr) (xs : List ArrayEntry) (lit : Bool)
    (ts ts' : List Tok) (a b a' b' : Nat) (hdim : ¬ a + 1 > C.maxArray)
    (h : arrayLoop C rec (ts.length + 1) [] true ⟨ts, a + 1, b⟩
      = .ok (.items xs lit) ⟨.rightBracket :: ts', a', b'⟩) :
    parsePrefix C rec ⟨.leftBracket :: ts, a, b⟩
      = .ok (if lit then
          (match arrayAsConst xs with
            | some vs => Expr.const (.arr vs)
            | none => Expr.array xs)
         else Expr.array xs) ⟨ts', a' - 1, b'⟩ := by
  simp only [parsePrefix, bind_def, P.bind_apply, nextOrError_cons _ _ _ _ (by decide : Tok.leftBracket ≠ .error)]
  simp only [parseArray, bind_def, P.bind_apply, hdim, if_false, loopFuel_apply, h]
  cases lit
  · simp [P.bind_apply, expect_cons]
  · cases arrayAsConst xs <;> simp [P.bind_apply, expect_cons]


/-! ### map literals (`parse_map`) -/

theorem mapLitOf_cons (x : MapEntry) (rest : List MapEntry) :
    S.mapLitOf (x :: rest) = (S.entryLit x && S.mapLitOf rest) := by
  simp [S.mapLitOf]

theorem mapLitOf_append (xs ys : List MapEntry) :
    S.mapLitOf (xs ++ ys) = (S.mapLitOf xs && S.mapLitOf ys) := by
  simp [S.mapLitOf, List.all_append]

theorem map_stop (rec : Nat → P Expr) (n : Nat) (acc : List MapEntry) (lit : Bool)
    (ts : List Tok) (a b : Nat) :
    mapLoop rec (n + 1) acc lit ⟨.rightBrace :: ts, a, b⟩
      = .ok (acc, lit) ⟨.rightBrace :: ts, a, b⟩ := by
  simp [mapLoop, P.bind_apply]

theorem map_step_kv (rec : Nat → P Expr) (n : Nat) (acc : List MapEntry) (lit : Bool)
    (k : SKey) (v : Expr) (vs : List Tok) (a b : Nat) (st' : PState)
    (h : rec 0 ⟨vs, a, b⟩ = .ok v st') :
    mapLoop rec (n + 1) acc lit
        ⟨(if acc.isEmpty then [] else [Tok.comma]) ++ k.tok :: .colon :: vs, a, b⟩
      = mapLoop rec n (acc ++ [.keyValue k.key v]) (lit && v.isLiteral) st' := by
  have e4 : (Tok.comma == Tok.rightBrace) = false := by decide
  have k1 : (k.tok == Tok.rightBrace) = false := by cases k <;> simp [SKey.tok]
  have k2 : (k.tok == Tok.spread) = false := by cases k <;> simp [SKey.tok]
  have k3 : k.tok ≠ Tok.error := by cases k <;> simp [SKey.tok]
  cases hacc : acc.isEmpty <;>
    cases k <;>
      simp_all [mapLoop, P.bind_apply, expect_cons, SKey.tok, SKey.key]

theorem map_step_spread (rec : Nat → P Expr) (n : Nat) (acc : List MapEntry) (lit : Bool)
    (x : Expr) (vs : List Tok) (a b : Nat) (st' : PState)
    (h : rec 0 ⟨vs, a, b⟩ = .ok x st') :
    mapLoop rec (n + 1) acc lit
        ⟨(if acc.isEmpty then [] else [Tok.comma]) ++ .spread :: vs, a, b⟩
      = mapLoop rec n (acc ++ [.spread x]) false st' := by
  have e1 : (Tok.spread == Tok.rightBrace) = false := by decide
  have e4 : (Tok.comma == Tok.rightBrace) = false := by decide
  cases hacc : acc.isEmpty
  · simp [mapLoop, P.bind_apply, hacc, expect_cons, e1, e4, h]
  · simp [mapLoop, P.bind_apply, hacc, expect_cons, e1, h]

theorem prefix_map (C : Cfg) (rec : Nat → P Expr) (xs : List MapEntry) (lit : Bool)
    (ts ts' : List Tok) (a b a' b' : Nat)
    (h : mapLoop rec (ts.length + 1) [] true ⟨ts, a, b⟩
      = .ok (xs, lit) ⟨.rightBrace :: ts', a', b'⟩) :
    parsePrefix C rec ⟨.leftBrace :: ts, a, b⟩
      = .ok (if lit then Expr.const (.map (foldConstMap xs)) else Expr.map xs) ⟨ts', a', b'⟩ := by
  simp only [parsePrefix, bind_def, P.bind_apply, nextOrError_cons _ _ _ _ (by decide : Tok.leftBrace ≠ .error)]
  simp only [parseMap, bind_def, P.bind_apply, loopFuel_apply, h]
  cases lit <;> simp [P.bind_apply, expect_cons]


/-! ### list comprehensions (`parse_list_comprehension`) -/

/-- the `for [key,] value in` part -/
def compHead (key : Option String) (value : String) : List Tok :=
  .ident "for" :: (S.keyToks key ++ [.ident value, .ident "in"])

theorem listComp_step (C : Cfg) (rec : Nat → P Expr) (x tg : Expr) (key : Option String)
    (value : String) (tts cts : List Tok) (a b a2 b2 : Nat) (cond : Option Expr) (st' : PState)
    (hv : value ∉ Gen.RESERVED_NAMES)
    (hk : ∀ k, key = some k → k ∉ Gen.RESERVED_NAMES)
    (ht : rec (C.bp.ternary + 1) ⟨tts, a, b⟩ = .ok tg ⟨cts, a2, b2⟩)
    (hc : match cond with
      | none => ∃ ts', cts = .rightBracket :: ts' ∧ st' = ⟨ts', a2, b2⟩
      | some c => ∃ cs ts' a3 b3, cts = .ident "if" :: cs
          ∧ rec (C.bp.ternary + 1) ⟨cs, a2, b2⟩ = .ok c ⟨.rightBracket :: ts', a3, b3⟩
          ∧ st' = ⟨ts', a3, b3⟩) :
    parseListComprehension C rec x ⟨compHead key value ++ tts, a, b⟩
      = .ok (.listComprehension x key value tg cond) st' := by
  have e1 : (Tok.ident "in" == Tok.comma) = false := by decide
  have e2 : (Tok.rightBracket == Tok.ident "if") = false := by decide
  have e3 : (Tok.rightBracket == Tok.ident "for") = false := by decide
  cases key with
  | none =>
    cases cond with
    | none =>
      obtain ⟨ts', rfl, rfl⟩ := hc
      simp [parseListComprehension, compHead, S.keyToks, P.bind_apply, expect_cons, expectIdent_cons, hv, ht,
        e1, e2, e3]
    | some c =>
      obtain ⟨cs, ts', a3, b3, rfl, hcr, rfl⟩ := hc
      simp [parseListComprehension, compHead, S.keyToks, P.bind_apply, expect_cons, expectIdent_cons, hv, ht,
        e1, e3, hcr]
  | some k =>
    have hk' := hk k rfl
    cases cond with
    | none =>
      obtain ⟨ts', rfl, rfl⟩ := hc
      simp [parseListComprehension, compHead, S.keyToks, P.bind_apply, expect_cons, expectIdent_cons, hv, hk',
        ht, e2, e3]
    | some c =>
      obtain ⟨cs, ts', a3, b3, rfl, hcr, rfl⟩ := hc
      simp [parseListComprehension, compHead, S.keyToks, P.bind_apply, expect_cons, expectIdent_cons, hv, hk',
        ht, e3, hcr]

theorem prefix_comp (C : Cfg) (rec : Nat → P Expr) (x : Expr) (lc : Expr) (ets rest : List Tok)
    (a b a1 b1 : Nat) (st' : PState) (hdim : ¬ a + 1 > C.maxArray)
    (h1 : ets.head? ≠ some .rightBracket) (h2 : ets.head? ≠ some .spread)
    (hx : rec 0 ⟨ets, a + 1, b⟩ = .ok x ⟨.ident "for" :: rest, a1, b1⟩)
    (hl : parseListComprehension C rec x ⟨.ident "for" :: rest, a1 - 1, b1⟩ = .ok lc st') :
    parsePrefix C rec ⟨.leftBracket :: ets, a, b⟩ = .ok lc st' := by
  have e1 : (ets.head? == some Tok.rightBracket) = false := by simpa using h1
  have e2 : (ets.head? == some Tok.spread) = false := by simpa using h2
  simp only [parsePrefix, bind_def, P.bind_apply, nextOrError_cons _ _ _ _ (by decide : Tok.leftBracket ≠ .error)]
  simp [parseArray, P.bind_apply, hdim, arrayLoop, e1, e2, hx, hl]


/-! ### slices (`parse_subscript`, the `:` forms) -/

theorem subscript_slice (C : Cfg) (rec : Nat → P Expr) (e : Expr) (o : Bool)
    (A B Cc : Option Expr) (ts0 t1 t2 rest : List Tok) (a b a1 b1 a2 b2 a3 b3 : Nat)
    (hb : ¬ b + 1 > C.maxBrackets)
    (hA : match A with
      | none => ts0 = .colon :: t1 ∧ a1 = a ∧ b1 = b + 1
      | some x => ts0.head? ≠ some .colon ∧ rec 0 ⟨ts0, a, b + 1⟩ = .ok x ⟨.colon :: t1, a1, b1⟩)
    (hB : match B with
      | none => (t1.head? = some .colon ∨ t1.head? = some .rightBracket) ∧ t2 = t1 ∧ a2 = a1 ∧ b2 = b1
      | some x => t1.head? ≠ some .colon ∧ t1.head? ≠ some .rightBracket
          ∧ rec 0 ⟨t1, a1, b1⟩ = .ok x ⟨t2, a2, b2⟩)
    (hC : match Cc with
      | none => t2 = .rightBracket :: rest ∧ a3 = a2 ∧ b3 = b2
      | some x => ∃ t3, t2 = .colon :: t3
          ∧ rec 0 ⟨t3, a2, b2⟩ = .ok x ⟨.rightBracket :: rest, a3, b3⟩) :
    parseSubscript C rec e
        ⟨(if o then Tok.questionMarkLeftBracket else Tok.leftBracket) :: ts0, a, b⟩
      = .ok (.slice e A B Cc o) ⟨rest, a3, b3 - 1⟩ := by
  have q1 : (Tok.leftBracket == Tok.questionMarkLeftBracket) = false := by decide
  have q2 : (Tok.rightBracket == Tok.colon) = false := by decide
  cases A with
  | none =>
    obtain ⟨rfl, rfl, rfl⟩ := hA
    cases B with
    | none =>
      obtain ⟨hh, rfl, rfl, rfl⟩ := hB
      cases Cc with
      | none =>
        obtain ⟨rfl, rfl, rfl⟩ := hC
        cases o <;> simp [parseSubscript, subscriptStart, subscriptSlice, P.bind_apply, expect_cons, hb, q1, q2]
      | some z =>
        obtain ⟨t3, rfl, hz⟩ := hC
        cases o <;> simp [parseSubscript, subscriptStart, subscriptSlice, P.bind_apply, expect_cons, hb, q1, hz]
    | some y =>
      obtain ⟨h1, h2, hy⟩ := hB
      have e1 : (t1.head? == some Tok.colon) = false := by simpa using h1
      have e2 : (t1.head? == some Tok.rightBracket) = false := by simpa using h2
      cases Cc with
      | none =>
        obtain ⟨rfl, rfl, rfl⟩ := hC
        cases o <;> simp [parseSubscript, subscriptStart, subscriptSlice, P.bind_apply, expect_cons, hb, q1, q2, e1, e2, hy]
      | some z =>
        obtain ⟨t3, rfl, hz⟩ := hC
        cases o <;> simp [parseSubscript, subscriptStart, subscriptSlice, P.bind_apply, expect_cons, hb, q1, e1, e2, hy, hz]
  | some x =>
    obtain ⟨h0, hx⟩ := hA
    have e0 : (ts0.head? == some Tok.colon) = false := by simpa using h0
    cases B with
    | none =>
      obtain ⟨hh, rfl, rfl, rfl⟩ := hB
      cases Cc with
      | none =>
        obtain ⟨rfl, rfl, rfl⟩ := hC
        cases o <;> simp [parseSubscript, subscriptStart, subscriptSlice, P.bind_apply, expect_cons, hb, q1, q2, e0, hx]
      | some z =>
        obtain ⟨t3, rfl, hz⟩ := hC
        cases o <;> simp [parseSubscript, subscriptStart, subscriptSlice, P.bind_apply, expect_cons, hb, q1, e0, hx, hz]
    | some y =>
      obtain ⟨h1, h2, hy⟩ := hB
      have e1 : (t1.head? == some Tok.colon) = false := by simpa using h1
      have e2 : (t1.head? == some Tok.rightBracket) = false := by simpa using h2
      cases Cc with
      | none =>
        obtain ⟨rfl, rfl, rfl⟩ := hC
        cases o <;> simp [parseSubscript, subscriptStart, subscriptSlice, P.bind_apply, expect_cons, hb, q1, q2, e0, e1, e2, hx, hy]
      | some z =>
        obtain ⟨t3, rfl, hz⟩ := hC
        cases o <;> simp [parseSubscript, subscriptStart, subscriptSlice, P.bind_apply, expect_cons, hb, q1, e0, e1, e2, hx, hy, hz]

theorem loop_subscript (C : Cfg) (rec : Nat → P Expr) (m n : Nat) (lhs e' : Expr) (neg : Bool)
    (ts : List Tok) (a b : Nat) (st' : PState)
    (h : parseSubscript C rec lhs ⟨.leftBracket :: ts, a, b⟩ = .ok e' st') :
    prattLoop C rec m (n + 1) lhs neg ⟨.leftBracket :: ts, a, b⟩ = prattLoop C rec m n e' neg st' := by
  simp [prattLoop, P.bind_apply, classify_leftBracket, h]

theorem chain_subscript (C : Cfg) (rec : Nat → P Expr) (root : String) (n : Nat) (e e' : Expr)
    (o : Bool) (ts : List Tok) (a b : Nat) (st' : PState)
    (h : parseSubscript C rec e
      ⟨(if o then Tok.questionMarkLeftBracket else Tok.leftBracket) :: ts, a, b⟩ = .ok e' st') :
    identChain C rec root (n + 1) e
        ⟨(if o then Tok.questionMarkLeftBracket else Tok.leftBracket) :: ts, a, b⟩
      = identChain C rec root n e' st' := by
  cases o
  · simp only [Bool.false_eq_true, if_false] at h ⊢
    simp [identChain, P.bind_apply, h]
  · simp only [if_true] at h ⊢
    simp [identChain, P.bind_apply, h]


/-! ### trailing commas -/

theorem kwargs_trailing (rec : Nat → P Expr) (n : Nat) (acc : List (String × Expr))
    (ts : List Tok) (a b : Nat) (h : acc.isEmpty = false) :
    kwargsLoop rec (n + 1) acc ⟨.comma :: .rightParen :: ts, a, b⟩
      = .ok acc ⟨.rightParen :: ts, a, b⟩ := by
  have e1 : (Tok.comma == Tok.rightParen) = false := by decide
  simp [kwargsLoop, P.bind_apply, expect_cons, h, e1]

theorem array_trailing (C : Cfg) (rec : Nat → P Expr) (n : Nat) (acc : List ArrayEntry) (lit : Bool)
    (ts : List Tok) (a b : Nat) (h : acc.isEmpty = false) :
    arrayLoop C rec (n + 1) acc lit ⟨.comma :: .rightBracket :: ts, a, b⟩
      = .ok (.items acc lit) ⟨.rightBracket :: ts, a, b⟩ := by
  have e1 : (Tok.comma == Tok.rightBracket) = false := by decide
  simp [arrayLoop, P.bind_apply, expect_cons, h, e1]

theorem map_trailing (rec : Nat → P Expr) (n : Nat) (acc : List MapEntry) (lit : Bool)
    (ts : List Tok) (a b : Nat) (h : acc.isEmpty = false) :
    mapLoop rec (n + 1) acc lit ⟨.comma :: .rightBrace :: ts, a, b⟩
      = .ok (acc, lit) ⟨.rightBrace :: ts, a, b⟩ := by
  have e1 : (Tok.comma == Tok.rightBrace) = false := by decide
  simp [mapLoop, P.bind_apply, expect_cons, h, e1]

end Tera.Parser
