/-
`cmp = Equal ⇔ ==` for all well-formed values.  The map case is the real work: `==` on maps is
"same size and every entry of the left is found in the right with an equal value" (one pass,
lookups), while `cmp` sorts both entry lists by key and walks them in lockstep.  The two agree
because keys are unique up to `==` (`NoDupKeys`), `Key::cmp` is a total order compatible with
`Key::==`, and an injection between finite sets of the same size is onto.
-/
import TeraModel.Lemmas.ValueOrder
import TeraModel.Lemmas.SortLemmas
import TeraModel.Lemmas.LookupLemmas
set_option linter.unusedVariables false
namespace Tera
open Tera.Value

section matching
variable {R : Value → Value → Prop}

/-- entries match: `==` keys and related values -/
def EMatch (R : Value → Value → Prop) (e e' : Key × Value) : Prop :=
  Key.cmpK e.1 e'.1 = .eq ∧ R e.2 e'.2

theorem Key.cmp_eq_false_of_eq_false {a b : Key} (h : Key.eq a b = false) : Key.cmpK a b ≠ .eq := by
  intro hc; rw [(Key.cmp_eq_iff a b).1 hc] at h; cases h

/-- An injection between duplicate-free maps of the same size is onto. -/
theorem match_onto (a b : List (Key × Value)) (na : NoDupKeys a) (nb : NoDupKeys b)
    (hl : a.length = b.length) (fw : ∀ e ∈ a, ∃ e' ∈ b, EMatch R e e') :
    ∀ e' ∈ b, ∃ e ∈ a, EMatch R e e' := by
  induction a generalizing b with
  | nil =>
    intro e' he'
    have : b = [] := List.eq_nil_of_length_eq_zero hl.symm
    subst this; cases he'
  | cons x a' ih =>
    obtain ⟨y, hy, hxy⟩ := fw x (by simp)
    obtain ⟨b1, b2, rfl⟩ := List.append_of_mem hy
    have pm : (b1 ++ y :: b2).Perm (y :: (b1 ++ b2)) := List.perm_middle
    have nb' : NoDupKeys (y :: (b1 ++ b2)) := nb.perm pm
    obtain ⟨xk, xv⟩ := x
    obtain ⟨yk, yv⟩ := y
    have hl' : a'.length = (b1 ++ b2).length := by
      simp only [List.length_cons, List.length_append] at hl ⊢; omega
    have fw' : ∀ e ∈ a', ∃ e' ∈ b1 ++ b2, EMatch R e e' := by
      intro e he
      obtain ⟨e', he', hm⟩ := fw e (by simp [he])
      refine ⟨e', ?_, hm⟩
      rcases List.mem_append.1 he' with h | h
      · exact List.mem_append.2 (Or.inl h)
      · rcases List.mem_cons.1 h with h | h
        · exfalso
          subst h
          -- e ~ y ~ x but x and e are different entries of a
          have h1 : Key.cmpK e.1 yk = .eq := hm.1
          have h2 : Key.cmpK xk yk = .eq := hxy.1
          have h3 := Key.cmp_laws.eq_trans trivial trivial trivial h2
            (Key.cmp_laws.eq_symm trivial trivial h1)
          exact Key.cmp_eq_false_of_eq_false (na.1 e he) h3
        · exact List.mem_append.2 (Or.inr h)
    have ih' := ih (b1 ++ b2) na.2 nb'.2 hl' fw'
    intro e' he'
    rcases List.mem_append.1 he' with h | h
    · obtain ⟨e, he, hm⟩ := ih' e' (List.mem_append.2 (Or.inl h))
      exact ⟨e, by simp [he], hm⟩
    · rcases List.mem_cons.1 h with h | h
      · subst h; exact ⟨(xk, xv), by simp, hxy⟩
      · obtain ⟨e, he, hm⟩ := ih' e' (List.mem_append.2 (Or.inr h))
        exact ⟨e, by simp [he], hm⟩

/-- strictly increasing by key -/
def KeySorted (l : List (Key × Value)) : Prop :=
  l.Pairwise (fun e e' => Key.cmpK e.1 e'.1 = .lt)

/-- Two key-sorted entry lists that match each other both ways match position by position. -/
theorem sorted_match (A B : List (Key × Value)) (sa : KeySorted A) (sb : KeySorted B)
    (fw : ∀ e ∈ A, ∃ e' ∈ B, EMatch R e e') (bw : ∀ e' ∈ B, ∃ e ∈ A, EMatch R e e') :
    List.Forall₂ (EMatch R) A B := by
  induction A generalizing B with
  | nil =>
    cases B with
    | nil => exact List.Forall₂.nil
    | cons y B' => obtain ⟨e, he, _⟩ := bw y (by simp); cases he
  | cons x A' ih =>
    cases B with
    | nil => obtain ⟨e, he, _⟩ := fw x (by simp); cases he
    | cons y B' =>
      unfold KeySorted at sa sb
      rw [List.pairwise_cons] at sa sb
      have L := Key.cmp_laws
      have hxy : EMatch R x y := by
        obtain ⟨ys, hys, hm⟩ := fw x (by simp)
        rcases List.mem_cons.1 hys with h | h
        · subst h; exact hm
        · obtain ⟨xs, hxs, hm'⟩ := bw y (by simp)
          rcases List.mem_cons.1 hxs with h' | h'
          · subst h'; exact hm'
          · exfalso
            have l1 : Key.cmpK y.1 ys.1 = .lt := sb.1 ys h
            have l2 : Key.cmpK x.1 xs.1 = .lt := sa.1 xs h'
            -- x < xs ~ y < ys ~ x
            have l3 : Key.cmpK x.1 y.1 = .lt := by
              rw [← L.congr_right (a := x.1) (b := xs.1) (c := y.1) trivial trivial trivial hm'.1]; exact l2
            have l4 := L.lt_trans trivial trivial trivial l3 l1
            rw [hm.1] at l4; cases l4
      refine List.Forall₂.cons hxy (ih B' sa.2 sb.2 ?_ ?_)
      · intro e he
        obtain ⟨e', he', hm⟩ := fw e (by simp [he])
        rcases List.mem_cons.1 he' with h | h
        · exfalso
          subst h
          have l1 : Key.cmpK x.1 e.1 = .lt := sa.1 e he
          have l2 : Key.cmpK x.1 e'.1 = .eq := hxy.1
          rw [L.congr_right (a := x.1) (b := e.1) (c := e'.1) trivial trivial trivial hm.1, l2] at l1
          cases l1
        · exact ⟨e', h, hm⟩
      · intro e' he'
        obtain ⟨e, he, hm⟩ := bw e' (by simp [he'])
        rcases List.mem_cons.1 he with h | h
        · exfalso
          subst h
          have l1 : Key.cmpK y.1 e'.1 = .lt := sb.1 e' he'
          have l2 : Key.cmpK e.1 y.1 = .eq := hxy.1
          rw [← L.congr_left (a := e.1) (b := y.1) (c := e'.1) trivial trivial trivial l2, hm.1] at l1
          cases l1
        · exact ⟨e, h, hm⟩

theorem forall₂_mem_left {α β : Type} {P : α → β → Prop} {l1 : List α} {l2 : List β}
    (h : List.Forall₂ P l1 l2) : ∀ x ∈ l1, ∃ y ∈ l2, P x y := by
  induction h with
  | nil => intro x hx; cases hx
  | cons hab _ ih =>
    intro x hx
    rcases List.mem_cons.1 hx with rfl | hx
    · exact ⟨_, by simp, hab⟩
    · obtain ⟨y, hy, hp⟩ := ih x hx; exact ⟨y, by simp [hy], hp⟩

end matching

/-- sorting a duplicate-free entry list by key gives a strictly increasing list -/
theorem sortEntries_keySorted (es : List (Key × Value)) (nd : NoDupKeys es) :
    KeySorted (sortEntriesK es) := by
  have L : OrdLaws (fun _ : Key × Value => True) (fun x y => Key.cmpK x.1 y.1) :=
    Key.cmp_laws.comap (fun e : Key × Value => e.1)
  have s := sortBy_sorted L es (fun _ _ => trivial)
  have nd' : NoDupKeys (sortEntriesK es) := nd.perm (sortBy_perm _ es).symm
  rw [noDupKeys_iff_pairwise] at nd'
  unfold KeySorted
  unfold Sorted at s
  have := s.and nd'
  refine this.imp ?_
  intro a b ⟨h1, h2⟩
  have h3 := Key.cmp_eq_false_of_eq_false h2
  cases hc : Key.cmpK a.1 b.1 <;> simp_all

theorem entryCmp_eq_iff (e e' : Key × Value) :
    entryCmp e e' = .eq ↔ EMatch (fun v w => Value.cmp v w = .eq) e e' := by
  simp only [entryCmp, EMatch]
  cases Key.cmpK e.1 e'.1 <;> simp

namespace Value

theorem eqEntries_iff (a b : List (Key × Value)) :
    eqEntries a b = true ↔ ∀ e ∈ a, ∃ v2, Map.get e.1.toRepr b = some v2 ∧ eqV e.2 v2 = true := by
  induction a with
  | nil => simp [eqEntries]
  | cons x xs ih =>
    obtain ⟨k, v⟩ := x
    simp only [eqEntries, Bool.and_eq_true, ih, List.mem_cons, forall_eq_or_imp]
    cases Map.get k.toRepr b <;> simp

theorem eqList_iff (xs ys : List Value) :
    eqList xs ys = true ↔ List.Forall₂ (fun x y => eqV x y = true) xs ys := by
  induction xs generalizing ys with
  | nil =>
    cases ys with
    | nil => simp [eqList]
    | cons y ys => simp only [eqList]; constructor <;> intro h <;> cases h
  | cons x xs ih =>
    cases ys with
    | nil => simp only [eqList]; constructor <;> intro h <;> cases h
    | cons y ys => simp [eqList, ih]

/-- the map case, given the claim for the values stored in the left map -/
theorem map_cmp_eq_iff (a b : List (Key × Value)) (na : NoDupKeys a) (nb : NoDupKeys b)
    (ih : ∀ e ∈ a, ∀ e' ∈ b, Value.cmp e.2 e'.2 = .eq ↔ eqV e.2 e'.2 = true) :
    lexCmp entryCmp (sortEntriesK a) (sortEntriesK b) = .eq ↔
      (a.length == b.length && eqEntries a b) = true := by
  have memA : ∀ e, e ∈ sortEntriesK a ↔ e ∈ a := fun e => mem_sortBy' _ e a
  have memB : ∀ e, e ∈ sortEntriesK b ↔ e ∈ b := fun e => mem_sortBy' _ e b
  rw [lexCmp_eq_iff]
  simp only [entryCmp_eq_iff, Bool.and_eq_true, beq_iff_eq, eqEntries_iff]
  constructor
  · intro h
    refine ⟨?_, ?_⟩
    · have := h.length_eq
      unfold sortEntriesK at this
      rwa [length_sortBy, length_sortBy] at this
    · intro e he
      obtain ⟨e', he', hk, hv⟩ := forall₂_mem_left h e ((memA e).2 he)
      have he'b : e' ∈ b := (memB e').1 he'
      refine ⟨e'.2, ?_, (ih e he e' he'b).1 hv⟩
      have : KeyRepr.eq e'.1.toRepr e.1.toRepr = true :=
        KeyRepr.eq_symm ((Key.cmp_eq_iff e.1 e'.1).1 hk)
      exact Map.get_of_mem nb (k := e'.1) (v := e'.2) he'b this
  · intro ⟨hl, hfw⟩
    have fw : ∀ e ∈ a, ∃ e' ∈ b, EMatch (fun v w => Value.cmp v w = .eq) e e' := by
      intro e he
      obtain ⟨v2, hg, hv⟩ := hfw e he
      obtain ⟨k, hm, hk⟩ := Map.get_some_mem hg
      refine ⟨(k, v2), hm, ?_, (ih e he (k, v2) hm).2 hv⟩
      exact (Key.cmp_eq_iff e.1 k).2 (KeyRepr.eq_symm hk)
    have bw := match_onto a b na nb hl fw
    apply sorted_match _ _ (sortEntries_keySorted a na) (sortEntries_keySorted b nb)
    · intro e he
      obtain ⟨e', he', hm⟩ := fw e ((memA e).1 he)
      exact ⟨e', (memB e').2 he', hm⟩
    · intro e' he'
      obtain ⟨e, he, hm⟩ := bw e' ((memB e').1 he')
      exact ⟨e, (memA e).2 he, hm⟩

/-- the array case, given the claim for the elements of the left array -/
theorem arr_cmp_eq_iff (xs ys : List Value)
    (ih : ∀ x ∈ xs, ∀ w ∈ ys, Value.cmp x w = .eq ↔ eqV x w = true) :
    lexCmp Value.cmp xs ys = .eq ↔ eqList xs ys = true := by
  induction xs generalizing ys with
  | nil => cases ys <;> simp [lexCmp, eqList]
  | cons x xs ihx =>
    cases ys with
    | nil => simp [lexCmp, eqList]
    | cons y ys =>
      have hx := ih x (by simp) y (by simp)
      have ht := ihx ys (fun z hz w hw => ih z (by simp [hz]) w (by simp [hw]))
      simp only [lexCmp, eqList, Bool.and_eq_true]
      cases hc : Value.cmp x y with
      | eq => simp [← hx, hc, ht]
      | lt => simp [← hx, hc]
      | gt => simp [← hx, hc]

/-- **`cmp = Equal ⇔ ==`** on all well-formed values. -/
theorem cmp_eq_iff_eqV_n (n : Nat) : ∀ a b : Value, a.WF → b.WF → a.size < n →
    (Value.cmp a b = .eq ↔ eqV a b = true) := by
  induction n with
  | zero => intro a b _ _ h; exact absurd h (Nat.not_lt_zero _)
  | succ n ih =>
    intro a b wa wb hs
    by_cases hr : a.typeOrder = b.typeOrder
    · -- same kind
      by_cases hB : a.typeOrder = Gen.valueRankBool
      · obtain ⟨x, rfl⟩ := inv_bool hB
        obtain ⟨y, rfl⟩ := inv_bool (hr ▸ hB)
        rw [cmp_bool, cmpBool_eq]; simp [eqV]
      by_cases hN : a.typeOrder = Gen.valueRankU64
      · have na := inv_num hN
        have nb := inv_num (hr ▸ hN)
        rw [cmp_num wa wb na nb, eqV_num wa wb na nb]; simp
      by_cases hS : a.typeOrder = Gen.valueRankString
      · obtain ⟨s1, x, rfl⟩ := inv_str hS
        obtain ⟨s2, y, rfl⟩ := inv_str (hr ▸ hS)
        rw [cmp_str, cmpStr_eq]; simp [eqV]
      by_cases hY : a.typeOrder = Gen.valueRankBytes
      · obtain ⟨x, rfl⟩ := inv_bytes hY
        obtain ⟨y, rfl⟩ := inv_bytes (hr ▸ hY)
        rw [cmp_bytes, cmpBytes_eq]; simp [eqV]
      by_cases hA : a.typeOrder = Gen.valueRankArray
      · obtain ⟨xs, rfl⟩ := inv_arr hA
        obtain ⟨ys, rfl⟩ := inv_arr (hr ▸ hA)
        rw [cmp_arr]
        simp only [eqV]
        apply arr_cmp_eq_iff
        intro x hx w hw
        exact ih x w (wa.arr_mem x hx) (wb.arr_mem w hw) (by have := size_lt_of_mem hx; omega)
      by_cases hM : a.typeOrder = Gen.valueRankMap
      · obtain ⟨x, rfl⟩ := inv_map hM
        obtain ⟨y, rfl⟩ := inv_map (hr ▸ hM)
        rw [cmp_map]
        simp only [eqV]
        apply map_cmp_eq_iff x y wa.map_nodup wb.map_nodup
        intro e he e' he'
        exact ih e.2 e'.2 (wa.map_mem e he) (wb.map_mem e' he')
          (by have := size_lt_of_mem_entries he; omega)
      rcases inv_rest hB hN hS hY hA hM with rfl | rfl
      · rcases inv_rest (hr ▸ hB) (hr ▸ hN) (hr ▸ hS) (hr ▸ hY) (hr ▸ hA) (hr ▸ hM) with rfl | rfl
        · simp [cmp_none, eqV]
        · exact absurd hr none_undef_rank
      · rcases inv_rest (hr ▸ hB) (hr ▸ hN) (hr ▸ hS) (hr ▸ hY) (hr ▸ hA) (hr ▸ hM) with rfl | rfl
        · exact absurd hr.symm none_undef_rank
        · simp [cmp_undef, eqV]
    · rw [cmp_cross a b hr, eqV_cross a b hr]
      simp [cmpNat_eq, hr]

theorem cmp_eq_iff_eqV (a b : Value) (wa : a.WF) (wb : b.WF) :
    Value.cmp a b = .eq ↔ eqV a b = true :=
  cmp_eq_iff_eqV_n (a.size + 1) a b wa wb (by omega)

/-! ### `==` is an equivalence relation (from the order laws and `cmp = Equal ⇔ ==`) -/

theorem eqV_refl (a : Value) (wa : a.WF) : eqV a a = true :=
  (cmp_eq_iff_eqV a a wa wa).1 (cmp_laws.refl wa)

theorem eqV_symm {a b : Value} (wa : a.WF) (wb : b.WF) (h : eqV a b = true) : eqV b a = true :=
  (cmp_eq_iff_eqV b a wb wa).1 (cmp_laws.eq_symm wa wb ((cmp_eq_iff_eqV a b wa wb).2 h))

theorem eqV_trans {a b c : Value} (wa : a.WF) (wb : b.WF) (wc : c.WF) (h1 : eqV a b = true)
    (h2 : eqV b c = true) : eqV a c = true :=
  (cmp_eq_iff_eqV a c wa wc).1 (cmp_laws.eq_trans wa wb wc ((cmp_eq_iff_eqV a b wa wb).2 h1)
    ((cmp_eq_iff_eqV b c wb wc).2 h2))

end Value
end Tera
