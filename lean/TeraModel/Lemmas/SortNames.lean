/-
`sortDedup` (the model of `names.sort()` on a key set) returns the strictly increasing list of the
members, so it depends only on the set of members.
-/
import TeraModel.Lemmas.Lineage
import Mathlib.Data.String.Basic
namespace Tera.Reg

theorem insertSorted_sorted (x : String) (l : List String) (h : l.Pairwise (· < ·)) :
    (insertSorted x l).Pairwise (· < ·) := by
  induction l with
  | nil => simp [insertSorted]
  | cons y ys ih =>
    unfold insertSorted
    obtain ⟨hy, hys⟩ := List.pairwise_cons.mp h
    by_cases h1 : x < y
    · simp only [h1, if_true]
      refine List.pairwise_cons.mpr ⟨?_, h⟩
      intro z hz
      rcases List.mem_cons.mp hz with e | e
      · rw [e]; exact h1
      · exact lt_trans h1 (hy z e)
    · by_cases h2 : x = y
      · subst h2
        simp only [lt_irrefl, if_false, if_true]; exact h
      · simp only [h1, if_false, h2]
        refine List.pairwise_cons.mpr ⟨?_, ih hys⟩
        intro z hz
        rcases (mem_insertSorted x z ys).mp hz with e | e
        · rw [e]
          rcases lt_trichotomy x y with a | a | a
          · exact absurd a h1
          · exact absurd a h2
          · exact a
        · exact hy z e

theorem sortDedup_sorted (l : List String) : (sortDedup l).Pairwise (· < ·) := by
  induction l with
  | nil => simp [sortDedup]
  | cons y ys ih => exact insertSorted_sorted y _ ih

theorem sorted_ext : ∀ (l₁ l₂ : List String), l₁.Pairwise (· < ·) → l₂.Pairwise (· < ·) →
    (∀ x, x ∈ l₁ ↔ x ∈ l₂) → l₁ = l₂ := by
  intro l₁
  induction l₁ with
  | nil =>
    intro l₂ _ _ h
    cases l₂ with
    | nil => rfl
    | cons b l₂ => exact absurd ((h b).mpr (by simp)) (by simp)
  | cons a l₁ ih =>
    intro l₂ h1 h2 h
    cases l₂ with
    | nil => exact absurd ((h a).mp (by simp)) (by simp)
    | cons b l₂ =>
      obtain ⟨ha, h1'⟩ := List.pairwise_cons.mp h1
      obtain ⟨hb, h2'⟩ := List.pairwise_cons.mp h2
      have hab : a = b := by
        rcases List.mem_cons.mp ((h a).mp (by simp)) with e | e
        · exact e
        · rcases List.mem_cons.mp ((h b).mpr (by simp)) with e' | e'
          · exact e'.symm
          · exact absurd (lt_trans (ha b e') (hb a e)) (lt_irrefl a)
      subst hab
      congr 1
      apply ih l₂ h1' h2'
      intro x
      constructor
      · intro hx
        rcases List.mem_cons.mp ((h x).mp (by simp [hx])) with e | e
        · exact absurd (e ▸ ha x hx) (lt_irrefl a)
        · exact e
      · intro hx
        rcases List.mem_cons.mp ((h x).mpr (by simp [hx])) with e | e
        · exact absurd (e ▸ hb x hx) (lt_irrefl a)
        · exact e

/-- the sorted key list depends only on which names are keys -/
theorem sortDedup_congr (l₁ l₂ : List String) (h : ∀ x, x ∈ l₁ ↔ x ∈ l₂) :
    sortDedup l₁ = sortDedup l₂ :=
  sorted_ext _ _ (sortDedup_sorted l₁) (sortDedup_sorted l₂)
    (fun x => by rw [mem_sortDedup, mem_sortDedup]; exact h x)

end Tera.Reg
