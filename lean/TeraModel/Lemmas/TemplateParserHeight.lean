/-
Witness families for known finding F1: inputs of length O(n) that the parser accepts with an AST
of height ≥ n — neither the operator / postfix / filter chains nor the `elif` chain pass through
the depth counter.
-/
import TeraModel.Props.C02
import TeraModel.Lemmas.AstHeight
import TeraModel.Lemmas.AstCounted
import TeraModel.Lemmas.TemplateParserTotal
namespace Tera.TParser
open Tera Tera.Parser Tera.Spec
set_option linter.unusedSimpArgs false

theorem tpure_apply {α} (a : α) (s : TState) : (Pure.pure a : T α) s = .ok a s := rfl

/-- a template that consists of one `{{ e }}` block -/
theorem parse_single_expr (r : Nat) (w w2 : Bool) (toks : List Tok) (e : Expr)
    (hp : innerParseExpression (cfgOf false) r 0 ⟨toks ++ [.variableEnd w2], 0, 0⟩
      = .ok e ⟨[.variableEnd w2], 0, 0⟩) :
    parse (r + 1) (.variableStart w :: (toks ++ [.variableEnd w2]))
      = .ok ⟨none, [.expression e], []⟩ ⟨⟨[], 0, 0⟩, [], [], [], none, []⟩ := by
  simp [parse, parseUntil, tbind_def, T.bind_apply, TParser.lift, Parser.loopFuel, untilLoop,
    TParser.expr, isInLoop, hp, expectVariableEnd, P.bind_apply, nextOrError, tpure_apply]

/-- `1 + 1 + … + 1` with `n` additions, as a surface tree -/
def plusChain : Nat → S
  | 0 => .int 1
  | n+1 => .binary .Plus (plusChain n) (.int 1)

theorem plusChain_docwp (n : Nat) :
    (plusChain n).DocWP docLevels ∧ docLevels.bin .Plus ≤ (plusChain n).lvl docLevels := by
  have h1 : docLevels.bin .Plus ≤ docLevels.post := by decide +kernel
  have h2 : docLevels.bin .Plus + 1 ≤ docLevels.post := by decide +kernel
  induction n with
  | zero => exact ⟨trivial, by simpa [plusChain, S.lvl] using h1⟩
  | succ n ih =>
    refine ⟨?_, by simp [plusChain, S.lvl]⟩
    refine ⟨by decide, by decide, ih.1, trivial, ?_, by simp⟩
    have : rightAssoc .Plus = false := by decide
    simp only [this, Bool.false_eq_true, if_false]
    exact ⟨ih.2, by simpa [S.lvl] using h2⟩

theorem plusChain_measures (n : Nat) :
    (plusChain n).need ≤ 2 ∧ (plusChain n).bneed = 0 ∧ (plusChain n).adneed = 0
      ∧ (plusChain n).erase.height = n + 1 ∧ (plusChain n).toks.length = 2 * n + 1 := by
  induction n with
  | zero => simp [plusChain, S.need, S.bneed, S.adneed, S.erase, S.toks, Expr.height]
  | succ n ih =>
    obtain ⟨h1, h2, h3, h4, h5⟩ := ih
    simp [plusChain, S.need, S.bneed, S.adneed, S.erase, S.toks, Expr.height, h2, h3, h4, h5,
      opTok]
    omega

theorem plusChain_cd (n : Nat) : (plusChain n).erase.cd ≤ 2 := by
  induction n with
  | zero => simp [plusChain, S.erase, Expr.cd]
  | succ n ih => simp only [plusChain, S.erase, Expr.cd]; omega

/-- in-tag tokens: what a surface expression consists of -/
def InTag (t : Tok) : Prop :=
  t ≠ .error ∧ (∀ c, t ≠ .content c) ∧ (∀ w, t ≠ .variableStart w) ∧ (∀ w, t ≠ .tagStart w)
    ∧ (∀ w, t ≠ .variableEnd w) ∧ (∀ w, t ≠ .tagEnd w)

theorem shaped_intag_append (st : LexSt) (hst : st ≠ .tpl) (l rest : List Tok)
    (hl : ∀ t ∈ l, InTag t) (hr : shaped st rest = true) : shaped st (l ++ rest) = true := by
  induction l with
  | nil => simpa using hr
  | cons t tl ih =>
    have ht := hl t (by simp)
    have htl := ih (fun u hu => hl u (by simp [hu]))
    obtain ⟨h1, h2, h3, h4, h5, h6⟩ := ht
    cases t <;> simp_all [shaped]

theorem plusChain_intag (n : Nat) : ∀ t ∈ (plusChain n).toks, InTag t := by
  induction n with
  | zero => intro t ht; simp [plusChain, S.toks] at ht; subst ht; simp [InTag]
  | succ n ih =>
    intro t ht
    simp only [plusChain, S.toks, opTok, List.mem_append, List.mem_cons, List.mem_nil_iff,
      or_false] at ht
    rcases ht with h | rfl | rfl
    · exact ih t h
    · simp [InTag]
    · simp [InTag]

/-- **F1, operator chains**: `{{ 1 + 1 + … + 1 }}` with `n` additions (2n + 3 tokens) is accepted
and its AST has height n + 2: the loop of `parse_expr_bp` builds the left spine without passing
through `inner_parse_expression`. -/
theorem plus_chain_accepted (n : Nat) :
    ∃ toks t st, toks.length = 2 * n + 3 ∧ shaped .tpl toks = true
      ∧ parse Gen.MAX_RECURSION_DEPTH toks = .ok t st ∧ n + 2 ≤ Node.heightList t.nodes
      ∧ Node.cdList t.nodes ≤ 2 := by
  obtain ⟨hneed, hb, ha, hh, hlen⟩ := plusChain_measures n
  have hp := C02.C02_parse_print_any_table docLevels (genCfg false) C02.bp_table_matches_doc.1
    (plusChain n) (plusChain_docwp n).1 Gen.MAX_RECURSION_DEPTH 1
    (by have : Gen.MAX_RECURSION_DEPTH = 40 := rfl; omega) (by rw [hb]; decide) (by rw [ha]; decide)
    [.variableEnd false]
    (by intro t ht; simp at ht; subst ht; exact ⟨by decide, by simp [chainTok], by simp⟩)
  have hps := parse_single_expr 39 false false _ _ hp
  change parse Gen.MAX_RECURSION_DEPTH _ = _ at hps
  refine ⟨.variableStart false :: ((plusChain n).toks ++ [.variableEnd false]), _, _, ?_, ?_,
    hps, ?_, ?_⟩
  · simp [hlen]
  · simp only [shaped, beq_self_eq_true, Bool.true_and]
    exact shaped_intag_append .var (by decide) _ _ (plusChain_intag n) (by simp [shaped])
  · simp [Node.heightList, Node.height, hh]; omega
  · have := plusChain_cd n
    simp only [Node.cdList, Node.cd]; omega

/-! ### the `elif` chain -/

/-- the condition `a` followed by `%}` at any level with room for one expression -/
theorem cond_a (il : Bool) (r : Nat) (w : Bool) (rest : List Tok) :
    innerParseExpression (cfgOf il) (r + 1) 0 ⟨.ident "a" :: .tagEnd w :: rest, 0, 0⟩
      = .ok (.var "a") ⟨.tagEnd w :: rest, 0, 0⟩ := by
  have hcl : classify (.tagEnd w) = .other := by cases w <;> decide
  have := complete (parse_loop (cfgOf il) (.var "a") (r + 1) 0 (.tagEnd w :: rest) 0 0
    (by simp [WP]) trivial (by simp [follow, chainTok]) (by simp [S.need])
    ⟨by simp [S.bneed], by simp [S.adneed]⟩) (by simp [stopsTok, hcl])
  simpa [S.toks, S.erase] using this

/-- a body that is empty: `{%` followed by its end token -/
theorem body_stop (r : Nat) (ec : EndCheck) (w : Bool) (t : Tok) (rest : List Tok)
    (ctx : List BodyContext) (b c : List String) (p : Option String) (d : List ComponentDefinition)
    (ht : ec.test t = true) (hne : t ≠ .error) :
    parseUntil (r + 1) ec ⟨⟨.tagStart w :: t :: rest, 0, 0⟩, ctx, b, c, p, d⟩
      = .ok [] ⟨⟨t :: rest, 0, 0⟩, ctx, b, c, p, d⟩ := by
  cases t <;> simp_all [parseUntil, tbind_def, T.bind_apply, TParser.lift, Parser.loopFuel, untilLoop]

/-- what follows `{% if a` / `{% elif a`: `%}` then `n` more `elif`s, then `{% endif %}` -/
def afterCond : Nat → List Tok
  | 0 => [.tagEnd false, .tagStart false, .ident "endif", .tagEnd false]
  | n+1 => .tagEnd false :: .tagStart false :: .ident "elif" :: .ident "a" :: afterCond n

/-- the false bodies: `n` nested `If` nodes -/
def elifNest : Nat → List Node
  | 0 => []
  | n+1 => [.if (.var "a") [] (elifNest n)]

theorem afterCond_length (n : Nat) : (afterCond n).length = 4 * n + 4 := by
  induction n with
  | zero => rfl
  | succ n ih => simp [afterCond, ih]; omega

theorem elifNest_cd (n : Nat) : Node.cdElse (elifNest n) ≤ 2 := by
  induction n with
  | zero => simp [elifNest, Node.cdElse, Node.cdList]
  | succ n ih => simp only [elifNest, Node.cdElse, Expr.cd, Node.cdList]; omega

theorem elifNest_height (n : Nat) : n ≤ Node.heightList (elifNest n) := by
  induction n with
  | zero => exact Nat.zero_le _
  | succ n ih =>
    simp only [elifNest, Node.heightList, Node.height, Expr.height]
    omega

/-- `parse_if` on the chain: it recurses on itself `n` times WITHOUT passing through
`parse_until`, i.e. without touching the depth counter -/
theorem parseIf_chain (r : Nat) : ∀ (n fuel : Nat) (ctx : List BodyContext) (b c : List String)
    (p : Option String) (d : List ComponentDefinition), n + 1 ≤ fuel →
    parseIf (parseUntil (r + 1)) (fun il => innerParseExpression (cfgOf il) (r + 1)) fuel
        ⟨⟨.ident "a" :: afterCond n, 0, 0⟩, ctx, b, c, p, d⟩
      = .ok (.var "a", [], elifNest n) ⟨⟨[.ident "endif", .tagEnd false], 0, 0⟩, ctx, b, c, p, d⟩ := by
  intro n
  induction n with
  | zero =>
    intro fuel ctx b c p d hf
    obtain ⟨f, rfl⟩ : ∃ f, fuel = f + 1 := ⟨fuel - 1, by omega⟩
    have hb := body_stop r .endifElseElif false (.ident "endif") [.tagEnd false] (ctx ++ [.If]) b c p d
      (by decide) (by decide)
    simp [parseIf, afterCond, elifNest, tbind_def, T.bind_apply, pushCtx, popCtx, modify, TParser.expr,
      TParser.lift, cond_a, expectTagEnd, P.bind_apply, nextOrError, hb, peekOk, tpure_apply]
  | succ n ih =>
    intro fuel ctx b c p d hf
    obtain ⟨f, rfl⟩ : ∃ f, fuel = f + 1 := ⟨fuel - 1, by omega⟩
    have hrec := ih f (ctx ++ [.If]) b c p d (by omega)
    have hb := body_stop r .endifElseElif false (.ident "elif") (.ident "a" :: afterCond n)
      (ctx ++ [.If]) b c p d (by decide) (by decide)
    simp [parseIf, afterCond, elifNest, tbind_def, T.bind_apply, pushCtx, popCtx, modify, TParser.expr,
      TParser.lift, cond_a, expectTagEnd, P.bind_apply, nextOrError, hb, peekOk, tpure_apply, hrec]

/-- the whole template `{% if a %}{% elif a %}ⁿ{% endif %}` -/
def elifToks (n : Nat) : List Tok := .tagStart false :: .ident "if" :: .ident "a" :: afterCond n

theorem parseUntil_succ (r : Nat) (ec : EndCheck) (s : TState) :
    parseUntil (r + 1) ec s
      = ((TParser.lift Parser.loopFuel).bind fun n =>
          untilLoop cfgOf (parseUntil r) (fun il => innerParseExpression (cfgOf il) r) ec n []) s := rfl

theorem elif_chain_parse (r n : Nat) :
    parse (r + 2) (elifToks n)
      = .ok ⟨none, [.if (.var "a") [] (elifNest n)], []⟩ ⟨⟨[], 0, 0⟩, [], [], [], none, []⟩ := by
  have hc := parseIf_chain r n ((afterCond n).length + 1 + 1) [] [] [] none []
    (by rw [afterCond_length]; omega)
  unfold parse
  simp only []
  rw [parseUntil_succ (r + 1)]
  simp [elifToks, tbind_def, T.bind_apply, TParser.lift, Parser.loopFuel, untilLoop,
    parseTag, nextOrError, P.bind_apply, tpure_apply, EndCheck.test, hc, Parser.expect, expectTagEnd]

theorem elifToks_shaped (n : Nat) : shaped .tpl (elifToks n) = true := by
  have : ∀ n, shaped .tag (afterCond n) = true := by
    intro n
    induction n with
    | zero => decide
    | succ n ih => simpa [afterCond, shaped] using ih
  simpa [elifToks, shaped] using this n

/-- F1, second family: `n` `elif`s are accepted at the default limit, the tree is `n + 1` high -/
theorem elif_chain_accepted (n : Nat) :
    ∃ toks t st, toks.length = 4 * n + 7 ∧ shaped .tpl toks = true
      ∧ parse Gen.MAX_RECURSION_DEPTH toks = .ok t st ∧ n + 1 ≤ Node.heightList t.nodes
      ∧ Node.cdList t.nodes ≤ 2 := by
  have hp := elif_chain_parse 38 n
  change parse Gen.MAX_RECURSION_DEPTH _ = _ at hp
  refine ⟨elifToks n, _, _, ?_, elifToks_shaped n, hp, ?_, ?_⟩
  · simp [elifToks, afterCond_length]
  · have := elifNest_height n
    simp only [Node.heightList, Node.height, Expr.height]
    omega
  · have := elifNest_cd n
    simp only [Node.cdList, Node.cd, Expr.cd]
    omega

end Tera.TParser
