/-
What an accepting `finalize_templates` (`derive`) has checked about references
(Model/Finalize.lean, Model/FinalizeRefs.lean).
-/
import TeraModel.Model.FinalizeRefs
import TeraModel.Lemmas.AcceptCongr
namespace Tera.Reg

/-! ### reference validation of one template -/

theorem hasRefErrors_false {ps : List String} {S : List Tpl} {comps : CompSources} {t : Tpl}
    (h : hasRefErrors ps S comps t = false) :
    t.badRefs = false ∧ (∀ c ∈ t.compCalls, (compLookup comps c).isSome = true) ∧
      ∀ n ∈ t.includeCalls, ∃ r, resolve ps S n = some r := by
  unfold hasRefErrors at h
  simp only [Bool.or_eq_false_iff] at h
  obtain ⟨⟨h1, h2⟩, h3⟩ := h
  refine ⟨h1, ?_, ?_⟩
  · intro c hc
    have := List.any_eq_false.mp h2 c hc
    cases hl : compLookup comps c with
    | none => simp [hl] at this
    | some x => rfl
  · intro n hn
    have := List.any_eq_false.mp h3 n hn
    cases hr : resolve ps S n with
    | none => simp [hr] at this
    | some r => exact ⟨r, rfl⟩

theorem hasRefErrors_true_iff {ps : List String} {S : List Tpl} {comps : CompSources} {t : Tpl} :
    hasRefErrors ps S comps t = true ↔
      t.badRefs = true ∨ (∃ c ∈ t.compCalls, compLookup comps c = none) ∨
        ∃ n ∈ t.includeCalls, resolve ps S n = none := by
  unfold hasRefErrors
  simp only [Bool.or_eq_true, List.any_eq_true, Option.isNone_iff_eq_none]
  constructor
  · rintro ((h | h) | h)
    · exact .inl h
    · exact .inr (.inl h)
    · exact .inr (.inr h)
  · rintro (h | h | h)
    · exact .inl (.inl h)
    · exact .inl (.inr h)
    · exact .inr h

/-! ### the component table only names current definitions -/

/-- every entry of the table names a template among `names` that is registered and defines it -/
def CompsSound (S : List Tpl) (cs : CompSources) : Prop :=
  ∀ c v, compLookup cs c = some v → ∃ t, get S v.1 = some t ∧ c ∈ t.comps.map (·.name)

theorem compLookup_compInsert (cs : CompSources) (c : String) (v : String × Nat) (c' : String) :
    compLookup (compInsert cs c v) c' = if c = c' then some v else compLookup cs c' := by
  unfold compInsert compLookup
  by_cases h : c = c'
  · simp [List.find?, h]
  · have h1 : (c == c') = false := by simpa using h
    simp only [List.find?, h1, h, if_false]
    congr 1
    induction cs with
    | nil => rfl
    | cons e cs ih =>
      by_cases he : e.1 = c
      · have : (e.1 == c) = true := by simpa using he
        have h2 : (e.1 == c') = false := by
          have : ¬ e.1 = c' := fun x => h (he ▸ x)
          simpa using this
        simp only [List.filter, this, Bool.not_true, List.find?, h2]
        exact ih
      · have : (e.1 == c) = false := by simpa using he
        simp only [List.filter, this, Bool.not_false, List.find?]
        by_cases h3 : e.1 = c'
        · simp [h3]
        · have : (e.1 == c') = false := by simpa using h3
          simp only [this]
          exact ih

theorem compStep_sound {S : List Tpl} {t : Tpl} (ht : get S t.name = some t) {prio : Nat}
    {cs cs' : CompSources} {c : String} (hc : c ∈ t.comps.map (·.name))
    (hs : CompsSound S cs) (h : compStep t.name prio cs c = .ok cs') : CompsSound S cs' := by
  unfold compStep at h
  have ins : CompsSound S (compInsert cs c (t.name, prio)) := by
    intro c' v hv
    rw [compLookup_compInsert] at hv
    by_cases hcc : c = c'
    · simp only [hcc, if_true, Option.some.injEq] at hv
      subst hv; subst hcc
      exact ⟨t, ht, hc⟩
    · simp only [hcc, if_false] at hv
      exact hs c' v hv
  cases hl : compLookup cs c with
  | none => simp only [hl] at h; cases h; exact ins
  | some x =>
    obtain ⟨ex, exPrio⟩ := x
    simp only [hl] at h
    by_cases h1 : prio < exPrio
    · simp only [h1, if_true] at h; cases h; exact ins
    · simp only [h1, if_false] at h
      by_cases h2 : prio > exPrio
      · simp only [h2, if_true] at h; cases h; exact hs
      · simp [h2] at h

theorem compLoop_sound {S : List Tpl} {t : Tpl} (ht : get S t.name = some t) {prio : Nat} :
    ∀ (names : List String) (cs cs' : CompSources), (∀ c ∈ names, c ∈ t.comps.map (·.name)) →
      CompsSound S cs → compLoop t.name prio cs names = .ok cs' → CompsSound S cs' := by
  intro names
  induction names with
  | nil => intro cs cs' _ hs h; simp only [compLoop] at h; cases h; exact hs
  | cons c rest ih =>
    intro cs cs' hsub hs h
    unfold compLoop at h
    cases hstep : compStep t.name prio cs c with
    | error e => simp [hstep] at h
    | ok cs1 =>
      simp only [hstep] at h
      exact ih cs1 cs' (fun x hx => hsub x (by simp [hx]))
        (compStep_sound ht (hsub c (by simp)) hs hstep) h

theorem loop1_comps_sound (ps : List String) (S : List Tpl) :
    ∀ (names : List String) (acc l1 : Loop1), CompsSound S acc.comps →
      loop1 ps S acc names = .ok l1 → CompsSound S l1.comps := by
  intro names
  induction names with
  | nil => intro acc l1 hs h; simp only [loop1] at h; cases h; exact hs
  | cons n ns ih =>
    intro acc l1 hs h
    unfold loop1 at h
    cases hstep : loop1Step ps S acc n with
    | error e => simp [hstep] at h
    | ok a =>
      simp only [hstep] at h
      obtain ⟨t, p, comps, sz, hg, _, hl, _, ha⟩ := loop1Step_ok' hstep
      have hn := get_name hg
      have hs' : CompsSound S a.comps := by
        rw [ha]
        exact compLoop_sound (hn ▸ hg) _ _ _ (fun c hc => hc) hs hl
      exact ih a l1 hs' h

/-! ### blocks: everything a chain defines has a usable lineage -/

theorem mem_definers {S : List Tpl} {b : String} :
    ∀ (chain : List String) (n : String) (s : Bool), (n, s) ∈ definers S b chain →
      n ∈ chain ∧ definesBlock S n b = some s := by
  intro chain
  induction chain with
  | nil => intro n s h; simp [definers] at h
  | cons c rest ih =>
    intro n s h
    unfold definers at h
    cases hd : definesBlock S c b with
    | none =>
      simp only [hd] at h
      obtain ⟨h1, h2⟩ := ih n s h
      exact ⟨List.mem_cons_of_mem _ h1, h2⟩
    | some s' =>
      simp only [hd] at h
      rcases List.mem_cons.mp h with e | e
      · cases e; exact ⟨by simp, hd⟩
      · obtain ⟨h1, h2⟩ := ih n s e
        exact ⟨List.mem_cons_of_mem _ h1, h2⟩

theorem definers_ne_nil {S : List Tpl} {b : String} :
    ∀ (chain : List String) (n : String) (s : Bool), n ∈ chain → definesBlock S n b = some s →
      definers S b chain ≠ [] := by
  intro chain
  induction chain with
  | nil => intro n s h; cases h
  | cons c rest ih =>
    intro n s hn hd
    unfold definers
    cases hc : definesBlock S c b with
    | some s' => simp
    | none =>
      simp only
      rcases List.mem_cons.mp hn with e | e
      · rw [e, hc] at hd; cases hd
      · exact ih n s e hd

theorem mem_cutAfterNoSuper : ∀ (l : List (String × Bool)) (x : String),
    x ∈ cutAfterNoSuper l → ∃ s, (x, s) ∈ l := by
  intro l
  induction l with
  | nil => intro x h; simp [cutAfterNoSuper] at h
  | cons e l ih =>
    obtain ⟨n, s⟩ := e
    intro x h
    cases s with
    | true =>
      simp only [cutAfterNoSuper, List.mem_cons] at h
      rcases h with e | e
      · exact ⟨true, by simp [e]⟩
      · obtain ⟨s', hs'⟩ := ih x e
        exact ⟨s', List.mem_cons_of_mem _ hs'⟩
    | false =>
      simp only [cutAfterNoSuper, List.mem_singleton] at h
      exact ⟨false, by simp [h]⟩

theorem cutAfterNoSuper_ne_nil : ∀ (l : List (String × Bool)), l ≠ [] → cutAfterNoSuper l ≠ [] := by
  intro l h
  cases l with
  | nil => exact absurd rfl h
  | cons e l => obtain ⟨n, s⟩ := e; cases s <;> simp [cutAfterNoSuper]

/-- a block some template of the chain defines has a non-empty specified lineage whose members are
templates of the chain that define it -/
theorem lineageSpec_usable {S : List Tpl} {b : String} {chain : List String} {n : String} {s : Bool}
    (hn : n ∈ chain) (hd : definesBlock S n b = some s) :
    ∃ o l, lineageSpec S chain b = some (o :: l) ∧
      ∀ x ∈ o :: l, x ∈ chain ∧ (definesBlock S x b).isSome = true := by
  have hne := definers_ne_nil chain n s hn hd
  unfold lineageSpec
  cases hds : definers S b chain with
  | nil => exact absurd hds hne
  | cons e ds =>
    simp only
    have hc := cutAfterNoSuper_ne_nil (e :: ds) (by simp)
    cases hcut : cutAfterNoSuper (e :: ds) with
    | nil => exact absurd hcut hc
    | cons o l =>
      refine ⟨o, l, rfl, ?_⟩
      intro x hx
      rw [← hcut] at hx
      obtain ⟨s', hs'⟩ := mem_cutAfterNoSuper _ x hx
      rw [← hds] at hs'
      obtain ⟨h1, h2⟩ := mem_definers chain x s' hs'
      exact ⟨h1, by simp [h2]⟩

end Tera.Reg

namespace Tera.Reg

/-- `Tera.components.get(c)`: the template the stored table takes component `c` from -/
def compOwner (cs : List (String × String)) (c : String) : Option String :=
  (cs.find? (fun e => e.1 == c)).map (·.2)

theorem compOwner_map (cs : CompSources) (c : String) :
    compOwner (cs.map (fun e => (e.1, e.2.1))) c = (compLookup cs c).map (·.1) := by
  unfold compOwner compLookup
  induction cs with
  | nil => rfl
  | cons e cs ih =>
    by_cases h : e.1 = c
    · have : (e.1 == c) = true := by simpa using h
      simp [List.find?, this]
    · have : (e.1 == c) = false := by simpa using h
      simp only [List.map, List.find?, this]
      exact ih

theorem definesBlock_of_mem {S : List Tpl} {n : String} {t : Tpl} (hg : get S n = some t)
    {bd : BlockDef} (hb : bd ∈ t.blocks) : ∃ s, definesBlock S n bd.name = some s := by
  unfold definesBlock Tpl.findBlock
  simp only [hg]
  have : (t.blocks.find? (fun d => d.name == bd.name)).isSome = true := by
    rw [List.find?_isSome]
    exact ⟨bd, hb, by simp⟩
  obtain ⟨d', hd'⟩ := Option.isSome_iff_exists.mp this
  exact ⟨d'.callsSuper, by simp [hd']⟩

/-- **What an accepting `finalize_templates` has verified for a registered template.** -/
theorem derive_refs_valid (ps : List String) (S : List Tpl) (o2 o3 : List String) (d : Derived)
    (h : derive ps S o2 o3 = .ok d)
    (ho2 : ∀ k, has S k = true → k ∈ o2) (ho3 : ∀ k, has S k = true → k ∈ o3)
    (t : Tpl) (hT : get S t.name = some t) :
    t.badRefs = false ∧
    (∀ c ∈ t.compCalls, ∃ owner ot, compOwner d.comps c = some owner ∧ get S owner = some ot ∧
        c ∈ ot.comps.map (·.name)) ∧
    (∀ n ∈ t.includeCalls, ∃ r, resolve ps S n = some r ∧ has S r = true) ∧
    (∃ parents, lookupParents d.parents t.name = some parents ∧ (∀ p ∈ parents, has S p = true) ∧
      ∀ O ∈ chainOf t.name parents, ∀ ot, get S O = some ot → ∀ bd ∈ ot.blocks,
        ∃ o l, LB d.lineage t.name bd.name = some (o :: l) ∧
          ∀ x ∈ o :: l, x ∈ chainOf t.name parents ∧ (definesBlock S x bd.name).isSome = true) := by
  have hhas : has S t.name = true := has_iff_get.mpr ⟨t, hT⟩
  obtain ⟨l1, tb, tb', h1, h2, _, e1, _, _, e4⟩ := derive_parts h
  have hPO := parentsTable_of_loop1 h1
  obtain ⟨p, hp, hgood⟩ := goodChain_of_table hPO hhas
  have hflags : (hasRefErrors ps S l1.comps t || hasOrphanBlock S p t) = false := by
    cases hb : (hasRefErrors ps S l1.comps t || hasOrphanBlock S p t) with
    | false => rfl
    | true =>
      have := loop2_bad ps S l1 o2 tb false h2 t.name (ho2 _ hhas) t p hT hp hb
      cases this
  have hre : hasRefErrors ps S l1.comps t = false := by
    cases hx : hasRefErrors ps S l1.comps t with
    | false => rfl
    | true => simp [hx] at hflags
  obtain ⟨r1, r2, r3⟩ := hasRefErrors_false hre
  have hsound : CompsSound S l1.comps :=
    loop1_comps_sound ps S _ {} l1 (by intro c v hv; simp [compLookup] at hv) h1
  refine ⟨r1, ?_, ?_, ?_⟩
  · intro c hc
    obtain ⟨v, hv⟩ := Option.isSome_iff_exists.mp (r2 c hc)
    obtain ⟨ot, hot, hdef⟩ := hsound c v hv
    exact ⟨v.1, ot, by rw [e4, compOwner_map, hv]; rfl, hot, hdef⟩
  · intro n hn
    obtain ⟨r, hr⟩ := r3 n hn
    exact ⟨r, hr, resolve_has hr⟩
  · refine ⟨p, by rw [e1]; exact hp, ?_, ?_⟩
    · intro c hc
      exact GoodChain.all_has _ hgood c (by simp [chainOf, hc])
    · intro O hO ot hot bd hbd
      obtain ⟨s, hs⟩ := definesBlock_of_mem hot hbd
      obtain ⟨o, l, hl, hmem⟩ := lineageSpec_usable (S := S) (b := bd.name) hO hs
      obtain ⟨_, hLB⟩ := derive_lineage ps S o2 o3 d h ho2 ho3 t.name hhas bd.name
      refine ⟨o, l, ?_, hmem⟩
      rw [hLB]
      simp only [SpecL, e1, hp]
      exact hl

end Tera.Reg

namespace Tera.Reg

/-- the second loop never fails when every iteration finds its template, its parents and
registered ancestors; it only collects the error flag -/
theorem loop2_total (ps : List String) (S : List Tpl) (l1 : Loop1) :
    ∀ (o2 : List String),
      (∀ name ∈ o2, ∃ tpl parents m, get S name = some tpl ∧ lookupParents l1.parents name = some parents ∧
        ownBlocks ps S parents tpl tpl.blocks = .ok m) →
      ∃ tb bad, loop2 ps S l1 o2 = .ok (tb, bad) := by
  intro o2
  induction o2 with
  | nil => intro _; exact ⟨[], false, rfl⟩
  | cons name rest ih =>
    intro h
    obtain ⟨tpl, parents, m, hg, hp, ho⟩ := h name (by simp)
    obtain ⟨tb, bad, htb⟩ := ih (fun n hn => h n (by simp [hn]))
    refine ⟨(name, m) :: tb,
      ((hasRefErrors ps S l1.comps tpl || hasOrphanBlock S parents tpl) || bad), ?_⟩
    unfold loop2
    simp only [hg, hp, ho, htb]

/-- Once the first loop has succeeded (graphs and component table are fine), `finalize_templates`
either accepts or fails with the collected `Error::message`, and it accepts exactly when no
registered template has a reference error or an orphan block. -/
theorem derive_after_loop1 (ps : List String) (S : List Tpl) (o2 o3 : List String) (l1 : Loop1)
    (h1 : loop1 ps S {} (sortDedup (keys S)) = .ok l1)
    (ho2 : ∀ k, k ∈ o2 ↔ has S k = true) (ho3 : ∀ k, k ∈ o3 → has S k = true) :
    ((∃ d, derive ps S o2 o3 = .ok d) ∨ derive ps S o2 o3 = .error .msg) ∧
    ((∃ d, derive ps S o2 o3 = .ok d) ↔
      ∀ t p, get S t.name = some t → lookupParents l1.parents t.name = some p →
        (hasRefErrors ps S l1.comps t || hasOrphanBlock S p t) = false) := by
  have hPO := parentsTable_of_loop1 h1
  have hstep : ∀ name ∈ o2, ∃ tpl parents m, get S name = some tpl ∧
      lookupParents l1.parents name = some parents ∧ ownBlocks ps S parents tpl tpl.blocks = .ok m := by
    intro name hn
    have hk := (ho2 name).mp hn
    obtain ⟨p, hp, hgood⟩ := goodChain_of_table hPO hk
    obtain ⟨tpl, htpl⟩ := has_iff_get.mp hk
    have hreg : ∀ c ∈ p, has S c = true := fun c hc =>
      GoodChain.all_has _ hgood c (by simp [chainOf, hc])
    obtain ⟨m, hm, _⟩ := ownBlocks_ok ps S p tpl hreg tpl.blocks
    exact ⟨tpl, p, m, htpl, hp, hm⟩
  obtain ⟨tb, bad, htb⟩ := loop2_total ps S l1 o2 hstep
  obtain ⟨l2a, _⟩ := loop2_ok ps S l1 o2 tb bad htb
  have hp2 : ∀ name ∈ o3, (lookupParents l1.parents name).isSome = true ∧ (tbLookup tb name).isSome = true := by
    intro name hn
    have hk := ho3 name hn
    obtain ⟨p, hp, _⟩ := goodChain_of_table hPO hk
    obtain ⟨_, _, m, _, _, _, hm⟩ := l2a name ((ho2 name).mpr hk)
    exact ⟨by simp [hp], by simp [hm]⟩
  obtain ⟨tb2, htb2⟩ := pass2_succeeds l1.parents o3 tb hp2
  have hder : derive ps S o2 o3 =
      if bad then .error .msg
      else .ok (Derived.mk l1.parents l1.sizes tb2 (l1.comps.map (fun e => (e.1, e.2.1)))) := by
    unfold derive
    simp only [h1, htb, htb2]
  constructor
  · cases hb : bad with
    | true => right; rw [hder, hb]; rfl
    | false => left; exact ⟨_, by rw [hder, hb]; rfl⟩
  · constructor
    · rintro ⟨d, hd⟩ t p hT hp
      obtain ⟨l1', tb', _, h1', h2', _⟩ := derive_parts hd
      rw [h1] at h1'
      cases h1'
      cases hb : (hasRefErrors ps S l1.comps t || hasOrphanBlock S p t) with
      | false => rfl
      | true =>
        have hk : has S t.name = true := has_iff_get.mpr ⟨t, hT⟩
        have := loop2_bad ps S l1 o2 tb' false h2' t.name ((ho2 _).mpr hk) t p hT hp hb
        cases this
    · intro hall
      cases hb : bad with
      | false => exact ⟨_, by rw [hder, hb]; rfl⟩
      | true =>
        exfalso
        -- some iteration must have raised the flag
        have key : ∀ (names : List String) (tbx : TplBlocks) (b : Bool), loop2 ps S l1 names = .ok (tbx, b) →
            (∀ n ∈ names, has S n = true) → b = false := by
          intro names
          induction names with
          | nil => intro tbx b h _; simp only [loop2] at h; cases h; rfl
          | cons name rest ih =>
            intro tbx b h hreg
            unfold loop2 at h
            cases hg : get S name with
            | none => simp [hg] at h
            | some tpl =>
              cases hp : lookupParents l1.parents name with
              | none => simp [hg, hp] at h
              | some parents =>
                simp only [hg, hp] at h
                cases ho : ownBlocks ps S parents tpl tpl.blocks with
                | error e => simp [ho] at h
                | ok m =>
                  simp only [ho] at h
                  cases hr : loop2 ps S l1 rest with
                  | error e => simp [hr] at h
                  | ok r =>
                    obtain ⟨tb', bad'⟩ := r
                    simp only [hr] at h
                    cases h
                    have hn := get_name hg
                    have h0 := hall tpl parents (hn ▸ hg) (hn ▸ hp)
                    have h1 := ih tb' bad' hr (fun n hn => hreg n (by simp [hn]))
                    simp [h0, h1]
        have := key o2 tb bad htb (fun n hn => (ho2 n).mp hn)
        rw [hb] at this
        cases this

end Tera.Reg
