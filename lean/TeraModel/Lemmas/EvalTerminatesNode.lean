/-
Termination of the AST evaluator (Props/C11Eval.lean), part 2: statements.

* `for_term`: the loop of a `{% for %}` visits the finitely many remaining items of its loop: the
  body cannot change the loop stack it is given (`Tera.frame`, Lemmas/EvalFrame.lean), so the number
  of items left strictly decreases from one turn to the next;
* `node_term_aux`: every statement and statement list terminates, GIVEN that the bodies of the
  templates its `include` nodes name terminate (`Good`);
* `good_of_rank`: when the include relation of the environment is ACYCLIC — `IncludeRank env rk`: a
  rank on template names that strictly decreases along every `include` of an existing template —
  every template body terminates (induction on the rank).

`nodeIncludes` / `nodesIncludes`: the names of all `{% include %}` nodes of a statement tree (under
`for`, `if`, `filter` sections, `set` blocks and `block`s).
-/
import TeraModel.Lemmas.EvalTerminates
namespace Tera.C11Eval
open Tera Tera.Refine

mutual
/-- the template names of the `include` nodes of a statement, at any depth -/
def nodeIncludes : Node → List String
  | .include name => [name]
  | .blockSet _ _ body _ => nodesIncludes body
  | .forLoop _ _ _ body elseBody => nodesIncludes body ++ nodesIncludes elseBody
  | .if _ body falseBody => nodesIncludes body ++ nodesIncludes falseBody
  | .filterSection _ _ body => nodesIncludes body
  | .block _ body => nodesIncludes body
  | _ => []
def nodesIncludes : List Node → List String
  | [] => []
  | n :: rest => nodeIncludes n ++ nodesIncludes rest
end

variable (env : Env)

/-- statements / statement lists terminate from every state -/
def TN (n : Node) : Prop := ∀ ae st, Ev (fun G => NFu (execNode G env ae st n))
def TNs (ns : List Node) : Prop := ∀ ae st, Ev (fun G => NFu (execNodes G env ae st ns))

/-- the body of the template `m` (if there is one) terminates -/
def Good (m : String) : Prop := ∀ t, env.template m = some t → TNs env t.nodes

/-! ### set-block filters -/

theorem filters_term : ∀ (fs : List Expr) (sc : Scope) (v : Value),
    Ev (fun G => NFu (applyFilters G env sc fs v))
  | [], sc, v => by apply ev_succ; simp only [applyFilters]; nfu_leaf
  | f :: rest, sc, v0 => by
    apply ev_succ
    cases f
    case filter base name kwargs =>
      simp only [applyFilters]
      tcall conv_kw env (kwargs_term env kwargs sc) as kw
      cases hf : applyFilter env name v0 kw with
      | error e =>
        simp only
        exact Ev.all fun G => nfu_err_cast (hf ▸ nfu_applyFilter env name v0 kw)
      | ok v' =>
        simp only
        exact filters_term rest sc v'
    all_goals (simp only [applyFilters]; nfu_leaf)

/-! ### the loop of a `for` -/

theorem topRem_of_frame {sc sc' : Scope} (h : sc'.frame = sc.frame) : topRem sc' = topRem sc := by
  have h1 : sc'.forLoops.map ForLoop.strip = sc.forLoops.map ForLoop.strip := by
    have := congrArg Prod.fst h
    simpa [Scope.frame] using this
  unfold topRem
  cases ha : sc'.forLoops with
  | nil =>
    cases hb : sc.forLoops with
    | nil => rfl
    | cons l rest => rw [ha, hb] at h1; simp at h1
  | cons l' rest' =>
    cases hb : sc.forLoops with
    | nil => rw [ha, hb] at h1; simp at h1
    | cons l rest =>
      rw [ha, hb] at h1
      simp only [List.map_cons, List.cons.injEq] at h1
      have := congrArg ForLoop.remaining h1.1
      simpa [ForLoop.strip] using congrArg List.length this

theorem for_term (body : List Node) (hbody : TNs env body) :
    ∀ n ae st, topRem st.scope ≤ n → Ev (fun G => NFu (execFor G env ae st body)) := by
  intro n
  induction n with
  | zero =>
    intro ae st hn
    apply ev_succ
    simp only [execFor]
    cases hl : st.scope.forLoops with
    | nil => nfu_leaf
    | cons l rest =>
      simp only
      cases hi : l.iterate ITERATE_END_IP with
      | none => nfu_leaf
      | some l' =>
        have := iterate_remaining_lt hi
        simp only [topRem, hl] at hn
        omega
  | succ n ih =>
    intro ae st hn
    apply ev_succ
    simp only [execFor]
    cases hl : st.scope.forLoops with
    | nil => nfu_leaf
    | cons l rest =>
      simp only
      cases hi : l.iterate ITERATE_END_IP with
      | none => nfu_leaf
      | some l' =>
        have hlt := iterate_remaining_lt hi
        simp only
        obtain ⟨r1, n1, h1⟩ := conv_nodes env (hbody ae { st with scope := st.scope.setTopLoop l' })
        refine Ev.rw h1 ?_
        cases r1 with
        | error e => exact Ev.all fun G e1 => by simp only [e1]; exact nfu_err_cast n1
        | ok p =>
          obtain ⟨st', sig⟩ := p
          -- the body leaves the loop stack as it found it
          have hrem : topRem st'.scope ≤ n := by
            obtain ⟨f0, hf0⟩ := h1
            have hfr := (frame env f0).2.1 ae _ body st' sig (hf0 f0 (Nat.le_refl _))
            rw [topRem_of_frame hfr]
            show topRem (st.scope.setTopLoop l') ≤ n
            rw [topRem_setTopLoop hl]
            simp only [topRem, hl] at hn
            omega
          simp (config := { contextual := true }) only []
          apply Ev.drop
          cases sig <;> simp only
          · exact ih ae st' hrem
          · nfu_leaf
          · exact ih ae st' hrem

/-! ### statements -/

theorem mem_inc_cons_left {n : Node} {rest : List Node} {m : String} (h : m ∈ nodeIncludes n) :
    m ∈ nodesIncludes (n :: rest) := by
  simp only [nodesIncludes, List.mem_append]; exact Or.inl h

theorem mem_inc_cons_right {n : Node} {rest : List Node} {m : String} (h : m ∈ nodesIncludes rest) :
    m ∈ nodesIncludes (n :: rest) := by
  simp only [nodesIncludes, List.mem_append]; exact Or.inr h

theorem node_term_aux :
    (∀ (_ : Bool) (n : Node), (∀ m ∈ nodeIncludes n, Good env m) → TN env n) ∧
    (∀ (_ : Bool) (ns : List Node), (∀ m ∈ nodesIncludes ns, Good env m) → TNs env ns) := by
  apply nodeInCore.mutual_induct
    (motive_1 := fun _ n => (∀ m ∈ nodeIncludes n, Good env m) → TN env n)
    (motive_2 := fun _ ns => (∀ m ∈ nodesIncludes ns, Good env m) → TNs env ns)
  -- content
  · intro _ text _ ae st
    apply ev_succ; simp only [execNode]; nfu_leaf
  -- expression
  · intro _ e _ ae st
    apply ev_succ; simp only [execNode]
    tcall conv_expr env (expr_term env e st.scope)
    exact Ev.all fun G => nfu_map _ (nfu_writeValue env _ _ _)
  -- set
  · intro _ name e g _ ae st
    apply ev_succ; simp only [execNode]
    tcall conv_expr env (expr_term env e st.scope)
    nfu_leaf
  -- set block
  · intro _ name filters body g hbody hinc ae st
    apply ev_succ; simp only [execNode]
    tcall conv_nodes env (hbody (fun m hm => hinc m (by simpa [nodeIncludes] using hm)) ae
      { st with captures := [] :: st.captures }) as p
    obtain ⟨s1, g1⟩ := p
    cases g1 <;> simp only
    · cases hc : s1.captures with
      | nil => nfu_leaf
      | cons buf restCaps =>
        simp only
        tcall conv_filters env (filters_term env filters s1.scope (.str true buf))
        nfu_leaf
    · nfu_leaf
    · nfu_leaf
  -- include
  · intro _ name hinc ae st
    apply ev_succ; simp only [execNode]
    cases ht : env.template name with
    | none => nfu_leaf
    | some t =>
      simp only
      tcall conv_nodes env (hinc name (by simp [nodeIncludes]) t ht t.autoescape
        { scope := Scope.included st.scope, out := [], captures := [] }) as p
      obtain ⟨s1, g1⟩ := p
      cases g1 <;> nfu_leaf
  -- block
  · intro _ name body _ ae st
    apply ev_succ; simp only [execNode]; nfu_leaf
  -- for
  · intro _ key value target body elseBody hbody helse hinc ae st
    have hb : TNs env body := hbody (fun m hm => hinc m (by
      simp only [nodeIncludes, List.mem_append]; exact Or.inl hm))
    have he : TNs env elseBody := helse (fun m hm => hinc m (by
      simp only [nodeIncludes, List.mem_append]; exact Or.inr hm))
    apply ev_succ; simp only [execNode]
    tcall conv_expr env (expr_term env target st.scope) as tv
    cases hi : iterItems tv with
    | none => nfu_leaf
    | some items =>
      simp only
      split
      · nfu_leaf
      · cases key with
        | none =>
          simp only
          tcall conv_for env (for_term env body hb _ ae
            { st with scope := st.scope.pushLoop ((ForLoop.new items).storeLocalName value) }
            (Nat.le_refl _)) as s1
          generalize (!elseBody.isEmpty && match s1.scope.forLoops with
            | l :: _ => !l.iterated
            | [] => false) = d
          cases d <;> simp only [Bool.false_eq_true, if_false, if_true]
          · nfu_leaf
          · exact he ae _
        | some k =>
          simp only
          tcall conv_for env (for_term env body hb _ ae
            { st with scope := st.scope.pushLoop (((ForLoop.new items).storeLocalName value).storeLocalName k) }
            (Nat.le_refl _)) as s1
          generalize (!elseBody.isEmpty && match s1.scope.forLoops with
            | l :: _ => !l.iterated
            | [] => false) = d
          cases d <;> simp only [Bool.false_eq_true, if_false, if_true]
          · nfu_leaf
          · exact he ae _
  -- break, continue
  · intro _ _ ae st
    apply ev_succ; simp only [execNode]; nfu_leaf
  · intro _ _ ae st
    apply ev_succ; simp only [execNode]; nfu_leaf
  -- if
  · intro _ c body falseBody hbody hfalse hinc ae st
    apply ev_succ; simp only [execNode]
    tcall conv_expr env (expr_term env c st.scope)
    cases hv : v.isTruthy <;> simp only [Bool.false_eq_true, if_false, if_true]
    · exact hfalse (fun m hm => hinc m (by
        simp only [nodeIncludes, List.mem_append]; exact Or.inr hm)) ae st
    · exact hbody (fun m hm => hinc m (by
        simp only [nodeIncludes, List.mem_append]; exact Or.inl hm)) ae st
  -- filter section
  · intro _ name kw body hbody hinc ae st
    apply ev_succ; simp only [execNode]
    tcall conv_nodes env (hbody (fun m hm => hinc m (by simpa [nodeIncludes] using hm)) ae
      { st with captures := [] :: st.captures }) as p
    obtain ⟨s1, g1⟩ := p
    cases g1 <;> simp only
    · cases hc : s1.captures with
      | nil => nfu_leaf
      | cons buf restCaps =>
        simp only
        tcall conv_kw env (kwargs_term env kw s1.scope) as kwv
        refine Ev.all fun G => ?_
        nfu_sub (applyFilter env name (.str true buf) kwv) by (nfu_applyFilter env name (.str true buf) kwv)
        exact nfu_map _ (nfu_writeValue env _ _ _)
    · nfu_leaf
    · nfu_leaf
  -- statement lists
  · intro _ _ ae st
    apply ev_succ; simp only [execNodes]; nfu_leaf
  · intro _ n rest hn hrest hinc ae st
    apply ev_succ; simp only [execNodes]
    tcall conv_node env (hn (fun m hm => hinc m (mem_inc_cons_left hm)) ae st) as p
    obtain ⟨s1, g1⟩ := p
    cases g1 <;> simp only
    · exact hrest (fun m hm => hinc m (mem_inc_cons_right hm)) ae s1
    · nfu_leaf
    · nfu_leaf

/-- a statement list terminates when the bodies of the templates it includes do -/
theorem nodes_term_of_good (ns : List Node) (h : ∀ m ∈ nodesIncludes ns, Good env m) : TNs env ns :=
  (node_term_aux env).2 false ns h

/-! ### acyclic includes -/

/-- **The include relation of the environment is acyclic**: `rk` ranks the template names so that
every `{% include "m" %}` node (at any depth) of the body of a template `n`, `m` being a template
of the environment, has `rk m < rk n`.  (Equivalent to: the include graph on the existing templates
has no cycle; a topological order gives the rank.) -/
def IncludeRank (env : Env) (rk : String → Nat) : Prop :=
  ∀ n t, env.template n = some t → ∀ m ∈ nodesIncludes t.nodes, (env.template m).isSome = true →
    rk m < rk n

theorem good_of_rank (rk : String → Nat) (h : IncludeRank env rk) :
    ∀ k n, rk n ≤ k → Good env n := by
  intro k
  induction k with
  | zero =>
    intro n hn t ht
    apply nodes_term_of_good
    intro m hm t' ht'
    have := h n t ht m hm (by rw [ht']; rfl)
    omega
  | succ k ih =>
    intro n hn t ht
    apply nodes_term_of_good
    intro m hm t' ht'
    have := h n t ht m hm (by rw [ht']; rfl)
    exact ih m (by omega) t' ht'

/-! ### a two-template include cycle runs out of every fuel -/

theorem cyc_runs_out (env : Env) (a b : String) (ta tb : TemplateDef)
    (hA : env.template a = some ta) (hB : env.template b = some tb)
    (hta : ta.nodes = [.include b]) (htb : tb.nodes = [.include a]) : ∀ fuel ae st,
    execNodes fuel env ae st [.include a] = .error .fuel ∧
    execNodes fuel env ae st [.include b] = .error .fuel := by
  intro fuel
  induction fuel using Nat.strongRecOn with
  | ind fuel ih =>
    intro ae st
    cases fuel with
    | zero => exact ⟨rfl, rfl⟩
    | succ f =>
      cases f with
      | zero => exact ⟨rfl, rfl⟩
      | succ f' =>
        constructor
        · simp only [execNodes, execNode, hA, hta, (ih f' (by omega) _ _).2]
        · simp only [execNodes, execNode, hB, htb, (ih f' (by omega) _ _).1]

end Tera.C11Eval
