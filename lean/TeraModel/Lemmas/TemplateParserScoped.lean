/-
Every accepted template is `Compiler.templateScoped` as far as the tree goes: `nodesScoped false`
for the nodes and for every component definition body.  This is the hypothesis of the compiler
theorems (Props/C07Compile.lean) about the AST, proved here for every output of the parser model.
(The remaining conjunct of `templateScoped`, "no block event in a component body", is about
`Compiler.componentEvents`; the parser-side fact is `C06Parser.blocks_recorded_once`: a component
definition body contains no block.)
-/
import TeraModel.Lemmas.ExprScoped
import TeraModel.Lemmas.TemplateParserCounted
namespace Tera.TParser
open Tera Tera.Parser Tera.Compiler

theorem nodesScoped_append (il : Bool) (a b : List Node) :
    nodesScoped il (a ++ b) = (nodesScoped il a && nodesScoped il b) := by
  induction a with
  | nil => simp [nodesScoped]
  | cons x xs ih => simp [nodesScoped, ih, Bool.and_assoc]

theorem filtersScoped_snoc (acc : List Expr) (f : Expr) (ha : filtersScoped acc = true)
    (hf : exprScoped f = true) : filtersScoped (acc ++ [f]) = true := by
  induction acc with
  | nil =>
    cases f <;> simp_all [filtersScoped, exprScoped]
  | cons x xs ih =>
    cases x <;> simp_all [filtersScoped]

/-- a context stack that admits a block is outside every loop for `break` -/
theorem walk_of_noBlk (c : List BodyContext) (h : noBlk c = false) : walk c = false := by
  have : ∀ l : List BodyContext, (l.any fun b => !b.canContainBlocks) = false → loopWalk l ≠ some true := by
    intro l
    induction l with
    | nil => simp [loopWalk]
    | cons x xs ih =>
      intro hl
      cases x <;> simp_all [loopWalk, BodyContext.canContainBlocks]
  have h2 := this c.reverse (by simpa [noBlk] using h)
  simp [walk, h2]

def DefsSc (ds : List ComponentDefinition) : Prop := ∀ d ∈ ds, nodesScoped false d.body = true

abbrev AS := List BodyContext × List ComponentDefinition

def PostS (a : AS) (nodes : List Node) (a' : AS) : Prop :=
  a'.1 = a.1 ∧ nodesScoped (walk a.1) nodes = true ∧ (DefsSc a.2 → DefsSc a'.2)

def PostSt (s : TState) (nodes : List Node) (s' : TState) : Prop :=
  PostS (s.bodyContexts, s.componentDefinitions) nodes (s'.bodyContexts, s'.componentDefinitions)

theorem PostS.nil (a : AS) : PostS a [] a := ⟨rfl, by simp [nodesScoped], id⟩

theorem PostS.trans {a a1 a2 : AS} {x y : List Node} (h1 : PostS a x a1) (h2 : PostS a1 y a2) :
    PostS a (x ++ y) a2 := by
  obtain ⟨c1, l1, e1⟩ := h1
  obtain ⟨c2, l2, e2⟩ := h2
  rw [c1] at l2
  exact ⟨c2.trans c1, by simp [nodesScoped_append, l1, l2], fun h => e2 (e1 h)⟩

theorem PostS.leaf {a : AS} {nd : Node} (h : nodeScoped (walk a.1) nd = true) : PostS a [nd] a :=
  ⟨rfl, by simp [nodesScoped, h], id⟩

theorem PostS.if_ {c : List BodyContext} {d : List ComponentDefinition} {a4 a6 : AS} {e : Expr}
    {body fb : List Node} (he : exprScoped e = true)
    (hb : PostS (c ++ [.If], d) body a4) (hf : PostS a4 fb a6) :
    PostS (c, d) [.if e body fb] (a6.1.dropLast, a6.2) := by
  obtain ⟨c1, l1, e1⟩ := PostS.trans hb hf
  simp only [walk_if] at *
  refine ⟨by simp [c1], ?_, e1⟩
  simp only [nodesScoped_append, Bool.and_eq_true] at l1
  simp [nodesScoped, nodeScoped, he, l1.1, l1.2]

theorem PostS.for_ {c : List BodyContext} {d : List ComponentDefinition} {a4 a6 : AS}
    {k : Option String} {v : String} {t : Expr} {body els : List Node} (ht : exprScoped t = true)
    (hb : PostS (c ++ [.ForLoop], d) body a4) (hf : PostS (a4.1.dropLast, a4.2) els a6) :
    PostS (c, d) [.forLoop k v t body els] a6 := by
  obtain ⟨c1, l1, e1⟩ := hb
  obtain ⟨c2, l2, e2⟩ := hf
  simp only [walk_for, c1, List.dropLast_concat] at *
  exact ⟨c2, by simp [nodesScoped, nodeScoped, ht, l1, l2], fun h => e2 (e1 h)⟩

/-- a node with one body parsed under the pushed context `k` -/
theorem PostS.wrap {c : List BodyContext} {d : List ComponentDefinition} {a4 : AS} {k : BodyContext}
    {nd : Node} {body : List Node} (hb : PostS (c ++ [k], d) body a4)
    (hn : nodesScoped (walk (c ++ [k])) body = true → nodeScoped (walk c) nd = true) :
    PostS (c, d) [nd] (a4.1.dropLast, a4.2) := by
  obtain ⟨c1, l1, e1⟩ := hb
  exact ⟨by simp [c1], by simp [nodesScoped, hn l1], e1⟩

theorem PostS.compdef {c : List BodyContext} {d : List ComponentDefinition} {a4 : AS}
    {name : String} {kw : List (String × ComponentArgument)} {rest : Option String}
    {md : List (String × Value)} {body : List Node} (hc : c = [])
    (hb : PostS (c ++ [.ComponentDefinition], d) body a4) :
    PostS (c, d) [] (a4.1.dropLast, a4.2 ++ [⟨name, kw, rest, md, body⟩]) := by
  subst hc
  obtain ⟨c1, l1, e1⟩ := hb
  have hl : nodesScoped false body = true := by simpa [walk, loopWalk] using l1
  refine ⟨by simp [c1], by simp [nodesScoped], ?_⟩
  intro h x hx
  rcases List.mem_append.1 hx with hx | hx
  · exact e1 h x hx
  · simp at hx; subst hx; exact hl

macro "sctac" : tactic => `(tactic|
  repeat' (first
    | (show TW _ _ _; dsimp only)
    | with_reducible exact TW.err
    | with_reducible exact TW.fuel
    | with_reducible exact TW.panic
    | (with_reducible apply_assumption -exfalso; intro _ _ _)
    | with_reducible refine TW.bind ?_
    | with_reducible refine TW.pure ?_
    | with_reducible refine TW.pushCtx _ ?_
    | with_reducible refine TW.popCtx ?_
    | with_reducible refine TW.getState ?_
    | with_reducible refine TW.modify _ ?_
    | (with_reducible apply TW.exprV_swap; (intro _ _ _); rotate_left; focus (with_reducible assumption))
    | (with_reducible apply TW.liftV_swap; (intro _ _ _); rotate_left; focus (with_reducible apply_assumption -exfalso))
    | with_reducible refine TW.lift _ (fun _ _ => ?_)
    | with_reducible refine TW.ite (fun _ => ?_) (fun _ => ?_)
    | (show TW _ _ _; split)))

section level
variable {C : Bool → Cfg} {recU : EndCheck → T (List Node)} {ex : Bool → Nat → P Expr}
variable (Hex : ∀ il m, PW (ex il m) (fun e => exprScoped e = true))
variable (HU : ∀ ec s, TW (recU ec) s (fun nodes s' => PostSt s nodes s'))
include Hex HU

theorem SCT.parseIf : ∀ n s, TW (parseIf recU ex n) s
    (fun x s' => PostSt s [.if x.1 x.2.1 x.2.2] s') := by
  intro n
  induction n with
  | zero => intro s; exact TW.fuel
  | succ n ih =>
    intro s
    have hrec := fun ec s => TW.cps (HU ec s)
    have ih' := fun s => TW.cps (ih s)
    unfold TParser.parseIf
    sctac
    · exact PostS.if_ (by assumption) (by assumption) (by assumption)
    · exact PostS.if_ (by assumption) (by assumption) (by assumption)
    · exact PostS.if_ (by assumption) (by assumption) (PostS.nil _)

theorem SCT.parseForLoop (s : TState) : TW (parseForLoop recU ex) s
    (fun nd s' => PostSt s [nd] s') := by
  have hrec := fun ec s => TW.cps (HU ec s)
  unfold TParser.parseForLoop
  sctac
  all_goals first
    | exact PostS.for_ (by assumption) (by assumption) (by assumption)
    | exact PostS.for_ (by assumption) (by assumption) (PostS.nil _)

omit HU in
theorem SCT.setFilters (il : Bool) : ∀ n acc, filtersScoped acc = true →
    PW (TParser.setFilters (ex il) n acc) (fun fs => filtersScoped fs = true) := by
  have hf : ∀ e, exprScoped e = true → PW (parseFilter (ex il) e) (fun x => exprScoped x = true) :=
    fun e he => SC.parseFilter (Hex il) e he
  intro n
  induction n with
  | zero => intro _ _; exact PW.fuel
  | succ n ih =>
    intro acc hacc
    unfold TParser.setFilters
    cdtac
    exact filtersScoped_snoc _ _ hacc (by assumption)

theorem SCT.parseSet (g : Bool) (s : TState) : TW (parseSet recU ex g) s
    (fun nd s' => PostSt s [nd] s') := by
  have hrec := fun ec s => TW.cps (HU ec s)
  have hsf : ∀ il n, PW (TParser.setFilters (ex il) n []) (fun fs => filtersScoped fs = true) :=
    fun il n => SCT.setFilters Hex il n [] rfl
  unfold TParser.parseSet
  sctac
  · exact PostS.leaf (by simp_all [nodeScoped])
  all_goals
    refine PostS.wrap (k := .Capture) (by assumption) (fun h => ?_)
    simp_all [nodeScoped, walk_capture]

theorem SCT.parseComponentWithBody (s : TState) : TW (parseComponentWithBody recU ex) s
    (fun e s' => PostSt s [.expression e] s') := by
  have hrec := fun ec s => TW.cps (HU ec s)
  have hca : ∀ il n, PW (componentAttributes (ex il) n []) (fun kw => mapItemsScoped kw = true) :=
    fun il n => SC.componentAttributes (Hex il) n [] rfl
  unfold TParser.parseComponentWithBody
  sctac
  all_goals
    refine PostS.wrap (k := .Capture) (by assumption) (fun h => ?_)
    simp_all [nodeScoped, exprScoped, walk_capture]

omit Hex in
theorem SCT.parseComponentDefinition (s : TState) : TW (parseComponentDefinition C recU ex) s
    (fun df s' => PostSt s [] { s' with componentDefinitions := s'.componentDefinitions ++ [df] }) := by
  have hrec := fun ec s => TW.cps (HU ec s)
  unfold TParser.parseComponentDefinition
  sctac
  all_goals
    have hc : s.bodyContexts = [] := by simpa using ‹¬ (!s.bodyContexts.isEmpty) = true›
    exact PostS.compdef hc (by assumption)

theorem SCT.parseTag (isFirst : Bool) (s : TState) :
    TW (parseTag C recU ex isFirst) s (fun on s' => PostSt s on.toList s') := by
  have hrec := fun ec s => TW.cps (HU ec s)
  have h1 := fun g s => TW.cps (SCT.parseSet Hex HU g s)
  have h2 := fun s => TW.cps (SCT.parseForLoop Hex HU s)
  have h3 := fun n s => TW.cps (SCT.parseIf Hex HU n s)
  have h4 := fun s => TW.cps (SCT.parseComponentDefinition (C := C) (ex := ex) HU s)
  have h5 := fun s => TW.cps (SCT.parseComponentWithBody Hex HU s)
  have hk : ∀ il, PW (parseKwargs (ex il)) (fun kw => kwargsScoped kw = true) :=
    fun il => SC.parseKwargs (Hex il)
  unfold TParser.parseTag
  sctac
  all_goals first
    | assumption
    | exact PostS.nil _
    | (refine PostS.wrap (k := .Capture) (by assumption) (fun h => ?_)
       simp_all [nodeScoped, walk_capture, kwargsScoped]; done)
    | (have hw := walk_of_noBlk s.bodyContexts
         (by simpa [noBlk] using ‹¬ (s.bodyContexts.any fun b => !b.canContainBlocks) = true›)
       refine PostS.wrap (k := .Block) (by assumption) (fun h => ?_)
       simp_all [nodeScoped, walk_block]; done)
    | (have hw : walk s.bodyContexts = true := by simp [walk, ‹loopWalk s.bodyContexts.reverse = some true›]
       refine PostS.leaf ?_
       simp_all [nodeScoped]; done)
    | (refine PostS.leaf ?_
       simp_all [nodeScoped]; done)

theorem SCT.untilLoop (ec : EndCheck) : ∀ n nodes s, TW (untilLoop C recU ex ec n nodes) s
    (fun r s' => ∃ more, r = nodes ++ more ∧ PostSt s more s') := by
  have htag := fun f s => TW.cps (SCT.parseTag (C := C) Hex HU f s)
  intro n
  induction n with
  | zero => intro nodes s; exact TW.fuel
  | succ n ih =>
    intro nodes s
    obtain ⟨⟨ts, a, b⟩, c1, c2, c3, c4, c5⟩ := s
    rw [TW_def]
    unfold TParser.untilLoop
    cases ts with
    | nil => exact ⟨[], by simp, PostS.nil _⟩
    | cons tok rest =>
      cases tok
      case error => trivial
      case content c =>
        dsimp only
        rw [← TW_def]
        refine TW.mono (ih _ _) (fun r s' h => ?_)
        obtain ⟨more, rfl, hp⟩ := h
        split
        · exact ⟨more, rfl, hp⟩
        · refine ⟨.content c :: more, by simp, ?_⟩
          exact PostS.trans (x := [.content c]) (PostS.leaf (by simp [nodeScoped])) hp
      case variableStart w =>
        dsimp only
        rw [← TW_def]
        refine TW.bind (TW.exprV_swap (fun e p' he => ?_) Hex)
        refine TW.bind (TW.lift _ (fun _ p2 => ?_))
        refine TW.mono (ih _ _) (fun r s' h => ?_)
        obtain ⟨more, rfl, hp⟩ := h
        refine ⟨.expression e :: more, by simp, ?_⟩
        exact PostS.trans (x := [.expression e]) (PostS.leaf (by simp [nodeScoped, he])) hp
      case tagStart w =>
        dsimp only
        split
        · rename_i r s' heq
          split at heq
          · cases heq
          · cases heq
          · split at heq
            · cases heq; exact ⟨[], by simp, PostS.nil _⟩
            · rename_i t tail _ hne
              refine TW.of_eq (Q := fun r s' => ∃ more, r = nodes ++ more ∧
                PostSt ⟨⟨.tagStart w :: t :: tail, a, b⟩, c1, c2, c3, c4, c5⟩ more s') heq ?_
              refine TW.bind (htag _ _ _ (fun node s1 hp1 => ?_))
              refine TW.bind (TW.lift _ (fun _ p2 => ?_))
              refine TW.mono (ih _ _) (fun r2 s2 h2 => ?_)
              obtain ⟨more, rfl, hp2⟩ := h2
              refine ⟨node.toList ++ more, by cases node <;> simp, ?_⟩
              exact PostS.trans hp1 hp2
        all_goals trivial
      all_goals trivial

end level

theorem SCT.parseUntil : ∀ r ec s, TW (parseUntil r ec) s (fun nodes s' => PostSt s nodes s') := by
  intro r
  induction r with
  | zero => intro ec s; exact TW.err
  | succ r ih =>
    intro ec s
    unfold TParser.parseUntil
    refine TW.bind (TW.lift _ (fun n p' => ?_))
    refine TW.mono (SCT.untilLoop (fun il m => SC.innerParseExpression _ _ _) ih ec n [] _) ?_
    intro nodes s' ⟨more, h, hp⟩
    simp at h; subst h
    exact hp

/-- **every accepted template is scoped** (the AST hypothesis of the compiler theorems) -/
theorem parse_scoped (maxDepth : Nat) (toks : List Tok) (t : Template) (s : TState)
    (h : parse maxDepth toks = .ok t s) :
    nodesScoped false t.nodes = true
    ∧ ∀ d ∈ t.componentDefinitions, nodesScoped false d.body = true := by
  unfold parse at h
  simp only [] at h
  split at h <;> try cases h
  rename_i _ nodes heq
  have := TW.of_eq heq (SCT.parseUntil maxDepth .never _)
  obtain ⟨_, l1, e1⟩ := this
  exact ⟨by simpa [walk, loopWalk] using l1, e1 (by intro d hd; cases hd)⟩

end Tera.TParser
