/-
Map lookups (Model/Lookup.lean): the hash never changes which entry is found, the linear scan of
`get_attr` finds the same entry as the hash lookup whatever the iteration order, and a map built by
`HashMap::insert` answers a probe exactly when an equal key was inserted (last write wins).
-/
import TeraModel.Lemmas.KeyOrder
import TeraModel.Model.Lookup
import Mathlib.Data.List.Perm.Basic
set_option linter.unusedVariables false
namespace Tera

/-- `HashMap::insert`: replace the value of the entry whose key is `==` (the stored key object
stays), else add a new entry. -/
def Map.insert {β : Type} (k : Key) (v : β) : List (Key × β) → List (Key × β)
  | [] => [(k, v)]
  | (k', v') :: rest => if Key.eq k' k then (k', v) :: rest else (k', v') :: Map.insert k v rest

/-- A map built from the empty map by a sequence of inserts. -/
def Map.ofInserts {β : Type} (ins : List (Key × β)) : List (Key × β) :=
  ins.foldl (fun m e => Map.insert e.1 e.2 m) []

/-- The value of the last insert whose key is `==` to the probe. -/
def lastInserted {β : Type} (q : KeyRepr) : List (Key × β) → Option β
  | [] => none
  | (k, v) :: rest =>
    match lastInserted q rest with
    | some w => some w
    | none => if KeyRepr.eq k.toRepr q then some v else none

theorem Key.eq_symm' {a b : Key} (h : Key.eq a b = true) : Key.eq b a = true := KeyRepr.eq_symm h

theorem Key.eq_false_symm {a b : Key} (h : Key.eq a b = false) : Key.eq b a = false := by
  cases hb : Key.eq b a with
  | false => rfl
  | true => rw [Key.eq_symm' hb] at h; exact absurd h (by decide)

/-! ### the hash plays no role -/

/-- **scan = hash lookup, part 1**: for every hasher, `HashMap::get` is "the entry whose key is
`==`".  Uses exactly `k1 == k2 → hashInput k1 = hashInput k2`. -/
theorem Map.hashGet_eq_get {β : Type} (H : List HashTok → Nat) (k : KeyRepr) (es : List (Key × β)) :
    Map.hashGet H k es = Map.get k es := by
  induction es with
  | nil => rfl
  | cons e rest ih =>
    obtain ⟨k', v⟩ := e
    simp only [Map.hashGet, Map.get, ih]
    cases h : KeyRepr.eq k'.toRepr k with
    | false => simp
    | true =>
      have := KeyRepr.hash_of_eq _ _ h
      simp [Key.hashInput, this]

/-! ### characterisation of `get` on duplicate-free maps -/

theorem noDupKeys_iff_pairwise {β : Type} (es : List (Key × β)) :
    NoDupKeys es ↔ es.Pairwise (fun a b => Key.eq a.1 b.1 = false) := by
  induction es with
  | nil => simp [NoDupKeys]
  | cons e rest ih => obtain ⟨k, v⟩ := e; simp [NoDupKeys, ih]

theorem NoDupKeys.perm {β : Type} {a b : List (Key × β)} (h : NoDupKeys a) (p : a.Perm b) :
    NoDupKeys b := by
  rw [noDupKeys_iff_pairwise] at h ⊢
  exact (p.pairwise_iff (fun {x y} hxy => Key.eq_false_symm hxy)).1 h

theorem Map.get_some_mem {β : Type} {q : KeyRepr} {es : List (Key × β)} {v : β}
    (h : Map.get q es = some v) : ∃ k, (k, v) ∈ es ∧ KeyRepr.eq k.toRepr q = true := by
  induction es with
  | nil => simp [Map.get] at h
  | cons e rest ih =>
    obtain ⟨k', v'⟩ := e
    simp only [Map.get] at h
    split at h
    · rename_i hk; cases h; exact ⟨k', by simp, hk⟩
    · obtain ⟨k, hm, hk⟩ := ih h; exact ⟨k, by simp [hm], hk⟩

theorem Map.get_of_mem {β : Type} {q : KeyRepr} {es : List (Key × β)} (nd : NoDupKeys es) {k : Key}
    {v : β} (hm : (k, v) ∈ es) (hk : KeyRepr.eq k.toRepr q = true) : Map.get q es = some v := by
  induction es with
  | nil => cases hm
  | cons e rest ih =>
    obtain ⟨k', v'⟩ := e
    simp only [Map.get]
    rcases List.mem_cons.1 hm with h | h
    · cases h; simp [hk]
    · have hne : Key.eq k' k = false := nd.1 (k, v) h
      have : KeyRepr.eq k'.toRepr q = false := by
        cases hq : KeyRepr.eq k'.toRepr q with
        | false => rfl
        | true =>
          have := KeyRepr.eq_trans hq (KeyRepr.eq_symm hk)
          simp only [Key.eq] at hne; rw [this] at hne; exact absurd hne (by decide)
      simp only [this, Bool.false_eq_true, if_false]
      exact ih nd.2 h

theorem Map.get_none_iff {β : Type} {q : KeyRepr} {es : List (Key × β)} :
    Map.get q es = none ↔ ∀ e ∈ es, KeyRepr.eq e.1.toRepr q = false := by
  induction es with
  | nil => simp [Map.get]
  | cons e rest ih =>
    obtain ⟨k', v'⟩ := e
    simp only [Map.get, List.mem_cons, forall_eq_or_imp]
    cases h : KeyRepr.eq k'.toRepr q <;> simp [ih]

/-- On a duplicate-free map the entry found does not depend on the iteration order. -/
theorem Map.get_perm {β : Type} {a b : List (Key × β)} (nd : NoDupKeys a) (p : a.Perm b)
    (q : KeyRepr) : Map.get q b = Map.get q a := by
  cases h : Map.get q a with
  | some v =>
    obtain ⟨k, hm, hk⟩ := Map.get_some_mem h
    exact Map.get_of_mem (nd.perm p) (p.mem_iff.1 hm) hk
  | none =>
    rw [Map.get_none_iff] at h ⊢
    intro e he; exact h e (p.mem_iff.2 he)

/-- Probing with an equal key (another integer width, owned instead of borrowed text) finds the
same entry. -/
theorem Map.get_congr {β : Type} {q q' : KeyRepr} (h : KeyRepr.eq q q' = true) (es : List (Key × β)) :
    Map.get q es = Map.get q' es := by
  induction es with
  | nil => rfl
  | cons e rest ih =>
    obtain ⟨k', v⟩ := e
    simp only [Map.get, ih]
    have : KeyRepr.eq k'.toRepr q = KeyRepr.eq k'.toRepr q' := by
      cases h1 : KeyRepr.eq k'.toRepr q with
      | true => exact (KeyRepr.eq_trans h1 h).symm
      | false =>
        cases h2 : KeyRepr.eq k'.toRepr q' with
        | false => rfl
        | true => rw [KeyRepr.eq_trans h2 (KeyRepr.eq_symm h)] at h1; exact absurd h1 (by decide)
    rw [this]

/-! ### the linear scan of `get_attr` -/

theorem KeyRepr.eq_str_iff (k : KeyRepr) (attr : List Char) :
    KeyRepr.eq k (.str attr) = true ↔ k.asStr = some attr := by
  cases k <;> simp [KeyRepr.eq, KeyRepr.asStr, KeyRepr.asNumber]

/-- **scan = hash lookup, part 2**: the `s == attr` scan finds what `get(&Key::Str(attr))` finds. -/
theorem Map.scanAttr_eq_get {β : Type} (attr : List Char) (es : List (Key × β)) :
    Map.scanAttr attr es = Map.get (.str attr) es := by
  induction es with
  | nil => rfl
  | cons e rest ih =>
    obtain ⟨k', v⟩ := e
    simp only [Map.scanAttr, Map.get, ih]
    cases hs : k'.toRepr.asStr with
    | none =>
      have : KeyRepr.eq k'.toRepr (.str attr) = false := by
        cases h : KeyRepr.eq k'.toRepr (.str attr) with
        | false => rfl
        | true => rw [KeyRepr.eq_str_iff, hs] at h; cases h
      simp [this]
    | some s =>
      by_cases h : s = attr
      · subst h
        have : KeyRepr.eq k'.toRepr (.str s) = true := (KeyRepr.eq_str_iff _ _).2 hs
        simp [this]
      · have : KeyRepr.eq k'.toRepr (.str attr) = false := by
          cases h' : KeyRepr.eq k'.toRepr (.str attr) with
          | false => rfl
          | true => rw [KeyRepr.eq_str_iff, hs] at h'; cases h'; exact absurd rfl h
        simp [this, h]

/-! ### maps built by inserts -/

theorem Map.get_insert {β : Type} (q : KeyRepr) (k : Key) (v : β) (m : List (Key × β)) :
    Map.get q (Map.insert k v m) = if KeyRepr.eq k.toRepr q then some v else Map.get q m := by
  induction m with
  | nil => simp [Map.insert, Map.get]
  | cons e rest ih =>
    obtain ⟨k', v'⟩ := e
    simp only [Map.insert]
    cases hkk : Key.eq k' k with
    | true =>
      simp only [if_true, Map.get]
      have hkk' : KeyRepr.eq k'.toRepr k.toRepr = true := hkk
      cases hq : KeyRepr.eq k.toRepr q with
      | true => simp [KeyRepr.eq_trans hkk' hq]
      | false =>
        have : KeyRepr.eq k'.toRepr q = false := by
          cases h : KeyRepr.eq k'.toRepr q with
          | false => rfl
          | true => rw [KeyRepr.eq_trans (KeyRepr.eq_symm hkk') h] at hq; exact absurd hq (by decide)
        simp [this]
    | false =>
      simp only [Bool.false_eq_true, if_false, Map.get, ih]
      have hkk' : KeyRepr.eq k'.toRepr k.toRepr = false := hkk
      cases hq : KeyRepr.eq k.toRepr q with
      | false => simp
      | true =>
        have : KeyRepr.eq k'.toRepr q = false := by
          cases h : KeyRepr.eq k'.toRepr q with
          | false => rfl
          | true => rw [KeyRepr.eq_trans h (KeyRepr.eq_symm hq)] at hkk'; exact absurd hkk' (by decide)
        simp [this]

theorem Map.mem_insert {β : Type} {k : Key} {v : β} {m : List (Key × β)} {e : Key × β}
    (h : e ∈ Map.insert k v m) : e.1 = k ∨ ∃ e' ∈ m, e'.1 = e.1 := by
  induction m with
  | nil => simp [Map.insert] at h; left; rw [h]
  | cons x rest ih =>
    obtain ⟨k', v'⟩ := x
    simp only [Map.insert] at h
    split at h
    · rcases List.mem_cons.1 h with h | h
      · right; exact ⟨(k', v'), by simp, by rw [h]⟩
      · right; exact ⟨e, by simp [h], rfl⟩
    · rcases List.mem_cons.1 h with h | h
      · right; exact ⟨(k', v'), by simp, by rw [h]⟩
      · rcases ih h with h | ⟨e', he', hk⟩
        · left; exact h
        · right; exact ⟨e', by simp [he'], hk⟩

theorem Map.insert_noDup {β : Type} (k : Key) (v : β) {m : List (Key × β)} (nd : NoDupKeys m) :
    NoDupKeys (Map.insert k v m) := by
  induction m with
  | nil => simp [Map.insert, NoDupKeys]
  | cons x rest ih =>
    obtain ⟨k', v'⟩ := x
    simp only [Map.insert]
    cases hkk : Key.eq k' k with
    | true => simp only [if_true]; exact ⟨nd.1, nd.2⟩
    | false =>
      simp only [Bool.false_eq_true, if_false]
      refine ⟨?_, ih nd.2⟩
      intro e he
      rcases Map.mem_insert he with h | ⟨e', he', hk⟩
      · rw [h]; exact hkk
      · rw [← hk]; exact nd.1 e' he'

theorem Map.foldl_insert_noDup {β : Type} (ins : List (Key × β)) (m0 : List (Key × β))
    (nd : NoDupKeys m0) : NoDupKeys (ins.foldl (fun m e => Map.insert e.1 e.2 m) m0) := by
  induction ins generalizing m0 with
  | nil => exact nd
  | cons e rest ih => exact ih _ (Map.insert_noDup _ _ nd)

/-- Whatever the insertion history, the result obeys the `HashMap` invariant. -/
theorem Map.ofInserts_noDup {β : Type} (ins : List (Key × β)) : NoDupKeys (Map.ofInserts ins) :=
  Map.foldl_insert_noDup ins [] (by simp [NoDupKeys])

theorem Map.get_foldl_insert {β : Type} (q : KeyRepr) (ins : List (Key × β)) (m0 : List (Key × β)) :
    Map.get q (ins.foldl (fun m e => Map.insert e.1 e.2 m) m0) =
      match lastInserted q ins with
      | some w => some w
      | none => Map.get q m0 := by
  induction ins generalizing m0 with
  | nil => rfl
  | cons e rest ih =>
    obtain ⟨k, v⟩ := e
    simp only [List.foldl, ih, Map.get_insert, lastInserted]
    cases lastInserted q rest with
    | some w => rfl
    | none => cases KeyRepr.eq k.toRepr q <;> rfl

/-- **lookup ⇔ inserted**: a probe finds the value of the last insert under an equal key, and
nothing if no equal key was ever inserted. -/
theorem Map.get_ofInserts {β : Type} (q : KeyRepr) (ins : List (Key × β)) :
    Map.get q (Map.ofInserts ins) = lastInserted q ins := by
  unfold Map.ofInserts
  rw [Map.get_foldl_insert]
  cases lastInserted q ins <;> rfl

theorem lastInserted_isSome {β : Type} (q : KeyRepr) (ins : List (Key × β)) :
    (lastInserted q ins).isSome = true ↔ ∃ e ∈ ins, KeyRepr.eq e.1.toRepr q = true := by
  induction ins with
  | nil => simp [lastInserted]
  | cons x rest ih =>
    obtain ⟨k, v⟩ := x
    simp only [lastInserted, List.mem_cons, exists_eq_or_imp]
    cases h : lastInserted q rest with
    | some w =>
      have := ih.1 (by simp [h])
      simp [this]
    | none =>
      have : ¬ ∃ e ∈ rest, KeyRepr.eq e.1.toRepr q = true := fun hx => by
        have := ih.2 hx; simp [h] at this
      cases hk : KeyRepr.eq k.toRepr q <;> simp [this]

end Tera
