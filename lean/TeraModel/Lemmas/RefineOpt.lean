/-
Last mile (Props/RefineE2E.lean), part 1: what the optimiser bridge needs about compiled code.

* `noInclude_nodes`: the typed form of the compiled code of a statement list that passes the domain
  check with NO includable template (`nodesInCore [] inLoop ns`) contains no `Include` instruction
  (functional induction over the nine mutually recursive code functions of Model/Compiler.lean).
  So its runs (`RunI`, Lemmas/RefineRunI.lean) are runs that do not depend on the nested
  interpreter (`Run`), in particular they are runs of `Vm.run` with nesting fuel 1, which is where
  bC_opt's `C09Vm.optimize_preserves_output` needs no assumption on nested calls.
* `run_depth_irrel`: an `interpret` call that ends with nesting fuel 1 (every nested call is "out
  of fuel") ends the same way with any nesting fuel `≥ 1` (`step_rec0`: a turn either is out of
  fuel with the empty nested interpreter or does not depend on the nested interpreter).
* `typedCode_nodes`: the typed form (`Pipeline.typedCode` = `Refine.embed`) of a compiled statement
  list exists.
-/
import TeraModel.Lemmas.RefineDomain
import TeraModel.Lemmas.CompilerBasic
import TeraModel.Lemmas.PipelineVerify
namespace Tera.RefineE2E
open Tera Tera.Vm Tera.Compiler Tera.Refine

/-- not an `Include` -/
def NoI (y : CEntry) : Prop := ∀ n, y.1 ≠ .include n

def IncM1 (e : Expr) : Prop := exprInCore e = true → ∀ base loop, AllC NoI (exprCode base loop e)
def IncM2 (ns : List Node) : Prop :=
  ∀ il, nodesInCore [] il ns = true → ∀ base loop, AllC NoI (nodesCode base loop ns)
def IncM3 (n : Node) : Prop :=
  ∀ il, nodeInCore [] il n = true → ∀ base loop, AllC NoI (nodeCode base loop n)
def IncM4 (k : List (String × Expr)) : Prop :=
  kwInCore k = true → ∀ base loop, AllC NoI (kwargsCode base loop k)
def IncM5 (f : List Expr) : Prop :=
  filtersInCore f = true → ∀ base loop, AllC NoI (filtersCode base loop f)
def IncM6 (o : Option Expr) : Prop := optInCore o = true → ∀ base loop, AllC NoI (condCode base loop o)
def IncM7 (o : Option Expr) : Prop :=
  optInCore o = true → ∀ base loop d, NoI (ns d) → AllC NoI (optExprCode base loop d o)
def IncM8 (a : List ArrayEntry) : Prop :=
  arrayInCore a = true → ∀ base loop, AllC NoI (arrayItemsCode base loop a)
def IncM9 (m : List MapEntry) : Prop :=
  mapInCore m = true → ∀ base loop, AllC NoI (mapItemsCode base loop m)

theorem allC_keyStore (key : Option String) : AllC NoI (keyStore key) := by
  cases key <;> simp [keyStore, NoI, ns]

theorem noI_sp (i : CInstr) (h : ∀ n, i ≠ .include n) : NoI (sp i) := h
theorem noI_ns (i : CInstr) (h : ∀ n, i ≠ .include n) : NoI (ns i) := h

set_option maxRecDepth 8192 in
theorem noInc_aux :
    (∀ (_ : Nat) (_ : Option Nat) e, IncM1 e) ∧
    (∀ (_ : Nat) (_ : Option Nat) ns, IncM2 ns) ∧
    (∀ (_ : Nat) (_ : Option Nat) n, IncM3 n) ∧
    (∀ (_ : Nat) (_ : Option Nat) k, IncM4 k) ∧
    (∀ (_ : Nat) (_ : Option Nat) f, IncM5 f) ∧
    (∀ (_ : Nat) (_ : Option Nat) o, IncM6 o) ∧
    (∀ (_ : Nat) (_ : Option Nat) (_ : CInstr) o, IncM7 o) ∧
    (∀ (_ : Nat) (_ : Option Nat) a, IncM8 a) ∧
    (∀ (_ : Nat) (_ : Option Nat) m, IncM9 m) := by
  apply exprCode.mutual_induct
    (motive_1 := fun _ _ e => IncM1 e)
    (motive_2 := fun _ _ ns => IncM2 ns)
    (motive_3 := fun _ _ n => IncM3 n)
    (motive_4 := fun _ _ k => IncM4 k)
    (motive_5 := fun _ _ f => IncM5 f)
    (motive_6 := fun _ _ o => IncM6 o)
    (motive_7 := fun _ _ _ o => IncM7 o)
    (motive_8 := fun _ _ a => IncM8 a)
    (motive_9 := fun _ _ m => IncM9 m)
  all_goals intros
  all_goals simp only [IncM1, IncM2, IncM3, IncM4, IncM5, IncM6, IncM7, IncM8, IncM9] at *
  all_goals intros
  case case42 =>
    rename_i ih h base loop d hd
    simp only [optExprCode]
    exact ih (by simpa [optInCore] using h) base loop
  case case43 =>
    rename_i h base loop d hd
    simp only [optExprCode, allC_cons, allC_nil, and_true]
    exact hd
  case case1 =>
    rename_i h base loop
    (try simp only [exprInCore, optInCore, kwInCore, arrayInCore, mapInCore, Bool.and_eq_true] at h)
    (try simp only [filtersInCore, Bool.and_eq_true] at h)
    (try simp only [nodeInCore, Bool.and_eq_true] at h)
    (try simp only [nodesInCore, Bool.and_eq_true] at h)
    (try simp only [exprCode, nodesCode, nodeCode, kwargsCode, filtersCode, condCode, arrayItemsCode, mapItemsCode])
    (try split) <;>
    (try simp_all (config := { zetaDelta := true }) only [allC_append, allC_cons, allC_nil, and_true, true_and, and_self]) <;>
    (try (simp only [NoI, sp, ns, mapBuild, arrayBuild, setInstr, unaryInstr, keyStore]; done)) <;>
    (try grind [NoI, sp, ns, mapBuild, arrayBuild, setInstr, unaryInstr, keyStore])
  case case2 =>
    rename_i h base loop
    (try simp only [exprInCore, optInCore, kwInCore, arrayInCore, mapInCore, Bool.and_eq_true] at h)
    (try simp only [filtersInCore, Bool.and_eq_true] at h)
    (try simp only [nodeInCore, Bool.and_eq_true] at h)
    (try simp only [nodesInCore, Bool.and_eq_true] at h)
    (try simp only [exprCode, nodesCode, nodeCode, kwargsCode, filtersCode, condCode, arrayItemsCode, mapItemsCode])
    (try split) <;>
    (try simp_all (config := { zetaDelta := true }) only [allC_append, allC_cons, allC_nil, and_true, true_and, and_self]) <;>
    (try (simp only [NoI, sp, ns, mapBuild, arrayBuild, setInstr, unaryInstr, keyStore]; done)) <;>
    (try grind [NoI, sp, ns, mapBuild, arrayBuild, setInstr, unaryInstr, keyStore])
  case case3 =>
    rename_i h base loop
    (try simp only [exprInCore, optInCore, kwInCore, arrayInCore, mapInCore, Bool.and_eq_true] at h)
    (try simp only [filtersInCore, Bool.and_eq_true] at h)
    (try simp only [nodeInCore, Bool.and_eq_true] at h)
    (try simp only [nodesInCore, Bool.and_eq_true] at h)
    (try simp only [exprCode, nodesCode, nodeCode, kwargsCode, filtersCode, condCode, arrayItemsCode, mapItemsCode])
    (try split) <;>
    (try simp_all (config := { zetaDelta := true }) only [allC_append, allC_cons, allC_nil, and_true, true_and, and_self]) <;>
    (try (simp only [NoI, sp, ns, mapBuild, arrayBuild, setInstr, unaryInstr, keyStore]; done)) <;>
    (try grind [NoI, sp, ns, mapBuild, arrayBuild, setInstr, unaryInstr, keyStore])
  case case4 =>
    rename_i h base loop
    (try simp only [exprInCore, optInCore, kwInCore, arrayInCore, mapInCore, Bool.and_eq_true] at h)
    (try simp only [filtersInCore, Bool.and_eq_true] at h)
    (try simp only [nodeInCore, Bool.and_eq_true] at h)
    (try simp only [nodesInCore, Bool.and_eq_true] at h)
    (try simp only [exprCode, nodesCode, nodeCode, kwargsCode, filtersCode, condCode, arrayItemsCode, mapItemsCode])
    (try split) <;>
    (try simp_all (config := { zetaDelta := true }) only [allC_append, allC_cons, allC_nil, and_true, true_and, and_self]) <;>
    (try (simp only [NoI, sp, ns, mapBuild, arrayBuild, setInstr, unaryInstr, keyStore]; done)) <;>
    (try grind [NoI, sp, ns, mapBuild, arrayBuild, setInstr, unaryInstr, keyStore])
  case case5 =>
    rename_i h base loop
    (try simp only [exprInCore, optInCore, kwInCore, arrayInCore, mapInCore, Bool.and_eq_true] at h)
    (try simp only [filtersInCore, Bool.and_eq_true] at h)
    (try simp only [nodeInCore, Bool.and_eq_true] at h)
    (try simp only [nodesInCore, Bool.and_eq_true] at h)
    (try simp only [exprCode, nodesCode, nodeCode, kwargsCode, filtersCode, condCode, arrayItemsCode, mapItemsCode])
    (try split) <;>
    (try simp_all (config := { zetaDelta := true }) only [allC_append, allC_cons, allC_nil, and_true, true_and, and_self]) <;>
    (try (simp only [NoI, sp, ns, mapBuild, arrayBuild, setInstr, unaryInstr, keyStore]; done)) <;>
    (try grind [NoI, sp, ns, mapBuild, arrayBuild, setInstr, unaryInstr, keyStore])
  case case6 =>
    rename_i h base loop
    (try simp only [exprInCore, optInCore, kwInCore, arrayInCore, mapInCore, Bool.and_eq_true] at h)
    (try simp only [filtersInCore, Bool.and_eq_true] at h)
    (try simp only [nodeInCore, Bool.and_eq_true] at h)
    (try simp only [nodesInCore, Bool.and_eq_true] at h)
    (try simp only [exprCode, nodesCode, nodeCode, kwargsCode, filtersCode, condCode, arrayItemsCode, mapItemsCode])
    (try split) <;>
    (try simp_all (config := { zetaDelta := true }) only [allC_append, allC_cons, allC_nil, and_true, true_and, and_self]) <;>
    (try (simp only [NoI, sp, ns, mapBuild, arrayBuild, setInstr, unaryInstr, keyStore]; done)) <;>
    (try grind [NoI, sp, ns, mapBuild, arrayBuild, setInstr, unaryInstr, keyStore])
  case case7 =>
    rename_i h base loop
    (try simp only [exprInCore, optInCore, kwInCore, arrayInCore, mapInCore, Bool.and_eq_true] at h)
    (try simp only [filtersInCore, Bool.and_eq_true] at h)
    (try simp only [nodeInCore, Bool.and_eq_true] at h)
    (try simp only [nodesInCore, Bool.and_eq_true] at h)
    (try simp only [exprCode, nodesCode, nodeCode, kwargsCode, filtersCode, condCode, arrayItemsCode, mapItemsCode])
    (try split) <;>
    (try simp_all (config := { zetaDelta := true }) only [allC_append, allC_cons, allC_nil, and_true, true_and, and_self]) <;>
    (try (simp only [NoI, sp, ns, mapBuild, arrayBuild, setInstr, unaryInstr, keyStore]; done)) <;>
    (try grind [NoI, sp, ns, mapBuild, arrayBuild, setInstr, unaryInstr, keyStore])
  case case8 =>
    rename_i h base loop
    (try simp only [exprInCore, optInCore, kwInCore, arrayInCore, mapInCore, Bool.and_eq_true] at h)
    (try simp only [filtersInCore, Bool.and_eq_true] at h)
    (try simp only [nodeInCore, Bool.and_eq_true] at h)
    (try simp only [nodesInCore, Bool.and_eq_true] at h)
    (try simp only [exprCode, nodesCode, nodeCode, kwargsCode, filtersCode, condCode, arrayItemsCode, mapItemsCode])
    (try split) <;>
    (try simp_all (config := { zetaDelta := true }) only [allC_append, allC_cons, allC_nil, and_true, true_and, and_self]) <;>
    (try (simp only [NoI, sp, ns, mapBuild, arrayBuild, setInstr, unaryInstr, keyStore]; done)) <;>
    (try grind [NoI, sp, ns, mapBuild, arrayBuild, setInstr, unaryInstr, keyStore])
  case case9 =>
    rename_i h base loop
    (try simp only [exprInCore, optInCore, kwInCore, arrayInCore, mapInCore, Bool.and_eq_true] at h)
    (try simp only [filtersInCore, Bool.and_eq_true] at h)
    (try simp only [nodeInCore, Bool.and_eq_true] at h)
    (try simp only [nodesInCore, Bool.and_eq_true] at h)
    (try simp only [exprCode, nodesCode, nodeCode, kwargsCode, filtersCode, condCode, arrayItemsCode, mapItemsCode])
    (try split) <;>
    (try simp_all (config := { zetaDelta := true }) only [allC_append, allC_cons, allC_nil, and_true, true_and, and_self]) <;>
    (try (simp only [NoI, sp, ns, mapBuild, arrayBuild, setInstr, unaryInstr, keyStore]; done)) <;>
    (try grind [NoI, sp, ns, mapBuild, arrayBuild, setInstr, unaryInstr, keyStore])
  case case10 =>
    rename_i h base loop
    (try simp only [exprInCore, optInCore, kwInCore, arrayInCore, mapInCore, Bool.and_eq_true] at h)
    (try simp only [filtersInCore, Bool.and_eq_true] at h)
    (try simp only [nodeInCore, Bool.and_eq_true] at h)
    (try simp only [nodesInCore, Bool.and_eq_true] at h)
    (try simp only [exprCode, nodesCode, nodeCode, kwargsCode, filtersCode, condCode, arrayItemsCode, mapItemsCode])
    (try split) <;>
    (try simp_all (config := { zetaDelta := true }) only [allC_append, allC_cons, allC_nil, and_true, true_and, and_self]) <;>
    (try (simp only [NoI, sp, ns, mapBuild, arrayBuild, setInstr, unaryInstr, keyStore]; done)) <;>
    (try grind [NoI, sp, ns, mapBuild, arrayBuild, setInstr, unaryInstr, keyStore])
  case case11 =>
    rename_i ihT ihC ihE h base loop
    simp only [exprInCore, Bool.and_eq_true] at h
    have a := ihT h.1.2
    have b := ihC h.2
    have c := ihE h.1.1
    clear ihT ihC ihE
    (try simp only [exprCode, nodesCode, nodeCode, kwargsCode, filtersCode, condCode, arrayItemsCode, mapItemsCode])
    (try split) <;>
    (try simp_all (config := { zetaDelta := true }) only [allC_append, allC_cons, allC_nil, and_true, true_and, and_self, allC_keyStore]) <;>
    (try (simp only [NoI, sp, ns, mapBuild, arrayBuild, setInstr, unaryInstr, keyStore]; done)) <;>
    (try grind [NoI, sp, ns, mapBuild, arrayBuild, setInstr, unaryInstr, keyStore])
  case case12 =>
    rename_i h base loop
    (try simp only [exprInCore, optInCore, kwInCore, arrayInCore, mapInCore, Bool.and_eq_true] at h)
    (try simp only [filtersInCore, Bool.and_eq_true] at h)
    (try simp only [nodeInCore, Bool.and_eq_true] at h)
    (try simp only [nodesInCore, Bool.and_eq_true] at h)
    (try simp only [exprCode, nodesCode, nodeCode, kwargsCode, filtersCode, condCode, arrayItemsCode, mapItemsCode])
    (try split) <;>
    (try simp_all (config := { zetaDelta := true }) only [allC_append, allC_cons, allC_nil, and_true, true_and, and_self]) <;>
    (try (simp only [NoI, sp, ns, mapBuild, arrayBuild, setInstr, unaryInstr, keyStore]; done)) <;>
    (try grind [NoI, sp, ns, mapBuild, arrayBuild, setInstr, unaryInstr, keyStore])
  case case13 =>
    rename_i h base loop
    (try simp only [exprInCore, optInCore, kwInCore, arrayInCore, mapInCore, Bool.and_eq_true] at h)
    (try simp only [filtersInCore, Bool.and_eq_true] at h)
    (try simp only [nodeInCore, Bool.and_eq_true] at h)
    (try simp only [nodesInCore, Bool.and_eq_true] at h)
    (try simp only [exprCode, nodesCode, nodeCode, kwargsCode, filtersCode, condCode, arrayItemsCode, mapItemsCode])
    (try split) <;>
    (try simp_all (config := { zetaDelta := true }) only [allC_append, allC_cons, allC_nil, and_true, true_and, and_self]) <;>
    (try (simp only [NoI, sp, ns, mapBuild, arrayBuild, setInstr, unaryInstr, keyStore]; done)) <;>
    (try grind [NoI, sp, ns, mapBuild, arrayBuild, setInstr, unaryInstr, keyStore])
  case case14 =>
    rename_i ih h base loop
    simp only [exprInCore] at h
    simp only [exprCode, allC_append, allC_cons, allC_nil, and_true]
    refine ⟨ih h base loop, ?_⟩
    rename_i op _
    cases op <;> intro n hn <;> cases hn
  case case15 =>
    rename_i ihL ihR h base loop
    simp only [exprInCore, Bool.and_eq_true] at h
    simp only [exprCode, allC_append, allC_cons, allC_nil, and_true, if_true]
    exact ⟨⟨ihL h.1.2 _ _, fun n hn => by cases hn⟩, ihR h.2 _ _⟩
  case case16 =>
    rename_i h base loop
    (try simp only [exprInCore, optInCore, kwInCore, arrayInCore, mapInCore, Bool.and_eq_true] at h)
    (try simp only [filtersInCore, Bool.and_eq_true] at h)
    (try simp only [nodeInCore, Bool.and_eq_true] at h)
    (try simp only [nodesInCore, Bool.and_eq_true] at h)
    (try simp only [exprCode, nodesCode, nodeCode, kwargsCode, filtersCode, condCode, arrayItemsCode, mapItemsCode])
    (try split) <;>
    (try simp_all (config := { zetaDelta := true }) only [allC_append, allC_cons, allC_nil, and_true, true_and, and_self]) <;>
    (try (simp only [NoI, sp, ns, mapBuild, arrayBuild, setInstr, unaryInstr, keyStore]; done)) <;>
    (try grind [NoI, sp, ns, mapBuild, arrayBuild, setInstr, unaryInstr, keyStore])
  case case17 =>
    rename_i h base loop
    (try simp only [exprInCore, optInCore, kwInCore, arrayInCore, mapInCore, Bool.and_eq_true] at h)
    (try simp only [filtersInCore, Bool.and_eq_true] at h)
    (try simp only [nodeInCore, Bool.and_eq_true] at h)
    (try simp only [nodesInCore, Bool.and_eq_true] at h)
    (try simp only [exprCode, nodesCode, nodeCode, kwargsCode, filtersCode, condCode, arrayItemsCode, mapItemsCode])
    (try split) <;>
    (try simp_all (config := { zetaDelta := true }) only [allC_append, allC_cons, allC_nil, and_true, true_and, and_self]) <;>
    (try (simp only [NoI, sp, ns, mapBuild, arrayBuild, setInstr, unaryInstr, keyStore]; done)) <;>
    (try grind [NoI, sp, ns, mapBuild, arrayBuild, setInstr, unaryInstr, keyStore])
  case case18 =>
    rename_i h base loop
    (try simp only [exprInCore, optInCore, kwInCore, arrayInCore, mapInCore, Bool.and_eq_true] at h)
    (try simp only [filtersInCore, Bool.and_eq_true] at h)
    (try simp only [nodeInCore, Bool.and_eq_true] at h)
    (try simp only [nodesInCore, Bool.and_eq_true] at h)
    (try simp only [exprCode, nodesCode, nodeCode, kwargsCode, filtersCode, condCode, arrayItemsCode, mapItemsCode])
    (try split) <;>
    (try simp_all (config := { zetaDelta := true }) only [allC_append, allC_cons, allC_nil, and_true, true_and, and_self]) <;>
    (try (simp only [NoI, sp, ns, mapBuild, arrayBuild, setInstr, unaryInstr, keyStore]; done)) <;>
    (try grind [NoI, sp, ns, mapBuild, arrayBuild, setInstr, unaryInstr, keyStore])
  case case19 =>
    rename_i h base loop
    (try simp only [exprInCore, optInCore, kwInCore, arrayInCore, mapInCore, Bool.and_eq_true] at h)
    (try simp only [filtersInCore, Bool.and_eq_true] at h)
    (try simp only [nodeInCore, Bool.and_eq_true] at h)
    (try simp only [nodesInCore, Bool.and_eq_true] at h)
    (try simp only [exprCode, nodesCode, nodeCode, kwargsCode, filtersCode, condCode, arrayItemsCode, mapItemsCode])
    (try split) <;>
    (try simp_all (config := { zetaDelta := true }) only [allC_append, allC_cons, allC_nil, and_true, true_and, and_self]) <;>
    (try (simp only [NoI, sp, ns, mapBuild, arrayBuild, setInstr, unaryInstr, keyStore]; done)) <;>
    (try grind [NoI, sp, ns, mapBuild, arrayBuild, setInstr, unaryInstr, keyStore])
  case case20 =>
    rename_i h base loop
    (try simp only [exprInCore, optInCore, kwInCore, arrayInCore, mapInCore, Bool.and_eq_true] at h)
    (try simp only [filtersInCore, Bool.and_eq_true] at h)
    (try simp only [nodeInCore, Bool.and_eq_true] at h)
    (try simp only [nodesInCore, Bool.and_eq_true] at h)
    (try simp only [exprCode, nodesCode, nodeCode, kwargsCode, filtersCode, condCode, arrayItemsCode, mapItemsCode])
    (try split) <;>
    (try simp_all (config := { zetaDelta := true }) only [allC_append, allC_cons, allC_nil, and_true, true_and, and_self]) <;>
    (try (simp only [NoI, sp, ns, mapBuild, arrayBuild, setInstr, unaryInstr, keyStore]; done)) <;>
    (try grind [NoI, sp, ns, mapBuild, arrayBuild, setInstr, unaryInstr, keyStore])
  case case21 =>
    rename_i h base loop
    (try simp only [exprInCore, optInCore, kwInCore, arrayInCore, mapInCore, Bool.and_eq_true] at h)
    (try simp only [filtersInCore, Bool.and_eq_true] at h)
    (try simp only [nodeInCore, Bool.and_eq_true] at h)
    (try simp only [nodesInCore, Bool.and_eq_true] at h)
    (try simp only [exprCode, nodesCode, nodeCode, kwargsCode, filtersCode, condCode, arrayItemsCode, mapItemsCode])
    (try split) <;>
    (try simp_all (config := { zetaDelta := true }) only [allC_append, allC_cons, allC_nil, and_true, true_and, and_self]) <;>
    (try (simp only [NoI, sp, ns, mapBuild, arrayBuild, setInstr, unaryInstr, keyStore]; done)) <;>
    (try grind [NoI, sp, ns, mapBuild, arrayBuild, setInstr, unaryInstr, keyStore])
  case case22 =>
    rename_i h base loop
    (try simp only [exprInCore, optInCore, kwInCore, arrayInCore, mapInCore, Bool.and_eq_true] at h)
    (try simp only [filtersInCore, Bool.and_eq_true] at h)
    (try simp only [nodeInCore, Bool.and_eq_true] at h)
    (try simp only [nodesInCore, Bool.and_eq_true] at h)
    (try simp only [exprCode, nodesCode, nodeCode, kwargsCode, filtersCode, condCode, arrayItemsCode, mapItemsCode])
    (try split) <;>
    (try simp_all (config := { zetaDelta := true }) only [allC_append, allC_cons, allC_nil, and_true, true_and, and_self]) <;>
    (try (simp only [NoI, sp, ns, mapBuild, arrayBuild, setInstr, unaryInstr, keyStore]; done)) <;>
    (try grind [NoI, sp, ns, mapBuild, arrayBuild, setInstr, unaryInstr, keyStore])
  case case23 =>
    rename_i h base loop
    (try simp only [exprInCore, optInCore, kwInCore, arrayInCore, mapInCore, Bool.and_eq_true] at h)
    (try simp only [filtersInCore, Bool.and_eq_true] at h)
    (try simp only [nodeInCore, Bool.and_eq_true] at h)
    (try simp only [nodesInCore, Bool.and_eq_true] at h)
    (try simp only [exprCode, nodesCode, nodeCode, kwargsCode, filtersCode, condCode, arrayItemsCode, mapItemsCode])
    (try split) <;>
    (try simp_all (config := { zetaDelta := true }) only [allC_append, allC_cons, allC_nil, and_true, true_and, and_self]) <;>
    (try (simp only [NoI, sp, ns, mapBuild, arrayBuild, setInstr, unaryInstr, keyStore]; done)) <;>
    (try grind [NoI, sp, ns, mapBuild, arrayBuild, setInstr, unaryInstr, keyStore])
  case case24 =>
    rename_i h base loop
    (try simp only [exprInCore, optInCore, kwInCore, arrayInCore, mapInCore, Bool.and_eq_true] at h)
    (try simp only [filtersInCore, Bool.and_eq_true] at h)
    (try simp only [nodeInCore, Bool.and_eq_true] at h)
    (try simp only [nodesInCore, Bool.and_eq_true] at h)
    (try simp only [exprCode, nodesCode, nodeCode, kwargsCode, filtersCode, condCode, arrayItemsCode, mapItemsCode])
    (try split) <;>
    (try simp_all (config := { zetaDelta := true }) only [allC_append, allC_cons, allC_nil, and_true, true_and, and_self]) <;>
    (try (simp only [NoI, sp, ns, mapBuild, arrayBuild, setInstr, unaryInstr, keyStore]; done)) <;>
    (try grind [NoI, sp, ns, mapBuild, arrayBuild, setInstr, unaryInstr, keyStore])
  case case25 =>
    rename_i h base loop
    (try simp only [exprInCore, optInCore, kwInCore, arrayInCore, mapInCore, Bool.and_eq_true] at h)
    (try simp only [filtersInCore, Bool.and_eq_true] at h)
    (try simp only [nodeInCore, Bool.and_eq_true] at h)
    (try simp only [nodesInCore, Bool.and_eq_true] at h)
    (try simp only [exprCode, nodesCode, nodeCode, kwargsCode, filtersCode, condCode, arrayItemsCode, mapItemsCode])
    (try split) <;>
    (try simp_all (config := { zetaDelta := true }) only [allC_append, allC_cons, allC_nil, and_true, true_and, and_self]) <;>
    (try (simp only [NoI, sp, ns, mapBuild, arrayBuild, setInstr, unaryInstr, keyStore]; done)) <;>
    (try grind [NoI, sp, ns, mapBuild, arrayBuild, setInstr, unaryInstr, keyStore])
  case case26 =>
    rename_i ihT ihB ihE il h base loop
    simp only [nodeInCore, Bool.and_eq_true] at h
    have a := ihT h.1.1
    have b := ihB true h.1.2
    have c := ihE il h.2
    clear ihT ihB ihE
    (try simp only [exprCode, nodesCode, nodeCode, kwargsCode, filtersCode, condCode, arrayItemsCode, mapItemsCode])
    (try split) <;>
    (try simp_all (config := { zetaDelta := true }) only [allC_append, allC_cons, allC_nil, and_true, true_and, and_self, allC_keyStore]) <;>
    (try (simp only [NoI, sp, ns, mapBuild, arrayBuild, setInstr, unaryInstr, keyStore]; done)) <;>
    (try grind [NoI, sp, ns, mapBuild, arrayBuild, setInstr, unaryInstr, keyStore])
  case case27 =>
    rename_i ihT ihB il h base loop
    simp only [nodeInCore, Bool.and_eq_true] at h
    have a := ihT h.1.1
    have b := ihB true h.1.2
    clear ihT ihB
    (try simp only [exprCode, nodesCode, nodeCode, kwargsCode, filtersCode, condCode, arrayItemsCode, mapItemsCode])
    (try split) <;>
    (try simp_all (config := { zetaDelta := true }) only [allC_append, allC_cons, allC_nil, and_true, true_and, and_self, allC_keyStore]) <;>
    (try (simp only [NoI, sp, ns, mapBuild, arrayBuild, setInstr, unaryInstr, keyStore]; done)) <;>
    (try grind [NoI, sp, ns, mapBuild, arrayBuild, setInstr, unaryInstr, keyStore])
  case case28 =>
    rename_i h base loop
    (try simp only [exprInCore, optInCore, kwInCore, arrayInCore, mapInCore, Bool.and_eq_true] at h)
    (try simp only [filtersInCore, Bool.and_eq_true] at h)
    (try simp only [nodeInCore, Bool.and_eq_true] at h)
    (try simp only [nodesInCore, Bool.and_eq_true] at h)
    (try simp only [exprCode, nodesCode, nodeCode, kwargsCode, filtersCode, condCode, arrayItemsCode, mapItemsCode])
    (try split) <;>
    (try simp_all (config := { zetaDelta := true }) only [allC_append, allC_cons, allC_nil, and_true, true_and, and_self]) <;>
    (try (simp only [NoI, sp, ns, mapBuild, arrayBuild, setInstr, unaryInstr, keyStore]; done)) <;>
    (try grind [NoI, sp, ns, mapBuild, arrayBuild, setInstr, unaryInstr, keyStore])
  case case29 =>
    rename_i h base loop
    (try simp only [exprInCore, optInCore, kwInCore, arrayInCore, mapInCore, Bool.and_eq_true] at h)
    (try simp only [filtersInCore, Bool.and_eq_true] at h)
    (try simp only [nodeInCore, Bool.and_eq_true] at h)
    (try simp only [nodesInCore, Bool.and_eq_true] at h)
    (try simp only [exprCode, nodesCode, nodeCode, kwargsCode, filtersCode, condCode, arrayItemsCode, mapItemsCode])
    (try split) <;>
    (try simp_all (config := { zetaDelta := true }) only [allC_append, allC_cons, allC_nil, and_true, true_and, and_self]) <;>
    (try (simp only [NoI, sp, ns, mapBuild, arrayBuild, setInstr, unaryInstr, keyStore]; done)) <;>
    (try grind [NoI, sp, ns, mapBuild, arrayBuild, setInstr, unaryInstr, keyStore])
  case case30 =>
    rename_i h base loop
    (try simp only [exprInCore, optInCore, kwInCore, arrayInCore, mapInCore, Bool.and_eq_true] at h)
    (try simp only [filtersInCore, Bool.and_eq_true] at h)
    (try simp only [nodeInCore, Bool.and_eq_true] at h)
    (try simp only [nodesInCore, Bool.and_eq_true] at h)
    (try simp only [exprCode, nodesCode, nodeCode, kwargsCode, filtersCode, condCode, arrayItemsCode, mapItemsCode])
    (try split) <;>
    (try simp_all (config := { zetaDelta := true }) only [allC_append, allC_cons, allC_nil, and_true, true_and, and_self]) <;>
    (try (simp only [NoI, sp, ns, mapBuild, arrayBuild, setInstr, unaryInstr, keyStore]; done)) <;>
    (try grind [NoI, sp, ns, mapBuild, arrayBuild, setInstr, unaryInstr, keyStore])
  case case31 =>
    rename_i h base loop
    (try simp only [exprInCore, optInCore, kwInCore, arrayInCore, mapInCore, Bool.and_eq_true] at h)
    (try simp only [filtersInCore, Bool.and_eq_true] at h)
    (try simp only [nodeInCore, Bool.and_eq_true] at h)
    (try simp only [nodesInCore, Bool.and_eq_true] at h)
    (try simp only [exprCode, nodesCode, nodeCode, kwargsCode, filtersCode, condCode, arrayItemsCode, mapItemsCode])
    (try split) <;>
    (try simp_all (config := { zetaDelta := true }) only [allC_append, allC_cons, allC_nil, and_true, true_and, and_self]) <;>
    (try (simp only [NoI, sp, ns, mapBuild, arrayBuild, setInstr, unaryInstr, keyStore]; done)) <;>
    (try grind [NoI, sp, ns, mapBuild, arrayBuild, setInstr, unaryInstr, keyStore])
  case case32 =>
    rename_i h base loop
    (try simp only [exprInCore, optInCore, kwInCore, arrayInCore, mapInCore, Bool.and_eq_true] at h)
    (try simp only [filtersInCore, Bool.and_eq_true] at h)
    (try simp only [nodeInCore, Bool.and_eq_true] at h)
    (try simp only [nodesInCore, Bool.and_eq_true] at h)
    (try simp only [exprCode, nodesCode, nodeCode, kwargsCode, filtersCode, condCode, arrayItemsCode, mapItemsCode])
    (try split) <;>
    (try simp_all (config := { zetaDelta := true }) only [allC_append, allC_cons, allC_nil, and_true, true_and, and_self]) <;>
    (try (simp only [NoI, sp, ns, mapBuild, arrayBuild, setInstr, unaryInstr, keyStore]; done)) <;>
    (try grind [NoI, sp, ns, mapBuild, arrayBuild, setInstr, unaryInstr, keyStore])
  case case33 =>
    rename_i h base loop
    (try simp only [exprInCore, optInCore, kwInCore, arrayInCore, mapInCore, Bool.and_eq_true] at h)
    (try simp only [filtersInCore, Bool.and_eq_true] at h)
    (try simp only [nodeInCore, Bool.and_eq_true] at h)
    (try simp only [nodesInCore, Bool.and_eq_true] at h)
    (try simp only [exprCode, nodesCode, nodeCode, kwargsCode, filtersCode, condCode, arrayItemsCode, mapItemsCode])
    (try split) <;>
    (try simp_all (config := { zetaDelta := true }) only [allC_append, allC_cons, allC_nil, and_true, true_and, and_self]) <;>
    (try (simp only [NoI, sp, ns, mapBuild, arrayBuild, setInstr, unaryInstr, keyStore]; done)) <;>
    (try grind [NoI, sp, ns, mapBuild, arrayBuild, setInstr, unaryInstr, keyStore])
  case case34 =>
    rename_i h base loop
    (try simp only [exprInCore, optInCore, kwInCore, arrayInCore, mapInCore, Bool.and_eq_true] at h)
    (try simp only [filtersInCore, Bool.and_eq_true] at h)
    (try simp only [nodeInCore, Bool.and_eq_true] at h)
    (try simp only [nodesInCore, Bool.and_eq_true] at h)
    (try simp only [exprCode, nodesCode, nodeCode, kwargsCode, filtersCode, condCode, arrayItemsCode, mapItemsCode])
    (try split) <;>
    (try simp_all (config := { zetaDelta := true }) only [allC_append, allC_cons, allC_nil, and_true, true_and, and_self]) <;>
    (try (simp only [NoI, sp, ns, mapBuild, arrayBuild, setInstr, unaryInstr, keyStore]; done)) <;>
    (try grind [NoI, sp, ns, mapBuild, arrayBuild, setInstr, unaryInstr, keyStore])
  case case35 =>
    rename_i h base loop
    (try simp only [exprInCore, optInCore, kwInCore, arrayInCore, mapInCore, Bool.and_eq_true] at h)
    (try simp only [filtersInCore, Bool.and_eq_true] at h)
    (try simp only [nodeInCore, Bool.and_eq_true] at h)
    (try simp only [nodesInCore, Bool.and_eq_true] at h)
    (try simp only [exprCode, nodesCode, nodeCode, kwargsCode, filtersCode, condCode, arrayItemsCode, mapItemsCode])
    (try split) <;>
    (try simp_all (config := { zetaDelta := true }) only [allC_append, allC_cons, allC_nil, and_true, true_and, and_self]) <;>
    (try (simp only [NoI, sp, ns, mapBuild, arrayBuild, setInstr, unaryInstr, keyStore]; done)) <;>
    (try grind [NoI, sp, ns, mapBuild, arrayBuild, setInstr, unaryInstr, keyStore])
  case case36 =>
    rename_i h base loop
    (try simp only [exprInCore, optInCore, kwInCore, arrayInCore, mapInCore, Bool.and_eq_true] at h)
    (try simp only [filtersInCore, Bool.and_eq_true] at h)
    (try simp only [nodeInCore, Bool.and_eq_true] at h)
    (try simp only [nodesInCore, Bool.and_eq_true] at h)
    (try simp only [exprCode, nodesCode, nodeCode, kwargsCode, filtersCode, condCode, arrayItemsCode, mapItemsCode])
    (try split) <;>
    (try simp_all (config := { zetaDelta := true }) only [allC_append, allC_cons, allC_nil, and_true, true_and, and_self]) <;>
    (try (simp only [NoI, sp, ns, mapBuild, arrayBuild, setInstr, unaryInstr, keyStore]; done)) <;>
    (try grind [NoI, sp, ns, mapBuild, arrayBuild, setInstr, unaryInstr, keyStore])
  case case37 =>
    rename_i h base loop
    (try simp only [exprInCore, optInCore, kwInCore, arrayInCore, mapInCore, Bool.and_eq_true] at h)
    (try simp only [filtersInCore, Bool.and_eq_true] at h)
    (try simp only [nodeInCore, Bool.and_eq_true] at h)
    (try simp only [nodesInCore, Bool.and_eq_true] at h)
    (try simp only [exprCode, nodesCode, nodeCode, kwargsCode, filtersCode, condCode, arrayItemsCode, mapItemsCode])
    (try split) <;>
    (try simp_all (config := { zetaDelta := true }) only [allC_append, allC_cons, allC_nil, and_true, true_and, and_self]) <;>
    (try (simp only [NoI, sp, ns, mapBuild, arrayBuild, setInstr, unaryInstr, keyStore]; done)) <;>
    (try grind [NoI, sp, ns, mapBuild, arrayBuild, setInstr, unaryInstr, keyStore])
  case case38 =>
    rename_i h base loop
    (try simp only [exprInCore, optInCore, kwInCore, arrayInCore, mapInCore, Bool.and_eq_true] at h)
    (try simp only [filtersInCore, Bool.and_eq_true] at h)
    (try simp only [nodeInCore, Bool.and_eq_true] at h)
    (try simp only [nodesInCore, Bool.and_eq_true] at h)
    (try simp only [exprCode, nodesCode, nodeCode, kwargsCode, filtersCode, condCode, arrayItemsCode, mapItemsCode])
    (try split) <;>
    (try simp_all (config := { zetaDelta := true }) only [allC_append, allC_cons, allC_nil, and_true, true_and, and_self]) <;>
    (try (simp only [NoI, sp, ns, mapBuild, arrayBuild, setInstr, unaryInstr, keyStore]; done)) <;>
    (try grind [NoI, sp, ns, mapBuild, arrayBuild, setInstr, unaryInstr, keyStore])
  case case39 =>
    rename_i h base loop
    (try simp only [exprInCore, optInCore, kwInCore, arrayInCore, mapInCore, Bool.and_eq_true] at h)
    (try simp only [filtersInCore, Bool.and_eq_true] at h)
    (try simp only [nodeInCore, Bool.and_eq_true] at h)
    (try simp only [nodesInCore, Bool.and_eq_true] at h)
    (try simp only [exprCode, nodesCode, nodeCode, kwargsCode, filtersCode, condCode, arrayItemsCode, mapItemsCode])
    (try split) <;>
    (try simp_all (config := { zetaDelta := true }) only [allC_append, allC_cons, allC_nil, and_true, true_and, and_self]) <;>
    (try (simp only [NoI, sp, ns, mapBuild, arrayBuild, setInstr, unaryInstr, keyStore]; done)) <;>
    (try grind [NoI, sp, ns, mapBuild, arrayBuild, setInstr, unaryInstr, keyStore])
  case case40 =>
    rename_i h base loop
    (try simp only [exprInCore, optInCore, kwInCore, arrayInCore, mapInCore, Bool.and_eq_true] at h)
    (try simp only [filtersInCore, Bool.and_eq_true] at h)
    (try simp only [nodeInCore, Bool.and_eq_true] at h)
    (try simp only [nodesInCore, Bool.and_eq_true] at h)
    (try simp only [exprCode, nodesCode, nodeCode, kwargsCode, filtersCode, condCode, arrayItemsCode, mapItemsCode])
    (try split) <;>
    (try simp_all (config := { zetaDelta := true }) only [allC_append, allC_cons, allC_nil, and_true, true_and, and_self]) <;>
    (try (simp only [NoI, sp, ns, mapBuild, arrayBuild, setInstr, unaryInstr, keyStore]; done)) <;>
    (try grind [NoI, sp, ns, mapBuild, arrayBuild, setInstr, unaryInstr, keyStore])
  case case41 =>
    rename_i h base loop
    (try simp only [exprInCore, optInCore, kwInCore, arrayInCore, mapInCore, Bool.and_eq_true] at h)
    (try simp only [filtersInCore, Bool.and_eq_true] at h)
    (try simp only [nodeInCore, Bool.and_eq_true] at h)
    (try simp only [nodesInCore, Bool.and_eq_true] at h)
    (try simp only [exprCode, nodesCode, nodeCode, kwargsCode, filtersCode, condCode, arrayItemsCode, mapItemsCode])
    (try split) <;>
    (try simp_all (config := { zetaDelta := true }) only [allC_append, allC_cons, allC_nil, and_true, true_and, and_self]) <;>
    (try (simp only [NoI, sp, ns, mapBuild, arrayBuild, setInstr, unaryInstr, keyStore]; done)) <;>
    (try grind [NoI, sp, ns, mapBuild, arrayBuild, setInstr, unaryInstr, keyStore])
  case case44 =>
    rename_i h base loop
    (try simp only [exprInCore, optInCore, kwInCore, arrayInCore, mapInCore, Bool.and_eq_true] at h)
    (try simp only [filtersInCore, Bool.and_eq_true] at h)
    (try simp only [nodeInCore, Bool.and_eq_true] at h)
    (try simp only [nodesInCore, Bool.and_eq_true] at h)
    (try simp only [exprCode, nodesCode, nodeCode, kwargsCode, filtersCode, condCode, arrayItemsCode, mapItemsCode])
    (try split) <;>
    (try simp_all (config := { zetaDelta := true }) only [allC_append, allC_cons, allC_nil, and_true, true_and, and_self]) <;>
    (try (simp only [NoI, sp, ns, mapBuild, arrayBuild, setInstr, unaryInstr, keyStore]; done)) <;>
    (try grind [NoI, sp, ns, mapBuild, arrayBuild, setInstr, unaryInstr, keyStore])
  case case45 =>
    rename_i h base loop
    (try simp only [exprInCore, optInCore, kwInCore, arrayInCore, mapInCore, Bool.and_eq_true] at h)
    (try simp only [filtersInCore, Bool.and_eq_true] at h)
    (try simp only [nodeInCore, Bool.and_eq_true] at h)
    (try simp only [nodesInCore, Bool.and_eq_true] at h)
    (try simp only [exprCode, nodesCode, nodeCode, kwargsCode, filtersCode, condCode, arrayItemsCode, mapItemsCode])
    (try split) <;>
    (try simp_all (config := { zetaDelta := true }) only [allC_append, allC_cons, allC_nil, and_true, true_and, and_self]) <;>
    (try (simp only [NoI, sp, ns, mapBuild, arrayBuild, setInstr, unaryInstr, keyStore]; done)) <;>
    (try grind [NoI, sp, ns, mapBuild, arrayBuild, setInstr, unaryInstr, keyStore])
  case case46 =>
    rename_i h base loop
    (try simp only [exprInCore, optInCore, kwInCore, arrayInCore, mapInCore, Bool.and_eq_true] at h)
    (try simp only [filtersInCore, Bool.and_eq_true] at h)
    (try simp only [nodeInCore, Bool.and_eq_true] at h)
    (try simp only [nodesInCore, Bool.and_eq_true] at h)
    (try simp only [exprCode, nodesCode, nodeCode, kwargsCode, filtersCode, condCode, arrayItemsCode, mapItemsCode])
    (try split) <;>
    (try simp_all (config := { zetaDelta := true }) only [allC_append, allC_cons, allC_nil, and_true, true_and, and_self]) <;>
    (try (simp only [NoI, sp, ns, mapBuild, arrayBuild, setInstr, unaryInstr, keyStore]; done)) <;>
    (try grind [NoI, sp, ns, mapBuild, arrayBuild, setInstr, unaryInstr, keyStore])
  case case47 =>
    rename_i h base loop
    (try simp only [exprInCore, optInCore, kwInCore, arrayInCore, mapInCore, Bool.and_eq_true] at h)
    (try simp only [filtersInCore, Bool.and_eq_true] at h)
    (try simp only [nodeInCore, Bool.and_eq_true] at h)
    (try simp only [nodesInCore, Bool.and_eq_true] at h)
    (try simp only [exprCode, nodesCode, nodeCode, kwargsCode, filtersCode, condCode, arrayItemsCode, mapItemsCode])
    (try split) <;>
    (try simp_all (config := { zetaDelta := true }) only [allC_append, allC_cons, allC_nil, and_true, true_and, and_self]) <;>
    (try (simp only [NoI, sp, ns, mapBuild, arrayBuild, setInstr, unaryInstr, keyStore]; done)) <;>
    (try grind [NoI, sp, ns, mapBuild, arrayBuild, setInstr, unaryInstr, keyStore])
  case case48 =>
    rename_i h base loop
    (try simp only [exprInCore, optInCore, kwInCore, arrayInCore, mapInCore, Bool.and_eq_true] at h)
    (try simp only [filtersInCore, Bool.and_eq_true] at h)
    (try simp only [nodeInCore, Bool.and_eq_true] at h)
    (try simp only [nodesInCore, Bool.and_eq_true] at h)
    (try simp only [exprCode, nodesCode, nodeCode, kwargsCode, filtersCode, condCode, arrayItemsCode, mapItemsCode])
    (try split) <;>
    (try simp_all (config := { zetaDelta := true }) only [allC_append, allC_cons, allC_nil, and_true, true_and, and_self]) <;>
    (try (simp only [NoI, sp, ns, mapBuild, arrayBuild, setInstr, unaryInstr, keyStore]; done)) <;>
    (try grind [NoI, sp, ns, mapBuild, arrayBuild, setInstr, unaryInstr, keyStore])
  case case49 =>
    rename_i h base loop
    (try simp only [exprInCore, optInCore, kwInCore, arrayInCore, mapInCore, Bool.and_eq_true] at h)
    (try simp only [filtersInCore, Bool.and_eq_true] at h)
    (try simp only [nodeInCore, Bool.and_eq_true] at h)
    (try simp only [nodesInCore, Bool.and_eq_true] at h)
    (try simp only [exprCode, nodesCode, nodeCode, kwargsCode, filtersCode, condCode, arrayItemsCode, mapItemsCode])
    (try split) <;>
    (try simp_all (config := { zetaDelta := true }) only [allC_append, allC_cons, allC_nil, and_true, true_and, and_self]) <;>
    (try (simp only [NoI, sp, ns, mapBuild, arrayBuild, setInstr, unaryInstr, keyStore]; done)) <;>
    (try grind [NoI, sp, ns, mapBuild, arrayBuild, setInstr, unaryInstr, keyStore])
  case case50 =>
    rename_i h base loop
    (try simp only [exprInCore, optInCore, kwInCore, arrayInCore, mapInCore, Bool.and_eq_true] at h)
    (try simp only [filtersInCore, Bool.and_eq_true] at h)
    (try simp only [nodeInCore, Bool.and_eq_true] at h)
    (try simp only [nodesInCore, Bool.and_eq_true] at h)
    (try simp only [exprCode, nodesCode, nodeCode, kwargsCode, filtersCode, condCode, arrayItemsCode, mapItemsCode])
    (try split) <;>
    (try simp_all (config := { zetaDelta := true }) only [allC_append, allC_cons, allC_nil, and_true, true_and, and_self]) <;>
    (try (simp only [NoI, sp, ns, mapBuild, arrayBuild, setInstr, unaryInstr, keyStore]; done)) <;>
    (try grind [NoI, sp, ns, mapBuild, arrayBuild, setInstr, unaryInstr, keyStore])

/-- the compiled code of an include-free in-domain statement list has no `Include` -/
theorem noI_nodes (il : Bool) (ns : List Node) (h : nodesInCore [] il ns = true) (base : Nat)
    (loop : Option Nat) : AllC NoI (nodesCode base loop ns) :=
  noInc_aux.2.1 0 none ns il h base loop

theorem embed_eq_typedCode (code : Code) : embed code = Pipeline.typedCode code := rfl

theorem mapM_typed_mem : ∀ (code : Code) (tcode : List VEntry), Pipeline.typedCode code = some tcode →
    ∀ ve ∈ tcode, ∃ ce ∈ code, Pipeline.vinstr ce.1 = some ve.1
  | [], tcode, h, ve, hve => by
    simp [Pipeline.typedCode] at h; subst h; cases hve
  | ce :: rest, tcode, h, ve, hve => by
    simp only [Pipeline.typedCode, List.mapM_cons, Option.bind_eq_bind, Option.pure_def] at h
    cases hv : Pipeline.vinstr ce.1 with
    | none => simp [hv] at h
    | some vi =>
      simp only [hv, Option.map_some, Option.bind_some] at h
      cases hr : List.mapM (fun e => (Pipeline.vinstr e.1).map (·, Pipeline.spansOf e.2)) rest with
      | none => simp [hr] at h
      | some vrest =>
        simp only [hr, Option.bind_some, Option.some.injEq] at h
        subst h
        rcases List.mem_cons.mp hve with rfl | hm
        · exact ⟨ce, List.mem_cons_self, hv⟩
        · obtain ⟨ce', hce', hv'⟩ := mapM_typed_mem rest vrest hr ve hm
          exact ⟨ce', List.mem_cons_of_mem _ hce', hv'⟩

theorem noInclude_typed (code : Code) (tcode : List VEntry) (ht : Pipeline.typedCode code = some tcode)
    (h : AllC NoI code) : noInclude tcode = true := by
  unfold noInclude
  rw [List.all_eq_true]
  intro ve hve
  obtain ⟨ce, hce, hv⟩ := mapM_typed_mem code tcode ht ve hve
  have hno := h ce hce
  obtain ⟨ci, b⟩ := ce
  cases ci
  case «include» n => exact absurd rfl (hno n)
  case binop op => cases op <;> simp only [Pipeline.vinstr, Option.some.injEq] at hv <;> first | (rw [← hv]) | cases hv
  all_goals (simp only [Pipeline.vinstr, Option.some.injEq] at hv; rw [← hv])

/-- the typed compiled chunk of an include-free in-domain statement list has no `Include` -/
theorem noInclude_nodes (il : Bool) (ns : List Node) (h : nodesInCore [] il ns = true)
    (tcode : List VEntry) (ht : Pipeline.typedCode (nodesCode 0 none ns) = some tcode) :
    noInclude tcode = true :=
  noInclude_typed _ tcode ht (noI_nodes il ns h 0 none)

theorem typedCode_of_vi : ∀ (code : Code), AllC Pipeline.VI code → ∃ tcode, Pipeline.typedCode code = some tcode
  | [], _ => ⟨[], rfl⟩
  | ce :: rest, h => by
    obtain ⟨trest, hr⟩ := typedCode_of_vi rest (fun y hy => h y (List.mem_cons_of_mem _ hy))
    have hce := h ce List.mem_cons_self
    unfold Pipeline.VI at hce
    cases hv : Pipeline.vinstr ce.1 with
    | none => rw [hv] at hce; cases hce
    | some vi =>
      refine ⟨(vi, Pipeline.spansOf ce.2) :: trest, ?_⟩
      unfold Pipeline.typedCode at hr ⊢
      simp [List.mapM_cons, hv, hr]

/-- the typed form of a compiled statement list exists -/
theorem typedCode_nodes (ns : List Node) : ∃ tcode, Pipeline.typedCode (nodesCode 0 none ns) = some tcode :=
  typedCode_of_vi _ (Pipeline.vi_nodes ns 0 none)

/-! ### the nested interpreter is not called -/

/-- the nested interpreter that is always out of fuel (nesting fuel 0) -/
def rec0 : VmCtx → Chunk → State → RunRes := fun _ _ _ => .outOfFuel

theorem step_rec0 (rec : VmCtx → Chunk → State → RunRes) (env : Vm.Env) (vm : VmCtx) (c : Chunk)
    (e : VEntry) (pc : Nat) (st : State) :
    step rec0 env vm c e pc st = .outOfFuel ∨
      step rec env vm c e pc st = step rec0 env vm c e pc st := by
  obtain ⟨i, sps⟩ := e
  cases i <;> first | (right; rfl) | skip
  case include_ n =>
    simp only [step, stepInclude, rec0]
    split <;> simp
  case renderBlock n =>
    simp only [step, stepRenderBlock, rec0]
    split <;> simp
  case callFunction n =>
    simp only [step, stepCallFunction, stepSuper, rec0]
    repeat' split
    all_goals simp
  case renderComponent n hb =>
    simp only [step, stepComponent, rec0]
    repeat' split
    all_goals simp

/-- a loop that ends (or fails) without the nested interpreter does the same with any -/
theorem runLoop_rec0 (rec : VmCtx → Chunk → State → RunRes) (env : Vm.Env) (vm : VmCtx) (c : Chunk) :
    ∀ (n pc : Nat) (st : State), runLoop rec0 env vm c n pc st ≠ .outOfFuel →
      runLoop rec env vm c n pc st = runLoop rec0 env vm c n pc st := by
  intro n
  induction n with
  | zero => intro pc st _; simp only [runLoop]
  | succ n ih =>
    intro pc st hne
    simp only [runLoop] at hne ⊢
    cases hc : c.code[pc]? with
    | none => rfl
    | some e =>
      simp only [hc] at hne ⊢
      rcases step_rec0 rec env vm c e pc st with h0 | h0
      · rw [h0] at hne; exact absurd rfl hne
      · rw [h0]
        cases hs : step rec0 env vm c e pc st with
        | next pc' st' =>
          rw [hs] at hne
          simp only at hne ⊢
          exact ih pc' st' hne
        | err e => rfl
        | panic s => rfl
        | unmodelled w => rfl
        | outOfFuel => rfl

/-- … so one `interpret` call that ends with nesting fuel 1 ends the same way with any nesting
fuel `≥ 1` -/
theorem run_depth_irrel (env : Vm.Env) (vm : VmCtx) (c : Chunk) (st : State) (steps depth : Nat)
    (hne : Vm.run ⟨1, steps⟩ env vm c st ≠ .outOfFuel) :
    Vm.run ⟨depth + 1, steps⟩ env vm c st = Vm.run ⟨1, steps⟩ env vm c st := by
  simp only [Vm.run, interp] at hne ⊢
  exact runLoop_rec0 _ env vm c steps 0 st hne

end Tera.RefineE2E
