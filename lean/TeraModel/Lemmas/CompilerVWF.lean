/-
Value-level T1, machinery: the local check of one compiled instruction against a table for the
checker of Model/VmCheck.lean (`LocalOK`: `Vm.verifyAt` as a `Prop`), how every instruction the
compiler emits steps (`Vm.astep`) from the states of the table functions of
Lemmas/CompilerVTab.lean — this is where each flag an arm of `astep` demands is shown to be there —
and the statements proved for every construct in Lemmas/CompilerVWFMain.lean.
-/
import TeraModel.Lemmas.CompilerVTab
import TeraModel.Lemmas.CompilerWF
namespace Tera.Compiler.V
open Tera Tera.Compiler Tera.Vm

/-! ### States and their order -/

@[simp] theorem pushN_zero (a : ASt) : pushN a 0 = a := by simp [pushN]
@[simp] theorem pushN_pushN (a : ASt) (m n : Nat) : pushN (pushN a m) n = pushN a (n + m) := by
  simp only [pushN, ASt.mk.injEq, and_true]
  rw [← List.append_assoc, List.replicate_append_replicate]
@[simp] theorem pushT_nil (a : ASt) : pushT a [] = a := by simp [pushT]
@[simp] theorem pushT_pushT (a : ASt) (s t : List Tag) : pushT (pushT a s) t = pushT a (t ++ s) := by
  simp [pushT]
theorem pushT_R (a : ASt) : pushT a [tagR] = pushN a 1 := by simp [pushT, pushN, List.replicate]
theorem pushT_RR (a : ASt) : pushT a [tagR, tagR] = pushN a 2 := by simp [pushT, pushN, List.replicate]

theorem Tag.le_refl (t : Tag) : t.le t = true := by
  cases t with | mk a b c d => cases a <;> cases b <;> cases c <;> cases d <;> rfl
theorem leTags_refl : ∀ l : List Tag, leTags l l = true
  | [] => rfl
  | t :: l => by simp [leTags, Tag.le_refl, leTags_refl l]
theorem leLoops_refl : ∀ l : List (Option Nat), Vm.leLoops l l = true
  | [] => rfl
  | x :: l => by simp [Vm.leLoops, leLoops_refl l]
theorem ASt.le_refl (a : ASt) : a.le a = true := by simp [ASt.le, leTags_refl, leLoops_refl]

/-- one slot described by a weaker tag -/
theorem le_top (a : ASt) (t t' : Tag) (h : t.le t' = true) : (pushT a [t]).le (pushT a [t']) = true := by
  simp [ASt.le, pushT, leTags, h, leTags_refl, leLoops_refl]

/-- anything with a span is described by `tagR` -/
theorem le_R (a : ASt) (t : Tag) (h : t.sp = true) : (pushT a [t]).le (pushN a 1) = true := by
  rw [← pushT_R]; apply le_top; simp [Tag.le, tagR, h]

theorem le_pushList (a : ASt) : (pushList a).le (pushN a 1) = true := le_R a tagL rfl

theorem le_loopUp (a : ASt) (t : Option Nat) : (loopUp a t).le (loopUp a none) = true := by
  simp [ASt.le, loopUp, Vm.leLoops, leTags_refl, leLoops_refl]

/-! ### One instruction against a table -/

def Cov (T : List ASt) (x : Nat × ASt) : Prop := ∃ b, T[x.1]? = some b ∧ x.2.le b = true

theorem cov_eq {T : List ASt} {pc : Nat} {s : ASt} (h : T[pc]? = some s) : Cov T (pc, s) :=
  ⟨s, h, ASt.le_refl s⟩

theorem cov_le {T : List ASt} {pc : Nat} {s b : ASt} (h : T[pc]? = some b) (hle : s.le b = true) :
    Cov T (pc, s) := ⟨b, h, hle⟩

def LocalOK (C : Code) (T : List ASt) (pc : Nat) : Prop :=
  ∀ e a, C[pc]? = some e → T[pc]? = some a →
    ∃ succs, astepC e pc a = some succs ∧ ∀ x ∈ succs, Cov T x

def OKr (C : Code) (T : List ASt) (base n : Nat) : Prop := ∀ i, i < n → LocalOK C T (base + i)

theorem okr_zero (C T base) : OKr C T base 0 ↔ True := by simp [OKr]
theorem okr_one (C T base) : OKr C T base 1 ↔ LocalOK C T base := by
  constructor
  · intro h; simpa using h 0 (by omega)
  · intro h i hi; have : i = 0 := by omega
    subst this; simpa using h
theorem okr_add (C T base m n) : OKr C T base (m + n) ↔ OKr C T base m ∧ OKr C T (base + m) n := by
  constructor
  · intro h
    refine ⟨fun i hi => h i (by omega), fun i hi => ?_⟩
    have := h (m + i) (by omega)
    simpa [Nat.add_assoc] using this
  · rintro ⟨h0, h1⟩ i hi
    by_cases hlt : i < m
    · exact h0 i hlt
    · have := h1 (i - m) (by omega)
      have e : base + m + (i - m) = base + i := by omega
      rwa [e] at this

theorem rule1 {C : Code} {T : List ASt} {pc : Nat} {e : CEntry} {a : ASt} {x : Nat × ASt}
    (hC : C[pc]? = some e) (hT : T[pc]? = some a)
    (hs : astepC e pc a = some [x]) (h1 : Cov T x) : LocalOK C T pc := by
  intro e' a' hC' hT'
  rw [hC] at hC'; rw [hT] at hT'; cases hC'; cases hT'
  exact ⟨_, hs, by simpa using h1⟩

theorem rule2 {C : Code} {T : List ASt} {pc : Nat} {e : CEntry} {a : ASt} {x y : Nat × ASt}
    (hC : C[pc]? = some e) (hT : T[pc]? = some a)
    (hs : astepC e pc a = some [x, y]) (h1 : Cov T x) (h2 : Cov T y) : LocalOK C T pc := by
  intro e' a' hC' hT'
  rw [hC] at hC'; rw [hT] at hT'; cases hC'; cases hT'
  exact ⟨_, hs, by simpa using ⟨h1, h2⟩⟩

/-! ### Steps: every flag an arm of `astep` demands is there -/

/-- the tag `LoadConst(v)` with a span pushes -/
def constTag (v : Value) : Tag := ⟨false, v.isMap, true, okBoundV v⟩

theorem st_const (v : Value) (pc : Nat) (a : ASt) :
    astepC (sp (.loadConst v)) pc a = some [(pc + 1, pushT a [constTag v])] := rfl
theorem le_const (a : ASt) (v : Value) : (pushT a [constTag v]).le (pushN a 1) = true := le_R a _ rfl

theorem st_name (n : String) (pc : Nat) (a : ASt) :
    astepC (sp (.loadName n)) pc a = some [(pc + 1, pushN a 1)] := rfl

theorem st_attr (n : String) (opt : Bool) (pc : Nat) (a : ASt) :
    astepC (sp (if opt = true then .loadAttrOpt n else .loadAttr n)) pc (pushN a 1)
      = some [(pc + 1, pushN a 1)] := by
  cases opt <;> simp [astepC, sp, vi, astep, pushN, List.replicate, tagR, Tag.fresh]

theorem st_subscript (opt : Bool) (pc : Nat) (a : ASt) :
    astepC (sp (if opt = true then .binarySubscriptOpt else .binarySubscript)) pc (pushN a 2)
      = some [(pc + 1, pushN a 1)] := by
  cases opt <;> simp [astepC, sp, vi, astep, pushN, List.replicate, tagR]

theorem optTag_ok (o : Option Expr) : ((optTag o).sp || (optTag o).okb) = true := by
  cases o <;> rfl

theorem st_slice (opt : Bool) (o1 o2 o3 : Option Expr) (pc : Nat) (a : ASt) :
    astepC (sp (if opt = true then .sliceOpt else .slice)) pc
        (pushT (pushN a 1) [optTag o3, optTag o2, optTag o1])
      = some [(pc + 1, pushN a 1)] := by
  cases opt <;>
    simp [astepC, sp, vi, astep, pushN, pushT, List.replicate, tagR, optTag_ok]

theorem st_dflt_none (pc : Nat) (s : ASt) :
    astepC (ns (.loadConst .none)) pc s = some [(pc + 1, pushT s [tagB])] := by
  simp [astepC, ns, vi, astep, pushT, tagB, okBoundV, sliceBound, Value.isNone, Value.isMap]
theorem st_dflt_one (pc : Nat) (s : ASt) :
    astepC (ns (.loadConst (.i64 1))) pc s = some [(pc + 1, pushT s [tagB])] := by
  simp [astepC, ns, vi, astep, pushT, tagB, okBoundV, sliceBound, Value.isNone, Value.isUndef,
    Value.isMap, Value.asI128, Value.intVal]
  decide

theorem st_writeText (s : String) (pc : Nat) (a : ASt) :
    astepC (ns (.writeText s)) pc a = some [(pc + 1, a)] := rfl
theorem st_renderBlock (n : String) (pc : Nat) (a : ASt) :
    astepC (ns (.renderBlock n)) pc a = some [(pc + 1, a)] := rfl
theorem st_include (n : String) (pc : Nat) (a : ASt) :
    astepC (sp (.include n)) pc a = some [(pc + 1, a)] := rfl

theorem st_writeTop (pc : Nat) (a : ASt) :
    astepC (ns .writeTop) pc (pushN a 1) = some [(pc + 1, a)] := by
  simp [astepC, ns, vi, astep, pushN, List.replicate, tagR]

theorem st_set (name : String) (g : Bool) (pc : Nat) (a : ASt) (t : Tag) :
    astepC (ns (setInstr name g)) pc (pushT a [t]) = some [(pc + 1, a)] := by
  cases g <;> simp [astepC, ns, vi, astep, pushT, setInstr]
theorem st_set1 (name : String) (g : Bool) (pc : Nat) (a : ASt) :
    astepC (ns (setInstr name g)) pc (pushN a 1) = some [(pc + 1, a)] := by
  rw [← pushT_R]; exact st_set name g pc a tagR

theorem st_buildMap (n pc : Nat) (a : ASt) :
    astepC (ns (.buildMap n)) pc (pushN a (2 * n)) = some [(pc + 1, pushT a [tagM])] := by
  by_cases h : n = 0
  · subst h; simp [astepC, ns, vi, astep, pushN, pushT, tagM]
  · simp [astepC, ns, vi, astep, pushN, pushT, tagM, h]

/-- the pops of `BuildMapWithSpreads`: every spread slot is spanned -/
theorem spreadMapPops_R : ∀ (l : List Bool) (s : List Tag),
    spreadMapPops l (List.replicate (flagSlots l) tagR ++ s) = some s
  | [], s => by simp [spreadMapPops, flagSlots]
  | true :: l, s => by
    have := spreadMapPops_R l s
    simp only [flagSlots, ↓reduceIte]
    rw [Nat.add_comm, List.replicate_succ]
    simpa [spreadMapPops, tagR] using this
  | false :: l, s => by
    have := spreadMapPops_R l s
    simp only [flagSlots, Bool.false_eq_true, ↓reduceIte]
    rw [show 2 + flagSlots l = flagSlots l + 1 + 1 by omega, List.replicate_succ, List.replicate_succ]
    simpa [spreadMapPops] using this

theorem flagSlots_append (l m : List Bool) : flagSlots (l ++ m) = flagSlots l + flagSlots m := by
  induction l with
  | nil => simp [flagSlots]
  | cons b l ih => simp [flagSlots, ih]; omega

theorem flagSlots_reverse (l : List Bool) : flagSlots l.reverse = flagSlots l := by
  induction l with
  | nil => rfl
  | cons b l ih => simp [flagSlots_append, flagSlots, ih]; omega

theorem spreadListPops_R : ∀ (l : List Bool) (s : List Tag),
    spreadListPops l (List.replicate l.length tagR ++ s) = some s
  | [], s => by simp [spreadListPops]
  | b :: l, s => by
    have := spreadListPops_R l s
    simp only [List.length_cons, List.replicate_succ, List.cons_append]
    simpa [spreadListPops, tagR] using this

/-- the state after a map build: a map, spanned iff the instruction was added with a span -/
theorem st_mapBuild (m : List MapEntry) (own : Bool) (pc : Nat) (a : ASt) :
    astepC (mapBuild m, own) pc (pushN a (mapSlots m))
      = some [(pc + 1, pushT a [⟨false, true, own, false⟩])] := by
  unfold mapBuild
  by_cases h : m.any MapEntry.isSpread = true
  · rw [if_pos h]
    simp only [astepC, vi, astep]
    have := spreadMapPops_R (m.map MapEntry.isSpread).reverse a.stack
    rw [flagSlots_reverse, flagSlots_map] at this
    simp [pushN, this, pushT]
  · rw [if_neg h, mapSlots_noSpread m (by simpa using h)]
    by_cases h0 : m.length = 0
    · simp [astepC, vi, astep, pushN, pushT, h0]
    · simp [astepC, vi, astep, pushN, pushT, h0]

theorem st_mapBuild_sp (m : List MapEntry) (pc : Nat) (a : ASt) :
    astepC (sp (mapBuild m)) pc (pushN a (mapSlots m))
      = some [(pc + 1, pushT a [⟨false, true, true, false⟩])] := st_mapBuild m true pc a
theorem le_mapLit (a : ASt) : (pushT a [⟨false, true, true, false⟩]).le (pushN a 1) = true :=
  le_R a _ rfl
theorem st_mapBuild_ns (m : List MapEntry) (pc : Nat) (a : ASt) :
    astepC (ns (mapBuild m)) pc (pushN a (mapSlots m)) = some [(pc + 1, pushT a [tagM])] :=
  st_mapBuild m false pc a

theorem st_arrayBuild (it : List ArrayEntry) (pc : Nat) (a : ASt) :
    astepC (sp (arrayBuild it)) pc (pushN a it.length) = some [(pc + 1, pushList a)] := by
  unfold arrayBuild
  split
  · simp only [astepC, sp, vi, astep]
    have := spreadListPops_R (it.map ArrayEntry.isSpread).reverse a.stack
    simp only [List.length_reverse, List.length_map] at this
    simp [pushN, this, pushList, tagL]
  · simp [astepC, sp, vi, astep, pushN, pushList, tagL]

theorem st_callFunction (n : String) (pc : Nat) (a : ASt) :
    astepC (sp (.callFunction n)) pc (pushT a [tagM]) = some [(pc + 1, pushN a 1)] := by
  simp [astepC, sp, vi, astep, pushT, pushN, tagM, tagR, Tag.fresh, List.replicate]

theorem st_render (n : String) (sc : Bool) (pc : Nat) (a : ASt) :
    astepC (sp (if sc = true then .renderInlineComponent n else .renderBodyComponent n)) pc
        (pushT (if sc = true then a else pushN a 1) [tagM])
      = some [(pc + 1, pushN a 1)] := by
  cases sc <;> simp [astepC, sp, vi, astep, pushT, pushN, tagM, tagR, Tag.fresh, List.replicate]

theorem st_applyFilter (n : String) (pc : Nat) (a : ASt) :
    astepC (sp (.applyFilter n)) pc (pushT (pushN a 1) [tagM]) = some [(pc + 1, pushN a 1)] := by
  simp [astepC, sp, vi, astep, pushT, pushN, tagM, tagR, Tag.fresh, List.replicate]
theorem st_runTest (n : String) (pc : Nat) (a : ASt) :
    astepC (sp (.runTest n)) pc (pushT (pushN a 1) [tagM]) = some [(pc + 1, pushN a 1)] := by
  simp [astepC, sp, vi, astep, pushT, pushN, tagM, tagR, Tag.fresh, List.replicate]

theorem st_jump (t pc : Nat) (a : ASt) : astepC (ns (.jump t)) pc a = some [(t, a)] := rfl

theorem st_popJump (t pc : Nat) (a : ASt) (tg : Tag) :
    astepC (ns (.popJumpIfFalse t)) pc (pushT a [tg]) = some [(t, a), (pc + 1, a)] := by
  simp [astepC, ns, vi, astep, pushT]
theorem st_popJump1 (t pc : Nat) (a : ASt) :
    astepC (ns (.popJumpIfFalse t)) pc (pushN a 1) = some [(t, a), (pc + 1, a)] := by
  rw [← pushT_R]; exact st_popJump t pc a tagR

theorem st_jumpOrPop (c : Prop) [Decidable c] (t pc : Nat) (a : ASt) :
    astepC (ns ((if c then CInstr.jumpIfFalseOrPop else CInstr.jumpIfTrueOrPop) t)) pc (pushN a 1)
      = some [(t, pushN a 1), (pc + 1, a)] := by
  split <;> simp [astepC, ns, vi, astep, ajumpOrPop, pushN, List.replicate]

theorem st_capture (pc : Nat) (a : ASt) : astepC (ns .capture) pc a = some [(pc + 1, capUp a)] := rfl

theorem st_endCapture (pc : Nat) (a : ASt) :
    astepC (sp .endCapture) pc (capUp a) = some [(pc + 1, pushN a 1)] := by
  simp [astepC, sp, vi, astep, capUp, pushN, List.replicate, tagR, Tag.fresh]

theorem st_endCaptureSet (filters : List Expr) (pc : Nat) (a : ASt) :
    astepC (.endCapture, !filters.isEmpty) pc (capUp a) = some [(pc + 1, pushT a [capTag filters])] := by
  cases filters <;> simp [astepC, vi, astep, capUp, pushT, capTag, tagZ, tagR, Tag.fresh]

theorem st_startIterate (kv : Bool) (pc : Nat) (a : ASt) :
    astepC (ns (.startIterate kv)) pc (pushN a 1) = some [(pc + 1, loopUp a none)] := by
  simp [astepC, ns, vi, astep, pushN, loopUp, List.replicate, tagR]
theorem st_startIterateC (kv : Bool) (pc : Nat) (a : ASt) :
    astepC (ns (.startIterateComprehension kv)) pc (pushN a 1) = some [(pc + 1, loopUp a none)] := by
  simp [astepC, ns, vi, astep, pushN, loopUp, List.replicate, tagR]

theorem st_storeLocal (n : String) (pc : Nat) (a : ASt) (e : Option Nat) :
    astepC (ns (.storeLocal n)) pc (loopUp a e) = some [(pc + 1, loopUp a e)] := rfl

theorem st_iterate (t pc : Nat) (a : ASt) (e : Option Nat) :
    astepC (ns (.iterate t)) pc (loopUp a e) = some [(t, loopUp a e), (pc + 1, loopUp a (some t))] := rfl

theorem st_storeDidNotIterate (pc : Nat) (a : ASt) (e : Option Nat) :
    astepC (ns .storeDidNotIterate) pc (loopUp a e) = some [(pc + 1, pushT (loopUp a e) [tagZ])] := rfl

theorem st_popLoop (pc : Nat) (a : ASt) (e : Option Nat) :
    astepC (ns .popLoop) pc (loopUp a e) = some [(pc + 1, a)] := rfl
theorem st_popLoopZ (pc : Nat) (a : ASt) (e : Option Nat) :
    astepC (ns .popLoop) pc (pushT (loopUp a e) [tagZ]) = some [(pc + 1, pushT a [tagZ])] := rfl

theorem st_appendToList (pc : Nat) (a : ASt) (e : Option Nat) :
    astepC (ns .appendToList) pc (pushN (loopUp (pushList a) e) 1)
      = some [(pc + 1, loopUp (pushList a) e)] := by
  simp [astepC, ns, vi, astep, pushN, loopUp, pushList, List.replicate, tagL]

theorem st_break (pc t : Nat) (a : ASt) (rest : List (Option Nat)) (h : a.loops = some t :: rest) :
    astepC (ns .break_) pc a = some [(t, a)] := by
  simp [astepC, ns, vi, astep, h]

/-- every arithmetic / comparison instruction: two spanned operands in, a spanned value out -/
theorem st_binop (op : BinaryOperator) (pc : Nat) (a : ASt) :
    astepC (sp (.binop op)) pc (pushN a 2) = some [(pc + 1, pushN a 1)] := by
  cases op <;>
    simp [astepC, sp, vi, astep, abinop, pushN, List.replicate, tagR, Tag.fresh]

theorem st_unary (op : UnaryOperator) (pc : Nat) (a : ASt) :
    astepC (sp (unaryInstr op)) pc (pushN a 1) = some [(pc + 1, pushN a 1)] := by
  cases op <;> simp [astepC, sp, vi, astep, unaryInstr, pushN, List.replicate, tagR]

theorem st_attrOpt (n : String) (pc : Nat) (a : ASt) :
    astepC (sp (.loadAttrOpt n)) pc (pushN a 1) = some [(pc + 1, pushN a 1)] := by
  simpa using st_attr n true pc a
theorem st_attrNo (n : String) (pc : Nat) (a : ASt) :
    astepC (sp (.loadAttr n)) pc (pushN a 1) = some [(pc + 1, pushN a 1)] := by
  simpa using st_attr n false pc a
theorem st_subOpt (pc : Nat) (a : ASt) :
    astepC (sp .binarySubscriptOpt) pc (pushN a 2) = some [(pc + 1, pushN a 1)] := by
  simpa using st_subscript true pc a
theorem st_subNo (pc : Nat) (a : ASt) :
    astepC (sp .binarySubscript) pc (pushN a 2) = some [(pc + 1, pushN a 1)] := by
  simpa using st_subscript false pc a
theorem st_sliceOpt (o1 o2 o3 : Option Expr) (pc : Nat) (a : ASt) :
    astepC (sp .sliceOpt) pc (pushT (pushN a 1) [optTag o3, optTag o2, optTag o1])
      = some [(pc + 1, pushN a 1)] := by
  simpa using st_slice true o1 o2 o3 pc a
theorem st_sliceNo (o1 o2 o3 : Option Expr) (pc : Nat) (a : ASt) :
    astepC (sp .slice) pc (pushT (pushN a 1) [optTag o3, optTag o2, optTag o1])
      = some [(pc + 1, pushN a 1)] := by
  simpa using st_slice false o1 o2 o3 pc a
theorem st_renderInline (n : String) (pc : Nat) (a : ASt) :
    astepC (sp (.renderInlineComponent n)) pc (pushT a [tagM]) = some [(pc + 1, pushN a 1)] := by
  simpa using st_render n true pc a
theorem st_renderBody (n : String) (pc : Nat) (a : ASt) :
    astepC (sp (.renderBodyComponent n)) pc (pushT (pushN a 1) [tagM]) = some [(pc + 1, pushN a 1)] := by
  simpa using st_render n false pc a

theorem st_buildList0 (pc : Nat) (a : ASt) :
    astepC (sp (.buildList 0)) pc a = some [(pc + 1, pushList a)] := by
  simp [astepC, sp, vi, astep, pushList, tagL]
theorem st_jifop (t pc : Nat) (a : ASt) :
    astepC (ns (.jumpIfFalseOrPop t)) pc (pushN a 1) = some [(t, pushN a 1), (pc + 1, a)] := by
  simp [astepC, ns, vi, astep, ajumpOrPop, pushN, List.replicate]
theorem st_jitop (t pc : Nat) (a : ASt) :
    astepC (ns (.jumpIfTrueOrPop t)) pc (pushN a 1) = some [(t, pushN a 1), (pc + 1, a)] := by
  simp [astepC, ns, vi, astep, ajumpOrPop, pushN, List.replicate]

theorem capTag_cases {fs : List Expr} (_ : filtersScoped fs = true) : fs = [] ∨ capTag fs = tagR := by
  cases fs <;> simp [capTag]

theorem st_endCaptureSetR (filters : List Expr) (h : capTag filters = tagR) (pc : Nat) (a : ASt) :
    astepC (.endCapture, !filters.isEmpty) pc (capUp a) = some [(pc + 1, pushN a 1)] := by
  rw [st_endCaptureSet, h, pushT_R]

/-! ### The first entry of a table segment is the entry state -/

def HeadM1 (e : Expr) : Prop :=
  ∀ base loop a, exprScoped e = true → (exprTab base loop a e).head? = some a
def HeadM2 (ns : List Node) : Prop :=
  ∀ base loop a il, nodesScoped il ns = true → (il = true → loop.isSome = true) →
    (nodesTab base loop a ns ++ [a]).head? = some a
def HeadM3 (n : Node) : Prop :=
  ∀ base loop a il, nodeScoped il n = true → (il = true → loop.isSome = true) →
    (nodeTab base loop a n).head? = some a
def HeadM4 (k : List (String × Expr)) : Prop :=
  ∀ base loop a, (kwargsTab base loop a k ++ [pushN a (2 * k.length)]).head? = some a
def HeadM5 (f : List Expr) : Prop :=
  ∀ base loop a, (filtersTab base loop a f ++ [pushN a 1]).head? = some (pushN a 1)
def HeadM6 (o : Option Expr) : Prop :=
  ∀ base loop a x, optExprScoped o = true →
    (condTab base loop a o ++ [x]).head? = some (if o.isSome then a else x)
def HeadM7 (o : Option Expr) : Prop :=
  ∀ base loop a, optExprScoped o = true → (optExprTab base loop a o).head? = some a
def HeadM8 (it : List ArrayEntry) : Prop :=
  ∀ base loop a, arrayItemsScoped it = true →
    (arrayItemsTab base loop a it ++ [pushN a it.length]).head? = some a
def HeadM9 (m : List MapEntry) : Prop :=
  ∀ base loop a, mapItemsScoped m = true →
    (mapItemsTab base loop a m ++ [pushN a (mapSlots m)]).head? = some a

theorem head_aux :
    (∀ (_ : Nat) (_ : Option Nat) e, HeadM1 e) ∧
    (∀ (_ : Nat) (_ : Option Nat) ns, HeadM2 ns) ∧
    (∀ (_ : Nat) (_ : Option Nat) n, HeadM3 n) ∧
    (∀ (_ : Nat) (_ : Option Nat) k, HeadM4 k) ∧
    (∀ (_ : Nat) (_ : Option Nat) f, HeadM5 f) ∧
    (∀ (_ : Nat) (_ : Option Nat) o, HeadM6 o) ∧
    (∀ (_ : Nat) (_ : Option Nat) (_ : CInstr) o, HeadM7 o) ∧
    (∀ (_ : Nat) (_ : Option Nat) it, HeadM8 it) ∧
    (∀ (_ : Nat) (_ : Option Nat) m, HeadM9 m) := by
  apply exprCode.mutual_induct
    (motive_1 := fun _ _ e => HeadM1 e)
    (motive_2 := fun _ _ ns => HeadM2 ns)
    (motive_3 := fun _ _ n => HeadM3 n)
    (motive_4 := fun _ _ k => HeadM4 k)
    (motive_5 := fun _ _ f => HeadM5 f)
    (motive_6 := fun _ _ o => HeadM6 o)
    (motive_7 := fun _ _ _ o => HeadM7 o)
    (motive_8 := fun _ _ it => HeadM8 it)
    (motive_9 := fun _ _ m => HeadM9 m)
  all_goals intros
  all_goals simp only [HeadM1, HeadM2, HeadM3, HeadM4, HeadM5, HeadM6, HeadM7, HeadM8, HeadM9] at *
  all_goals intros
  all_goals simp only [exprTab, nodesTab, nodeTab, kwargsTab, filtersTab, condTab, optExprTab,
    arrayItemsTab, mapItemsTab] at *
  all_goals (try (simp only [exprScoped, nodesScoped, nodeScoped, kwargsScoped,
    filtersScoped, optExprScoped, arrayItemsScoped, mapItemsScoped] at *))
  all_goals (try simp only [Bool.and_eq_true, Bool.or_eq_true] at *)
  all_goals (try split)
  all_goals (try (simp (config := { zetaDelta := true }) [List.head?_append, mapSlots, *]; done))
  all_goals (try (simp_all (config := { zetaDelta := true }) [List.head?_append, mapSlots, head?_append_cons2]; done))
  all_goals (try grind [List.head?_append, head?_append_cons2])

theorem tabLen1 (e base loop a) : (exprTab base loop a e).length = (exprCode base loop e).length :=
  tab_length_aux.1 0 none e base loop a
theorem tabLen2 (ns base loop a) : (nodesTab base loop a ns).length = (nodesCode base loop ns).length :=
  tab_length_aux.2.1 0 none ns base loop a
theorem tabLen3 (n base loop a) : (nodeTab base loop a n).length = (nodeCode base loop n).length :=
  tab_length_aux.2.2.1 0 none n base loop a
theorem tabLen4 (k base loop a) : (kwargsTab base loop a k).length = (kwargsCode base loop k).length :=
  tab_length_aux.2.2.2.1 0 none k base loop a
theorem tabLen5 (f base loop a) : (filtersTab base loop a f).length = (filtersCode base loop f).length :=
  tab_length_aux.2.2.2.2.1 0 none f base loop a
theorem tabLen6 (o base loop a) : (condTab base loop a o).length = (condCode base loop o).length :=
  tab_length_aux.2.2.2.2.2.1 0 none o base loop a
theorem optLen (o : Option Expr) (base : Nat) (loop : Option Nat) (d d' : CInstr) :
    (optExprCode base loop d o).length = (optExprCode base loop d' o).length := by
  cases o <;> simp [optExprCode]
theorem optLen1 (o : Option Expr) (base : Nat) (loop : Option Nat) :
    (optExprCode base loop (.loadConst (.i64 1)) o).length
      = (optExprCode base loop (.loadConst .none) o).length := optLen o base loop _ _
theorem tabLen7 (o base loop a) :
    (optExprTab base loop a o).length = (optExprCode base loop (.loadConst .none) o).length :=
  tab_length_aux.2.2.2.2.2.2.1 0 none .not o base loop _ a
theorem tabLen8 (it base loop a) :
    (arrayItemsTab base loop a it).length = (arrayItemsCode base loop it).length :=
  tab_length_aux.2.2.2.2.2.2.2.1 0 none it base loop a
theorem tabLen9 (m base loop a) : (mapItemsTab base loop a m).length = (mapItemsCode base loop m).length :=
  tab_length_aux.2.2.2.2.2.2.2.2 0 none m base loop a

theorem seg_head1 {α : Type} {C : List α} {base : Nat} {l : List α} {a : α}
    (hs : Seg C base l) (h : l.head? = some a) : C[base]? = some a := by
  cases l with
  | nil => simp at h
  | cons y ys =>
    simp at h
    rw [((seg_cons C base y ys).mp hs).1, h]

theorem head_expr {T : List ASt} {b : Nat} {loop : Option Nat} {a : ASt} {e : Expr}
    (hs : Seg T b (exprTab b loop a e)) (h : exprScoped e = true) : T[b]? = some a :=
  seg_head1 hs (head_aux.1 0 none e b loop a h)

theorem head_opt {T : List ASt} {b : Nat} {loop : Option Nat} {a : ASt} {o : Option Expr}
    (hs : Seg T b (optExprTab b loop a o)) (h : optExprScoped o = true) : T[b]? = some a :=
  seg_head1 hs (head_aux.2.2.2.2.2.2.1 0 none .not o b loop a h)

theorem head_node {T : List ASt} {b : Nat} {loop : Option Nat} {a : ASt} {n : Node} {il : Bool}
    (hs : Seg T b (nodeTab b loop a n)) (h : nodeScoped il n = true)
    (hl : il = true → loop.isSome = true) : T[b]? = some a :=
  seg_head1 hs (head_aux.2.2.1 0 none n b loop a il h hl)

theorem head_nodes {T : List ASt} {b : Nat} {loop : Option Nat} {a : ASt} {ns : List Node} {il : Bool}
    (hs : Seg T b (nodesTab b loop a ns)) (he : T[b + (nodesCode b loop ns).length]? = some a)
    (h : nodesScoped il ns = true) (hl : il = true → loop.isSome = true) : T[b]? = some a :=
  seg_head' hs (by rw [tabLen2]; exact he) (head_aux.2.1 0 none ns b loop a il h hl)

theorem head_kwargs {T : List ASt} {b : Nat} {loop : Option Nat} {a : ASt} {k : List (String × Expr)}
    (hs : Seg T b (kwargsTab b loop a k))
    (he : T[b + (kwargsCode b loop k).length]? = some (pushN a (2 * k.length))) : T[b]? = some a :=
  seg_head' hs (by rw [tabLen4]; exact he) (head_aux.2.2.2.1 0 none k b loop a)

theorem head_filters {T : List ASt} {b : Nat} {loop : Option Nat} {a : ASt} {f : List Expr}
    (hs : Seg T b (filtersTab b loop a f))
    (he : T[b + (filtersCode b loop f).length]? = some (pushN a 1)) : T[b]? = some (pushN a 1) :=
  seg_head' hs (by rw [tabLen5]; exact he) (head_aux.2.2.2.2.1 0 none f b loop a)

theorem head_cond {T : List ASt} {b : Nat} {loop : Option Nat} {a x : ASt} {o : Option Expr}
    (hs : Seg T b (condTab b loop a o)) (he : T[b + (condCode b loop o).length]? = some x)
    (h : optExprScoped o = true) : T[b]? = some (if o.isSome then a else x) :=
  seg_head' hs (by rw [tabLen6]; exact he) (head_aux.2.2.2.2.2.1 0 none o b loop a x h)

theorem head_array {T : List ASt} {b : Nat} {loop : Option Nat} {a : ASt} {it : List ArrayEntry}
    (hs : Seg T b (arrayItemsTab b loop a it))
    (he : T[b + (arrayItemsCode b loop it).length]? = some (pushN a it.length))
    (h : arrayItemsScoped it = true) : T[b]? = some a :=
  seg_head' hs (by rw [tabLen8]; exact he) (head_aux.2.2.2.2.2.2.2.1 0 none it b loop a h)

theorem head_map {T : List ASt} {b : Nat} {loop : Option Nat} {a : ASt} {m : List MapEntry}
    (hs : Seg T b (mapItemsTab b loop a m))
    (he : T[b + (mapItemsCode b loop m).length]? = some (pushN a (mapSlots m)))
    (h : mapItemsScoped m = true) : T[b]? = some a :=
  seg_head' hs (by rw [tabLen9]; exact he) (head_aux.2.2.2.2.2.2.2.2 0 none m b loop a h)

/-! ### The statement proved for every construct -/

/-- what a `break` / `continue` at statement level of the current loop body needs from the table:
the loop's `Iterate` (the target of `continue`) and the loop's end (the target of `break`, recorded
on the loop stack) are described by entries that cover the current state -/
def LoopCtx (T : List ASt) (loop : Option Nat) (a : ASt) : Prop :=
  ∃ idx t rest b1 b2, loop = some idx ∧ T[idx]? = some b1 ∧ a.le b1 = true ∧
    a.loops = some t :: rest ∧ T[t]? = some b2 ∧ a.le b2 = true

def WfM1 (e : Expr) : Prop :=
  ∀ base loop a C T, Seg C base (exprCode base loop e) → Seg T base (exprTab base loop a e) →
    T[base + (exprCode base loop e).length]? = some (pushN a 1) → exprScoped e = true →
    OKr C T base (exprCode base loop e).length
def WfM2 (ns : List Node) : Prop :=
  ∀ base loop a C T il, Seg C base (nodesCode base loop ns) → Seg T base (nodesTab base loop a ns) →
    T[base + (nodesCode base loop ns).length]? = some a → nodesScoped il ns = true →
    (il = true → LoopCtx T loop a) → OKr C T base (nodesCode base loop ns).length
def WfM3 (n : Node) : Prop :=
  ∀ base loop a C T il, Seg C base (nodeCode base loop n) → Seg T base (nodeTab base loop a n) →
    T[base + (nodeCode base loop n).length]? = some a → nodeScoped il n = true →
    (il = true → LoopCtx T loop a) → OKr C T base (nodeCode base loop n).length
def WfM4 (k : List (String × Expr)) : Prop :=
  ∀ base loop a C T, Seg C base (kwargsCode base loop k) → Seg T base (kwargsTab base loop a k) →
    T[base + (kwargsCode base loop k).length]? = some (pushN a (2 * k.length)) → kwargsScoped k = true →
    OKr C T base (kwargsCode base loop k).length
def WfM5 (f : List Expr) : Prop :=
  ∀ base loop a C T, Seg C base (filtersCode base loop f) → Seg T base (filtersTab base loop a f) →
    T[base + (filtersCode base loop f).length]? = some (pushN a 1) → filtersScoped f = true →
    OKr C T base (filtersCode base loop f).length
def WfM6 (o : Option Expr) : Prop :=
  ∀ base loop a C T, Seg C base (condCode base loop o) → Seg T base (condTab base loop a o) →
    T[base + (condCode base loop o).length]? = some (if o.isSome then pushN a 1 else a) →
    optExprScoped o = true → OKr C T base (condCode base loop o).length
def WfM7 (o : Option Expr) : Prop :=
  ∀ base loop dflt a C T, (∀ pc s, astepC (ns dflt) pc s = some [(pc + 1, pushT s [tagB])]) →
    Seg C base (optExprCode base loop dflt o) →
    Seg T base (optExprTab base loop a o) →
    T[base + (optExprCode base loop (.loadConst .none) o).length]? = some (pushT a [optTag o]) →
    optExprScoped o = true →
    OKr C T base (optExprCode base loop (.loadConst .none) o).length
def WfM8 (it : List ArrayEntry) : Prop :=
  ∀ base loop a C T, Seg C base (arrayItemsCode base loop it) → Seg T base (arrayItemsTab base loop a it) →
    T[base + (arrayItemsCode base loop it).length]? = some (pushN a it.length) →
    arrayItemsScoped it = true → OKr C T base (arrayItemsCode base loop it).length
def WfM9 (m : List MapEntry) : Prop :=
  ∀ base loop a C T, Seg C base (mapItemsCode base loop m) → Seg T base (mapItemsTab base loop a m) →
    T[base + (mapItemsCode base loop m).length]? = some (pushN a (mapSlots m)) →
    mapItemsScoped m = true → OKr C T base (mapItemsCode base loop m).length


end Tera.Compiler.V
