/-
Helper lemmas for C09WF: acceptance by the bytecode checker `WellFormed.verify` is preserved by
`Optimize.optimize`.  The new table is the old one read at the group starts, with the loop ends
stored in the abstract states mapped through `index_map`; entries whose stored loop ends are not
jump operands of the chunk (they cannot be successors of anything the checker looked at) are
dropped.
-/
import TeraModel.Lemmas.WellFormed
import TeraModel.Lemmas.OptimizeSim
namespace Tera
namespace OptimizeWF
open Tera.Optimize Tera.WellFormed Tera.ChunkVm

/-! ## Mapping the loop ends of an abstract state -/

def mapLoops (f : Nat → Nat) (l : List (Option Nat)) : List (Option Nat) := l.map (Option.map f)

def mapSt (f : Nat → Nat) (s : St) : St := ⟨s.stack, mapLoops f s.loops, s.caps⟩

theorem mapSt_empty (f : Nat → Nat) : mapSt f St.empty = St.empty := rfl

theorem leLoops_map (f : Nat → Nat) : ∀ a b, leLoops a b = true →
    leLoops (mapLoops f a) (mapLoops f b) = true := by
  intro a
  induction a with
  | nil => intro b h; cases b <;> simp_all [leLoops, mapLoops]
  | cons x xs ih =>
    intro b h
    cases b with
    | nil => simp [leLoops] at h
    | cons y ys =>
      simp only [leLoops, Bool.and_eq_true, Bool.or_eq_true, beq_iff_eq] at h
      simp only [mapLoops, List.map_cons, leLoops, Bool.and_eq_true, Bool.or_eq_true, beq_iff_eq]
      refine ⟨?_, ih ys h.2⟩
      rcases h.1 with h1 | h1
      · left; simp [h1]
      · right; rw [h1]

theorem le_map (f : Nat → Nat) (a b : St) (h : a.le b = true) : (mapSt f a).le (mapSt f b) = true := by
  simp only [St.le, Bool.and_eq_true, beq_iff_eq] at h ⊢
  exact ⟨⟨h.1.1, h.1.2⟩, leLoops_map f _ _ h.2⟩

/-! ## Loop ends that are jump operands of the chunk -/

def isOperand (c : List Entry) (t : Nat) : Bool := c.any (fun e => e.1.target? == some t)

def validLoops (c : List Entry) (l : List (Option Nat)) : Bool :=
  l.all fun x => match x with
    | none => true
    | some t => isOperand c t

theorem validLoops_of_le (c : List Entry) : ∀ a b, leLoops a b = true → validLoops c a = true →
    validLoops c b = true := by
  intro a
  induction a with
  | nil => intro b h _; cases b <;> simp_all [leLoops, validLoops]
  | cons x xs ih =>
    intro b h hv
    cases b with
    | nil => simp [leLoops] at h
    | cons y ys =>
      simp only [leLoops, Bool.and_eq_true, Bool.or_eq_true, beq_iff_eq] at h
      simp only [validLoops, List.all_cons, Bool.and_eq_true] at hv ⊢
      refine ⟨?_, ih ys h.2 hv.2⟩
      rcases h.1 with h1 | h1
      · subst h1; rfl
      · rw [← h1]; exact hv.1

theorem operand_pcRel (c : List Entry) (hr : TargetsOk c) (t : Nat) (h : isOperand c t = true) :
    PcRel c t (imapFn c t) := by
  obtain ⟨e, he, ht⟩ := List.any_eq_true.mp h
  exact PcRel_target c hr e he t (by simpa using ht)

/-! ## The new table -/

/-- old index of the first instruction of group `k` -/
def startOf (c : List Entry) (k : Nat) : Nat := (((groups c).take k).flatMap (·.orig)).length

def newEntry (c : List Entry) (table : List (Option St)) (k : Nat) : Option St :=
  match table[startOf c k]? with
  | some (some b) => if validLoops c b.loops then some (mapSt (imapFn c) b) else none
  | _ => none

def newTable (c : List Entry) (table : List (Option St)) : List (Option St) :=
  (List.range (groups c).length).map (newEntry c table)

theorem newTable_get (c : List Entry) (table : List (Option St)) (k : Nat)
    (h : k < (groups c).length) : (newTable c table)[k]? = some (newEntry c table k) := by
  simp [newTable, h]

theorem startOf_of_pcRel (c : List Entry) (pc k : Nat) (h : PcRel c pc k) : startOf c k = pc := by
  obtain ⟨_, htake, hle⟩ := h
  unfold startOf
  rw [htake]
  simp; omega

/-- A successor accounted for by the old table at a group start is accounted for by the new table
at the number of that group. -/
theorem cov_transfer (c : List Entry) (table : List (Option St)) (p1 p1' : Nat) (s1 : St)
    (hcov : covered table c.length (p1, s1) = true) (hpc : PcRel c p1 p1')
    (hvalid : validLoops c s1.loops = true) :
    covered (newTable c table) (optCode c).length (p1', mapSt (imapFn c) s1) = true := by
  rw [optCode_length]
  simp only [covered] at hcov ⊢
  by_cases hl : p1 < c.length
  · simp only [hl, ↓reduceIte] at hcov
    obtain ⟨g, hg, _, _⟩ := group_at c p1 p1' hpc hl
    have hlt : p1' < (groups c).length := (List.getElem?_eq_some_iff.mp hg).1
    simp only [hlt, ↓reduceIte, newTable_get c table p1' hlt, newEntry, startOf_of_pcRel c p1 p1' hpc]
    cases ht : table[p1]? with
    | none => rw [ht] at hcov; cases hcov
    | some entry =>
      cases entry with
      | none => rw [ht] at hcov; cases hcov
      | some b =>
        rw [ht] at hcov
        simp only at hcov ⊢
        have hvb : validLoops c b.loops = true := by
          simp only [St.le, Bool.and_eq_true] at hcov
          exact validLoops_of_le c _ _ hcov.2 hvalid
        simp only [hvb, ↓reduceIte]
        exact le_map _ _ _ hcov
  · simp only [hl, ↓reduceIte, Bool.and_eq_true, beq_iff_eq] at hcov
    obtain ⟨h1, h2⟩ := hcov
    subst h1
    have hend := at_end c p1' hpc
    subst hend
    simp only [Nat.lt_irrefl, ↓reduceIte, beq_self_eq_true, Bool.true_and, beq_iff_eq]
    have : s1 = St.empty := h2
    rw [this]; rfl

/-! ## One checked step of the old code (the inductive step of `reach_covered`) -/

theorem covered_step (c : List Entry) (table : List (Option St))
    (hall : ∀ pc, pc < c.length → verifyAt c table pc = true)
    (pc : Nat) (s : St) (e : Entry) (op : Op) (succs : List (Nat × St))
    (hcov : covered table c.length (pc, s) = true) (he : c[pc]? = some e)
    (hop : opOf e.1 = some op) (hstep : step op pc s = some succs) :
    ∀ x ∈ succs, covered table c.length x = true := by
  intro x hmem
  have hlt : pc < c.length := (List.getElem?_eq_some_iff.mp he).1
  simp only [covered, hlt, ↓reduceIte] at hcov
  cases htab : table[pc]? with
  | none => rw [htab] at hcov; cases hcov
  | some entry =>
    cases entry with
    | none => rw [htab] at hcov; cases hcov
    | some b =>
      rw [htab] at hcov
      simp only at hcov
      have hv := hall pc hlt
      simp only [verifyAt, htab, he, hop] at hv
      cases hsb : step op pc b with
      | none => rw [hsb] at hv; cases hv
      | some succsB =>
        rw [hsb] at hv
        simp only [List.all_eq_true] at hv
        obtain ⟨succsS, hs1, hs2⟩ := step_mono op pc s b hcov succsB hsb
        rw [hstep] at hs1
        cases hs1
        obtain ⟨y, hy, hy1, hy2⟩ := hs2.mem x hmem
        have hc := hv y hy
        simp only [covered] at hc ⊢
        rw [← hy1] at hc
        by_cases hl : x.1 < c.length
        · simp only [hl, ↓reduceIte] at hc ⊢
          cases ht2 : table[x.1]? with
          | none => rw [ht2] at hc; cases hc
          | some entry2 =>
            cases entry2 with
            | none => rw [ht2] at hc; cases hc
            | some b2 =>
              rw [ht2] at hc
              exact St.le_trans _ _ _ hy2 hc
        · simp only [hl, ↓reduceIte, Bool.and_eq_true, beq_iff_eq] at hc ⊢
          refine ⟨hc.1, ?_⟩
          have : y.2 = St.empty := hc.2
          rw [this] at hy2
          exact St.le_empty _ hy2

/-! ## Operations with their jump operand mapped -/

def mapOp (f : Nat → Nat) : Op → Op
  | .jump t => .jump (f t)
  | .popJumpIfFalse t => .popJumpIfFalse (f t)
  | .jumpOrPop t => .jumpOrPop (f t)
  | .iterate t => .iterate (f t)
  | op => op

def opTarget : Op → Option Nat
  | .jump t | .popJumpIfFalse t | .jumpOrPop t | .iterate t => some t
  | _ => none

theorem mapOp_of_none (f : Nat → Nat) (op : Op) (h : opTarget op = none) : mapOp f op = op := by
  cases op <;> simp_all [opTarget, mapOp]

theorem opTarget_other (kind arg : String) (op : Op) (h : opOf (.other kind arg) = some op) :
    opTarget op = none := by
  simp only [opOf] at h
  split at h
  all_goals first
    | (cases h; done)
    | (cases h; rfl)
    | (cases hd : decNat arg.toList with
       | none => rw [hd] at h; cases h
       | some n =>
         rw [hd] at h
         simp only [Option.map_some, Option.some.injEq] at h
         subst h
         first | rfl | (split <;> rfl))

theorem opTarget_opOf (i : Instr) (op : Op) (h : opOf i = some op) : opTarget op = i.target? := by
  cases i with
  | other kind arg => rw [opTarget_other kind arg op h]; rfl
  | _ => simp only [opOf, Option.some.injEq] at h; subst h; rfl

theorem opOf_mapTarget (f : Nat → Nat) (i : Instr) (op : Op) (h : opOf i = some op) :
    opOf (i.mapTarget f) = some (mapOp f op) := by
  cases i with
  | other kind arg =>
    rw [mapOp_of_none f op (opTarget_other kind arg op h)]
    exact h
  | _ => simp only [opOf, Option.some.injEq] at h; subst h; rfl

/-! ## One checked instruction of the old code against the same instruction of the new code -/

theorem validLoops_head (c : List Entry) (t : Nat) (rest : List (Option Nat))
    (h : validLoops c (some t :: rest) = true) : isOperand c t = true := by
  simp only [validLoops, List.all_cons, Bool.and_eq_true] at h
  exact h.1

theorem validLoops_tail (c : List Entry) (x : Option Nat) (rest : List (Option Nat))
    (h : validLoops c (x :: rest) = true) : validLoops c rest = true := by
  simp only [validLoops, List.all_cons, Bool.and_eq_true] at h
  exact h.2

theorem step_transfer (c : List Entry) (table : List (Option St)) (hr : TargetsOk c)
    (op : Op) (pc k : Nat) (a : St) (succs : List (Nat × St))
    (hstep : step op pc a = some succs)
    (hcov : ∀ x ∈ succs, covered table c.length x = true)
    (hvalid : validLoops c a.loops = true)
    (hnext : PcRel c (pc + 1) (k + 1))
    (htgt : ∀ t, opTarget op = some t → isOperand c t = true) :
    ∃ succs', step (mapOp (imapFn c) op) k (mapSt (imapFn c) a) = some succs' ∧
      ∀ x ∈ succs', covered (newTable c table) (optCode c).length x = true := by
  obtain ⟨st, ls, caps⟩ := a
  simp only at hvalid
  -- a successor that falls through with unchanged loops
  have fall : ∀ (s1 : St), covered table c.length (pc + 1, s1) = true → validLoops c s1.loops = true →
      covered (newTable c table) (optCode c).length (k + 1, mapSt (imapFn c) s1) = true :=
    fun s1 h1 h2 => cov_transfer c table (pc + 1) (k + 1) s1 h1 hnext h2
  have jump : ∀ (t : Nat) (s1 : St), isOperand c t = true → covered table c.length (t, s1) = true →
      validLoops c s1.loops = true →
      covered (newTable c table) (optCode c).length (imapFn c t, mapSt (imapFn c) s1) = true :=
    fun t s1 ht h1 h2 => cov_transfer c table t (imapFn c t) s1 h1 (operand_pcRel c hr t ht) h2
  cases op with
  | push bb =>
    simp only [WellFormed.step, Option.some.injEq] at hstep; subst hstep
    refine ⟨_, rfl, ?_⟩
    intro x hx; simp only [List.mem_singleton] at hx; subst hx
    exact fall ⟨bb :: st, ls, caps⟩ (hcov _ (by simp)) hvalid
  | popPush n bb =>
    simp only [WellFormed.step] at hstep
    by_cases hn : n ≤ st.length
    · simp only [hn, ↓reduceIte, Option.some.injEq] at hstep; subst hstep
      refine ⟨[(k + 1, mapSt (imapFn c) ⟨bb :: st.drop n, ls, caps⟩)], by simp [WellFormed.step, mapOp, mapSt, hn], ?_⟩
      intro x hx; simp only [List.mem_singleton] at hx; subst hx
      exact fall ⟨bb :: st.drop n, ls, caps⟩ (hcov _ (by simp)) hvalid
    · simp [hn] at hstep
  | pop n =>
    simp only [WellFormed.step] at hstep
    by_cases hn : n ≤ st.length
    · simp only [hn, ↓reduceIte, Option.some.injEq] at hstep; subst hstep
      refine ⟨[(k + 1, mapSt (imapFn c) ⟨st.drop n, ls, caps⟩)], by simp [WellFormed.step, mapOp, mapSt, hn], ?_⟩
      intro x hx; simp only [List.mem_singleton] at hx; subst hx
      exact fall ⟨st.drop n, ls, caps⟩ (hcov _ (by simp)) hvalid
    · simp [hn] at hstep
  | nop =>
    simp only [WellFormed.step, Option.some.injEq] at hstep; subst hstep
    refine ⟨_, rfl, ?_⟩
    intro x hx; simp only [List.mem_singleton] at hx; subst hx
    exact fall ⟨st, ls, caps⟩ (hcov _ (by simp)) hvalid
  | jump t =>
    simp only [WellFormed.step, Option.some.injEq] at hstep; subst hstep
    refine ⟨_, rfl, ?_⟩
    intro x hx; simp only [List.mem_singleton] at hx; subst hx
    exact jump t ⟨st, ls, caps⟩ (htgt t rfl) (hcov _ (by simp)) hvalid
  | popJumpIfFalse t =>
    cases st with
    | nil => simp [WellFormed.step] at hstep
    | cons y rest =>
      simp only [WellFormed.step, Option.some.injEq] at hstep; subst hstep
      refine ⟨_, rfl, ?_⟩
      intro x hx
      simp only [List.mem_cons, List.not_mem_nil, or_false] at hx
      rcases hx with rfl | rfl
      · exact jump t ⟨rest, ls, caps⟩ (htgt t rfl) (hcov _ (by simp)) hvalid
      · exact fall ⟨rest, ls, caps⟩ (hcov _ (by simp)) hvalid
  | jumpOrPop t =>
    cases st with
    | nil => simp [WellFormed.step] at hstep
    | cons y rest =>
      simp only [WellFormed.step, Option.some.injEq] at hstep; subst hstep
      refine ⟨_, rfl, ?_⟩
      intro x hx
      simp only [List.mem_cons, List.not_mem_nil, or_false] at hx
      rcases hx with rfl | rfl
      · exact jump t ⟨y :: rest, ls, caps⟩ (htgt t rfl) (hcov _ (by simp)) hvalid
      · exact fall ⟨rest, ls, caps⟩ (hcov _ (by simp)) hvalid
  | capture =>
    simp only [WellFormed.step, Option.some.injEq] at hstep; subst hstep
    refine ⟨_, rfl, ?_⟩
    intro x hx; simp only [List.mem_singleton] at hx; subst hx
    exact fall ⟨st, ls, caps + 1⟩ (hcov _ (by simp)) hvalid
  | endCapture =>
    simp only [WellFormed.step] at hstep
    by_cases hk : 0 < caps
    · simp only [hk, ↓reduceIte, Option.some.injEq] at hstep; subst hstep
      refine ⟨[(k + 1, mapSt (imapFn c) ⟨false :: st, ls, caps - 1⟩)], by simp [WellFormed.step, mapOp, mapSt, hk], ?_⟩
      intro x hx; simp only [List.mem_singleton] at hx; subst hx
      exact fall ⟨false :: st, ls, caps - 1⟩ (hcov _ (by simp)) hvalid
    · simp [hk] at hstep
  | startIterate =>
    cases st with
    | nil => simp [WellFormed.step] at hstep
    | cons y rest =>
      simp only [WellFormed.step, Option.some.injEq] at hstep; subst hstep
      refine ⟨_, rfl, ?_⟩
      intro x hx; simp only [List.mem_singleton] at hx; subst hx
      exact fall ⟨rest, none :: ls, caps⟩ (hcov _ (by simp)) (by simpa [validLoops] using hvalid)
  | storeLocal =>
    cases ls with
    | nil => simp [WellFormed.step] at hstep
    | cons l0 outer =>
      simp only [WellFormed.step, Option.some.injEq] at hstep; subst hstep
      refine ⟨_, rfl, ?_⟩
      intro x hx; simp only [List.mem_singleton] at hx; subst hx
      exact fall ⟨st, l0 :: outer, caps⟩ (hcov _ (by simp)) hvalid
  | iterate t =>
    cases ls with
    | nil => simp [WellFormed.step] at hstep
    | cons l0 outer =>
      simp only [WellFormed.step, Option.some.injEq] at hstep; subst hstep
      refine ⟨_, rfl, ?_⟩
      intro x hx
      simp only [List.mem_cons, List.not_mem_nil, or_false] at hx
      rcases hx with rfl | rfl
      · exact jump t ⟨st, l0 :: outer, caps⟩ (htgt t rfl) (hcov _ (by simp)) hvalid
      · have hv2 : validLoops c (some t :: outer) = true := by
          simp only [validLoops, List.all_cons, Bool.and_eq_true]
          exact ⟨htgt t rfl, validLoops_tail c l0 outer hvalid⟩
        exact fall ⟨st, some t :: outer, caps⟩ (hcov _ (by simp)) hv2
  | storeDidNotIterate =>
    cases ls with
    | nil => simp [WellFormed.step] at hstep
    | cons l0 outer =>
      simp only [WellFormed.step, Option.some.injEq] at hstep; subst hstep
      refine ⟨_, rfl, ?_⟩
      intro x hx; simp only [List.mem_singleton] at hx; subst hx
      exact fall ⟨false :: st, l0 :: outer, caps⟩ (hcov _ (by simp)) hvalid
  | break_ =>
    cases ls with
    | nil => simp [WellFormed.step] at hstep
    | cons l0 outer =>
      cases l0 with
      | none => simp [WellFormed.step] at hstep
      | some t =>
        simp only [WellFormed.step, Option.some.injEq] at hstep; subst hstep
        refine ⟨_, rfl, ?_⟩
        intro x hx; simp only [List.mem_singleton] at hx; subst hx
        exact jump t ⟨st, some t :: outer, caps⟩ (validLoops_head c t outer hvalid) (hcov _ (by simp)) hvalid
  | popLoop =>
    cases ls with
    | nil => simp [WellFormed.step] at hstep
    | cons l0 outer =>
      simp only [WellFormed.step, Option.some.injEq] at hstep; subst hstep
      refine ⟨_, rfl, ?_⟩
      intro x hx; simp only [List.mem_singleton] at hx; subst hx
      exact fall ⟨st, outer, caps⟩ (hcov _ (by simp)) (validLoops_tail c l0 outer hvalid)
  | appendToList =>
    match st, hstep with
    | _ :: true :: rest, hstep =>
      simp only [WellFormed.step, Option.some.injEq] at hstep; subst hstep
      refine ⟨_, rfl, ?_⟩
      intro x hx; simp only [List.mem_singleton] at hx; subst hx
      exact fall ⟨true :: rest, ls, caps⟩ (hcov _ (by simp)) hvalid
    | [], hstep => simp [WellFormed.step] at hstep
    | [_], hstep => simp [WellFormed.step] at hstep
    | _ :: false :: _, hstep => simp [WellFormed.step] at hstep

/-! ## Group starts -/

theorem pcRel_start (c : List Entry) (k : Nat) (hk : k ≤ (groups c).length) :
    PcRel c (startOf c k) k := by
  have hcat := groups_concat c
  have hsplit : c = ((groups c).take k).flatMap (·.orig) ++ ((groups c).drop k).flatMap (·.orig) := by
    rw [← List.flatMap_append, List.take_append_drop, hcat]
  unfold startOf
  generalize hA : ((groups c).take k).flatMap (·.orig) = A at hsplit
  generalize hB : ((groups c).drop k).flatMap (·.orig) = B at hsplit
  refine ⟨hk, ?_, ?_⟩
  · rw [hA]
    have h2 : List.take A.length (A ++ B) = A := List.take_left
    rw [← hsplit] at h2
    exact h2.symm
  · have := congrArg List.length hsplit
    simp only [List.length_append] at this
    omega

theorem start_lt (c : List Entry) (k : Nat) (hk : k < (groups c).length) :
    startOf c k < c.length := by
  have hp := pcRel_start c k (by omega)
  apply Classical.byContradiction
  intro hge
  have heq : startOf c k = c.length := by have := hp.2.2; omega
  rw [heq] at hp
  have := at_end c k hp
  omega

/-! ## Fused groups on the old table -/

theorem covered_refl (c : List Entry) (table : List (Option St)) (pc : Nat) (a : St)
    (hlt : pc < c.length) (ht : table[pc]? = some (some a)) :
    covered table c.length (pc, a) = true := by
  simp [covered, hlt, ht, St.le_refl]

theorem attrs_cover (c : List Entry) (table : List (Option St))
    (hall : ∀ pc, pc < c.length → verifyAt c table pc = true) :
    ∀ (taken : List (String × List Span)) (p : Nat) (st0 : List Bool) (ls : List (Option Nat))
      (caps : Nat) (rest : List Entry),
      c.drop p = taken.map attrEntry ++ rest →
      covered table c.length (p, ⟨false :: st0, ls, caps⟩) = true →
      covered table c.length (p + taken.length, ⟨false :: st0, ls, caps⟩) = true := by
  intro taken
  induction taken with
  | nil => intro p st0 ls caps rest _ h; simpa using h
  | cons a t ih =>
    intro p st0 ls caps rest hdrop hcov
    obtain ⟨hget, hdrop'⟩ := get_of_drop c p (attrEntry a) (t.map attrEntry ++ rest) (by simpa using hdrop)
    have hstep : WellFormed.step (.popPush 1 false) p ⟨false :: st0, ls, caps⟩
        = some [(p + 1, ⟨false :: st0, ls, caps⟩)] := by
      simp [WellFormed.step]
    have h1 := covered_step c table hall p _ (attrEntry a) (.popPush 1 false) _ hcov hget rfl hstep
      (p + 1, ⟨false :: st0, ls, caps⟩) (by simp)
    have := ih (p + 1) st0 ls caps rest hdrop' h1
    have e : p + (a :: t).length = p + 1 + t.length := by simp; omega
    rw [e]; exact this

/-! ## The theorem -/

/-- Acceptance by the verifier is preserved by the optimisation pass: the old table, read at the
group starts and with its stored loop ends mapped by `index_map`, is a valid certificate for the
optimised code. -/
theorem verify_optCode (c : List Entry) (table : List (Option St)) (hr : TargetsOk c)
    (hv : verify c table = true) : verify (optCode c) (newTable c table) = true := by
  simp only [verify, Bool.and_eq_true, List.all_eq_true, List.mem_range] at hv ⊢
  obtain ⟨h0, hall⟩ := hv
  refine ⟨?_, ?_⟩
  · have := cov_transfer c table 0 0 St.empty h0 (PcRel_zero c) rfl
    rwa [mapSt_empty] at this
  · intro k hk
    rw [optCode_length] at hk
    have hpc := pcRel_start c k (by omega)
    have hlt := start_lt c k hk
    obtain ⟨g, hg, hdrop, hnextrel⟩ := group_at c (startOf c k) k hpc hlt
    have hopt := optCode_get c k g hg
    have hgm : g ∈ groups c := List.mem_of_getElem? hg
    simp only [verifyAt, newTable_get c table k hk, hopt, newEntry]
    cases ht : table[startOf c k]? with
    | none => rfl
    | some entry =>
      cases entry with
      | none => rfl
      | some a =>
        simp only
        by_cases hvalid : validLoops c a.loops = true
        · simp only [hvalid, ↓reduceIte]
          have hcov0 := covered_refl c table (startOf c k) a hlt ht
          by_cases hkeep : g.orig = [g.out]
          · -- an instruction kept as it is
            rw [hkeep] at hdrop hnextrel
            obtain ⟨hget, _⟩ := get_of_drop c (startOf c k) g.out _ (by simpa using hdrop)
            have hmem : g.out ∈ c := List.mem_of_getElem? hget
            have hvat := hall (startOf c k) hlt
            simp only [verifyAt, ht, hget] at hvat
            cases hop : opOf g.out.1 with
            | none => rw [hop] at hvat; cases hvat
            | some op =>
              rw [hop] at hvat
              simp only at hvat
              cases hst : WellFormed.step op (startOf c k) a with
              | none => rw [hst] at hvat; cases hvat
              | some succs =>
                rw [hst] at hvat
                simp only [List.all_eq_true] at hvat
                have htgt : ∀ t, opTarget op = some t → isOperand c t = true := by
                  intro t ht'
                  rw [opTarget_opOf g.out.1 op hop] at ht'
                  exact List.any_eq_true.mpr ⟨g.out, hmem, by simp [ht']⟩
                obtain ⟨succs', hs', hc'⟩ := step_transfer c table hr op (startOf c k) k a succs hst hvat
                  hvalid (by simpa using hnextrel) htgt
                have hop' : opOf (remapTotal (indexMap c) g.out).1 = some (mapOp (imapFn c) op) := by
                  simp only [remapTotal]
                  exact opOf_mapTarget _ _ _ hop
                simp only [hop']
                have : WellFormed.step (mapOp (imapFn c) op) k (mapSt (imapFn c) a) = some succs' := hs'
                rw [this]
                simp only [List.all_eq_true]
                exact hc'
          · -- a fused group
            have hshape := groups_shape c g hgm
            obtain ⟨st, ls, caps⟩ := a
            cases hshape with
            | keep e => exact absurd rfl hkeep
            | path n s taken _ _ =>
              simp only at hdrop hnextrel
              obtain ⟨hget, hdrop1⟩ := get_of_drop c (startOf c k) (Instr.loadName n, s) _ (by simpa using hdrop)
              have hstep : WellFormed.step (.push false) (startOf c k) ⟨st, ls, caps⟩
                  = some [(startOf c k + 1, ⟨false :: st, ls, caps⟩)] := rfl
              have h1 := covered_step c table hall (startOf c k) _ _ (.push false) _ hcov0 hget rfl hstep
                (startOf c k + 1, ⟨false :: st, ls, caps⟩) (by simp)
              have h2 := attrs_cover c table hall taken (startOf c k + 1) st ls caps _ hdrop1 h1
              have e : startOf c k + ((Instr.loadName n, s) :: taken.map attrEntry).length
                  = startOf c k + 1 + taken.length := by simp; omega
              rw [e] at hnextrel
              have := cov_transfer c table _ (k + 1) ⟨false :: st, ls, caps⟩ h2 hnextrel hvalid
              simp only [remapTotal, Instr.mapTarget, opOf, WellFormed.step, List.all_cons, List.all_nil,
                Bool.and_true]
              exact this
            | write n s w taken _ =>
              simp only at hdrop hnextrel
              obtain ⟨hget, hdrop1⟩ := get_of_drop c (startOf c k) (Instr.loadName n, s) _ (by simpa using hdrop)
              have hstep : WellFormed.step (.push false) (startOf c k) ⟨st, ls, caps⟩
                  = some [(startOf c k + 1, ⟨false :: st, ls, caps⟩)] := rfl
              have h1 := covered_step c table hall (startOf c k) _ _ (.push false) _ hcov0 hget rfl hstep
                (startOf c k + 1, ⟨false :: st, ls, caps⟩) (by simp)
              have h2 := attrs_cover c table hall taken (startOf c k + 1) st ls caps _ hdrop1 h1
              have hdrop2 : c.drop (startOf c k + 1 + taken.length)
                  = (Instr.writeTop, w) :: c.drop (startOf c k + (taken.length + 1 + 1)) := by
                have := congrArg (List.drop taken.length) hdrop1
                rw [List.drop_drop] at this
                rw [this]
                have hl : (taken.map attrEntry).length = taken.length := by simp
                rw [← hl, List.drop_left]
              obtain ⟨hgetw, _⟩ := get_of_drop c _ _ _ hdrop2
              have hstepw : WellFormed.step (.pop 1) (startOf c k + 1 + taken.length) ⟨false :: st, ls, caps⟩
                  = some [(startOf c k + 1 + taken.length + 1, ⟨st, ls, caps⟩)] := by
                simp [WellFormed.step]
              have h3 := covered_step c table hall _ _ _ (.pop 1) _ h2 hgetw rfl hstepw
                (startOf c k + 1 + taken.length + 1, ⟨st, ls, caps⟩) (by simp)
              have e : startOf c k
                  + ((Instr.loadName n, s) :: (taken.map attrEntry ++ [(Instr.writeTop, w)])).length
                  = startOf c k + 1 + taken.length + 1 := by simp; omega
              rw [e] at hnextrel
              have := cov_transfer c table _ (k + 1) ⟨st, ls, caps⟩ h3 hnextrel hvalid
              simp only [remapTotal, Instr.mapTarget, opOf, WellFormed.step, List.all_cons, List.all_nil,
                Bool.and_true]
              exact this
        · simp only [hvalid, Bool.false_eq_true, ↓reduceIte]

end OptimizeWF
end Tera
