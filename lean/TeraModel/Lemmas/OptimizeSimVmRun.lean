/-
Helper lemmas for C09Vm: the run of the optimised chunk simulates the run of the original chunk
(value-level VM, `Vm.runLoop`).  `f = index_map`, `P = PcRel` (old index = first instruction of
the group with the new index).
-/
import TeraModel.Lemmas.OptimizeSimVmGroup
set_option linter.unusedSectionVars false
set_option linter.unusedSimpArgs false
namespace Tera
namespace OptimizeSimVm
open Tera.Vm Tera.Optimize Tera.ChunkVm Tera.OptimizeWF Tera.OptimizeVWF

/-! ### `index_map` -/

theorem indexMapGo_get : ∀ (gs : List Group) (k0 m : Nat) (g : Group) (d : Nat),
    gs[m]? = some g → d < g.orig.length →
    (indexMapGo k0 gs)[((gs.take m).flatMap (·.orig)).length + d]? = some (k0 + m)
  | [], _, m, g, d, h, _ => by simp at h
  | g0 :: gs, k0, 0, g, d, h, hd => by
    simp only [List.getElem?_cons_zero, Option.some.injEq] at h
    subst h
    simp only [List.take_zero, List.flatMap_nil, List.length_nil, Nat.zero_add, indexMapGo, Nat.add_zero]
    rw [List.getElem?_append_left (by simpa using hd)]
    simp [hd]
  | g0 :: gs, k0, m + 1, g, d, h, hd => by
    simp only [List.getElem?_cons_succ] at h
    have ih := indexMapGo_get gs (k0 + 1) m g d h hd
    simp only [List.take_succ_cons, List.flatMap_cons, List.length_append, indexMapGo]
    have e : g0.orig.length + ((gs.take m).flatMap (·.orig)).length + d
        = (List.replicate g0.orig.length k0).length + (((gs.take m).flatMap (·.orig)).length + d) := by
      simp; omega
    rw [e, List.getElem?_append_right (by omega)]
    simp only [Nat.add_sub_cancel_left]
    rw [ih]
    congr 1; omega

theorem indexMapGo_ge : ∀ (gs : List Group) (k0 : Nat), ∀ x ∈ indexMapGo k0 gs, k0 ≤ x
  | [], k0, x, hx => by simp [indexMapGo] at hx; omega
  | g :: gs, k0, x, hx => by
    simp only [indexMapGo, List.mem_append, List.mem_replicate] at hx
    rcases hx with ⟨_, rfl⟩ | hx
    · exact Nat.le_refl _
    · have := indexMapGo_ge gs (k0 + 1) x hx; omega

theorem indexMapGo_sorted : ∀ (gs : List Group) (k0 : Nat), (indexMapGo k0 gs).Pairwise (· ≤ ·)
  | [], k0 => by simp [indexMapGo]
  | g :: gs, k0 => by
    simp only [indexMapGo]
    rw [List.pairwise_append]
    refine ⟨?_, indexMapGo_sorted gs (k0 + 1), ?_⟩
    · rw [List.pairwise_replicate]; exact Or.inr (Nat.le_refl _)
    · intro a ha b hb
      simp only [List.mem_replicate] at ha
      have := indexMapGo_ge gs (k0 + 1) b hb
      omega

theorem imap_mono (L : List Entry) (i j : Nat) (hij : i ≤ j) (hj : j ≤ L.length) :
    imapFn L i ≤ imapFn L j := by
  have hlen : (indexMap L).length = L.length + 1 := by
    unfold indexMap; rw [indexMapGo_length, groups_concat]
  have hs := indexMapGo_sorted (groups L) 0
  rcases Nat.lt_or_eq_of_le hij with hlt | rfl
  · have hi' : i < (indexMap L).length := by omega
    have hj' : j < (indexMap L).length := by omega
    have := (List.pairwise_iff_getElem.mp hs) i j hi' hj' hlt
    simp only [imapFn, List.getD_eq_getElem?_getD, List.getElem?_eq_getElem hi', List.getElem?_eq_getElem hj',
      Option.getD_some]
    exact this
  · exact Nat.le_refl _

theorem imap_in_group (L : List Entry) (pc k : Nat) (g : Group) (h : PcRel L pc k)
    (hg : (groups L)[k]? = some g) (d : Nat) (hd : d < g.orig.length) : imapFn L (pc + d) = k := by
  have hlen : (((groups L).take k).flatMap (·.orig)).length = pc := by
    rw [h.2.1, List.length_take]; exact Nat.min_eq_left h.2.2
  have := indexMapGo_get (groups L) 0 k g d hg hd
  rw [hlen, Nat.zero_add] at this
  exact imapFn_of_get L _ _ this

theorem get_in_drop {α : Type} (l xs ys : List α) (pc j : Nat) (h : l.drop pc = xs ++ ys)
    (hj : j < xs.length) : l[pc + j]? = xs[j]? := by
  have : l[pc + j]? = (l.drop pc)[j]? := by rw [List.getElem?_drop]
  rw [this, h, List.getElem?_append_left hj]


/-! ### the two chunks -/

section sim
variable (dec : Instr → Option VInstr) (hD : DecOK dec) (L : List Entry)
  (hT : TargetsOk L) (hS : PathVm.PathSpans L) (hO : OtherNoTarget dec L)
  (C C' : Chunk) (hname : C'.name = C.name)
  (hdec : Decoded dec L C.code) (hdec' : Decoded dec (optCode L) C'.code)

include hname hdec in
theorem ren_opt : Ren C C' (imapFn L) :=
  ⟨hname, fun i j hij hj => imap_mono L i j hij (by rw [← hdec.len]; omega)⟩

theorem hasSpan_of_code {c : Chunk} {i : Nat} {vi : VInstr} {sp : List Span}
    (h : c.code[i]? = some (vi, sp)) : c.hasSpan i = !sp.isEmpty := by
  simp [Chunk.hasSpan, h]

theorem hasSpanAt_of_code {c : Chunk} {i : Nat} {vi : VInstr} {sp : List Span}
    (h : c.code[i]? = some (vi, sp)) (j : Nat) : c.hasSpanAt i j = decide (j < sp.length) := by
  simp [Chunk.hasSpanAt, h]

include hD hT hO hdec hdec' in
/-- an instruction the optimiser keeps: what is at `pc` and at `k` -/
theorem kept_facts (pc k : Nat) (g : Group) (hrel : PcRel L pc k) (hg : (groups L)[k]? = some g)
    (hdrop : L.drop pc = g.orig ++ L.drop (pc + g.orig.length)) (hkeep : g.orig = [g.out]) :
    ∃ vi, C.code[pc]? = some (vi, g.out.2) ∧
      C'.code[k]? = some (vmapTarget (imapFn L) vi, g.out.2) ∧
      (∀ t, vtarget vi = some t → PcRel L t (imapFn L t) ∧ (t = 0 ↔ imapFn L t = 0)) ∧
      Good C C' (imapFn L) pc ∧ imapFn L pc = k ∧
      (∀ j, C'.hasSpanAt k j = C.hasSpanAt pc j) := by
  rw [hkeep] at hdrop
  obtain ⟨hget, _⟩ := get_of_drop L pc g.out _ (by simpa using hdrop)
  have hmem : g.out ∈ L := List.mem_of_getElem? hget
  obtain ⟨vi, hvi, hcode⟩ := hdec.get _ _ hget
  have hopt := optCode_get L k g hg
  obtain ⟨vi', hvi', hcode'⟩ := hdec'.get k _ hopt
  obtain ⟨hrm, htg⟩ := dec_remap dec hD L hO (fun t => (indexMap L).getD t 0) g.out hmem vi hvi
  have hvi'' : vi' = vmapTarget (imapFn L) vi := by
    simp only [remapTotal] at hvi'
    have : dec (g.out.1.mapTarget fun t => (indexMap L).getD t 0) = some vi' := hvi'
    rw [hrm] at this
    exact (Option.some.inj this).symm
  subst hvi''
  have hcode'' : C'.code[k]? = some (vmapTarget (imapFn L) vi, g.out.2) := hcode'
  have hfk : imapFn L pc = k := by
    have := imap_in_group L pc k g hrel hg 0 (by rw [hkeep]; simp)
    simpa using this
  have hlt : pc < L.length := (List.getElem?_eq_some_iff.mp hget).1
  refine ⟨vi, hcode, hcode'', ?_, ⟨Or.inl (by rw [hdec.len]; exact hlt), ?_⟩, hfk, ?_⟩
  · intro t ht
    rw [htg] at ht
    have hp := PcRel_target L hT g.out hmem t ht
    exact ⟨hp, PcRel_zero_iff L t _ hp⟩
  · rw [hfk, hasSpan_of_code hcode'', hasSpan_of_code hcode]
  · intro j
    rw [hasSpanAt_of_code hcode'', hasSpanAt_of_code hcode]

include hD hS hdec in
/-- the instructions of a `LoadName; LoadAttr*` run of the original chunk -/
theorem seq_code (pc : Nat) (n : String) (s : List Span) (taken : List (String × List Span))
    (tl : List Entry) (hdrop : L.drop pc = ((Instr.loadName n, s) :: taken.map attrEntry) ++ tl) :
    C.code[pc]? = some (.loadName n, s) ∧
    (∀ j x, taken[j]? = some x → C.code[pc + 1 + j]? = some (.loadAttr x.1 false, x.2)) ∧
    (∀ j, j ≤ taken.length → C.hasSpan (pc + j) = true) ∧
    s ≠ [] ∧ (∀ x ∈ taken, x.2 ≠ []) := by
  have hget : ∀ i, i < ((Instr.loadName n, s) :: taken.map attrEntry).length →
      L[pc + i]? = ((Instr.loadName n, s) :: taken.map attrEntry)[i]? :=
    fun i hi => get_in_drop L _ tl pc i hdrop hi
  have h0 : C.code[pc]? = some (.loadName n, s) := by
    have := hget 0 (by simp)
    simp only [Nat.add_zero, List.getElem?_cons_zero] at this
    obtain ⟨vi, hvi, hcode⟩ := hdec.get _ _ this
    rw [hD.loadName] at hvi
    cases hvi
    exact hcode
  have hj : ∀ j x, taken[j]? = some x → C.code[pc + 1 + j]? = some (.loadAttr x.1 false, x.2) := by
    intro j x hx
    have hjl : j < taken.length := (List.getElem?_eq_some_iff.mp hx).1
    have := hget (j + 1) (by simp; omega)
    simp only [List.getElem?_cons_succ, List.getElem?_map, hx, Option.map_some] at this
    obtain ⟨vi, hvi, hcode⟩ := hdec.get _ _ this
    simp only [attrEntry] at hvi hcode
    rw [hD.loadAttr] at hvi
    cases hvi
    have e : pc + (j + 1) = pc + 1 + j := by omega
    rw [e] at hcode
    exact hcode
  have hs0 : s ≠ [] := by
    have hmem : (Instr.loadName n, s) ∈ L := by
      have := hget 0 (by simp)
      exact List.mem_of_getElem? (by simpa using this)
    exact hS _ hmem (Or.inl ⟨n, rfl⟩)
  have hsx : ∀ x ∈ taken, x.2 ≠ [] := by
    intro x hx
    obtain ⟨j, hjl, rfl⟩ := List.mem_iff_getElem.mp hx
    have hx' : taken[j]? = some taken[j] := List.getElem?_eq_getElem hjl
    have hmem : attrEntry taken[j] ∈ L := by
      have := hget (j + 1) (by simp; omega)
      simp only [List.getElem?_cons_succ, List.getElem?_map, hx', Option.map_some] at this
      exact List.mem_of_getElem? this
    exact hS _ hmem (Or.inr ⟨taken[j].1, rfl⟩)
  refine ⟨h0, hj, ?_, hs0, hsx⟩
  intro j hjl
  cases j with
  | zero =>
    have hmem : (Instr.loadName n, s) ∈ L := by
      have := hget 0 (by simp)
      exact List.mem_of_getElem? (by simpa using this)
    have hs := hS _ hmem (Or.inl ⟨n, rfl⟩)
    rw [Nat.add_zero, hasSpan_of_code h0]
    cases s with
    | nil => exact absurd rfl hs
    | cons _ _ => rfl
  | succ j =>
    have hjl' : j < taken.length := by omega
    have hx : taken[j]? = some taken[j] := List.getElem?_eq_getElem hjl'
    have hmem : attrEntry taken[j] ∈ L := by
      have := hget (j + 1) (by simp; omega)
      simp only [List.getElem?_cons_succ, List.getElem?_map, hx, Option.map_some] at this
      exact List.mem_of_getElem? this
    have hs := hS _ hmem (Or.inr ⟨taken[j].1, rfl⟩)
    have e : pc + (j + 1) = pc + 1 + j := by omega
    rw [e, hasSpan_of_code (hj j _ hx)]
    simp only [attrEntry] at hs
    cases h2 : taken[j].2 with
    | nil => exact absurd h2 hs
    | cons _ _ => rfl


theorem runLoop_of_none (rec : VmCtx → Chunk → State → RunRes) (env : Env) (vm : VmCtx) (c : Chunk)
    (n pc : Nat) (st : State) (h : c.code[pc]? = none) : runLoop rec env vm c n pc st = .done st := by
  cases n <;> simp [runLoop, h]

include hname in
theorem runRel_raise {E : RErr → RErr → Prop} {π : PMap} (env : Env) (vm : VmCtx) (f : Nat → Nat)
    (P : Nat → Nat → Prop) (e e' : RErr) (h : E e e') :
    RunRelG E π C C' f P (raiseRun env vm C e) (raiseRun env vm C' e') := by
  have : reportTargetOk env vm C' = reportTargetOk env vm C := by simp [reportTargetOk, hname]
  simp only [raiseRun, this]
  cases reportTargetOk env vm C <;> first | exact h | exact True.intro

include hD hT hS hO hname hdec hdec' in
/-- Forward simulation: whatever the original chunk's loop returns within `n` turns (other than
running out of fuel), the optimised chunk's loop returns the related result within `n` turns. -/
theorem sim_forwardG {E : RErr → RErr → Prop} {π : PMap} (hE : ∀ e, E e e)
    (hU : ∀ e e', isUndefErr e = true → isUndefErr e' = true → E e e')
    {rec rec' : VmCtx → Chunk → State → RunRes} (env : Env) (vm : VmCtx)
    (hrec : FreshOK E π rec rec' C C' (imapFn L) (PcRel L))
    (hbl : (∃ e ∈ C.code, isBlockCall e.1 = true) → BlockOK E π rec rec' C C' (imapFn L) (PcRel L)) :
    ∀ (n pc k : Nat) (st : State), PcRel L pc k → GoodState C C' (imapFn L) (PcRel L) st →
      runLoop rec env vm C n pc st ≠ .outOfFuel →
      ∃ m, m ≤ n ∧ RunRelG E π C C' (imapFn L) (PcRel L) (runLoop rec env vm C n pc st)
        (runLoop rec' env vm C' m k (mapStateP (imapFn L) π st)) := by
  intro n
  induction n using Nat.strongRecOn with
  | _ n ih =>
  intro pc k st hrel hst hne
  have hR := ren_opt dec L C C' hname hdec
  by_cases hlt' : ¬ pc < L.length
  · -- both at the end
    have hpc : pc = L.length := by have := hrel.2.2; omega
    subst hpc
    have hk := at_end L k hrel
    have hnone : C.code[L.length]? = none := by
      rw [List.getElem?_eq_none_iff, hdec.len]; exact Nat.le_refl _
    have hnone' : C'.code[k]? = none := by
      rw [List.getElem?_eq_none_iff, hdec'.len, optCode_length, hk]; exact Nat.le_refl _
    refine ⟨0, Nat.zero_le _, ?_⟩
    rw [runLoop_of_none rec env vm C n _ st hnone, runLoop_of_none rec' env vm C' 0 k _ hnone']
    exact ⟨rfl, hst⟩
  · have hlt : pc < L.length := Classical.not_not.mp hlt'
    obtain ⟨g, hg, hdrop, hnextrel⟩ := group_at L pc k hrel hlt
    by_cases hkeep : g.orig = [g.out]
    · -- an instruction kept as it is
      obtain ⟨vi, hcode, hcode', htg, hgood, hfk, hspat⟩ :=
        kept_facts dec hD L hT hO C C' hdec hdec' pc k g hrel hg hdrop hkeep
      have hnext' : PcRel L (pc + 1) (k + 1) := by rw [hkeep] at hnextrel; simpa using hnextrel
      cases n with
      | zero => exact absurd (runLoop_zero_some rec env vm C st hcode) hne
      | succ n =>
        have hstep : StepRelG E π C C' (imapFn L) (PcRel L) (step rec env vm C (vi, g.out.2) pc st)
            (step rec' env vm C' (vmapTarget (imapFn L) vi, g.out.2) k (mapStateP (imapFn L) π st)) :=
          step_keptG hE hR hrec (imapFn_zero L) (PcRel_zero L) hgood hfk hnext' hspat env vm hst (vi, g.out.2) htg
            (fun hb => hbl ⟨(vi, g.out.2), List.mem_of_getElem? hcode, hb⟩)
        simp only [runLoop, hcode] at hne ⊢
        revert hstep hne
        cases hs : step rec env vm C (vi, g.out.2) pc st with
        | next p s1 =>
          cases hs' : step rec' env vm C' (vmapTarget (imapFn L) vi, g.out.2) k (mapStateP (imapFn L) π st) with
          | next p' s' =>
            intro hstep hne
            obtain ⟨hP, rfl, hgs⟩ := hstep
            obtain ⟨m, hm, hrr⟩ := ih n (Nat.lt_succ_self n) p p' s1 hP hgs hne
            refine ⟨m + 1, by omega, ?_⟩
            simp only [runLoop, hcode', hs']
            exact hrr
          | _ => intro hstep; exact hstep.elim
        | outOfFuel => intro _ hne; exact absurd rfl hne
        | _ =>
          intro hstep _
          refine ⟨1, by omega, ?_⟩
          simp only [runLoop, hcode']
          revert hstep
          cases step rec' env vm C' (vmapTarget (imapFn L) vi, g.out.2) k (mapStateP (imapFn L) π st) <;>
            intro hstep <;> first | exact hstep.elim | exact True.intro | exact hstep
    · -- a fused group
      have hshape := groups_shape L g (List.mem_of_getElem? hg)
      have hopt := optCode_get L k g hg
      have hv0 : ∀ n0, (mapStateP (imapFn L) π st).scope.getValue n0 = st.scope.getValue n0 := by
        intro n0; simp
      cases hshape with
      | keep e => exact absurd rfl hkeep
      | path n0 s taken hn0 hne0 =>
        simp only at hdrop hnextrel hopt
        obtain ⟨hc0, hcj, hsp, hs0, hsx⟩ := seq_code dec hD L hS C hdec pc n0 s taken _ hdrop
        obtain ⟨vi', hvi', hcode'⟩ := hdec'.get k _ hopt
        simp only [remapTotal, Instr.mapTarget] at hvi' hcode'
        rw [hD.loadPath] at hvi'
        cases hvi'
        have hcnt := PathVm.flatMap_spans_length taken hsx
        have hs1 : 0 < s.length := List.length_pos_iff.mpr hs0
        have hspAt : ∀ j, j ≤ (taken.map (·.1)).length → C'.hasSpanAt k j = true := by
          intro j hj
          rw [hasSpanAt_of_code hcode']
          simp only [List.length_map] at hj
          simp only [List.length_append, decide_eq_true_eq]; omega
        have hfk : imapFn L (pc + taken.length) = k :=
          imap_in_group L pc k _ hrel hg taken.length (by simp)
        have hgd : Good C C' (imapFn L) (pc + taken.length) := by
          refine ⟨Or.inl ?_, ?_⟩
          · have := hnextrel.2.2
            simp only [List.length_cons, List.length_map] at this
            rw [hdec.len]; omega
          · rw [hfk, hsp _ (Nat.le_refl _), hasSpan_of_code hcode']
            cases s with
            | nil => exact absurd rfl hs0
            | cons _ _ => rfl
        have hgrp := load_group_run rec env vm C st pc n0 s taken hn0 hc0 hcj hsp
        have hfus := fused_load env vm C' k n0 (taken.map (·.1)) (by simpa using hne0) hspAt
          (mapStateP (imapFn L) π st)
        rw [hv0] at hfus
        cases hw : walkVals (st.scope.getValue n0) (taken.map (·.1)) with
        | some v =>
          obtain ⟨ha, hb⟩ := hgrp.1 v hw
          by_cases hnq : n < taken.length + 1
          · exact absurd (ha n hnq) hne
          · obtain ⟨n1, rfl⟩ : ∃ n1, n = n1 + (taken.length + 1) := ⟨n - (taken.length + 1), by omega⟩
            rw [hb n1] at hne ⊢
            have hgood1 : GoodState C C' (imapFn L) (PcRel L)
                (st.push v (pc + taken.length, pc + taken.length)) :=
              ⟨goodStack_cons (goodSlot_own hgd v) hst.1, hst.2⟩
            have hrel1 : PcRel L (pc + 1 + taken.length) (k + 1) := by
              have e : pc + ((Instr.loadName n0, s) :: taken.map attrEntry).length = pc + 1 + taken.length := by
                simp; omega
              rw [e] at hnextrel; exact hnextrel
            obtain ⟨m, hm, hrr⟩ := ih n1 (by omega) _ _ _ hrel1 hgood1 hne
            refine ⟨m + 1, by omega, ?_⟩
            rw [runLoop_succ_next rec' env vm C' m hcode' (by simp only [Vm.step]; exact hfus.1 v hw)]
            have e : (mapStateP (imapFn L) π st).push v (k, k)
                = mapStateP (imapFn L) π (st.push v (pc + taken.length, pc + taken.length)) := by
              simp [State.push, mapStateP, mapSlot, mapSpan, hfk]
            rw [e]; exact hrr
        | none =>
          obtain ⟨ha, _⟩ := hgrp.2 hw
          rcases ha n with h0 | ⟨e, he, hu⟩
          · exact absurd h0 hne
          · obtain ⟨e', he', hu'⟩ := hfus.2 hw
            have hn1 : 1 ≤ n := by
              cases n with
              | zero => exact absurd (runLoop_zero_some rec env vm C st hc0) hne
              | succ n => omega
            refine ⟨1, hn1, ?_⟩
            rw [he, runLoop_succ_raise rec' env vm C' 0 hcode' (by simp only [Vm.step]; exact he')]
            exact runRel_raise C C' hname env vm _ _ e e' (hU e e' hu hu')
      | write n0 s w taken hn0 =>
        simp only at hdrop hnextrel hopt
        have hdrop' : L.drop pc = ((Instr.loadName n0, s) :: taken.map attrEntry) ++
            ((Instr.writeTop, w) :: L.drop (pc + (taken.length + 1 + 1))) := by
          rw [hdrop]; simp
        obtain ⟨hc0, hcj, hsp, hs0, hsx⟩ := seq_code dec hD L hS C hdec pc n0 s taken _ hdrop'
        have hcw : C.code[pc + 1 + taken.length]? = some (.writeTop, w) := by
          have := get_in_drop L _ _ pc (taken.length + 1) hdrop (by simp)
          have e : ((Instr.loadName n0, s) :: (taken.map attrEntry ++ [(Instr.writeTop, w)]))[taken.length + 1]?
              = some (Instr.writeTop, w) := by
            simp only [List.getElem?_cons_succ]
            rw [List.getElem?_append_right (by simp)]
            simp
          rw [e] at this
          obtain ⟨vi, hvi, hcode⟩ := hdec.get _ _ this
          rw [hD.writeTop] at hvi
          cases hvi
          have e2 : pc + (taken.length + 1) = pc + 1 + taken.length := by omega
          rw [e2] at hcode; exact hcode
        obtain ⟨vi', hvi', hcode'⟩ := hdec'.get k _ hopt
        simp only [remapTotal, Instr.mapTarget] at hvi' hcode'
        rw [hD.writePath] at hvi'
        cases hvi'
        have hcnt := PathVm.flatMap_spans_length taken hsx
        have hs1 : 0 < s.length := List.length_pos_iff.mpr hs0
        have hspAt : ∀ j, j ≤ (taken.map (·.1)).length → C'.hasSpanAt k j = true := by
          intro j hj
          rw [hasSpanAt_of_code hcode']
          simp only [List.length_map] at hj
          simp only [List.length_append, decide_eq_true_eq]; omega
        have hgrp := write_group_run rec env vm C st pc n0 s w taken hn0 hc0 hcj hcw hsp
        have hfus := fused_write env vm C' k n0 (taken.map (·.1)) hn0 hspAt (mapStateP (imapFn L) π st)
        rw [hv0] at hfus
        have hbad : (walkVals (st.scope.getValue n0) (taken.map (·.1)) = none ∨
            ∃ v, walkVals (st.scope.getValue n0) (taken.map (·.1)) = some v ∧ v.isUndef = true) →
            ∃ m, m ≤ n ∧ RunRelG E π C C' (imapFn L) (PcRel L) (runLoop rec env vm C n pc st)
              (runLoop rec' env vm C' m k (mapStateP (imapFn L) π st)) := by
          intro hw
          obtain ⟨ha, _⟩ := hgrp.2 hw
          rcases ha n with h0 | ⟨e, he, hu⟩
          · exact absurd h0 hne
          · obtain ⟨e', he', hu'⟩ := hfus.2 hw
            have hn1 : 1 ≤ n := by
              cases n with
              | zero => exact absurd (runLoop_zero_some rec env vm C st hc0) hne
              | succ n => omega
            refine ⟨1, hn1, ?_⟩
            rw [he, runLoop_succ_raise rec' env vm C' 0 hcode' (by simp only [Vm.step]; exact he')]
            exact runRel_raise C C' hname env vm _ _ e e' (hU e e' hu hu')
        cases hw : walkVals (st.scope.getValue n0) (taken.map (·.1)) with
        | none => exact hbad (Or.inl hw)
        | some v =>
          by_cases hvu : v.isUndef = true
          · exact hbad (Or.inr ⟨v, hw, hvu⟩)
          · have hvu' : v.isUndef = false := by simpa using hvu
            obtain ⟨ha, hb⟩ := hgrp.1 v hw hvu'
            by_cases hnq : n < taken.length + 2
            · exact absurd (ha n hnq) hne
            · obtain ⟨n1, rfl⟩ : ∃ n1, n = n1 + (taken.length + 2) := ⟨n - (taken.length + 2), by omega⟩
              rw [hb n1] at hne ⊢
              have hgood1 : GoodState C C' (imapFn L) (PcRel L) (emitValue env vm v st) := by
                unfold emitValue State.write
                cases st.captures <;> exact hst
              have hrel1 : PcRel L (pc + 1 + taken.length + 1) (k + 1) := by
                have e : pc + ((Instr.loadName n0, s) :: (taken.map attrEntry ++ [(Instr.writeTop, w)])).length
                    = pc + 1 + taken.length + 1 := by simp; omega
                rw [e] at hnextrel; exact hnextrel
              obtain ⟨m, hm, hrr⟩ := ih n1 (by omega) _ _ _ hrel1 hgood1 hne
              refine ⟨m + 1, by omega, ?_⟩
              rw [runLoop_succ_next rec' env vm C' m hcode' (by simp only [Vm.step]; exact hfus.1 v hw hvu'),
                mapState_emit]
              exact hrr


include hD hT hS hO hname hdec hdec' in
/-- Backward simulation: whatever the optimised chunk's loop returns within `m` turns (other than
running out of fuel), the original chunk's loop returns the related result given enough turns. -/
theorem sim_backwardG {E : RErr → RErr → Prop} {π : PMap} (hE : ∀ e, E e e)
    (hU : ∀ e e', isUndefErr e = true → isUndefErr e' = true → E e e')
    {rec rec' : VmCtx → Chunk → State → RunRes} (env : Env) (vm : VmCtx)
    (hrec : FreshOK E π rec rec' C C' (imapFn L) (PcRel L))
    (hbl : (∃ e ∈ C.code, isBlockCall e.1 = true) → BlockOK E π rec rec' C C' (imapFn L) (PcRel L)) :
    ∀ (m pc k : Nat) (st : State), PcRel L pc k → GoodState C C' (imapFn L) (PcRel L) st →
      runLoop rec' env vm C' m k (mapStateP (imapFn L) π st) ≠ .outOfFuel →
      ∃ n, RunRelG E π C C' (imapFn L) (PcRel L) (runLoop rec env vm C n pc st)
        (runLoop rec' env vm C' m k (mapStateP (imapFn L) π st)) := by
  intro m
  induction m with
  | zero =>
    intro pc k st hrel hst hne
    by_cases hlt' : ¬ pc < L.length
    · have hpc : pc = L.length := by have := hrel.2.2; omega
      subst hpc
      have hk := at_end L k hrel
      have hnone : C.code[L.length]? = none := by
        rw [List.getElem?_eq_none_iff, hdec.len]; exact Nat.le_refl _
      have hnone' : C'.code[k]? = none := by
        rw [List.getElem?_eq_none_iff, hdec'.len, optCode_length, hk]; exact Nat.le_refl _
      refine ⟨0, ?_⟩
      rw [runLoop_of_none rec env vm C 0 _ st hnone, runLoop_of_none rec' env vm C' 0 k _ hnone']
      exact ⟨rfl, hst⟩
    · have hlt : pc < L.length := Classical.not_not.mp hlt'
      obtain ⟨g, hg, _, _⟩ := group_at L pc k hrel hlt
      obtain ⟨vi', _, hcode'⟩ := hdec'.get k _ (optCode_get L k g hg)
      exact absurd (runLoop_zero_some rec' env vm C' _ hcode') hne
  | succ m ih =>
  intro pc k st hrel hst hne
  have hR := ren_opt dec L C C' hname hdec
  by_cases hlt' : ¬ pc < L.length
  · have hpc : pc = L.length := by have := hrel.2.2; omega
    subst hpc
    have hk := at_end L k hrel
    have hnone : C.code[L.length]? = none := by
      rw [List.getElem?_eq_none_iff, hdec.len]; exact Nat.le_refl _
    have hnone' : C'.code[k]? = none := by
      rw [List.getElem?_eq_none_iff, hdec'.len, optCode_length, hk]; exact Nat.le_refl _
    refine ⟨0, ?_⟩
    rw [runLoop_of_none rec env vm C 0 _ st hnone, runLoop_of_none rec' env vm C' _ k _ hnone']
    exact ⟨rfl, hst⟩
  · have hlt : pc < L.length := Classical.not_not.mp hlt'
    obtain ⟨g, hg, hdrop, hnextrel⟩ := group_at L pc k hrel hlt
    by_cases hkeep : g.orig = [g.out]
    · obtain ⟨vi, hcode, hcode', htg, hgood, hfk, hspat⟩ :=
        kept_facts dec hD L hT hO C C' hdec hdec' pc k g hrel hg hdrop hkeep
      have hnext' : PcRel L (pc + 1) (k + 1) := by rw [hkeep] at hnextrel; simpa using hnextrel
      have hstep : StepRelG E π C C' (imapFn L) (PcRel L) (Vm.step rec env vm C (vi, g.out.2) pc st)
          (Vm.step rec' env vm C' (vmapTarget (imapFn L) vi, g.out.2) k (mapStateP (imapFn L) π st)) :=
        step_keptG hE hR hrec (imapFn_zero L) (PcRel_zero L) hgood hfk hnext' hspat env vm hst (vi, g.out.2) htg
            (fun hb => hbl ⟨(vi, g.out.2), List.mem_of_getElem? hcode, hb⟩)
      simp only [runLoop, hcode'] at hne ⊢
      revert hstep hne
      cases hs' : Vm.step rec' env vm C' (vmapTarget (imapFn L) vi, g.out.2) k (mapStateP (imapFn L) π st) with
      | next p' s' =>
        cases hs : Vm.step rec env vm C (vi, g.out.2) pc st with
        | next p s1 =>
          intro hstep hne
          obtain ⟨hP, rfl, hgs⟩ := hstep
          obtain ⟨n, hrr⟩ := ih p p' s1 hP hgs hne
          refine ⟨n + 1, ?_⟩
          simp only [runLoop, hcode, hs]
          exact hrr
        | _ => intro hstep; exact hstep.elim
      | outOfFuel => intro _ hne; exact absurd rfl hne
      | _ =>
        intro hstep _
        refine ⟨1, ?_⟩
        simp only [runLoop, hcode]
        revert hstep
        cases Vm.step rec env vm C (vi, g.out.2) pc st <;>
          intro hstep <;> first | exact hstep.elim | exact True.intro | exact hstep
    · have hshape := groups_shape L g (List.mem_of_getElem? hg)
      have hopt := optCode_get L k g hg
      have hv0 : ∀ n0, (mapStateP (imapFn L) π st).scope.getValue n0 = st.scope.getValue n0 := by
        intro n0; simp
      cases hshape with
      | keep e => exact absurd rfl hkeep
      | path n0 s taken hn0 hne0 =>
        simp only at hdrop hnextrel hopt
        obtain ⟨hc0, hcj, hsp, hs0, hsx⟩ := seq_code dec hD L hS C hdec pc n0 s taken _ hdrop
        obtain ⟨vi', hvi', hcode'⟩ := hdec'.get k _ hopt
        simp only [remapTotal, Instr.mapTarget] at hvi' hcode'
        rw [hD.loadPath] at hvi'
        cases hvi'
        have hcnt := PathVm.flatMap_spans_length taken hsx
        have hs1 : 0 < s.length := List.length_pos_iff.mpr hs0
        have hspAt : ∀ j, j ≤ (taken.map (·.1)).length → C'.hasSpanAt k j = true := by
          intro j hj
          rw [hasSpanAt_of_code hcode']
          simp only [List.length_map] at hj
          simp only [List.length_append, decide_eq_true_eq]; omega
        have hfk : imapFn L (pc + taken.length) = k :=
          imap_in_group L pc k _ hrel hg taken.length (by simp)
        have hgd : Good C C' (imapFn L) (pc + taken.length) := by
          refine ⟨Or.inl ?_, ?_⟩
          · have := hnextrel.2.2
            simp only [List.length_cons, List.length_map] at this
            rw [hdec.len]; omega
          · rw [hfk, hsp _ (Nat.le_refl _), hasSpan_of_code hcode']
            cases s with
            | nil => exact absurd rfl hs0
            | cons _ _ => rfl
        have hgrp := load_group_run rec env vm C st pc n0 s taken hn0 hc0 hcj hsp
        have hfus := fused_load env vm C' k n0 (taken.map (·.1)) (by simpa using hne0) hspAt
          (mapStateP (imapFn L) π st)
        rw [hv0] at hfus
        cases hw : walkVals (st.scope.getValue n0) (taken.map (·.1)) with
        | some v =>
          obtain ⟨_, hb⟩ := hgrp.1 v hw
          have e : (mapStateP (imapFn L) π st).push v (k, k)
              = mapStateP (imapFn L) π (st.push v (pc + taken.length, pc + taken.length)) := by
            simp [State.push, mapStateP, mapSlot, mapSpan, hfk]
          rw [runLoop_succ_next rec' env vm C' m hcode' (by simp only [Vm.step]; exact hfus.1 v hw), e] at hne ⊢
          have hgood1 : GoodState C C' (imapFn L) (PcRel L)
              (st.push v (pc + taken.length, pc + taken.length)) :=
            ⟨goodStack_cons (goodSlot_own hgd v) hst.1, hst.2⟩
          have hrel1 : PcRel L (pc + 1 + taken.length) (k + 1) := by
            have e : pc + ((Instr.loadName n0, s) :: taken.map attrEntry).length = pc + 1 + taken.length := by
              simp; omega
            rw [e] at hnextrel; exact hnextrel
          obtain ⟨n1, hrr⟩ := ih _ _ _ hrel1 hgood1 hne
          refine ⟨n1 + (taken.length + 1), ?_⟩
          rw [hb n1]; exact hrr
        | none =>
          obtain ⟨_, hb⟩ := hgrp.2 hw
          obtain ⟨e, he, hu⟩ := hb (taken.length + 1) (Nat.le_refl _)
          obtain ⟨e', he', hu'⟩ := hfus.2 hw
          refine ⟨taken.length + 1, ?_⟩
          rw [he, runLoop_succ_raise rec' env vm C' m hcode' (by simp only [Vm.step]; exact he')]
          exact runRel_raise C C' hname env vm _ _ e e' (hU e e' hu hu')
      | write n0 s w taken hn0 =>
        simp only at hdrop hnextrel hopt
        have hdrop' : L.drop pc = ((Instr.loadName n0, s) :: taken.map attrEntry) ++
            ((Instr.writeTop, w) :: L.drop (pc + (taken.length + 1 + 1))) := by
          rw [hdrop]; simp
        obtain ⟨hc0, hcj, hsp, hs0, hsx⟩ := seq_code dec hD L hS C hdec pc n0 s taken _ hdrop'
        have hcw : C.code[pc + 1 + taken.length]? = some (.writeTop, w) := by
          have := get_in_drop L _ _ pc (taken.length + 1) hdrop (by simp)
          have e : ((Instr.loadName n0, s) :: (taken.map attrEntry ++ [(Instr.writeTop, w)]))[taken.length + 1]?
              = some (Instr.writeTop, w) := by
            simp only [List.getElem?_cons_succ]
            rw [List.getElem?_append_right (by simp)]
            simp
          rw [e] at this
          obtain ⟨vi, hvi, hcode⟩ := hdec.get _ _ this
          rw [hD.writeTop] at hvi
          cases hvi
          have e2 : pc + (taken.length + 1) = pc + 1 + taken.length := by omega
          rw [e2] at hcode; exact hcode
        obtain ⟨vi', hvi', hcode'⟩ := hdec'.get k _ hopt
        simp only [remapTotal, Instr.mapTarget] at hvi' hcode'
        rw [hD.writePath] at hvi'
        cases hvi'
        have hcnt := PathVm.flatMap_spans_length taken hsx
        have hs1 : 0 < s.length := List.length_pos_iff.mpr hs0
        have hspAt : ∀ j, j ≤ (taken.map (·.1)).length → C'.hasSpanAt k j = true := by
          intro j hj
          rw [hasSpanAt_of_code hcode']
          simp only [List.length_map] at hj
          simp only [List.length_append, decide_eq_true_eq]; omega
        have hgrp := write_group_run rec env vm C st pc n0 s w taken hn0 hc0 hcj hcw hsp
        have hfus := fused_write env vm C' k n0 (taken.map (·.1)) hn0 hspAt (mapStateP (imapFn L) π st)
        rw [hv0] at hfus
        have hbad : (walkVals (st.scope.getValue n0) (taken.map (·.1)) = none ∨
            ∃ v, walkVals (st.scope.getValue n0) (taken.map (·.1)) = some v ∧ v.isUndef = true) →
            ∃ n, RunRelG E π C C' (imapFn L) (PcRel L) (runLoop rec env vm C n pc st)
              (runLoop rec' env vm C' (m + 1) k (mapStateP (imapFn L) π st)) := by
          intro hw
          obtain ⟨_, hb⟩ := hgrp.2 hw
          obtain ⟨e, he, hu⟩ := hb (taken.length + 2) (Nat.le_refl _)
          obtain ⟨e', he', hu'⟩ := hfus.2 hw
          refine ⟨taken.length + 2, ?_⟩
          rw [he, runLoop_succ_raise rec' env vm C' m hcode' (by simp only [Vm.step]; exact he')]
          exact runRel_raise C C' hname env vm _ _ e e' (hU e e' hu hu')
        cases hw : walkVals (st.scope.getValue n0) (taken.map (·.1)) with
        | none => exact hbad (Or.inl hw)
        | some v =>
          by_cases hvu : v.isUndef = true
          · exact hbad (Or.inr ⟨v, hw, hvu⟩)
          · have hvu' : v.isUndef = false := by simpa using hvu
            obtain ⟨_, hb⟩ := hgrp.1 v hw hvu'
            rw [runLoop_succ_next rec' env vm C' m hcode' (by simp only [Vm.step]; exact hfus.1 v hw hvu'),
              mapState_emit] at hne ⊢
            have hgood1 : GoodState C C' (imapFn L) (PcRel L) (emitValue env vm v st) := by
              unfold emitValue State.write
              cases st.captures <;> exact hst
            have hrel1 : PcRel L (pc + 1 + taken.length + 1) (k + 1) := by
              have e : pc + ((Instr.loadName n0, s) :: (taken.map attrEntry ++ [(Instr.writeTop, w)])).length
                  = pc + 1 + taken.length + 1 := by simp; omega
              rw [e] at hnextrel; exact hnextrel
            obtain ⟨n1, hrr⟩ := ih _ _ _ hrel1 hgood1 hne
            refine ⟨n1 + (taken.length + 2), ?_⟩
            rw [hb n1]; exact hrr

include hD hT hS hO hname hdec hdec' in
/-- `sim_forwardG` without an error relation -/
theorem sim_forward {rec rec' : VmCtx → Chunk → State → RunRes} (env : Env) (vm : VmCtx)
    (hrec : RecOK rec rec' C C' (imapFn L) (PcRel L)) :
    ∀ (n pc k : Nat) (st : State), PcRel L pc k → GoodState C C' (imapFn L) (PcRel L) st →
      runLoop rec env vm C n pc st ≠ .outOfFuel →
      ∃ m, m ≤ n ∧ RunRel C C' (imapFn L) (PcRel L) (runLoop rec env vm C n pc st)
        (runLoop rec' env vm C' m k (mapState (imapFn L) st)) := by
  intro n pc k st hrel hst hne
  obtain ⟨m, hm, h⟩ := sim_forwardG dec hD L hT hS hO C C' hname hdec hdec' (E := fun _ _ => True) (π := idP)
    (fun _ => True.intro) (fun _ _ _ _ => True.intro) env vm (RecOKG.of_true hrec).fresh
    (fun _ => (RecOKG.of_true hrec).blockOK) n pc k st hrel hst hne
  rw [mapStateP_id] at h
  exact ⟨m, hm, h.weaken⟩

include hD hT hS hO hname hdec hdec' in
/-- `sim_backwardG` without an error relation -/
theorem sim_backward {rec rec' : VmCtx → Chunk → State → RunRes} (env : Env) (vm : VmCtx)
    (hrec : RecOK rec rec' C C' (imapFn L) (PcRel L)) :
    ∀ (m pc k : Nat) (st : State), PcRel L pc k → GoodState C C' (imapFn L) (PcRel L) st →
      runLoop rec' env vm C' m k (mapState (imapFn L) st) ≠ .outOfFuel →
      ∃ n, RunRel C C' (imapFn L) (PcRel L) (runLoop rec env vm C n pc st)
        (runLoop rec' env vm C' m k (mapState (imapFn L) st)) := by
  intro m pc k st hrel hst hne
  obtain ⟨n, h⟩ := sim_backwardG dec hD L hT hS hO C C' hname hdec hdec' (E := fun _ _ => True) (π := idP)
    (fun _ => True.intro) (fun _ _ _ _ => True.intro) env vm (RecOKG.of_true hrec).fresh
    (fun _ => (RecOKG.of_true hrec).blockOK) m pc k st hrel hst (by rw [mapStateP_id]; exact hne)
  rw [mapStateP_id] at h
  exact ⟨n, h.weaken⟩

/-- more turns do not change a result that is not "out of fuel" -/
theorem runLoop_mono (rec : VmCtx → Chunk → State → RunRes) (env : Env) (vm : VmCtx) (c : Chunk) :
    ∀ (m pc : Nat) (st : State), runLoop rec env vm c m pc st ≠ .outOfFuel →
      ∀ n, m ≤ n → runLoop rec env vm c n pc st = runLoop rec env vm c m pc st := by
  intro m
  induction m with
  | zero =>
    intro pc st hne n _
    cases hc : c.code[pc]? with
    | none => rw [runLoop_of_none rec env vm c n pc st hc, runLoop_of_none rec env vm c 0 pc st hc]
    | some e => exact absurd (runLoop_zero_some rec env vm c st hc) hne
  | succ m ih =>
    intro pc st hne n hn
    cases n with
    | zero => omega
    | succ n =>
      cases hc : c.code[pc]? with
      | none => rw [runLoop_of_none rec env vm c _ pc st hc, runLoop_of_none rec env vm c _ pc st hc]
      | some e =>
        simp only [runLoop, hc] at hne ⊢
        cases hs : Vm.step rec env vm c e pc st with
        | next p s =>
          rw [hs] at hne
          exact ih p s hne n (by omega)
        | _ => rfl

end sim

end OptimizeSimVm
end Tera
