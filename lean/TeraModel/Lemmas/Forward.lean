/-
Forward lemmas (C08): what the tokenizer does on a given literal text / comment spelling.
-/
import TeraModel.Lemmas.C08Lemmas
import TeraModel.Lemmas.LexNoPanic
import TeraModel.Lemmas.RawLemmas
namespace Tera.C08
open Tera Utf8 Lexer WsFilter

/-- the next thing after a literal text: the end of the source or one of the start delimiters -/
def StartsWithMarker (d : Delims) (R : Bytes) : Prop :=
  R = [] ∨ ∃ X t, (X = d.variableStart ∨ X = d.blockStart ∨ X = d.commentStart) ∧ R = X ++ t

theorem first_mem_delimBytes {d : Delims} {a b : Nat}
    (h : [a, b] = d.variableStart ∨ [a, b] = d.blockStart ∨ [a, b] = d.commentStart) :
    a ∈ delimBytes d := by
  rcases h with h | h | h <;> simp [delimBytes, ← h]

theorem findStartMarkerGo_text (d : Delims) (hl : d.variableStart.length = 2 ∧ d.blockStart.length = 2 ∧ d.commentStart.length = 2)
    (R : Bytes) (hR : StartsWithMarker d R) : ∀ (s : Bytes) (i : Nat), (∀ b ∈ s, b ∉ delimBytes d) →
    findStartMarkerGo d (s ++ R) i = if R = [] then none else some (i + s.length) := by
  intro s
  induction s with
  | nil =>
    intro i _
    rcases hR with rfl | ⟨X, t, hX, rfl⟩
    · simp [findStartMarkerGo]
    · have hlen : X.length = 2 := by rcases hX with rfl | rfl | rfl <;> simp [hl.1, hl.2.1, hl.2.2]
      match X, hlen with
      | [x0, x1], _ =>
        have : ([x0, x1] ++ t) ≠ [] := by simp
        simp only [List.nil_append, this, if_false, List.length_nil, Nat.add_zero]
        simp only [List.cons_append, List.nil_append, findStartMarkerGo]
        simp [hX]
  | cons a s' ih =>
    intro i hs
    have ha : a ∉ delimBytes d := hs a (by simp)
    have hs' : ∀ b ∈ s', b ∉ delimBytes d := fun b hb => hs b (by simp [hb])
    have key : ∀ (nx : Nat) (tl : Bytes), findStartMarkerGo d (a :: nx :: tl) i = findStartMarkerGo d (nx :: tl) (i + 1) := by
      intro nx tl
      conv => lhs; unfold findStartMarkerGo
      have : ¬ ([a, nx] = d.variableStart ∨ [a, nx] = d.blockStart ∨ [a, nx] = d.commentStart) :=
        fun h => ha (first_mem_delimBytes h)
      simp only [this, if_false]
    cases hrest : s' ++ R with
    | nil =>
      have h1 : s' = [] := (List.append_eq_nil_iff.mp hrest).1
      have h2 : R = [] := (List.append_eq_nil_iff.mp hrest).2
      subst h1; subst h2
      simp [findStartMarkerGo]
    | cons nx tl =>
      simp only [List.cons_append, hrest]
      rw [key, ← hrest, ih (i + 1) hs']
      simp only [List.length_cons]
      split <;> simp <;> omega

/-- **text_forward.**  In `Template` state, a non-empty literal text `s` none of whose bytes is a
delimiter byte, followed by the end of the source or by a start marker, is emitted as exactly one
`Content` token holding `s`, and the tokenizer continues right after it (valid UTF-8, accepted
delimiters). -/
theorem text_forward_lemma (d : Delims) (hd : d.accepted = true) (p0 : Pos) (st : List State) (s R : Bytes)
    (hrest : p0.rest = s ++ R) (hne : s ≠ []) (hs : ∀ b ∈ s, b ∉ delimBytes d)
    (hR : StartsWithMarker d R) :
    ∃ p, step d p0 (.template :: st) = .emit (.content s) (mkSpan p0 p) p (.template :: st) ∧
      p.rest = R ∧ p.byte = p0.byte + s.length := by
  obtain ⟨hw, hbs, _, hvs, _, hcs, _⟩ := accepted_facts hd
  have hlen := findStartMarkerGo_text d ⟨hvs, hbs, hcs⟩ R hR s 0 hs
  have hcl : contentLen d p0.rest = s.length := by
    unfold contentLen findStartMarker
    rw [hrest, hlen]
    split
    · rename_i start h
      split at h
      · cases h
      · simp at h; omega
    · rename_i h
      split at h
      · rename_i hr; subst hr; simp
      · cases h
  have hbnd : isBoundary p0.rest (contentLen d p0.rest) = true := contentLen_boundary hw
  obtain ⟨p, hp⟩ := advance_of_boundary hbnd
  have hadv := (advance_ok hp).1
  refine ⟨p, ?_, ?_, ?_⟩
  · simp only [step]
    unfold stepTemplate
    simp only
    have hhead : ∀ X, (X = d.variableStart ∨ X = d.blockStart ∨ X = d.commentStart) →
        getRange p0.rest 0 2 ≠ some X := by
      intro X hX he
      have := (getRange_eq he).1
      simp only [List.drop_zero, Nat.sub_zero] at this
      have hXl : X.length = 2 := by rcases hX with rfl | rfl | rfl <;> assumption
      cases s with
      | nil => exact hne rfl
      | cons a s' =>
        rw [hrest] at this
        match X, hXl with
        | [x0, x1], _ =>
          have hx0 : x0 = a := by
            cases hsr : s' ++ R with
            | nil => simp [hsr] at this
            | cons nx tl => simp [hsr] at this; exact this.1
          have : a ∈ delimBytes d := by
            rw [← hx0]
            rcases hX with h | h | h <;> simp [delimBytes, ← h]
          exact hs a (by simp) this
    simp only [hhead _ (Or.inl rfl), hhead _ (Or.inr (Or.inl rfl)), hhead _ (Or.inr (Or.inr rfl)), if_false]
    rw [hp]
    have : p0.rest.take (contentLen d p0.rest) = s := by rw [hcl, hrest]; simp
    simp only [this]
  · rw [hadv.2.1, hcl, hrest]; simp
  · rw [hadv.byte, hcl]


theorem findSub_first (x : Bytes) (x0 : Nat) (xt : Bytes) (hx : x = x0 :: xt) (R : Bytes) :
    ∀ (pre : Bytes) (i : Nat), (∀ b ∈ pre, b ≠ x0) → findSub x (pre ++ x ++ R) i = some (i + pre.length) := by
  intro pre
  induction pre with
  | nil =>
    intro i _
    subst hx
    simp only [List.nil_append, List.cons_append, findSub]
    have : (x0 :: xt).isPrefixOf (x0 :: (xt ++ R)) = true := by
      rw [List.isPrefixOf_iff_prefix]; exact ⟨R, by simp⟩
    simp [this]
  | cons a pre' ih =>
    intro i hpre
    have ha : a ≠ x0 := hpre a (by simp)
    simp only [List.cons_append, findSub]
    have : x.isPrefixOf (a :: (pre' ++ x ++ R)) = false := by
      subst hx
      simp [List.isPrefixOf, ha]
      intro h; exact absurd h.symm ha
    simp only [List.append_assoc] at this ⊢
    simp only [this]
    have := ih (i + 1) (fun b hb => hpre b (by simp [hb]))
    simp only [List.append_assoc] at this
    rw [this]; simp; omega

/-- **comment_forward.**  In `Template` state a comment `comment_start [-] ␠ body ␠ [-] comment_end`
whose body contains no delimiter byte (and where neither the space nor `-` is a delimiter byte) is
consumed as exactly one `Comment(l, r)` token — whatever else the body contains — and the
tokenizer continues right after `comment_end`. -/
theorem comment_forward_lemma (d : Delims) (hd : d.accepted = true) (p0 : Pos) (st : List State)
    (l r : Bool) (body R : Bytes)
    (hrest : p0.rest = d.commentStart ++ dash l ++ [0x20] ++ body ++ [0x20] ++ dash r ++ d.commentEnd ++ R)
    (hv : valid p0.rest = true) (hbody : ∀ b ∈ body, b ∉ delimBytes d)
    (hsp : 0x20 ∉ delimBytes d) (hdash : 0x2D ∉ delimBytes d) :
    ∃ p, step d p0 (.template :: st) = .emit (.comment l r) (mkSpan p0 p) p (.template :: st) ∧ p.rest = R := by
  obtain ⟨hw, hbsl, _, hvsl, _, hcsl, hcel⟩ := accepted_facts hd
  have hw' := hw
  simp only [Delims.wellFormed, Bool.and_eq_true] at hw'
  obtain ⟨⟨⟨⟨⟨_, _⟩, _⟩, _⟩, hcsv⟩, hcev⟩ := hw'
  have hval : d.validate = true := by
    unfold Delims.accepted at hd; simp only [Bool.and_eq_true] at hd; exact hd.2
  have hne : d.blockStart ≠ d.commentStart ∧ d.variableStart ≠ d.commentStart := by
    unfold Delims.validate at hval
    repeat' split at hval
    all_goals first
      | exact ⟨by assumption, by assumption⟩
      | cases hval
  obtain ⟨c0, c1, hcs⟩ : ∃ c0 c1, d.commentStart = [c0, c1] := by
    match h : d.commentStart, hcsl with
    | [a, b], _ => exact ⟨a, b, rfl⟩
  obtain ⟨e0, e1, hce⟩ : ∃ e0 e1, d.commentEnd = [e0, e1] := by
    match h : d.commentEnd, hcel with
    | [a, b], _ => exact ⟨a, b, rfl⟩
  -- the head test
  let tail1 := dash l ++ [0x20] ++ body ++ [0x20] ++ dash r ++ d.commentEnd ++ R
  have hrest1 : p0.rest = c0 :: c1 :: tail1 := by rw [hrest, hcs]; simp [tail1]
  have hhead : getRange p0.rest 0 2 = some d.commentStart := by
    rw [hrest1]
    exact getRange_two_of_head (by rw [← hrest1]; exact hv) hcsv (by rw [hcs])
  have hb2 := (getRange_boundary hhead).1
  obtain ⟨ws, p1, hp1⟩ := checkWsStart_ok hv hb2
  -- what check_ws_start does
  have hws : ws = l ∧ p1.rest = [0x20] ++ body ++ [0x20] ++ dash r ++ d.commentEnd ++ R := by
    unfold checkWsStart at hp1
    cases l with
    | true =>
      have h2 : p0.rest[2]? = some 0x2D := by rw [hrest1]; simp [tail1, dash]
      simp only [h2, if_true] at hp1
      split at hp1
      · rename_i sk p' ha
        simp only [Res.ok.injEq, Prod.mk.injEq] at hp1
        obtain ⟨rfl, rfl⟩ := hp1
        refine ⟨rfl, ?_⟩
        rw [(advance_ok ha).1.2.1, hrest1]; simp [tail1, dash]
      · cases hp1
    | false =>
      have h2 : p0.rest[2]? ≠ some 0x2D := by rw [hrest1]; simp [tail1, dash]
      simp only [h2, if_false] at hp1
      split at hp1
      · rename_i sk p' ha
        simp only [Res.ok.injEq, Prod.mk.injEq] at hp1
        obtain ⟨rfl, rfl⟩ := hp1
        refine ⟨rfl, ?_⟩
        rw [(advance_ok ha).1.2.1, hrest1]; simp [tail1, dash]
      · cases hp1
  obtain ⟨rfl, hr1⟩ := hws
  obtain ⟨n1, hadv1, _⟩ := checkWsStart_adv hp1
  have hv1 := hadv1.valid hv
  -- the search for comment_end
  let pre := [0x20] ++ body ++ [0x20] ++ dash r
  have hr1' : p1.rest = pre ++ d.commentEnd ++ R := by rw [hr1]
  have he0 : e0 ∈ delimBytes d := by simp [delimBytes, hce]
  have hpre : ∀ b ∈ pre, b ≠ e0 := by
    intro b hb heq
    subst heq
    simp only [pre, List.mem_append, List.mem_singleton, dash] at hb
    rcases hb with ((hb | hb) | hb) | hb
    · exact hsp (hb ▸ he0)
    · exact hbody _ hb he0
    · exact hsp (hb ▸ he0)
    · cases r <;> simp at hb
      exact hdash (hb ▸ he0)
  have hfind : findSub d.commentEnd p1.rest 0 = some pre.length := by
    rw [hr1']
    have := findSub_first d.commentEnd e0 [e1] hce R pre 0 hpre
    simpa using this
  have hmem : memstr p1.rest d.commentEnd = .ok (some pre.length) := by
    simp [memstr, hcel, hfind]
  have hprefix := findSub_prefix _ _ _ _ hfind
  simp only [Nat.sub_zero] at hprefix
  have hcene : d.commentEnd ≠ [] := by rw [hce]; simp
  obtain ⟨_, hbend, _⟩ := isBoundary_match hv1 hcev hcene hprefix
  rw [hcel] at hbend
  obtain ⟨p, hp⟩ := advance_of_boundary (p := p1) hbend
  have hplen : 0 < pre.length := by simp [pre]
  have hlast : p1.rest[pre.length - 1]? = some (if r then 0x2D else 0x20) := by
    rw [hr1']
    cases r <;> simp [pre, dash, List.getElem?_append]
  refine ⟨p, ?_, ?_⟩
  · simp only [step]
    unfold stepTemplate
    simp only
    have e1 : ¬ (some d.commentStart = some d.variableStart) := by
      intro h; simp only [Option.some.injEq] at h; exact hne.2 h.symm
    have e2 : ¬ (some d.commentStart = some d.blockStart) := by
      intro h; simp only [Option.some.injEq] at h; exact hne.1 h.symm
    simp only [hhead, e1, e2, if_false, if_true, hp1, hmem, hplen, hlast, hp]
    cases r <;> simp
  · rw [(advance_ok hp).1.2.1, hr1']
    have : pre.length + 2 = (pre ++ d.commentEnd).length := by simp [hcel]
    rw [this, List.drop_left' rfl]

end Tera.C08
