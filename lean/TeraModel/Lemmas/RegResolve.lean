/-
Helper lemmas about the template map and `resolve` (Model/Finalize.lean).
-/
import TeraModel.Model.Finalize
namespace Tera.Reg

theorem get_name {S : List Tpl} {k : String} {t : Tpl} (h : get S k = some t) : t.name = k := by
  unfold get at h
  have := List.find?_some h
  simpa using this

theorem get_mem {S : List Tpl} {k : String} {t : Tpl} (h : get S k = some t) : t ∈ S := by
  unfold get at h
  exact List.mem_of_find?_eq_some h

theorem has_iff_get {S : List Tpl} {k : String} : has S k = true ↔ ∃ t, get S k = some t := by
  unfold has
  cases get S k <;> simp

theorem has_mem_keys {S : List Tpl} {k : String} (h : has S k = true) : k ∈ keys S := by
  obtain ⟨t, ht⟩ := has_iff_get.mp h
  have := get_name ht
  unfold keys
  exact List.mem_map.mpr ⟨t, get_mem ht, this⟩

theorem mem_keys_has {S : List Tpl} {k : String} (h : k ∈ keys S) : has S k = true := by
  unfold keys at h
  obtain ⟨t, ht, hk⟩ := List.mem_map.mp h
  unfold has get
  rw [Option.isSome_iff_exists]
  have : (S.find? fun t => t.name == k).isSome := by
    rw [List.find?_isSome]
    exact ⟨t, ht, by simp [hk]⟩
  exact Option.isSome_iff_exists.mp this

theorem resolvePrefixes_some {S : List Tpl} {n r : String} {ps : List String} :
    resolvePrefixes S n ps = some r ↔
      ∃ pre p post, ps = pre ++ p :: post ∧ r = p ++ n ∧ has S r = true ∧
        ∀ q ∈ pre, has S (q ++ n) = false := by
  induction ps with
  | nil => simp [resolvePrefixes]
  | cons p ps ih =>
    unfold resolvePrefixes
    by_cases h : has S (p ++ n) = true
    · simp only [h, if_true]
      constructor
      · intro e
        have e' : p ++ n = r := by simpa using e
        exact ⟨[], p, ps, rfl, e'.symm, e' ▸ h, by simp⟩
      · rintro ⟨pre, q, post, e, rfl, hr, hpre⟩
        cases pre with
        | nil => simp at e; rw [e.1]
        | cons x xs =>
          simp at e
          have := hpre x (by simp)
          rw [← e.1, h] at this
          cases this
    · have hf : has S (p ++ n) = false := by simpa using h
      simp only [hf, Bool.false_eq_true, if_false]
      rw [ih]
      constructor
      · rintro ⟨pre, q, post, e, rfl, hr, hpre⟩
        refine ⟨p :: pre, q, post, by simp [e], rfl, hr, ?_⟩
        intro x hx
        cases List.mem_cons.mp hx with
        | inl h1 => rw [h1]; exact hf
        | inr h1 => exact hpre x h1
      · rintro ⟨pre, q, post, e, rfl, hr, hpre⟩
        cases pre with
        | nil =>
          simp at e
          rw [← e.1, hf] at hr
          cases hr
        | cons x xs =>
          simp at e
          exact ⟨xs, q, post, e.2, rfl, hr, fun y hy => hpre y (by simp [hy])⟩

theorem resolvePrefixes_none {S : List Tpl} {n : String} {ps : List String} :
    resolvePrefixes S n ps = none ↔ ∀ p ∈ ps, has S (p ++ n) = false := by
  induction ps with
  | nil => simp [resolvePrefixes]
  | cons p ps ih =>
    unfold resolvePrefixes
    by_cases h : has S (p ++ n) = true
    · simp [h]
    · have hf : has S (p ++ n) = false := by simpa using h
      simp [hf, ih]

/-- whatever `resolve` returns is a key of the map -/
theorem resolve_has {ps : List String} {S : List Tpl} {n r : String}
    (h : resolve ps S n = some r) : has S r = true := by
  unfold resolve at h
  by_cases hn : has S n = true
  · simp [hn] at h; rw [← h]; exact hn
  · simp [hn] at h
    obtain ⟨_, _, _, _, _, hr, _⟩ := resolvePrefixes_some.mp h
    exact hr

end Tera.Reg
