/-
What acceptance / each graph error of `finalize_templates` (`derive`) says about the graphs.
-/
import TeraModel.Lemmas.IncludeDfs
import TeraModel.Lemmas.RegCongr
namespace Tera.Reg

theorem loop1Step_dfs_ok {ps : List String} {S : List Tpl} {acc acc' : Loop1} {n : String}
    (h : loop1Step ps S acc n = .ok acc') :
    ∃ t p v, get S n = some t ∧ findParents ps S t = .ok p ∧ checkIncludeCycles ps S t = .ok v := by
  unfold loop1Step at h
  cases hg : get S n with
  | none => simp [hg] at h
  | some t =>
    simp only [hg] at h
    cases hf : findParents ps S t with
    | ok p =>
      simp only [hf] at h
      cases hc : checkIncludeCycles ps S t with
      | ok v => exact ⟨t, p, v, rfl, hf, hc⟩
      | cycle ch => simp [hc] at h
      | outOfFuel => simp [hc] at h
      | panic => simp [hc] at h
    | missingParent a b => simp [hf] at h
    | circular ch => simp [hf] at h
    | outOfFuel => simp [hf] at h
    | panic => simp [hf] at h

theorem loop1_all_ok (ps : List String) (S : List Tpl) :
    ∀ (names : List String) (acc l1 : Loop1), loop1 ps S acc names = .ok l1 →
      ∀ k ∈ names, ∃ t p v, get S k = some t ∧ findParents ps S t = .ok p ∧
        checkIncludeCycles ps S t = .ok v := by
  intro names
  induction names with
  | nil => intro _ _ _ k hk; cases hk
  | cons n ns ih =>
    intro acc l1 h k hk
    unfold loop1 at h
    cases hs : loop1Step ps S acc n with
    | error e => simp [hs] at h
    | ok a =>
      simp only [hs] at h
      rcases List.mem_cons.mp hk with h1 | h1
      · rw [h1]; exact loop1Step_dfs_ok hs
      · exact ih a l1 h k h1

/-- the graph errors come from the first loop: some registered template's walk reported it -/
theorem loop1_error (ps : List String) (S : List Tpl) :
    ∀ (names : List String) (acc : Loop1) (e : Err), loop1 ps S acc names = .error e →
      ∃ n ∈ names, ∃ acc', loop1Step ps S acc' n = .error e := by
  intro names
  induction names with
  | nil => intro acc e h; simp [loop1] at h
  | cons n ns ih =>
    intro acc e h
    unfold loop1 at h
    cases hs : loop1Step ps S acc n with
    | error e' =>
      simp only [hs] at h
      cases h
      exact ⟨n, by simp, acc, hs⟩
    | ok a =>
      simp only [hs] at h
      obtain ⟨m, hm, acc', h'⟩ := ih a e h
      exact ⟨m, by simp [hm], acc', h'⟩

theorem compLoop_error {tname : String} {prio : Nat} :
    ∀ (cs : List String) (acc : CompSources) (e : Err), compLoop tname prio acc cs = .error e → e = .msg := by
  intro cs
  induction cs with
  | nil => intro acc e h; simp [compLoop] at h
  | cons c rest ih =>
    intro acc e h
    unfold compLoop at h
    cases hs : compStep tname prio acc c with
    | ok acc' => simp only [hs] at h; exact ih acc' e h
    | error e' =>
      simp only [hs] at h
      cases h
      unfold compStep at hs
      split at hs
      · split at hs
        · cases hs
        · split at hs
          · cases hs
          · cases hs; rfl
      · cases hs

/-- what an error of one iteration of the first loop means -/
theorem loop1Step_error {ps : List String} {S : List Tpl} {acc : Loop1} {n : String} {e : Err}
    (h : loop1Step ps S acc n = .error e) :
    (∃ t, get S n = some t ∧
      ((∃ a p, e = .missingParent a p ∧ findParents ps S t = .missingParent a p) ∨
       (∃ ch, e = .circularExtend t.name ch ∧ findParents ps S t = .circular ch) ∨
       (∃ ch, e = .circularInclude (ch.getLast?.getD "") ch ∧ checkIncludeCycles ps S t = .cycle ch) ∨
       e = .msg ∨ e = .outOfFuel ∨ e = .panic)) ∨ e = .panic := by
  unfold loop1Step at h
  cases hg : get S n with
  | none => simp [hg] at h; exact .inr h.symm
  | some t =>
    left
    refine ⟨t, rfl, ?_⟩
    simp only [hg] at h
    cases hf : findParents ps S t with
    | missingParent a b => simp only [hf] at h; cases h; exact .inl ⟨a, b, rfl, rfl⟩
    | circular ch => simp only [hf] at h; cases h; exact .inr (.inl ⟨ch, rfl, rfl⟩)
    | outOfFuel => simp only [hf] at h; cases h; exact .inr (.inr (.inr (.inr (.inl rfl))))
    | panic => simp only [hf] at h; cases h; exact .inr (.inr (.inr (.inr (.inr rfl))))
    | ok p =>
      simp only [hf] at h
      cases hc : checkIncludeCycles ps S t with
      | cycle ch => simp only [hc] at h; cases h; exact .inr (.inr (.inl ⟨ch, rfl, rfl⟩))
      | outOfFuel => simp only [hc] at h; cases h; exact .inr (.inr (.inr (.inr (.inl rfl))))
      | panic => simp only [hc] at h; cases h; exact .inr (.inr (.inr (.inr (.inr rfl))))
      | ok v =>
        simp only [hc] at h
        cases hl : compLoop t.name (priority ps t.name) acc.comps (t.comps.map (·.name)) with
        | error e' =>
          simp only [hl] at h
          cases h
          exact .inr (.inr (.inr (.inl (compLoop_error _ _ _ hl))))
        | ok comps =>
          simp only [hl] at h
          cases hs : sumSrcLen S p with
          | none => simp only [hs] at h; cases h; exact .inr (.inr (.inr (.inr (.inr rfl))))
          | some sz => simp [hs] at h

/-- a node of a walk reaches the end of the walk -/
theorem walk_mem_reach {E : String → String → Prop} {a x r : String} {cs : List String}
    (w : Walk E a cs x) (hr : r ∈ a :: cs) : Reach E r x := by
  induction w with
  | nil a => simp at hr; rw [hr]; exact Reach.refl _
  | @cons a b x cs e w ih =>
    rcases List.mem_cons.mp hr with h | h
    · rw [h]; exact Reach.head e ⟨cs, w⟩
    · exact ih h

end Tera.Reg

namespace Tera.Reg

/-- errors that are not about the graphs -/
def NonGraphErr (e : Err) : Prop := e = .templateNotFound ∨ e = .panic ∨ e = .msg

theorem walkUp_error (ps : List String) (S : List Tpl) (b : String) :
    ∀ (cs : List String) (e : Err), walkUp ps S b cs = .error e → NonGraphErr e := by
  intro cs
  induction cs with
  | nil => intro e h; simp [walkUp] at h
  | cons c rest ih =>
    intro e h
    unfold walkUp at h
    cases hr : resolve ps S c with
    | none => simp only [hr] at h; cases h; exact .inl rfl
    | some r =>
      simp only [hr] at h
      cases hg : get S r with
      | none => simp only [hg] at h; cases h; exact .inr (.inl rfl)
      | some pt =>
        simp only [hg] at h
        cases hb : pt.findBlock b with
        | none => simp only [hb] at h; exact ih e h
        | some pb =>
          simp only [hb] at h
          by_cases hs : pb.callsSuper = true
          · simp only [hs, if_true] at h
            cases hw : walkUp ps S b rest with
            | ok l => simp [hw] at h
            | error e' => simp only [hw] at h; cases h; exact ih _ hw
          · have : pb.callsSuper = false := by simpa using hs
            simp [this] at h

theorem ownBlocks_error (ps : List String) (S : List Tpl) (parents : List String) (t : Tpl) :
    ∀ (bs : List BlockDef) (e : Err), ownBlocks ps S parents t bs = .error e → NonGraphErr e := by
  intro bs
  induction bs with
  | nil => intro e h; simp [ownBlocks] at h
  | cons d bs ih =>
    intro e h
    unfold ownBlocks at h
    cases ho : ownLineage ps S parents t d with
    | error e' =>
      simp only [ho] at h
      cases h
      unfold ownLineage at ho
      by_cases hs : d.callsSuper = true
      · simp only [hs, if_true] at ho
        cases hw : walkUp ps S d.name parents.reverse with
        | ok l => simp [hw] at ho
        | error e'' => simp only [hw] at ho; cases ho; exact walkUp_error ps S _ _ _ hw
      · have : d.callsSuper = false := by simpa using hs
        simp [this] at ho
    | ok l =>
      cases hr : ownBlocks ps S parents t bs with
      | ok m => simp [ho, hr] at h
      | error e' => simp only [ho, hr] at h; cases h; exact ih _ hr

theorem loop2_error (ps : List String) (S : List Tpl) (l1 : Loop1) :
    ∀ (o2 : List String) (e : Err), loop2 ps S l1 o2 = .error e → NonGraphErr e := by
  intro o2
  induction o2 with
  | nil => intro e h; simp [loop2] at h
  | cons name rest ih =>
    intro e h
    unfold loop2 at h
    cases hg : get S name with
    | none => simp only [hg] at h; cases h; exact .inr (.inl rfl)
    | some tpl =>
      cases hp : lookupParents l1.parents name with
      | none => simp only [hg, hp] at h; cases h; exact .inr (.inl rfl)
      | some parents =>
        simp only [hg, hp] at h
        cases ho : ownBlocks ps S parents tpl tpl.blocks with
        | error e' => simp only [ho] at h; cases h; exact ownBlocks_error ps S _ _ _ _ ho
        | ok m =>
          simp only [ho] at h
          cases hr : loop2 ps S l1 rest with
          | error e' => simp only [hr] at h; cases h; exact ih _ hr
          | ok r => obtain ⟨a, b⟩ := r; simp [hr] at h

theorem inheritFrom_error (name : String) :
    ∀ (ps : List String) (tb : TplBlocks) (e : Err), inheritFrom tb name ps = .error e → NonGraphErr e := by
  intro ps
  induction ps with
  | nil => intro tb e h; simp [inheritFrom] at h
  | cons p rest ih =>
    intro tb e h
    unfold inheritFrom at h
    cases hp : tbLookup tb p with
    | none => simp only [hp] at h; exact ih tb e h
    | some pb =>
      simp only [hp] at h
      cases hc : tbLookup tb name with
      | none => simp only [hc] at h; cases h; exact .inr (.inl rfl)
      | some child => simp only [hc] at h; exact ih _ e h

theorem pass2_error (parents : List (String × List String)) :
    ∀ (o3 : List String) (tb : TplBlocks) (e : Err), pass2 parents tb o3 = .error e → NonGraphErr e := by
  intro o3
  induction o3 with
  | nil => intro tb e h; simp [pass2] at h
  | cons name rest ih =>
    intro tb e h
    unfold pass2 at h
    cases hp : lookupParents parents name with
    | none => simp only [hp] at h; cases h; exact .inr (.inl rfl)
    | some ps =>
      simp only [hp] at h
      cases hi : inheritFrom tb name ps.reverse with
      | ok tb' => simp only [hi] at h; exact ih tb' e h
      | error e' => simp only [hi] at h; cases h; exact inheritFrom_error name _ _ _ hi

/-- every error of `derive` either comes from the first loop or is not about the graphs -/
theorem derive_error {ps : List String} {S : List Tpl} {o2 o3 : List String} {e : Err}
    (h : derive ps S o2 o3 = .error e) :
    loop1 ps S {} (sortDedup (keys S)) = .error e ∨ NonGraphErr e := by
  unfold derive at h
  cases h1 : loop1 ps S {} (sortDedup (keys S)) with
  | error e' => simp only [h1] at h; cases h; exact .inl rfl
  | ok l1 =>
    right
    simp only [h1] at h
    cases h2 : loop2 ps S l1 o2 with
    | error e' => simp only [h2] at h; cases h; exact loop2_error ps S l1 o2 _ h2
    | ok r =>
      obtain ⟨tb, bad⟩ := r
      simp only [h2] at h
      cases h3 : pass2 l1.parents tb o3 with
      | error e' => simp only [h3] at h; cases h; exact pass2_error _ _ _ _ h3
      | ok tb' =>
        simp only [h3] at h
        cases hb : bad with
        | true => simp only [hb, if_true] at h; cases h; exact .inr (.inr rfl)
        | false => simp [hb] at h

theorem walk_last_mem {E : String → String → Prop} {a x : String} {cs : List String}
    (w : Walk E a cs x) (hne : cs ≠ []) : x ∈ cs := by
  induction w with
  | nil a => exact absurd rfl hne
  | @cons a b x cs e w ih =>
    cases cs with
    | nil => cases w; simp
    | cons c cs' => exact List.mem_cons_of_mem _ (ih (by simp))


end Tera.Reg
