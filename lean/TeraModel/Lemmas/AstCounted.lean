/-
Counted depth of the AST: the nesting that the parser's shared `recursion_depth` counter sees.

It is the height of the tree EXCEPT that the following steps are free (they are produced by loops
or by `parse_if` re-entering itself, without passing through the counter):
* the LEFT spine of a binary-operator / filter / test / attribute / subscript / ternary chain
  (`a + b + c`, `a | f | g`, `a.b.c[1]`: the left operand is at the same level),
* the `not` of `not in` / `is not` (wrapped around the spine),
* an `elif` (an `If` that is the only node of a false body).
Props/C06Parser.lean proves: counted depth ≤ MAX_RECURSION_DEPTH for every accepted template,
while the height is unbounded (`ast_height_unbounded`) — exactly along the free steps.
-/
import TeraModel.Model.Ast
namespace Tera

mutual
def Expr.cd : Expr → Nat
  | .const _ => 1
  | .var _ => 1
  | .array items => 1 + ArrayEntry.cdList items
  | .map entries => 1 + MapEntry.cdList entries
  | .getAttr e _ _ => Expr.cd e
  | .getItem e s _ => max (Expr.cd e) (1 + Expr.cd s)
  | .slice e a b c _ =>
    max (Expr.cd e) (1 + max (Expr.cdOpt a) (max (Expr.cdOpt b) (Expr.cdOpt c)))
  | .filter e _ kw => max (Expr.cd e) (1 + Expr.cdKw kw)
  | .test e _ kw => max (Expr.cd e) (1 + Expr.cdKw kw)
  | .ternary c t f => max (Expr.cd t) (1 + max (Expr.cd c) (Expr.cd f))
  | .listComprehension e _ _ t c =>
    1 + max (Expr.cd e) (max (Expr.cd t) (Expr.cdOpt c))
  | .componentCall _ kw body _ => max (MapEntry.cdList kw) (1 + Node.cdList body)
  | .functionCall _ kw => 1 + Expr.cdKw kw
  | .unary .Not e => Expr.cd e
  | .unary .Minus e => 1 + Expr.cd e
  | .binary _ l r => max (Expr.cd l) (1 + Expr.cd r)
def Expr.cdOpt : Option Expr → Nat
  | none => 0
  | some e => Expr.cd e
def Expr.cdList : List Expr → Nat
  | [] => 0
  | e :: es => max (Expr.cd e) (Expr.cdList es)
def Expr.cdKw : List (String × Expr) → Nat
  | [] => 0
  | (_, e) :: es => max (Expr.cd e) (Expr.cdKw es)
def ArrayEntry.cdList : List ArrayEntry → Nat
  | [] => 0
  | .item e :: es => max (Expr.cd e) (ArrayEntry.cdList es)
  | .spread e :: es => max (Expr.cd e) (ArrayEntry.cdList es)
def MapEntry.cdList : List MapEntry → Nat
  | [] => 0
  | .keyValue _ e :: es => max (Expr.cd e) (MapEntry.cdList es)
  | .spread e :: es => max (Expr.cd e) (MapEntry.cdList es)
def Node.cd : Node → Nat
  | .content _ => 1
  | .expression e => Expr.cd e
  | .set _ v _ => 1 + Expr.cd v
  | .blockSet _ fs body _ => max (Expr.cdList fs) (1 + Node.cdList body)
  | .include _ => 1
  | .block _ body => 1 + Node.cdList body
  | .forLoop _ _ t body els => 1 + max (Expr.cd t) (max (Node.cdList body) (Node.cdList els))
  | .break => 1
  | .continue => 1
  | .if c body els => max (1 + max (Expr.cd c) (Node.cdList body)) (Node.cdElse els)
  | .filterSection _ kw body => 1 + max (Expr.cdKw kw) (Node.cdList body)
/-- a false body: an `If` alone in it (an `elif`) is at the level of its parent -/
def Node.cdElse : List Node → Nat
  | [.if c b e] => max (1 + max (Expr.cd c) (Node.cdList b)) (Node.cdElse e)
  | ns => 1 + Node.cdList ns
def Node.cdList : List Node → Nat
  | [] => 0
  | n :: ns => max (Node.cd n) (Node.cdList ns)
end

theorem Expr.cdKw_insert (name : String) (e : Expr) (kw : List (String × Expr)) :
    Expr.cdKw (Expr.insertKwarg name e kw) ≤ max (Expr.cd e) (Expr.cdKw kw) := by
  induction kw with
  | nil => simp [Expr.insertKwarg, Expr.cdKw]
  | cons p rest ih =>
    obtain ⟨n, x⟩ := p
    unfold Expr.insertKwarg
    split
    · simp only [Expr.cdKw]; omega
    · split
      · simp only [Expr.cdKw]; omega
      · simp only [Expr.cdKw]; omega

theorem ArrayEntry.cdList_append (a b : List ArrayEntry) :
    ArrayEntry.cdList (a ++ b) = max (ArrayEntry.cdList a) (ArrayEntry.cdList b) := by
  induction a with
  | nil => simp [ArrayEntry.cdList]
  | cons x xs ih => cases x <;> simp only [List.cons_append, ArrayEntry.cdList, ih] <;> omega

theorem MapEntry.cdList_append (a b : List MapEntry) :
    MapEntry.cdList (a ++ b) = max (MapEntry.cdList a) (MapEntry.cdList b) := by
  induction a with
  | nil => simp [MapEntry.cdList]
  | cons x xs ih => cases x <;> simp only [List.cons_append, MapEntry.cdList, ih] <;> omega

theorem Expr.cdList_append (a b : List Expr) :
    Expr.cdList (a ++ b) = max (Expr.cdList a) (Expr.cdList b) := by
  induction a with
  | nil => simp [Expr.cdList]
  | cons x xs ih => simp only [List.cons_append, Expr.cdList, ih]; omega

theorem Node.cdList_append (a b : List Node) :
    Node.cdList (a ++ b) = max (Node.cdList a) (Node.cdList b) := by
  induction a with
  | nil => simp [Node.cdList]
  | cons x xs ih => simp only [List.cons_append, Node.cdList, ih]; omega

/-- a false body costs at most one level more than its nodes -/
theorem Node.cdElse_le (ns : List Node) : Node.cdElse ns ≤ 1 + Node.cdList ns := by
  unfold Node.cdElse
  split
  · rename_i c b e
    simp only [Node.cdList, Node.cd]
    omega
  · omega

end Tera
