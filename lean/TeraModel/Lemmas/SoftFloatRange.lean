/-
When `SoftFloat.roundDyadic` overflows: exactly from the midpoint between `f64::MAX` and `2^1024`
upwards (the midpoint itself is a tie between the odd significand of MAX and the even `2^1024`,
so it goes to infinity).
-/
import TeraModel.Lemmas.SoftFloatRound
namespace Tera.SoftFloat
open F64

theorem err_eq (N m den k : Nat) :
    err N m (den * 2 ^ k) = ((N : Int) - ((m * 2 ^ k * den : Nat) : Int)).natAbs := by
  unfold err; push_cast; congr 1; ring

/-- `m * 2^k = (2^53 - 1) * 2^2045` with `k ≤ 2045`, `m < 2^53` forces the odd `m = 2^53 - 1`. -/
theorem max_sig_odd (m k : Nat) (hm : m < 2 ^ 53) (hk : k ≤ 2045)
    (h : m * 2 ^ k = (2 ^ 53 - 1) * 2 ^ 2045) : m % 2 = 1 := by
  obtain ⟨d, hd⟩ : ∃ d, 2045 = d + k := ⟨2045 - k, by omega⟩
  rw [hd, Nat.pow_add, ← Nat.mul_assoc] at h
  have h' : m = (2 ^ 53 - 1) * 2 ^ d := Nat.eq_of_mul_eq_mul_right (Nat.two_pow_pos k) h
  by_cases hd0 : d = 0
  · subst hd0; rw [h']; decide
  · exfalso
    have : 2 ≤ 2 ^ d := by
      have := Nat.pow_le_pow_right (show 2 > 0 by omega) (show 1 ≤ d by omega)
      simpa using this
    have : (2 ^ 53 - 1) * 2 ≤ (2 ^ 53 - 1) * 2 ^ d := Nat.mul_le_mul_left _ this
    omega

/-- The rounded pair overflows (`k > 2045`) exactly when `N / den ≥ (2^54 - 1) * 2^2044` units of
`2^-1074`, i.e. when the exact value is at least `(2^54 - 1) * 2^970 = MAX + ulp(MAX)/2`. -/
theorem Rounded.overflow_threshold {N den m k : Nat} (h : Rounded N den m k) (hd : 0 < den) :
    2045 < k ↔ (2 ^ 54 - 1) * 2 ^ 2044 * den ≤ N := by
  have n1 := h.nearest (2 ^ 53 - 1) 2045 (by omega)
  have n2 := h.nearest (2 ^ 52) 2046 (by omega)
  have t2 := h.nearest_tie_even (2 ^ 52) 2046 (by omega)
  rw [err_eq, err_eq] at n1 n2
  rw [err_eq, err_eq] at t2
  have hov := h.overflow_iff
  -- everything in terms of Q = 2^2044
  have e45 : 2 ^ 2045 = 2 * 2 ^ 2044 := by rw [show (2045 : Nat) = 2044 + 1 from rfl, Nat.pow_succ]; omega
  have e46 : 2 ^ 2046 = 4 * 2 ^ 2044 := by rw [show (2046 : Nat) = 2044 + 2 from rfl, Nat.pow_add]; omega
  have e98 : 2 ^ 2098 = 2 ^ 54 * 2 ^ 2044 := by rw [← Nat.pow_add]
  have hmax : k ≤ 2045 → m * 2 ^ k ≤ (2 ^ 53 - 1) * 2 ^ 2045 := fun hk =>
    Nat.mul_le_mul (by have := h.lt; omega) (Nat.pow_le_pow_right (by omega) hk)
  have hodd := max_sig_odd m k h.lt
  rw [e45] at hmax hodd n1
  rw [e46] at n2 t2
  rw [e98] at hov
  generalize 2 ^ 2044 = Q at *
  generalize hV : m * 2 ^ k = V at *
  -- multiply the facts about V by den
  have a1 : (2 ^ 53 - 1) * (2 * Q) * den = (2 ^ 54 - 2) * (Q * den) := by ring
  have a2 : 2 ^ 52 * (4 * Q) * den = 2 ^ 54 * (Q * den) := by ring
  have a3 : (2 ^ 54 - 1) * Q * den = (2 ^ 54 - 1) * (Q * den) := by ring
  rw [a1] at n1
  rw [a2] at n2 t2
  rw [a3]
  have hQd : 0 < Q * den ∨ Q = 0 := by
    rcases Nat.eq_zero_or_pos Q with h0 | h0
    · exact Or.inr h0
    · exact Or.inl (Nat.mul_pos h0 hd)
  constructor
  · intro hk
    have hV1 : 2 ^ 54 * Q ≤ V := hov.mp hk
    have hV2 : 2 ^ 54 * Q * den ≤ V * den := Nat.mul_le_mul_right den hV1
    have a4 : 2 ^ 54 * Q * den = 2 ^ 54 * (Q * den) := by ring
    rw [a4] at hV2
    generalize V * den = Vd at *
    generalize Q * den = Qd at *
    omega
  · intro hN
    by_contra hk
    have hk' : k ≤ 2045 := by omega
    have hV1 := hmax hk'
    have hV2 : V * den ≤ (2 ^ 53 - 1) * (2 * Q) * den := Nat.mul_le_mul_right den hV1
    rw [a1] at hV2
    -- the tie case: V is MAX, which has an odd significand
    have hne : 2 ^ 52 * (4 * Q) ≠ V := by
      intro hc
      have : 2 ^ 54 * Q ≤ V := by omega
      exact hk (hov.mpr this)
    have htie := t2 hne
    by_cases hVmax : V = (2 ^ 53 - 1) * (2 * Q)
    · have ho := hodd hk' hVmax
      have hVd : V * den = (2 ^ 54 - 2) * (Q * den) := by rw [hVmax, a1]
      rw [hVd] at htie n2
      generalize Q * den = Qd at *
      by_cases hNe : N = (2 ^ 54 - 1) * Qd
      · have := htie (by omega)
        omega
      · omega
    · have hlt : V < (2 ^ 53 - 1) * (2 * Q) := by omega
      have hlt2 : V * den < (2 ^ 53 - 1) * (2 * Q) * den := Nat.mul_lt_mul_of_pos_right hlt hd
      rw [a1] at hlt2
      generalize V * den = Vd at *
      generalize Q * den = Qd at *
      omega

/-- **Overflow threshold.** `roundDyadic` returns infinity exactly when
`num/den ≥ (2^54 - 1) * 2^970`, the midpoint between `f64::MAX = (2^53 - 1) * 2^971` and `2^1024`
(at the midpoint the tie goes to the even significand, i.e. up). -/
theorem roundDyadic_overflow_iff (neg : Bool) (num den : Nat) (hd : 0 < den) :
    roundDyadic neg num den = .inf neg ↔ (2 ^ 54 - 1) * 2 ^ 970 * den ≤ num := by
  obtain ⟨m, k, hR, heq⟩ := roundDyadic_spec neg num den hd
  rw [heq]
  have hiff : ((if k ≤ 2045 then F64.fin neg m ((k : Int) - 1074) else F64.inf neg) = F64.inf neg)
      ↔ 2045 < k := by
    by_cases hk : k ≤ 2045
    · simp only [hk, if_true]
      constructor
      · intro hc; cases hc
      · intro hc; omega
    · simp only [hk, if_false]
      constructor
      · intro _; omega
      · intro _; trivial
  rw [hiff, hR.overflow_threshold hd]
  have e : (2 ^ 54 - 1) * 2 ^ 2044 * den = (2 ^ 54 - 1) * 2 ^ 970 * den * 2 ^ 1074 := by
    rw [show (2044 : Nat) = 970 + 1074 from rfl, Nat.pow_add]
    generalize 2 ^ 970 = a
    generalize 2 ^ 1074 = b
    generalize 2 ^ 54 - 1 = c
    ring
  rw [e]
  exact Nat.mul_le_mul_right_iff (Nat.two_pow_pos 1074)

end Tera.SoftFloat
