/-
Loop-stack discipline of the evaluator (Model/Eval.lean): executing statements never changes the
shape of the loop stack it was given — the same loops, in the same order, with the same counters;
only the per-iteration assignments of those loops (and the render-wide assignments) can change —
nor the includer link, the context or the global context.  A `for` pushes its loop, runs, and pops
it again.
-/
import TeraModel.Model.Eval
namespace Tera

/-- A loop without its per-iteration assignments. -/
def ForLoop.strip (l : ForLoop) : ForLoop := { l with context := [] }

/-- What statements cannot change. -/
def Scope.frame (sc : Scope) : List ForLoop × Option Scope × Ctx × Option Ctx :=
  (sc.forLoops.map ForLoop.strip, sc.includeParent, sc.context, sc.globalContext)

theorem ForLoop.strip_store (l : ForLoop) (n : String) (v : Value) : (l.store n v).strip = l.strip := rfl

theorem Scope.frame_storeGlobal (sc : Scope) (n : String) (v : Value) :
    (sc.storeGlobal n v).frame = sc.frame := by
  obtain ⟨loops, sv, p, c, g⟩ := sc
  rfl

theorem Scope.frame_storeLocal (sc : Scope) (n : String) (v : Value) :
    (sc.storeLocal n v).frame = sc.frame := by
  obtain ⟨loops, sv, p, c, g⟩ := sc
  cases loops <;> rfl

theorem St.frame_store (st : St) (n : String) (v : Value) (g : Bool) :
    (st.store n v g).scope.frame = st.scope.frame := by
  cases g
  · exact Scope.frame_storeLocal _ _ _
  · exact Scope.frame_storeGlobal _ _ _

theorem St.write_scope (st : St) (w : List Char) : (st.write w).scope = st.scope := by
  unfold St.write
  split <;> rfl

theorem ForLoop.iterate_iterated (l l' : ForLoop) (e : Nat) (h : l.iterate e = some l') :
    l'.iterated = true := by
  unfold ForLoop.iterate at h
  split at h
  · cases h
  · injection h with h
    subst h
    rename_i hno
    unfold ForLoop.advance
    cases hr : l.remaining with
    | nil => simp [ForLoop.isOver, hr] at hno
    | cons it rest => dsimp only; split <;> rfl

theorem ForLoop.iterate_none (l : ForLoop) (e : Nat) (h : l.iterate e = none) : l.remaining = [] := by
  unfold ForLoop.iterate at h
  split at h
  · rename_i hov
    simpa [ForLoop.isOver] using hov
  · cases h

/-- The invariant of `execFor`: the loop it runs stays on top, everything below is framed, and the
loop ends up `iterated` if it had anything left to visit (or already was). -/
def ForFramed (st st' : St) : Prop :=
  ∀ l rest, st.scope.forLoops = l :: rest →
    ∃ l' rest', st'.scope.forLoops = l' :: rest' ∧ rest'.map ForLoop.strip = rest.map ForLoop.strip
      ∧ st'.scope.includeParent = st.scope.includeParent ∧ st'.scope.context = st.scope.context
      ∧ st'.scope.globalContext = st.scope.globalContext
      ∧ ((l.remaining ≠ [] ∨ l.iterated = true) → l'.iterated = true)

def FrameAt (env : Env) (fuel : Nat) : Prop :=
  (∀ ae st n st' sig, execNode fuel env ae st n = .ok (st', sig) → st'.scope.frame = st.scope.frame)
  ∧ (∀ ae st ns st' sig, execNodes fuel env ae st ns = .ok (st', sig) → st'.scope.frame = st.scope.frame)
  ∧ (∀ ae st body st', execFor fuel env ae st body = .ok st' → ForFramed st st')

theorem Scope.forLoops_pushLoop (sc : Scope) (l : ForLoop) : (sc.pushLoop l).forLoops = l :: sc.forLoops := by
  obtain ⟨loops, sv, p, c, g⟩ := sc
  rfl

theorem Scope.pushLoop_rest (sc : Scope) (l : ForLoop) :
    (sc.pushLoop l).includeParent = sc.includeParent ∧ (sc.pushLoop l).context = sc.context
    ∧ (sc.pushLoop l).globalContext = sc.globalContext := by
  obtain ⟨loops, sv, p, c, g⟩ := sc
  exact ⟨rfl, rfl, rfl⟩

theorem Scope.popLoop_fields (sc : Scope) :
    sc.popLoop.forLoops = sc.forLoops.tail ∧ sc.popLoop.includeParent = sc.includeParent
    ∧ sc.popLoop.context = sc.context ∧ sc.popLoop.globalContext = sc.globalContext := by
  obtain ⟨loops, sv, p, c, g⟩ := sc
  exact ⟨rfl, rfl, rfl, rfl⟩

theorem Scope.setTopLoop_fields (sc : Scope) (l l' : ForLoop) (rest : List ForLoop)
    (h : sc.forLoops = l :: rest) :
    (sc.setTopLoop l').forLoops = l' :: rest ∧ (sc.setTopLoop l').includeParent = sc.includeParent
    ∧ (sc.setTopLoop l').context = sc.context ∧ (sc.setTopLoop l').globalContext = sc.globalContext := by
  obtain ⟨loops, sv, p, c, g⟩ := sc
  simp only [Scope.forLoops] at h
  subst h
  exact ⟨rfl, rfl, rfl, rfl⟩

theorem frame_nodes_step (env : Env) (fuel : Nat) (ih : FrameAt env fuel) :
    ∀ ae st ns st' sig, execNodes (fuel + 1) env ae st ns = .ok (st', sig) → st'.scope.frame = st.scope.frame := by
  obtain ⟨ihN, ihL, _⟩ := ih
  intro ae st ns st' sig h
  cases ns with
  | nil =>
    simp only [execNodes] at h
    injection h with h
    injection h with h1 h2
    subst h1
    rfl
  | cons n rest =>
    simp only [execNodes] at h
    cases hR : execNode fuel env ae st n with
    | error e => rw [hR] at h; cases h
    | ok p =>
      rw [hR] at h
      obtain ⟨s1, g1⟩ := p
      have f1 := ihN ae st n s1 g1 hR
      cases g1 with
      | normal =>
        dsimp only at h
        rw [ihL ae s1 rest st' sig h, f1]
      | brk =>
        dsimp only at h
        injection h with h
        injection h with h1 h2
        subst h1
        exact f1
      | cont =>
        dsimp only at h
        injection h with h
        injection h with h1 h2
        subst h1
        exact f1

theorem frame_for_step (env : Env) (fuel : Nat) (ih : FrameAt env fuel) :
    ∀ ae st body st', execFor (fuel + 1) env ae st body = .ok st' → ForFramed st st' := by
  obtain ⟨_, ihL, ihF⟩ := ih
  intro ae st body st' h l rest hl
  simp only [execFor, hl] at h
  cases hi : l.iterate ITERATE_END_IP with
  | none =>
    rw [hi] at h
    dsimp only at h
    injection h with h
    subst h
    refine ⟨l, rest, hl, rfl, rfl, rfl, rfl, ?_⟩
    intro hor
    rcases hor with hne | hit
    · exact absurd (ForLoop.iterate_none l _ hi) hne
    · exact hit
  | some l1 =>
    rw [hi] at h
    dsimp only at h
    obtain ⟨t1, t2, t3, t4⟩ := Scope.setTopLoop_fields st.scope l l1 rest hl
    have hit1 : l1.iterated = true := ForLoop.iterate_iterated l l1 _ hi
    cases hR : execNodes fuel env ae { st with scope := st.scope.setTopLoop l1 } body with
    | error e => rw [hR] at h; cases h
    | ok p =>
      rw [hR] at h
      obtain ⟨s3, g3⟩ := p
      have f3 := ihL ae _ body s3 g3 hR
      simp only [Scope.frame, t1, t2, t3, t4, Prod.mk.injEq, List.map_cons] at f3
      obtain ⟨fl, fp, fc, fg⟩ := f3
      -- the loop stack of s3 has the same shape
      cases hs3 : s3.scope.forLoops with
      | nil => rw [hs3] at fl; simp at fl
      | cons l3 rest3 =>
        rw [hs3] at fl
        simp only [List.map_cons, List.cons.injEq] at fl
        obtain ⟨fl1, fl2⟩ := fl
        have hit3 : l3.iterated = true := by
          have : l3.strip.iterated = l1.strip.iterated := by rw [fl1]
          simpa [ForLoop.strip, hit1] using this
        have done : ForFramed st s3 → ∃ l' rest', s3.scope.forLoops = l' :: rest'
            ∧ rest'.map ForLoop.strip = rest.map ForLoop.strip
            ∧ s3.scope.includeParent = st.scope.includeParent ∧ s3.scope.context = st.scope.context
            ∧ s3.scope.globalContext = st.scope.globalContext
            ∧ ((l.remaining ≠ [] ∨ l.iterated = true) → l'.iterated = true) := fun _ =>
          ⟨l3, rest3, hs3, fl2, fp, fc, fg, fun _ => hit3⟩
        have next : execFor fuel env ae s3 body = .ok st' → ∃ l' rest', st'.scope.forLoops = l' :: rest'
            ∧ rest'.map ForLoop.strip = rest.map ForLoop.strip
            ∧ st'.scope.includeParent = st.scope.includeParent ∧ st'.scope.context = st.scope.context
            ∧ st'.scope.globalContext = st.scope.globalContext
            ∧ ((l.remaining ≠ [] ∨ l.iterated = true) → l'.iterated = true) := by
          intro h'
          obtain ⟨l', rest', a1, a2, a3, a4, a5, a6⟩ := ihF ae s3 body st' h' l3 rest3 hs3
          exact ⟨l', rest', a1, a2.trans fl2, a3.trans fp, a4.trans fc, a5.trans fg,
            fun _ => a6 (Or.inr hit3)⟩
        cases g3 with
        | brk =>
          dsimp only at h
          injection h with h
          subst h
          exact ⟨l3, rest3, hs3, fl2, fp, fc, fg, fun _ => hit3⟩
        | normal => exact next h
        | cont => exact next h

theorem writeValue_scope (env : Env) (ae : Bool) (st st' : St) (v : Value)
    (h : writeValue env ae st v = .ok st') : st'.scope = st.scope := by
  unfold writeValue at h
  split at h
  · cases h
  · injection h with h
    subst h
    exact St.write_scope _ _

theorem frame_node_step (env : Env) (fuel : Nat) (ih : FrameAt env fuel) :
    ∀ ae st n st' sig, execNode (fuel + 1) env ae st n = .ok (st', sig) → st'.scope.frame = st.scope.frame := by
  obtain ⟨_, ihL, ihF⟩ := ih
  intro ae st n st' sig h
  cases n with
  | content text =>
    simp only [execNode] at h
    injection h with h
    injection h with h1 h2
    subst h1
    rw [St.write_scope]
  | expression e =>
    simp only [execNode] at h
    cases hv : evalExpr fuel env st.scope e with
    | error er => rw [hv] at h; cases h
    | ok v =>
      rw [hv] at h
      dsimp only at h
      cases hw : writeValue env ae st v with
      | error er => rw [hw] at h; cases h
      | ok s1 =>
        rw [hw] at h
        simp only [Except.map] at h
        injection h with h
        injection h with h1 h2
        subst h1
        rw [writeValue_scope env ae st s1 v hw]
  | set name value g =>
    simp only [execNode] at h
    cases hv : evalExpr fuel env st.scope value with
    | error er => rw [hv] at h; cases h
    | ok v =>
      rw [hv] at h
      dsimp only at h
      injection h with h
      injection h with h1 h2
      subst h1
      exact St.frame_store _ _ _ _
  | blockSet name filters body g =>
    simp only [execNode] at h
    cases hR : execNodes fuel env ae { st with captures := [] :: st.captures } body with
    | error er => rw [hR] at h; cases h
    | ok p =>
      rw [hR] at h
      obtain ⟨s1, g1⟩ := p
      have f1 := ihL ae _ body s1 g1 hR
      cases g1 with
      | normal =>
        dsimp only at h
        cases hc : s1.captures with
        | nil => rw [hc] at h; cases h
        | cons buf restCaps =>
          rw [hc] at h
          dsimp only at h
          cases hf : applyFilters fuel env s1.scope filters (.str true buf) with
          | error er => rw [hf] at h; cases h
          | ok v =>
            rw [hf] at h
            dsimp only at h
            injection h with h
            injection h with h1 h2
            subst h1
            rw [St.frame_store]
            exact f1
      | brk => cases h
      | cont => cases h
  | «include» name =>
    simp only [execNode] at h
    cases ht : env.template name with
    | none => rw [ht] at h; cases h
    | some t =>
      rw [ht] at h
      dsimp only at h
      cases hR : execNodes fuel env t.autoescape ⟨Scope.included st.scope, [], []⟩ t.nodes with
      | error er => rw [hR] at h; cases h
      | ok p =>
        rw [hR] at h
        obtain ⟨s1, g1⟩ := p
        cases g1 with
        | normal =>
          dsimp only at h
          injection h with h
          injection h with h1 h2
          subst h1
          rw [St.write_scope]
        | brk => cases h
        | cont => cases h
  | block name body => simp only [execNode] at h; cases h
  | «break» =>
    simp only [execNode] at h
    injection h with h
    injection h with h1 h2
    subst h1
    rfl
  | «continue» =>
    simp only [execNode] at h
    injection h with h
    injection h with h1 h2
    subst h1
    rfl
  | «if» cond body fb =>
    simp only [execNode] at h
    cases hv : evalExpr fuel env st.scope cond with
    | error er => rw [hv] at h; cases h
    | ok c =>
      rw [hv] at h
      dsimp only at h
      cases hc : c.isTruthy
      · rw [hc] at h
        exact ihL ae st fb st' sig h
      · rw [hc] at h
        exact ihL ae st body st' sig h
  | filterSection name kwargs body =>
    simp only [execNode] at h
    cases hR : execNodes fuel env ae { st with captures := [] :: st.captures } body with
    | error er => rw [hR] at h; cases h
    | ok p =>
      rw [hR] at h
      obtain ⟨s1, g1⟩ := p
      have f1 := ihL ae _ body s1 g1 hR
      cases g1 with
      | normal =>
        dsimp only at h
        cases hc : s1.captures with
        | nil => rw [hc] at h; cases h
        | cons buf restCaps =>
          rw [hc] at h
          dsimp only at h
          cases hk : evalKwargs fuel env s1.scope kwargs with
          | error er => rw [hk] at h; cases h
          | ok kw =>
            rw [hk] at h
            dsimp only at h
            cases hf : applyFilter env name (.str true buf) kw with
            | error er => rw [hf] at h; cases h
            | ok v =>
              rw [hf] at h
              dsimp only at h
              cases hw : writeValue env ae { s1 with captures := restCaps } v with
              | error er => rw [hw] at h; cases h
              | ok s2 =>
                rw [hw] at h
                simp only [Except.map] at h
                injection h with h
                injection h with h1 h2
                subst h1
                rw [writeValue_scope env ae _ s2 v hw]
                exact f1
      | brk => cases h
      | cont => cases h
  | forLoop key value target body elseBody =>
    simp only [execNode] at h
    cases hv : evalExpr fuel env st.scope target with
    | error er => rw [hv] at h; cases h
    | ok tv =>
      rw [hv] at h
      dsimp only at h
      cases hi : iterItems tv with
      | none => rw [hi] at h; cases h
      | some items =>
        rw [hi] at h
        dsimp only at h
        split at h
        · cases h
        · cases key with
          | none =>
            dsimp only at h
            generalize (ForLoop.new items).storeLocalName value = L at h
            cases hR : execFor fuel env ae { st with scope := st.scope.pushLoop L } body with
            | error er => rw [hR] at h; cases h
            | ok s1 =>
              rw [hR] at h
              dsimp only at h
              obtain ⟨l', rest', a1, a2, a3, a4, a5, _⟩ :=
                ihF ae _ body s1 hR _ _ (Scope.forLoops_pushLoop st.scope _)
              obtain ⟨p1, p2, p3, p4⟩ := Scope.popLoop_fields s1.scope
              obtain ⟨q2, q3, q4⟩ := Scope.pushLoop_rest st.scope L
              have fpop : s1.scope.popLoop.frame = st.scope.frame := by
                simp only [Scope.frame, p1, p2, p3, p4, a1, List.tail_cons, a2, a3, a4, a5, q2, q3, q4]
              generalize (!elseBody.isEmpty && match s1.scope.forLoops with
                | l :: _ => !l.iterated
                | [] => false) = d at h
              cases d with
              | true =>
                simp only [if_true] at h
                rw [ihL ae _ elseBody st' sig h]
                exact fpop
              | false =>
                simp only [Bool.false_eq_true, if_false] at h
                injection h with h
                injection h with h1 h2
                subst h1
                exact fpop
          | some k =>
            dsimp only at h
            generalize ((ForLoop.new items).storeLocalName value).storeLocalName k = L at h
            cases hR : execFor fuel env ae { st with scope := st.scope.pushLoop L } body with
            | error er => rw [hR] at h; cases h
            | ok s1 =>
              rw [hR] at h
              dsimp only at h
              obtain ⟨l', rest', a1, a2, a3, a4, a5, _⟩ :=
                ihF ae _ body s1 hR _ _ (Scope.forLoops_pushLoop st.scope _)
              obtain ⟨p1, p2, p3, p4⟩ := Scope.popLoop_fields s1.scope
              obtain ⟨q2, q3, q4⟩ := Scope.pushLoop_rest st.scope L
              have fpop : s1.scope.popLoop.frame = st.scope.frame := by
                simp only [Scope.frame, p1, p2, p3, p4, a1, List.tail_cons, a2, a3, a4, a5, q2, q3, q4]
              generalize (!elseBody.isEmpty && match s1.scope.forLoops with
                | l :: _ => !l.iterated
                | [] => false) = d at h
              cases d with
              | true =>
                simp only [if_true] at h
                rw [ihL ae _ elseBody st' sig h]
                exact fpop
              | false =>
                simp only [Bool.false_eq_true, if_false] at h
                injection h with h
                injection h with h1 h2
                subst h1
                exact fpop

theorem frame (env : Env) : ∀ fuel, FrameAt env fuel := by
  intro fuel
  induction fuel with
  | zero =>
    refine ⟨?_, ?_, ?_⟩ <;> intros <;> simp_all [execNode, execNodes, execFor]
  | succ n ih =>
    exact ⟨frame_node_step env n ih, frame_nodes_step env n ih, frame_for_step env n ih⟩

end Tera
