/-
Re-serialising a `Value` (through `impl Serialize for Value`) gives the same value back, up to what
the serde data model cannot carry (undefined ↦ none, safe string ↦ normal string); and everything
`ser` produces is already plain with pairwise different map keys, so a converted value re-converts
to itself.
-/
import TeraModel.Model.Serde
import TeraModel.Lemmas.SerdeRoundtrip
import TeraModel.Lemmas.SerdePrint
namespace Tera.Serde

/-! ## keys -/

/-- a key serialised through `impl Serialize for Key` comes back unchanged -/
theorem serKey_keySer (k : Key) : serKey (keySer k) = .ok k := by
  cases k <;> simp [keySer, serKey, serKeyInt]

theorem plainOfEntries_mem_key : ∀ (es : List (Key × Value)) (a : Key × Value),
    a ∈ plainOfEntries es → ∃ b ∈ es, b.1 = a.1
  | [], a, h => by simp [plainOfEntries] at h
  | (k, v) :: es, a, h => by
    simp only [plainOfEntries, List.mem_cons] at h
    rcases h with h | h
    · exact ⟨(k, v), by simp, by rw [h]⟩
    · obtain ⟨b, hb, hk⟩ := plainOfEntries_mem_key es a h
      exact ⟨b, by simp [hb], hk⟩

/-! ## re-serialising a `Value` -/

mutual
theorem reser_val : (v : Value) → KeysDistinct v → ser (valueSer v) = .ok (plainOf v)
  | .undef, _ => by simp [valueSer, ser, plainOf]
  | .none, _ => by simp [valueSer, ser, plainOf]
  | .bool b, _ => by simp [valueSer, ser, plainOf]
  | .u64 n, _ => by simp [valueSer, ser, plainOf, serInt]
  | .i64 n, _ => by simp [valueSer, ser, plainOf, serInt]
  | .u128 n, _ => by simp [valueSer, ser, plainOf, serInt]
  | .i128 n, _ => by simp [valueSer, ser, plainOf, serInt]
  | .f64 x, _ => by simp [valueSer, ser, plainOf]
  | .str s t, _ => by simp [valueSer, ser, plainOf]
  | .bytes bs, _ => by simp [valueSer, ser, plainOf]
  | .arr xs, h => by
    rw [KeysDistinct.eq_def] at h
    have := reser_list xs h
    simp [valueSer, ser, plainOf, this]
  | .map es, h => by
    rw [KeysDistinct.eq_def] at h
    have := reser_entries es [] h.2 h.1 (by simp)
    simp [valueSer, ser, plainOf, this]

theorem reser_list : (xs : List Value) → KeysDistinctList xs →
    serList (valueSerList xs) = .ok (plainOfList xs)
  | [], _ => by simp [valueSerList, serList, plainOfList]
  | x :: xs, h => by
    rw [KeysDistinctList.eq_def] at h
    have h1 := reser_val x h.1
    have h2 := reser_list xs h.2
    simp [valueSerList, serList, plainOfList, h1, h2]

theorem reser_entries : (es : List (Key × Value)) → (acc : List (Key × Value)) →
    KeysDistinctEntries es → es.Pairwise (fun a b => keyEq a.1 b.1 = false) →
    (∀ a ∈ acc, ∀ b ∈ es, keyEq a.1 b.1 = false) →
    serEntries (valueSerEntries es) acc = .ok (acc ++ plainOfEntries es)
  | [], acc, _, _, _ => by simp [valueSerEntries, serEntries, plainOfEntries]
  | (k, v) :: es, acc, h, hp, hacc => by
    rw [KeysDistinctEntries.eq_def] at h
    have h1 := reser_val v h.1
    rw [List.pairwise_cons] at hp
    have hins : mapInsert k (plainOf v) acc = acc ++ [(k, plainOf v)] :=
      mapInsert_append k (plainOf v) acc (fun a ha => hacc a ha (k, v) (by simp))
    have h2 := reser_entries es (acc ++ [(k, plainOf v)]) h.2 hp.2 (by
      intro a ha b hb
      rw [List.mem_append] at ha
      rcases ha with ha | ha
      · exact hacc a ha b (by simp [hb])
      · simp only [List.mem_singleton] at ha
        subst ha
        exact hp.1 b hb)
    simp only [valueSerEntries, serEntries, serKey_keySer, h1, hins, h2, plainOfEntries]
    simp
end

/-- converting a `Value` a second time (through its own `Serialize` impl) gives the same value,
up to what the serde data model cannot carry (undefined ↦ none, safe string ↦ normal string) -/
theorem reser_main (v : Value) (h : KeysDistinct v) : ser (valueSer v) = .ok (plainOf v) :=
  reser_val v h

/-- a plain value with distinct keys re-converts to itself -/
theorem reser_identity (v : Value) (h : KeysDistinct v) (hp : plainOf v = v) :
    ser (valueSer v) = .ok v := by
  have := reser_main v h
  rw [hp] at this
  exact this

/-! ## the image of `ser` -/

/-- what every map built by the serializer satisfies: pairwise different keys, plain values with
distinct keys inside -/
def MapInv (m : List (Key × Value)) : Prop :=
  m.Pairwise (fun a b => keyEq a.1 b.1 = false) ∧ plainOfEntries m = m ∧ KeysDistinctEntries m

theorem mapInv_nil : MapInv [] := by
  refine ⟨List.Pairwise.nil, ?_, ?_⟩
  · simp [plainOfEntries]
  · simp [KeysDistinctEntries]

theorem mapInsert_mem_key (k : Key) (v : Value) : ∀ (acc : List (Key × Value)) (b : Key × Value),
    b ∈ mapInsert k v acc → b.1 = k ∨ ∃ c ∈ acc, c.1 = b.1
  | [], b, h => by
    simp only [mapInsert, List.mem_singleton] at h
    left; rw [h]
  | (k', v') :: rest, b, h => by
    simp only [mapInsert] at h
    split at h
    · simp only [List.mem_cons] at h
      rcases h with h | h
      · right; exact ⟨(k', v'), by simp, by rw [h]⟩
      · right; exact ⟨b, by simp [h], rfl⟩
    · simp only [List.mem_cons] at h
      rcases h with h | h
      · right; exact ⟨(k', v'), by simp, by rw [h]⟩
      · rcases mapInsert_mem_key k v rest b h with h' | ⟨c, hc, hk⟩
        · left; exact h'
        · right; exact ⟨c, by simp [hc], hk⟩

theorem mapInsert_pairwise (k : Key) (v : Value) : ∀ (acc : List (Key × Value)),
    acc.Pairwise (fun a b => keyEq a.1 b.1 = false) →
    (mapInsert k v acc).Pairwise (fun a b => keyEq a.1 b.1 = false)
  | [], _ => by simp [mapInsert]
  | (k', v') :: rest, h => by
    rw [List.pairwise_cons] at h
    simp only [mapInsert]
    split
    · rw [List.pairwise_cons]
      exact ⟨h.1, h.2⟩
    · rename_i hne
      rw [List.pairwise_cons]
      refine ⟨?_, mapInsert_pairwise k v rest h.2⟩
      intro b hb
      rcases mapInsert_mem_key k v rest b hb with hk | ⟨c, hc, hk⟩
      · show keyEq k' b.1 = false
        rw [hk]; simpa using hne
      · show keyEq k' b.1 = false
        rw [← hk]; exact h.1 c hc

theorem plainOfEntries_mapInsert (k : Key) (v : Value) : ∀ (acc : List (Key × Value)),
    plainOfEntries (mapInsert k v acc) = mapInsert k (plainOf v) (plainOfEntries acc)
  | [] => by simp [mapInsert, plainOfEntries]
  | (k', v') :: rest => by
    simp only [mapInsert, plainOfEntries]
    split
    · simp [plainOfEntries]
    · simp [plainOfEntries, plainOfEntries_mapInsert k v rest]

theorem mapInsert_keysDistinct (k : Key) (v : Value) (hv : KeysDistinct v) :
    ∀ (acc : List (Key × Value)), KeysDistinctEntries acc → KeysDistinctEntries (mapInsert k v acc)
  | [], _ => by
    simp only [mapInsert]
    rw [KeysDistinctEntries.eq_def]
    exact ⟨hv, by simp [KeysDistinctEntries]⟩
  | (k', v') :: rest, h => by
    rw [KeysDistinctEntries.eq_def] at h
    simp only [mapInsert]
    split
    · rw [KeysDistinctEntries.eq_def]; exact ⟨hv, h.2⟩
    · rw [KeysDistinctEntries.eq_def]; exact ⟨h.1, mapInsert_keysDistinct k v hv rest h.2⟩

theorem mapInsert_inv (k : Key) (v : Value) (acc : List (Key × Value)) (hp : plainOf v = v)
    (hv : KeysDistinct v) (h : MapInv acc) : MapInv (mapInsert k v acc) := by
  refine ⟨mapInsert_pairwise k v acc h.1, ?_, mapInsert_keysDistinct k v hv acc h.2.2⟩
  rw [plainOfEntries_mapInsert, hp, h.2.1]

mutual
theorem ser_img : (x : SVal) → (v : Value) → ser x = .ok v → plainOf v = v ∧ KeysDistinct v
  | .bool b, v, h => by
    simp only [ser, Except.ok.injEq] at h; subst h; simp [plainOf, KeysDistinct]
  | .int t n, v, h => by
    simp only [ser, Except.ok.injEq] at h; subst h
    cases t <;> simp [serInt, plainOf, KeysDistinct]
  | .f32 x, v, h => by
    simp only [ser, Except.ok.injEq] at h; subst h; simp [plainOf, KeysDistinct]
  | .f64 x, v, h => by
    simp only [ser, Except.ok.injEq] at h; subst h; simp [plainOf, KeysDistinct]
  | .char c, v, h => by
    simp only [ser, Except.ok.injEq] at h; subst h; simp [plainOf, KeysDistinct]
  | .str s, v, h => by
    simp only [ser, Except.ok.injEq] at h; subst h; simp [plainOf, KeysDistinct]
  | .unit, v, h => by
    simp only [ser, Except.ok.injEq] at h; subst h; simp [plainOf, KeysDistinct]
  | .cstring bs, v, h => by
    simp only [ser, Except.ok.injEq] at h; subst h; simp [plainOf, KeysDistinct]
  | .none, v, h => by
    simp only [ser, Except.ok.injEq] at h; subst h; simp [plainOf, KeysDistinct]
  | .unitStruct, v, h => by
    simp only [ser, Except.ok.injEq] at h; subst h; simp [plainOf, KeysDistinct]
  | .some x, v, h => by
    simp only [ser] at h; exact ser_img x v h
  | .newtype x, v, h => by
    simp only [ser] at h; exact ser_img x v h
  | .seq xs, v, h => by
    simp only [ser] at h
    split at h
    · rename_i vs hvs
      simp only [Except.ok.injEq] at h; subst h
      have := serList_img xs vs hvs
      rw [KeysDistinct.eq_def]
      simp only [plainOf, this.1]
      exact ⟨trivial, this.2⟩
    · cases h
  | .tuple xs, v, h => by
    simp only [ser] at h
    split at h
    · rename_i vs hvs
      simp only [Except.ok.injEq] at h; subst h
      have := serList_img xs vs hvs
      rw [KeysDistinct.eq_def]
      simp only [plainOf, this.1]
      exact ⟨trivial, this.2⟩
    · cases h
  | .map es, v, h => by
    simp only [ser] at h
    split at h
    · rename_i m hm
      simp only [Except.ok.injEq] at h; subst h
      have := serEntries_img es [] m mapInv_nil hm
      rw [KeysDistinct.eq_def]
      simp only [plainOf, this.2.1]
      exact ⟨trivial, this.1, this.2.2⟩
    · cases h
  | .struct fs, v, h => by
    simp only [ser] at h
    split at h
    · rename_i m hm
      simp only [Except.ok.injEq] at h; subst h
      have := serFields_img fs [] m mapInv_nil hm
      rw [KeysDistinct.eq_def]
      simp only [plainOf, this.2.1]
      exact ⟨trivial, this.1, this.2.2⟩
    · cases h
  | .variant name .unit p, v, h => by
    simp only [ser, Except.ok.injEq] at h; subst h; simp [plainOf, KeysDistinct]
  | .variant name .newtype p, v, h => by
    simp only [ser] at h
    split at h
    · rename_i q hq
      simp only [Except.ok.injEq] at h; subst h
      have := ser_img p q hq
      rw [KeysDistinct.eq_def]
      simp only [plainOf, plainOfEntries, this.1]
      refine ⟨trivial, by simp, ?_⟩
      rw [KeysDistinctEntries.eq_def]; exact ⟨this.2, by simp [KeysDistinctEntries]⟩
    · cases h
  | .variant name .tuple p, v, h => by
    simp only [ser] at h
    split at h
    · rename_i q hq
      simp only [Except.ok.injEq] at h; subst h
      have := ser_img p q hq
      rw [KeysDistinct.eq_def]
      simp only [plainOf, plainOfEntries, this.1]
      refine ⟨trivial, by simp, ?_⟩
      rw [KeysDistinctEntries.eq_def]; exact ⟨this.2, by simp [KeysDistinctEntries]⟩
    · cases h
  | .variant name .struct p, v, h => by
    simp only [ser] at h
    split at h
    · rename_i q hq
      simp only [Except.ok.injEq] at h; subst h
      have := ser_img p q hq
      rw [KeysDistinct.eq_def]
      simp only [plainOf, plainOfEntries, this.1]
      refine ⟨trivial, by simp, ?_⟩
      rw [KeysDistinctEntries.eq_def]; exact ⟨this.2, by simp [KeysDistinctEntries]⟩
    · cases h

theorem serList_img : (xs : List SVal) → (vs : List Value) → serList xs = .ok vs →
    plainOfList vs = vs ∧ KeysDistinctList vs
  | [], vs, h => by
    simp only [serList, Except.ok.injEq] at h; subst h
    simp [plainOfList, KeysDistinctList]
  | x :: xs, vs, h => by
    simp only [serList] at h
    split at h
    · cases h
    · rename_i v hv
      split at h
      · rename_i ws hws
        simp only [Except.ok.injEq] at h; subst h
        have h1 := ser_img x v hv
        have h2 := serList_img xs ws hws
        rw [KeysDistinctList.eq_def]
        simp only [plainOfList, h1.1, h2.1]
        exact ⟨trivial, h1.2, h2.2⟩
      · cases h

theorem serEntries_img : (es : List (SVal × SVal)) → (acc m : List (Key × Value)) → MapInv acc →
    serEntries es acc = .ok m → MapInv m
  | [], acc, m, hi, h => by
    simp only [serEntries, Except.ok.injEq] at h; subst h; exact hi
  | (k, x) :: es, acc, m, hi, h => by
    simp only [serEntries] at h
    split at h
    · cases h
    · rename_i key hkey
      split at h
      · cases h
      · rename_i v hv
        have h1 := ser_img x v hv
        exact serEntries_img es (mapInsert key v acc) m (mapInsert_inv key v acc h1.1 h1.2 hi) h

theorem serFields_img : (fs : List (Name × SVal)) → (acc m : List (Key × Value)) → MapInv acc →
    serFields fs acc = .ok m → MapInv m
  | [], acc, m, hi, h => by
    simp only [serFields, Except.ok.injEq] at h; subst h; exact hi
  | (n, x) :: fs, acc, m, hi, h => by
    simp only [serFields] at h
    split at h
    · cases h
    · rename_i v hv
      have h1 := ser_img x v hv
      exact serFields_img fs (mapInsert (.str n) v acc) m (mapInsert_inv (.str n) v acc h1.1 h1.2 hi) h
end

/-- everything `ser` produces is plain (no undefined, no safe string) and every map in it has
pairwise different keys -/
theorem ser_image (x : SVal) (v : Value) (h : ser x = .ok v) : plainOf v = v ∧ KeysDistinct v :=
  ser_img x v h

/-- a converted value re-converts to itself -/
theorem reser_of_converted (x : SVal) (v : Value) (h : ser x = .ok v) : ser (valueSer v) = .ok v :=
  reser_identity v (ser_image x v h).2 (ser_image x v h).1

end Tera.Serde
