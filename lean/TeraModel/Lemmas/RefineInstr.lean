/-
Compiler correctness (Props/Refine.lean), part 2: one lemma per instruction.

Each lemma says what one turn of the interpreter loop (`Vm.step`) does on a compiled instruction
sitting at `pc` (`EntryAt`) when the value stack has the shape the compiler guarantees, IN TERMS OF
THE EVALUATOR'S OPERATION on the same operands (`Tera.binop`, `negate`, `Value.getAttr`, …): the
value pushed is the evaluator's value, a rendering error is of the evaluator's error's class
(`errMatch`), and a pushed slot's span range is `SpanOk` again.

The value primitives are literally shared between Model/Eval.lean and Model/Vm.lean (`mul`, `div`,
`floorDiv`, `rem`, `add`, `sub`, `pow`, `negate` of Model/Number.lean; `partialCmp`, `valueEq`,
`Value.contains`, `Value.getAttr`, `Value.getItem`, `Value.slice`, `Value.isTruthy` of
Model/EvalPrims.lean; `Value.format` of Model/Format.lean; `iterItems`, `ForLoop`, `Scope` of
Model/ForLoopModel.lean, Scope.lean); what is re-implemented on the VM side is the glue around
them (`stepMath` vs `mathBinop`, `cmpTest` vs the closures of `orderingBinop`, the operand order
of `In`, `Vm.sliceBound` vs `Tera.sliceBound`, `lookupName` vs the `__tera_context` guard), and
that glue is what these lemmas relate.
-/
import TeraModel.Lemmas.RefineRun
set_option linter.unusedSimpArgs false
namespace Tera.Refine
open Tera Tera.Vm Tera.Compiler

/-! ### environments and error classes -/

/-- The evaluator's environment and the VM's agree on the float operations and the float printer
(the two parameters both models leave open). -/
structure EnvRel (venv : Vm.Env) (eenv : Tera.Env) : Prop where
  F : venv.F = eenv.F
  fmt : venv.fmtF64 = eenv.fmtF64

/-- The class map between the evaluator's errors (Model/Eval.lean `Err`) and the VM's
(Model/VmState.lean `RErr`): `errMatch err re` = "`re` is a VM error of the evaluator's class
`err`".  The evaluator has ONE class for everything undefined-related; the VM model names the
instruction instead (`undefinedVariable`, `undefinedField`, `undefinedRender`, and `index` /
`slice`, which also cover "the base / index / bound is undefined"), so `undefined` matches all of
those; `index` matches `index` and `slice`; arithmetic errors carry the same `NumErr`; `throw()`
is a failing function call. -/
def errMatch : Err → RErr → Bool
  | .undefined, .undefinedVariable => true
  | .undefined, .undefinedField => true
  | .undefined, .undefinedRender => true
  | .undefined, .index => true
  | .undefined, .slice => true
  | .notComparable, .notComparable => true
  | .num e, .math e' => decide (e = e')
  | .iteration, .iteration => true
  | .inContainer, .inContainer => true
  | .index, .index => true
  | .index, .slice => true
  | .spread, .spread => true
  | .call, .call => true
  | .thrown, .call => true
  | .missingTemplate, .templateNotFound => true
  | _, _ => false

/-- an error the engine can report: not the evaluator's own "out of fuel", not "outside the
modelled fragment" -/
def reportable : Err → Bool
  | .fuel => false
  | .unsupported _ => false
  | _ => true

/-! ### straight-line instructions -/

section
variable {venv : Vm.Env} {vm : VmCtx} {c : Chunk}
  {eenv : Tera.Env}

theorem run_loadConst {pc : Nat} {v : Value} {hasSpan : Bool} (h : EntryAt c pc (.loadConst v, hasSpan))
    (st : State) :
    Run venv vm c pc st [pc] (pc + 1) (st.push v (pc, pc)) := by
  obtain ⟨vi, sps, hv, hc, _⟩ := h
  simp only [Pipeline.vinstr, Option.some.injEq] at hv
  subst hv
  exact Run.one hc (by intro rec; simp only [step])

theorem spanOk_own {pc : Nat} {i : CInstr} (h : EntryAt c pc (sp i)) : SpanOk c (pc, pc) := by
  obtain ⟨vi, sps, _, hc, hs⟩ := h
  exact SpanOk.own hc (by simpa [sp] using hs)

theorem run_loadName {pc : Nat} {n : String} (h : EntryAt c pc (sp (.loadName n))) (st : State)
    (hn : (n == "__tera_context") = false) :
    Run venv vm c pc st [pc] (pc + 1) (st.push (st.scope.getValue n) (pc, pc)) := by
  obtain ⟨vi, sps, hv, hc, _⟩ := h
  simp only [sp, Pipeline.vinstr, Option.some.injEq] at hv
  subst hv
  have hn' : ¬ n = MAGICAL_DUMP_VAR := by
    intro h; subst h; simp [MAGICAL_DUMP_VAR] at hn
  exact Run.one hc (by intro rec; simp only [step, lookupName, hn', if_false])

/-- `LoadAttr` / `LoadAttrOpt` against the evaluator's `getAttr` arm -/
theorem attr_sim {pc : Nat} {n : String} {opt : Bool}
    (h : EntryAt c pc (sp (if opt then .loadAttrOpt n else .loadAttr n)))
    (ht : reportTargetOk venv vm c = true) (st : State) (a : Value) (ra : SpanRange)
    (hra : SpanOk c ra) :
    if opt && (a.isUndef || a.isNone) then
      Run venv vm c pc (st.push a ra) [pc] (pc + 1) (st.push .undef (pc, pc))
    else if a.isUndef then
      Fails venv vm c pc (st.push a ra) [pc] .undefinedField
    else
      Run venv vm c pc (st.push a ra) [pc] (pc + 1)
        (st.push ((a.getAttr n.toList).getD .undef) (pc, pc)) := by
  obtain ⟨vi, sps, hv, hc, _⟩ := h
  have hv' : vi = .loadAttr n opt := by
    cases opt <;> simp only [sp, Pipeline.vinstr, Option.some.injEq, Bool.false_eq_true, if_false, if_true] at hv <;>
      exact hv.symm
  subst hv'
  cases opt <;> cases hu : a.isUndef <;> cases hn : a.isNone <;>
    simp only [Bool.true_and, Bool.false_and, Bool.or_true, Bool.or_false, Bool.true_or,
      Bool.false_or, if_true, if_false, Bool.false_eq_true] <;>
    first
      | exact Run.one hc (by intro rec; simp [step, stepLoadAttr, State.push, hu, hn])
      | exact Fails.here hc (by
          intro rec
          simp only [step, stepLoadAttr, State.push, hu, hn, Bool.true_and, Bool.false_and,
            Bool.or_true, Bool.or_false, Bool.true_or, Bool.false_or, if_true, if_false,
            Bool.false_eq_true]
          exact renderingError_eq ht hra _)

theorem run_not {pc : Nat} (h : EntryAt c pc (sp .not)) (st : State) (a : Value) (ra : SpanRange) :
    Run venv vm c pc (st.push a ra) [pc] (pc + 1) (st.push (.bool (!a.isTruthy)) ra) := by
  obtain ⟨vi, sps, hv, hc, _⟩ := h
  simp only [sp, Pipeline.vinstr, Option.some.injEq] at hv
  subst hv
  exact Run.one hc (by intro rec; simp only [step, stepNot, State.push])

/-- `Negative` against `liftNum (negate F v)` -/
theorem negative_sim {pc : Nat} (h : EntryAt c pc (sp .negative)) (hE : EnvRel venv eenv)
    (ht : reportTargetOk venv vm c = true) (st : State) (a : Value) (ra : SpanRange)
    (hra : SpanOk c ra) :
    match liftNum (negate eenv.F a) with
    | .ok v => Run venv vm c pc (st.push a ra) [pc] (pc + 1) (st.push v ra)
    | .error err => ∃ re, Fails venv vm c pc (st.push a ra) [pc] re ∧ errMatch err re = true := by
  obtain ⟨vi, sps, hv, hc, _⟩ := h
  simp only [sp, Pipeline.vinstr, Option.some.injEq] at hv
  subst hv
  cases hr : negate eenv.F a with
  | ok v =>
    simp only [liftNum]
    exact Run.one hc (by intro rec; simp only [step, stepNegative, State.push, hE.F, hr])
  | error e =>
    simp only [liftNum]
    refine ⟨.math e, Fails.here hc ?_, by simp [errMatch]⟩
    intro rec
    simp only [step, stepNegative, State.push, hE.F, hr]
    exact renderingError_eq ht hra _

/-! ### binary operators -/

/-- the `math_binop!` instructions against `mathBinop` -/
theorem math_sim {pc : Nat} {mop : MathOp} {sps : List Span}
    (hc : c.code[pc]? = some (.math mop, sps)) (ht : reportTargetOk venv vm c = true)
    (f : Value → Value → Except NumErr Value) (hf : mathFn venv.F mop = f)
    (st : State) (a : Value) (ra : SpanRange) (b : Value) (rb : SpanRange)
    (hra : SpanOk c ra) (hrb : SpanOk c rb) :
    match mathBinop f a b with
    | .ok v => ∃ rg, Run venv vm c pc ((st.push a ra).push b rb) [pc] (pc + 1) (st.push v rg) ∧ SpanOk c rg
    | .error err => ∃ re, Fails venv vm c pc ((st.push a ra).push b rb) [pc] re ∧ errMatch err re = true := by
  unfold mathBinop
  by_cases ha : a.isNumber = true
  · by_cases hb : b.isNumber = true
    · simp only [ha, hb, Bool.not_true, Bool.false_eq_true, if_false]
      cases hr : f a b with
      | ok v =>
        simp only [liftNum]
        exact ⟨_, Run.one hc (by intro rec; simp only [step, stepMath, State.push, ha, hb, hf, hr,
          Bool.not_true, Bool.false_eq_true, if_false]), hra.combine hrb⟩
      | error e =>
        simp only [liftNum]
        refine ⟨.math e, Fails.here hc ?_, by simp [errMatch]⟩
        intro rec
        simp only [step, stepMath, State.push, ha, hb, hf, hr, Bool.not_true, Bool.false_eq_true, if_false]
        cases e
        all_goals first
          | exact renderingError_eq ht (hra.combine hrb) _
          | exact renderingError_eq ht hrb _
    · simp only [ha, hb, Bool.not_true, Bool.not_false, Bool.false_eq_true, if_false, if_true]
      refine ⟨.math .notNumber, Fails.here hc ?_, by simp [errMatch]⟩
      intro rec
      simp only [step, stepMath, State.push, ha, hb, Bool.not_true, Bool.not_false, Bool.false_eq_true,
        if_false, if_true]
      exact renderingError_eq ht hrb _
  · simp only [ha, Bool.not_false, if_true]
    refine ⟨.math .notNumber, Fails.here hc ?_, by simp [errMatch]⟩
    intro rec
    simp only [step, stepMath, State.push, ha, Bool.not_false, if_true]
    exact renderingError_eq ht hra _

/-- the `ordering_binop!` instructions against `orderingBinop` -/
theorem cmp_sim {pc : Nat} {cop : CmpOp} {sps : List Span}
    (hc : c.code[pc]? = some (.cmp cop, sps)) (ht : reportTargetOk venv vm c = true)
    (test : Ordering → Bool) (hf : ∀ o, cmpTest cop o = test o)
    (st : State) (a : Value) (ra : SpanRange) (b : Value) (rb : SpanRange)
    (hra : SpanOk c ra) (hrb : SpanOk c rb) :
    match orderingBinop test a b with
    | .ok v => ∃ rg, Run venv vm c pc ((st.push a ra).push b rb) [pc] (pc + 1) (st.push v rg) ∧ SpanOk c rg
    | .error err => ∃ re, Fails venv vm c pc ((st.push a ra).push b rb) [pc] re ∧ errMatch err re = true := by
  unfold orderingBinop
  cases hr : partialCmp a b with
  | some o =>
    exact ⟨_, Run.one hc (by intro rec; simp only [step, stepCmp, State.push, hr, hf]), hra.combine hrb⟩
  | none =>
    refine ⟨.notComparable, Fails.here hc ?_, by simp [errMatch]⟩
    intro rec
    simp only [step, stepCmp, State.push, hr]
    exact renderingError_eq ht (hra.combine hrb) _

/-- the text `~` builds: two strings are concatenated as they are, anything else is formatted -/
def concatText (fmt : F64 → List Char) (a b : Value) : List Char :=
  match a, b with
  | .str _ x, .str _ y => x ++ y
  | _, _ => a.format fmt ++ b.format fmt

theorem binop_strConcat (eenv : Tera.Env) (a b : Value) :
    binop eenv .StrConcat a b = .ok (.str false (concatText eenv.fmtF64 a b)) := by
  cases a <;> cases b <;> rfl

theorem stepStrConcat_eq (env : Vm.Env) (pc : Nat) (st : State) (a : Value) (ra : SpanRange)
    (b : Value) (rb : SpanRange) :
    stepStrConcat env pc ((st.push a ra).push b rb)
      = .next (pc + 1) (st.push (.str false (concatText env.fmtF64 a b)) (combineSpans ra rb)) := by
  cases a <;> cases b <;> rfl

/-- operators that evaluate both operands and then run one instruction: everything except
`and` / `or` (short-circuit jumps) and `is` / `|` (never binary operations in a parsed AST) -/
def strictOp : BinaryOperator → Bool
  | .And | .Or | .Is | .Pipe => false
  | _ => true

/-- one binary instruction against the evaluator's `binop` -/
theorem binop_sim {pc : Nat} {op : BinaryOperator} (hop : strictOp op = true)
    (h : EntryAt c pc (sp (.binop op))) (hE : EnvRel venv eenv)
    (ht : reportTargetOk venv vm c = true)
    (st : State) (a : Value) (ra : SpanRange) (b : Value) (rb : SpanRange)
    (hra : SpanOk c ra) (hrb : SpanOk c rb) :
    match binop eenv op a b with
    | .ok v => ∃ rg, Run venv vm c pc ((st.push a ra).push b rb) [pc] (pc + 1) (st.push v rg) ∧ SpanOk c rg
    | .error err => ∃ re, Fails venv vm c pc ((st.push a ra).push b rb) [pc] re ∧ errMatch err re = true := by
  have hown := spanOk_own h
  obtain ⟨vi, sps, hv, hc, _⟩ := h
  cases op <;> simp only [strictOp, Bool.false_eq_true] at hop <;>
    simp only [sp, Pipeline.vinstr, Option.some.injEq] at hv <;> subst hv
  case StrConcat =>
    rw [binop_strConcat, ← hE.fmt]
    exact ⟨combineSpans ra rb, Run.one hc (by intro rec; simp only [step, stepStrConcat_eq]), hra.combine hrb⟩
  all_goals simp only [binop]
  case Mul => exact math_sim hc ht _ (by rw [hE.F]; rfl) st a ra b rb hra hrb
  case Div => exact math_sim hc ht _ (by rw [hE.F]; rfl) st a ra b rb hra hrb
  case Mod => exact math_sim hc ht _ (by rw [hE.F]; rfl) st a ra b rb hra hrb
  case Minus => exact math_sim hc ht _ (by rw [hE.F]; rfl) st a ra b rb hra hrb
  case FloorDiv => exact math_sim hc ht _ (by rw [hE.F]; rfl) st a ra b rb hra hrb
  case Power => exact math_sim hc ht _ (by rw [hE.F]; rfl) st a ra b rb hra hrb
  case Plus =>
    by_cases hab : (a.isNumber && b.isNumber) = true
    · rw [if_pos hab]
      cases hr : add eenv.F a b with
      | ok v =>
        simp only [liftNum]
        exact ⟨_, Run.one hc (by intro rec; simp only [step, stepPlus, State.push, hab, hE.F, hr, if_true]),
          hra.combine hrb⟩
      | error e =>
        simp only [liftNum]
        refine ⟨.math e, Fails.here hc ?_, by simp [errMatch]⟩
        intro rec
        simp only [step, stepPlus, State.push, hab, hE.F, hr, if_true]
        exact renderingError_eq ht (hra.combine hrb) _
    · rw [if_neg hab]
      refine ⟨.math .notNumber, Fails.here hc ?_, by simp [errMatch]⟩
      intro rec
      simp only [step, stepPlus, State.push, hab, Bool.false_eq_true, if_false]
      exact renderingError_eq ht (hra.combine hrb) _
  case LessThan => exact cmp_sim hc ht _ (fun _ => rfl) st a ra b rb hra hrb
  case GreaterThan => exact cmp_sim hc ht _ (fun _ => rfl) st a ra b rb hra hrb
  case LessThanOrEqual => exact cmp_sim hc ht _ (fun _ => rfl) st a ra b rb hra hrb
  case GreaterThanOrEqual => exact cmp_sim hc ht _ (fun _ => rfl) st a ra b rb hra hrb
  case Equal =>
    exact ⟨_, Run.one hc (by intro rec; simp only [step, stepEqual, State.push, Bool.false_eq_true, if_false]),
      hra.combine hrb⟩
  case NotEqual =>
    exact ⟨_, Run.one hc (by intro rec; simp only [step, stepEqual, State.push, if_true]), hra.combine hrb⟩
  case In =>
    cases hr : Value.contains b a with
    | ok r =>
      exact ⟨_, Run.one hc (by intro rec; simp only [step, stepIn, State.push, hr]), hown⟩
    | error e =>
      refine ⟨.inContainer, Fails.here hc ?_, by simp [errMatch]⟩
      intro rec
      simp only [step, stepIn, State.push, hr]
      exact renderingError_eq ht hrb _

/-! ### jumps -/

theorem run_jump {pc t : Nat} (h : EntryAt c pc (ns (.jump t))) (st : State) :
    Run venv vm c pc st [pc] t st := by
  obtain ⟨vi, sps, hv, hc, _⟩ := h
  simp only [ns, Pipeline.vinstr, Option.some.injEq] at hv
  subst hv
  exact Run.one hc (by intro rec; simp only [step])

theorem run_popJumpIfFalse {pc t : Nat} (h : EntryAt c pc (ns (.popJumpIfFalse t))) (st : State)
    (v : Value) (r : SpanRange) :
    Run venv vm c pc (st.push v r) [pc] (if v.isTruthy then pc + 1 else t) st := by
  obtain ⟨vi, sps, hv, hc, _⟩ := h
  simp only [ns, Pipeline.vinstr, Option.some.injEq] at hv
  subst hv
  refine Run.one hc ?_
  intro rec
  cases hv : v.isTruthy <;> simp [step, stepPopJumpIfFalse, State.push, hv]

/-- `JumpIfFalseOrPop` (`and`): a truthy top is popped -/
theorem run_jumpIfFalseOrPop_true {pc t : Nat} (h : EntryAt c pc (ns (.jumpIfFalseOrPop t)))
    (st : State) (v : Value) (r : SpanRange) (hv : v.isTruthy = true) :
    Run venv vm c pc (st.push v r) [pc] (pc + 1) st := by
  obtain ⟨vi, sps, hvi, hc, _⟩ := h
  simp only [ns, Pipeline.vinstr, Option.some.injEq] at hvi
  subst hvi
  refine Run.one hc ?_
  intro rec
  simp [step, stepJumpOrPop, State.push, hv]

/-- `JumpIfFalseOrPop` (`and`): a falsy top stays and the VM jumps -/
theorem run_jumpIfFalseOrPop_false {pc t : Nat} (h : EntryAt c pc (ns (.jumpIfFalseOrPop t)))
    (st : State) (v : Value) (r : SpanRange) (hv : v.isTruthy = false) :
    Run venv vm c pc (st.push v r) [pc] t (st.push v r) := by
  obtain ⟨vi, sps, hvi, hc, _⟩ := h
  simp only [ns, Pipeline.vinstr, Option.some.injEq] at hvi
  subst hvi
  refine Run.one hc ?_
  intro rec
  simp [step, stepJumpOrPop, State.push, hv]

/-- `JumpIfTrueOrPop` (`or`): a truthy top stays and the VM jumps -/
theorem run_jumpIfTrueOrPop_true {pc t : Nat} (h : EntryAt c pc (ns (.jumpIfTrueOrPop t)))
    (st : State) (v : Value) (r : SpanRange) (hv : v.isTruthy = true) :
    Run venv vm c pc (st.push v r) [pc] t (st.push v r) := by
  obtain ⟨vi, sps, hvi, hc, _⟩ := h
  simp only [ns, Pipeline.vinstr, Option.some.injEq] at hvi
  subst hvi
  refine Run.one hc ?_
  intro rec
  simp [step, stepJumpOrPop, State.push, hv]

/-- `JumpIfTrueOrPop` (`or`): a falsy top is popped -/
theorem run_jumpIfTrueOrPop_false {pc t : Nat} (h : EntryAt c pc (ns (.jumpIfTrueOrPop t)))
    (st : State) (v : Value) (r : SpanRange) (hv : v.isTruthy = false) :
    Run venv vm c pc (st.push v r) [pc] (pc + 1) st := by
  obtain ⟨vi, sps, hvi, hc, _⟩ := h
  simp only [ns, Pipeline.vinstr, Option.some.injEq] at hvi
  subst hvi
  refine Run.one hc ?_
  intro rec
  simp [step, stepJumpOrPop, State.push, hv]

end
end Tera.Refine
