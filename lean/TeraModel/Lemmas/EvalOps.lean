/-
Helper lemmas about the operators of the evaluator (Model/Eval.lean `binop`) and the number model
(Model/Number.lean): which error classes can arise from which operand kinds.
-/
import TeraModel.Model.Eval
namespace Tera

theorem argError_of_number (v : Value) (h : v.isNumber = true) : argError v = .operandRange := by
  simp [argError, h]

theorem mathOp_ne_notNumber (iop : Int → Int → Int) (fop : F64 → F64 → F64) (a b : Value)
    (ha : a.isNumber = true) (hb : b.isNumber = true) :
    mathOp iop fop a b ≠ .error .notNumber := by
  unfold mathOp
  split
  · split
    · simp
    · split
      · split <;> simp
      · simp
  · simp [argError_of_number _ ha]
  · simp [argError_of_number _ hb]

theorem rem_ne_notNumber (F : FloatOps) (a b : Value) (ha : a.isNumber = true) (hb : b.isNumber = true) :
    rem F a b ≠ .error .notNumber := by
  unfold rem
  split
  · split
    · simp
    · split
      · simp
      · split
        · split
          · simp
          · split <;> simp
        · simp
  · simp [argError_of_number _ ha]
  · simp [argError_of_number _ hb]

theorem floorDiv_ne_notNumber (F : FloatOps) (a b : Value) (ha : a.isNumber = true) (hb : b.isNumber = true) :
    floorDiv F a b ≠ .error .notNumber := by
  unfold floorDiv
  split
  · split
    · simp
    · split
      · simp
      · split
        · split <;> simp
        · simp
  · simp [argError_of_number _ ha]
  · simp [argError_of_number _ hb]

theorem div_ne_notNumber (F : FloatOps) (a b : Value) (ha : a.isNumber = true) (hb : b.isNumber = true) :
    div F a b ≠ .error .notNumber := by
  unfold div
  split
  · split <;> simp
  · simp [argError_of_number _ ha]
  · simp [argError_of_number _ hb]

theorem pow_ne_notNumber (F : FloatOps) (a b : Value) (ha : a.isNumber = true) (hb : b.isNumber = true) :
    pow F a b ≠ .error .notNumber := by
  unfold pow
  split
  · simp only []
    repeat' split
    all_goals simp
  · simp [argError_of_number _ ha]
  · simp [argError_of_number _ hb]

theorem negate_notNumber_iff (F : FloatOps) (v : Value) :
    negate F v = .error .notNumber ↔ v.isNumber = false := by
  unfold negate
  split
  · rename_i x h
    have : v.isNumber = true := by
      cases v <;> simp_all [Value.asNumber, Value.asI128, Value.intVal, Value.isNumber]
    simp [this]
  · rename_i i h
    have : v.isNumber = true := by
      cases v <;> simp_all [Value.asNumber, Value.asI128, Value.intVal, Value.isNumber]
    split <;> simp [this]
  · cases h : v.isNumber <;> simp

end Tera
