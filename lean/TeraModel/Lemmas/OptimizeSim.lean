/-
Helper lemmas for C09: the pc-simulation between a chunk and its optimised version on the
interpreter loop of Model/ChunkVm.lean.
-/
import TeraModel.Model.ChunkVm
import TeraModel.Lemmas.Optimize
import TeraModel.Lemmas.OptimizeSem
namespace Tera
namespace ChunkVm
open Tera.Optimize Tera.PathVm

/-- `index_map[t]` (0 when out of range) -/
def imapFn (c : List Entry) (t : Nat) : Nat := (indexMap c).getD t 0

/-- what `Chunk::optimize` stores when it does not panic -/
def optCode (c : List Entry) : List Entry :=
  ((groups c).map (·.out)).map (remapTotal (indexMap c))

/-- old index `pc` is the first instruction of group number `pc'` (or both are one past the end) -/
def PcRel (c : List Entry) (pc pc' : Nat) : Prop :=
  pc' ≤ (groups c).length ∧ ((groups c).take pc').flatMap (·.orig) = c.take pc ∧ pc ≤ c.length

theorem groups_concat (c : List Entry) : (groups c).flatMap (·.orig) = c :=
  (loop_parsed (isTarget c) c.length 0 c (Nat.le_refl _)).concat

theorem groups_shape (c : List Entry) : ∀ g ∈ groups c, GroupShape g :=
  (loop_parsed (isTarget c) c.length 0 c (Nat.le_refl _)).shapes

theorem PcRel_zero (c : List Entry) : PcRel c 0 0 := ⟨Nat.zero_le _, by simp, Nat.zero_le _⟩

theorem optCode_length (c : List Entry) : (optCode c).length = (groups c).length := by
  simp [optCode]

theorem optCode_get (c : List Entry) (k : Nat) (g : Group) (h : (groups c)[k]? = some g) :
    (optCode c)[k]? = some (remapTotal (indexMap c) g.out) := by
  simp [optCode, h]

/-- list surgery: the group that starts at a boundary -/
theorem group_at (c : List Entry) (pc pc' : Nat) (h : PcRel c pc pc') (hlt : pc < c.length) :
    ∃ g, (groups c)[pc']? = some g ∧ c.drop pc = g.orig ++ c.drop (pc + g.orig.length) ∧
      PcRel c (pc + g.orig.length) (pc' + 1) := by
  obtain ⟨hle, htake, _⟩ := h
  have hcat := groups_concat c
  -- the groups from pc' on are the instructions from pc on
  have hsplit : (groups c).flatMap (·.orig)
      = ((groups c).take pc').flatMap (·.orig) ++ ((groups c).drop pc').flatMap (·.orig) := by
    rw [← List.flatMap_append, List.take_append_drop]
  have hdrop : ((groups c).drop pc').flatMap (·.orig) = c.drop pc := by
    have h1 : c.take pc ++ ((groups c).drop pc').flatMap (·.orig) = c.take pc ++ c.drop pc := by
      rw [List.take_append_drop, ← htake, ← hsplit, hcat]
    exact List.append_cancel_left h1
  have hne : c.drop pc ≠ [] := by
    intro h0
    have := congrArg List.length h0
    simp at this; omega
  cases hd : (groups c).drop pc' with
  | nil => rw [hd] at hdrop; exact absurd hdrop.symm (by simpa using hne)
  | cons g rest =>
    have hg : (groups c)[pc']? = some g := by
      have := @List.getElem?_drop _ (groups c) pc' 0
      rw [hd] at this; simpa using this.symm
    have hlt' : pc' < (groups c).length := (List.getElem?_eq_some_iff.mp hg).1
    rw [hd] at hdrop
    simp only [List.flatMap_cons] at hdrop
    have hlen : g.orig.length ≤ (c.drop pc).length := by
      rw [← hdrop]; simp
    have hrest : rest.flatMap (·.orig) = c.drop (pc + g.orig.length) := by
      have : c.drop (pc + g.orig.length) = (c.drop pc).drop g.orig.length := by
        rw [List.drop_drop]
      rw [this, ← hdrop, List.drop_left]
    refine ⟨g, hg, by rw [← hrest]; exact hdrop.symm, by omega, ?_, ?_⟩
    · have h2 : (groups c).take (pc' + 1) = (groups c).take pc' ++ [g] := by
        rw [List.take_add_one, hg]; rfl
      rw [h2, List.flatMap_append, htake]
      simp only [List.flatMap_cons, List.flatMap_nil, List.append_nil]
      have h3 : c.take (pc + g.orig.length) = c.take pc ++ (c.drop pc).take g.orig.length := by
        rw [List.take_add]
      rw [h3, ← hdrop, List.take_left]
    · simp at hlen; omega

/-- at the end of the old code the new code ends too -/
theorem at_end (c : List Entry) (pc' : Nat) (h : PcRel c c.length pc') : pc' = (groups c).length := by
  obtain ⟨hle, htake, _⟩ := h
  apply Classical.byContradiction
  intro hne
  have hlt : pc' < (groups c).length := by omega
  have hcat := groups_concat c
  have hsplit : (groups c).flatMap (·.orig)
      = ((groups c).take pc').flatMap (·.orig) ++ ((groups c).drop pc').flatMap (·.orig) := by
    rw [← List.flatMap_append, List.take_append_drop]
  rw [htake, hcat, List.take_length] at hsplit
  have h0 : ((groups c).drop pc').flatMap (·.orig) = [] := by
    have := congrArg List.length hsplit
    simp only [List.length_append] at this
    exact List.eq_nil_of_length_eq_zero (by omega)
  cases hd : (groups c).drop pc' with
  | nil =>
    have := congrArg List.length hd
    simp at this; omega
  | cons g rest =>
    rw [hd] at h0
    simp only [List.flatMap_cons, List.append_eq_nil_iff] at h0
    have hg : g ∈ groups c := List.mem_of_mem_drop (by rw [hd]; simp)
    exact (groups_shape c g hg).orig_ne_nil h0.1

/-! ## Related configurations -/

variable {V σ : Type}

/-- every jump operand is an instruction index or the one-past-the-end index -/
def TargetsOk (c : List Entry) : Prop := ∀ e ∈ c, ∀ t, e.1.target? = some t → t ≤ c.length

/-- same value stack, same state; the stored loop ends are mapped by `index_map` and each of them
is the start of a group -/
def CfgRel (c : List Entry) (a b : Cfg V σ) : Prop :=
  b.stack = a.stack ∧ b.s = a.s ∧ b.ends = a.ends.map (imapFn c) ∧
    ∀ e ∈ a.ends, PcRel c e (imapFn c e)

theorem imapFn_of_get (c : List Entry) (t k : Nat) (h : (indexMap c)[t]? = some k) :
    imapFn c t = k := by
  simp [imapFn, List.getD, h]

theorem PcRel_target (c : List Entry) (hr : TargetsOk c) (e : Entry) (he : e ∈ c) (t : Nat)
    (ht : e.1.target? = some t) : PcRel c t (imapFn c t) := by
  have hp : Parsed (isTarget c) 0 c (groups c) := loop_parsed (isTarget c) c.length 0 c (Nat.le_refl _)
  have hle := hr e he t ht
  by_cases hlt : t < c.length
  · have hT : isTarget c (0 + t) = true := by
      simp only [Nat.zero_add, isTarget, hlt, decide_true, Bool.true_and]
      exact List.any_eq_true.mpr ⟨e, he, by simp [ht]⟩
    obtain ⟨m, hm, hlook, htake⟩ := indexMapGo_boundary (isTarget c) (groups c) 0 0 t hp.noInterior
      (fun g hg => (hp.shapes g hg).orig_ne_nil) (by rw [hp.concat]; exact hlt) hT
    have hk : imapFn c t = m := imapFn_of_get c t m (by simpa [indexMap] using hlook)
    rw [hk]
    refine ⟨by change m ≤ (groups c).length; omega, ?_, hle⟩
    change ((groups c).take m).flatMap (·.orig) = c.take t
    rw [htake, hp.concat]
  · have : t = c.length := by omega
    subst this
    have hlast := indexMapGo_last (groups c) 0
    rw [hp.concat] at hlast
    have hk : imapFn c c.length = (groups c).length :=
      imapFn_of_get c _ _ (by simpa [indexMap] using hlast)
    rw [hk]
    exact ⟨Nat.le_refl _, by simp [groups_concat c], Nat.le_refl _⟩

theorem imapFn_zero (c : List Entry) : imapFn c 0 = 0 := by
  unfold imapFn indexMap
  cases hg : groups c with
  | nil => simp [indexMapGo]
  | cons g gs =>
    have hne : g.orig ≠ [] := (groups_shape c g (by rw [hg]; simp)).orig_ne_nil
    cases ho : g.orig with
    | nil => exact absurd ho hne
    | cons x xs => simp [indexMapGo, ho, List.replicate_succ]

theorem PcRel_zero_iff (c : List Entry) (e k : Nat) (h : PcRel c e k) : e = 0 ↔ k = 0 := by
  obtain ⟨hle, htake, hlen⟩ := h
  constructor
  · intro h0
    subst h0
    apply Classical.byContradiction
    intro hk
    cases hg : groups c with
    | nil => rw [hg] at hle; simp at hle; exact hk hle
    | cons g gs =>
      have hne : g.orig ≠ [] := (groups_shape c g (by rw [hg]; simp)).orig_ne_nil
      obtain ⟨k', rfl⟩ : ∃ k', k = k' + 1 := ⟨k - 1, by omega⟩
      rw [hg] at htake
      simp only [List.take_succ_cons, List.flatMap_cons, List.take_zero,
        List.append_eq_nil_iff] at htake
      exact hne htake.1
  · intro h0
    subst h0
    simp only [List.take_zero, List.flatMap_nil] at htake
    have := congrArg List.length htake
    simp only [List.length_nil, List.length_take] at this
    omega

theorem remapTotal_nonjump (imap : List Nat) (e : Entry) (h : e.1.target? = none) :
    remapTotal imap e = e := by
  obtain ⟨ins, sp⟩ := e
  simp only [remapTotal]
  rw [mapTarget_of_none _ _ h]

/-- result of one turn on the old code against one turn on the new code -/
def StepSim (c : List Entry) (ra rb : StepRes V σ) : Prop :=
  match ra with
  | .next pc1 a1 => ∃ pc1' b1, rb = .next pc1' b1 ∧ PcRel c pc1 pc1' ∧ CfgRel c a1 b1
  | .err => rb = .err
  | .panic x => rb = .panic x

theorem ofRes_sim (c : List Entry) (pc pc' : Nat) (hnext : PcRel c (pc + 1) (pc' + 1))
    (a b : Cfg V σ) (hrel : CfgRel c a b) (f : List Nat → List Nat)
    (hf : (f a.ends).map (imapFn c) = f (a.ends.map (imapFn c)))
    (hfm : ∀ e ∈ f a.ends, PcRel c e (imapFn c e)) (r : Res V σ) :
    StepSim c (ofRes pc a f r) (ofRes pc' b f r) := by
  obtain ⟨h1, h2, h3, h4⟩ := hrel
  cases r with
  | ok st s =>
    refine ⟨pc' + 1, _, rfl, hnext, rfl, rfl, ?_, hfm⟩
    simp only [h3, hf]
  | err => rfl
  | panic x => rfl

/-- An instruction kept as it is: the old instruction at a group start against the same
instruction with its jump operand mapped by `index_map`. -/
theorem keep_step (sem : Sem V σ) (c : List Entry) (hr : TargetsOk c) (e : Entry) (he : e ∈ c)
    (pc pc' : Nat) (hnext : PcRel c (pc + 1) (pc' + 1)) (a b : Cfg V σ) (hrel : CfgRel c a b) :
    StepSim c (step sem e pc a) (step sem (remapTotal (indexMap c) e) pc' b) := by
  have hrel' := hrel
  obtain ⟨h1, h2, h3, h4⟩ := hrel
  obtain ⟨ins, sp⟩ := e
  have hid : (a.ends).map (imapFn c) = id (a.ends.map (imapFn c)) := rfl
  cases ins with
  | loadName n =>
    simp only [remapTotal, Instr.mapTarget, step, h1, h2]
    exact ofRes_sim c pc pc' hnext a b hrel' id rfl h4 _
  | loadAttr x =>
    simp only [remapTotal, Instr.mapTarget, step, h1, h2]
    exact ofRes_sim c pc pc' hnext a b hrel' id rfl h4 _
  | writeTop =>
    simp only [remapTotal, Instr.mapTarget, step, h1, h2]
    exact ofRes_sim c pc pc' hnext a b hrel' id rfl h4 _
  | loadPath p =>
    simp only [remapTotal, Instr.mapTarget, step, h1, h2]
    exact ofRes_sim c pc pc' hnext a b hrel' id rfl h4 _
  | writePath p =>
    simp only [remapTotal, Instr.mapTarget, step, h1, h2]
    exact ofRes_sim c pc pc' hnext a b hrel' id rfl h4 _
  | jump t =>
    have ht := PcRel_target c hr _ he t rfl
    simp only [remapTotal, Instr.mapTarget, step]
    exact ⟨_, _, rfl, ht, hrel'⟩
  | popJumpIfFalse t =>
    have ht := PcRel_target c hr _ he t rfl
    simp only [remapTotal, Instr.mapTarget, step, h1]
    cases hs : a.stack with
    | nil => rfl
    | cons x rest =>
      obtain ⟨v, fl⟩ := x
      simp only
      by_cases hv : sem.truthy v = true
      · simp only [hv, Bool.not_true, Bool.false_eq_true, ↓reduceIte]
        exact ⟨_, _, rfl, hnext, rfl, h2, h3, h4⟩
      · simp only [hv, Bool.not_false, ↓reduceIte]
        exact ⟨_, _, rfl, ht, rfl, h2, h3, h4⟩
  | jumpIfFalseOrPop t =>
    have ht := PcRel_target c hr _ he t rfl
    simp only [remapTotal, Instr.mapTarget, step, h1]
    cases hs : a.stack with
    | nil => rfl
    | cons x rest =>
      obtain ⟨v, fl⟩ := x
      simp only
      by_cases hv : sem.truthy v = true
      · simp only [hv, Bool.not_true, Bool.false_eq_true, ↓reduceIte]
        exact ⟨_, _, rfl, hnext, rfl, h2, h3, h4⟩
      · simp only [hv, Bool.not_false, ↓reduceIte]
        exact ⟨_, _, rfl, ht, hrel'⟩
  | jumpIfTrueOrPop t =>
    have ht := PcRel_target c hr _ he t rfl
    simp only [remapTotal, Instr.mapTarget, step, h1]
    cases hs : a.stack with
    | nil => rfl
    | cons x rest =>
      obtain ⟨v, fl⟩ := x
      simp only
      by_cases hv : sem.truthy v = true
      · simp only [hv, ↓reduceIte]
        exact ⟨_, _, rfl, ht, hrel'⟩
      · simp only [hv, Bool.false_eq_true, ↓reduceIte]
        exact ⟨_, _, rfl, hnext, rfl, h2, h3, h4⟩
  | iterate t =>
    have ht := PcRel_target c hr _ he t rfl
    simp only [remapTotal, Instr.mapTarget, step, h3, h2]
    cases hs : a.ends with
    | nil => exact ⟨_, _, rfl, hnext, h1, h2, by simp [h3, hs], by simp [hs]⟩
    | cons e0 outer =>
      simp only [List.map_cons]
      by_cases ho : sem.isOver a.s = true
      · simp only [ho, ↓reduceIte]
        exact ⟨_, _, rfl, ht, hrel'⟩
      · simp only [ho, Bool.false_eq_true, ↓reduceIte]
        have he0 : PcRel c e0 (imapFn c e0) := h4 e0 (by simp [hs])
        have hz := PcRel_zero_iff c e0 _ he0
        have hflag : (imapFn c e0 != 0) = (e0 != 0) := by
          by_cases h0 : e0 = 0
          · subst h0; simp [imapFn_zero]
          · have : imapFn c e0 ≠ 0 := fun h => h0 (hz.mpr h)
            rw [bne_iff_ne.mpr this, bne_iff_ne.mpr h0]
        rw [hflag]
        refine ⟨_, _, rfl, hnext, h1, rfl, by simp [imapFn], ?_⟩
        intro x hx
        simp only [List.mem_cons] at hx
        rcases hx with rfl | hx
        · exact ht
        · exact h4 x (by simp [hs, hx])
  | other kind arg =>
    simp only [remapTotal, Instr.mapTarget, step, h1, h2, h3]
    by_cases hb : kind = "Break"
    · simp only [hb, ↓reduceIte]
      cases hs : a.ends with
      | nil => exact ⟨_, _, rfl, hnext, h1, h2, by simp [h3, hs], by simp [hs]⟩
      | cons e0 outer =>
        simp only [List.map_cons]
        exact ⟨_, _, rfl, h4 e0 (by simp [hs]), hrel'⟩
    · simp only [hb, ↓reduceIte]
      have hb' : b = ⟨a.stack, a.ends.map (imapFn c), a.s⟩ := by
        obtain ⟨bs, be, bst⟩ := b
        simp only at h1 h2 h3
        rw [h1, h2, h3]
      have key := ofRes_sim c pc pc' hnext a b hrel' (endsEffect kind) (by
        unfold endsEffect
        split
        · simp [imapFn_zero]
        · split
          · simp [List.map_tail]
          · rfl) (by
        intro x hx
        unfold endsEffect at hx
        split at hx
        · simp only [List.mem_cons] at hx
          rcases hx with rfl | hx
          · rw [imapFn_zero]; exact PcRel_zero c
          · exact h4 x hx
        · split at hx
          · exact h4 x (List.mem_of_mem_tail hx)
          · exact h4 x hx) (sem.other kind arg a.stack a.s)
      exact key

/-! ## Straight-line runs of path instructions on the old code -/

theorem step_of_path (sem : Sem V σ) (e : Entry) (pc : Nat) (cfg : Cfg V σ) (r : Res V σ)
    (h : step? sem.env e cfg.stack cfg.s = some r) : step sem e pc cfg = ofRes pc cfg id r := by
  obtain ⟨ins, sp⟩ := e
  cases ins <;> simp_all [step?, step]

theorem get_of_drop (c : List Entry) (pc : Nat) (e : Entry) (rest : List Entry)
    (h : c.drop pc = e :: rest) : c[pc]? = some e ∧ c.drop (pc + 1) = rest := by
  constructor
  · have := @List.getElem?_drop _ c pc 0
    rw [h] at this; simpa using this.symm
  · have : c.drop (pc + 1) = (c.drop pc).drop 1 := by rw [List.drop_drop]
    rw [this, h]; rfl

/-- Running the old code over a run of path instructions is `runSeq`. -/
theorem run_straight (sem : Sem V σ) (c : List Entry) : ∀ (seq : List Entry) (fuel pc : Nat)
    (cfg : Cfg V σ) (rest : List Entry) (r : RunRes V σ),
    c.drop pc = seq ++ rest →
    run sem c fuel pc cfg = r → (r = .outOfFuel → False) →
    match runSeq sem.env seq cfg.stack cfg.s with
    | some (.ok st s) => seq.length ≤ fuel ∧
        r = run sem c (fuel - seq.length) (pc + seq.length) ⟨st, cfg.ends, s⟩
    | some .err => r = .err
    | some (.panic x) => r = .panic x
    | none => True := by
  intro seq
  induction seq with
  | nil =>
    intro fuel pc cfg rest r _ hrun _
    simp only [runSeq, List.length_nil, Nat.zero_le, Nat.sub_zero, Nat.add_zero, true_and]
    exact hrun.symm
  | cons e es ih =>
    intro fuel pc cfg rest r hdrop hrun hfuel
    obtain ⟨hget, hdrop'⟩ := get_of_drop c pc e (es ++ rest) (by simpa using hdrop)
    simp only [runSeq]
    cases hs : step? sem.env e cfg.stack cfg.s with
    | none => trivial
    | some res =>
      have hstep := step_of_path sem e pc cfg res hs
      cases fuel with
      | zero =>
        simp only [run, hget] at hrun
        exact absurd hrun.symm hfuel
      | succ fuel =>
        simp only [run, hget, hstep] at hrun
        cases res with
        | ok st s =>
          simp only [ofRes, id] at hrun
          have := ih fuel (pc + 1) ⟨st, cfg.ends, s⟩ rest r hdrop' hrun hfuel
          simp only at this ⊢
          cases hq : runSeq sem.env es st s with
          | none => trivial
          | some q =>
            rw [hq] at this
            cases q with
            | ok st2 s2 =>
              simp only at this ⊢
              refine ⟨by simp only [List.length_cons]; omega, ?_⟩
              have e1 : fuel + 1 - (es.length + 1) = fuel - es.length := by omega
              have e2 : pc + (es.length + 1) = pc + 1 + es.length := by omega
              simp only [List.length_cons, e1, e2]
              exact this.2
            | err => exact this
            | panic x => exact this
        | err => simp only [ofRes] at hrun; exact hrun.symm
        | panic x => simp only [ofRes] at hrun; exact hrun.symm

/-! ## The simulation -/

/-- what the run of the new code has to do, given the result of the run of the old code -/
def SimGoal (sem : Sem V σ) (c : List Entry) (r : RunRes V σ) (fuel pc' : Nat) (b : Cfg V σ) : Prop :=
  match r with
  | .done a1 => ∃ fuel' b1, fuel' ≤ fuel ∧ run sem (optCode c) fuel' pc' b = .done b1 ∧ CfgRel c a1 b1
  | .err => ∃ fuel', fuel' ≤ fuel ∧ run sem (optCode c) fuel' pc' b = .err
  | .panic x => ∃ fuel', fuel' ≤ fuel ∧ run sem (optCode c) fuel' pc' b = .panic x
  | .outOfFuel => True

theorem SimGoal_step (sem : Sem V σ) (c : List Entry) (r : RunRes V σ) (n m pc' pc1' : Nat)
    (b b1 : Cfg V σ)
    (hrun : ∀ f, run sem (optCode c) (f + 1) pc' b = run sem (optCode c) f pc1' b1)
    (h : SimGoal sem c r n pc1' b1) (hnm : n + 1 ≤ m) : SimGoal sem c r m pc' b := by
  cases r with
  | done a1 =>
    obtain ⟨f, b2, hf, hr, hrel⟩ := h
    exact ⟨f + 1, b2, by omega, by rw [hrun f]; exact hr, hrel⟩
  | err =>
    obtain ⟨f, hf, hr⟩ := h
    exact ⟨f + 1, by omega, by rw [hrun f]; exact hr⟩
  | panic x =>
    obtain ⟨f, hf, hr⟩ := h
    exact ⟨f + 1, by omega, by rw [hrun f]; exact hr⟩
  | outOfFuel => trivial

theorem run_next (sem : Sem V σ) (c : List Entry) (pc pc1 : Nat) (e : Entry) (b b1 : Cfg V σ)
    (hget : c[pc]? = some e) (hstep : step sem e pc b = .next pc1 b1) :
    ∀ f, run sem c (f + 1) pc b = run sem c f pc1 b1 := by
  intro f; simp [run, hget, hstep]

/-- Forward simulation: whatever the run of the old code ends in (within `fuel` turns), the run
of the optimised code ends in the same, within at most as many turns. -/
theorem sim_forward (sem : Sem V σ) (c : List Entry) (hr : TargetsOk c) (hspans : PathSpans c)
    (hU : sem.env.isUndef sem.env.undef = true)
    (hA : ∀ v a, sem.env.isUndef v = true → sem.env.getAttr v a = none) :
    ∀ (fuel pc pc' : Nat) (a b : Cfg V σ), PcRel c pc pc' → CfgRel c a b →
      SimGoal sem c (run sem c fuel pc a) fuel pc' b := by
  intro fuel
  induction fuel using Nat.strongRecOn with
  | _ fuel ih =>
    intro pc pc' a b hpc hrel
    by_cases hlt : pc < c.length
    · obtain ⟨g, hg, hdrop, hnextrel⟩ := group_at c pc pc' hpc hlt
      have hopt := optCode_get c pc' g hg
      have hgm : g ∈ groups c := List.mem_of_getElem? hg
      have hgc : ∀ e ∈ g.orig, e ∈ c := by
        intro e he
        rw [← groups_concat c]
        exact List.mem_flatMap.mpr ⟨g, hgm, he⟩
      by_cases hkeep : g.orig = [g.out]
      · -- an instruction kept as it is
        rw [hkeep] at hdrop hnextrel hgc
        obtain ⟨hget, _⟩ := get_of_drop c pc g.out _ (by simpa using hdrop)
        cases fuel with
        | zero => simp [run, hget, SimGoal]
        | succ n =>
          have hk := keep_step sem c hr g.out (hgc _ (by simp)) pc pc'
            (by simpa using hnextrel) a b hrel
          simp only [run, hget]
          cases hstep : step sem g.out pc a with
          | next pc1 a1 =>
            rw [hstep] at hk
            obtain ⟨pc1', b1, hb, hpc1, hrel1⟩ := hk
            simp only
            exact SimGoal_step sem c _ n (n + 1) pc' pc1' b b1
              (run_next sem (optCode c) pc' pc1' _ b b1 hopt hb)
              (ih n (by omega) pc1 pc1' a1 b1 hpc1 hrel1) (Nat.le_refl _)
          | err =>
            rw [hstep] at hk
            simp only [StepSim] at hk
            exact ⟨1, by omega, by simp [run, hopt, hk]⟩
          | panic x =>
            rw [hstep] at hk
            simp only [StepSim] at hk
            exact ⟨1, by omega, by simp [run, hopt, hk]⟩
      · -- a fused group
        have hshape := groups_shape c g hgm
        have hsem := group_eq_runSeq c hspans sem.env hU hA g hgm a.stack a.s
        have hnj : g.out.1.target? = none := by
          cases hshape with
          | keep e => exact absurd rfl hkeep
          | path n s taken _ _ => rfl
          | write n s w taken _ => rfl
        have hpos : 1 ≤ g.orig.length := by
          have := hshape.orig_ne_nil
          exact List.length_pos_iff.mpr this
        rw [remapTotal_nonjump _ _ hnj] at hopt
        obtain ⟨h1, h2, h3, h4⟩ := hrel
        cases hrun : run sem c fuel pc a with
        | outOfFuel => trivial
        | done a1 =>
          have hs := run_straight sem c g.orig fuel pc a _ _ hdrop hrun (by intro h; cases h)
          rw [hsem] at hs
          cases hq : step? sem.env g.out a.stack a.s with
          | none =>
            -- impossible: a fused instruction is a path instruction
            cases hshape with
            | keep e => exact absurd rfl hkeep
            | path n s taken _ _ => simp [step?] at hq
            | write n s w taken _ => simp [step?] at hq
          | some res =>
            rw [hq] at hs
            have hq' : step? sem.env g.out b.stack b.s = some res := by rw [h1, h2]; exact hq
            have hstepb := step_of_path sem g.out pc' b res hq'
            cases res with
            | ok st s1 =>
              simp only at hs
              obtain ⟨hle, hr1⟩ := hs
              have hb : step sem g.out pc' b = .next (pc' + 1) ⟨st, b.ends, s1⟩ := by
                rw [hstepb]; rfl
              have hrel1 : CfgRel c (⟨st, a.ends, s1⟩ : Cfg V σ) ⟨st, b.ends, s1⟩ := ⟨rfl, rfl, h3, h4⟩
              have := ih (fuel - g.orig.length) (by omega) (pc + g.orig.length) (pc' + 1) _ _
                hnextrel hrel1
              rw [← hr1] at this
              exact SimGoal_step sem c _ (fuel - g.orig.length) fuel pc' (pc' + 1) b _
                (run_next sem (optCode c) pc' (pc' + 1) _ b _ hopt hb) this (by omega)
            | err => cases hs
            | panic x => cases hs
        | err =>
          have hs := run_straight sem c g.orig fuel pc a _ _ hdrop hrun (by intro h; cases h)
          rw [hsem] at hs
          have hfuel : 1 ≤ fuel := by
            cases fuel with
            | zero =>
              obtain ⟨hget, _⟩ : c[pc]? ≠ none ∧ True := ⟨by
                rw [List.getElem?_eq_getElem hlt]; simp, trivial⟩
              cases hc : c[pc]? with
              | none => exact absurd hc hget
              | some e => simp [run, hc] at hrun
            | succ n => omega
          cases hq : step? sem.env g.out a.stack a.s with
          | none =>
            cases hshape with
            | keep e => exact absurd rfl hkeep
            | path n s taken _ _ => simp [step?] at hq
            | write n s w taken _ => simp [step?] at hq
          | some res =>
            rw [hq] at hs
            have hq' : step? sem.env g.out b.stack b.s = some res := by rw [h1, h2]; exact hq
            have hstepb := step_of_path sem g.out pc' b res hq'
            cases res with
            | ok st s1 =>
              simp only at hs
              obtain ⟨hle, hr1⟩ := hs
              have hb : step sem g.out pc' b = .next (pc' + 1) ⟨st, b.ends, s1⟩ := by
                rw [hstepb]; rfl
              have hrel1 : CfgRel c (⟨st, a.ends, s1⟩ : Cfg V σ) ⟨st, b.ends, s1⟩ := ⟨rfl, rfl, h3, h4⟩
              have := ih (fuel - g.orig.length) (by omega) (pc + g.orig.length) (pc' + 1) _ _
                hnextrel hrel1
              rw [← hr1] at this
              exact SimGoal_step sem c _ (fuel - g.orig.length) fuel pc' (pc' + 1) b _
                (run_next sem (optCode c) pc' (pc' + 1) _ b _ hopt hb) this (by omega)
            | err =>
              have hb : step sem g.out pc' b = .err := by rw [hstepb]; rfl
              exact ⟨1, hfuel, by simp [run, hopt, hb]⟩
            | panic x => cases hs
        | panic x =>
          have hs := run_straight sem c g.orig fuel pc a _ _ hdrop hrun (by intro h; cases h)
          rw [hsem] at hs
          have hfuel : 1 ≤ fuel := by
            cases fuel with
            | zero =>
              cases hc : c[pc]? with
              | none =>
                have := List.getElem?_eq_none_iff.mp hc
                omega
              | some e => simp [run, hc] at hrun
            | succ n => omega
          cases hq : step? sem.env g.out a.stack a.s with
          | none =>
            cases hshape with
            | keep e => exact absurd rfl hkeep
            | path n s taken _ _ => simp [step?] at hq
            | write n s w taken _ => simp [step?] at hq
          | some res =>
            rw [hq] at hs
            have hq' : step? sem.env g.out b.stack b.s = some res := by rw [h1, h2]; exact hq
            have hstepb := step_of_path sem g.out pc' b res hq'
            cases res with
            | ok st s1 =>
              simp only at hs
              obtain ⟨hle, hr1⟩ := hs
              have hb : step sem g.out pc' b = .next (pc' + 1) ⟨st, b.ends, s1⟩ := by
                rw [hstepb]; rfl
              have hrel1 : CfgRel c (⟨st, a.ends, s1⟩ : Cfg V σ) ⟨st, b.ends, s1⟩ := ⟨rfl, rfl, h3, h4⟩
              have := ih (fuel - g.orig.length) (by omega) (pc + g.orig.length) (pc' + 1) _ _
                hnextrel hrel1
              rw [← hr1] at this
              exact SimGoal_step sem c _ (fuel - g.orig.length) fuel pc' (pc' + 1) b _
                (run_next sem (optCode c) pc' (pc' + 1) _ b _ hopt hb) this (by omega)
            | err => cases hs
            | panic y =>
              simp only at hs
              cases hs
              have hb : step sem g.out pc' b = .panic x := by rw [hstepb]; rfl
              exact ⟨1, hfuel, by simp [run, hopt, hb]⟩
    · -- one past the end: both runs stop
      have hpcl : pc = c.length := by have := hpc.2.2; omega
      subst hpcl
      have hend := at_end c pc' hpc
      have hnone : c[c.length]? = none := by simp
      have hnone' : (optCode c)[pc']? = none := by
        rw [hend]; simp [optCode_length]
      have : run sem c fuel c.length a = .done a := by
        cases fuel <;> simp [run]
      rw [this]
      exact ⟨0, b, Nat.zero_le _, by simp [run, hnone'], hrel⟩

/-! ## The other direction -/

/-- `runSeq` read forwards on the old code -/
theorem run_straight_fwd (sem : Sem V σ) (c : List Entry) : ∀ (seq : List Entry) (pc : Nat)
    (cfg : Cfg V σ) (rest : List Entry), c.drop pc = seq ++ rest →
    match runSeq sem.env seq cfg.stack cfg.s with
    | some (.ok st s) => ∀ f, run sem c (f + seq.length) pc cfg
        = run sem c f (pc + seq.length) ⟨st, cfg.ends, s⟩
    | some .err => run sem c seq.length pc cfg = .err
    | some (.panic x) => run sem c seq.length pc cfg = .panic x
    | none => True := by
  intro seq
  induction seq with
  | nil => intro pc cfg rest _; simp [runSeq]
  | cons e es ih =>
    intro pc cfg rest hdrop
    obtain ⟨hget, hdrop'⟩ := get_of_drop c pc e (es ++ rest) (by simpa using hdrop)
    simp only [runSeq]
    cases hs : step? sem.env e cfg.stack cfg.s with
    | none => trivial
    | some res =>
      have hstep := step_of_path sem e pc cfg res hs
      cases res with
      | ok st s =>
        have := ih (pc + 1) ⟨st, cfg.ends, s⟩ rest hdrop'
        simp only at this ⊢
        cases hq : runSeq sem.env es st s with
        | none => trivial
        | some q =>
          rw [hq] at this
          cases q with
          | ok st2 s2 =>
            simp only at this ⊢
            intro f
            have e1 : f + (e :: es).length = (f + es.length) + 1 := by simp; omega
            have e2 : pc + (e :: es).length = pc + 1 + es.length := by simp; omega
            rw [e1, e2]
            simp only [run, hget, hstep, ofRes, id]
            exact this f
          | err =>
            simp only at this ⊢
            simp only [List.length_cons, run, hget, hstep, ofRes, id]
            exact this
          | panic x =>
            simp only at this ⊢
            simp only [List.length_cons, run, hget, hstep, ofRes, id]
            exact this
      | err => simp [run, hget, hstep, ofRes]
      | panic x => simp [run, hget, hstep, ofRes]

/-- what the run of the old code has to do, given the result of the run of the new code -/
def SimGoalBack (sem : Sem V σ) (c : List Entry) (r' : RunRes V σ) (pc : Nat) (a : Cfg V σ) : Prop :=
  match r' with
  | .done b1 => ∃ fuel a1, run sem c fuel pc a = .done a1 ∧ CfgRel c a1 b1
  | .err => ∃ fuel, run sem c fuel pc a = .err
  | .panic x => ∃ fuel, run sem c fuel pc a = .panic x
  | .outOfFuel => True

theorem SimGoalBack_step (sem : Sem V σ) (c : List Entry) (r' : RunRes V σ) (k pc pc1 : Nat)
    (a a1 : Cfg V σ) (hrun : ∀ f, run sem c (f + k) pc a = run sem c f pc1 a1)
    (h : SimGoalBack sem c r' pc1 a1) : SimGoalBack sem c r' pc a := by
  cases r' with
  | done b1 =>
    obtain ⟨f, a2, hr, hrel⟩ := h
    exact ⟨f + k, a2, by rw [hrun f]; exact hr, hrel⟩
  | err => obtain ⟨f, hr⟩ := h; exact ⟨f + k, by rw [hrun f]; exact hr⟩
  | panic x => obtain ⟨f, hr⟩ := h; exact ⟨f + k, by rw [hrun f]; exact hr⟩
  | outOfFuel => trivial

/-- Backward simulation: whatever the run of the optimised code ends in, the run of the old code
ends in the same (it needs more turns: one per merged instruction). -/
theorem sim_backward (sem : Sem V σ) (c : List Entry) (hr : TargetsOk c) (hspans : PathSpans c)
    (hU : sem.env.isUndef sem.env.undef = true)
    (hA : ∀ v a, sem.env.isUndef v = true → sem.env.getAttr v a = none) :
    ∀ (fuel' pc pc' : Nat) (a b : Cfg V σ), PcRel c pc pc' → CfgRel c a b →
      SimGoalBack sem c (run sem (optCode c) fuel' pc' b) pc a := by
  intro fuel'
  induction fuel' with
  | zero =>
    intro pc pc' a b hpc hrel
    by_cases hlt : pc < c.length
    · obtain ⟨g, hg, _, _⟩ := group_at c pc pc' hpc hlt
      have hopt := optCode_get c pc' g hg
      simp [run, hopt, SimGoalBack]
    · have hpcl : pc = c.length := by have := hpc.2.2; omega
      subst hpcl
      have hend := at_end c pc' hpc
      have hnone' : (optCode c)[pc']? = none := by rw [hend]; simp [optCode_length]
      simp only [run, hnone']
      exact ⟨0, a, by simp [run], hrel⟩
  | succ n ih =>
    intro pc pc' a b hpc hrel
    by_cases hlt : pc < c.length
    · obtain ⟨g, hg, hdrop, hnextrel⟩ := group_at c pc pc' hpc hlt
      have hopt := optCode_get c pc' g hg
      have hgm : g ∈ groups c := List.mem_of_getElem? hg
      have hgc : ∀ e ∈ g.orig, e ∈ c := by
        intro e he
        rw [← groups_concat c]
        exact List.mem_flatMap.mpr ⟨g, hgm, he⟩
      by_cases hkeep : g.orig = [g.out]
      · rw [hkeep] at hdrop hnextrel hgc
        obtain ⟨hget, _⟩ := get_of_drop c pc g.out _ (by simpa using hdrop)
        have hk := keep_step sem c hr g.out (hgc _ (by simp)) pc pc'
          (by simpa using hnextrel) a b hrel
        simp only [run, hopt]
        cases hstep : step sem g.out pc a with
        | next pc1 a1 =>
          rw [hstep] at hk
          obtain ⟨pc1', b1, hb, hpc1, hrel1⟩ := hk
          rw [hb]
          simp only
          exact SimGoalBack_step sem c _ 1 pc pc1 a a1
            (run_next sem c pc pc1 _ a a1 hget hstep) (ih pc1 pc1' a1 b1 hpc1 hrel1)
        | err =>
          rw [hstep] at hk
          simp only [StepSim] at hk
          rw [hk]
          exact ⟨1, by simp [run, hget, hstep]⟩
        | panic x =>
          rw [hstep] at hk
          simp only [StepSim] at hk
          rw [hk]
          exact ⟨1, by simp [run, hget, hstep]⟩
      · have hshape := groups_shape c g hgm
        have hsem := group_eq_runSeq c hspans sem.env hU hA g hgm a.stack a.s
        have hnj : g.out.1.target? = none := by
          cases hshape with
          | keep e => exact absurd rfl hkeep
          | path n s taken _ _ => rfl
          | write n s w taken _ => rfl
        rw [remapTotal_nonjump _ _ hnj] at hopt
        obtain ⟨h1, h2, h3, h4⟩ := hrel
        have hfwd := run_straight_fwd sem c g.orig pc a _ hdrop
        rw [hsem] at hfwd
        cases hq : step? sem.env g.out a.stack a.s with
        | none =>
          cases hshape with
          | keep e => exact absurd rfl hkeep
          | path n s taken _ _ => simp [step?] at hq
          | write n s w taken _ => simp [step?] at hq
        | some res =>
          rw [hq] at hfwd
          have hq' : step? sem.env g.out b.stack b.s = some res := by rw [h1, h2]; exact hq
          have hstepb := step_of_path sem g.out pc' b res hq'
          simp only [run, hopt, hstepb]
          cases res with
          | ok st s1 =>
            simp only [ofRes, id] at hfwd ⊢
            have hrel1 : CfgRel c (⟨st, a.ends, s1⟩ : Cfg V σ) ⟨st, b.ends, s1⟩ := ⟨rfl, rfl, h3, h4⟩
            exact SimGoalBack_step sem c _ g.orig.length pc (pc + g.orig.length) a _ hfwd
              (ih (pc + g.orig.length) (pc' + 1) _ _ hnextrel hrel1)
          | err => simp only [ofRes] at hfwd ⊢; exact ⟨_, hfwd⟩
          | panic x => simp only [ofRes] at hfwd ⊢; exact ⟨_, hfwd⟩
    · have hpcl : pc = c.length := by have := hpc.2.2; omega
      subst hpcl
      have hend := at_end c pc' hpc
      have hnone' : (optCode c)[pc']? = none := by rw [hend]; simp [optCode_length]
      simp only [run, hnone']
      exact ⟨0, a, by simp [run], hrel⟩

end ChunkVm
end Tera
