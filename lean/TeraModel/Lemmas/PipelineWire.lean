/-
The chunk the composed model STORES, printed in the wire form of the dump hooks, is the optimiser
model applied to the wire form of the compiled chunk:

    wire enc (storeChunk name code) = optimize (toEntries enc code)

`Pipeline.storeChunk` runs `Optimize.optimize` on an encoding that writes the POSITION of every
opaque instruction in its payload; `Compiler.toEntries enc` writes the payload of the dump hook.
The pass never looks inside an opaque instruction, so it commutes with any renaming of the payloads
(`optimize_rename`), and the two encodings differ by such a renaming (`rename_encode`).  With this,
every theorem about `optimize (toEntries enc code)` — in particular bC_opt's
`C09WF.optimize_preserves_verify` composed in `compiled_optimized_wellformed` — is a theorem about
the chunks the composed model executes.
-/
import TeraModel.Lemmas.PipelineStore
import TeraModel.Model.PipelineWire
namespace Tera.Pipeline
open Tera Tera.Compiler Tera.Optimize

/-! ### the pass commutes with renaming the payloads of opaque instructions -/

/-- rename the (kind, payload) of the opaque instructions -/
def renI (ψ : String → String → String × String) : Instr → Instr
  | .other k a => .other (ψ k a).1 (ψ k a).2
  | i => i

def renE (ψ : String → String → String × String) (e : Entry) : Entry := (renI ψ e.1, e.2)

variable (ψ : String → String → String × String)

theorem target_renI (i : Instr) : (renI ψ i).target? = i.target? := by cases i <;> rfl

theorem mapTarget_renI (f : Nat → Nat) (i : Instr) : (renI ψ i).mapTarget f = renI ψ (i.mapTarget f) := by
  cases i <;> rfl

theorem isTarget_ren (c : List Entry) : isTarget (c.map (renE ψ)) = isTarget c := by
  funext j
  simp [isTarget, List.any_map, Function.comp_def, renE, target_renI]

theorem collectAttrs_ren (isT : Nat → Bool) : ∀ (l : List Entry) (j : Nat),
    collectAttrs isT j (l.map (renE ψ)) =
      ((collectAttrs isT j l).1, (collectAttrs isT j l).2.map (renE ψ)) := by
  intro l
  induction l with
  | nil => intro j; rfl
  | cons e rest ih =>
    intro j
    obtain ⟨i, sp⟩ := e
    simp only [List.map_cons, collectAttrs, renE]
    split
    · simp [renE]
    · cases i <;> simp [renI, renE, ih]

theorem hasWrite_ren (isT : Nat → Bool) (j : Nat) (l : List Entry) :
    hasWrite isT j (l.map (renE ψ)) = hasWrite isT j l := by
  cases l with
  | nil => rfl
  | cons e rest =>
    obtain ⟨i, sp⟩ := e
    cases i <;> simp [hasWrite, renE, renI]

def renG (g : Group) : Group := ⟨renE ψ g.out, g.orig.map (renE ψ)⟩

theorem attrEntry_ren (a : String × List Span) : renE ψ (attrEntry a) = attrEntry a := rfl

theorem map_attrEntry_ren (l : List (String × List Span)) :
    (l.map attrEntry).map (renE ψ) = l.map attrEntry := by
  induction l with
  | nil => rfl
  | cons a rest ih => simp [ih, attrEntry_ren]

theorem loop_ren (isT : Nat → Bool) : ∀ (fuel i : Nat) (l : List Entry),
    loop isT fuel i (l.map (renE ψ)) = (loop isT fuel i l).map (renG ψ) := by
  intro fuel
  induction fuel with
  | zero => intro i l; rfl
  | succ f ih =>
    intro i l
    cases l with
    | nil => rfl
    | cons e rest =>
      obtain ⟨ins, sp⟩ := e
      cases ins with
      | loadName n =>
        simp only [List.map_cons, renE, renI, loop]
        split
        · rename_i hn
          rw [collectAttrs_ren]
          simp only
          rw [hasWrite_ren]
          split
          · simp only [List.map_cons, renG, renE, renI, List.map_append, map_attrEntry_ren,
              List.map_take, List.map_drop, ← ih]
            try rfl
          · split
            · simp only [List.map_cons, renG, renE, renI, map_attrEntry_ren, ← ih]
              try rfl
            · simp only [List.map_cons, renG, renE, renI, List.map_nil, ← ih]
              try rfl
        · simp only [List.map_cons, renG, renE, renI, List.map_nil, ← ih]
          try rfl
      | _ =>
        simp only [List.map_cons, renE, renI, loop, renG, List.map_nil, ← ih]
        try rfl

theorem groups_ren (c : List Entry) : groups (c.map (renE ψ)) = (groups c).map (renG ψ) := by
  unfold groups
  rw [isTarget_ren, List.length_map, loop_ren]

theorem indexMapGo_ren : ∀ (gs : List Group) (k : Nat),
    indexMapGo k (gs.map (renG ψ)) = indexMapGo k gs := by
  intro gs
  induction gs with
  | nil => intro k; rfl
  | cons g rest ih => intro k; simp [indexMapGo, renG, ih]

theorem indexMap_ren (c : List Entry) : indexMap (c.map (renE ψ)) = indexMap c := by
  unfold indexMap
  rw [groups_ren, indexMapGo_ren]

def renO : Optimize.Outcome (List Entry) → Optimize.Outcome (List Entry)
  | .ok r => .ok (r.map (renE ψ))
  | .panic s => .panic s

theorem remapInstr_ren (imap : List Nat) (i : Instr) :
    remapInstr imap (renI ψ i) = (remapInstr imap i).map (renI ψ) := by
  unfold remapInstr
  rw [target_renI]
  cases h : i.target? with
  | none => rfl
  | some t =>
    simp only
    cases imap[t]? with
    | none => rfl
    | some k => simp [mapTarget_renI]

theorem remap_ren (imap : List Nat) : ∀ (l : List Entry),
    remap imap (l.map (renE ψ)) = renO ψ (remap imap l) := by
  intro l
  induction l with
  | nil => rfl
  | cons e rest ih =>
    simp only [List.map_cons, remap, renE]
    rw [remapInstr_ren]
    cases h : remapInstr imap e.1 with
    | none => rfl
    | some i =>
      simp only [Option.map_some]
      rw [ih]
      cases remap imap rest with
      | ok r => rfl
      | panic s => rfl

/-- **`Chunk::optimize` commutes with renaming the payloads of the instructions it does not look at** -/
theorem optimize_rename (c : List Entry) :
    optimize (c.map (renE ψ)) = renO ψ (optimize c) := by
  unfold optimize
  rw [indexMap_ren, groups_ren, List.map_map]
  have : (fun g => g.out) ∘ renG ψ = renE ψ ∘ fun g => g.out := by funext g; rfl
  rw [this, ← List.map_map, remap_ren]

/-! ### the two encodings differ by a renaming -/

/-- the payload the dump hook would print for the opaque instruction stored at the position
written in `arg` -/
def lookupPayload (enc : Enc) (code : Code) (k arg : String) : String × String :=
  match WellFormed.decNat arg.toList with
  | none => (k, arg)
  | some i =>
    match code[i]? with
    | none => (k, arg)
    | some e =>
      match e.1.toInstr enc with
      | .other k' a' => (k', a')
      | _ => (k, arg)

theorem decNat_idxArg (k : Nat) : WellFormed.decNat (idxArg k).toList = some k := by
  simp [idxArg, decNat_natDec]

theorem rename_encodeInstr (enc : Enc) (code : Code) (k : Nat) (e : CEntry) (hk : code[k]? = some e) :
    renI (lookupPayload enc code) (encodeInstr k e.1) = e.1.toInstr enc := by
  obtain ⟨ci, b⟩ := e
  cases ci <;> first
    | rfl
    | (simp only [encodeInstr, renI, lookupPayload, decNat_idxArg, hk, CInstr.toInstr])

theorem rename_encodeFrom (enc : Enc) (code : Code) : ∀ (rest : Code) (i : Nat),
    (∀ k e, rest[k]? = some e → code[i + k]? = some e) →
    (encodeFrom i rest).map (renE (lookupPayload enc code)) =
      rest.map fun e => (e.1.toInstr enc, if e.2 then ["s"] else []) := by
  intro rest
  induction rest with
  | nil => intro i _; rfl
  | cons e tl ih =>
    intro i h
    simp only [encodeFrom, List.map_cons, renE, spansOf]
    rw [rename_encodeInstr enc code i e (by simpa using h 0 e rfl)]
    rw [ih (i + 1) (fun k e' hk => by
      have := h (k + 1) e' (by simpa using hk)
      rwa [Nat.add_assoc, Nat.add_comm 1 k])]

/-- renaming the positional payloads gives the wire form of the compiled chunk -/
theorem rename_encode (enc : Enc) (code : Code) :
    (encode code).map (renE (lookupPayload enc code)) = toEntries enc code := by
  unfold encode toEntries
  exact rename_encodeFrom enc code code 0 (fun k e h => by simpa using h)

/-! ### the wire form of the stored chunk -/

/-- the typed form of a compiled instruction prints as the compiled instruction does -/
theorem wireV_vinstr (enc : Enc) (ci : CInstr) (v : Vm.VInstr) (h : vinstr ci = some v) :
    wireV enc v = ci.toInstr enc := by
  cases ci <;> simp only [vinstr, Option.some.injEq] at h <;> try (subst h; rfl)
  case writeText s => subst h; simp [wireV, CInstr.toInstr]
  case binop op =>
    cases op <;> simp only [Option.some.injEq] at h <;> first
      | (subst h; rfl)
      | cases h

/-- an encoded instruction (possibly with its jump operand rewritten) decodes to a typed
instruction that prints as the compiled instruction does (with the same rewriting) -/
theorem wireV_decode_encoded (enc : Enc) (code : Code) (k : Nat) (e : CEntry) (hk : code[k]? = some e)
    (f : Nat → Nat) (v : Vm.VInstr)
    (h : decodeInstr code ((encodeInstr k e.1).mapTarget f) = some v) :
    wireV enc v = (e.1.toInstr enc).mapTarget f := by
  obtain ⟨ci, b⟩ := e
  have hother : ∀ (hci : encodeInstr k ci = .other "#" (idxArg k)), vinstr ci = some v := by
    intro hci
    rw [hci] at h
    simpa [Instr.mapTarget, decodeInstr, decNat_idxArg, hk] using h
  cases ci <;> first
    | (simp only [encodeInstr, Instr.mapTarget, decodeInstr, Option.some.injEq] at h; subst h; rfl)
    | (have hv := hother rfl
       rw [wireV_vinstr enc _ v hv]
       rfl)

/-- every instruction of the optimised encoded chunk decodes to a typed instruction that prints
as the renamed instruction -/
theorem wire_of_optimized (enc : Enc) (code : Code) (r : List Entry)
    (hopt : optimize (encode code) = .ok r) :
    ∀ x ∈ r, ∀ v, decodeInstr code x.1 = some v → wireV enc v = renI (lookupPayload enc code) x.1 := by
  rw [C09.optimize_ok _ _ hopt]
  intro x hx v hv
  simp only [List.mem_map] at hx
  obtain ⟨_, ⟨g, hg, rfl⟩, rfl⟩ := hx
  have hp := C09.groups_parsed (encode code)
  have hshape := hp.shapes g hg
  cases hshape with
  | keep e =>
    have he : e ∈ encode code := by
      rw [← hp.concat]
      exact List.mem_flatMap.mpr ⟨_, hg, by simp⟩
    obtain ⟨k, y, hk, rfl⟩ := mem_encode he
    simp only [remapTotal] at hv ⊢
    rw [wireV_decode_encoded enc code k y hk _ v hv, ← mapTarget_renI, rename_encodeInstr enc code k y hk]
  | path n s taken _ _ =>
    simp only [remapTotal, Instr.mapTarget, decodeInstr, Option.some.injEq] at hv
    subst hv; rfl
  | write n s w taken _ =>
    simp only [remapTotal, Instr.mapTarget, decodeInstr, Option.some.injEq] at hv
    subst hv; rfl

theorem decodeAll_wire (enc : Enc) (code : Code) : ∀ (r : List Entry) (vs : List Vm.VEntry),
    (∀ x ∈ r, ∀ v, decodeInstr code x.1 = some v → wireV enc v = renI (lookupPayload enc code) x.1) →
    decodeAll code r = some vs → wireChunk enc vs = r.map (renE (lookupPayload enc code)) := by
  intro r
  induction r with
  | nil => intro vs _ h; simp only [decodeAll, Option.some.injEq] at h; subst h; rfl
  | cons x rest ih =>
    intro vs hall h
    simp only [decodeAll, decodeEntry] at h
    cases h1 : decodeInstr code x.1 with
    | none => simp [h1] at h
    | some v =>
      cases h2 : decodeAll code rest with
      | none => simp [h1, h2] at h
      | some vs' =>
        simp only [h1, h2, Option.map_some, Option.some.injEq] at h
        subst h
        have hx := hall x List.mem_cons_self v h1
        have hrest := ih vs' (fun y hy => hall y (List.mem_cons_of_mem _ hy)) h2
        simp only [wireChunk, List.map_cons, renE] at hrest ⊢
        rw [hx, hrest]

/-- **The stored chunk, printed, is the optimiser applied to the printed compiled chunk.** -/
theorem storeChunk_wire (enc : Enc) (name : String) (code : Code) (ch : Vm.Chunk)
    (h : storeChunk name code = .ok ch) :
    optimize (toEntries enc code) = .ok (wireChunk enc ch.code) := by
  unfold storeChunk at h
  cases hopt : optimize (encode code) with
  | panic s => simp [hopt] at h
  | ok r =>
    simp only [hopt] at h
    cases hdec : decodeAll code r with
    | none => simp [hdec] at h
    | some vs =>
      simp only [hdec, Stored.ok.injEq] at h
      subst h
      rw [← rename_encode enc code, optimize_rename, hopt]
      simp only [renO]
      rw [decodeAll_wire enc code r vs (wire_of_optimized enc code r hopt) hdec]

end Tera.Pipeline
