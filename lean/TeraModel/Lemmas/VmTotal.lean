/-
T1 (`vm_step_total`): no arm of the value-level VM (Model/Vm.lean `step`) ends in a panic when the
instruction's operands are there.  This file has the precondition (`StepPre`: arity of the three
stacks, the array under `AppendToList`, the kwargs map under a call, registered names, spans of
the operands an error would be reported on, …) and one lemma per arm; the theorem itself is in
Props/C07Vm.lean.
-/
import TeraModel.Model.Vm
namespace Tera.Vm
open Tera

def StepRes.isPanic : StepRes → Bool
  | .panic _ => true
  | _ => false

def RunRes.isPanic : RunRes → Bool
  | .panic _ => true
  | _ => false

def CallRes.isPanic : CallRes → Bool
  | .panic _ => true
  | _ => false

/-- number of value-stack slots the arm of an instruction pops or peeks -/
def stackNeed : VInstr → Nat
  | .loadAttr .. | .not_ | .negative | .callFunction _ | .writeTop | .set .. | .popJumpIfFalse _
  | .jumpIfFalseOrPop _ | .jumpIfTrueOrPop _ | .startIterate .. => 1
  | .renderComponent _ hasBody => if hasBody then 2 else 1
  | .binarySubscript _ | .applyFilter _ | .runTest _ | .math _ | .plus | .cmp _ | .equal _
  | .strConcat | .in_ | .appendToList => 2
  | .slice _ => 4
  | .buildMap n => 2 * n
  | .buildList n => n
  | .buildMapWithSpreads flags => spreadPops flags
  | .buildListWithSpreads flags => flags.length
  | _ => 0

/-- arms that call `kwargs.into_map()` / `into_map_arc()` and `expect` / `unwrap` the result -/
def needsKwargs : VInstr → Bool
  | .callFunction n => n != "super"
  | .applyFilter _ | .runTest _ | .renderComponent .. => true
  | _ => false

/-- arms that report an error on `current_ip..=current_ip` -/
def usesOwnSpan : VInstr → Bool
  | .callFunction _ | .applyFilter _ | .runTest _ | .renderComponent .. => true
  | _ => false

/-- "span presence": `expand_span` finds a span for the range of every operand the arm pops (its
errors are reported on those, or on their combination), the instruction itself has a span when the
arm reports on `current_ip`, and a fused path instruction has one span per path element. -/
def SpanOK (c : Chunk) (i : VInstr) (pc : Nat) (st : State) : Prop :=
  (∀ s ∈ st.stack.take (stackNeed i), c.expandSpan s.2 = true) ∧
  (usesOwnSpan i = true → c.hasSpan pc = true) ∧
  (∀ p, (i = .loadPath p ∨ i = .writePath p) → ∀ k, k < p.length → c.hasSpanAt pc k = true)

/-- every name an instruction looks up without a fallback is there -/
def NamesOK (env : Env) (vm : VmCtx) : VInstr → Prop
  | .applyFilter n => env.hasFilter n = true
  | .runTest n => env.hasTest n = true
  | .callFunction n => n = "super" ∨ env.hasFunction n = true
  | .renderComponent n _ => (assoc n env.components).isSome = true ∨ (assoc n vm.template.components).isSome = true
  | .loadPath p | .writePath p => p ≠ []
  | _ => True

/-- the registered built-ins do not panic -/
def BuiltinsTotal (env : Env) : Prop :=
  (∀ n v kw, (env.callFilter n v kw).isPanic = false) ∧
  (∀ n v kw, (env.callTest n v kw).isPanic = false) ∧
  (∀ n kw, (env.callFunction n kw).isPanic = false)

/-- what `step` needs of the nested `interpret`: it does not panic, and it returns with as many
entries on the block stack as it was given (`state.blocks[pos]` after `super()`) -/
def RecOK (rec : VmCtx → Chunk → State → RunRes) : Prop :=
  (∀ vm c st, (rec vm c st).isPanic = false) ∧
  (∀ vm c st st', rec vm c st = .done st' → st'.blocks.length = st.blocks.length)

/-- `current_block_name` names an entry of the block stack -/
def BlocksOK (st : State) : Prop :=
  ∀ cur, st.currentBlockName = some cur → ∃ entry ∈ st.blocks, entry.1 = cur

/-- The precondition of `vm_step_total`. -/
structure StepPre (rec : VmCtx → Chunk → State → RunRes) (env : Env) (vm : VmCtx) (c : Chunk)
    (i : VInstr) (pc : Nat) (st : State) : Prop where
  /-- the value stack holds the operands -/
  arity : stackNeed i ≤ st.stack.length
  /-- `EndCapture` has a capture buffer to pop -/
  caps : i = .endCapture → st.captures ≠ []
  /-- `AppendToList`: the slot under the top is an array -/
  append : i = .appendToList → ∀ v s, st.stack[1]? = some (v, s) → ∃ xs, v = .arr xs
  /-- the kwargs of a call are a map -/
  kwargs : needsKwargs i = true → ∀ v s, st.stack[0]? = some (v, s) → v.isMap = true
  names : NamesOK env vm i
  spans : SpanOK c i pc st
  /-- `report_target`: the chunk's template is registered -/
  target : reportTargetOk env vm c = true
  blocks : BlocksOK st
  builtins : BuiltinsTotal env
  recOk : RecOK rec

/-! ### spans -/

theorem expandSpan_ends {c : Chunk} {r : SpanRange} (h : c.expandSpan r = true) :
    c.hasSpan r.1 = true ∧ c.hasSpan r.2 = true := by
  simp only [Chunk.expandSpan, Bool.and_eq_true, Bool.or_eq_true, beq_iff_eq] at h
  rcases h with ⟨h1, h2 | h2⟩
  · exact ⟨h1, h2 ▸ h1⟩
  · exact ⟨h1, h2⟩

theorem expandSpan_combine {c : Chunk} {a b : SpanRange} (ha : c.expandSpan a = true)
    (hb : c.expandSpan b = true) : c.expandSpan (combineSpans a b) = true := by
  obtain ⟨ha1, ha2⟩ := expandSpan_ends ha
  obtain ⟨hb1, hb2⟩ := expandSpan_ends hb
  simp only [Chunk.expandSpan, combineSpans, Bool.and_eq_true, Bool.or_eq_true, beq_iff_eq]
  refine ⟨?_, Or.inr ?_⟩
  · rcases Nat.le_total a.1 b.1 with h | h
    · rw [Nat.min_eq_left h]; exact ha1
    · rw [Nat.min_eq_right h]; exact hb1
  · rcases Nat.le_total a.2 b.2 with h | h
    · rw [Nat.max_eq_right h]; exact hb2
    · rw [Nat.max_eq_left h]; exact ha2

theorem expandSpan_self {c : Chunk} {pc : Nat} (h : c.hasSpan pc = true) : c.expandSpan (pc, pc) = true := by
  simp [Chunk.expandSpan, h]

theorem raise_noPanic {env : Env} {vm : VmCtx} {c : Chunk} (ht : reportTargetOk env vm c = true)
    (e : RErr) : (raise env vm c e).isPanic = false := by
  simp [raise, ht, StepRes.isPanic]

theorem renderingError_noPanic {env : Env} {vm : VmCtx} {c : Chunk} (ht : reportTargetOk env vm c = true)
    {r : SpanRange} (hr : c.expandSpan r = true) (e : RErr) :
    (renderingError env vm c r e).isPanic = false := by
  simp [renderingError, hr, raise_noPanic ht]

theorem errorAt_noPanic {env : Env} {vm : VmCtx} {c : Chunk} (ht : reportTargetOk env vm c = true)
    {pc k : Nat} (hk : c.hasSpanAt pc k = true) (site : String) (e : RErr) :
    (errorAt env vm c pc k site e).isPanic = false := by
  simp [errorAt, hk, raise_noPanic ht]

/-! ### one lemma per arm -/

section arms
variable {env : Env} {vm : VmCtx} {c : Chunk} {pc : Nat} {st : State}

theorem take1_span {stk : List Slot} {a : Slot} {rest : List Slot} (hs : stk = a :: rest)
    (h : ∀ s ∈ stk.take 1, c.expandSpan s.2 = true) : c.expandSpan a.2 = true := by
  subst hs; exact h a (by simp)

theorem take2_span {stk : List Slot} {a b : Slot} {rest : List Slot} (hs : stk = a :: b :: rest)
    (h : ∀ s ∈ stk.take 2, c.expandSpan s.2 = true) :
    c.expandSpan a.2 = true ∧ c.expandSpan b.2 = true := by
  subst hs; exact ⟨h a (by simp), h b (by simp)⟩

theorem stepLoadAttr_noPanic (attr : String) (opt : Bool) (ht : reportTargetOk env vm c = true)
    (ha : 1 ≤ st.stack.length) (hsp : ∀ s ∈ st.stack.take 1, c.expandSpan s.2 = true) :
    (stepLoadAttr env vm c attr opt pc st).isPanic = false := by
  unfold stepLoadAttr
  rcases hs : st.stack with _ | ⟨⟨a, sa⟩, rest⟩
  · simp [hs] at ha
  · have h1 := take1_span hs hsp
    simp only
    split
    · rfl
    · split
      · exact renderingError_noPanic ht h1 _
      · rfl

theorem stepSubscript_noPanic (opt : Bool) (ht : reportTargetOk env vm c = true)
    (ha : 2 ≤ st.stack.length) (hsp : ∀ s ∈ st.stack.take 2, c.expandSpan s.2 = true) :
    (stepSubscript env vm c opt pc st).isPanic = false := by
  unfold stepSubscript
  rcases hs : st.stack with _ | ⟨⟨a, sa⟩, _ | ⟨⟨b, sb⟩, rest⟩⟩
  · simp [hs] at ha
  · simp [hs] at ha
  · obtain ⟨h1, h2⟩ := take2_span hs hsp
    simp only
    split
    · rfl
    · split
      · exact renderingError_noPanic ht h2 _
      · split
        · exact renderingError_noPanic ht h1 _
        · split
          · rfl
          · exact renderingError_noPanic ht h1 _

theorem stepSlice_noPanic (opt : Bool) (ht : reportTargetOk env vm c = true)
    (ha : 4 ≤ st.stack.length) (hsp : ∀ s ∈ st.stack.take 4, c.expandSpan s.2 = true) :
    (stepSlice env vm c opt pc st).isPanic = false := by
  unfold stepSlice
  rcases hs : st.stack with _ | ⟨⟨a, sa⟩, _ | ⟨⟨b, sb⟩, _ | ⟨⟨d, sd⟩, _ | ⟨⟨e, se⟩, rest⟩⟩⟩⟩
  · simp [hs] at ha
  · simp [hs] at ha
  · simp [hs] at ha
  · simp [hs] at ha
  · rw [hs] at hsp
    have h1 : c.expandSpan sa = true := hsp (a, sa) (by simp)
    have h2 : c.expandSpan sb = true := hsp (b, sb) (by simp)
    have h3 : c.expandSpan sd = true := hsp (d, sd) (by simp)
    have h4 : c.expandSpan se = true := hsp (e, se) (by simp)
    simp only
    split
    · rfl
    · split
      · exact renderingError_noPanic ht h4 _
      · split
        · exact renderingError_noPanic ht h3 _
        · split
          · exact renderingError_noPanic ht h2 _
          · split
            · exact renderingError_noPanic ht h1 _
            · split
              · rfl
              · exact renderingError_noPanic ht h4 _

theorem stepWriteTop_noPanic (ht : reportTargetOk env vm c = true)
    (ha : 1 ≤ st.stack.length) (hsp : ∀ s ∈ st.stack.take 1, c.expandSpan s.2 = true) :
    (stepWriteTop env vm c pc st).isPanic = false := by
  unfold stepWriteTop
  rcases hs : st.stack with _ | ⟨⟨a, sa⟩, rest⟩
  · simp [hs] at ha
  · have h1 := take1_span hs hsp
    simp only
    split
    · exact renderingError_noPanic ht h1 _
    · rfl

theorem stepSet_noPanic (n : String) (g : Bool) (ha : 1 ≤ st.stack.length) :
    (stepSet n g pc st).isPanic = false := by
  unfold stepSet
  rcases hs : st.stack with _ | ⟨⟨a, sa⟩, rest⟩
  · simp [hs] at ha
  · rfl

/-! popping loops -/

def PopRes.isPanic {α : Type} : PopRes α → Bool
  | .panic _ => true
  | _ => false

theorem popPairs_noPanic : ∀ (n : Nat) (stk : List Slot) (acc : List (Key × Value)),
    2 * n ≤ stk.length → (popPairs n stk acc).isPanic = false
  | 0, _, _, _ => rfl
  | n + 1, [], _, h => by simp at h
  | n + 1, [_], _, h => by simp at h; omega
  | n + 1, (v, _) :: (k, _) :: rest, acc, h => by
    unfold popPairs
    split
    · rfl
    · exact popPairs_noPanic n rest _ (by simp at h; omega)

theorem popPairs_rest : ∀ (n : Nat) (stk : List Slot) (acc elems : List (Key × Value)) (rest : List Slot),
    popPairs n stk acc = .ok elems rest → rest = stk.drop (2 * n)
  | 0, _, _, _, _, h => by simp [popPairs] at h; simp [h.2]
  | n + 1, [], _, _, _, h => by simp [popPairs] at h
  | n + 1, [_], _, _, _, h => by simp [popPairs] at h
  | n + 1, (v, _) :: (k, _) :: tl, acc, elems, rest, h => by
    unfold popPairs at h
    split at h
    · cases h
    · have := popPairs_rest n tl _ elems rest h
      rw [this, show 2 * (n + 1) = 2 * n + 2 by omega]
      simp [List.drop_succ_cons]

theorem stepBuildMap_noPanic (n : Nat) (ha : 2 * n ≤ st.stack.length) :
    (stepBuildMap n pc st).isPanic = false := by
  unfold stepBuildMap
  split
  · rfl
  · have := popPairs_noPanic n st.stack [] ha
    split <;> simp_all [PopRes.isPanic, StepRes.isPanic]

theorem popN_noPanic : ∀ (n : Nat) (stk : List Slot) (acc : List Value),
    n ≤ stk.length → (popN n stk acc).isPanic = false
  | 0, _, _, _ => rfl
  | n + 1, [], _, h => by simp at h
  | n + 1, (v, _) :: rest, acc, h => by
    unfold popN
    exact popN_noPanic n rest _ (by simp at h; omega)

theorem stepBuildList_noPanic (n : Nat) (ha : n ≤ st.stack.length) :
    (stepBuildList n pc st).isPanic = false := by
  unfold stepBuildList
  have := popN_noPanic n st.stack [] ha
  split <;> simp_all [PopRes.isPanic, StepRes.isPanic]

/-- slots a (reversed or not) spread vector pops -/
def popsOf (flags : List Bool) : Nat := (flags.map fun b => if b then 1 else 2).sum

theorem spreadPops_go' (flags : List Bool) (n : Nat) :
    flags.foldl (fun n b => n + (if b then 1 else 2)) n = n + popsOf flags := by
  induction flags generalizing n with
  | nil => simp [popsOf]
  | cons b bs ih =>
    simp only [List.foldl_cons, ih, popsOf, List.map_cons, List.sum_cons]
    omega

theorem spreadPops_eq (flags : List Bool) : spreadPops flags = popsOf flags := by
  simp [spreadPops, spreadPops_go']

theorem popsOf_reverse (flags : List Bool) : popsOf flags.reverse = popsOf flags := by
  simp [popsOf, List.sum_reverse]

def sumIsPanic {α : Type} : StepRes ⊕ α → Bool
  | .inl r => r.isPanic
  | .inr _ => false

theorem popsOf_true (fs : List Bool) : popsOf (true :: fs) = popsOf fs + 1 := by
  simp [popsOf, Nat.add_comm]

theorem popsOf_false (fs : List Bool) : popsOf (false :: fs) = popsOf fs + 2 := by
  simp [popsOf, Nat.add_comm]

theorem popSpreadMap_noPanic (ht : reportTargetOk env vm c = true) :
    ∀ (flags : List Bool) (stk : List Slot) (acc : Entries),
    popsOf flags ≤ stk.length → (∀ s ∈ stk.take (popsOf flags), c.expandSpan s.2 = true) →
    sumIsPanic (popSpreadMap env vm c flags stk acc) = false
  | [], _, _, _, _ => rfl
  | true :: fs, [], _, h, _ => by rw [popsOf_true] at h; simp at h
  | true :: fs, (v, span) :: rest, acc, h, hsp => by
    rw [popsOf_true] at h hsp
    have hspan : c.expandSpan span = true := hsp (v, span) (by simp)
    have hrest : ∀ s ∈ rest.take (popsOf fs), c.expandSpan s.2 = true := by
      intro s hs
      apply hsp s
      rw [List.take_succ_cons]; exact List.mem_cons_of_mem _ hs
    have hlen : popsOf fs ≤ rest.length := by simp at h; omega
    simp only [popSpreadMap]
    cases v <;> first
      | exact popSpreadMap_noPanic ht fs rest _ hlen hrest
      | exact renderingError_noPanic ht hspan _
  | false :: fs, [], _, h, _ => by rw [popsOf_false] at h; simp at h
  | false :: fs, [_], _, h, _ => by rw [popsOf_false] at h; simp at h
  | false :: fs, (v, _) :: (k, _) :: rest, acc, h, hsp => by
    rw [popsOf_false] at h hsp
    have hrest : ∀ s ∈ rest.take (popsOf fs), c.expandSpan s.2 = true := by
      intro s hs
      apply hsp s
      rw [List.take_succ_cons, List.take_succ_cons]
      exact List.mem_cons_of_mem _ (List.mem_cons_of_mem _ hs)
    have hlen : popsOf fs ≤ rest.length := by simp at h; omega
    simp only [popSpreadMap]
    split
    · rfl
    · exact popSpreadMap_noPanic ht fs rest _ hlen hrest

theorem stepBuildMapWithSpreads_noPanic (flags : List Bool) (ht : reportTargetOk env vm c = true)
    (ha : spreadPops flags ≤ st.stack.length)
    (hsp : ∀ s ∈ st.stack.take (spreadPops flags), c.expandSpan s.2 = true) :
    (stepBuildMapWithSpreads env vm c flags pc st).isPanic = false := by
  unfold stepBuildMapWithSpreads
  rw [spreadPops_eq, ← popsOf_reverse] at ha hsp
  have := popSpreadMap_noPanic ht flags.reverse st.stack [] ha hsp
  split
  · rename_i r heq; rw [heq] at this; exact this
  · rfl

theorem popSpreadList_noPanic (ht : reportTargetOk env vm c = true) :
    ∀ (flags : List Bool) (stk : List Slot) (acc : List Value),
    flags.length ≤ stk.length → (∀ s ∈ stk.take flags.length, c.expandSpan s.2 = true) →
    sumIsPanic (popSpreadList env vm c flags stk acc) = false
  | [], _, _, _, _ => rfl
  | f :: fs, [], _, h, _ => by simp at h
  | f :: fs, (v, span) :: rest, acc, h, hsp => by
    unfold popSpreadList
    have hspan : c.expandSpan span = true := hsp (v, span) (by simp)
    have hrest : ∀ s ∈ rest.take fs.length, c.expandSpan s.2 = true := by
      intro s hs
      apply hsp s
      simp only [List.length_cons, List.take_succ_cons]; exact List.mem_cons_of_mem _ hs
    have hlen : fs.length ≤ rest.length := by simp at h; omega
    simp only
    split
    · cases v <;> first
        | exact popSpreadList_noPanic ht fs rest _ hlen hrest
        | exact renderingError_noPanic ht hspan _
    · exact popSpreadList_noPanic ht fs rest _ hlen hrest

theorem stepBuildListWithSpreads_noPanic (flags : List Bool) (ht : reportTargetOk env vm c = true)
    (ha : flags.length ≤ st.stack.length)
    (hsp : ∀ s ∈ st.stack.take flags.length, c.expandSpan s.2 = true) :
    (stepBuildListWithSpreads env vm c flags pc st).isPanic = false := by
  unfold stepBuildListWithSpreads
  rw [← List.length_reverse] at ha hsp
  have := popSpreadList_noPanic ht flags.reverse st.stack [] ha hsp
  split
  · rename_i r heq; rw [heq] at this; exact this
  · rfl

theorem isMap_cases {v : Value} (h : v.isMap = true) : ∃ es, v = .map es := by
  cases v <;> simp [Value.isMap] at h; exact ⟨_, rfl⟩

theorem stepFilterOrTest_noPanic (isTest : Bool) (name : String) (ht : reportTargetOk env vm c = true)
    (hreg : (if isTest then env.hasTest name else env.hasFilter name) = true)
    (ha : 2 ≤ st.stack.length) (hsp : ∀ s ∈ st.stack.take 2, c.expandSpan s.2 = true)
    (hown : c.hasSpan pc = true)
    (hkw : ∀ v s, st.stack[0]? = some (v, s) → v.isMap = true)
    (hb : BuiltinsTotal env) :
    (stepFilterOrTest env vm c isTest name pc st).isPanic = false := by
  unfold stepFilterOrTest
  simp only [hreg, Bool.not_true, Bool.false_eq_true, ↓reduceIte]
  rcases hs : st.stack with _ | ⟨⟨kw, sa⟩, _ | ⟨⟨b, sb⟩, rest⟩⟩
  · simp [hs] at ha
  · simp [hs] at ha
  · obtain ⟨_, h2⟩ := take2_span hs hsp
    obtain ⟨es, rfl⟩ := isMap_cases (hkw kw sa (by simp [hs]))
    simp only
    have hf := hb.1 name b (kwargsOf es)
    have htst := hb.2.1 name b (kwargsOf es)
    cases isTest
    · simp only [Bool.false_eq_true, ↓reduceIte] at *
      split
      · rfl
      · exact renderingError_noPanic ht h2 _
      · exact renderingError_noPanic ht (expandSpan_self hown) _
      · rename_i heq; rw [heq] at hf; simp [CallRes.isPanic] at hf
      · rfl
    · simp only [↓reduceIte] at *
      split
      · rfl
      · exact renderingError_noPanic ht h2 _
      · exact renderingError_noPanic ht (expandSpan_self hown) _
      · rename_i heq; rw [heq] at htst; simp [CallRes.isPanic] at htst
      · rfl

theorem stepEndCapture_noPanic (hc : st.captures ≠ []) : (stepEndCapture pc st).isPanic = false := by
  unfold stepEndCapture
  rcases hs : st.captures with _ | ⟨b, rest⟩
  · exact absurd hs hc
  · rfl

theorem iterItems_of_canBeIteratedOn {v : Value} (h : v.canBeIteratedOn = true) :
    ∃ items, iterItems v = some items := by
  cases v <;> simp [Value.canBeIteratedOn] at h <;> exact ⟨_, rfl⟩

theorem stepStartIterate_noPanic (kv compr : Bool) (ht : reportTargetOk env vm c = true)
    (ha : 1 ≤ st.stack.length) (hsp : ∀ s ∈ st.stack.take 1, c.expandSpan s.2 = true) :
    (stepStartIterate env vm c kv compr pc st).isPanic = false := by
  unfold stepStartIterate
  rcases hs : st.stack with _ | ⟨⟨a, sa⟩, rest⟩
  · simp [hs] at ha
  · have h1 := take1_span hs hsp
    simp only
    split
    · exact renderingError_noPanic ht h1 _
    · rename_i hit
      split
      · exact renderingError_noPanic ht h1 _
      · obtain ⟨items, hi⟩ := iterItems_of_canBeIteratedOn (v := a) (by simpa using hit)
        rw [hi]; rfl

theorem stepStoreLocal_noPanic (n : String) : (stepStoreLocal n pc st).isPanic = false := by
  unfold stepStoreLocal; split <;> rfl

theorem stepIterate_noPanic (t : Nat) : (stepIterate t pc st).isPanic = false := by
  unfold stepIterate; split
  · rfl
  · split <;> rfl

theorem stepStoreDidNotIterate_noPanic : (stepStoreDidNotIterate pc st).isPanic = false := by
  unfold stepStoreDidNotIterate; split <;> rfl

theorem stepBreak_noPanic : (stepBreak pc st).isPanic = false := by
  unfold stepBreak; split <;> rfl

theorem stepAppendToList_noPanic (ha : 2 ≤ st.stack.length)
    (harr : ∀ v s, st.stack[1]? = some (v, s) → ∃ xs, v = .arr xs) :
    (stepAppendToList pc st).isPanic = false := by
  unfold stepAppendToList
  rcases hs : st.stack with _ | ⟨⟨a, sa⟩, _ | ⟨⟨b, sb⟩, rest⟩⟩
  · simp [hs] at ha
  · simp [hs] at ha
  · obtain ⟨xs, rfl⟩ := harr b sb (by simp [hs])
    rfl

theorem stepMath_noPanic (op : MathOp) (ht : reportTargetOk env vm c = true)
    (ha : 2 ≤ st.stack.length) (hsp : ∀ s ∈ st.stack.take 2, c.expandSpan s.2 = true) :
    (stepMath env vm c op pc st).isPanic = false := by
  unfold stepMath
  rcases hs : st.stack with _ | ⟨⟨a, sa⟩, _ | ⟨⟨b, sb⟩, rest⟩⟩
  · simp [hs] at ha
  · simp [hs] at ha
  · obtain ⟨h1, h2⟩ := take2_span hs hsp
    simp only
    split
    · exact renderingError_noPanic ht h2 _
    · split
      · exact renderingError_noPanic ht h1 _
      · split
        · rfl
        · exact renderingError_noPanic ht h1 _
        · exact renderingError_noPanic ht (expandSpan_combine h2 h1) _

theorem stepPlus_noPanic (ht : reportTargetOk env vm c = true)
    (ha : 2 ≤ st.stack.length) (hsp : ∀ s ∈ st.stack.take 2, c.expandSpan s.2 = true) :
    (stepPlus env vm c pc st).isPanic = false := by
  unfold stepPlus
  rcases hs : st.stack with _ | ⟨⟨a, sa⟩, _ | ⟨⟨b, sb⟩, rest⟩⟩
  · simp [hs] at ha
  · simp [hs] at ha
  · obtain ⟨h1, h2⟩ := take2_span hs hsp
    simp only
    split
    · split
      · rfl
      · exact renderingError_noPanic ht (expandSpan_combine h2 h1) _
    · exact renderingError_noPanic ht (expandSpan_combine h2 h1) _

theorem stepCmp_noPanic (op : CmpOp) (ht : reportTargetOk env vm c = true)
    (ha : 2 ≤ st.stack.length) (hsp : ∀ s ∈ st.stack.take 2, c.expandSpan s.2 = true) :
    (stepCmp env vm c op pc st).isPanic = false := by
  unfold stepCmp
  rcases hs : st.stack with _ | ⟨⟨a, sa⟩, _ | ⟨⟨b, sb⟩, rest⟩⟩
  · simp [hs] at ha
  · simp [hs] at ha
  · obtain ⟨h1, h2⟩ := take2_span hs hsp
    simp only
    split
    · rfl
    · exact renderingError_noPanic ht (expandSpan_combine h2 h1) _

theorem stepEqual_noPanic (neg : Bool) (ha : 2 ≤ st.stack.length) :
    (stepEqual neg pc st).isPanic = false := by
  unfold stepEqual
  rcases hs : st.stack with _ | ⟨⟨a, sa⟩, _ | ⟨⟨b, sb⟩, rest⟩⟩
  · simp [hs] at ha
  · simp [hs] at ha
  · rfl

theorem stepStrConcat_noPanic (ha : 2 ≤ st.stack.length) :
    (stepStrConcat env pc st).isPanic = false := by
  unfold stepStrConcat
  rcases hs : st.stack with _ | ⟨⟨a, sa⟩, _ | ⟨⟨b, sb⟩, rest⟩⟩
  · simp [hs] at ha
  · simp [hs] at ha
  · rfl

theorem stepIn_noPanic (ht : reportTargetOk env vm c = true)
    (ha : 2 ≤ st.stack.length) (hsp : ∀ s ∈ st.stack.take 2, c.expandSpan s.2 = true) :
    (stepIn env vm c pc st).isPanic = false := by
  unfold stepIn
  rcases hs : st.stack with _ | ⟨⟨a, sa⟩, _ | ⟨⟨b, sb⟩, rest⟩⟩
  · simp [hs] at ha
  · simp [hs] at ha
  · obtain ⟨h1, _⟩ := take2_span hs hsp
    simp only
    split
    · rfl
    · exact renderingError_noPanic ht h1 _

theorem stepNot_noPanic (ha : 1 ≤ st.stack.length) : (stepNot pc st).isPanic = false := by
  unfold stepNot
  rcases hs : st.stack with _ | ⟨⟨a, sa⟩, rest⟩
  · simp [hs] at ha
  · rfl

theorem stepNegative_noPanic (ht : reportTargetOk env vm c = true)
    (ha : 1 ≤ st.stack.length) (hsp : ∀ s ∈ st.stack.take 1, c.expandSpan s.2 = true) :
    (stepNegative env vm c pc st).isPanic = false := by
  unfold stepNegative
  rcases hs : st.stack with _ | ⟨⟨a, sa⟩, rest⟩
  · simp [hs] at ha
  · have h1 := take1_span hs hsp
    simp only
    split
    · rfl
    · exact renderingError_noPanic ht h1 _

/-! fused paths -/

def Walk.isPanic : Walk → Bool
  | .val _ => false
  | .stop r => r.isPanic

theorem walkLoad_noPanic (ht : reportTargetOk env vm c = true) :
    ∀ (attrs : List String) (cur : Value) (k : Nat),
    (∀ j, j < k + 1 + attrs.length → c.hasSpanAt pc j = true) →
    (walkLoad env vm c pc cur k attrs).isPanic = false
  | [], _, _, _ => rfl
  | attr :: rest, cur, k, h => by
    unfold walkLoad
    have hk : c.hasSpanAt pc (k + 1) = true := h (k + 1) (by simp)
    split
    · exact errorAt_noPanic ht hk _ _
    · split
      · exact walkLoad_noPanic ht rest _ (k + 1) (fun j hj => h j (by simp at hj ⊢; omega))
      · split
        · exact errorAt_noPanic ht hk _ _
        · rfl

theorem stepLoadPath_noPanic (path : List String) (ht : reportTargetOk env vm c = true)
    (hne : path ≠ []) (hsp : ∀ k, k < path.length → c.hasSpanAt pc k = true) :
    (stepLoadPath env vm c path pc st).isPanic = false := by
  unfold stepLoadPath
  cases path with
  | nil => exact absurd rfl hne
  | cons n attrs =>
    simp only
    split
    · split
      · exact errorAt_noPanic ht (hsp 0 (by simp)) _ _
      · have := walkLoad_noPanic (pc := pc) ht attrs (st.scope.getValue n) 0
          (fun j hj => hsp j (by simp at hj ⊢; omega))
        split
        · rfl
        · rename_i r heq; rw [heq] at this; exact this
    · rfl

theorem walkWrite_noPanic (ht : reportTargetOk env vm c = true) :
    ∀ (attrs : List String) (cur : Value) (k : Nat),
    (∀ j, j < k + 1 + attrs.length → c.hasSpanAt pc j = true) →
    (walkWrite env vm c pc cur k attrs).isPanic = false
  | [], _, _, _ => rfl
  | attr :: rest, cur, k, h => by
    unfold walkWrite
    have hk : c.hasSpanAt pc (k + 1) = true := h (k + 1) (by simp)
    split
    · exact walkWrite_noPanic ht rest _ (k + 1) (fun j hj => h j (by simp at hj ⊢; omega))
    · exact errorAt_noPanic ht hk _ _

theorem stepWritePath_noPanic (path : List String) (ht : reportTargetOk env vm c = true)
    (hne : path ≠ []) (hsp : ∀ k, k < path.length → c.hasSpanAt pc k = true) :
    (stepWritePath env vm c path pc st).isPanic = false := by
  unfold stepWritePath
  cases path with
  | nil => exact absurd rfl hne
  | cons n attrs =>
    simp only
    generalize (if attrs = [] then lookupName st.scope n else st.scope.getValue n) = root
    split
    · exact errorAt_noPanic ht (hsp 0 (by simp)) _ _
    · have := walkWrite_noPanic (pc := pc) ht attrs root 0
          (fun j hj => hsp j (by simp at hj ⊢; omega))
      split
      · rename_i r heq; rw [heq] at this; exact this
      · split
        · exact errorAt_noPanic ht (hsp attrs.length (by simp)) _ _
        · rfl

/-! arms that call `interpret` again -/

variable {rec : VmCtx → Chunk → State → RunRes}

theorem stepInclude_noPanic (name : String)
    (hcall : ∀ tpl, env.template name = some tpl →
      (rec { vm with template := tpl } tpl.chunk (includeState st)).isPanic = false) :
    (stepInclude rec env vm name pc st).isPanic = false := by
  unfold stepInclude
  split
  · rfl
  · rename_i tpl htpl
    have := hcall tpl htpl
    split <;> simp_all [RunRes.isPanic, StepRes.isPanic]

theorem stepRenderBlock_noPanic (name : String)
    (hcall : ∀ first more, assoc name vm.template.blockLineage = some (first :: more) →
      (rec vm first (enterBlock st name (first :: more))).isPanic = false) :
    (stepRenderBlock rec vm name pc st).isPanic = false := by
  unfold stepRenderBlock
  split
  · rfl
  · rfl
  · rename_i first more hl
    have := hcall first more hl
    split <;> simp_all [RunRes.isPanic, StepRes.isPanic]

theorem blockPos_some {blocks : List (String × List Chunk × Nat)} {cur : String}
    (h : ∃ entry ∈ blocks, entry.1 = cur) : ∃ pos, blockPos blocks cur = some pos ∧ pos < blocks.length := by
  unfold blockPos
  obtain ⟨entry, hm, he⟩ := h
  cases hf : blocks.findIdx? (fun e => e.1 == cur) with
  | none =>
    rw [List.findIdx?_eq_none_iff] at hf
    have := hf entry hm
    simp [he] at this
  | some i =>
    have hi : i < blocks.length := by
      have := List.findIdx?_eq_some_iff_findIdx_eq.mp hf
      exact this.1
    exact ⟨_, rfl, by omega⟩

theorem setLevel_isSome {blocks : List (String × List Chunk × Nat)} {pos : Nat} (level : Nat)
    (h : pos < blocks.length) : ∃ b, setLevel blocks pos level = some b ∧ b.length = blocks.length := by
  unfold setLevel
  simp [h]

/-- the nested call `super()` makes, if it gets that far -/
def SuperCall (st : State) (vm : VmCtx) (P : VmCtx → Chunk → State → Prop) : Prop :=
  ∀ cur pos name lineage level blockChunk blocks1,
    st.currentBlockName = some cur → blockPos st.blocks cur = some pos →
    st.blocks[st.blocks.length - 1 - pos]? = some (name, lineage, level) →
    lineage[level + 1]? = some blockChunk → setLevel st.blocks pos (level + 1) = some blocks1 →
    P vm blockChunk (enterSuper st blocks1)

theorem stepSuper_noPanic (ht : reportTargetOk env vm c = true) (hown : c.hasSpan pc = true)
    (hb : BlocksOK st)
    (hcall : SuperCall st vm fun vm' c' st' => (rec vm' c' st').isPanic = false ∧
      ∀ st2, rec vm' c' st' = .done st2 → st2.blocks.length = st'.blocks.length) :
    (stepSuper rec env vm c pc st).isPanic = false := by
  unfold stepSuper
  split
  · exact renderingError_noPanic ht (expandSpan_self hown) _
  · rename_i cur hcur
    obtain ⟨pos, hpos, hlt⟩ := blockPos_some (hb cur hcur)
    rw [hpos]
    simp only
    have hidx : st.blocks.length - 1 - pos < st.blocks.length := by omega
    split
    · rename_i hnone
      rw [List.getElem?_eq_getElem hidx] at hnone; cases hnone
    · rename_i nm lineage level hget
      split
      · exact renderingError_noPanic ht (expandSpan_self hown) _
      · rename_i blockChunk hch
        obtain ⟨b1, hb1, hlen1⟩ := setLevel_isSome (level + 1) hlt
        rw [hb1]
        simp only
        obtain ⟨hnp, hlen⟩ := hcall cur pos nm lineage level blockChunk b1 hcur hpos hget hch hb1
        split
        · rename_i st2 heq
          have hlen2 := hlen st2 heq
          simp only [enterSuper] at hlen2
          obtain ⟨b3, hb3, _⟩ := setLevel_isSome (blocks := st2.blocks) (pos := pos) level (by omega)
          rw [hb3]; rfl
        · rfl
        · rename_i s heq
          rw [heq] at hnp; simp [RunRes.isPanic] at hnp
        · rfl
        · rfl

theorem stepCallFunction_noPanic (name : String) (ht : reportTargetOk env vm c = true)
    (hreg : name = "super" ∨ env.hasFunction name = true)
    (ha : 1 ≤ st.stack.length) (hown : c.hasSpan pc = true)
    (hkw : name ≠ "super" → ∀ v s, st.stack[0]? = some (v, s) → v.isMap = true)
    (hbl : BlocksOK st) (hb : BuiltinsTotal env)
    (hcall : ∀ kw rest, st.stack = kw :: rest →
      SuperCall { st with stack := rest } vm fun vm' c' st' => (rec vm' c' st').isPanic = false ∧
        ∀ st2, rec vm' c' st' = .done st2 → st2.blocks.length = st'.blocks.length) :
    (stepCallFunction rec env vm c name pc st).isPanic = false := by
  unfold stepCallFunction
  rcases hs : st.stack with _ | ⟨⟨kw, sa⟩, rest⟩
  · simp [hs] at ha
  · simp only
    split
    · exact stepSuper_noPanic ht hown hbl (hcall _ _ hs)
    · rename_i hns
      have hf : env.hasFunction name = true := by
        rcases hreg with h | h
        · exact absurd h hns
        · exact h
      obtain ⟨es, rfl⟩ := isMap_cases (hkw hns kw sa (by simp [hs]))
      simp only [hf, Bool.not_true, Bool.false_eq_true, ↓reduceIte]
      have hfn := hb.2.2 name (kwargsOf es)
      split
      · rfl
      · exact renderingError_noPanic ht (expandSpan_self hown) _
      · exact renderingError_noPanic ht (expandSpan_self hown) _
      · rename_i heq; rw [heq] at hfn; simp [CallRes.isPanic] at hfn
      · rfl

theorem stepComponent_noPanic (name : String) (hasBody : Bool) (ht : reportTargetOk env vm c = true)
    (hreg : (assoc name env.components).isSome = true ∨ (assoc name vm.template.components).isSome = true)
    (ha : (if hasBody then 2 else 1) ≤ st.stack.length) (hown : c.hasSpan pc = true)
    (hkw : ∀ v s, st.stack[0]? = some (v, s) → v.isMap = true)
    (hcall : ∀ cdef cchunk bound, findComponent env vm name = some (cdef, cchunk) →
      (rec { vm with depth := vm.depth + 1 } cchunk (componentState bound)).isPanic = false) :
    (stepComponent rec env vm c name hasBody pc st).isPanic = false := by
  unfold stepComponent
  rcases hs : st.stack with _ | ⟨⟨kw, sa⟩, rest⟩
  · simp [hs] at ha; cases hasBody <;> simp at ha
  · obtain ⟨es, rfl⟩ := isMap_cases (hkw kw sa (by simp [hs]))
    simp only
    have hfound : ∃ d, findComponent env vm name = some d := by
      unfold findComponent
      rcases hreg with h | h
      · obtain ⟨d, hd⟩ := Option.isSome_iff_exists.mp h
        exact ⟨d, by rw [hd]⟩
      · obtain ⟨d, hd⟩ := Option.isSome_iff_exists.mp h
        cases h1 : assoc name env.components with
        | some d1 => exact ⟨d1, rfl⟩
        | none => exact ⟨d, by simp [hd]⟩
    obtain ⟨⟨cdef, cchunk⟩, hd⟩ := hfound
    rw [hd]
    simp only
    have hbody : ∃ body rest', popBody hasBody rest = some (body, rest') := by
      unfold popBody
      cases hasBody
      · exact ⟨none, rest, rfl⟩
      · rcases rest with _ | ⟨⟨b, sb⟩, rest'⟩
        · simp [hs] at ha
        · exact ⟨some b.markSafe, rest', rfl⟩
    obtain ⟨body, rest', hbd⟩ := hbody
    rw [hbd]
    simp only
    split
    · exact renderingError_noPanic ht (expandSpan_self hown) _
    · rename_i bound _
      split
      · rfl
      · have := hcall cdef cchunk bound hd
        split <;> simp_all [RunRes.isPanic, StepRes.isPanic]

end arms

end Tera.Vm
