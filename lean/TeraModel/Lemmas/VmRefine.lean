/-
T4: on the fragment bC_opt's optimiser proof is about — the five variable-path instructions
(Model/PathVm.lean) and the control-flow instructions (Model/ChunkVm.lean) — the value-level VM
of Model/Vm.lean IS an instance of those parametric machines: `pathEnv` / `vmSem` instantiate
their parameters with the value-level primitives, `absStack` forgets a slot's span range down to
"does `expand_span` find a span" (all PathVm looks at), and each arm of `Vm.step` agrees with the
corresponding arm of `PathVm` / `ChunkVm.step` (`ResAgree`, `StepAgree`: same successor, error
for error, panic for panic — the sites are named differently).
-/
import TeraModel.Lemmas.VmSim
import TeraModel.Model.ChunkVm
namespace Tera.Vm
open Tera

/-- PathVm's parameters, instantiated by the value-level VM (`σ` = the VM state, whose value stack
PathVm keeps separately). -/
def pathEnv (env : Env) (vm : VmCtx) : PathVm.Env Value State where
  undef := .undef
  isUndef := Value.isUndef
  getValue := fun st n => st.scope.getValue n
  dumpContext := fun st => dumpContext st.scope
  getAttr := fun v a => v.getAttr a.toList
  isSafe := Value.isSafe
  autoescape := vm.autoescape
  emit := fun esc v st => some (st.write (if esc then escapeHtml (v.format env.fmtF64) else v.format env.fmtF64))

/-- a slot as PathVm sees it: the value, and whether `Chunk::expand_span` finds a span -/
def absStack (c : Chunk) (stk : List Slot) : List (Value × Bool) := stk.map fun s => (s.1, c.expandSpan s.2)

/-- The two hypotheses of C09's `optimize_preserves` hold for this instance. -/
theorem pathEnv_undef (env : Env) (vm : VmCtx) :
    (pathEnv env vm).isUndef (pathEnv env vm).undef = true := rfl

theorem pathEnv_undef_attr (env : Env) (vm : VmCtx) (v : Value) (a : String)
    (h : (pathEnv env vm).isUndef v = true) : (pathEnv env vm).getAttr v a = none := by
  cases v <;> simp [pathEnv, Value.isUndef] at h ⊢
  rfl

/-- A step of the value-level VM against a result of PathVm: same stack (abstracted) and state,
error for error, panic for panic. -/
def ResAgree (c : Chunk) (pc : Nat) : StepRes → PathVm.Res Value State → Prop
  | .next pc' st', .ok stk s => pc' = pc + 1 ∧ stk = absStack c st'.stack ∧ s = { st' with stack := [] }
  | .err _, .err => True
  | .panic _, .panic _ => True
  | _, _ => False

section path
variable {env : Env} {vm : VmCtx} {c : Chunk} {pc : Nat} {st : State} {spans : List Span}

theorem write_eq (env : Env) (vm : VmCtx) (v : Value) (st : State) :
    (pathEnv env vm).write v st = some (emitValue env vm v st) := by
  simp only [PathVm.Env.write, pathEnv, emitValue]
  cases vm.autoescape <;> cases v.isSafe <;> rfl

theorem renderingError_agree (ht : reportTargetOk env vm c = true) (r : SpanRange) (e : RErr) :
    ResAgree c pc (renderingError env vm c r e) (PathVm.spanOrPanic (c.expandSpan r)) := by
  unfold renderingError PathVm.spanOrPanic
  cases c.expandSpan r <;> simp [raise, ht, ResAgree]

theorem errorAt_agree (ht : reportTargetOk env vm c = true) (hcode : c.code[pc]? = some (i, spans))
    (k : Nat) (site : String) (e : RErr) :
    ResAgree c pc (errorAt env vm c pc k site e) (PathVm.needSpan spans k) := by
  unfold errorAt PathVm.needSpan PathVm.spanOrPanic
  rw [hasSpanAt_of_code hcode]
  by_cases h : k < spans.length <;> simp [h, raise, ht, ResAgree]

theorem own_span (hcode : c.code[pc]? = some (i, spans)) : c.expandSpan (pc, pc) = !spans.isEmpty := by
  simp [Chunk.expandSpan, hasSpan_of_code hcode]

/-- `LoadName` -/
theorem loadName_refines (n : String) (hcode : c.code[pc]? = some (.loadName n, spans)) :
    ResAgree c pc (step rec env vm c (.loadName n, spans) pc st)
      (PathVm.loadName (pathEnv env vm) n spans (absStack c st.stack) { st with stack := [] }) := by
  simp only [step, PathVm.loadName]
  refine ⟨rfl, ?_, rfl⟩
  simp only [State.push, absStack, List.map_cons, own_span hcode, lookupName, pathEnv]

/-- `LoadAttr` (the non-optional arm) -/
theorem loadAttr_refines (attr : String) (ht : reportTargetOk env vm c = true)
    (hcode : c.code[pc]? = some (.loadAttr attr false, spans)) :
    ResAgree c pc (step rec env vm c (.loadAttr attr false, spans) pc st)
      (PathVm.loadAttr (pathEnv env vm) attr spans (absStack c st.stack) { st with stack := [] }) := by
  simp only [step, stepLoadAttr, PathVm.loadAttr, absStack]
  rcases hs : st.stack with _ | ⟨⟨a, r⟩, rest⟩
  · exact trivial
  · simp only [List.map_cons, Bool.false_and, Bool.false_eq_true, ↓reduceIte]
    by_cases hu : a.isUndef = true
    · simp only [hu, ↓reduceIte, pathEnv]
      exact renderingError_agree ht r _
    · simp only [hu, Bool.false_eq_true, ↓reduceIte, pathEnv]
      refine ⟨rfl, ?_, rfl⟩
      simp only [absStack, List.map_cons, own_span hcode]

/-- `WriteTop` -/
theorem writeTop_refines (ht : reportTargetOk env vm c = true) :
    ResAgree c pc (step rec env vm c (.writeTop, spans) pc st)
      (PathVm.writeTop (pathEnv env vm) (absStack c st.stack) { st with stack := [] }) := by
  simp only [step, stepWriteTop, PathVm.writeTop, absStack]
  rcases hs : st.stack with _ | ⟨⟨a, r⟩, rest⟩
  · exact trivial
  · simp only [List.map_cons]
    by_cases hu : a.isUndef = true
    · simp only [hu, ↓reduceIte, pathEnv]
      exact renderingError_agree ht r _
    · have hu' : (pathEnv env vm).isUndef a = false := by simpa [pathEnv] using hu
      simp only [hu, hu', Bool.false_eq_true, ↓reduceIte, write_eq]
      refine ⟨rfl, ?_, ?_⟩
      · simp [emitValue, absStack]
      · simp only [emitValue, State.write]; split <;> rfl

/-! the fused instructions -/

def WalkAgree (c : Chunk) (pc : Nat) : Walk → PathVm.Walk Value State → Prop
  | .val v, .val v' => v = v'
  | .stop r, .stop r' => (match r with | .next .. => False | _ => True) ∧ ResAgree c pc r r'
  | _, _ => False

theorem errorAt_not_next (env : Env) (vm : VmCtx) (c : Chunk) (pc k : Nat) (site : String) (e : RErr) :
    (match errorAt env vm c pc k site e with | .next .. => False | _ => True) := by
  unfold errorAt raise
  by_cases h1 : c.hasSpanAt pc k = true <;> by_cases h2 : reportTargetOk env vm c = true <;> simp [h1, h2]

theorem walkLoad_agree (ht : reportTargetOk env vm c = true) (hcode : c.code[pc]? = some (i, spans)) :
    ∀ (attrs : List String) (cur : Value) (k : Nat),
    WalkAgree c pc (walkLoad env vm c pc cur k attrs)
      (PathVm.walkLoad (pathEnv env vm) spans cur k attrs)
  | [], _, _ => rfl
  | attr :: rest, cur, k => by
    unfold walkLoad PathVm.walkLoad
    by_cases hu : cur.isUndef = true
    · have hu' : (pathEnv env vm).isUndef cur = true := hu
      simp only [hu, hu', ↓reduceIte]
      have := errorAt_agree (e := .undefinedField) ht hcode (k + 1) "interpreter.rs:794 to have a span for error"
      exact ⟨errorAt_not_next .., this⟩
    · have hu' : (pathEnv env vm).isUndef cur = false := by simpa [pathEnv] using hu
      simp only [hu, hu', Bool.false_eq_true, ↓reduceIte]
      have hga : (pathEnv env vm).getAttr cur attr = cur.getAttr attr.toList := rfl
      rw [hga]
      cases cur.getAttr attr.toList with
      | some next => exact walkLoad_agree ht hcode rest next (k + 1)
      | none =>
        simp only
        by_cases hr : rest = []
        · simp only [hr, ne_eq, not_true_eq_false, ↓reduceIte]; rfl
        · simp only [hr, ne_eq, not_false_eq_true, ↓reduceIte]
          have := errorAt_agree (e := .undefinedField) ht hcode (k + 1) "interpreter.rs:803 to have a span for error"
          exact ⟨errorAt_not_next .., this⟩

/-- `LoadPath` -/
theorem loadPath_refines (path : List String) (ht : reportTargetOk env vm c = true)
    (hcode : c.code[pc]? = some (.loadPath path, spans)) :
    ResAgree c pc (step rec env vm c (.loadPath path, spans) pc st)
      (PathVm.loadPath (pathEnv env vm) path spans (absStack c st.stack) { st with stack := [] }) := by
  simp only [step, stepLoadPath, PathVm.loadPath]
  cases path with
  | nil => exact trivial
  | cons n attrs =>
    simp only
    by_cases ha : attrs = []
    · subst ha
      simp only [ne_eq, not_true_eq_false, ↓reduceIte, true_and]
      refine ⟨rfl, ?_, rfl⟩
      simp only [State.push, absStack, List.map_cons, own_span hcode, lookupName, pathEnv]
    · simp only [ha, ne_eq, not_false_eq_true, ↓reduceIte, false_and]
      have hgv : (pathEnv env vm).getValue { st with stack := [] } n = st.scope.getValue n := rfl
      rw [hgv]
      by_cases hu : (st.scope.getValue n).isUndef = true
      · have hu' : (pathEnv env vm).isUndef (st.scope.getValue n) = true := hu
        simp only [hu, hu', ↓reduceIte]
        exact errorAt_agree ht hcode 0 _ _
      · have hu' : (pathEnv env vm).isUndef (st.scope.getValue n) = false := by simpa [pathEnv] using hu
        simp only [hu, hu', Bool.false_eq_true, ↓reduceIte]
        have := walkLoad_agree (env := env) (vm := vm) ht hcode attrs (st.scope.getValue n) 0
        cases h1 : walkLoad env vm c pc (st.scope.getValue n) 0 attrs with
        | val v =>
          cases h2 : PathVm.walkLoad (pathEnv env vm) spans (st.scope.getValue n) 0 attrs with
          | val v' =>
            rw [h1, h2] at this
            simp only [WalkAgree] at this; subst this
            refine ⟨rfl, ?_, rfl⟩
            simp only [State.push, absStack, List.map_cons, own_span hcode]
          | stop r' => rw [h1, h2] at this; exact this.elim
        | stop r =>
          cases h2 : PathVm.walkLoad (pathEnv env vm) spans (st.scope.getValue n) 0 attrs with
          | val v' => rw [h1, h2] at this; exact this.elim
          | stop r' => rw [h1, h2] at this; exact this.2

theorem walkWrite_agree (ht : reportTargetOk env vm c = true) (hcode : c.code[pc]? = some (i, spans)) :
    ∀ (attrs : List String) (cur : Value) (k : Nat),
    WalkAgree c pc (walkWrite env vm c pc cur k attrs)
      (PathVm.walkWrite (pathEnv env vm) spans cur k attrs)
  | [], _, _ => rfl
  | attr :: rest, cur, k => by
    unfold walkWrite PathVm.walkWrite
    have hga : (pathEnv env vm).getAttr cur attr = cur.getAttr attr.toList := rfl
    rw [hga]
    cases cur.getAttr attr.toList with
    | some next => exact walkWrite_agree ht hcode rest next (k + 1)
    | none =>
      simp only
      have := errorAt_agree (e := .undefinedField) ht hcode (k + 1) "interpreter.rs:843 to have a span for error"
      exact ⟨errorAt_not_next .., this⟩

/-- `WritePath` -/
theorem writePath_refines (path : List String) (ht : reportTargetOk env vm c = true)
    (hcode : c.code[pc]? = some (.writePath path, spans)) :
    ResAgree c pc (step rec env vm c (.writePath path, spans) pc st)
      (PathVm.writePath (pathEnv env vm) path spans (absStack c st.stack) { st with stack := [] }) := by
  simp only [step, stepWritePath, PathVm.writePath]
  cases path with
  | nil => exact trivial
  | cons n attrs =>
    simp only
    have hroot : (if attrs = [] ∧ n = MAGICAL_DUMP_VAR then (pathEnv env vm).dumpContext { st with stack := [] }
          else (pathEnv env vm).getValue { st with stack := [] } n)
        = (if attrs = [] then lookupName st.scope n else st.scope.getValue n) := by
      by_cases ha : attrs = []
      · simp only [ha, true_and, ↓reduceIte, lookupName, pathEnv]
      · simp only [ha, false_and, ↓reduceIte, pathEnv]
    rw [hroot]
    generalize (if attrs = [] then lookupName st.scope n else st.scope.getValue n) = root
    by_cases hu : root.isUndef = true
    · have hu' : (pathEnv env vm).isUndef root = true := hu
      simp only [hu, hu', ↓reduceIte]
      exact errorAt_agree ht hcode 0 _ _
    · have hu' : (pathEnv env vm).isUndef root = false := by simpa [pathEnv] using hu
      simp only [hu, hu', Bool.false_eq_true, ↓reduceIte]
      have := walkWrite_agree (env := env) (vm := vm) ht hcode attrs root 0
      cases h1 : walkWrite env vm c pc root 0 attrs with
      | val v =>
        cases h2 : PathVm.walkWrite (pathEnv env vm) spans root 0 attrs with
        | val v' =>
          rw [h1, h2] at this
          simp only [WalkAgree] at this; subst this
          simp only
          by_cases hv : v.isUndef = true
          · have hv' : (pathEnv env vm).isUndef v = true := hv
            simp only [hv, hv', ↓reduceIte]
            exact errorAt_agree ht hcode _ _ _
          · have hv' : (pathEnv env vm).isUndef v = false := by simpa [pathEnv] using hv
            simp only [hv, hv', Bool.false_eq_true, ↓reduceIte, write_eq]
            refine ⟨rfl, ?_, ?_⟩
            · simp [emitValue, absStack]
            · simp only [emitValue, State.write]; split <;> rfl
        | stop r' => rw [h1, h2] at this; exact this.elim
      | stop r =>
        cases h2 : PathVm.walkWrite (pathEnv env vm) spans root 0 attrs with
        | val v' => rw [h1, h2] at this; exact this.elim
        | stop r' => rw [h1, h2] at this; exact this.2

end path

/-! ### control flow (Model/ChunkVm.lean) -/

/-- `ForLoop::advance` with the test `self.end_ip != 0` (for_loop.rs:271) passed in as a flag:
ChunkVm keeps the `end_ip`s outside its abstract state -/
def advanceWith (flag : Bool) (l : ForLoop) : ForLoop :=
  match l.remaining with
  | [] => l
  | item :: rest =>
    let l1 := { l with remaining := rest, current := item, iterated := true }
    if flag then
      { l1 with index0 := l1.index0 + 1, first := false, last := (l1.index0 + 1 + 1 == l1.length),
                context := [] }
    else l1

def eraseEnd (l : ForLoop) : ForLoop := { l with endIp := 0 }

def Scope.mapLoops (f : ForLoop → ForLoop) : Scope → Scope
  | .mk loops setVars parent context globalCtx => .mk (loops.map f) setVars parent context globalCtx

/-- ChunkVm's `σ`: the VM state without the value stack and the `end_ip`s -/
def eraseEnds (st : State) : State := { st with stack := [], scope := Scope.mapLoops eraseEnd st.scope }

/-- ChunkVm's parameters, instantiated by the value-level VM; `other` (the instructions ChunkVm
leaves abstract) stays a parameter. -/
def vmSem (env : Env) (vm : VmCtx)
    (other : String → String → List (Value × Bool) → State → PathVm.Res Value State) :
    ChunkVm.Sem Value State where
  env := pathEnv env vm
  truthy := Value.isTruthy
  isOver := fun s => match s.scope.forLoops with
    | l :: _ => l.isOver
    | [] => false
  advance := fun flag s => match s.scope.forLoops with
    | l :: _ => { s with scope := s.scope.setTopLoop (advanceWith flag l) }
    | [] => s
  other := other

/-- the configuration of ChunkVm a VM state stands for -/
def cfgOf (c : Chunk) (st : State) : ChunkVm.Cfg Value State :=
  ⟨absStack c st.stack, ends st.scope.forLoops, eraseEnds st⟩

def StepAgree (c : Chunk) : StepRes → ChunkVm.StepRes Value State → Prop
  | .next pc' st', .next pc'' cfg => pc' = pc'' ∧ cfg = cfgOf c st'
  | .err _, .err => True
  | .panic _, .panic _ => True
  | _, _ => False

section flow
variable {env : Env} {vm : VmCtx} {c : Chunk} {pc : Nat} {st : State} {spans : List Span}
  {other : String → String → List (Value × Bool) → State → PathVm.Res Value State}

theorem cfgOf_pop {v : Value} {r : SpanRange} {rest : List Slot} (_hs : st.stack = (v, r) :: rest) :
    cfgOf c { st with stack := rest } = { cfgOf c st with stack := absStack c rest } := by
  simp [cfgOf, eraseEnds]

theorem jump_refines (t : Nat) :
    StepAgree c (step rec env vm c (.jump t, spans) pc st)
      (ChunkVm.step (vmSem env vm other) (.jump t, spans) pc (cfgOf c st)) :=
  ⟨rfl, rfl⟩

theorem popJumpIfFalse_refines (t : Nat) :
    StepAgree c (step rec env vm c (.popJumpIfFalse t, spans) pc st)
      (ChunkVm.step (vmSem env vm other) (.popJumpIfFalse t, spans) pc (cfgOf c st)) := by
  simp only [step, stepPopJumpIfFalse, ChunkVm.step]
  rcases hs : st.stack with _ | ⟨⟨v, r⟩, rest⟩
  · simp [cfgOf, absStack, hs, StepAgree]
  · have hc : (cfgOf c st).stack = (v, c.expandSpan r) :: absStack c rest := by simp [cfgOf, absStack, hs]
    rw [hc]
    simp only [vmSem]
    by_cases hv : v.isTruthy = true
    · simp only [hv, Bool.not_true, Bool.false_eq_true, ↓reduceIte]
      exact ⟨rfl, (cfgOf_pop hs).symm⟩
    · simp only [hv, Bool.not_false, ↓reduceIte]
      exact ⟨rfl, (cfgOf_pop hs).symm⟩

theorem jumpIfFalseOrPop_refines (t : Nat) :
    StepAgree c (step rec env vm c (.jumpIfFalseOrPop t, spans) pc st)
      (ChunkVm.step (vmSem env vm other) (.jumpIfFalseOrPop t, spans) pc (cfgOf c st)) := by
  simp only [step, stepJumpOrPop, ChunkVm.step]
  rcases hs : st.stack with _ | ⟨⟨v, r⟩, rest⟩
  · simp [cfgOf, absStack, hs, StepAgree]
  · have hc : (cfgOf c st).stack = (v, c.expandSpan r) :: absStack c rest := by simp [cfgOf, absStack, hs]
    rw [hc]
    simp only [vmSem, Bool.false_eq_true, ↓reduceIte]
    by_cases hv : v.isTruthy = true
    · simp only [hv, Bool.not_true, Bool.false_eq_true, ↓reduceIte]
      exact ⟨rfl, (cfgOf_pop hs).symm⟩
    · simp only [hv, Bool.not_false, ↓reduceIte]
      exact ⟨rfl, rfl⟩

theorem jumpIfTrueOrPop_refines (t : Nat) :
    StepAgree c (step rec env vm c (.jumpIfTrueOrPop t, spans) pc st)
      (ChunkVm.step (vmSem env vm other) (.jumpIfTrueOrPop t, spans) pc (cfgOf c st)) := by
  simp only [step, stepJumpOrPop, ChunkVm.step]
  rcases hs : st.stack with _ | ⟨⟨v, r⟩, rest⟩
  · simp [cfgOf, absStack, hs, StepAgree]
  · have hc : (cfgOf c st).stack = (v, c.expandSpan r) :: absStack c rest := by simp [cfgOf, absStack, hs]
    rw [hc]
    simp only [vmSem, ↓reduceIte]
    by_cases hv : v.isTruthy = true
    · simp only [hv, ↓reduceIte]
      exact ⟨rfl, rfl⟩
    · simp only [hv, Bool.false_eq_true, ↓reduceIte]
      exact ⟨rfl, (cfgOf_pop hs).symm⟩

/-- `Break` -/
theorem break_refines :
    StepAgree c (step rec env vm c (.break_, spans) pc st)
      (ChunkVm.step (vmSem env vm other) (.other "Break" "", spans) pc (cfgOf c st)) := by
  simp only [step, stepBreak, ChunkVm.step, ↓reduceIte]
  rcases hl : st.scope.forLoops with _ | ⟨l, ls⟩
  · simp [cfgOf, ends, hl, StepAgree]
  · simp [cfgOf, ends, hl, StepAgree]

theorem mapLoops_forLoops (f : ForLoop → ForLoop) (sc : Scope) :
    (Scope.mapLoops f sc).forLoops = sc.forLoops.map f := by cases sc; rfl

theorem mapLoops_setTopLoop (f : ForLoop → ForLoop) (sc : Scope) (l : ForLoop) :
    Scope.mapLoops f (sc.setTopLoop l) = (Scope.mapLoops f sc).setTopLoop (f l) := by
  rcases sc with ⟨_ | ⟨x, xs⟩, _, _, _, _⟩ <;> rfl

theorem eraseEnd_advance (l : ForLoop) (t : Nat) :
    eraseEnd { l.advance with endIp := t } = advanceWith (l.endIp != 0) (eraseEnd l) := by
  unfold ForLoop.advance advanceWith eraseEnd
  cases hr : l.remaining with
  | nil => simp [hr]
  | cons item rest =>
    simp only
    by_cases h : (l.endIp != 0) = true
    · simp [h]
    · simp [h]

/-- `Iterate` -/
theorem iterate_refines (t : Nat) :
    StepAgree c (step rec env vm c (.iterate t, spans) pc st)
      (ChunkVm.step (vmSem env vm other) (.iterate t, spans) pc (cfgOf c st)) := by
  simp only [step, stepIterate, ChunkVm.step]
  rcases hl : st.scope.forLoops with _ | ⟨l, ls⟩
  · simp [cfgOf, ends, hl, StepAgree]
  · have hends : (cfgOf c st).ends = l.endIp :: ends ls := by simp [cfgOf, ends, hl]
    rw [hends]
    have hover : (vmSem env vm other).isOver (cfgOf c st).s = l.isOver := by
      simp [vmSem, cfgOf, eraseEnds, mapLoops_forLoops, hl, eraseEnd, ForLoop.isOver]
    simp only [hover, ForLoop.iterate]
    by_cases ho : l.isOver = true
    · simp only [ho, ↓reduceIte]
      exact ⟨rfl, rfl⟩
    · simp only [ho, Bool.false_eq_true, ↓reduceIte]
      refine ⟨rfl, ?_⟩
      have h1 : ends (st.scope.setTopLoop { l.advance with endIp := t }).forLoops = t :: ends ls := by
        simp [forLoops_setTopLoop, hl, ends]
      have h2 : Scope.mapLoops eraseEnd (st.scope.setTopLoop { l.advance with endIp := t })
          = (Scope.mapLoops eraseEnd st.scope).setTopLoop (advanceWith (l.endIp != 0) (eraseEnd l)) := by
        rw [mapLoops_setTopLoop, eraseEnd_advance]
      simp only [cfgOf, eraseEnds, h1, h2, vmSem, mapLoops_forLoops, hl, List.map_cons]

end flow
