/-
Lemmas about the line-quoting code of reporting.rs (Model/Report.lean): line starts are sorted
char boundaries of a valid source, so `SourceLocation::new` cannot panic on a consistent span.
-/
import TeraModel.Lemmas.LexLoop
import TeraModel.Model.Report
namespace Tera.Report
open Tera Utf8 Lexer

/-- in a valid string the position after an ASCII byte is a char boundary -/
theorem isBoundary_after_ascii {s : Bytes} (hv : valid s = true) {j : Nat} (hj : j < s.length)
    (ha : s[j] < 0x80) : isBoundary s (j + 1) = true := by
  have hbj : isBoundary s j = true := by
    unfold isBoundary
    rw [List.drop_eq_getElem_cons hj]
    simp [startsChar, not_cont_of_lt ha]; omega
  have hd := valid_drop hv j hbj
  rw [List.drop_eq_getElem_cons hj, valid_cons_ascii _ ha] at hd
  have := startsChar_of_valid hd
  unfold isBoundary
  simp [this]; omega

/-- every element of `newlineStarts s i` is `i + j + 1` for an index `j` of a newline of `s` -/
theorem newlineStarts_mem (s : Bytes) : ∀ (i x : Nat), x ∈ newlineStarts s i →
    ∃ j, ∃ (h : j < s.length), x = i + j + 1 ∧ s[j] = 0x0A := by
  induction s with
  | nil => intro i x h; simp [newlineStarts] at h
  | cons b t ih =>
    intro i x h
    unfold newlineStarts at h
    split at h
    · rename_i hb
      simp only [List.mem_cons] at h
      rcases h with rfl | h
      · exact ⟨0, by simp, by omega, by simpa using hb⟩
      · obtain ⟨j, hj, rfl, hs⟩ := ih (i + 1) x h
        exact ⟨j + 1, by simpa using hj, by omega, by simpa using hs⟩
    · obtain ⟨j, hj, rfl, hs⟩ := ih (i + 1) x h
      exact ⟨j + 1, by simpa using hj, by omega, by simpa using hs⟩

theorem newlineStarts_length (s : Bytes) : ∀ i, (newlineStarts s i).length = s.count 0x0A := by
  induction s with
  | nil => intro i; simp [newlineStarts]
  | cons b t ih =>
    intro i
    unfold newlineStarts
    split
    · rename_i hb; subst hb; simp [ih]
    · rename_i hb
      rw [ih, List.count_cons]
      have : ¬ (b == 10) = true := by simpa using hb
      simp [this]

theorem newlineStarts_sorted (s : Bytes) : ∀ i, (newlineStarts s i).Pairwise (· < ·) := by
  induction s with
  | nil => intro i; simp [newlineStarts]
  | cons b t ih =>
    intro i
    unfold newlineStarts
    split
    · refine List.Pairwise.cons ?_ (ih _)
      intro x hx
      obtain ⟨j, _, rfl, _⟩ := newlineStarts_mem t (i + 1) x hx
      omega
    · exact ih _

theorem getLineStarts_length (s : Bytes) : (getLineStarts s).length = 1 + s.count 0x0A := by
  simp [getLineStarts, newlineStarts_length]; omega

theorem getLineStarts_sorted (s : Bytes) : (getLineStarts s).Pairwise (· < ·) := by
  unfold getLineStarts
  refine List.Pairwise.cons ?_ (newlineStarts_sorted s 0)
  intro x hx
  obtain ⟨j, _, rfl, _⟩ := newlineStarts_mem s 0 x hx
  omega

/-- every line start is a char boundary of a valid source -/
theorem getLineStarts_boundary {s : Bytes} (hv : valid s = true) {x : Nat} (hx : x ∈ getLineStarts s) :
    x ≤ s.length ∧ isBoundary s x = true := by
  unfold getLineStarts at hx
  simp only [List.mem_cons] at hx
  rcases hx with rfl | hx
  · exact ⟨by omega, isBoundary_zero s⟩
  · obtain ⟨j, hj, rfl, hs⟩ := newlineStarts_mem s 0 x hx
    refine ⟨by omega, ?_⟩
    have := isBoundary_after_ascii hv hj (by rw [hs]; decide)
    simpa using this

theorem count_take_le (s : Bytes) (n : Nat) (a : Nat) : (s.take n).count a ≤ s.count a := by
  have : s = s.take n ++ s.drop n := (List.take_append_drop n s).symm
  conv => rhs; rw [this]
  rw [List.count_append]; omega

/-- **report_no_panic** core: on a valid source, for a span whose start line is
`1 + #newlines before some position`, `SourceLocation::new` performs no out-of-range index, no
underflow and no off-boundary slice. -/
theorem sourceLocation_ok {src : Bytes} (hv : valid src = true) (sp : Span) (a : Nat)
    (hl : sp.startLine = 1 + (src.take a).count 0x0A) :
    ∃ line ul, sourceLocation src sp = .ok (line, ul) := by
  have hlen := getLineStarts_length src
  have hle : sp.startLine ≤ (getLineStarts src).length := by
    rw [hlen, hl]; have := count_take_le src a 0x0A; omega
  have hpos : sp.startLine ≠ 0 := by omega
  unfold sourceLocation
  simp only [hpos, if_false]
  have h1 : sp.startLine - 1 < (getLineStarts src).length := by omega
  by_cases hlast : sp.startLine = (getLineStarts src).length
  · simp only [hlast, if_true]
    rw [List.getElem?_eq_getElem (by omega)]
    simp only
    have hb := getLineStarts_boundary hv (List.getElem_mem (l := getLineStarts src) (n := (getLineStarts src).length - 1) (by omega))
    unfold sliceFrom?
    simp [hb.1, hb.2]
  · simp only [hlast, if_false]
    have h2 : sp.startLine < (getLineStarts src).length := by omega
    rw [List.getElem?_eq_getElem h1, List.getElem?_eq_getElem h2]
    simp only
    have hb1 := getLineStarts_boundary hv (List.getElem_mem h1)
    have hb2 := getLineStarts_boundary hv (List.getElem_mem h2)
    have hlt : (getLineStarts src)[sp.startLine - 1] < (getLineStarts src)[sp.startLine] :=
      List.pairwise_iff_getElem.mp (getLineStarts_sorted src) _ _ h1 h2 (by omega)
    unfold slice? getRange
    have : (getLineStarts src)[sp.startLine - 1] ≤ (getLineStarts src)[sp.startLine] := by omega
    simp [this, hb1.2, hb2.1, hb2.2]

theorem newlineStarts_gt (s : Bytes) (i x : Nat) (h : x ∈ newlineStarts s i) : i < x := by
  obtain ⟨j, _, rfl, _⟩ := newlineStarts_mem s i x h; omega

/-- the line starts up to byte `a` are as many as there are newlines before `a` -/
theorem newlineStarts_filter_count (s : Bytes) : ∀ (i a : Nat),
    ((newlineStarts s i).filter (fun x => decide (x ≤ i + a))).length = (s.take a).count 0x0A := by
  induction s with
  | nil => intro i a; simp [newlineStarts]
  | cons b t ih =>
    intro i a
    cases a with
    | zero =>
      simp only [List.take_zero, List.count_nil, Nat.add_zero, List.length_eq_zero_iff,
        List.filter_eq_nil_iff, decide_eq_true_eq]
      intro x hx
      have := newlineStarts_gt _ _ _ hx
      omega
    | succ a' =>
      unfold newlineStarts
      have e : i + (a' + 1) = (i + 1) + a' := by omega
      split
      · rename_i hb
        subst hb
        rw [List.filter_cons]
        have : decide (i + 1 ≤ i + (a' + 1)) = true := by simp
        simp only [this, if_true, List.length_cons, List.take_succ_cons, List.count_cons_self]
        rw [e, ih]
      · rename_i hb
        rw [e, ih, List.take_succ_cons, List.count_cons]
        have : ¬ (b == 10) = true := by simpa using hb
        simp [this]

/-- in a strictly increasing list the elements `≤ B` form the prefix of that length -/
theorem sorted_filter_prefix (l : List Nat) (hs : l.Pairwise (· < ·)) (B : Nat) :
    (∀ j (h : j < l.length), j < (l.filter (fun x => decide (x ≤ B))).length → l[j] ≤ B) ∧
    (∀ j (h : j < l.length), (l.filter (fun x => decide (x ≤ B))).length ≤ j → B < l[j]) := by
  induction l with
  | nil => simp
  | cons a t ih =>
    have hs' := List.Pairwise.of_cons hs
    have hlt : ∀ x ∈ t, a < x := fun x hx => List.rel_of_pairwise_cons hs hx
    obtain ⟨ih1, ih2⟩ := ih hs'
    rw [List.filter_cons]
    by_cases ha : a ≤ B
    · simp only [ha, decide_true, if_true, List.length_cons]
      constructor
      · intro j h hj
        cases j with
        | zero => simpa using ha
        | succ j' => simp only [List.getElem_cons_succ]; exact ih1 j' (by simpa using h) (by omega)
      · intro j h hj
        cases j with
        | zero => omega
        | succ j' => simp only [List.getElem_cons_succ]; exact ih2 j' (by simpa using h) (by omega)
    · have hnone : (t.filter (fun x => decide (x ≤ B))).length = 0 := by
        simp only [List.length_eq_zero_iff, List.filter_eq_nil_iff, decide_eq_true_eq]
        intro x hx; have := hlt x hx; omega
      simp only [ha, decide_false, hnone]
      constructor
      · intro j h hj; simp only [Bool.false_eq_true, if_false, hnone] at hj; omega
      · intro j h _
        cases j with
        | zero => simp; omega
        | succ j' =>
          simp only [List.getElem_cons_succ]
          have := hlt _ (List.getElem_mem (by simpa using h : j' < t.length)); omega

/-- the entry of `line_starts` for the line `1 + #newlines before a` is `≤ a`, the next one `> a` -/
theorem lineStart_brackets (src : Bytes) (a : Nat) :
    (∀ x, (getLineStarts src)[(src.take a).count 0x0A]? = some x → x ≤ a) ∧
    (∀ x, (getLineStarts src)[(src.take a).count 0x0A + 1]? = some x → a < x) := by
  have hcount := newlineStarts_filter_count src 0 a
  simp only [Nat.zero_add] at hcount
  obtain ⟨h1, h2⟩ := sorted_filter_prefix (newlineStarts src 0) (newlineStarts_sorted src 0) a
  rw [hcount] at h1 h2
  unfold getLineStarts
  constructor
  · intro x hx
    cases hm : (src.take a).count 0x0A with
    | zero => rw [hm] at hx; simp at hx; omega
    | succ k =>
      rw [hm] at hx
      simp only [List.getElem?_cons_succ] at hx
      obtain ⟨hlt, hget⟩ := List.getElem?_eq_some_iff.mp hx
      rw [← hget]
      exact h1 k hlt (by omega)
  · intro x hx
    simp only [List.getElem?_cons_succ] at hx
    obtain ⟨hlt, hget⟩ := List.getElem?_eq_some_iff.mp hx
    rw [← hget]
    exact h2 _ hlt (Nat.le_refl _)

/-- **the quoted line is the one the span starts on.**  The raw line `SourceLocation::new` slices
runs from a line start `s ≤ range.start` to the next line start `e > range.start` (or to the end
of the source on the last line). -/
theorem sourceLocation_line {src : Bytes} (sp : Span) (a : Nat)
    (hl : sp.startLine = 1 + (src.take a).count 0x0A) {line ul : Bytes}
    (h : sourceLocation src sp = .ok (line, ul)) :
    ∃ s e, s ≤ a ∧ (a < e ∨ e = src.length) ∧ s ∈ getLineStarts src ∧
      (e ∈ getLineStarts src ∨ e = src.length) ∧
      line = trimEndNewlines ((src.drop s).take (e - s)) := by
  have hb := lineStart_brackets src a
  unfold sourceLocation at h
  simp only at h
  split at h
  · cases h
  · have hm : sp.startLine - 1 = (src.take a).count 0x0A := by omega
    split at h
    · cases h
    · rename_i l hraw
      simp only [Res.ok.injEq, Prod.mk.injEq] at h
      split at hraw
      · -- last line
        split at hraw
        · cases hraw
        · rename_i s hs
          split at hraw
          · cases hraw
          · rename_i l' hsl
            simp only [Res.ok.injEq] at hraw
            obtain ⟨hlt, hget⟩ := List.getElem?_eq_some_iff.mp hs
            have hsl' : l' = src.drop s := by
              unfold sliceFrom? at hsl
              split at hsl
              · simpa using hsl.symm
              · cases hsl
            refine ⟨s, src.length, ?_, Or.inr rfl, ?_, Or.inr rfl, ?_⟩
            · exact hb.1 s (by rw [← hm]; exact hs)
            · rw [← hget]; exact List.getElem_mem _
            · rw [← h.1, ← hraw, hsl']
              have : (src.drop s).take (src.length - s) = src.drop s := List.take_of_length_le (by simp)
              rw [this]
      · split at hraw
        · cases hraw
        · rename_i s hs
          split at hraw
          · cases hraw
          · rename_i e he
            split at hraw
            · cases hraw
            · rename_i l' hsl
              simp only [Res.ok.injEq] at hraw
              obtain ⟨hlt, hget⟩ := List.getElem?_eq_some_iff.mp hs
              obtain ⟨hlt2, hget2⟩ := List.getElem?_eq_some_iff.mp he
              have hr := (getRange_eq' hsl)
              refine ⟨s, e, ?_, Or.inl ?_, ?_, Or.inl ?_, ?_⟩
              · exact hb.1 s (by rw [← hm]; exact hs)
              · have e1 : sp.startLine = (src.take a).count 0x0A + 1 := by omega
                exact hb.2 e (by rw [← e1]; exact he)
              · rw [← hget]; exact List.getElem_mem _
              · rw [← hget2]; exact List.getElem_mem _
              · rw [← h.1, ← hraw, hr]
where
  getRange_eq' {s r : Bytes} {a b : Nat} (h : slice? s a b = some r) : r = (s.drop a).take (b - a) := by
    unfold slice? getRange at h
    split at h
    · simpa using h.symm
    · cases h


theorem getLineStarts_mem {src : Bytes} {s : Nat} (h : s ∈ getLineStarts src) :
    s = 0 ∨ src[s - 1]? = some 0x0A := by
  unfold getLineStarts at h
  simp only [List.mem_cons] at h
  rcases h with h | h
  · exact Or.inl h
  · obtain ⟨j, hj, rfl, hs⟩ := newlineStarts_mem src 0 s h
    right
    simp only [Nat.zero_add, Nat.add_sub_cancel]
    rw [List.getElem?_eq_getElem hj, hs]

end Tera.Report
