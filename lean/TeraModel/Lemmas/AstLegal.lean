/-
Tree walks used by the break/continue and block theorems of Props/C06Parser.lean.
-/
import TeraModel.Lemmas.ExprNoBody
namespace Tera
open Tera

mutual
/-- `break` / `continue` legality.  `inLoop` = "the nearest enclosing `for` BODY or capturing
construct (filter section, `set` block, body of a component call) is a `for` body".
`if` and `block` are transparent, the `else` body of a `for` belongs to the OUTSIDE of that loop. -/
def Node.legal (inLoop : Bool) : Node → Prop
  | .break => inLoop = true
  | .continue => inLoop = true
  | .forLoop _ _ _ body els => Node.legalList true body ∧ Node.legalList inLoop els
  | .if _ body els => Node.legalList inLoop body ∧ Node.legalList inLoop els
  | .block _ body => Node.legalList inLoop body
  | .blockSet _ _ body _ => Node.legalList false body
  | .filterSection _ _ body => Node.legalList false body
  | .expression (.componentCall _ _ body false) => Node.legalList false body
  | _ => True
def Node.legalList (inLoop : Bool) : List Node → Prop
  | [] => True
  | n :: ns => Node.legal inLoop n ∧ Node.legalList inLoop ns
end

mutual
/-- the names of all `{% block %}`s of a tree, nested ones included, in source order -/
def Node.blockNames : Node → List String
  | .block name body => name :: Node.blockNamesList body
  | .forLoop _ _ _ body els => Node.blockNamesList body ++ Node.blockNamesList els
  | .if _ body els => Node.blockNamesList body ++ Node.blockNamesList els
  | .blockSet _ _ body _ => Node.blockNamesList body
  | .filterSection _ _ body => Node.blockNamesList body
  | .expression (.componentCall _ _ body false) => Node.blockNamesList body
  | _ => []
def Node.blockNamesList : List Node → List String
  | [] => []
  | n :: ns => Node.blockNames n ++ Node.blockNamesList ns
end

theorem Node.legalList_append (il : Bool) (a b : List Node) :
    Node.legalList il (a ++ b) ↔ Node.legalList il a ∧ Node.legalList il b := by
  induction a with
  | nil => simp [Node.legalList]
  | cons x xs ih => simp [Node.legalList, ih, and_assoc]

theorem Node.blockNamesList_append (a b : List Node) :
    Node.blockNamesList (a ++ b) = Node.blockNamesList a ++ Node.blockNamesList b := by
  induction a with
  | nil => simp [Node.blockNamesList]
  | cons x xs ih => simp [Node.blockNamesList, ih]

/-- a `{{ expr }}` node whose expression is closed has nothing to walk -/
theorem Node.legal_expression (il : Bool) (e : Expr) (h : e.openBody = []) :
    Node.legal il (.expression e) := by
  unfold Node.legal
  split <;> simp_all [Expr.openBody, Node.legalList]

theorem Node.blockNames_expression (e : Expr) (h : e.openBody = []) :
    Node.blockNames (.expression e) = [] := by
  unfold Node.blockNames
  split <;> simp_all [Expr.openBody, Node.blockNamesList]

end Tera
