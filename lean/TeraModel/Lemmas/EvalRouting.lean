/-
Output routing of the evaluator (Model/Eval.lean): what a statement list does is independent of
where its output goes.  Running it with output `out` and capture stack `caps` gives the same
scope, signal and error as running it with an empty sink, and the text the empty-sink run wrote is
appended to the current sink (innermost capture buffer, else the output).  This is what makes
`Capture … EndCapture` hold "exactly the text the body would have written".
-/
import TeraModel.Model.Eval
namespace Tera

/-- output after writing `w` to the sink `(out, caps)` -/
def wOut (out : List Char) (caps : List (List Char)) (w : List Char) : List Char :=
  match caps with
  | [] => out ++ w
  | _ :: _ => out

/-- capture stack after writing `w` to the sink `(out, caps)` -/
def wCaps (caps : List (List Char)) (w : List Char) : List (List Char) :=
  match caps with
  | [] => []
  | b :: bs => (b ++ w) :: bs

theorem St.write_eq (st : St) (w : List Char) :
    st.write w = ⟨st.scope, wOut st.out st.captures w, wCaps st.captures w⟩ := by
  obtain ⟨sc, out, caps⟩ := st
  cases caps <;> rfl

/-- The result of a run on the empty sink, replayed on the sink `(out, caps)`. -/
def reroute (out : List Char) (caps : List (List Char)) (r : Except Err (St × Sig)) :
    Except Err (St × Sig) :=
  match r with
  | .error e => .error e
  | .ok (st', sig) => .ok (⟨st'.scope, wOut out caps st'.out, wCaps caps st'.out⟩, sig)

def rerouteSt (out : List Char) (caps : List (List Char)) (r : Except Err St) : Except Err St :=
  match r with
  | .error e => .error e
  | .ok st' => .ok ⟨st'.scope, wOut out caps st'.out, wCaps caps st'.out⟩

/-- A run on the empty sink ends with an empty capture stack. -/
def Bal (r : Except Err (St × Sig)) : Prop := ∀ st' sig, r = .ok (st', sig) → st'.captures = []
def BalSt (r : Except Err St) : Prop := ∀ st', r = .ok st' → st'.captures = []

theorem wOut_wOut (out : List Char) (caps : List (List Char)) (a b : List Char) :
    wOut (wOut out caps a) (wCaps caps a) b = wOut out caps (a ++ b) := by
  cases caps <;> simp [wOut, wCaps]

theorem wCaps_wCaps (caps : List (List Char)) (a b : List Char) :
    wCaps (wCaps caps a) b = wCaps caps (a ++ b) := by
  cases caps <;> simp [wCaps]

theorem reroute_comp (out : List Char) (caps : List (List Char)) (w : List Char)
    (E : Except Err (St × Sig)) :
    reroute out caps (reroute w [] E) = reroute (wOut out caps w) (wCaps caps w) E := by
  cases E with
  | error e => rfl
  | ok p =>
    obtain ⟨st', sig⟩ := p
    simp [reroute, wOut, wCaps, wOut_wOut, wCaps_wCaps]
    cases caps <;> simp [wOut, wCaps]

theorem rerouteSt_comp (out : List Char) (caps : List (List Char)) (w : List Char)
    (E : Except Err St) :
    rerouteSt out caps (rerouteSt w [] E) = rerouteSt (wOut out caps w) (wCaps caps w) E := by
  cases E with
  | error e => rfl
  | ok st' =>
    simp [rerouteSt, wOut, wCaps]
    cases caps <;> simp [wOut, wCaps]

/-- The three statements proved together by induction on the fuel. -/
def RoutingAt (env : Env) (fuel : Nat) : Prop :=
  (∀ ae st n, execNode fuel env ae st n
        = reroute st.out st.captures (execNode fuel env ae ⟨st.scope, [], []⟩ n)
      ∧ Bal (execNode fuel env ae ⟨st.scope, [], []⟩ n))
  ∧ (∀ ae st ns, execNodes fuel env ae st ns
        = reroute st.out st.captures (execNodes fuel env ae ⟨st.scope, [], []⟩ ns)
      ∧ Bal (execNodes fuel env ae ⟨st.scope, [], []⟩ ns))
  ∧ (∀ ae st body, execFor fuel env ae st body
        = rerouteSt st.out st.captures (execFor fuel env ae ⟨st.scope, [], []⟩ body)
      ∧ BalSt (execFor fuel env ae ⟨st.scope, [], []⟩ body))

theorem writeValue_routing (env : Env) (ae : Bool) (sc : Scope) (out : List Char)
    (caps : List (List Char)) (v : Value) :
    (writeValue env ae ⟨sc, out, caps⟩ v).map (·, Sig.normal)
      = reroute out caps ((writeValue env ae ⟨sc, [], []⟩ v).map (·, Sig.normal))
    ∧ Bal ((writeValue env ae ⟨sc, [], []⟩ v).map (·, Sig.normal)) := by
  unfold writeValue
  cases v.isUndef
  · simp only [Bool.false_eq_true, if_false, Except.map, St.write_eq, reroute, Bal]
    refine ⟨by simp [wOut, wCaps], ?_⟩
    intro st' sig h
    injection h with h
    injection h with h1 h2
    subst h1
    simp [wCaps]
  · simp [Except.map, reroute, Bal]

@[simp] theorem St.store_out (st : St) (name : String) (v : Value) (g : Bool) :
    (st.store name v g).out = st.out := rfl

@[simp] theorem St.store_captures (st : St) (name : String) (v : Value) (g : Bool) :
    (st.store name v g).captures = st.captures := rfl

theorem St.store_sink (sc : Scope) (out : List Char) (caps : List (List Char)) (name : String)
    (v : Value) (g : Bool) :
    (⟨sc, out, caps⟩ : St).store name v g = ⟨((⟨sc, [], []⟩ : St).store name v g).scope, out, caps⟩ := by
  cases g <;> rfl

@[simp] theorem wOut_nil (out : List Char) (caps : List (List Char)) : wOut out caps [] = out := by
  cases caps <;> simp [wOut]

@[simp] theorem wCaps_nil (caps : List (List Char)) : wCaps caps [] = caps := by
  cases caps <;> simp [wCaps]

theorem St.eta_bal (st' : St) (h : st'.captures = []) : st' = ⟨st'.scope, st'.out, []⟩ := by
  obtain ⟨a, b, c⟩ := st'
  simp at h
  subst h
  rfl

theorem routing_nodes_step (env : Env) (fuel : Nat) (ih : RoutingAt env fuel) :
    ∀ ae st ns, execNodes (fuel + 1) env ae st ns
        = reroute st.out st.captures (execNodes (fuel + 1) env ae ⟨st.scope, [], []⟩ ns)
      ∧ Bal (execNodes (fuel + 1) env ae ⟨st.scope, [], []⟩ ns) := by
  obtain ⟨ihN, ihL, _⟩ := ih
  intro ae st ns
  obtain ⟨sc, out, caps⟩ := st
  cases ns with
  | nil =>
    simp only [execNodes, reroute, wOut_nil, wCaps_nil, Bal]
    refine ⟨trivial, ?_⟩
    intro st' sig h
    injection h with h
    injection h with h1 h2
    subst h1
    rfl
  | cons n rest =>
    simp only [execNodes]
    rw [(ihN ae ⟨sc, out, caps⟩ n).1]
    have hb := (ihN ae ⟨sc, out, caps⟩ n).2
    simp only at hb ⊢
    cases hR : execNode fuel env ae ⟨sc, [], []⟩ n with
    | error e => simp [reroute, Bal]
    | ok p =>
      obtain ⟨st', sig⟩ := p
      have hc : st'.captures = [] := hb st' sig hR
      cases sig with
      | normal =>
        have e1 : reroute out caps (.ok (st', Sig.normal))
            = .ok (⟨st'.scope, wOut out caps st'.out, wCaps caps st'.out⟩, Sig.normal) := rfl
        rw [e1]
        dsimp only
        rw [(ihL ae ⟨st'.scope, wOut out caps st'.out, wCaps caps st'.out⟩ rest).1]
        rw [(ihL ae st' rest).1, hc]
        dsimp only
        rw [reroute_comp]
        refine ⟨rfl, ?_⟩
        intro st'' sig' h
        cases hE : execNodes fuel env ae ⟨st'.scope, [], []⟩ rest with
        | error e => rw [hE] at h; cases h
        | ok q =>
          rw [hE] at h
          obtain ⟨s2, g2⟩ := q
          simp only [reroute] at h
          injection h with h
          injection h with h1 h2
          subst h1
          rfl
      | brk =>
        simp only [reroute, Bal]
        refine ⟨trivial, ?_⟩
        intro st'' sig' h
        injection h with h
        injection h with h1 h2
        subst h1
        exact hc
      | cont =>
        simp only [reroute, Bal]
        refine ⟨trivial, ?_⟩
        intro st'' sig' h
        injection h with h
        injection h with h1 h2
        subst h1
        exact hc

theorem routing_for_step (env : Env) (fuel : Nat) (ih : RoutingAt env fuel) :
    ∀ ae st body, execFor (fuel + 1) env ae st body
        = rerouteSt st.out st.captures (execFor (fuel + 1) env ae ⟨st.scope, [], []⟩ body)
      ∧ BalSt (execFor (fuel + 1) env ae ⟨st.scope, [], []⟩ body) := by
  obtain ⟨_, ihL, ihF⟩ := ih
  intro ae st body
  obtain ⟨sc, out, caps⟩ := st
  simp only [execFor]
  cases hl : sc.forLoops with
  | nil => simp [rerouteSt, BalSt]
  | cons l ls =>
    dsimp only
    cases hi : l.iterate ITERATE_END_IP with
    | none =>
      simp only [rerouteSt, wOut_nil, wCaps_nil, BalSt]
      refine ⟨trivial, ?_⟩
      intro st' h
      injection h with h
      subst h
      rfl
    | some l' =>
      dsimp only
      rw [(ihL ae ⟨sc.setTopLoop l', out, caps⟩ body).1]
      have hb := (ihL ae ⟨sc.setTopLoop l', out, caps⟩ body).2
      dsimp only at hb ⊢
      cases hR : execNodes fuel env ae ⟨sc.setTopLoop l', [], []⟩ body with
      | error e => simp [reroute, rerouteSt, BalSt]
      | ok p =>
        obtain ⟨st', sig⟩ := p
        have hc : st'.captures = [] := hb st' sig hR
        have cont : (execFor fuel env ae ⟨st'.scope, wOut out caps st'.out, wCaps caps st'.out⟩ body
              = rerouteSt out caps (execFor fuel env ae st' body))
            ∧ BalSt (execFor fuel env ae st' body) := by
          rw [(ihF ae ⟨st'.scope, wOut out caps st'.out, wCaps caps st'.out⟩ body).1]
          rw [(ihF ae st' body).1, hc]
          dsimp only
          rw [rerouteSt_comp]
          refine ⟨rfl, ?_⟩
          intro st'' h
          cases hE : execFor fuel env ae ⟨st'.scope, [], []⟩ body with
          | error e => rw [hE] at h; cases h
          | ok q =>
            rw [hE] at h
            simp only [rerouteSt] at h
            injection h with h
            subst h
            rfl
        cases sig with
        | brk =>
          simp only [reroute, rerouteSt, BalSt]
          refine ⟨trivial, ?_⟩
          intro st'' h
          injection h with h
          subst h
          exact hc
        | normal => exact cont
        | cont => exact cont

theorem routing_node_step (env : Env) (fuel : Nat) (ih : RoutingAt env fuel) :
    ∀ ae st n, execNode (fuel + 1) env ae st n
        = reroute st.out st.captures (execNode (fuel + 1) env ae ⟨st.scope, [], []⟩ n)
      ∧ Bal (execNode (fuel + 1) env ae ⟨st.scope, [], []⟩ n) := by
  obtain ⟨_, ihL, ihF⟩ := ih
  intro ae st n
  obtain ⟨sc, out, caps⟩ := st
  have balOk : ∀ (s : St) (g : Sig), s.captures = [] → Bal (.ok (s, g)) := by
    intro s g hs st' sig h
    injection h with h
    injection h with h1 h2
    subst h1
    exact hs
  have balErr : ∀ e : Err, Bal (.error e) := by
    intro e st' sig h
    cases h
  cases n with
  | content text =>
    simp only [execNode, St.write_eq, reroute]
    exact ⟨by simp [wOut, wCaps], balOk _ _ rfl⟩
  | expression e =>
    simp only [execNode]
    cases evalExpr fuel env sc e with
    | error er => exact ⟨rfl, balErr _⟩
    | ok v => exact writeValue_routing env ae sc out caps v
  | set name value g =>
    simp only [execNode]
    cases evalExpr fuel env sc value with
    | error er => exact ⟨rfl, balErr _⟩
    | ok v =>
      dsimp only
      rw [St.store_sink]
      exact ⟨by simp [reroute], balOk _ _ rfl⟩
  | blockSet name filters body g =>
    simp only [execNode]
    rw [(ihL ae ⟨sc, out, [] :: caps⟩ body).1, (ihL ae ⟨sc, [], [[]]⟩ body).1]
    dsimp only
    cases hR : execNodes fuel env ae ⟨sc, [], []⟩ body with
    | error er => exact ⟨rfl, balErr _⟩
    | ok p =>
      obtain ⟨st', sig⟩ := p
      cases sig with
      | normal =>
        simp only [reroute, wOut, wCaps, List.nil_append]
        cases applyFilters fuel env st'.scope filters (.str true st'.out) with
        | error er => exact ⟨rfl, balErr _⟩
        | ok v =>
          dsimp only
          rw [St.store_sink]
          exact ⟨by cases caps <;> simp [reroute, wOut, wCaps], balOk _ _ rfl⟩
      | brk => exact ⟨rfl, balErr _⟩
      | cont => exact ⟨rfl, balErr _⟩
  | «include» name =>
    simp only [execNode]
    cases env.template name with
    | none => exact ⟨rfl, balErr _⟩
    | some t =>
      dsimp only
      cases execNodes fuel env t.autoescape ⟨Scope.included sc, [], []⟩ t.nodes with
      | error er => exact ⟨rfl, balErr _⟩
      | ok p =>
        obtain ⟨st', sig⟩ := p
        cases sig with
        | normal =>
          simp only [St.write_eq, reroute]
          exact ⟨by simp [wOut, wCaps], balOk _ _ rfl⟩
        | brk => exact ⟨rfl, balErr _⟩
        | cont => exact ⟨rfl, balErr _⟩
  | block name body => exact ⟨rfl, balErr _⟩
  | «break» =>
    simp only [execNode, reroute, wOut_nil, wCaps_nil]
    exact ⟨trivial, balOk _ _ rfl⟩
  | «continue» =>
    simp only [execNode, reroute, wOut_nil, wCaps_nil]
    exact ⟨trivial, balOk _ _ rfl⟩
  | «if» cond body fb =>
    simp only [execNode]
    cases evalExpr fuel env sc cond with
    | error er => exact ⟨rfl, balErr _⟩
    | ok c =>
      dsimp only
      cases c.isTruthy
      · exact ihL ae ⟨sc, out, caps⟩ fb
      · exact ihL ae ⟨sc, out, caps⟩ body
  | filterSection name kwargs body =>
    simp only [execNode]
    rw [(ihL ae ⟨sc, out, [] :: caps⟩ body).1, (ihL ae ⟨sc, [], [[]]⟩ body).1]
    dsimp only
    cases hR : execNodes fuel env ae ⟨sc, [], []⟩ body with
    | error er => exact ⟨rfl, balErr _⟩
    | ok p =>
      obtain ⟨st', sig⟩ := p
      cases sig with
      | normal =>
        simp only [reroute, wOut, wCaps, List.nil_append]
        cases evalKwargs fuel env st'.scope kwargs with
        | error er => exact ⟨rfl, balErr _⟩
        | ok kw =>
          dsimp only
          cases applyFilter env name (.str true st'.out) kw with
          | error er => exact ⟨rfl, balErr _⟩
          | ok v => exact writeValue_routing env ae st'.scope out caps v
      | brk => exact ⟨rfl, balErr _⟩
      | cont => exact ⟨rfl, balErr _⟩
  | forLoop key value target body elseBody =>
    simp only [execNode]
    cases evalExpr fuel env sc target with
    | error er => exact ⟨rfl, balErr _⟩
    | ok tv =>
      dsimp only
      cases iterItems tv with
      | none => exact ⟨rfl, balErr _⟩
      | some items =>
        dsimp only
        cases (key.isSome && !tv.isMap)
        · simp only [Bool.false_eq_true, if_false]
          cases key with
          | none =>
            dsimp only
            generalize (ForLoop.new items).storeLocalName value = L
            rw [(ihF ae ⟨sc.pushLoop L, out, caps⟩ body).1]
            have hb := (ihF ae ⟨sc.pushLoop L, out, caps⟩ body).2
            dsimp only at hb ⊢
            cases hR : execFor fuel env ae ⟨sc.pushLoop L, [], []⟩ body with
            | error er => exact ⟨rfl, balErr _⟩
            | ok st1 =>
              have hc : st1.captures = [] := hb st1 hR
              simp only [rerouteSt]
              generalize hd : (!elseBody.isEmpty && match st1.scope.forLoops with
                | l :: _ => !l.iterated
                | [] => false) = d
              cases d with
              | true =>
                simp only [if_true]
                rw [(ihL ae ⟨st1.scope.popLoop, wOut out caps st1.out, wCaps caps st1.out⟩ elseBody).1]
                rw [(ihL ae ⟨st1.scope.popLoop, st1.out, st1.captures⟩ elseBody).1, hc]
                dsimp only
                rw [reroute_comp]
                refine ⟨rfl, ?_⟩
                intro st'' sig' h
                cases hE : execNodes fuel env ae ⟨st1.scope.popLoop, [], []⟩ elseBody with
                | error e => rw [hE] at h; cases h
                | ok q =>
                  rw [hE] at h
                  obtain ⟨s2, g2⟩ := q
                  simp only [reroute] at h
                  injection h with h
                  injection h with h1 h2
                  subst h1
                  rfl
              | false =>
                simp only [Bool.false_eq_true, if_false, reroute]
                exact ⟨trivial, balOk _ _ hc⟩
          | some k =>
            dsimp only
            generalize ((ForLoop.new items).storeLocalName value).storeLocalName k = L
            rw [(ihF ae ⟨sc.pushLoop L, out, caps⟩ body).1]
            have hb := (ihF ae ⟨sc.pushLoop L, out, caps⟩ body).2
            dsimp only at hb ⊢
            cases hR : execFor fuel env ae ⟨sc.pushLoop L, [], []⟩ body with
            | error er => exact ⟨rfl, balErr _⟩
            | ok st1 =>
              have hc : st1.captures = [] := hb st1 hR
              simp only [rerouteSt]
              generalize hd : (!elseBody.isEmpty && match st1.scope.forLoops with
                | l :: _ => !l.iterated
                | [] => false) = d
              cases d with
              | true =>
                simp only [if_true]
                rw [(ihL ae ⟨st1.scope.popLoop, wOut out caps st1.out, wCaps caps st1.out⟩ elseBody).1]
                rw [(ihL ae ⟨st1.scope.popLoop, st1.out, st1.captures⟩ elseBody).1, hc]
                dsimp only
                rw [reroute_comp]
                refine ⟨rfl, ?_⟩
                intro st'' sig' h
                cases hE : execNodes fuel env ae ⟨st1.scope.popLoop, [], []⟩ elseBody with
                | error e => rw [hE] at h; cases h
                | ok q =>
                  rw [hE] at h
                  obtain ⟨s2, g2⟩ := q
                  simp only [reroute] at h
                  injection h with h
                  injection h with h1 h2
                  subst h1
                  rfl
              | false =>
                simp only [Bool.false_eq_true, if_false, reroute]
                exact ⟨trivial, balOk _ _ hc⟩
        · exact ⟨rfl, balErr _⟩

theorem routing (env : Env) : ∀ fuel, RoutingAt env fuel := by
  intro fuel
  induction fuel with
  | zero =>
    refine ⟨?_, ?_, ?_⟩ <;> intro ae st x <;>
      simp [execNode, execNodes, execFor, reroute, rerouteSt, Bal, BalSt]
  | succ n ih =>
    exact ⟨routing_node_step env n ih, routing_nodes_step env n ih, routing_for_step env n ih⟩

end Tera
