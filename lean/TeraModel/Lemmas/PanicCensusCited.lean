/-
Every theorem the accounts of Props/PanicCensus{Add,Render,Builtins}.lean cite by name (their
`excludedBy` fields and the theorems named inside `guarded` reasons), referenced here so that a
renamed or deleted theorem breaks THIS file instead of leaving a dangling name in a string.
Not a property module (the names in the accounts are documentation; this keeps them honest).
-/
import TeraModel.Props.C01
import TeraModel.Props.C06
import TeraModel.Props.C06Parser
import TeraModel.Props.C07Compile
import TeraModel.Props.C07Refs
import TeraModel.Props.C07VmT
import TeraModel.Props.C09
import TeraModel.Props.C10
import TeraModel.Props.C11
import TeraModel.Props.C12
import TeraModel.Props.C14
import TeraModel.Props.C17
import TeraModel.Props.Pipeline
import TeraModel.Lemmas.PipelineReg
namespace Tera.PanicCensus.Cited

-- add time
example := @Tera.C06.lexer_no_panic
example := @Tera.C06Parser.parser_total_no_panic
example := @Tera.C06Parser.parser_total_on_lexer_output
example := @Tera.C06Parser.parsed_ast_scoped
example := @Tera.C07Compile.compile_imperative_agrees
example := @Tera.C07Compile.compile_meets_optimize_hypotheses
example := @Tera.C09.optimize_no_panic
example := @Tera.C11.findParents_total
example := @Tera.C11.includeDFS_total
example := @Tera.Pipeline.add_outcomes_excluded
example := @Tera.Reg.finalize_value
example := @Tera.C07Refs.refs_valid_after_any_history
example := @Tera.C07Refs.no_stale_component
example := @Tera.C10.undo_restores
-- render time
example := @Tera.Pipeline.render_never_panics_T
example := @Tera.Pipeline.engine_never_panics_T_concrete
example := @Tera.C07Vm.vm_render_no_panic_T
example := @Tera.C07Vm.vm_output_valid_utf8_T
example := @Tera.C07Compile.compile_stack_discipline
example := @Tera.C12.report_no_panic
example := @Tera.C12.span_consistent
example := @Tera.C12.expand_consistent
example := @Tera.C12.eoi_consistent
example := @Tera.C14.for_string_loop_by_chars
example := @Tera.C14.for_string_by_chars
-- values and built-ins
example := @Tera.C17.builtins_never_panic
example := @Tera.C01.escape_html_preserves_utf8
example := @Tera.C14.truncate_boundary
example := @Tera.C14.index_spec_array
example := @Tera.C14.index_spec_string
example := @Tera.C14.index_non_integer_error
example := @Tera.C14.slice_no_panic

end Tera.PanicCensus.Cited
