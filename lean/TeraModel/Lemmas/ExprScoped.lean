/-
Every expression the expression parser returns is `Compiler.exprScoped`: no `Is` / `Pipe` binary
node (they become Test / Filter nodes) and no component call with a body anywhere inside it
(inline calls are self-closing).  Glue between the parser model and the hypothesis
`Compiler.templateScoped` of the compiler theorems (Props/C07Compile.lean).
-/
import TeraModel.Lemmas.ExprCounted
import TeraModel.Model.Compiler
namespace Tera.Parser
open Tera Tera.Compiler

theorem kwargsScoped_insert (name : String) (e : Expr) (kw : List (String × Expr))
    (he : exprScoped e = true) (hk : kwargsScoped kw = true) :
    kwargsScoped (Expr.insertKwarg name e kw) = true := by
  induction kw with
  | nil => simp [Expr.insertKwarg, kwargsScoped, he]
  | cons p rest ih =>
    obtain ⟨n, x⟩ := p
    simp only [kwargsScoped, Bool.and_eq_true] at hk
    unfold Expr.insertKwarg
    split
    · simp [kwargsScoped, he, hk.1, hk.2]
    · split
      · simp [kwargsScoped, he, hk.2]
      · simp [kwargsScoped, hk.1, ih hk.2]

theorem arrayItemsScoped_append (a b : List ArrayEntry) :
    arrayItemsScoped (a ++ b) = (arrayItemsScoped a && arrayItemsScoped b) := by
  induction a with
  | nil => simp [arrayItemsScoped]
  | cons x xs ih => cases x <;> simp [arrayItemsScoped, ih, Bool.and_assoc]

theorem mapItemsScoped_append (a b : List MapEntry) :
    mapItemsScoped (a ++ b) = (mapItemsScoped a && mapItemsScoped b) := by
  induction a with
  | nil => simp [mapItemsScoped]
  | cons x xs ih => cases x <;> simp [mapItemsScoped, ih, Bool.and_assoc]

/-- closes the leaves -/
macro "scleaf" : tactic => `(tactic|
  (simp_all [exprScoped, optExprScoped, kwargsScoped, arrayItemsScoped, mapItemsScoped,
     arrayItemsScoped_append, mapItemsScoped_append]))

section
variable {rec : Nat → P Expr} (C : Cfg)
variable (hrec : ∀ m, PW (rec m) (fun e => exprScoped e = true))
include hrec

theorem SC.kwargsLoop : ∀ n acc, kwargsScoped acc = true →
    PW (kwargsLoop rec n acc) (fun kw => kwargsScoped kw = true) := by
  intro n
  induction n with
  | zero => intro _ _; exact PW.fuel
  | succ n ih =>
    intro acc hacc
    unfold Parser.kwargsLoop
    cdtac
    all_goals
      rename_i nm _ v hv
      exact kwargsScoped_insert nm v acc hv hacc

theorem SC.parseKwargs : PW (parseKwargs rec) (fun kw => kwargsScoped kw = true) := by
  have h := SC.kwargsLoop hrec
  unfold Parser.parseKwargs
  cdtac
  all_goals scleaf

theorem SC.parseNameArgs : PW (parseNameArgs rec) (fun r => kwargsScoped r.2 = true) := by
  have h := SC.parseKwargs hrec
  unfold Parser.parseNameArgs
  cdtac
  all_goals scleaf

theorem SC.parseFilter (e : Expr) (he : exprScoped e = true) :
    PW (parseFilter rec e) (fun r => exprScoped r = true) := by
  have h := SC.parseNameArgs hrec
  unfold Parser.parseFilter
  cdtac
  all_goals scleaf

theorem SC.parseTest (e : Expr) (he : exprScoped e = true) :
    PW (parseTest rec e) (fun r => exprScoped r = true) := by
  have h := SC.parseNameArgs hrec
  unfold Parser.parseTest
  cdtac
  all_goals scleaf

theorem SC.subscriptStart : PW (subscriptStart rec) (fun r => optExprScoped r = true) := by
  unfold Parser.subscriptStart
  cdtac
  all_goals scleaf

theorem SC.subscriptSlice :
    PW (subscriptSlice rec) (fun r => match r with
      | (_, stop, step) => optExprScoped stop = true ∧ optExprScoped step = true) := by
  have hstop : PW (do
      if !(← headIs .colon) && !(← headIs .rightBracket) then do
        let x ← rec 0
        pure (some x)
      else pure none : P (Option Expr)) (fun r => optExprScoped r = true) := by
    cdtac
    all_goals scleaf
  have hstep : PW (do
      if (← headIs .colon) then do
        expect .colon
        let x ← rec 0
        pure (some x)
      else pure none : P (Option Expr)) (fun r => optExprScoped r = true) := by
    cdtac
    all_goals scleaf
  unfold Parser.subscriptSlice
  cdtac
  all_goals scleaf

theorem SC.parseSubscript (e : Expr) (he : exprScoped e = true) :
    PW (parseSubscript C rec e) (fun r => exprScoped r = true) := by
  have h1 := SC.subscriptStart hrec
  have h2 := SC.subscriptSlice hrec
  have hout : ∀ (slice : Bool) start stop step o, optExprScoped start = true →
      optExprScoped stop = true → optExprScoped step = true →
      PW (if slice then Pure.pure (.slice e start stop step o)
      else match start with
        | some s => Pure.pure (.getItem e s o)
        | none => P.panic "parser.rs:277 expect(to have an expr)" : P Expr)
        (fun r => exprScoped r = true) := by
    intros
    cdtac
    all_goals scleaf
  unfold Parser.parseSubscript
  cdtac
  all_goals scleaf

theorem SC.identChain (ident : String) : ∀ n e, exprScoped e = true →
    PW (identChain C rec ident n e) (fun r => exprScoped r = true) := by
  have hs := SC.parseSubscript C hrec
  intro n
  induction n with
  | zero => intro e _; exact PW.fuel
  | succ n ih =>
    intro e he
    unfold Parser.identChain
    cdtac
    all_goals scleaf

theorem SC.parseIdent (ident : String) : PW (parseIdent C rec ident) (fun r => exprScoped r = true) := by
  have hc := SC.identChain C hrec ident
  have hk := SC.parseKwargs hrec
  unfold Parser.parseIdent
  cdtac
  all_goals scleaf

theorem SC.mapLoop : ∀ n acc lit, mapItemsScoped acc = true →
    PW (mapLoop rec n acc lit) (fun r => mapItemsScoped r.1 = true) := by
  intro n
  induction n with
  | zero => intro _ _ _; exact PW.fuel
  | succ n ih =>
    intro acc lit hacc
    unfold Parser.mapLoop
    cdtac
    all_goals scleaf

theorem SC.parseMap : PW (parseMap rec) (fun r => exprScoped r = true) := by
  have h := SC.mapLoop hrec
  unfold Parser.parseMap
  cdtac
  all_goals scleaf

theorem SC.parseListComprehension (e : Expr) (he : exprScoped e = true) :
    PW (parseListComprehension C rec e) (fun r => exprScoped r = true) := by
  have hcond : PW (do
      if (← headIs (.ident "if")) then do
        let _ ← nextOrError
        let c ← rec (C.bp.ternary + 1)
        pure (some c)
      else pure none : P (Option Expr)) (fun r => optExprScoped r = true) := by
    cdtac
    all_goals scleaf
  unfold Parser.parseListComprehension
  cdtac
  all_goals scleaf

/-- what the array loop hands back -/
def ArrSC : ArrayLoopOut → Prop
  | .comprehension lc => exprScoped lc = true
  | .items xs _ => arrayItemsScoped xs = true

theorem SC.arrayLoop : ∀ n acc lit, arrayItemsScoped acc = true →
    PW (arrayLoop C rec n acc lit) ArrSC := by
  have hl := SC.parseListComprehension C hrec
  intro n
  induction n with
  | zero => intro _ _ _; exact PW.fuel
  | succ n ih =>
    intro acc lit hacc
    unfold Parser.arrayLoop
    cdtac
    all_goals first | scleaf | (simp only [ArrSC]; scleaf)

theorem SC.parseArray : PW (parseArray C rec) (fun r => exprScoped r = true) := by
  unfold Parser.parseArray
  refine PW.bind' (fun _ => ?_)
  apply PW.ite
  · exact PW.err
  · refine PW.bind' (fun _ => ?_)
    refine PW.bind (SC.arrayLoop C hrec _ _ _ (by simp [arrayItemsScoped])) (fun out h => ?_)
    cases out with
    | comprehension lc => exact PW.pure h
    | items xs lit =>
      simp only [ArrSC] at h
      dsimp only
      cdtac
      all_goals scleaf

theorem SC.componentAttributes : ∀ n acc, mapItemsScoped acc = true →
    PW (componentAttributes rec n acc) (fun r => mapItemsScoped r = true) := by
  intro n
  induction n with
  | zero => intro _ _; exact PW.fuel
  | succ n ih =>
    intro acc hacc
    have hval : ∀ name : String, PW (do
        if (← headIs .assign) then do
          let _ ← nextOrError
          match (← peekOk) with
          | some (.str s) => do
            let _ ← nextOrError
            pure (.const (.str false s.toList))
          | some .leftBrace => do
            let _ ← nextOrError
            let x ← rec 0
            expect .rightBrace
            pure x
          | _ => P.err
        else pure (.var name) : P Expr) (fun r => exprScoped r = true) := by
      intro name
      cdtac
      all_goals scleaf
    unfold Parser.componentAttributes
    cdtac
    all_goals scleaf

theorem SC.parseInlineComponentCall :
    PW (parseInlineComponentCall rec) (fun r => exprScoped r = true) := by
  have h := SC.componentAttributes hrec
  unfold Parser.parseInlineComponentCall
  cdtac
  all_goals scleaf

theorem SC.parseOperand (op : BinaryOperator) (r : Nat) (lhs : Expr) (hl : exprScoped lhs = true) :
    PW (parseOperand rec op r lhs) (fun r => exprScoped r = true) := by
  have h1 := SC.parseTest hrec
  have h2 := SC.parseFilter hrec
  unfold Parser.parseOperand
  cdtac
  all_goals (cases op <;> scleaf)

theorem SC.prattLoop (minBp : Nat) : ∀ n lhs neg, exprScoped lhs = true →
    PW (prattLoop C rec minBp n lhs neg) (fun r => exprScoped r = true) := by
  have hs := SC.parseSubscript C hrec
  have ho := SC.parseOperand hrec
  intro n
  induction n with
  | zero => intro _ _ _; exact PW.fuel
  | succ n ih =>
    intro lhs neg hl
    unfold Parser.prattLoop
    cdtac
    all_goals scleaf

theorem SC.parsePrefix : PW (parsePrefix C rec) (fun r => exprScoped r = true) := by
  have h1 := SC.parseIdent C hrec
  have h2 := SC.parseInlineComponentCall hrec
  have h3 := SC.parseMap hrec
  have h4 := SC.parseArray C hrec
  unfold Parser.parsePrefix
  cdtac
  all_goals scleaf

theorem SC.parseExprBp (minBp : Nat) : PW (parseExprBp C rec minBp) (fun r => exprScoped r = true) := by
  have hp := SC.parsePrefix C hrec
  have hl := SC.prattLoop C hrec minBp
  unfold Parser.parseExprBp
  cdtac
  all_goals scleaf

end

/-- **every parsed expression is scoped** -/
theorem SC.innerParseExpression (C : Cfg) :
    ∀ b m, PW (innerParseExpression C b m) (fun e => exprScoped e = true) := by
  intro b
  induction b with
  | zero => intro _; exact PW.err
  | succ b ih => intro m; exact SC.parseExprBp C ih m

end Tera.Parser
