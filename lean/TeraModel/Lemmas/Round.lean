/-
Helper lemmas for C17 conversions: integral floats, `f64::round / floor / ceil` on the exact
dyadic model.
-/
import TeraModel.Lemmas.Range
import TeraModel.Lemmas.Builtins
namespace Tera.Builtins
open Tera Tera.Args

theorem den_pos (x : F64) : 0 < x.den := by
  cases x <;> simp [F64.den]

/-- `floatIntegral x = .int n` means: `x` is finite and its exact value is the integer `n`. -/
theorem floatIntegral_int_iff (x : F64) (n : Int) :
    floatIntegral x = .int n ↔ (x.isFinite = true ∧ x.num = n * (x.den : Int)) := by
  have hd := den_pos x
  have hd' : (x.den : Int) ≠ 0 := by omega
  cases x with
  | nan => simp [floatIntegral, F64.isFinite]
  | inf s => simp [floatIntegral, F64.isFinite]
  | fin neg m e =>
    simp only [floatIntegral, F64.isFinite, true_and]
    generalize hnum : (F64.fin neg m e).num = a at *
    generalize hden : ((F64.fin neg m e).den : Int) = d at *
    simp only [F64.fractIsZero, F64.truncInt, hnum, hden]
    constructor
    · intro h
      split at h
      · rename_i hz
        have hz' : a % d = 0 := by simpa using hz
        have hdiv : d ∣ a := Int.dvd_of_emod_eq_zero hz'
        cases h
        exact (Int.tdiv_mul_cancel hdiv).symm
      · cases h
    · intro h
      subst h
      simp [Int.mul_tdiv_cancel _ hd']

theorem roundF_spec (neg : Bool) (m : Nat) (e : Int) :
    ∃ k : Nat, (F64.fin neg m e).roundF = .fin neg k 0 ∧
      2 * (F64.fin neg m e).num.natAbs < (2 * k + 1) * (F64.fin neg m e).den ∧
      2 * k * (F64.fin neg m e).den ≤ 2 * (F64.fin neg m e).num.natAbs + (F64.fin neg m e).den := by
  have hd := den_pos (F64.fin neg m e)
  simp only [F64.roundF, F64.ofSignedNat]
  generalize (F64.fin neg m e).num.natAbs = a at *
  generalize hdd : (F64.fin neg m e).den = d at *
  have hdm := Nat.div_add_mod a d
  have hlt := Nat.mod_lt a hd
  generalize hq : a / d = q at *
  generalize hr : a % d = r at *
  by_cases hc : 2 * r ≥ d
  · refine ⟨q + 1, by simp [hc], ?_, ?_⟩
    · have : (2 * (q + 1) + 1) * d = 2 * (d * q) + 3 * d := by ring
      omega
    · have : 2 * (q + 1) * d = 2 * (d * q) + 2 * d := by ring
      omega
  · refine ⟨q, by simp [hc], ?_, ?_⟩
    · have : (2 * q + 1) * d = 2 * (d * q) + d := by ring
      omega
    · have : 2 * q * d = 2 * (d * q) := by ring
      omega

theorem ofSignedNat_num (s : Bool) (k : Nat) : (F64.ofSignedNat s k).num = if s then -(k : Int) else (k : Int) := by
  cases s <;> simp [F64.ofSignedNat, F64.num]

theorem floorF_spec (neg : Bool) (m : Nat) (e : Int) :
    let x := F64.fin neg m e
    x.floorF.num = x.floorInt ∧ x.floorF.den = 1 ∧
      x.floorInt * (x.den : Int) ≤ x.num ∧ x.num < (x.floorInt + 1) * (x.den : Int) := by
  intro x
  have hd : (0 : Int) < (x.den : Int) := by have := den_pos x; omega
  obtain ⟨q1, q2⟩ := ediv_facts x.num (x.den : Int) hd
  refine ⟨?_, ?_, q1, q2⟩
  · have hf : x.floorF = F64.ofSignedNat (if x.floorInt = 0 then neg else decide (x.floorInt < 0)) x.floorInt.natAbs := rfl
    rw [hf, ofSignedNat_num]
    generalize x.floorInt = n
    by_cases h0 : n = 0
    · simp [h0]
    · simp only [h0, if_false]
      by_cases hn : n < 0
      · simp only [hn, decide_true, if_true]; omega
      · simp only [hn, decide_false, Bool.false_eq_true, if_false]; omega
  · rfl

theorem ceilF_spec (neg : Bool) (m : Nat) (e : Int) :
    let x := F64.fin neg m e
    ∃ c : Int, x.ceilF.num = c ∧ x.ceilF.den = 1 ∧
      (c - 1) * (x.den : Int) < x.num ∧ x.num ≤ c * (x.den : Int) := by
  intro x
  have hd : (0 : Int) < (x.den : Int) := by have := den_pos x; omega
  obtain ⟨q1, q2⟩ := ediv_facts (-x.num) (x.den : Int) hd
  refine ⟨-((-x.num) / (x.den : Int)), ?_, rfl, ?_, ?_⟩
  · have hf : x.ceilF = F64.ofSignedNat (if -((-x.num) / (x.den : Int)) = 0 then neg else decide (-((-x.num) / (x.den : Int)) < 0)) (-((-x.num) / (x.den : Int))).natAbs := rfl
    rw [hf, ofSignedNat_num]
    generalize -((-x.num) / (x.den : Int)) = c
    by_cases h0 : c = 0
    · simp [h0]
    · simp only [h0, if_false]
      by_cases hn : c < 0
      · simp only [hn, decide_true, if_true]; omega
      · simp only [hn, decide_false, Bool.false_eq_true, if_false]; omega
  · nlinarith
  · nlinarith
end Tera.Builtins
