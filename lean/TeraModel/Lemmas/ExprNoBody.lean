/-
The expression parser never builds a component call WITH A BODY: the only `ComponentCall` it can
return at the top of an expression is the self-closing one (`<name .. />`, empty body).  Needed by
the break/continue legality and block theorems of Props/C06Parser.lean, whose tree walk descends
into the body of a `{% <name ..> %} … {% </name> %}` node (built by `parse_component_with_body`,
statement level) and must know that a `{{ expr }}` node has no such body.
-/
import TeraModel.Model.ExprParser
namespace Tera.Parser
open Tera

/-- the body of a component call written with the tag syntax (not self-closing) -/
def _root_.Tera.Expr.openBody : Expr → List Node
  | .componentCall _ _ body false => body
  | _ => []

/-- partial-correctness assertion on the VALUE of an expression-level parser -/
def PW (x : P α) (Q : α → Prop) : Prop := ∀ s, match x s with | .ok a _ => Q a | _ => True

theorem PW.bind {x : P α} {f : α → P β} {Q1 : α → Prop} {Q : β → Prop}
    (hx : PW x Q1) (hf : ∀ a, Q1 a → PW (f a) Q) : PW (x >>= f) Q := by
  intro s
  have h1 := hx s
  show match P.bind x f s with | .ok a _ => Q a | _ => True
  unfold P.bind
  cases h : x s with
  | ok a s' => rw [h] at h1; exact hf a h1 s'
  | err => trivial
  | panic m => trivial
  | fuel => trivial

theorem PW.triv (x : P α) : PW x (fun _ => True) := by
  intro s; cases x s <;> trivial

theorem PW.bind' {x : P α} {f : α → P β} {Q : β → Prop} (hf : ∀ a, PW (f a) Q) :
    PW (x >>= f) Q := PW.bind (PW.triv x) (fun a _ => hf a)

theorem PW.pure {Q : α → Prop} {a : α} (h : Q a) : PW (Pure.pure a : P α) Q := fun _ => h
theorem PW.err {Q : α → Prop} : PW (P.err : P α) Q := fun _ => trivial
theorem PW.fuel {Q : α → Prop} : PW (P.fuel : P α) Q := fun _ => trivial
theorem PW.panic {Q : α → Prop} {m : String} : PW (P.panic m : P α) Q := fun _ => trivial

theorem PW.ite {Q : α → Prop} {c : Prop} [Decidable c] {a b : P α} (ha : PW a Q) (hb : PW b Q) :
    PW (if c then a else b) Q := by split <;> assumption

theorem PW.elim {x : P α} {Q : α → Prop} (h : PW x Q) {s a s'} (hx : x s = .ok a s') : Q a := by
  have := h s; rw [hx] at this; exact this

attribute [irreducible] PW

/-- an expression whose top constructor is not an open component call -/
abbrev Closed (e : Expr) : Prop := e.openBody = []

macro "pwtac" : tactic => `(tactic|
  repeat (first
    | with_reducible exact PW.err
    | with_reducible exact PW.fuel
    | with_reducible exact PW.panic
    | with_reducible exact trivial
    | with_reducible assumption
    | (show Closed _; exact rfl)
    | with_reducible refine PW.pure ?_
    | with_reducible apply_assumption -exfalso
    | (with_reducible refine PW.bind (Q1 := Closed) ?_ (fun _ _ => ?_); focus (with_reducible apply_assumption -exfalso))
    | with_reducible refine PW.bind' (fun _ => ?_)
    | with_reducible apply PW.ite
    | dsimp only
    | split))

section
variable {rec : Nat → P Expr} (C : Cfg)

theorem PW.parseFilter (e : Expr) : PW (parseFilter rec e) Closed := by
  unfold Parser.parseFilter; pwtac
theorem PW.parseTest (e : Expr) : PW (parseTest rec e) Closed := by
  unfold Parser.parseTest; pwtac
theorem PW.parseSubscript (e : Expr) : PW (parseSubscript C rec e) Closed := by
  have hout : ∀ (slice : Bool) start stop step o, PW (if slice then Pure.pure (.slice e start stop step o)
      else match start with
        | some s => Pure.pure (.getItem e s o)
        | none => P.panic "parser.rs:277 expect(to have an expr)" : P Expr) Closed := by
    intros; pwtac
  unfold Parser.parseSubscript; pwtac

theorem PW.identChain (ident : String) : ∀ n e, Closed e → PW (identChain C rec ident n e) Closed := by
  have hs := PW.parseSubscript (rec := rec) C
  intro n
  induction n with
  | zero => intro e _; exact PW.fuel
  | succ n ih =>
    intro e he
    unfold Parser.identChain
    pwtac

theorem PW.parseIdent (ident : String) : PW (parseIdent C rec ident) Closed := by
  have hc := PW.identChain (rec := rec) C ident
  unfold Parser.parseIdent
  pwtac

theorem PW.parseMap : PW (parseMap rec) Closed := by
  unfold Parser.parseMap; pwtac

theorem PW.parseListComprehension (e : Expr) : PW (parseListComprehension C rec e) Closed := by
  unfold Parser.parseListComprehension; pwtac

/-- what the array loop hands back: a comprehension is closed -/
def ArrOK : ArrayLoopOut → Prop
  | .comprehension lc => Closed lc
  | .items .. => True

theorem PW.arrayLoop : ∀ n acc lit, PW (arrayLoop C rec n acc lit) ArrOK := by
  have hl := PW.parseListComprehension (rec := rec) C
  intro n
  induction n with
  | zero => intro _ _; exact PW.fuel
  | succ n ih =>
    intro acc lit
    unfold Parser.arrayLoop
    pwtac

theorem PW.parseArray : PW (parseArray C rec) Closed := by
  unfold Parser.parseArray
  refine PW.bind' (fun _ => ?_)
  split
  · exact PW.err
  · refine PW.bind' (fun _ => ?_)
    refine PW.bind (PW.arrayLoop C _ _ _) (fun out h => ?_)
    cases out with
    | comprehension lc => exact PW.pure h
    | items xs lit => dsimp only; pwtac

theorem PW.parseInlineComponentCall : PW (parseInlineComponentCall rec) Closed := by
  unfold Parser.parseInlineComponentCall; pwtac

theorem PW.parseOperand (op : BinaryOperator) (r : Nat) (lhs : Expr) :
    PW (parseOperand rec op r lhs) Closed := by
  have h1 := PW.parseTest (rec := rec)
  have h2 := PW.parseFilter (rec := rec)
  unfold Parser.parseOperand
  pwtac

variable (hrec : ∀ m, PW (rec m) Closed)
include hrec

theorem PW.prattLoop (minBp : Nat) : ∀ n lhs neg, Closed lhs → PW (prattLoop C rec minBp n lhs neg) Closed := by
  have hs := PW.parseSubscript (rec := rec) C
  have ho := PW.parseOperand (rec := rec)
  intro n
  induction n with
  | zero => intro _ _ _; exact PW.fuel
  | succ n ih =>
    intro lhs neg hl
    unfold Parser.prattLoop
    pwtac

theorem PW.parsePrefix : PW (parsePrefix C rec) Closed := by
  have h1 := PW.parseIdent (rec := rec) C
  have h2 := PW.parseInlineComponentCall (rec := rec)
  have h3 := PW.parseMap (rec := rec)
  have h4 := PW.parseArray (rec := rec) C
  unfold Parser.parsePrefix
  pwtac

theorem PW.parseExprBp (minBp : Nat) : PW (parseExprBp C rec minBp) Closed := by
  have hp := PW.parsePrefix C hrec
  have hl := PW.prattLoop C hrec minBp
  unfold Parser.parseExprBp
  pwtac

end

/-- **the expression parser returns no open component call** -/
theorem PW.innerParseExpression (C : Cfg) : ∀ b m, PW (innerParseExpression C b m) Closed := by
  intro b
  induction b with
  | zero => intro _; exact PW.err
  | succ b ih => intro m; exact PW.parseExprBp C ih m

end Tera.Parser
