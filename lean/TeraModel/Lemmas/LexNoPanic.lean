/-
No panic in the tokenizer (C06): on valid UTF-8 with an accepted delimiter set every `split_at` /
slice of `basic_tokenize` happens on a char boundary, `windows` never gets size 0 and the two
`unreachable!`s are unreachable.
-/
import TeraModel.Lemmas.LexProgress
namespace Tera.Utf8

theorem isBoundary_at_noncont {s : Bytes} {j : Nat} (hj : j < s.length) (hc : isCont s[j] = false) :
    isBoundary s j = true := by
  unfold isBoundary
  rw [List.drop_eq_getElem_cons hj]
  simp [startsChar, hc]; omega

/-- in a valid string the position after an ASCII byte is a char boundary -/
theorem isBoundary_succ_ascii {s : Bytes} (hv : valid s = true) {j : Nat} (hj : j < s.length)
    (ha : s[j] < 0x80) : isBoundary s (j + 1) = true := by
  have hbj : isBoundary s j = true := isBoundary_at_noncont hj (not_cont_of_lt ha)
  have hd := valid_drop hv j hbj
  rw [List.drop_eq_getElem_cons hj, valid_cons_ascii _ ha] at hd
  have := startsChar_of_valid hd
  unfold isBoundary
  simp [this]; omega

/-- a position all of whose preceding bytes... it suffices that the byte just before is ASCII -/
theorem isBoundary_of_last_ascii {s : Bytes} (hv : valid s = true) {n : Nat} (hn : n ≤ s.length)
    (hlast : n = 0 ∨ ∃ h : n - 1 < s.length, s[n - 1] < 0x80) : isBoundary s n = true := by
  rcases hlast with rfl | ⟨h, ha⟩
  · exact isBoundary_zero s
  · cases n with
    | zero => exact isBoundary_zero s
    | succ m => exact isBoundary_succ_ascii hv (by simpa using h) (by simpa using ha)

theorem startsChar_take {x : Bytes} (m : Nat) (h : startsChar x = true) : startsChar (x.take m) = true := by
  cases x with
  | nil => simp [startsChar]
  | cons a t =>
    cases m with
    | zero => simp [startsChar]
    | succ k => simpa [startsChar] using h

theorem isBoundary_take {s : Bytes} {k n : Nat} (h : isBoundary s k = true) (hk : k ≤ n) :
    isBoundary (s.take n) k = true := by
  have hle := isBoundary_le h
  unfold isBoundary at h ⊢
  simp only [Bool.or_eq_true, beq_iff_eq, Bool.and_eq_true, decide_eq_true_eq] at h ⊢
  rcases h with h | ⟨_, h⟩
  · exact Or.inl h
  · right
    refine ⟨by simp; omega, ?_⟩
    rw [List.drop_take]
    exact startsChar_take _ h

/-- a match of a valid non-empty string inside a valid string starts and ends on a char boundary -/
theorem isBoundary_match {s x : Bytes} (hv : valid s = true) (hx : valid x = true) (hne : x ≠ [])
    {i : Nat} (hp : x.isPrefixOf (s.drop i) = true) :
    isBoundary s i = true ∧ isBoundary s (i + x.length) = true ∧ i + x.length ≤ s.length := by
  obtain ⟨t, ht⟩ := List.isPrefixOf_iff_prefix.mp hp
  cases x with
  | nil => exact absurd rfl hne
  | cons a x' =>
    have hi : i < s.length := by
      rcases Nat.lt_or_ge i s.length with h | h
      · exact h
      · rw [List.drop_eq_nil_of_le h] at ht; simp at ht
    have hsi : s[i] = a := by
      have := List.drop_eq_getElem_cons hi
      rw [this] at ht
      simp only [List.cons_append, List.cons.injEq] at ht
      exact ht.1.symm
    have hbi : isBoundary s i = true :=
      isBoundary_at_noncont hi (by rw [hsi]; exact valid_head_not_cont hx)
    have hvd := valid_drop hv i hbi
    rw [← ht] at hvd
    have hb2 := isBoundary_after_prefix hx t hvd
    rw [ht] at hb2
    have hlen : (a :: x').length ≤ (s.drop i).length := by rw [← ht]; simp
    simp only [List.length_drop] at hlen
    refine ⟨hbi, ?_, by omega⟩
    unfold isBoundary at hb2 ⊢
    simp only [Bool.or_eq_true, beq_iff_eq, Bool.and_eq_true, decide_eq_true_eq] at hb2 ⊢
    right
    refine ⟨by omega, ?_⟩
    rcases hb2 with h0 | ⟨_, h2⟩
    · simp at h0
    · simpa [List.drop_drop] using h2

end Tera.Utf8

namespace Tera.Lexer
open Tera Utf8 Generated

def Step.isPanic : Step → Bool
  | .panic _ => true
  | _ => false

theorem isBoundary_ascii_run {s : Bytes} (hv : valid s = true) {n : Nat} (hn : n ≤ s.length)
    (hall : ∀ b ∈ s.take n, b < 0x80) : isBoundary s n = true := by
  apply isBoundary_of_last_ascii hv hn
  cases n with
  | zero => exact Or.inl rfl
  | succ m =>
    right
    have hm : m < s.length := by omega
    refine ⟨by simpa using hm, ?_⟩
    apply hall
    have : (s.take (m + 1))[m]'(by simp; omega) = s[m] := by simp
    simp only [Nat.add_sub_cancel]
    rw [← this]
    exact List.getElem_mem _

theorem head?_getElem {s : Bytes} {c : Nat} (h : s.head? = some c) : ∃ h0 : 0 < s.length, s[0] = c := by
  cases s with
  | nil => simp at h
  | cons a t => simp at h; exact ⟨by simp, by simpa using h⟩

theorem emitAfter_ok {p0 : Pos} {n : Nat} (hb : isBoundary p0.rest n = true) (tok : Token) (st : List State) :
    (emitAfter p0 n tok st).isPanic = false := by
  obtain ⟨p', hp⟩ := advance_of_boundary hb
  simp [emitAfter, hp, Step.isPanic]

theorem checkWsStart_ok {p : Pos} (hv : valid p.rest = true) (hb : isBoundary p.rest 2 = true) :
    ∃ ws p', checkWsStart p = .ok (ws, p') := by
  unfold checkWsStart
  split
  · rename_i h2
    obtain ⟨hlt, heq⟩ := List.getElem?_eq_some_iff.mp h2
    have hb3 : isBoundary p.rest 3 = true := isBoundary_succ_ascii hv hlt (by rw [heq]; decide)
    obtain ⟨p', hp⟩ := advance_of_boundary hb3
    exact ⟨true, p', by simp [hp]⟩
  · obtain ⟨p', hp⟩ := advance_of_boundary hb
    exact ⟨false, p', by simp [hp]⟩

theorem getRange_boundary {s x : Bytes} {a b : Nat} (h : getRange s a b = some x) :
    isBoundary s b = true ∧ b ≤ s.length := by
  unfold getRange at h
  split at h
  · rename_i hc; exact ⟨hc.2.2.2, hc.2.1⟩
  · cases h

theorem isAsciiWs_lt {b : Nat} (h : isAsciiWs b = true) : b < 0x80 := by
  simp [isAsciiWs] at h; omega

theorem wsLen_le (s : Bytes) : wsLen s ≤ s.length := by
  induction s with
  | nil => simp [wsLen]
  | cons b t ih => unfold wsLen; split <;> simp <;> omega

theorem wsLen_boundary {s : Bytes} (hv : valid s = true) : isBoundary s (wsLen s) = true := by
  apply isBoundary_ascii_run hv (wsLen_le s)
  intro b hb
  have := wsLen_take_all s
  rw [List.all_eq_true] at this
  exact isAsciiWs_lt (this b hb)

theorem numLen_run (s : Bytes) : ∀ f, (numLen f s).1 ≤ s.length ∧ ∀ b ∈ s.take (numLen f s).1, b < 0x80 := by
  induction s with
  | nil => intro f; simp [numLen]
  | cons c t ih =>
    intro f
    unfold numLen
    split
    · rename_i hc
      have := ih true
      refine ⟨by simp; omega, ?_⟩
      intro b hb
      simp only [List.take_succ_cons, List.mem_cons] at hb
      rcases hb with rfl | hb
      · simp at hc; omega
      · exact this.2 b hb
    · split
      · rename_i hd
        have := ih f
        refine ⟨by simp; omega, ?_⟩
        intro b hb
        simp only [List.take_succ_cons, List.mem_cons] at hb
        rcases hb with rfl | hb
        · simp [isAsciiDigit] at hd; omega
        · exact this.2 b hb
      · simp

theorem isAsciiAlpha_lt {b : Nat} (h : isAsciiAlpha b = true) : b < 0x80 := by
  simp [isAsciiAlpha] at h; omega
theorem isAsciiAlnum_lt {b : Nat} (h : isAsciiAlnum b = true) : b < 0x80 := by
  simp [isAsciiAlnum, isAsciiAlpha, isAsciiDigit] at h; omega

theorem identLen_run (s : Bytes) : ∀ idx, identLen idx s ≤ s.length ∧ ∀ b ∈ s.take (identLen idx s), b < 0x80 := by
  induction s with
  | nil => intro idx; simp [identLen]
  | cons c t ih =>
    intro idx
    have := ih (idx + 1)
    unfold identLen
    split
    · rename_i hc
      refine ⟨by simp; omega, ?_⟩
      intro b hb
      simp only [List.take_succ_cons, List.mem_cons] at hb
      rcases hb with rfl | hb
      · omega
      · exact this.2 b hb
    · split
      · split
        · rename_i ha
          refine ⟨by simp; omega, ?_⟩
          intro b hb
          simp only [List.take_succ_cons, List.mem_cons] at hb
          rcases hb with rfl | hb
          · exact isAsciiAlpha_lt ha
          · exact this.2 b hb
        · simp
      · split
        · rename_i ha
          refine ⟨by simp; omega, ?_⟩
          intro b hb
          simp only [List.take_succ_cons, List.mem_cons] at hb
          rcases hb with rfl | hb
          · exact isAsciiAlnum_lt ha
          · exact this.2 b hb
        · simp

theorem lexNumber_ok {p0 : Pos} (hv : valid p0.rest = true) (st : List State) :
    (lexNumber p0 st).isPanic = false := by
  unfold lexNumber
  have hr := numLen_run p0.rest false
  generalize numLen false p0.rest = r at *
  obtain ⟨n, f⟩ := r
  simp only at hr ⊢
  obtain ⟨p', hp⟩ := advance_of_boundary (isBoundary_ascii_run hv hr.1 hr.2)
  rw [hp]
  simp only
  repeat' split
  all_goals simp [Step.isPanic]

/-- table fact: every string quote is an ASCII byte -/
theorem stringQuotes_ascii : ∀ c ∈ stringQuotes, c < 0x80 := by decide

theorem lexString_ok {p0 : Pos} (hv : valid p0.rest = true) {c : Nat} (hc : c < 0x80)
    (hhead : p0.rest.head? = some c) (st : List State) : (lexString c p0 st).isPanic = false := by
  unfold lexString
  generalize strLen c false false (p0.rest.drop 1) = r
  obtain ⟨n, f⟩ := r
  simp only
  split
  · simp [Step.isPanic]
  · rename_i hclose
    have hclose' : p0.rest[n + 1]? = some c := by simpa using hclose
    obtain ⟨hlt, heq⟩ := List.getElem?_eq_some_iff.mp hclose'
    have hb : isBoundary p0.rest (n + 2) = true := isBoundary_succ_ascii hv hlt (by rw [heq]; exact hc)
    obtain ⟨p', hp⟩ := advance_of_boundary hb
    rw [hp]
    simp only
    -- the slice &s[1..s.len()-1] of s = rest.take (n+2)
    obtain ⟨h0, hq⟩ := head?_getElem hhead
    have hb1 : isBoundary p0.rest 1 = true := isBoundary_succ_ascii hv h0 (by rw [hq]; exact hc)
    have hbn : isBoundary p0.rest (n + 1) = true :=
      isBoundary_at_noncont hlt (by rw [heq]; exact not_cont_of_lt hc)
    have hlen : (p0.rest.take (n + 2)).length = n + 2 := by simp; omega
    have hs : slice? (p0.rest.take (n + 2)) 1 ((p0.rest.take (n + 2)).length - 1)
        = some (((p0.rest.take (n + 2)).drop 1).take ((p0.rest.take (n + 2)).length - 1 - 1)) := by
      unfold slice? getRange
      rw [hlen]
      have e : n + 2 - 1 = n + 1 := by omega
      rw [e]
      have b1 := isBoundary_take (n := n + 2) hb1 (by omega)
      have b2 := isBoundary_take (n := n + 2) hbn (by omega)
      simp [b1, b2, hlen]
    rw [hs]
    simp only
    repeat' split
    all_goals simp [Step.isPanic]

/-- table facts: the operator tables hold ASCII bytes only -/
theorem ops1_ascii : ∀ e ∈ ops1, e.1 < 0x80 := by decide
theorem ops2_ascii : ∀ e ∈ ops2, ∀ b ∈ e.1, b < 0x80 := by decide
theorem spread_ascii : ∀ b ∈ spreadBytes, b < 0x80 := by decide

theorem lookup_mem {α β : Type} [BEq α] [LawfulBEq α] {l : List (α × β)} {k : α} {v : β}
    (h : l.lookup k = some v) : (k, v) ∈ l := by
  induction l with
  | nil => simp [List.lookup] at h
  | cons hd tl ih =>
    obtain ⟨k', v'⟩ := hd
    simp only [List.lookup] at h
    split at h
    · rename_i hk
      simp only [Option.some.injEq] at h
      have : k = k' := by simpa using hk
      subst this; subst h; simp
    · exact List.mem_cons_of_mem _ (ih h)

theorem lexExprToken_ok {p0 : Pos} (hv : valid p0.rest = true) (st : List State) :
    (lexExprToken p0 st).isPanic = false := by
  unfold lexExprToken
  simp only
  split
  · rename_i hsp
    apply emitAfter_ok
    have hlen : spreadBytes.length ≤ p0.rest.length := by
      have := congrArg List.length hsp
      simp at this; omega
    exact isBoundary_ascii_run hv hlen (by rw [hsp]; exact spread_ascii)
  · split
    · rename_i o ho
      apply emitAfter_ok
      unfold lookupOp2 at ho
      split at ho
      · rename_i a b t hr
        have hm := lookup_mem ho
        have hl : 2 ≤ p0.rest.length := by rw [hr]; simp
        have ht : p0.rest.take 2 = [a, b] := by rw [hr]; simp
        exact isBoundary_ascii_run hv hl (by rw [ht]; exact ops2_ascii _ hm)
      · cases ho
    · split
      · simp [Step.isPanic]
      · rename_i c hc
        obtain ⟨h0, hq⟩ := head?_getElem hc
        split
        · rename_i o ho
          apply emitAfter_ok
          have := ops1_ascii _ (lookup_mem ho)
          exact isBoundary_succ_ascii hv h0 (by rw [hq]; exact this)
        · split
          · rename_i hqm
            have : c ∈ stringQuotes := by simpa using hqm
            exact lexString_ok hv (stringQuotes_ascii c this) hc st
          · split
            · exact lexNumber_ok hv st
            · split
              · have hr := identLen_run p0.rest 0
                obtain ⟨p', hp⟩ := advance_of_boundary (isBoundary_ascii_run hv hr.1 hr.2)
                rw [hp]
                simp only
                split <;> simp [Step.isPanic]
              · simp [Step.isPanic]

theorem endCheck_ok {p0 : Pos} {below : List State} {e : Bytes} {mk : Bool → Token} {s : Step}
    (h : endCheck p0 below e mk = some s) : s.isPanic = false := by
  unfold endCheck at h
  split at h
  · rename_i hc
    cases h
    exact emitAfter_ok (getRange_boundary hc.2).1 _ _
  · split at h
    · rename_i hc
      cases h
      exact emitAfter_ok (getRange_boundary hc).1 _ _
    · cases h

theorem stepInTag_ok (d : Delims) {p0 : Pos} (hv : valid p0.rest = true) {top : State} (ht : top ≠ .template)
    (below : List State) : (stepInTag d p0 top below).isPanic = false := by
  unfold stepInTag
  simp only
  split
  · obtain ⟨p', hp⟩ := advance_of_boundary (wsLen_boundary hv)
    rw [hp]; simp [Step.isPanic]
  · split
    · split
      · rename_i s hs; exact endCheck_ok hs
      · exact lexExprToken_ok hv _
    · split
      · rename_i s hs; exact endCheck_ok hs
      · exact lexExprToken_ok hv _
    · exact absurd rfl ht

end Tera.Lexer

namespace Tera.Lexer
open Tera Utf8 Generated

/-- `ptr` is the suffix of `s` starting at the char boundary `k` -/
def Suf (s : Bytes) (k : Nat) (ptr : Bytes) : Prop := ptr = s.drop k ∧ isBoundary s k = true

theorem stripDash_suf {s ptr : Bytes} {k : Nat} (hv : valid s = true) (h : Suf s k ptr) :
    ∃ k', Suf s k' (stripDash ptr).1 := by
  obtain ⟨hp, hb⟩ := h
  unfold stripDash
  split
  · rename_i t
    have hk : k < s.length := by
      rcases Nat.lt_or_ge k s.length with h | h
      · exact h
      · rw [List.drop_eq_nil_of_le h] at hp; cases hp
    have hd := List.drop_eq_getElem_cons hk
    rw [hd] at hp
    simp only [List.cons.injEq] at hp
    exact ⟨k + 1, hp.2, isBoundary_succ_ascii hv hk (by rw [← hp.1]; decide)⟩
  · exact ⟨k, hp, hb⟩

theorem stripAsciiWs_suf {s : Bytes} (hv : valid s = true) : ∀ (ptr : Bytes) (k : Nat), Suf s k ptr →
    ∃ k', Suf s k' (stripAsciiWs ptr) := by
  intro ptr
  induction ptr with
  | nil => intro k h; exact ⟨k, by simpa [stripAsciiWs] using h⟩
  | cons b t ih =>
    intro k h
    unfold stripAsciiWs
    split
    · rename_i hws
      obtain ⟨hp, hb⟩ := h
      have hk : k < s.length := by
        rcases Nat.lt_or_ge k s.length with h | h
        · exact h
        · rw [List.drop_eq_nil_of_le h] at hp; cases hp
      have hd := List.drop_eq_getElem_cons hk
      rw [hd] at hp
      simp only [List.cons.injEq] at hp
      exact ih (k + 1) ⟨hp.2, isBoundary_succ_ascii hv hk (by rw [← hp.1]; exact isAsciiWs_lt hws)⟩
    · exact ⟨k, h⟩

theorem stripPrefix_suf {s ptr ptr' x : Bytes} {k : Nat} (hv : valid s = true) (hx : valid x = true)
    (h : Suf s k ptr) (hs : stripPrefix x ptr = some ptr') : ∃ k', Suf s k' ptr' := by
  obtain ⟨hp, hb⟩ := h
  unfold stripPrefix at hs
  split at hs
  · rename_i hpre
    simp only [Option.some.injEq] at hs
    subst hs
    by_cases hne : x = []
    · subst hne; exact ⟨k, by simpa using hp, hb⟩
    · rw [hp] at hpre
      have := isBoundary_match hv hx hne hpre
      exact ⟨k + x.length, by rw [hp, List.drop_drop], this.2.1⟩
  · cases hs

theorem skipTag_boundary {s name be : Bytes} {off : Nat} {w : Bool} (hv : valid s = true)
    (hn : valid name = true) (hbe : valid be = true) (h : skipTag s name be = some (off, w)) :
    isBoundary s off = true := by
  unfold skipTag at h
  simp only at h
  obtain ⟨k1, h1⟩ := stripDash_suf hv (⟨by simp, isBoundary_zero s⟩ : Suf s 0 s)
  obtain ⟨k2, h2⟩ := stripAsciiWs_suf hv _ _ h1
  split at h
  · cases h
  · rename_i ptr3 hs3
    obtain ⟨k3, h3⟩ := stripPrefix_suf hv hn h2 hs3
    obtain ⟨k4, h4⟩ := stripAsciiWs_suf hv _ _ h3
    obtain ⟨k5, h5⟩ := stripDash_suf hv h4
    split at h
    · cases h
    · rename_i ptr6 hs6
      have hs6' : stripPrefix be (stripDash (stripAsciiWs ptr3)).1 = some ptr6 := hs6
      obtain ⟨k6, hp6, hb6⟩ := stripPrefix_suf hv hbe h5 hs6'
      simp only [Option.some.injEq, Prod.mk.injEq] at h
      have hle := isBoundary_le hb6
      have : off = k6 := by
        rw [← h.1, hp6]; simp; omega
      rw [this]; exact hb6

theorem findSub_prefix (needle : Bytes) : ∀ (hay : Bytes) (i r : Nat), findSub needle hay i = some r →
    needle.isPrefixOf (hay.drop (r - i)) = true := by
  intro hay
  induction hay with
  | nil => intro i r h; simp [findSub] at h
  | cons b t ih =>
    intro i r h
    unfold findSub at h
    split at h
    · rename_i hp
      simp only [Option.some.injEq] at h
      subst h
      simpa using hp
    · have hb := (findSub_bound needle t (i + 1) r h).1
      have := ih (i + 1) r h
      have e : r - i = (r - (i + 1)) + 1 := by omega
      rw [e, List.drop_succ_cons]
      exact this

theorem endraw_valid : valid endrawName = true := by decide
theorem raw_valid : valid rawName = true := by decide

/-- outcome of the raw-block search: never a panic, and the end of the consumed text is a boundary -/
def RawGood (rest : Bytes) : RawRes → Prop
  | .found _ consume _ => isBoundary rest consume = true
  | .panic _ => False
  | _ => True

theorem rawLoop_ok {d : Delims} {rest : Bytes} (hv : valid rest = true) (hbs : valid d.blockStart = true)
    (hbl : d.blockStart.length = 2) (hbe : valid d.blockEnd = true) (bodyStart : Nat) (ews : Bool)
    (hbb : isBoundary rest bodyStart = true) :
    ∀ (fuel offset : Nat), bodyStart ≤ offset → offset ≤ rest.length →
      RawGood rest (rawLoop d rest bodyStart ews fuel offset) := by
  intro fuel
  induction fuel with
  | zero => intro offset _ _; simp [rawLoop, RawGood]
  | succ f ih =>
    intro offset h1 h2
    unfold rawLoop
    split
    · omega
    · have hmem : memstr (rest.drop offset) d.blockStart = .ok (findSub d.blockStart (rest.drop offset) 0) := by
        simp [memstr, hbl]
      rw [hmem]
      split
      · rename_i hh; cases hh
      · simp [RawGood]
      · rename_i block hm
        simp only [Res.ok.injEq] at hm
        have hpre := findSub_prefix _ _ _ _ hm
        simp only [Nat.sub_zero, List.drop_drop] at hpre
        have hne : d.blockStart ≠ [] := by
          intro h; rw [h] at hbl; simp at hbl
        obtain ⟨hb1, hb2, hle⟩ := isBoundary_match hv hbs hne hpre
        rw [hbl] at hb2 hle
        simp only
        have hsf : sliceFrom? rest (offset + block + 2) = some (rest.drop (offset + block + 2)) := by
          simp [sliceFrom?, hb2, hle]
        rw [hsf]
        simp only
        split
        · rename_i endraw wsEnd hsk
          have hsl : slice? rest bodyStart (offset + block)
              = some ((rest.drop bodyStart).take (offset + block - bodyStart)) := by
            unfold slice? getRange
            have : bodyStart ≤ offset + block := by omega
            have : offset + block ≤ rest.length := by omega
            simp [*]
          rw [hsl]
          simp only [RawGood]
          have hvt := valid_drop hv _ hb2
          have := skipTag_boundary hvt endraw_valid hbe hsk
          exact isBoundary_add hb2 this
        · exact ih _ (by omega) (by omega)

theorem findStartMarkerGo_window (d : Delims) : ∀ (s : Bytes) (i r : Nat),
    findStartMarkerGo d s i = some r →
    ∃ a b t, s.drop (r - i) = a :: b :: t ∧
      ([a, b] = d.variableStart ∨ [a, b] = d.blockStart ∨ [a, b] = d.commentStart) := by
  intro s
  induction s with
  | nil => intro i r h; simp [findStartMarkerGo] at h
  | cons a t ih =>
    intro i r h
    cases t with
    | nil => simp [findStartMarkerGo] at h
    | cons b t' =>
      unfold findStartMarkerGo at h
      split at h
      · rename_i hm
        simp only [Option.some.injEq] at h
        subst h
        exact ⟨a, b, t', by simp, hm⟩
      · have hge := findStartMarkerGo_ge d _ _ _ h
        obtain ⟨a', b', t'', hd, hm⟩ := ih (i + 1) r h
        have e : r - i = (r - (i + 1)) + 1 := by omega
        exact ⟨a', b', t'', by rw [e, List.drop_succ_cons]; exact hd, hm⟩

theorem contentLen_boundary {d : Delims} {rest : Bytes} (hd : d.wellFormed = true) :
    isBoundary rest (contentLen d rest) = true := by
  unfold contentLen findStartMarker
  simp only [Delims.wellFormed, Bool.and_eq_true] at hd
  obtain ⟨⟨⟨⟨⟨hbs, _⟩, hvs⟩, _⟩, hcs⟩, _⟩ := hd
  split
  · rename_i start hs
    obtain ⟨a, b, t, hdrop, hm⟩ := findStartMarkerGo_window d _ _ _ hs
    simp only [Nat.sub_zero] at hdrop
    have hlt : start < rest.length := by
      rcases Nat.lt_or_ge start rest.length with h | h
      · exact h
      · rw [List.drop_eq_nil_of_le h] at hdrop; cases hdrop
    have hget : rest[start] = a := by
      have := List.drop_eq_getElem_cons hlt
      rw [this] at hdrop
      simp only [List.cons.injEq] at hdrop
      exact hdrop.1
    have hva : valid [a, b] = true := by
      rcases hm with hm | hm | hm <;> rw [hm] <;> assumption
    exact isBoundary_at_noncont hlt (by rw [hget]; exact valid_head_not_cont hva)
  · exact isBoundary_length rest

theorem stepTemplate_ok {d : Delims} (hd : d.accepted = true) {p0 : Pos} (hv : valid p0.rest = true)
    (st : List State) : (stepTemplate d p0 st).isPanic = false := by
  obtain ⟨hw, hbsl, _, _, _, _, hcel⟩ := accepted_facts hd
  have hw' := hw
  simp only [Delims.wellFormed, Bool.and_eq_true] at hw'
  obtain ⟨⟨⟨⟨⟨hbs, hbe⟩, hvs⟩, hve⟩, hcs⟩, hce⟩ := hw'
  unfold stepTemplate
  simp only
  split
  · rename_i hh
    obtain ⟨ws, p, hp⟩ := checkWsStart_ok hv (getRange_boundary hh).1
    rw [hp]; simp [Step.isPanic]
  · split
    · rename_i hh
      obtain ⟨ws, p, hp⟩ := checkWsStart_ok hv (getRange_boundary hh).1
      rw [hp]
      simp only
      obtain ⟨n, hadv, _⟩ := checkWsStart_adv hp
      have hvp := hadv.valid hv
      split
      · rename_i offset ews hsk
        have hbo := skipTag_boundary hvp raw_valid hbe hsk
        have hgood := rawLoop_ok hvp hbs hbsl hbe offset ews hbo (p.rest.length + 1) offset
          (Nat.le_refl _) (skipTag_le hsk)
        split
        · rename_i body consume wsEnd hr
          rw [hr] at hgood
          obtain ⟨p', hp'⟩ := advance_of_boundary (p := p) hgood
          rw [hp']; simp [Step.isPanic]
        · simp [Step.isPanic]
        · rename_i s hr; rw [hr] at hgood; exact absurd hgood (by simp [RawGood])
        · simp [Step.isPanic]
      · simp [Step.isPanic]
    · split
      · rename_i hh
        obtain ⟨ws, p, hp⟩ := checkWsStart_ok hv (getRange_boundary hh).1
        rw [hp]
        simp only
        obtain ⟨n, hadv, _⟩ := checkWsStart_adv hp
        have hvp := hadv.valid hv
        have hmem : memstr p.rest d.commentEnd = .ok (findSub d.commentEnd p.rest 0) := by
          simp [memstr, hcel]
        rw [hmem]
        split
        · rename_i hh; cases hh
        · rename_i endPos hm
          simp only [Res.ok.injEq] at hm
          have hpre := findSub_prefix _ _ _ _ hm
          simp only [Nat.sub_zero] at hpre
          have hne : d.commentEnd ≠ [] := by
            intro h; rw [h] at hcel; simp at hcel
          obtain ⟨_, hb2, _⟩ := isBoundary_match hvp hce hne hpre
          rw [hcel] at hb2
          obtain ⟨p', hp'⟩ := advance_of_boundary (p := p) hb2
          rw [hp']; simp [Step.isPanic]
        · simp [Step.isPanic]
      · obtain ⟨p', hp'⟩ := advance_of_boundary (p := p0) (contentLen_boundary (d := d) hw)
        rw [hp']; simp [Step.isPanic]

theorem step_ok {d : Delims} (hd : d.accepted = true) {p : Pos} (hv : valid p.rest = true)
    {stack : List State} (hst : StackOk stack) : (step d p stack).isPanic = false := by
  rcases hst with rfl | rfl | rfl
  · simp only [step]; exact stepTemplate_ok hd hv _
  · simp only [step]; exact stepInTag_ok d hv (by simp) _
  · simp only [step]; exact stepInTag_ok d hv (by simp) _

/-- the whole loop never ends in a panic -/
theorem lexLoop_no_panic {d : Delims} (hd : d.accepted = true) : ∀ (fuel : Nat) (p : Pos) (stack : List State),
    StackOk stack → valid p.rest = true → ∀ s, (lexLoop d fuel p stack).ending ≠ .panic s := by
  intro fuel
  induction fuel with
  | zero => intro p stack _ _ s; simp [lexLoop]
  | succ f ih =>
    intro p stack hst hv s
    unfold lexLoop
    split
    · simp
    · have hs := step_adv d p stack
      have hok := step_ok hd hv hst
      split
      · rename_i tok span p' stack' heq
        rw [heq] at hs
        obtain ⟨n, hadv, _, _, _⟩ := hs
        exact ih p' stack' (step_stack d p stack hst heq) (hadv.valid hv) s
      · rename_i p' heq
        rw [heq] at hs
        obtain ⟨n, hadv, _, _⟩ := hs
        exact ih p' stack hst (hadv.valid hv) s
      · simp
      · rename_i s' heq; rw [heq] at hok; simp [Step.isPanic] at hok
      · simp

end Tera.Lexer
